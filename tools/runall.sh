#!/bin/bash
# runall.sh [tier]: every check once on /repo as it is; one summary line per property
cd /verif
tier=${1:-quick}
for p in C01 C02 C03 C04 C05 C06 C07 C08 C09 C10 C11 C12 C13 C14 C15 C16 C17 C18; do
  s=$(date +%s)
  ./check $p --tier $tier > /tmp/runall_$p.log 2>&1
  rc=$?
  echo "$p exit=$rc $(( $(date +%s) - s ))s $(grep -c '^KNOWN-FINDING' /tmp/runall_$p.log) known $(grep -E '^VIOLATION' /tmp/runall_$p.log | head -2 | tr '\n' ' ')"
done
