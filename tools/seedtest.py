#!/usr/bin/env python3
"""seedtest.py confirm <seed-id>      confirm a seeded change in a fresh scratch worktree of /repo:
                                       suite passes with it, demo fails with it, demo passes without it
   seedtest.py detect <seed-id> [pid..] apply the patch to /repo, run ./check <pid> --tier quick for the
                                       property (or the listed ones), undo the patch; report detection
Seeds live in /verif/seeded/<id>/{patch.diff, demo_test.go|demo/main.go, meta.json}; meta.json needs
"property", "demo_dest" (path of the demo inside the repo) and "demo_run" (go test arguments)."""
import sys, os, json, subprocess, shutil, tempfile, time

VERIF = os.path.dirname(os.path.dirname(os.path.abspath(__file__)))
ENV = dict(os.environ, GOFLAGS="-mod=mod", GOPROXY="off", GOSUMDB="off", GOTOOLCHAIN="local")

def sh(cmd, cwd=None, timeout=3000):
    p = subprocess.run(cmd, cwd=cwd, env=ENV, shell=isinstance(cmd, str), stdout=subprocess.PIPE, stderr=subprocess.STDOUT, text=True, errors="replace", timeout=timeout)
    return p.returncode, p.stdout

def confirm(sid):
    d = os.path.join(VERIF, "seeded", sid)
    meta = json.load(open(os.path.join(d, "meta.json")))
    wt = tempfile.mkdtemp(prefix="seed-", dir="/tmp")
    os.rmdir(wt)
    rc, o = sh(["git", "-C", "/repo", "worktree", "add", "-q", "--detach", wt, "HEAD"])
    assert rc == 0, o
    res = {}
    try:
        demo_src = os.path.join(d, meta.get("demo_file", "demo_test.go"))
        dest = os.path.join(wt, meta["demo_dest"])
        run = meta["demo_run"]
        os.makedirs(os.path.dirname(dest), exist_ok=True)
        # without the change
        shutil.copy(demo_src, dest)
        rc, o = sh("go test -vet=off -count=1 " + run, cwd=wt)
        res["demo_passes_without_change"] = rc == 0
        if rc != 0: res["demo_without_out"] = o[-800:]
        os.remove(dest)
        rc, o = sh(["git", "apply", os.path.join(d, "patch.diff")], cwd=wt)
        assert rc == 0, "patch does not apply: " + o
        rc, o = sh("go build ./... && go test -vet=off -count=1 ./...", cwd=wt)
        res["suite_passes_with_change"] = rc == 0
        if rc != 0: res["suite_out"] = o[-1500:]
        shutil.copy(demo_src, dest)
        rc, o = sh("go test -vet=off -count=1 " + run, cwd=wt)
        res["demo_fails_with_change"] = rc != 0
        res["demo_with_out"] = o[-600:]
    finally:
        sh(["git", "-C", "/repo", "worktree", "remove", "--force", wt])
    print(json.dumps(res, indent=1))
    ok = res.get("demo_passes_without_change") and res.get("suite_passes_with_change") and res.get("demo_fails_with_change")
    meta["confirmed"] = {k: v for k, v in res.items() if isinstance(v, bool)}
    meta["confirmed_how"] = "tools/seedtest.py confirm %s (fresh worktree of /repo HEAD %s)" % (sid, sh(["git", "-C", "/repo", "rev-parse", "--short", "HEAD"])[1].strip())
    json.dump(meta, open(os.path.join(d, "meta.json"), "w"), indent=1)
    return 0 if ok else 1

def detect(sid, pids):
    """with VERIF_REPO set (a scratch checkout, e.g. $VP_RUN_REPO of `vp run --with-repo`) the patch is applied
    there and the checks of this copy of /verif run against it: /repo and /verif themselves stay untouched"""
    d = os.path.join(VERIF, "seeded", sid)
    meta = json.load(open(os.path.join(d, "meta.json")))
    pids = pids or [meta["property"]]
    repo = os.environ.get("VERIF_REPO", "/repo")
    isolated = repo != "/repo"
    if not isolated:
        rc, o = sh(["git", "-C", repo, "status", "--porcelain"])
        assert o.strip() == "", "/repo not clean: " + o
    rc, o = sh(["git", "apply", os.path.join(d, "patch.diff")], cwd=repo)
    assert rc == 0, "patch does not apply: " + o
    out = {}
    # the evidence files are the record of the unchanged tree: keep them out of a run on a changed tree
    saved = {}
    for pid in pids:
        ev = os.path.join(VERIF, "evidence", pid + ".json")
        if os.path.exists(ev):
            saved[ev] = open(ev).read()
    try:
        for pid in pids:
            t0 = time.time()
            rc, o = sh([os.path.join(VERIF, "check"), pid, "--tier", os.environ.get("SEED_TIER", "quick")], cwd=VERIF)
            vio = [l for l in o.split("\n") if l.startswith("VIOLATION")]
            key = [l for l in o.split("\n") if any(l.startswith(p) for p in ("OBLIGATION-BROKEN", "TIE-BROKEN", "CORRESPONDENCE-BROKEN", "AUDIT-BROKEN", "ORACLE"))]
            out[pid] = {"exit": rc, "violation_lines": vio, "signals": [k[:300] for k in key[:6]], "wall_s": round(time.time() - t0, 1)}
            print(pid, "exit", rc, vio, *key[:6], sep="\n  ")
    finally:
        if isolated:
            sh(["git", "apply", "-R", os.path.join(d, "patch.diff")], cwd=repo)
        else:
            sh(["git", "-C", "/repo", "checkout", "--", "."])
            sh(["git", "-C", "/repo", "clean", "-fdq"])  # patches that add files
        for ev, txt in saved.items():
            open(ev, "w").write(txt)
    meta.setdefault("detection", {}).update(out)
    json.dump(meta, open(os.path.join(d, "meta.json"), "w"), indent=1)
    if os.environ.get("SEED_RESULTS"):
        with open(os.environ["SEED_RESULTS"], "a") as f:
            f.write(json.dumps({"seed": sid, "detection": out}) + "\n")
    return 0

if __name__ == "__main__":
    if sys.argv[1] == "confirm":
        sys.exit(confirm(sys.argv[2]))
    if sys.argv[1] == "detect-all":      # detect-all <seed-id>...: each seed against its own property
        for sid in sys.argv[2:]:
            try:
                detect(sid, [])
            except AssertionError as e:
                print(sid, "ERROR", e)
        sys.exit(0)
    sys.exit(detect(sys.argv[2], sys.argv[3:]))
