#!/bin/bash
# withseed.sh <seed-id> <command...>: apply the seed to /repo, rebuild the harness, run the command, undo
id=$1; shift
cd /verif
export GOFLAGS=-mod=mod GOPROXY=off GOSUMDB=off GOTOOLCHAIN=local
[ -z "$(git -C /repo status --porcelain)" ] || { echo "/repo not clean"; exit 2; }
git -C /repo apply /verif/seeded/$id/patch.diff || exit 2
(cd harness && go build -tags verif -o ../bin/harness .) || echo "HARNESS BUILD FAILED"
"$@"; rc=$?
git -C /repo checkout -- . ; git -C /repo clean -fdq
(cd harness && go build -tags verif -o ../bin/harness .)
exit $rc
