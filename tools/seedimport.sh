#!/bin/bash
# seedimport.sh <PID> <round>: import /tmp/seedout/<PID>-<round> into /verif/seeded, drop the agent's worktree, confirm, detect
set -u
id="$1-$2"
cd /verif
[ -d seeded/$id ] || cp -r /tmp/seedout/$id seeded/$id
git -C /repo worktree remove --force /tmp/wt$2-$1 2>/dev/null
python3 tools/seedtest.py confirm $id > /tmp/seedout/$id.confirm.log 2>&1
echo "confirm exit $?"; tail -12 /tmp/seedout/$id.confirm.log
python3 tools/seedtest.py detect $id > /tmp/seedout/$id.detect.log 2>&1
echo "detect exit $?"; tail -12 /tmp/seedout/$id.detect.log
git -C /repo status --short | head -3
