#!/bin/bash
# seedimport.sh <prop> <round> [worktree]: import a sub-agent's _seed directory into /verif/seeded/<prop>-<round>,
# confirm it in a fresh worktree (tools/seedtest.py confirm) and remove the sub-agent's worktree
set -e
P=$1; R=$2; WT=${3:-/tmp/s$R-$P}
D=/verif/seeded/$P-$R
mkdir -p $D
cp $WT/_seed/patch.diff $D/patch.diff
cp $WT/_seed/meta.json $D/meta.json
demo=$(ls $WT/_seed/*.go | head -1)
cp $demo $D/$(basename $demo)
python3 - "$D" "$(basename $demo)" <<'PY'
import json,sys
d,demo=sys.argv[1],sys.argv[2]
m=json.load(open(d+'/meta.json'))
m['demo_file']=demo
if m['demo_run'].startswith('go test'):
    m['demo_run']=m['demo_run'].replace('go test','').replace('-vet=off','').replace('-count=1','').strip()
json.dump(m,open(d+'/meta.json','w'),indent=1)
PY
python3 /verif/tools/seedtest.py confirm $P-$R
git -C /repo worktree remove --force $WT
