package main

import (
	"fmt"
	"go/ast"
	"go/token"
	"path/filepath"
	"sort"
	"strconv"
	"strings"
)

// genScanCode (component "scancode"): the action blocks of the ragel-generated scanner as code for the
// executable scanner model (Model/Scan.lean).  Every `trN:` segment of `Lex` is translated statement
// by statement into a small instruction language (assignments to p / ts / te / act / cs, calls of the
// hand-written glue, token id, conditionals over bytes of the input, `switch lex.act`, goto); the
// to-state (`lex.ts = 0` at `stN:`) and from-state (`lex.ts = (lex.p)` at `st_case_N:`) actions and
// the end-of-input table (`switch lex.cs` under `_test_eof`) are extracted as well.  A statement
// outside the recognised shapes breaks the tie (component scancode).  The transition function comes
// from scandfa.go.  The model is run against the real scanner by `diff-scanner`.

type scEmit struct {
	c    *ctx
	bad  []string
	tokC func(string) int
}

func (e *scEmit) fail(msg string) {
	if len(e.bad) < 20 {
		e.bad = append(e.bad, msg)
	}
}

func stripParens(x ast.Expr) ast.Expr {
	for {
		p, ok := x.(*ast.ParenExpr)
		if !ok {
			return x
		}
		x = p.X
	}
}

func (e *scEmit) expr(x ast.Expr) string {
	x = stripParens(x)
	switch t := x.(type) {
	case *ast.BasicLit:
		if t.Kind == token.INT {
			return "(.lit " + t.Value + ")"
		}
		if t.Kind == token.CHAR {
			if s, err := strconv.Unquote(t.Value); err == nil && len(s) == 1 {
				return fmt.Sprintf("(.lit %d)", s[0])
			}
		}
	case *ast.SelectorExpr:
		switch nodeText(t) {
		case "lex.p":
			return ".p"
		case "lex.pe":
			return ".pe"
		case "lex.ts":
			return ".ts"
		case "lex.te":
			return ".te"
		case "lex.top":
			return ".top"
		}
	case *ast.Ident:
		switch t.Name {
		case "lblStart":
			return ".lblS"
		case "lblEnd":
			return ".lblE"
		}
	case *ast.CallExpr:
		if nodeText(t) == "len(lex.data)" {
			return ".len"
		}
	case *ast.IndexExpr:
		if nodeText(t.X) == "lex.data" {
			return "(.at " + e.expr(t.Index) + ")"
		}
	case *ast.BinaryExpr:
		if t.Op == token.ADD {
			return "(.add " + e.expr(t.X) + " " + e.expr(t.Y) + ")"
		}
		if t.Op == token.SUB {
			return "(.sub " + e.expr(t.X) + " " + e.expr(t.Y) + ")"
		}
	}
	e.fail("expression " + clipText(nodeText(x), 60))
	return "(.lit 0)"
}

func (e *scEmit) cond(x ast.Expr) string {
	x = stripParens(x)
	switch t := x.(type) {
	case *ast.Ident:
		if t.Name == "isDocComment" {
			return ".docFlag"
		}
	case *ast.UnaryExpr:
		if t.Op == token.NOT {
			return "(.not " + e.cond(t.X) + ")"
		}
	case *ast.CallExpr:
		fn := nodeText(t.Fun)
		if fn == "lex.isHeredocEnd" && len(t.Args) == 1 {
			return "(.heredocEnd " + e.expr(t.Args[0]) + ")"
		}
		if fn == "isValidVarNameStart" && len(t.Args) == 1 {
			return "(.varStart " + e.expr(t.Args[0]) + ")"
		}
	case *ast.BinaryExpr:
		switch t.Op {
		case token.LAND:
			return "(.and " + e.cond(t.X) + " " + e.cond(t.Y) + ")"
		case token.LOR:
			return "(.or " + e.cond(t.X) + " " + e.cond(t.Y) + ")"
		case token.EQL, token.NEQ, token.LSS, token.GTR, token.LEQ, token.GEQ:
			if nodeText(t.X) == "err" && nodeText(t.Y) == "nil" && t.Op == token.EQL {
				return ".parseOk"
			}
			// string(lex.data[a:b]) == "lit"
			if ce, ok := stripParens(t.X).(*ast.CallExpr); ok && nodeText(ce.Fun) == "string" && len(ce.Args) == 1 && t.Op == token.EQL {
				if se, ok := ce.Args[0].(*ast.SliceExpr); ok && nodeText(se.X) == "lex.data" {
					if bl, ok := t.Y.(*ast.BasicLit); ok && bl.Kind == token.STRING {
						s, _ := strconv.Unquote(bl.Value)
						var bs []string
						for _, ch := range []byte(s) {
							bs = append(bs, strconv.Itoa(int(ch)))
						}
						return "(.sliceIs " + e.expr(se.Low) + " " + e.expr(se.High) + " [" + strings.Join(bs, ", ") + "])"
					}
				}
			}
			op := map[token.Token]int{token.EQL: 0, token.NEQ: 1, token.LSS: 2, token.GTR: 3, token.LEQ: 4, token.GEQ: 5}[t.Op]
			return fmt.Sprintf("(.cmp %d %s %s)", op, e.expr(t.X), e.expr(t.Y))
		}
	}
	e.fail("condition " + clipText(nodeText(x), 60))
	return "(.cmp 0 (.lit 0) (.lit 1))"
}

func (e *scEmit) stmts(list []ast.Stmt) string {
	var out []string
	for _, st := range list {
		if s := e.stmt(st); s != "" {
			out = append(out, s)
		}
	}
	return "[" + strings.Join(out, ", ") + "]"
}

func (e *scEmit) stmt(st ast.Stmt) string {
	switch s := st.(type) {
	case *ast.EmptyStmt:
		return ""
	case *ast.LabeledStmt:
		return e.stmt(s.Stmt)
	case *ast.BlockStmt:
		return ".blk " + e.stmts(s.List)
	case *ast.BranchStmt:
		if s.Tok == token.GOTO {
			switch s.Label.Name {
			case "_out":
				return ".out"
			case "_again":
				return ".again"
			}
			if code, ok := labelCode(s.Label.Name); ok {
				return fmt.Sprintf(".goto %d", code)
			}
		}
	case *ast.IncDecStmt:
		x := nodeText(stripParens(s.X))
		if x == "lex.p" {
			if s.Tok == token.INC {
				return ".setP (.add .p (.lit 1))"
			}
			return ".setP (.sub .p (.lit 1))"
		}
		if x == "lex.top" {
			if s.Tok == token.INC {
				return ".topInc"
			}
			return ".topDec"
		}
	case *ast.AssignStmt:
		if len(s.Lhs) == 1 && len(s.Rhs) == 1 {
			l := nodeText(stripParens(s.Lhs[0]))
			r := s.Rhs[0]
			switch l {
			case "lex.te":
				return ".setTe " + e.expr(r)
			case "lex.ts":
				return ".setTs " + e.expr(r)
			case "lex.p":
				return ".setP " + e.expr(r)
			case "lex.act":
				if bl, ok := r.(*ast.BasicLit); ok {
					return ".setAct " + bl.Value
				}
			case "lex.cs":
				if bl, ok := r.(*ast.BasicLit); ok {
					return ".setCs " + bl.Value
				}
				if nodeText(r) == "lex.stack[lex.top]" {
					return ".csFromStack"
				}
			case "lex.stack[lex.top]":
				if bl, ok := r.(*ast.BasicLit); ok {
					return ".stackSet " + bl.Value
				}
			case "tok":
				rt := strings.ReplaceAll(nodeText(r), " ", "")
				if rt == "token.ID(int(lex.data[lex.ts]))" {
					return ".tokFirst"
				}
				if k := e.tokC(nodeText(r)); k >= 0 {
					return fmt.Sprintf(".tok %d", k)
				}
			case "base":
				if bl, ok := r.(*ast.BasicLit); ok {
					return ".setBase " + bl.Value
				}
			case "isDocComment":
				return ".setDoc " + nodeText(r)
			case "lblStart":
				if nodeText(r) == "lex.p" {
					return ".lblStart"
				}
			case "lblEnd":
				if nodeText(r) == "lex.p" {
					return ".lblEnd"
				}
			case "lex.heredocLabel":
				if nodeText(r) == "lex.data[lblStart:lblEnd]" {
					return ".setLabel"
				}
			case "c":
				if nodeText(r) == "lex.data[lex.p]" {
					return "" // only used by the error message
				}
			case "s":
				// s := strings.Replace(string(lex.data[a:b]), "_", "", -1)
				if ce, ok := r.(*ast.CallExpr); ok && nodeText(ce.Fun) == "strings.Replace" && len(ce.Args) == 4 && nodeText(ce.Args[1]) == `"_"` && nodeText(ce.Args[2]) == `""` {
					if c2, ok := ce.Args[0].(*ast.CallExpr); ok && nodeText(c2.Fun) == "string" {
						if se, ok := c2.Args[0].(*ast.SliceExpr); ok && nodeText(se.X) == "lex.data" {
							return ".setDigits " + e.expr(se.Low) + " " + e.expr(se.High)
						}
					}
				}
			}
		}
		if len(s.Lhs) == 2 && len(s.Rhs) == 1 && nodeText(s.Lhs[0]) == "_" && nodeText(s.Lhs[1]) == "err" {
			if ce, ok := s.Rhs[0].(*ast.CallExpr); ok && nodeText(ce.Fun) == "strconv.ParseInt" && len(ce.Args) == 3 && nodeText(ce.Args[0]) == "s" && nodeText(ce.Args[2]) == "0" {
				if bl, ok := ce.Args[1].(*ast.BasicLit); ok {
					return ".parse (some " + bl.Value + ")"
				}
				if nodeText(ce.Args[1]) == "base" {
					return ".parse none"
				}
			}
		}
	case *ast.ExprStmt:
		if ce, ok := s.X.(*ast.CallExpr); ok {
			fn := nodeText(ce.Fun)
			switch fn {
			case "lex.setTokenPosition":
				if len(ce.Args) == 1 && nodeText(ce.Args[0]) == "tkn" {
					return ".tokPos"
				}
			case "lex.addFreeFloatingToken":
				if len(ce.Args) == 4 && nodeText(ce.Args[0]) == "tkn" {
					if k := e.tokC(nodeText(ce.Args[1])); k >= 0 {
						return fmt.Sprintf(".addFF %d %s %s", k, e.expr(ce.Args[2]), e.expr(ce.Args[3]))
					}
				}
			case "lex.ungetCnt":
				if len(ce.Args) == 1 {
					return ".ungetCnt " + e.expr(ce.Args[0])
				}
			case "lex.ungetStr":
				if len(ce.Args) == 1 {
					if bl, ok := ce.Args[0].(*ast.BasicLit); ok && bl.Kind == token.STRING {
						s, _ := strconv.Unquote(bl.Value)
						var bs []string
						for _, ch := range []byte(s) {
							bs = append(bs, strconv.Itoa(int(ch)))
						}
						return ".ungetStr [" + strings.Join(bs, ", ") + "]"
					}
				}
			case "lex.call":
				if len(ce.Args) == 2 {
					a, ok1 := ce.Args[0].(*ast.BasicLit)
					b, ok2 := ce.Args[1].(*ast.BasicLit)
					if ok1 && ok2 {
						return ".call " + a.Value + " " + b.Value
					}
				}
			case "lex.ret":
				if len(ce.Args) == 1 {
					if a, ok := ce.Args[0].(*ast.BasicLit); ok {
						return ".ret " + a.Value
					}
				}
			case "lex.growCallStack":
				return ".grow"
			case "lex.error":
				if len(ce.Args) == 1 && strings.Contains(nodeText(ce.Args[0]), "WARNING: Unexpected character in input") {
					return ".err"
				}
			case "lex.newLines.Append":
				if len(ce.Args) == 1 {
					return ".nlAppend " + e.expr(ce.Args[0])
				}
			}
		}
	case *ast.IfStmt:
		if s.Init == nil {
			els := "[]"
			if s.Else != nil {
				if b, ok := s.Else.(*ast.BlockStmt); ok {
					els = e.stmts(b.List)
				} else {
					els = "[" + e.stmt(s.Else) + "]"
				}
			}
			return ".ite " + e.cond(s.Cond) + " " + e.stmts(s.Body.List) + " " + els
		}
	case *ast.SwitchStmt:
		if s.Init == nil && s.Tag != nil && nodeText(s.Tag) == "lex.act" {
			var cases []string
			for _, cc := range s.Body.List {
				cl := cc.(*ast.CaseClause)
				for _, cv := range cl.List {
					if bl, ok := cv.(*ast.BasicLit); ok {
						cases = append(cases, "("+bl.Value+", "+e.stmts(cl.Body)+")")
					} else {
						e.fail("switch lex.act case " + nodeText(cv))
					}
				}
			}
			return ".swAct [" + strings.Join(cases, ", ") + "]"
		}
	case *ast.DeclStmt:
		return ""
	}
	e.fail("statement " + clipText(nodeText(st), 70))
	return ""
}

func genScanCode(c *ctx, segs []dfaSeg, tokCode func(string) int, lexFn *ast.FuncDecl) {
	const comp = "scancode"
	e := &scEmit{c: c, tokC: tokCode}
	var b strings.Builder
	b.WriteString("-- GENERATED by gofacts from internal/scanner/scanner.go (action blocks, entry / exit actions, end-of-input table of the ragel scanner). Do not edit.\nimport PhpVerif.Model.Scan\nnamespace PhpVerif.Gen\nopen PhpVerif\n\n")
	type blk struct {
		n    int
		name string
	}
	var blocks []blk
	var toState, toStateAct, fromState []int
	for _, sg := range segs {
		switch {
		case strings.HasPrefix(sg.label, "tr"):
			n, err := strconv.Atoi(sg.label[2:])
			if err != nil {
				continue
			}
			code := e.stmts(sg.stmts)
			nm := fmt.Sprintf("scanTr_%d", n)
			fmt.Fprintf(&b, "def %s : List SI := %s\n", nm, code)
			blocks = append(blocks, blk{n, nm})
		case strings.HasPrefix(sg.label, "st_case_"):
			n, err := strconv.Atoi(strings.TrimPrefix(sg.label, "st_case_"))
			if err != nil {
				continue
			}
			for _, st := range sg.stmts {
				if as, ok := st.(*ast.AssignStmt); ok && len(as.Lhs) == 1 && nodeText(as.Lhs[0]) == "lex.ts" {
					if nodeText(stripParens(as.Rhs[0])) == "lex.p" {
						fromState = append(fromState, n)
					} else {
						e.fail(fmt.Sprintf("state %d: from-state action %s", n, nodeText(st)))
					}
				}
			}
		case strings.HasPrefix(sg.label, "st") && !strings.HasPrefix(sg.label, "st_"):
			n, err := strconv.Atoi(sg.label[2:])
			if err != nil || n == 0 {
				continue
			}
			// `stN:` — optional `lex.ts = 0`, then `if (lex.p)++; (lex.p) == (lex.pe) { goto _test_eofN }`
			for i, st := range sg.stmts {
				if as, ok := st.(*ast.AssignStmt); ok && len(as.Lhs) == 1 && nodeText(as.Lhs[0]) == "lex.ts" && nodeText(as.Rhs[0]) == "0" {
					toState = append(toState, n)
					continue
				}
				if as, ok := st.(*ast.AssignStmt); ok && len(as.Lhs) == 1 && nodeText(as.Lhs[0]) == "lex.act" && nodeText(as.Rhs[0]) == "0" {
					toStateAct = append(toStateAct, n)
					continue
				}
				if is, ok := st.(*ast.IfStmt); ok && is.Init != nil {
					want := fmt.Sprintf("if (lex.p)++; (lex.p) == (lex.pe) { goto _test_eof%d }", n)
					if nodeText(is) != want {
						e.fail(fmt.Sprintf("state %d: advance statement %s", n, clipText(nodeText(is), 80)))
					}
					continue
				}
				e.fail(fmt.Sprintf("state %d: statement %d %s", n, i, clipText(nodeText(st), 60)))
			}
		}
	}
	sort.Slice(blocks, func(i, j int) bool { return blocks[i].n < blocks[j].n })
	var groups []string
	for i := 0; i < len(blocks); i += 32 {
		j := i + 32
		if j > len(blocks) {
			j = len(blocks)
		}
		var rows []string
		for _, bk := range blocks[i:j] {
			rows = append(rows, fmt.Sprintf("(%d, %s)", 10000+bk.n, bk.name))
		}
		gn := fmt.Sprintf("scanTrs_g%d", i/32)
		fmt.Fprintf(&b, "def %s : List (Nat × List SI) := [%s]\n", gn, strings.Join(rows, ", "))
		groups = append(groups, gn)
	}
	fmt.Fprintf(&b, "def scanTrs : List (Nat × List SI) := [%s].flatten\n", strings.Join(groups, ", "))
	// end-of-input table
	var eofRows []string
	ast.Inspect(lexFn.Body, func(n ast.Node) bool {
		ls, ok := n.(*ast.LabeledStmt)
		if !ok || ls.Label.Name != "_test_eof" {
			return true
		}
		return false
	})
	// the `if (lex.p) == eof { switch lex.cs { … } }` statement follows the `_test_eof:` label in the same block
	ast.Inspect(lexFn.Body, func(n ast.Node) bool {
		is, ok := n.(*ast.IfStmt)
		if !ok || nodeText(is.Cond) != "(lex.p) == eof" {
			return true
		}
		for _, st := range is.Body.List {
			sw, ok := st.(*ast.SwitchStmt)
			if !ok || nodeText(sw.Tag) != "lex.cs" {
				e.fail("end-of-input block: " + clipText(nodeText(st), 60))
				continue
			}
			for _, cc := range sw.Body.List {
				cl := cc.(*ast.CaseClause)
				if len(cl.Body) != 1 {
					e.fail("end-of-input case with more than one statement")
					continue
				}
				br, ok := cl.Body[0].(*ast.BranchStmt)
				if !ok || br.Tok != token.GOTO {
					e.fail("end-of-input case: " + nodeText(cl.Body[0]))
					continue
				}
				code, ok := labelCode(br.Label.Name)
				if !ok {
					e.fail("end-of-input target " + br.Label.Name)
					continue
				}
				for _, cv := range cl.List {
					eofRows = append(eofRows, fmt.Sprintf("(%s, %d)", nodeText(cv), code))
				}
			}
		}
		return false
	})
	var eg []string
	for i := 0; i < len(eofRows); i += 48 {
		j := i + 48
		if j > len(eofRows) {
			j = len(eofRows)
		}
		gn := fmt.Sprintf("scanEof_g%d", i/48)
		fmt.Fprintf(&b, "def %s : List (Nat × Nat) := [%s]\n", gn, strings.Join(eofRows[i:j], ", "))
		eg = append(eg, gn)
	}
	fmt.Fprintf(&b, "/-- end of input in state cs: the action block to run -/\ndef scanEof : List (Nat × Nat) := [%s].flatten\n", strings.Join(eg, ", "))
	sort.Ints(toState)
	sort.Ints(toStateAct)
	sort.Ints(fromState)
	fmt.Fprintf(&b, "/-- states entered with `act = 0` as well -/\ndef scanToStateAct : List Nat := %s\n", natList(toStateAct))
	fmt.Fprintf(&b, "/-- states entered with `ts = 0` (to-state action) and states that set `ts = p` before their transition (from-state action) -/\ndef scanToState : List Nat := %s\ndef scanFromState : List Nat := %s\n", natList(toState), natList(fromState))
	b.WriteString("\nend PhpVerif.Gen\n")
	writeIfChanged(filepath.Join(c.out, "ScanCode.lean"), b.String())
	for _, m := range e.bad {
		c.fail(comp, lexFn.Pos(), "%s", m)
	}
	c.side["scancode"] = map[string]int{"blocks": len(blocks), "eof_entries": len(eofRows), "to_state": len(toState), "from_state": len(fromState)}
}
