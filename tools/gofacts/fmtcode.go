package main

import (
	"crypto/sha1"
	"fmt"
	"go/ast"
	"go/token"
	"path/filepath"
	"regexp"
	"strconv"
	"strings"
)

// genFmtCode: every per-kind method of pkg/visitor/formatter/formatter.go as a list of instructions of
// Model/Fmt.lean (`FI`).  A recogniser: every statement must be one of a closed list of shapes, anything
// else breaks the tie.  The helpers the instructions stand for (addFreeFloating, addIndent,
// getFreeFloating, newToken, formatList, formatStmts, newSemicolonTkn, insert) are modelled by hand in
// Model/Fmt.lean; their text is pinned here.

// sha1 of the printed text of the formatter's type, constructors and helpers as modelled
const fmtHelpersPin = "a9be0534c020ec6876d139da8460068de2d1a9c9"

var fmtHelperNames = []string{"NewFormatter", "WithState", "WithIndent", "addFreeFloating", "addIndent", "resetFreeFloating",
	"getFreeFloating", "newToken", "formatList", "formatStmts", "newSemicolonTkn", "insert", "heredocLabel", "heredocOpener"}

type fi struct {
	op   string // Lean constructor with scalar arguments already rendered
	cond string
	a, b []fi
	// for the analyses
	acceptField int // child field accepted by this instruction (-1 none)
}

type fmtTr struct {
	c      *ctx
	s      *schema
	k      *kind
	m      *method
	comp   string
	flags  map[string]int
	regs   map[string]int
	tokNum map[string]int
	ok     bool
}

func tokenNumbers(c *ctx) map[string]int {
	tokNum := map[string]int{}
	tf := c.parseFile("pkg/token/token.go")
	if tf == nil {
		return tokNum
	}
	for _, d := range tf.Decls {
		gd, ok := d.(*ast.GenDecl)
		if !ok || gd.Tok != token.CONST {
			continue
		}
		base := -1
		for i, sp := range gd.Specs {
			vs := sp.(*ast.ValueSpec)
			if i == 0 && len(vs.Values) == 1 {
				if be, ok := vs.Values[0].(*ast.BinaryExpr); ok && nodeText(be.X) == "iota" {
					if bl, ok := be.Y.(*ast.BasicLit); ok {
						base, _ = strconv.Atoi(bl.Value)
					}
				}
			}
			if base < 0 {
				break
			}
			for _, n := range vs.Names {
				tokNum["token."+n.Name] = base + i
			}
		}
	}
	return tokNum
}

func (t *fmtTr) fail(n ast.Node, format string, a ...interface{}) {
	t.ok = false
	t.c.fail(t.comp, n.Pos(), "%s: "+format, append([]interface{}{t.k.Name}, a...)...)
}

func bytesLean(s string) string {
	var q []string
	for _, b := range []byte(s) {
		q = append(q, strconv.Itoa(int(b)))
	}
	return "[" + strings.Join(q, ", ") + "]"
}

// field of the node: index and sort
func (t *fmtTr) field(e ast.Expr) (int, int, bool) {
	name, ok := selField(e, t.m.par)
	if !ok {
		return 0, 0, false
	}
	i := t.k.fieldIndex(name)
	if i < 0 {
		return 0, 0, false
	}
	return i, t.k.Fields[i].Sort, true
}

func charLit(e ast.Expr) (int, bool) {
	bl, ok := e.(*ast.BasicLit)
	if !ok || bl.Kind != token.CHAR {
		return 0, false
	}
	u, err := strconv.Unquote(bl.Value)
	if err != nil || len(u) != 1 {
		return 0, false
	}
	return int(u[0]), true
}

func (t *fmtTr) tokID(e ast.Expr) (int, bool) {
	if ch, ok := charLit(e); ok {
		return ch, true
	}
	if n, ok := t.tokNum[nodeText(e)]; ok {
		return n, true
	}
	return 0, false
}

// len(n.F) -> field
func (t *fmtTr) lenOf(e ast.Expr) (int, int, bool) {
	ce, ok := e.(*ast.CallExpr)
	if !ok || len(ce.Args) != 1 || nodeText(ce.Fun) != "len" {
		return 0, 0, false
	}
	return t.field(ce.Args[0])
}

func (t *fmtTr) kindsOf(types []ast.Expr) ([]string, bool) {
	var out []string
	for _, ty := range types {
		se, ok := ty.(*ast.StarExpr)
		if !ok {
			return nil, false
		}
		sel, ok := se.X.(*ast.SelectorExpr)
		if !ok || nodeText(sel.X) != "ast" {
			return nil, false
		}
		ki, ok := t.s.byName[sel.Sel.Name]
		if !ok {
			return nil, false
		}
		out = append(out, strconv.Itoa(ki))
	}
	return out, true
}

func (t *fmtTr) cond(e ast.Expr) (string, bool) {
	switch x := e.(type) {
	case *ast.ParenExpr:
		return t.cond(x.X)
	case *ast.Ident:
		if i, ok := t.flags[x.Name]; ok {
			return fmt.Sprintf("(.flag %d)", i), true
		}
	case *ast.UnaryExpr:
		if x.Op == token.NOT {
			if c, ok := t.cond(x.X); ok {
				return "(.not " + c + ")", true
			}
		}
	case *ast.BinaryExpr:
		switch x.Op {
		case token.LAND:
			// n.F != nil && bytes.IndexByte(n.F.Value, 'c') >= 0
			if l, ok := x.X.(*ast.BinaryExpr); ok && l.Op == token.NEQ && isNil(l.Y) {
				if f, so, ok := t.field(l.X); ok && so == sortTok {
					if r, ok := x.Y.(*ast.BinaryExpr); ok && r.Op == token.GEQ && nodeText(r.Y) == "0" {
						if ce, ok := r.X.(*ast.CallExpr); ok && nodeText(ce.Fun) == "bytes.IndexByte" && len(ce.Args) == 2 {
							if nodeText(ce.Args[0]) == nodeText(l.X)+".Value" {
								if ch, ok := charLit(ce.Args[1]); ok {
									return fmt.Sprintf("(.tokValHas %d %d)", f, ch), true
								}
							}
						}
					}
				}
			}
			a, ok1 := t.cond(x.X)
			b, ok2 := t.cond(x.Y)
			if ok1 && ok2 {
				return "(.and " + a + " " + b + ")", true
			}
		case token.LOR:
			a, ok1 := t.cond(x.X)
			b, ok2 := t.cond(x.Y)
			if ok1 && ok2 {
				return "(.or " + a + " " + b + ")", true
			}
		case token.NEQ, token.EQL:
			if isNil(x.Y) {
				if f, so, ok := t.field(x.X); ok {
					var c string
					switch so {
					case sortTok:
						c = fmt.Sprintf("(.tokNil %d)", f)
					case sortNode:
						c = fmt.Sprintf("(.kidNil %d)", f)
					case sortNodes:
						c = fmt.Sprintf("(.listNil %d)", f)
					default:
						return "", false
					}
					if x.Op == token.NEQ {
						c = "(.not " + c + ")"
					}
					return c, true
				}
			}
		case token.GTR:
			// len(n.F) > 0
			if nodeText(x.Y) == "0" {
				if f, so, ok := t.lenOf(x.X); ok && so == sortNodes {
					return fmt.Sprintf("(.not (.kidNil %d))", f), true
				}
			}
		}
	}
	return "", false
}

func (t *fmtTr) wsOf(s ast.Stmt) (string, bool) {
	es, ok := s.(*ast.ExprStmt)
	if !ok {
		return "", false
	}
	name, args, ok := callOn(es.X, t.m.recv)
	if !ok || name != "addFreeFloating" || len(args) != 2 {
		return "", false
	}
	id, ok1 := t.tokID(args[0])
	lit, ok2 := byteLit(args[1])
	if !ok1 || !ok2 {
		return "", false
	}
	return fmt.Sprintf("(%d, %s)", id, bytesLean(lit)), true
}

// `x.Accept(f)` on the identifier x
func (t *fmtTr) isAcceptOf(s ast.Stmt, x string) bool {
	es, ok := s.(*ast.ExprStmt)
	if !ok {
		return false
	}
	ce, ok := es.X.(*ast.CallExpr)
	if !ok || len(ce.Args) != 1 || nodeText(ce.Args[0]) != t.m.recv {
		return false
	}
	se, ok := ce.Fun.(*ast.SelectorExpr)
	return ok && se.Sel.Name == "Accept" && nodeText(se.X) == x
}

// if n.F != nil { var tail []*token.Token; for _, ff := range n.F.FreeFloating { if ff.ID == ID { tail = append(tail, ff) } }; n.F.FreeFloating = tail }
func (t *fmtTr) haltTail(s *ast.IfStmt) (int, int, bool) {
	if s.Init != nil || s.Else != nil || len(s.Body.List) != 3 {
		return 0, 0, false
	}
	be, ok := s.Cond.(*ast.BinaryExpr)
	if !ok || be.Op != token.NEQ || !isNil(be.Y) {
		return 0, 0, false
	}
	f, so, ok := t.field(be.X)
	if !ok || so != sortTok {
		return 0, 0, false
	}
	x := nodeText(be.X)
	ds, ok := s.Body.List[0].(*ast.DeclStmt)
	if !ok {
		return 0, 0, false
	}
	gd, ok := ds.Decl.(*ast.GenDecl)
	if !ok || gd.Tok != token.VAR || len(gd.Specs) != 1 || nodeText(gd.Specs[0]) != "tail []*token.Token" {
		return 0, 0, false
	}
	m := reHaltLoop.FindStringSubmatch(nodeText(s.Body.List[1]))
	if m == nil || m[1] != x {
		return 0, 0, false
	}
	id, ok := t.tokNum[m[2]]
	if !ok || nodeText(s.Body.List[2]) != x+".FreeFloating = tail" {
		return 0, 0, false
	}
	return f, id, true
}

var reHaltLoop = regexp.MustCompile(`^for _, ff := range (\S+)\.FreeFloating \{ if ff\.ID == (token\.\w+) \{ tail = append\(tail, ff\) \} \}$`)

func flat(s string) string { return strings.Join(strings.Fields(s), " ") }

var reLineComment = regexp.MustCompile(`//[^\n]*`)

// flat without line comments
func flatNC(s string) string { return flat(reLineComment.ReplaceAllString(s, "")) }

// newToken(id, val) call on the receiver: instruction storing into field f
func (t *fmtTr) newTok(f int, call ast.Expr) (fi, bool) {
	name, args, ok := callOn(call, t.m.recv)
	if !ok {
		return fi{}, false
	}
	if name == "newSemicolonTkn" && len(args) == 0 {
		return fi{op: fmt.Sprintf(".semi %d", f), acceptField: -1}, true
	}
	if name != "newToken" || len(args) != 2 {
		return fi{}, false
	}
	id, ok := t.tokID(args[0])
	if !ok {
		return fi{}, false
	}
	if lit, ok := byteLit(args[1]); ok {
		return fi{op: fmt.Sprintf(".newTok %d %d %s", f, id, bytesLean(lit)), acceptField: -1}, true
	}
	if g, so, ok := t.field(args[1]); ok && so == sortVal {
		return fi{op: fmt.Sprintf(".newTokVal %d %d %d", f, id, g), acceptField: -1}, true
	}
	if idt, ok := args[1].(*ast.Ident); ok {
		if r, ok := t.regs[idt.Name]; ok {
			return fi{op: fmt.Sprintf(".newTokReg %d %d %d", f, id, r), acceptField: -1}, true
		}
	}
	return fi{}, false
}

// make([]*token.Token, len(n.F)-1) -> F
func (t *fmtTr) makeSeps(e ast.Expr) (int, bool) {
	ce, ok := e.(*ast.CallExpr)
	if !ok || nodeText(ce.Fun) != "make" || len(ce.Args) != 2 || flat(nodeText(ce.Args[0])) != "[]*token.Token" {
		return 0, false
	}
	be, ok := ce.Args[1].(*ast.BinaryExpr)
	if !ok || be.Op != token.SUB || nodeText(be.Y) != "1" {
		return 0, false
	}
	f, so, ok := t.lenOf(be.X)
	if !ok || so != sortNodes {
		return 0, false
	}
	return f, true
}

// the separated loop; target is the text of the slice indexed in the body (`n.G` or a local)
func (t *fmtTr) sepLoop(rs *ast.RangeStmt, f int, g int, target string) (fi, bool) {
	if rs.Key == nil || rs.Value == nil || rs.Tok != token.DEFINE {
		return fi{}, false
	}
	ff, so, ok := t.field(rs.X)
	if !ok || ff != f || so != sortNodes {
		return fi{}, false
	}
	i, v := nodeText(rs.Key), nodeText(rs.Value)
	if len(rs.Body.List) != 2 || !t.isAcceptOf(rs.Body.List[0], v) {
		return fi{}, false
	}
	is, ok := rs.Body.List[1].(*ast.IfStmt)
	if !ok || is.Init != nil || is.Else != nil {
		return fi{}, false
	}
	if flat(nodeText(is.Cond)) != fmt.Sprintf("%s != len(%s)-1", i, nodeText(rs.X)) {
		return fi{}, false
	}
	var pre, post []string
	tok := ""
	for _, s := range is.Body.List {
		if w, ok := t.wsOf(s); ok {
			if tok == "" {
				pre = append(pre, w)
			} else {
				post = append(post, w)
			}
			continue
		}
		as, ok := s.(*ast.AssignStmt)
		if !ok || tok != "" || len(as.Lhs) != 1 || len(as.Rhs) != 1 || as.Tok != token.ASSIGN {
			return fi{}, false
		}
		ie, ok := as.Lhs[0].(*ast.IndexExpr)
		if !ok || nodeText(ie.X) != target || nodeText(ie.Index) != i {
			return fi{}, false
		}
		name, args, ok := callOn(as.Rhs[0], t.m.recv)
		if !ok || name != "newToken" || len(args) != 2 {
			return fi{}, false
		}
		id, ok1 := t.tokID(args[0])
		lit, ok2 := byteLit(args[1])
		if !ok1 || !ok2 {
			return fi{}, false
		}
		tok = fmt.Sprintf("%d %s", id, bytesLean(lit))
	}
	if tok == "" {
		return fi{}, false
	}
	return fi{op: fmt.Sprintf(".sepLoop %d %d [%s] %s [%s]", f, g, strings.Join(pre, ", "), tok, strings.Join(post, ", ")), acceptField: f}, true
}

func (t *fmtTr) block(list []ast.Stmt) []fi {
	var out []fi
	for i := 0; i < len(list); i++ {
		st := list[i]
		// make + separated loop [+ assignment of the local]
		if as, ok := st.(*ast.AssignStmt); ok && len(as.Lhs) == 1 && len(as.Rhs) == 1 {
			if f, ok := t.makeSeps(as.Rhs[0]); ok {
				if i+1 < len(list) {
					if rs, ok := list[i+1].(*ast.RangeStmt); ok {
						if g, so, ok := t.field(as.Lhs[0]); ok && so == sortToks && as.Tok == token.ASSIGN {
							if ins, ok := t.sepLoop(rs, f, g, nodeText(as.Lhs[0])); ok {
								out = append(out, ins)
								i++
								continue
							}
						}
						if id, ok := as.Lhs[0].(*ast.Ident); ok && as.Tok == token.DEFINE && i+2 < len(list) {
							if fin, ok := list[i+2].(*ast.AssignStmt); ok && len(fin.Lhs) == 1 && len(fin.Rhs) == 1 && fin.Tok == token.ASSIGN && nodeText(fin.Rhs[0]) == id.Name {
								if g, so, ok := t.field(fin.Lhs[0]); ok && so == sortToks {
									if ins, ok := t.sepLoop(rs, f, g, id.Name); ok {
										out = append(out, ins)
										i += 2
										continue
									}
								}
							}
						}
					}
				}
				t.fail(st, "make of a separator slice outside the separated-loop shape")
				continue
			}
		}
		out = append(out, t.stmt(st)...)
	}
	return out
}

func (t *fmtTr) stmt(st ast.Stmt) []fi {
	one := func(op string) []fi { return []fi{{op: op, acceptField: -1}} }
	switch s := st.(type) {
	case *ast.EmptyStmt:
		return nil
	case *ast.BlockStmt:
		return t.block(s.List)
	case *ast.IncDecStmt:
		if nodeText(s.X) == t.m.recv+".indent" {
			if s.Tok == token.INC {
				return one(".indent true")
			}
			return one(".indent false")
		}
	case *ast.ExprStmt:
		if w, ok := t.wsOf(s); ok {
			return one(".ws " + strings.Replace(strings.Trim(w, "()"), ", ", " ", 1))
		}
		if ce, ok := s.X.(*ast.CallExpr); ok {
			if se, ok := ce.Fun.(*ast.SelectorExpr); ok && se.Sel.Name == "Accept" && len(ce.Args) == 1 && nodeText(ce.Args[0]) == t.m.recv {
				if f, so, ok := t.field(se.X); ok && so == sortNode {
					return []fi{{op: fmt.Sprintf(".accept %d", f), acceptField: f}}
				}
			}
		}
		if name, args, ok := callOn(s.X, t.m.recv); ok {
			switch {
			case name == "addIndent" && len(args) == 0:
				return one(".addIndent")
			case name == "formatStmts" && len(args) == 1:
				if u, ok := args[0].(*ast.UnaryExpr); ok && u.Op == token.AND {
					if f, so, ok := t.field(u.X); ok && so == sortNodes {
						return []fi{{op: fmt.Sprintf(".stmts %d", f), acceptField: f}}
					}
				}
			case name == "formatList" && len(args) == 2:
				if f, so, ok := t.field(args[0]); ok && so == sortNodes {
					if ch, ok := charLit(args[1]); ok {
						return []fi{{op: fmt.Sprintf(".fmtList none %d %d", f, ch), acceptField: f}}
					}
				}
			}
		}
	case *ast.AssignStmt:
		if len(s.Lhs) != 1 || len(s.Rhs) != 1 {
			break
		}
		l, r := s.Lhs[0], s.Rhs[0]
		// locals
		if id, ok := l.(*ast.Ident); ok {
			// label := heredocLabel(n.F)   /   open [:]= heredocOpener(label, nowdoc)
			if ce, ok := r.(*ast.CallExpr); ok {
				switch nodeText(ce.Fun) {
				case "heredocLabel":
					if len(ce.Args) == 1 && s.Tok == token.DEFINE {
						if f, so, ok := t.field(ce.Args[0]); ok && so == sortTok {
							t.regs[id.Name] = len(t.regs)
							return one(fmt.Sprintf(".setRegLabel %d %d", t.regs[id.Name], f))
						}
					}
				case "heredocOpener":
					if len(ce.Args) == 2 {
						if src, ok := ce.Args[0].(*ast.Ident); ok {
							if r2, ok := t.regs[src.Name]; ok && (nodeText(ce.Args[1]) == "true" || nodeText(ce.Args[1]) == "false") {
								if s.Tok == token.DEFINE {
									t.regs[id.Name] = len(t.regs)
								}
								if reg, ok := t.regs[id.Name]; ok {
									return one(fmt.Sprintf(".setRegOpener %d %d %s", reg, r2, nodeText(ce.Args[1])))
								}
							}
						}
					}
				}
			}
			if lit, ok := byteLit(r); ok {
				if s.Tok == token.DEFINE {
					t.regs[id.Name] = len(t.regs)
				}
				if reg, ok := t.regs[id.Name]; ok {
					return one(fmt.Sprintf(".setReg %d %s", reg, bytesLean(lit)))
				}
			} else if s.Tok == token.DEFINE {
				if c, ok := t.cond(r); ok {
					t.flags[id.Name] = len(t.flags)
					return one(fmt.Sprintf(".setFlag %d %s", t.flags[id.Name], c))
				}
			}
			break
		}
		if s.Tok != token.ASSIGN {
			break
		}
		// n.F.FreeFloating = f.getFreeFloating()
		if se, ok := l.(*ast.SelectorExpr); ok && se.Sel.Name == "FreeFloating" {
			if f, so, ok := t.field(se.X); ok && so == sortTok {
				if name, args, ok := callOn(r, t.m.recv); ok && name == "getFreeFloating" && len(args) == 0 {
					return one(fmt.Sprintf(".setFF %d", f))
				}
			}
			break
		}
		if nodeText(l) == t.m.recv+".state" && nodeText(r) == "FormatterStateHTML" {
			return one(".setHtml")
		}
		f, so, ok := t.field(l)
		if !ok {
			break
		}
		if isNil(r) && (so == sortTok || so == sortToks) {
			return one(fmt.Sprintf(".clear %d", f))
		}
		if so == sortTok {
			if ins, ok := t.newTok(f, r); ok {
				return []fi{ins}
			}
		}
		if so == sortToks {
			if name, args, ok := callOn(r, t.m.recv); ok && name == "formatList" && len(args) == 2 {
				if lf, lso, ok := t.field(args[0]); ok && lso == sortNodes {
					if ch, ok := charLit(args[1]); ok {
						return []fi{{op: fmt.Sprintf(".fmtList (some %d) %d %d", f, lf, ch), acceptField: lf}}
					}
				}
			}
		}
	case *ast.IfStmt:
		if fld, id, ok := t.haltTail(s); ok {
			return one(fmt.Sprintf(".haltTail %d %d", fld, id))
		}
		var c string
		if s.Init != nil {
			// if _, ok := n.F.(*ast.X); ok / !ok
			as, ok := s.Init.(*ast.AssignStmt)
			if !ok || len(as.Lhs) != 2 || len(as.Rhs) != 1 || nodeText(as.Lhs[0]) != "_" {
				break
			}
			ta, ok := as.Rhs[0].(*ast.TypeAssertExpr)
			if !ok || ta.Type == nil {
				break
			}
			f, so, ok := t.field(ta.X)
			if !ok || so != sortNode {
				break
			}
			ks, ok := t.kindsOf([]ast.Expr{ta.Type})
			if !ok {
				break
			}
			c = fmt.Sprintf("(.kidKindIn %d [%s])", f, strings.Join(ks, ", "))
			okv := nodeText(as.Lhs[1])
			switch flat(nodeText(s.Cond)) {
			case okv:
			case "!" + okv:
				c = "(.not " + c + ")"
			default:
				c = ""
			}
			if c == "" {
				break
			}
		} else {
			var ok bool
			c, ok = t.cond(s.Cond)
			if !ok {
				break
			}
		}
		ins := fi{op: ".ite", cond: c, a: t.block(s.Body.List), acceptField: -1}
		if s.Else != nil {
			ins.b = t.stmt(s.Else)
		}
		return []fi{ins}
	case *ast.TypeSwitchStmt:
		// switch n.F.(type) { case *ast.A, *ast.B: … default: … }
		es, ok := s.Assign.(*ast.ExprStmt)
		if !ok || s.Init != nil {
			break
		}
		ta, ok := es.X.(*ast.TypeAssertExpr)
		if !ok || ta.Type != nil {
			break
		}
		f, so, ok := t.field(ta.X)
		if !ok || so != sortNode {
			break
		}
		var dflt []fi
		type arm struct {
			ks   []string
			body []fi
		}
		var arms []arm
		good := true
		for _, cl := range s.Body.List {
			cc := cl.(*ast.CaseClause)
			if cc.List == nil {
				dflt = t.block(cc.Body)
				continue
			}
			ks, ok := t.kindsOf(cc.List)
			if !ok {
				good = false
				break
			}
			arms = append(arms, arm{ks, t.block(cc.Body)})
		}
		if !good {
			break
		}
		res := dflt
		for i := len(arms) - 1; i >= 0; i-- {
			res = []fi{{op: ".ite", cond: fmt.Sprintf("(.kidKindIn %d [%s])", f, strings.Join(arms[i].ks, ", ")), a: arms[i].body, b: res, acceptField: -1}}
		}
		return res
	case *ast.RangeStmt:
		// for _, m := range n.F { ws*; m.Accept(f); ws* }
		f, so, ok := t.field(s.X)
		if !ok || so != sortNodes || s.Value == nil || s.Tok != token.DEFINE || (s.Key != nil && nodeText(s.Key) != "_") {
			break
		}
		v := nodeText(s.Value)
		var pre, post []string
		seen := false
		good := true
		for _, b := range s.Body.List {
			if w, ok := t.wsOf(b); ok {
				if seen {
					post = append(post, w)
				} else {
					pre = append(pre, w)
				}
			} else if t.isAcceptOf(b, v) && !seen {
				seen = true
			} else {
				good = false
			}
		}
		if good && seen {
			return []fi{{op: fmt.Sprintf(".each %d [%s] [%s]", f, strings.Join(pre, ", "), strings.Join(post, ", ")), acceptField: f}}
		}
	}
	t.fail(st, "statement outside the translated shapes: %s", clipStr(flat(nodeText(st)), 120))
	return nil
}

func clipStr(s string, n int) string {
	if len(s) > n {
		return s[:n] + "…"
	}
	return s
}

// the largest number of times one path through the instructions visits child field f
func maxAccepts(is []fi, f int) int {
	n := 0
	for _, i := range is {
		if i.op == ".ite" {
			a, b := maxAccepts(i.a, f), maxAccepts(i.b, f)
			if b > a {
				a = b
			}
			n += a
		} else if i.acceptField == f {
			n++
		}
	}
	return n
}

func leanFIs(is []fi) string {
	var q []string
	for _, i := range is {
		if i.op == ".ite" {
			q = append(q, fmt.Sprintf(".ite %s %s %s", i.cond, leanFIs(i.a), leanFIs(i.b)))
		} else {
			q = append(q, i.op)
		}
	}
	return "[" + strings.Join(q, ", ") + "]"
}

func countFIs(is []fi) int {
	n := 0
	for _, i := range is {
		n += 1 + countFIs(i.a) + countFIs(i.b)
	}
	return n
}

func genFmtCode(c *ctx, s *schema) {
	comp := "fmtcode"
	f := c.parseFile("pkg/visitor/formatter/formatter.go")
	if f == nil {
		return
	}
	ms, others := visitorMethods(c, comp, f, "formatter", s)
	// the hand-modelled part: pinned
	var hb strings.Builder
	for _, d := range f.Decls {
		if gd, ok := d.(*ast.GenDecl); ok && gd.Tok != token.IMPORT {
			hb.WriteString(flat(nodeText(gd)) + "\n")
		}
	}
	for _, hn := range fmtHelperNames {
		fd, ok := others[hn]
		if !ok {
			c.fail(comp, f.Pos(), "formatter helper %s not found", hn)
			continue
		}
		hb.WriteString(flat(nodeText(fd)) + "\n")
	}
	for name, fd := range others {
		known := false
		for _, hn := range fmtHelperNames {
			known = known || hn == name
		}
		if !known {
			c.fail(comp, fd.Pos(), "formatter has a function the model does not know: %s", name)
		}
	}
	sum := fmt.Sprintf("%x", sha1.Sum([]byte(hb.String())))
	if sum != fmtHelpersPin {
		c.fail(comp, f.Pos(), "the formatter's type, constructors or helpers (hand-modelled in Model/Fmt.lean) changed: sha1 %s, modelled %s", sum, fmtHelpersPin)
	}
	tokNum := tokenNumbers(c)
	if len(tokNum) < 100 {
		c.fail(comp, f.Pos(), "token numbers not found in pkg/token/token.go")
		return
	}
	progs := make([]string, len(s.Kinds))
	total := 0
	for _, m := range ms {
		t := &fmtTr{c: c, s: s, k: s.Kinds[m.kind], m: m, comp: comp, flags: map[string]int{}, regs: map[string]int{}, tokNum: tokNum, ok: true}
		if m.par == "" || m.recv == "" {
			c.fail(comp, m.decl.Pos(), "%s: unnamed receiver or parameter", t.k.Name)
			continue
		}
		is := t.block(m.decl.Body.List)
		if !t.ok {
			continue
		}
		// the model runs a child's method on the original child: a path that visits a child twice is outside it
		for fi0, fl := range t.k.Fields {
			if (fl.Sort == sortNode || fl.Sort == sortNodes) && maxAccepts(is, fi0) > 1 {
				c.fail(comp, m.decl.Pos(), "%s: child %s is visited twice on one path", t.k.Name, fl.Name)
			}
		}
		progs[m.kind] = leanFIs(is)
		total += countFIs(is)
	}
	var b strings.Builder
	b.WriteString("import PhpVerif.Model.Fmt\n-- GENERATED by gofacts from pkg/visitor/formatter/formatter.go (+ schema, token numbers). Do not edit.\nnamespace PhpVerif.Gen\nopen PhpVerif.Fmt\n\n")
	for i, p := range progs {
		if p == "" {
			p = "[]"
		}
		fmt.Fprintf(&b, "-- %s\ndef fmtProg_%d : List FI := %s\n", s.Kinds[i].Name, i, p)
	}
	writeTable(&b, "fmtProgs", "List FI", "fmtProg_", len(progs))
	nop, html := s.byName["StmtNop"], s.byName["StmtInlineHtml"]
	fmt.Fprintf(&b, "def fmtHtmlKind : Nat := %d\ndef fmtNopKind : Nat := %d\ndef fmtNopFields : Nat := %d\ndef fmtNopSemi : Nat := %d\n", html, nop, len(s.Kinds[nop].Fields), s.Kinds[nop].fieldIndex("SemiColonTkn"))
	fmt.Fprintf(&b, "def fmtTWs : Nat := %d\ndef fmtTOpenTag : Nat := %d\n", tokNum["token.T_WHITESPACE"], tokNum["token.T_OPEN_TAG"])
	fmt.Fprintf(&b, "def fmtTInc : Nat := %d\ndef fmtTDec : Nat := %d\n", tokNum["token.T_INC"], tokNum["token.T_DEC"])
	fmt.Fprintf(&b, "def fmtInstructionCount : Nat := %d\n", total)
	b.WriteString("\nend PhpVerif.Gen\n")
	writeIfChanged(filepath.Join(c.out, "FmtCode.lean"), b.String())
	c.side["formatter_instructions"] = total
}
