package main

import (
	"fmt"
	"go/ast"
	"go/token"
	"path/filepath"
	"sort"
	"strconv"
	"strings"
)

// Grammar actions (DESIGN.md §3, simplified): every `case N:` of the generated parser is walked
// path by path (if / type switch fork a path) by a small abstract interpreter over *references*
// to the right-hand-side values: `$i` whole, or one field of `$i` seen through a type assertion.
// For every path it emits what was stored where:
//   - for each node literal built by the action, the references stored in it, flattened in the
//     struct-field (= printer = source) order of the schema, and the two boundary arguments of its
//     position combinator;
//   - the references stored into already existing nodes (`$5.(*ast.StmtWhile).Cond = $3`);
//   - the value returned as `$$`.
// Lean (Props/C02, C05, C12) checks per path: linear use, coverage of the right-hand side,
// increasing order inside literals, position boundaries = first / last stored reference.

type aref struct{ I, Comp int } // Comp 0 = whole value; k+1 = field k of the asserted struct type

type aval struct {
	kind  string // ref obj list append nil cur val opaque cast pos
	ref   aref
	obj   *aobj
	elems []*aval
	base  *aval
	typ   string // cast: asserted type name
	text  string
	pos   *apos
}

type apos struct {
	comb string
	args []*aval
}

type aobj struct {
	typ    string
	fields map[string]*aval
	order  []string
	pos    *apos
}

type amut struct {
	base  aref   // $i whole
	typ   string // asserted type
	field string
	val   *aval
}

type apath struct {
	locals map[string]*aval
	ret    *aval
	retSet bool
	root   *aval // yylex.(*Parser).rootNode = …
	muts   []amut
	objs   []*aobj
	opaque []string
	conds  []string
	nilIdx []int // right-hand-side values known to be nil on this path
	others []otherCase
	reports bool // the path reports a semantic error (it may drop the offending tokens on purpose)
}

// the path through a type switch that matches none of its cases: infeasible when the nonterminal that
// produced the subject only ever returns the listed types
type otherCase struct {
	i     int
	types []string
}

func cloneVal(v *aval, m map[*aobj]*aobj) *aval {
	if v == nil {
		return nil
	}
	w := *v
	if v.obj != nil {
		w.obj = cloneObj(v.obj, m)
	}
	if v.base != nil {
		w.base = cloneVal(v.base, m)
	}
	if v.elems != nil {
		w.elems = make([]*aval, len(v.elems))
		for i, e := range v.elems {
			w.elems[i] = cloneVal(e, m)
		}
	}
	if v.pos != nil {
		w.pos = clonePos(v.pos, m)
	}
	return &w
}

func clonePos(ps *apos, m map[*aobj]*aobj) *apos {
	if ps == nil {
		return nil
	}
	q := &apos{comb: ps.comb}
	for _, x := range ps.args {
		q.args = append(q.args, cloneVal(x, m))
	}
	return q
}

func cloneObj(o *aobj, m map[*aobj]*aobj) *aobj {
	if c, ok := m[o]; ok {
		return c
	}
	c := &aobj{typ: o.typ, fields: map[string]*aval{}, order: append([]string(nil), o.order...)}
	m[o] = c
	for k, v := range o.fields {
		c.fields[k] = cloneVal(v, m)
	}
	c.pos = clonePos(o.pos, m)
	return c
}

// clone copies the path state deeply: node literals are mutable objects (fields are assigned after
// creation), two forked paths must not share them
func (p *apath) clone() *apath {
	m := map[*aobj]*aobj{}
	q := &apath{locals: map[string]*aval{}, retSet: p.retSet}
	q.ret = cloneVal(p.ret, m)
	q.root = cloneVal(p.root, m)
	for k, v := range p.locals {
		q.locals[k] = cloneVal(v, m)
	}
	for _, mu := range p.muts {
		mu.val = cloneVal(mu.val, m)
		q.muts = append(q.muts, mu)
	}
	for _, o := range p.objs {
		q.objs = append(q.objs, cloneObj(o, m))
	}
	q.opaque = append([]string(nil), p.opaque...)
	q.conds = append([]string(nil), p.conds...)
	q.nilIdx = append([]int(nil), p.nilIdx...)
	q.others = append([]otherCase(nil), p.others...)
	q.reports = p.reports
	return q
}

type structInfo struct {
	fields []string
	sorts  []int
}

type actx struct {
	c       *ctx
	comp    string
	structs map[string]*structInfo // "ast.K" and helper names
	n       int
}

func (a *actx) fieldIdx(typ, f string) int {
	si := a.structs[typ]
	if si == nil {
		return -1
	}
	for i, x := range si.fields {
		if x == f {
			return i
		}
	}
	return -1
}

func typeName(e ast.Expr) string {
	if s, ok := e.(*ast.StarExpr); ok {
		e = s.X
	}
	switch t := e.(type) {
	case *ast.SelectorExpr:
		if x, ok := t.X.(*ast.Ident); ok {
			return x.Name + "." + t.Sel.Name
		}
	case *ast.Ident:
		return t.Name
	}
	return ""
}

func dollarIndex(e ast.Expr) (int, string, bool) {
	// yyDollar[i].token / .node / .list
	s, ok := e.(*ast.SelectorExpr)
	if !ok {
		return 0, "", false
	}
	ix, ok := s.X.(*ast.IndexExpr)
	if !ok {
		return 0, "", false
	}
	id, ok := ix.X.(*ast.Ident)
	if !ok || id.Name != "yyDollar" {
		return 0, "", false
	}
	bl, ok := ix.Index.(*ast.BasicLit)
	if !ok {
		return 0, "", false
	}
	n, _ := strconv.Atoi(bl.Value)
	return n, s.Sel.Name, true
}

func isParserSel(e ast.Expr, name string) bool {
	// yylex.(*Parser).name
	s, ok := e.(*ast.SelectorExpr)
	if !ok || s.Sel.Name != name {
		return false
	}
	ta, ok := s.X.(*ast.TypeAssertExpr)
	if !ok {
		return false
	}
	id, ok := ta.X.(*ast.Ident)
	return ok && id.Name == "yylex"
}

func (a *actx) eval(p *apath, e ast.Expr) *aval {
	switch t := e.(type) {
	case *ast.ParenExpr:
		return a.eval(p, t.X)
	case *ast.Ident:
		if t.Name == "nil" {
			return &aval{kind: "nil"}
		}
		if v, ok := p.locals[t.Name]; ok {
			return v
		}
		return &aval{kind: "opaque", text: "identifier " + t.Name}
	case *ast.SelectorExpr:
		if i, _, ok := dollarIndex(t); ok {
			return &aval{kind: "ref", ref: aref{i, 0}}
		}
		if isParserSel(t, "currentToken") {
			return &aval{kind: "cur"}
		}
		if id, ok := t.X.(*ast.Ident); ok && id.Name == "yyVAL" {
			if p.retSet {
				return p.ret
			}
			return &aval{kind: "ref", ref: aref{1, 0}}
		}
		base := a.eval(p, t.X)
		if t.Sel.Name == "Value" && (base.kind == "ref" || base.kind == "cast" || base.kind == "cur") {
			return &aval{kind: "val", text: "copy of a token's bytes"}
		}
		switch base.kind {
		case "cast":
			k := a.fieldIdx(base.typ, t.Sel.Name)
			if k < 0 {
				return &aval{kind: "opaque", text: "unknown field " + base.typ + "." + t.Sel.Name}
			}
			if base.base != nil && base.base.kind == "ref" && base.base.ref.Comp == 0 {
				// a field this action has already assigned holds what was assigned
				for _, m := range p.muts {
					if m.base == base.base.ref && m.field == t.Sel.Name {
						return m.val
					}
				}
				return &aval{kind: "ref", ref: aref{base.base.ref.I, k + 1}, typ: base.typ}
			}
			if base.base != nil && base.base.kind == "ref" && base.base.ref.Comp > 0 {
				// a field of a field ($5.(*T).F.(*U).G): not a right-hand-side value of this production
				return &aval{kind: "opaque", text: "nested selection " + nodeText(t)}
			}
			if base.base != nil && base.base.kind == "obj" {
				if v, ok := base.base.obj.fields[t.Sel.Name]; ok {
					return v
				}
				return &aval{kind: "nil"}
			}
		case "obj":
			if v, ok := base.obj.fields[t.Sel.Name]; ok {
				return v
			}
			return &aval{kind: "nil"}
		case "ref":
			if t.Sel.Name == "Position" {
				return &aval{kind: "posval", text: "position of a value"}
			}
		}
		return &aval{kind: "opaque", text: "selector " + nodeText(t)}
	case *ast.TypeAssertExpr:
		base := a.eval(p, t.X)
		if t.Type == nil {
			return base
		}
		return &aval{kind: "cast", base: base, typ: typeName(t.Type)}
	case *ast.UnaryExpr:
		if t.Op == token.AND {
			if cl, ok := t.X.(*ast.CompositeLit); ok {
				return a.evalLit(p, cl)
			}
		}
	case *ast.CompositeLit:
		tn := nodeText(t.Type)
		if tn == "[]ast.Vertex" || tn == "[]*token.Token" {
			v := &aval{kind: "list"}
			for _, el := range t.Elts {
				v.elems = append(v.elems, a.eval(p, el))
			}
			return v
		}
	case *ast.CallExpr:
		fn := nodeText(t.Fun)
		if fn == "append" && len(t.Args) >= 1 {
			b := a.eval(p, t.Args[0])
			if b.kind == "val" || nodeText(t.Args[0]) == `[]byte("-")` {
				return &aval{kind: "val", text: "bytes built from token values"}
			}
			v := &aval{kind: "append", base: b}
			for _, x := range t.Args[1:] {
				v.elems = append(v.elems, a.eval(p, x))
			}
			return v
		}
		if s, ok := t.Fun.(*ast.SelectorExpr); ok && isParserSel(s.X, "builder") {
			ps := &apos{comb: s.Sel.Name}
			for _, x := range t.Args {
				ps.args = append(ps.args, a.eval(p, x))
			}
			return &aval{kind: "pos", pos: ps}
		}
		if fn == "[]byte" || fn == "string" || strings.HasPrefix(fn, "strconv.") || strings.HasPrefix(fn, "bytes.") || strings.HasPrefix(fn, "strings.") {
			return &aval{kind: "val", text: fn}
		}
		if fn == "len" {
			return &aval{kind: "val", text: "len"}
		}
	case *ast.BasicLit:
		return &aval{kind: "val", text: t.Value}
	}
	return &aval{kind: "opaque", text: nodeText(e)}
}

func nodeText(n interface{}) string {
	var b strings.Builder
	printExpr(&b, n)
	return b.String()
}

func (a *actx) evalLit(p *apath, cl *ast.CompositeLit) *aval {
	o := &aobj{typ: typeName(cl.Type), fields: map[string]*aval{}}
	if a.structs[o.typ] == nil {
		p.opaque = append(p.opaque, "literal of unknown type "+o.typ)
	}
	for _, el := range cl.Elts {
		kv, ok := el.(*ast.KeyValueExpr)
		if !ok {
			p.opaque = append(p.opaque, "unkeyed literal element")
			continue
		}
		key := kv.Key.(*ast.Ident).Name
		v := a.eval(p, kv.Value)
		if key == "Position" {
			if v.kind == "pos" {
				o.pos = v.pos
			} else {
				p.opaque = append(p.opaque, "Position is not a builder call: "+nodeText(kv.Value))
			}
			continue
		}
		if a.fieldIdx(o.typ, key) < 0 {
			p.opaque = append(p.opaque, "unknown field "+o.typ+"."+key)
		}
		if v.kind == "posval" || v.kind == "pos" {
			p.opaque = append(p.opaque, "a position flows into the field "+o.typ+"."+key)
		}
		o.fields[key] = v
		o.order = append(o.order, key)
	}
	p.objs = append(p.objs, o)
	return &aval{kind: "obj", obj: o}
}

// assign handles one assignment statement target = value.
func (a *actx) assign(p *apath, lhs ast.Expr, v *aval) {
	switch t := lhs.(type) {
	case *ast.Ident:
		if t.Name == "_" {
			return
		}
		p.locals[t.Name] = v
		return
	case *ast.SelectorExpr:
		if id, ok := t.X.(*ast.Ident); ok && id.Name == "yyVAL" {
			p.ret, p.retSet = v, true
			return
		}
		if isParserSel(t, "rootNode") {
			p.root = v
			return
		}
		if s2, ok := t.X.(*ast.SelectorExpr); ok && isParserSel(s2, "currentToken") && t.Sel.Name == "Value" && v.kind == "nil" {
			return // the end token carries no text: its Value (a slice header) is reset
		}
		base := a.eval(p, t.X)
		field := t.Sel.Name
		target := base
		if base.kind == "cast" {
			target = base.base
		}
		switch {
		case target != nil && target.kind == "obj":
			if field == "Position" {
				if v.kind == "pos" {
					target.obj.pos = v.pos
				} else {
					p.opaque = append(p.opaque, "Position assigned from "+v.kind)
				}
				return
			}
			target.obj.fields[field] = v
			return
		case target != nil && target.kind == "ref" && target.ref.Comp == 0:
			typ := base.typ
			if base.kind != "cast" {
				typ = ""
			}
			// X.F = append(X.F, e…): what X.F already holds stays where it is
			if v.kind == "append" && v.base != nil && v.base.kind == "ref" && v.base.ref.I == target.ref.I && v.base.ref.Comp == a.fieldIdx(typ, field)+1 {
				v = &aval{kind: "append", base: v.base, elems: v.elems, text: "self"}
			}
			for k := range p.muts {
				if p.muts[k].base == target.ref && p.muts[k].field == field && (p.muts[k].typ == typ || typ == "" || p.muts[k].typ == "") {
					p.muts[k].val = v // a later assignment to the same field replaces the earlier one
					return
				}
			}
			p.muts = append(p.muts, amut{base: target.ref, typ: typ, field: field, val: v})
			return
		}
	case *ast.StarExpr:
		// *X.GetPosition() = *pos  — overwrite a position in place
		if ce, ok := t.X.(*ast.CallExpr); ok {
			if s, ok := ce.Fun.(*ast.SelectorExpr); ok && s.Sel.Name == "GetPosition" {
				base := a.eval(p, s.X)
				if base.kind == "ref" && v.kind == "pos" {
					p.muts = append(p.muts, amut{base: base.ref, field: "Position", val: v})
					return
				}
			}
		}
	}
	p.opaque = append(p.opaque, "assignment to "+nodeText(lhs))
}

func (a *actx) stmts(paths []*apath, list []ast.Stmt) []*apath {
	for _, st := range list {
		var next []*apath
		for _, p := range paths {
			next = append(next, a.stmt(p, st)...)
		}
		paths = next
		if len(paths) > 64 {
			for _, p := range paths {
				p.opaque = append(p.opaque, "too many paths")
			}
			return paths[:1]
		}
	}
	return paths
}

func (a *actx) stmt(p *apath, st ast.Stmt) []*apath {
	switch t := st.(type) {
	case *ast.BlockStmt:
		return a.stmts([]*apath{p}, t.List)
	case *ast.AssignStmt:
		if len(t.Lhs) == len(t.Rhs) {
			for i := range t.Lhs {
				v := a.eval(p, t.Rhs[i])
				if t.Rhs[i] != nil {
					if star, ok := t.Rhs[i].(*ast.StarExpr); ok {
						v = a.eval(p, star.X)
					}
				}
				a.assign(p, t.Lhs[i], v)
			}
			return []*apath{p}
		}
		if len(t.Lhs) == 2 && len(t.Rhs) == 1 {
			// v, ok := e.(*T)   /   _, err := strconv.Atoi(…)
			v := a.eval(p, t.Rhs[0])
			a.assign(p, t.Lhs[0], v)
			a.assign(p, t.Lhs[1], &aval{kind: "val", text: "ok/err"})
			return []*apath{p}
		}
	case *ast.ExprStmt:
		if ce, ok := t.X.(*ast.CallExpr); ok {
			fn := nodeText(ce.Fun)
			if strings.HasSuffix(fn, ".reportError") || strings.HasSuffix(fn, ".Error") || strings.HasSuffix(fn, ".errHandlerFunc") {
				p.reports = true // error report: reads values, stores nothing; the path is an error path
				return []*apath{p}
			}
		}
	case *ast.IfStmt:
		q := p
		if t.Init != nil {
			qs := a.stmt(q, t.Init)
			q = qs[0]
		}
		cond := nodeText(t.Cond)
		pt := q.clone()
		pt.conds = append(pt.conds, cond)
		pe := q.clone()
		pe.conds = append(pe.conds, "!("+cond+")")
		if be, ok := t.Cond.(*ast.BinaryExpr); ok {
			// len($i) > 0  /  len($i) == 0
			if ce, ok := be.X.(*ast.CallExpr); ok && nodeText(ce.Fun) == "len" && len(ce.Args) == 1 && nodeText(be.Y) == "0" {
				if i, _, ok := dollarIndex(ce.Args[0]); ok {
					if be.Op == token.GTR || be.Op == token.NEQ {
						pe.nilIdx = append(pe.nilIdx, i)
					} else if be.Op == token.EQL {
						pt.nilIdx = append(pt.nilIdx, i)
					}
				}
			}
		}
		if be, ok := t.Cond.(*ast.BinaryExpr); ok && isNil(be.Y) {
			if i, _, ok := dollarIndex(be.X); ok {
				if be.Op == token.EQL {
					pt.nilIdx = append(pt.nilIdx, i)
				} else if be.Op == token.NEQ {
					pe.nilIdx = append(pe.nilIdx, i)
				}
			}
		}
		out := a.stmts([]*apath{pt}, t.Body.List)
		if t.Else != nil {
			out = append(out, a.stmt(pe, t.Else)...)
		} else {
			out = append(out, pe)
		}
		return out
	case *ast.TypeSwitchStmt:
		as, ok := t.Assign.(*ast.AssignStmt)
		var name string
		var subj ast.Expr
		if ok && len(as.Lhs) == 1 && len(as.Rhs) == 1 {
			name = as.Lhs[0].(*ast.Ident).Name
			subj = as.Rhs[0].(*ast.TypeAssertExpr).X
		} else if es, ok := t.Assign.(*ast.ExprStmt); ok {
			subj = es.X.(*ast.TypeAssertExpr).X
		}
		if subj != nil {
			var out []*apath
			hasDefault := false
			for _, cc := range t.Body.List {
				cl := cc.(*ast.CaseClause)
				if cl.List == nil {
					hasDefault = true
				}
				q := p.clone()
				if len(cl.List) == 1 && name != "" {
					q.locals[name] = &aval{kind: "cast", base: a.eval(q, subj), typ: typeName(cl.List[0])}
				} else if name != "" {
					q.locals[name] = a.eval(q, subj)
				}
				q.conds = append(q.conds, "type "+nodeText(cl.List))
				out = append(out, a.stmts([]*apath{q}, cl.Body)...)
			}
			if !hasDefault {
				q := p.clone()
				q.conds = append(q.conds, "type <other>")
				oc := otherCase{i: -1}
				if sv := a.eval(q, subj); sv.kind == "ref" && sv.ref.Comp == 0 {
					oc.i = sv.ref.I
				}
				for _, cc := range t.Body.List {
					for _, ty := range cc.(*ast.CaseClause).List {
						oc.types = append(oc.types, typeName(ty))
					}
				}
				q.others = append(q.others, oc)
				out = append(out, q)
			}
			return out
		}
	case *ast.DeclStmt:
		return []*apath{p}
	case *ast.EmptyStmt:
		return []*apath{p}
	}
	p.opaque = append(p.opaque, "statement "+clipText(nodeText(st), 80))
	return []*apath{p}
}

func clipText(s string, n int) string {
	if len(s) > n {
		return s[:n] + "…"
	}
	return s
}

// flatten a value in source order; ok=false when it contains something opaque
func (a *actx) flatten(v *aval, out *[]aref, why *[]string) {
	if v == nil {
		return
	}
	switch v.kind {
	case "ref":
		*out = append(*out, v.ref)
	case "cast":
		a.flatten(v.base, out, why)
	case "cur":
		*out = append(*out, aref{a.n + 1, 0})
	case "obj":
		a.flattenObj(v.obj, out, why)
	case "list":
		for _, e := range v.elems {
			a.flatten(e, out, why)
		}
	case "append":
		a.flatten(v.base, out, why)
		for _, e := range v.elems {
			a.flatten(e, out, why)
		}
	case "nil", "val":
	case "pos":
		*why = append(*why, "position value stored in a field")
	default:
		*why = append(*why, v.text)
	}
}

func (a *actx) flattenObj(o *aobj, out *[]aref, why *[]string) {
	si := a.structs[o.typ]
	if si == nil {
		*why = append(*why, "unknown struct "+o.typ)
		return
	}
	for _, f := range si.fields {
		if v, ok := o.fields[f]; ok {
			a.flatten(v, out, why)
		}
	}
}

// shapeText renders a value canonically (types, fields in struct order, references, position
// combinators): two actions with the same shape build the same tree from the same right-hand side
func (a *actx) shapeText(v *aval, depth int) string {
	if v == nil {
		return "_"
	}
	if depth > 12 {
		return "…"
	}
	switch v.kind {
	case "ref":
		if v.ref.Comp == 0 {
			return fmt.Sprintf("$%d", v.ref.I)
		}
		f := "?"
		if si := a.structs[v.typ]; si != nil && v.ref.Comp-1 < len(si.fields) {
			f = si.fields[v.ref.Comp-1]
		}
		return fmt.Sprintf("$%d.(%s).%s", v.ref.I, v.typ, f)
	case "cast":
		return a.shapeText(v.base, depth+1) + ".(" + v.typ + ")"
	case "cur":
		return "cur"
	case "nil":
		return "nil"
	case "val":
		return "val"
	case "posval":
		return "posval"
	case "pos":
		var as []string
		for _, x := range v.pos.args {
			as = append(as, a.shapeText(x, depth+1))
		}
		return v.pos.comb + "(" + strings.Join(as, ",") + ")"
	case "list", "append":
		var es []string
		for _, e := range v.elems {
			es = append(es, a.shapeText(e, depth+1))
		}
		if v.kind == "append" {
			return "append(" + a.shapeText(v.base, depth+1) + ";" + strings.Join(es, ",") + ")"
		}
		return "[" + strings.Join(es, ",") + "]"
	case "obj":
		o := v.obj
		var fs []string
		if o.pos != nil {
			fs = append(fs, "Position:"+a.shapeText(&aval{kind: "pos", pos: o.pos}, depth+1))
		}
		if si := a.structs[o.typ]; si != nil {
			for _, f := range si.fields {
				if fv, ok := o.fields[f]; ok {
					fs = append(fs, f+":"+a.shapeText(fv, depth+1))
				}
			}
		}
		return o.typ + "{" + strings.Join(fs, ";") + "}"
	}
	return "?" + v.kind
}

func refStr(r aref) string { return fmt.Sprintf("(%d, %d)", r.I, r.Comp) }

func refsStr(rs []aref) string {
	ss := make([]string, len(rs))
	for i, r := range rs {
		ss[i] = refStr(r)
	}
	return "[" + strings.Join(ss, ", ") + "]"
}

// boundary argument of a position combinator -> first / last reference it denotes
func (a *actx) boundary(v *aval, first bool) (aref, bool) {
	var rs []aref
	var why []string
	a.flatten(v, &rs, &why)
	if len(why) > 0 || len(rs) == 0 {
		return aref{}, false
	}
	if first {
		return rs[0], true
	}
	return rs[len(rs)-1], true
}

var posArgs = map[string][2]int{ // combinator -> (index of start argument, index of end argument)
	"NewTokenPosition": {0, 0}, "NewTokensPosition": {0, 1}, "NewNodePosition": {0, 0}, "NewNodesPosition": {0, 1},
	"NewTokenNodePosition": {0, 1}, "NewNodeTokenPosition": {0, 1}, "NewNodeListPosition": {0, 0}, "NewNodeListTokenPosition": {0, 1},
	"NewTokenNodeListPosition": {0, 1}, "NewNodeNodeListPosition": {0, 1}, "NewNodeListNodePosition": {0, 1}, "NewOptionalListTokensPosition": {0, 2},
}

type pathSummary struct {
	Prod   int      `json:"prod"`
	Path   int      `json:"path"`
	Conds  []string `json:"conds,omitempty"`
	Kind   int      `json:"kind"` // 0 constructor-only, 1 mutates existing nodes, 2 untranslated
	Why    []string `json:"why,omitempty"`
	Used   []aref   `json:"used"`
	Line   int      `json:"line"`
	Shape  string   `json:"shape"`
	Lean   string   `json:"-"`
}

func genActions(c *ctx, s *schema, which string, g *ygrammar, gf *ast.File) {
	comp := "grammar-" + which
	a := &actx{c: c, comp: comp, structs: map[string]*structInfo{}}
	for _, k := range s.Kinds {
		si := &structInfo{}
		for _, f := range k.Fields {
			si.fields = append(si.fields, f.Name)
			si.sorts = append(si.sorts, f.Sort)
		}
		a.structs["ast."+k.Name] = si
	}
	// parser-only helper records
	if hf := c.parseFile(filepath.Join("internal", which, "node.go")); hf != nil {
		for _, d := range hf.Decls {
			gd, ok := d.(*ast.GenDecl)
			if !ok || gd.Tok != token.TYPE {
				continue
			}
			for _, sp := range gd.Specs {
				ts := sp.(*ast.TypeSpec)
				st, ok := ts.Type.(*ast.StructType)
				if !ok {
					continue
				}
				si := &structInfo{}
				for _, f := range st.Fields.List {
					for _, n := range f.Names {
						si.fields = append(si.fields, n.Name)
						srt := typeSort(f.Type)
						if srt < 0 { // node.go refers to the ast package by name
							switch nodeText(f.Type) {
							case "ast.Vertex":
								srt = sortNode
							case "[]ast.Vertex":
								srt = sortNodes
							}
						}
						si.sorts = append(si.sorts, srt)
					}
				}
				a.structs[ts.Name.Name] = si
			}
		}
	}
	// find the switch over yynt in (*yyParserImpl).Parse
	var sw *ast.SwitchStmt
	for _, d := range gf.Decls {
		fd, ok := d.(*ast.FuncDecl)
		if !ok || fd.Name.Name != "Parse" || fd.Body == nil {
			continue
		}
		ast.Inspect(fd.Body, func(n ast.Node) bool {
			if s, ok := n.(*ast.SwitchStmt); ok {
				if id, ok := s.Tag.(*ast.Ident); ok && id.Name == "yynt" {
					sw = s
				}
			}
			return true
		})
	}
	if sw == nil {
		c.fail(comp, gf.Pos(), "switch yynt not found in Parse")
		return
	}
	sfx := which[3:]
	genTerms(c, a, which, g, sw, s)
	var sums []pathSummary
	var rows []string
	seenProd := map[int]bool{}
	type caseInfo struct {
		pn    int
		prod  yprod
		paths []*apath
		line  int
	}
	var cases []caseInfo
	for _, cc := range sw.Body.List {
		cl := cc.(*ast.CaseClause)
		if len(cl.List) != 1 {
			continue
		}
		bl, ok := cl.List[0].(*ast.BasicLit)
		if !ok {
			continue
		}
		pn, _ := strconv.Atoi(bl.Value)
		if pn < 1 || pn > len(g.Prods) {
			c.fail(comp, cl.Pos(), "case %d has no production in the .y", pn)
			continue
		}
		seenProd[pn] = true
		prod := g.Prods[pn-1]
		a.n = len(prod.Rhs)
		body := cl.Body
		if len(body) > 0 {
			if as, ok := body[0].(*ast.AssignStmt); ok && len(as.Lhs) == 1 && nodeText(as.Lhs[0]) == "yyDollar" {
				body = body[1:]
			}
		}
		start := &apath{locals: map[string]*aval{}}
		cases = append(cases, caseInfo{pn, prod, a.stmts([]*apath{start}, body), c.fset.Position(cl.Pos()).Line})
	}
	// pass 1: which fields does each nonterminal fill in the node it returns; which node types get their
	// position from a later production
	retTypes := map[string]map[string]bool{}  // lhs -> types of the node it returns ("nil" included)
	retFields := map[string]map[string]bool{} // lhs -> "Type.Field"
	posMutTypes := map[string]bool{}
	lhsOf := func(ci caseInfo, i int) string {
		if i >= 1 && i <= len(ci.prod.Rhs) {
			return ci.prod.Rhs[i-1]
		}
		return ""
	}
	for iter := 0; iter < 3; iter++ { // pass-through productions ($$ = $i) inherit: iterate to a fixpoint (depth <= 3 in these grammars)
		for _, ci := range cases {
			for _, p := range ci.paths {
				ret := p.ret
				if !p.retSet && len(ci.prod.Rhs) >= 1 {
					ret = &aval{kind: "ref", ref: aref{1, 0}}
				}
				add := func(k string) {
					if retFields[ci.prod.Lhs] == nil {
						retFields[ci.prod.Lhs] = map[string]bool{}
					}
					retFields[ci.prod.Lhs][k] = true
				}
				if ret != nil && ret.kind == "cast" {
					ret = ret.base
				}
				addT := func(t string) {
					if retTypes[ci.prod.Lhs] == nil {
						retTypes[ci.prod.Lhs] = map[string]bool{}
					}
					retTypes[ci.prod.Lhs][t] = true
				}
				switch {
				case ret == nil:
				case ret.kind == "obj":
					addT(ret.obj.typ)
				case ret.kind == "ref" && ret.ref.Comp == 0:
					for t := range retTypes[lhsOf(ci, ret.ref.I)] {
						addT(t)
					}
					if _, isTok := g.TokenType[lhsOf(ci, ret.ref.I)]; isTok || strings.HasPrefix(lhsOf(ci, ret.ref.I), "'") {
						addT("token")
					}
				default:
					addT("?" + ret.kind)
				}
				if ret != nil && ret.kind == "obj" {
					for f := range ret.obj.fields {
						add(ret.obj.typ + "." + f)
					}
				}
				if ret != nil && ret.kind == "ref" && ret.ref.Comp == 0 {
					for k := range retFields[lhsOf(ci, ret.ref.I)] {
						add(k)
					}
					for _, m := range p.muts {
						if m.base.I == ret.ref.I && m.typ != "" && m.field != "Position" {
							add(m.typ + "." + m.field)
						}
					}
				}
				for _, m := range p.muts {
					if m.field == "Position" && m.typ != "" {
						posMutTypes[m.typ] = true
					}
				}
			}
		}
	}
	isSepField := func(typ string, k int) bool {
		si := a.structs[typ]
		return si != nil && k >= 1 && k < len(si.sorts) && si.sorts[k] == sortToks && si.sorts[k-1] == sortNodes
	}
	var bflatten func(v *aval, out *[]aref)
	bflatten = func(v *aval, out *[]aref) {
		if v == nil {
			return
		}
		switch v.kind {
		case "ref":
			if v.ref.Comp > 0 && isSepField(v.typ, v.ref.Comp-1) {
				return
			}
			*out = append(*out, v.ref)
		case "cast":
			bflatten(v.base, out)
		case "obj":
			si := a.structs[v.obj.typ]
			if si != nil {
				for k, f := range si.fields {
					if isSepField(v.obj.typ, k) {
						continue
					}
					if fv, ok := v.obj.fields[f]; ok {
						bflatten(fv, out)
					}
				}
			}
		case "list", "append":
			bflatten(v.base, out)
			for _, e := range v.elems {
				bflatten(e, out)
			}
		}
	}
	roleSet := map[string]bool{} // "Kind.Field\x00symbol"
	for _, ci := range cases {
		for _, p := range ci.paths {
			for _, o := range p.objs {
				if !strings.HasPrefix(o.typ, "ast.") {
					continue
				}
				for f, v := range o.fields {
					if v.kind == "ref" && v.ref.Comp == 0 && v.ref.I >= 1 && v.ref.I <= len(ci.prod.Rhs) {
						sym := ci.prod.Rhs[v.ref.I-1]
						if _, isTok := g.TokenType[sym]; isTok || strings.HasPrefix(sym, "'") {
							roleSet[strings.TrimPrefix(o.typ, "ast.")+"."+f+"\x00"+sym] = true
						}
					}
				}
			}
		}
	}
	var roleKeys []string
	for r := range roleSet {
		roleKeys = append(roleKeys, r)
	}
	sortStrings(roleKeys)
	var roleRows []string
	for _, rk := range roleKeys {
		sp := strings.SplitN(rk, "\x00", 2)
		var ds []string
		for _, d := range c.printerDefaults[sp[0]] {
			ds = append(ds, fmt.Sprintf("%q", strings.ToLower(d)))
		}
		if len(ds) == 0 {
			continue // the printer has no default for this field: nothing to compare
		}
		roleRows = append(roleRows, fmt.Sprintf("(%q, %q, [%s])", sp[0], sp[1], strings.Join(ds, ", ")))
	}
	for _, ci := range cases {
		pn, prod := ci.pn, ci.prod
		a.n = len(prod.Rhs)
		for pi, p := range ci.paths {
			infeasible := false
			for _, oc := range p.others {
				if oc.i < 1 || oc.i > len(prod.Rhs) {
					continue
				}
				rt := retTypes[prod.Rhs[oc.i-1]]
				all := len(rt) > 0
				for t := range rt {
					found := false
					for _, ct := range oc.types {
						if ct == t {
							found = true
						}
					}
					if !found {
						all = false
					}
				}
				if all {
					infeasible = true
				}
			}
			if infeasible {
				continue
			}
			sum := pathSummary{Prod: pn, Path: pi, Conds: p.conds, Line: ci.line}
			why := append([]string(nil), p.opaque...)
			ret := p.ret
			if !p.retSet {
				if a.n >= 1 {
					ret = &aval{kind: "ref", ref: aref{1, 0}} // goyacc's default $$ = $1
				} else {
					ret = &aval{kind: "nil"}
				}
			}
			if p.root != nil {
				ret = p.root
			}
			var objRows []string
			reach := map[*aobj]bool{}
			var markReach func(v *aval)
			markReach = func(v *aval) {
				if v == nil {
					return
				}
				switch v.kind {
				case "obj":
					if !reach[v.obj] {
						reach[v.obj] = true
						for _, f := range v.obj.fields {
							markReach(f)
						}
					}
				case "cast":
					markReach(v.base)
				case "list", "append":
					markReach(v.base)
					for _, e := range v.elems {
						markReach(e)
					}
				}
			}
			markReach(ret)
			for _, m := range p.muts {
				markReach(m.val)
			}
			for _, o := range p.objs {
				var seq, bseq []aref
				a.flattenObj(o, &seq, &why)
				bflatten(&aval{kind: "obj", obj: o}, &bseq)
				if !reach[o] {
					if len(seq) > 0 {
						why = append(why, "a node literal holding right-hand-side values is built but not stored ("+o.typ+")")
					}
					continue
				}
				posRow := "none"
				if o.pos != nil {
					ix, ok := posArgs[o.pos.comb]
					if !ok || ix[1] >= len(o.pos.args) {
						why = append(why, "unknown position combinator "+o.pos.comb)
					} else {
						sa, ea := o.pos.args[ix[0]], o.pos.args[ix[1]]
						if o.pos.comb == "NewOptionalListTokensPosition" {
							if f, ok := a.boundary(o.pos.args[0], true); ok && len(bseq) > 0 && f == bseq[0] {
								sa = o.pos.args[0]
							} else {
								sa = o.pos.args[1]
							}
						}
						f, ok1 := a.boundary(sa, true)
						l, ok2 := a.boundary(ea, false)
						if ok1 && ok2 {
							posRow = fmt.Sprintf("some (%s, %s)", refStr(f), refStr(l))
						} else {
							why = append(why, "position boundary of "+o.typ+" is not a right-hand-side value")
						}
					}
				} else if strings.HasPrefix(o.typ, "ast.") && len(seq) > 0 && !posMutTypes[o.typ] {
					posRow = "some ((0, 0), (0, 0))" // a node with tokens but without position, and no later production supplies one
				}
				objRows = append(objRows, fmt.Sprintf("(%s, %s, %s)", refsStr(seq), refsStr(bseq), posRow))
			}
			var used []aref
			a.flatten(ret, &used, &why)
			whole := map[int]bool{}
			for _, r := range used {
				if r.Comp == 0 {
					whole[r.I] = true
				}
			}
			byBase := map[int][]aref{}
			for _, m := range p.muts {
				if m.field == "Position" {
					continue
				}
				// a store into `$i` reaches the result when `$i` itself does; when `$i` is only taken apart,
				// what was stored into it counts where the action reads it back
				if !whole[m.base.I] {
					continue
				}
				mv := m.val
				if mv.kind == "append" && mv.text == "self" {
					mv = &aval{kind: "list", elems: mv.elems} // X.F = append(X.F, e…): what X.F already holds stays where it is
				}
				var rs []aref
				a.flatten(mv, &rs, &why)
				used = append(used, rs...)
				var brs []aref
				if !isSepField(m.typ, a.fieldIdx(m.typ, m.field)) {
					bflatten(mv, &brs)
				}
				byBase[m.base.I] = append(byBase[m.base.I], brs...)
			}
			var mutPos []string
			for _, m := range p.muts {
				if m.field != "Position" || m.val.kind != "pos" {
					continue
				}
				ix, ok := posArgs[m.val.pos.comb]
				if !ok {
					why = append(why, "unknown position combinator "+m.val.pos.comb)
					continue
				}
				f, ok1 := a.boundary(m.val.pos.args[ix[0]], true)
				l, ok2 := a.boundary(m.val.pos.args[ix[1]], false)
				if ok1 && ok2 {
					mutPos = append(mutPos, fmt.Sprintf("(%d, %s, %s, %s)", m.base.I, refStr(f), refStr(l), refsStr(byBase[m.base.I])))
				} else {
					why = append(why, "position boundary of a mutated node is not a right-hand-side value")
				}
			}
			kind := 0
			if len(p.muts) > 0 {
				kind = 1
			}
			if len(why) > 0 {
				kind = 2
			} else if p.reports {
				kind = 3
			}
			// what must be stored
			parts := map[int]string{}
			var noteTyp func(v *aval)
			noteTyp = func(v *aval) {
				if v == nil {
					return
				}
				switch v.kind {
				case "ref":
					if v.ref.Comp > 0 && parts[v.ref.I] == "" {
						parts[v.ref.I] = v.typ
					}
				case "obj":
					for _, f := range v.obj.fields {
						noteTyp(f)
					}
				case "list", "append", "cast":
					noteTyp(v.base)
					for _, e := range v.elems {
						noteTyp(e)
					}
				}
			}
			noteTyp(ret)
			for _, m := range p.muts {
				noteTyp(m.val)
			}
			var need []aref
			for i := 1; i <= a.n; i++ {
				typ, taken := parts[i]
				if !taken || whole[i] {
					need = append(need, aref{i, 0})
					continue
				}
				si := a.structs[typ]
				filled := retFields[prod.Rhs[i-1]]
				if si == nil {
					need = append(need, aref{i, 0})
					continue
				}
				for k, srt := range si.sorts {
					if !(srt == sortTok || srt == sortToks || srt == sortNode || srt == sortNodes) {
						continue
					}
					if filled[typ+"."+si.fields[k]] {
						need = append(need, aref{i, k + 1})
					}
				}
			}
			// symbols that carry no text: the error token, untyped (empty) nonterminals, values that are nil on this path
			var exempt []string
			for i, x := range prod.Rhs {
				_, isTok := g.TokenType[x]
				_, isNt := g.NtType[x]
				if x == "error" || (!isTok && !isNt && !strings.HasPrefix(x, "'")) {
					exempt = append(exempt, strconv.Itoa(i+1))
				}
			}
			for _, i := range p.nilIdx {
				exempt = append(exempt, strconv.Itoa(i))
			}
			sum.Kind = kind
			sum.Why = why
			sum.Used = used
			shape := a.shapeText(ret, 0)
			for _, m := range p.muts {
				shape += fmt.Sprintf(" | $%d.(%s).%s=%s", m.base.I, m.typ, m.field, a.shapeText(m.val, 0))
			}
			shape += " | " + strings.Join(p.conds, "&")
			sum.Shape = shape
			row := fmt.Sprintf("{ prod := %d, path := %d, n := %d, kind := %d, objs := [%s], used := %s, need := %s, exempt := [%s], mutPos := [%s], shape := %d }",
				pn, pi, a.n, kind, strings.Join(objRows, ", "), refsStr(used), refsStr(need), strings.Join(exempt, ", "), strings.Join(mutPos, ", "), c.intern("shape:"+shape))
			rows = append(rows, row)
			sums = append(sums, sum)
		}
	}
	for _, p := range g.Prods {
		if !seenProd[p.N] && p.Action {
			c.fail(comp, gf.Pos(), "production %d (%s.y:%d) has an action in the .y but no case in %s.go", p.N, which, p.Line, which)
		}
	}
	var b strings.Builder
	fmt.Fprintf(&b, "-- GENERATED by gofacts from internal/%s/%s.go (switch yynt of Parse) and %s.y. Do not edit.\nimport PhpVerif.Model.Actions\nnamespace PhpVerif.Gen\nopen PhpVerif\n\n", which, which, which)
	var names []string
	for i := 0; i < len(rows); i += 16 {
		j := i + 16
		if j > len(rows) {
			j = len(rows)
		}
		nm := fmt.Sprintf("paths%s_%d", sfx, i/16)
		fmt.Fprintf(&b, "def %s : List PathSum := [\n  %s]\n", nm, strings.Join(rows[i:j], ",\n  "))
		names = append(names, nm)
	}
	fmt.Fprintf(&b, "def paths%s : List PathSum := %s\n", sfx, strings.Join(names, " ++ "))
	// (node kind.field, terminal stored there by some action, the lower-cased default lexemes the printer has for that field)
	fmt.Fprintf(&b, "def tokenRoles%s : List (String × String × List String) := [\n  %s]\n", sfx, strings.Join(roleRows, ",\n  "))
	b.WriteString("\nend PhpVerif.Gen\n")
	writeIfChanged(filepath.Join(c.out, "Actions"+sfx+".lean"), b.String())
	c.side["actions"+sfx] = sums
}

func sortStrings(x []string) { sort.Strings(x) }
