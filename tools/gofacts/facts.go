package main

import (
	"fmt"
	"go/ast"
	"go/token"
	"os"
	"path/filepath"
	"sort"
	"strings"
)

// T-facts (DESIGN.md §2.1): syntactic facts whose truth makes a modelling assumption valid.
// Each fact list is emitted as Lean data (counts + interned site ids) and the expectation the
// models were built on is checked by `decide` in Props/*.lean.  The JSON side file carries the
// readable sites.

type site struct {
	File string `json:"file"`
	Line int    `json:"line"`
	Func string `json:"func"`
	What string `json:"what"`
}

func (c *ctx) siteOf(pos token.Pos, fn, what string) site {
	p := c.fset.Position(pos)
	rel, err := filepath.Rel(c.repo, p.Filename)
	if err != nil {
		rel = p.Filename
	}
	return site{rel, p.Line, fn, what}
}

func rootIdent(e ast.Expr) (*ast.Ident, int) {
	depth := 0
	for {
		switch t := e.(type) {
		case *ast.Ident:
			return t, depth
		case *ast.SelectorExpr:
			e = t.X
			depth++
		case *ast.IndexExpr:
			e = t.X
			depth++
		case *ast.StarExpr:
			e = t.X
			depth++
		case *ast.ParenExpr:
			e = t.X
		case *ast.TypeAssertExpr:
			e = t.X
		case *ast.SliceExpr:
			e = t.X
			depth++
		case *ast.CallExpr:
			// method call result, e.g. n.GetPosition(): root is the receiver
			if s, ok := t.Fun.(*ast.SelectorExpr); ok {
				e = s.X
				depth++
				continue
			}
			return nil, 0
		default:
			return nil, 0
		}
	}
}

func typeMentionsTree(e ast.Expr) bool {
	var b strings.Builder
	printExpr(&b, e)
	s := b.String()
	return strings.Contains(s, "ast.") || strings.Contains(s, "token.Token") || strings.Contains(s, "Vertex") || strings.Contains(s, "position.Position")
}

// treeVars computes the identifiers of a function that (may) denote tree objects: parameters of a
// tree type, and locals defined from expressions rooted at such identifiers (fixpoint).
func treeVars(fd *ast.FuncDecl, recvIsTree bool) map[string]bool {
	tv := map[string]bool{}
	if fd.Type.Params != nil {
		for _, f := range fd.Type.Params.List {
			if typeMentionsTree(f.Type) {
				for _, n := range f.Names {
					tv[n.Name] = true
				}
			}
		}
	}
	if recvIsTree && fd.Recv != nil {
		for _, f := range fd.Recv.List {
			for _, n := range f.Names {
				tv[n.Name] = true
			}
		}
	}
	for changed := true; changed; {
		changed = false
		mark := func(id *ast.Ident) {
			if id != nil && id.Name != "_" && !tv[id.Name] {
				tv[id.Name] = true
				changed = true
			}
		}
		ast.Inspect(fd.Body, func(n ast.Node) bool {
			switch t := n.(type) {
			case *ast.AssignStmt:
				for i, l := range t.Lhs {
					id, ok := l.(*ast.Ident)
					if !ok {
						continue
					}
					var r ast.Expr
					if len(t.Rhs) == len(t.Lhs) {
						r = t.Rhs[i]
					} else if len(t.Rhs) == 1 {
						r = t.Rhs[0]
					}
					if r == nil {
						continue
					}
					if rid, _ := rootIdent(r); rid != nil && tv[rid.Name] {
						mark(id)
					}
				}
			case *ast.RangeStmt:
				if rid, _ := rootIdent(t.X); rid != nil && tv[rid.Name] {
					if id, ok := t.Value.(*ast.Ident); ok {
						mark(id)
					}
				}
			case *ast.TypeSwitchStmt:
				if as, ok := t.Assign.(*ast.AssignStmt); ok && len(as.Lhs) == 1 && len(as.Rhs) == 1 {
					if rid, _ := rootIdent(as.Rhs[0]); rid != nil && tv[rid.Name] {
						if id, ok := as.Lhs[0].(*ast.Ident); ok {
							mark(id)
						}
					}
				}
			}
			return true
		})
	}
	return tv
}

// pureCalls: functions that do not write through their arguments
var pureCalls = map[string]bool{
	"len": true, "cap": true, "string": true, "bytes.Equal": true, "bytes.HasPrefix": true, "bytes.HasSuffix": true, "bytes.TrimRight": true,
	"strings.ToLower": true, "strings.Join": true, "strings.Repeat": true, "strconv.Quote": true, "strconv.Itoa": true, "io.WriteString": true,
	"fmt.Sprintf": true, "fmt.Fprintf": true, "int": true, "isValidVarName": true, "bytes.Compare": true, "strings.EqualFold": true, "bytes.EqualFold": true,
	"bytes.ToLower": true, "strings.HasPrefix": true, "make": true, "panic": true, "strings.TrimLeft": true, "strings.Split": true,
}

func callName(e ast.Expr) string {
	var b strings.Builder
	printExpr(&b, e)
	return b.String()
}

// writesThroughTree lists, for one file, every statement that may modify an object reachable from
// a tree parameter: assignment / inc-dec whose target is a field, element or pointee of a tree
// variable; append / copy whose destination is such a field (append may write the shared backing
// array); calls of functions outside the allow-list that receive such a field.
func (c *ctx) writesThroughTree(f *ast.File, recvFields map[string]bool) []site {
	var out []site
	for _, d := range f.Decls {
		fd, ok := d.(*ast.FuncDecl)
		if !ok || fd.Body == nil {
			continue
		}
		tv := treeVars(fd, false)
		recv := ""
		if fd.Recv != nil && len(fd.Recv.List) == 1 && len(fd.Recv.List[0].Names) == 1 {
			recv = fd.Recv.List[0].Names[0].Name
		}
		isTreeTarget := func(e ast.Expr) bool {
			id, depth := rootIdent(e)
			if id == nil || depth == 0 {
				return false
			}
			if tv[id.Name] {
				return true
			}
			return false
		}
		_ = recv
		ast.Inspect(fd.Body, func(n ast.Node) bool {
			switch t := n.(type) {
			case *ast.AssignStmt:
				for _, l := range t.Lhs {
					if isTreeTarget(l) {
						out = append(out, c.siteOf(t.Pos(), fd.Name.Name, "assign "+callName(l)))
					}
				}
			case *ast.IncDecStmt:
				if isTreeTarget(t.X) {
					out = append(out, c.siteOf(t.Pos(), fd.Name.Name, "incdec "+callName(t.X)))
				}
			case *ast.CallExpr:
				name := callName(t.Fun)
				switch name {
				case "append", "copy":
					// append may write the backing array its first argument shares with the tree (or, through
					// token values, with the source buffer), also when that argument is a local alias
					aliased := false
					if len(t.Args) > 0 {
						if id, _ := rootIdent(t.Args[0]); id != nil && tv[id.Name] {
							aliased = true
						}
					}
					if aliased {
						out = append(out, c.siteOf(t.Pos(), fd.Name.Name, name+" into "+callName(t.Args[0])))
					}
				case "sort.Slice", "sort.SliceStable", "sort.Sort", "sort.Strings", "bytes.Replace":
					for _, a := range t.Args {
						if isTreeTarget(a) {
							out = append(out, c.siteOf(t.Pos(), fd.Name.Name, name+" on "+callName(a)))
						}
					}
				}
			}
			return true
		})
	}
	return out
}

func (c *ctx) leanSites(b *strings.Builder, name string, ss []site) {
	ids := []string{}
	for _, s := range ss {
		ids = append(ids, fmt.Sprint(c.intern(fmt.Sprintf("%s:%d %s: %s", s.File, s.Line, s.Func, s.What))))
	}
	fmt.Fprintf(b, "def %s : List Nat := [%s]\n", name, strings.Join(ids, ", "))
}

func goFiles(root string, skip func(rel string) bool) []string {
	var out []string
	filepath.Walk(root, func(path string, info os.FileInfo, err error) error {
		if err != nil {
			return nil
		}
		rel, _ := filepath.Rel(root, path)
		if info.IsDir() {
			if strings.HasPrefix(info.Name(), ".") || info.Name() == "vendor" || info.Name() == "_mutant" {
				return filepath.SkipDir
			}
			return nil
		}
		if !strings.HasSuffix(path, ".go") || strings.HasSuffix(path, "_test.go") || skip(rel) {
			return nil
		}
		out = append(out, rel)
		return nil
	})
	sort.Strings(out)
	return out
}

func hasVerifTag(f *ast.File) bool {
	for _, cg := range f.Comments {
		for _, cm := range cg.List {
			if strings.HasPrefix(cm.Text, "//go:build") && strings.Contains(cm.Text, "verif") {
				return true
			}
		}
	}
	return false
}

func genFacts(c *ctx, s *schema) {
	comp := "facts"
	var b strings.Builder
	b.WriteString("-- GENERATED by gofacts (T-facts) from the non-test Go sources of the module. Do not edit.\nnamespace PhpVerif.Gen\n\n")

	// F1 observers: printer, dumper, traverser, resolver, null
	obs := []string{"pkg/visitor/printer/printer.go", "pkg/visitor/dumper/dumper.go", "pkg/visitor/traverser/traverser.go", "pkg/visitor/nsresolver/namespace_resolver.go", "pkg/visitor/null.go"}
	var obsWrites []site
	for _, rel := range obs {
		f := c.parseFile(rel)
		if f == nil {
			continue
		}
		obsWrites = append(obsWrites, c.writesThroughTree(f, nil)...)
	}
	c.side["observer_writes"] = obsWrites
	c.leanSites(&b, "observerWrites", obsWrites)

	// all non-test, non-verif files of the module
	type pf struct {
		rel string
		f   *ast.File
	}
	var files []pf
	for _, rel := range goFiles(c.repo, func(rel string) bool { return false }) {
		f := c.parseFile(rel)
		if f == nil || hasVerifTag(f) {
			continue
		}
		files = append(files, pf{rel, f})
	}

	// F2 package-level variables and writes to them
	type pkgvar struct{ Pkg, Name, File string }
	pkgVars := map[string]map[string]bool{} // dir -> names
	var allVars []string
	for _, x := range files {
		dir := filepath.Dir(x.rel)
		for _, d := range x.f.Decls {
			gd, ok := d.(*ast.GenDecl)
			if !ok || gd.Tok != token.VAR {
				continue
			}
			for _, sp := range gd.Specs {
				vs := sp.(*ast.ValueSpec)
				for _, n := range vs.Names {
					if n.Name == "_" {
						continue
					}
					if pkgVars[dir] == nil {
						pkgVars[dir] = map[string]bool{}
					}
					pkgVars[dir][n.Name] = true
					allVars = append(allVars, dir+"."+n.Name)
				}
			}
		}
	}
	sort.Strings(allVars)
	var globalWrites []site
	for _, x := range files {
		dir := filepath.Dir(x.rel)
		vars := pkgVars[dir]
		if len(vars) == 0 {
			continue
		}
		for _, d := range x.f.Decls {
			fd, ok := d.(*ast.FuncDecl)
			if !ok || fd.Body == nil {
				continue
			}
			// locals that shadow
			local := map[string]bool{}
			if fd.Type.Params != nil {
				for _, f := range fd.Type.Params.List {
					for _, n := range f.Names {
						local[n.Name] = true
					}
				}
			}
			if fd.Type.Results != nil {
				for _, f := range fd.Type.Results.List {
					for _, n := range f.Names {
						local[n.Name] = true
					}
				}
			}
			if fd.Recv != nil {
				for _, f := range fd.Recv.List {
					for _, n := range f.Names {
						local[n.Name] = true
					}
				}
			}
			ast.Inspect(fd.Body, func(n ast.Node) bool {
				switch t := n.(type) {
				case *ast.AssignStmt:
					if t.Tok == token.DEFINE {
						for _, l := range t.Lhs {
							if id, ok := l.(*ast.Ident); ok {
								local[id.Name] = true
							}
						}
					}
				case *ast.DeclStmt:
					if gd, ok := t.Decl.(*ast.GenDecl); ok {
						for _, sp := range gd.Specs {
							if vs, ok := sp.(*ast.ValueSpec); ok {
								for _, n := range vs.Names {
									local[n.Name] = true
								}
							}
						}
					}
				case *ast.RangeStmt:
					if t.Tok == token.DEFINE {
						for _, e := range []ast.Expr{t.Key, t.Value} {
							if id, ok := e.(*ast.Ident); ok {
								local[id.Name] = true
							}
						}
					}
				}
				return true
			})
			chk := func(e ast.Expr, pos token.Pos, what string) {
				id, _ := rootIdent(e)
				if id != nil && vars[id.Name] && !local[id.Name] {
					globalWrites = append(globalWrites, c.siteOf(pos, fd.Name.Name, what+" "+callName(e)))
				}
			}
			ast.Inspect(fd.Body, func(n ast.Node) bool {
				switch t := n.(type) {
				case *ast.AssignStmt:
					if t.Tok != token.DEFINE {
						for _, l := range t.Lhs {
							chk(l, t.Pos(), "assign")
						}
					}
				case *ast.IncDecStmt:
					chk(t.X, t.Pos(), "incdec")
				case *ast.UnaryExpr:
					if t.Op == token.AND {
						// address taken: could be written elsewhere
						if id, ok := t.X.(*ast.Ident); ok && vars[id.Name] && !local[id.Name] {
							globalWrites = append(globalWrites, c.siteOf(t.Pos(), fd.Name.Name, "address-of "+id.Name))
						}
					}
				}
				return true
			})
		}
	}
	// the command-line program is not part of the library pipelines
	var libWrites, cmdWrites []site
	for _, w := range globalWrites {
		if strings.HasPrefix(w.File, "cmd/") {
			cmdWrites = append(cmdWrites, w)
		} else {
			libWrites = append(libWrites, w)
		}
	}
	c.side["package_vars"] = allVars
	c.side["global_writes_lib"] = libWrites
	c.side["global_writes_cmd"] = cmdWrites
	c.leanSites(&b, "globalWritesLib", libWrites)
	fmt.Fprintf(&b, "def nPackageVars : Nat := %d\n", len(allVars))
	// the library's package-level variables by name: state that outlives a call is what concurrent (and
	// consecutive) pipelines could share, also when it is only ever changed through method calls (a
	// sync.Pool, a map, a cache); the set is pinned in Spec/SharedState.lean
	var libVars []string
	for _, v := range allVars {
		if !strings.HasPrefix(v, "cmd/") {
			libVars = append(libVars, fmt.Sprintf("%q", v))
		}
	}
	sort.Strings(libVars)
	fmt.Fprintf(&b, "def libPackageVars : List String := [%s]\n", strings.Join(libVars, ", "))

	// F3 error callback invocations and their nil guards
	var unguarded, guarded []site
	for _, x := range files {
		for _, d := range x.f.Decls {
			fd, ok := d.(*ast.FuncDecl)
			if !ok || fd.Body == nil {
				continue
			}
			isCb := func(e ast.Expr) bool {
				s, ok := e.(*ast.SelectorExpr)
				return ok && (s.Sel.Name == "errHandlerFunc" || s.Sel.Name == "ErrorHandlerFunc")
			}
			// guard forms: (a) an earlier top-level `if X.cb == nil { return }`; (b) enclosing `if X.cb != nil`
			earlyReturn := token.NoPos
			for _, st := range fd.Body.List {
				if is, ok := st.(*ast.IfStmt); ok && is.Init == nil && is.Else == nil {
					if be, ok := is.Cond.(*ast.BinaryExpr); ok && be.Op == token.EQL && isCb(be.X) && isNil(be.Y) && len(is.Body.List) == 1 {
						if _, ok := is.Body.List[0].(*ast.ReturnStmt); ok {
							earlyReturn = is.End()
							break
						}
					}
				}
			}
			var stack []ast.Node
			ast.Inspect(fd.Body, func(n ast.Node) bool {
				if n == nil {
					stack = stack[:len(stack)-1]
					return true
				}
				stack = append(stack, n)
				ce, ok := n.(*ast.CallExpr)
				if !ok || !isCb(ce.Fun) {
					return true
				}
				ok2 := earlyReturn != token.NoPos && ce.Pos() > earlyReturn
				for i := len(stack) - 2; i >= 0 && !ok2; i-- {
					if is, ok := stack[i].(*ast.IfStmt); ok {
						if be, ok := is.Cond.(*ast.BinaryExpr); ok && be.Op == token.NEQ && isCb(be.X) && isNil(be.Y) {
							// the call must be in the then-branch
							if ce.Pos() >= is.Body.Pos() && ce.End() <= is.Body.End() {
								ok2 = true
							}
						}
					}
				}
				st := c.siteOf(ce.Pos(), fd.Name.Name, "call "+callName(ce.Fun))
				if ok2 {
					guarded = append(guarded, st)
				} else {
					unguarded = append(unguarded, st)
				}
				return true
			})
		}
	}
	// F3b: every other read of the callback (anything but a call, a nil comparison, or copying it into a
	// struct literal field) could let its presence influence parsing
	var cbOther []site
	for _, x := range files {
		if strings.HasPrefix(x.rel, "cmd/") {
			continue
		}
		allowed := map[ast.Expr]bool{}
		ast.Inspect(x.f, func(n ast.Node) bool {
			switch t := n.(type) {
			case *ast.CallExpr:
				allowed[t.Fun] = true
			case *ast.BinaryExpr:
				if (t.Op == token.EQL || t.Op == token.NEQ) && isNil(t.Y) {
					allowed[t.X] = true
				}
			case *ast.KeyValueExpr:
				allowed[t.Value] = true
			}
			return true
		})
		ast.Inspect(x.f, func(n ast.Node) bool {
			if s, ok := n.(*ast.SelectorExpr); ok && (s.Sel.Name == "errHandlerFunc" || s.Sel.Name == "ErrorHandlerFunc") && !allowed[s] {
				cbOther = append(cbOther, c.siteOf(s.Pos(), "", "read "+callName(s)))
			}
			return true
		})
	}
	c.side["callback_other_reads"] = cbOther
	c.leanSites(&b, "callbackOtherReads", cbOther)
	c.side["callback_unguarded"] = unguarded
	c.side["callback_guarded"] = guarded
	c.leanSites(&b, "callbackUnguarded", unguarded)
	fmt.Fprintf(&b, "def nCallbackGuarded : Nat := %d\n", len(guarded))

	// F4 writes into the input buffer / token values (parsing side: scanner, php5, php7, parser, position)
	var bufWrites []site
	for _, x := range files {
		if !(strings.HasPrefix(x.rel, "internal/") || strings.HasPrefix(x.rel, "pkg/parser/") || strings.HasPrefix(x.rel, "pkg/token/") || strings.HasPrefix(x.rel, "pkg/position/")) {
			continue
		}
		if x.rel == "internal/scanner/newline.go" {
			continue // NewLines.data is the line table ([]int), not the input buffer
		}
		isBuf := func(e ast.Expr) bool {
			// lex.data[...] / X.Value[...] / X.data[...]
			switch t := e.(type) {
			case *ast.IndexExpr:
				if s, ok := t.X.(*ast.SelectorExpr); ok && (s.Sel.Name == "data" || s.Sel.Name == "Value") {
					return true
				}
			case *ast.SliceExpr:
				if s, ok := t.X.(*ast.SelectorExpr); ok && (s.Sel.Name == "data" || s.Sel.Name == "Value") {
					return true
				}
			case *ast.SelectorExpr:
				return t.Sel.Name == "data" || t.Sel.Name == "Value"
			}
			return false
		}
		for _, d := range x.f.Decls {
			fd, ok := d.(*ast.FuncDecl)
			if !ok || fd.Body == nil {
				continue
			}
			ast.Inspect(fd.Body, func(n ast.Node) bool {
				switch t := n.(type) {
				case *ast.AssignStmt:
					for _, l := range t.Lhs {
						if ie, ok := l.(*ast.IndexExpr); ok && isBuf(ie) {
							bufWrites = append(bufWrites, c.siteOf(t.Pos(), fd.Name.Name, "element write "+callName(l)))
						}
					}
				case *ast.CallExpr:
					name := callName(t.Fun)
					if (name == "append" || name == "copy") && len(t.Args) > 0 && isBuf(t.Args[0]) {
						bufWrites = append(bufWrites, c.siteOf(t.Pos(), fd.Name.Name, name+" into "+callName(t.Args[0])))
					}
				}
				return true
			})
		}
	}
	c.side["buffer_writes"] = bufWrites
	c.leanSites(&b, "bufferWrites", bufWrites)

	// F5 reads of the configured version
	var verReads []site
	for _, x := range files {
		if strings.HasPrefix(x.rel, "cmd/") || strings.HasPrefix(x.rel, "pkg/version/") {
			continue
		}
		for _, d := range x.f.Decls {
			fd, ok := d.(*ast.FuncDecl)
			if !ok || fd.Body == nil {
				continue
			}
			ast.Inspect(fd.Body, func(n ast.Node) bool {
				if s, ok := n.(*ast.SelectorExpr); ok && (s.Sel.Name == "phpVersion" || s.Sel.Name == "Version") {
					if id, ok := s.X.(*ast.Ident); ok && (id.Name == "version" || id.Name == "conf") {
						return true // package-qualified type name
					}
					verReads = append(verReads, c.siteOf(s.Pos(), fd.Name.Name, callName(s)))
				}
				return true
			})
		}
	}
	c.side["version_reads"] = verReads
	var vr []string
	for _, s := range verReads {
		vr = append(vr, s.File+":"+s.Func+":"+s.What)
	}
	sort.Strings(vr)
	// expectation the C09 model was built on (file:func:expr), compared as text
	wantVR := []string{
		"internal/scanner/lexer.go:NewLexer:config.Version",
		"internal/scanner/lexer.go:isHeredocEnd:lex.phpVersion",
		"pkg/parser/parser.go:Parse:config.Version",
		"pkg/parser/parser.go:Parse:config.Version",
		"pkg/parser/parser.go:Parse:config.Version",
	}
	okVR := strings.Join(dedup(vr), "|") == strings.Join(dedup(wantVR), "|")
	fmt.Fprintf(&b, "def versionReadsAsModelled : Bool := %v\n", okVR)
	fmt.Fprintf(&b, "def nVersionReads : Nat := %d\n", len(vr))
	c.side["version_reads_text"] = vr

	// F6 grammar actions that branch on trivia or positions
	var triviaBranches []site
	for _, rel := range []string{"internal/php5/php5.go", "internal/php7/php7.go"} {
		var f *ast.File
		for _, x := range files {
			if x.rel == rel {
				f = x.f
			}
		}
		if f == nil {
			c.fail(comp, token.NoPos, "%s not found", rel)
			continue
		}
		for _, d := range f.Decls {
			fd, ok := d.(*ast.FuncDecl)
			if !ok || fd.Body == nil || fd.Name.Name != "Parse" {
				continue
			}
			mentions := func(e ast.Node) bool {
				found := false
				ast.Inspect(e, func(n ast.Node) bool {
					if s, ok := n.(*ast.SelectorExpr); ok && (s.Sel.Name == "FreeFloating" || s.Sel.Name == "Position" || s.Sel.Name == "StartPos" || s.Sel.Name == "EndPos" || s.Sel.Name == "StartLine" || s.Sel.Name == "EndLine") {
						found = true
					}
					return !found
				})
				return found
			}
			ast.Inspect(fd.Body, func(n ast.Node) bool {
				switch t := n.(type) {
				case *ast.IfStmt:
					if mentions(t.Cond) {
						triviaBranches = append(triviaBranches, c.siteOf(t.Pos(), "yyParse", "if "+callName(t.Cond)))
					}
				case *ast.SwitchStmt:
					if t.Tag != nil && mentions(t.Tag) {
						triviaBranches = append(triviaBranches, c.siteOf(t.Pos(), "yyParse", "switch "+callName(t.Tag)))
					}
				}
				return true
			})
		}
	}
	c.side["trivia_branches"] = triviaBranches
	c.leanSites(&b, "triviaBranches", triviaBranches)
	// F6b: any mention of a token's FreeFloating list inside the generated parsers
	var ffMentions []site
	for _, rel := range []string{"internal/php5/php5.go", "internal/php7/php7.go", "internal/php5/parser.go", "internal/php7/parser.go", "internal/position/position.go"} {
		for _, x := range files {
			if x.rel != rel {
				continue
			}
			ast.Inspect(x.f, func(n ast.Node) bool {
				if s, ok := n.(*ast.SelectorExpr); ok && s.Sel.Name == "FreeFloating" {
					ffMentions = append(ffMentions, c.siteOf(s.Pos(), "", callName(s)))
				}
				return true
			})
		}
	}
	c.side["freefloating_mentions"] = ffMentions
	c.leanSites(&b, "freeFloatingMentions", ffMentions)

	b.WriteString("\nend PhpVerif.Gen\n")
	writeIfChanged(filepath.Join(c.out, "Facts.lean"), b.String())
}

func dedup(xs []string) []string {
	var out []string
	for i, x := range xs {
		if i == 0 || xs[i-1] != x {
			out = append(out, x)
		}
	}
	return out
}
