package main

import (
	"fmt"
	"go/ast"
	"go/token"
	"sort"
	"strconv"
	"strings"
)

// genScanBlocks (component "scanblocks"): the action blocks of the ragel-generated
// internal/scanner/scanner.go, each reduced to the order of its effects on (ts, te) and on the
// token being built.  A block is the statement run from a label `trN:` to the next label of
// func (*Lexer) Lex; a `switch lex.act` inside splits it into one block per case.  Nested
// statements are flattened in program order (an over-approximation of every path).
//
//	1  te/ts changes: lex.ungetCnt(..), lex.ungetStr(..), assignment / inc / dec of lex.te, lex.ts
//	8  lex.ungetCnt(lex.te - lex.ts - 5)             (te := ts + 5)
//	2  lex.setTokenPosition(tkn)
//	3  lex.addFreeFloatingToken(tkn, ID, lex.ts, lex.te)
//	6  lex.addFreeFloatingToken(tkn, ID, lex.ts, lex.ts+5)
//	7  any other addFreeFloatingToken / setTokenPosition argument shape
//	4  goto _out
func genScanBlocks(c *ctx) {
	const comp = "scanblocks"
	f := c.parseFile("internal/scanner/scanner.go")
	if f == nil {
		return
	}
	var lexFn *ast.FuncDecl
	for _, d := range f.Decls {
		if fd, ok := d.(*ast.FuncDecl); ok && fd.Name.Name == "Lex" && fd.Recv != nil {
			lexFn = fd
		}
	}
	if lexFn == nil {
		c.fail(comp, f.Pos(), "func (*Lexer) Lex not found")
		return
	}
	isLexSel := func(e ast.Expr, name string) bool {
		for {
			p, ok := e.(*ast.ParenExpr)
			if !ok {
				break
			}
			e = p.X
		}
		s, ok := e.(*ast.SelectorExpr)
		if !ok || s.Sel.Name != name {
			return false
		}
		id, ok := s.X.(*ast.Ident)
		return ok && id.Name == "lex"
	}
	txt := func(e ast.Expr) string {
		var sb strings.Builder
		printExpr(&sb, e)
		return strings.ReplaceAll(sb.String(), " ", "")
	}
	seen := map[token.Pos]bool{}
	type block struct {
		id  int
		ops []int
		pos token.Pos
	}
	var blocks []block
	// effect code of a simple statement (0 = none)
	effect := func(st ast.Stmt) []int {
		var out []int
		switch s := st.(type) {
		case *ast.ExprStmt:
			call, ok := s.X.(*ast.CallExpr)
			if !ok {
				return nil
			}
			sel, ok := call.Fun.(*ast.SelectorExpr)
			if !ok {
				return nil
			}
			if id, ok := sel.X.(*ast.Ident); !ok || id.Name != "lex" {
				return nil
			}
			seen[call.Pos()] = true
			switch sel.Sel.Name {
			case "ungetCnt":
				if len(call.Args) == 1 && txt(call.Args[0]) == "lex.te-lex.ts-5" {
					out = append(out, 8)
				} else {
					out = append(out, 1)
				}
			case "ungetStr":
				out = append(out, 1)
			case "setTokenPosition":
				if len(call.Args) == 1 && txt(call.Args[0]) == "tkn" {
					out = append(out, 2)
				} else {
					out = append(out, 7)
				}
			case "addFreeFloatingToken":
				if len(call.Args) == 4 && txt(call.Args[0]) == "tkn" && txt(call.Args[2]) == "lex.ts" && txt(call.Args[3]) == "lex.te" {
					out = append(out, 3)
				} else if len(call.Args) == 4 && txt(call.Args[0]) == "tkn" && txt(call.Args[2]) == "lex.ts" && txt(call.Args[3]) == "lex.ts+5" {
					out = append(out, 6)
				} else {
					out = append(out, 7)
				}
			}
		case *ast.AssignStmt:
			for _, l := range s.Lhs {
				if isLexSel(l, "te") || isLexSel(l, "ts") {
					out = append(out, 1)
				}
			}
		case *ast.IncDecStmt:
			if isLexSel(s.X, "te") || isLexSel(s.X, "ts") {
				out = append(out, 1)
			}
		}
		return out
	}
	// path enumeration: walk returns the paths that fall through the statement list (open) and adds
	// the paths that leave the block (goto / return) to *done.  A loop body is taken zero times or once;
	// a loop body with an effect in it is outside the fragment.
	type path = []int
	ext := func(ps []path, codes []int) []path {
		if len(codes) == 0 {
			return ps
		}
		out := make([]path, len(ps))
		for i, p := range ps {
			out[i] = append(append(path{}, p...), codes...)
		}
		return out
	}
	var walk func(list []ast.Stmt, open []path, done *[]path, brk *[]path) []path
	var walk1 func(st ast.Stmt, open []path, done *[]path, brk *[]path) []path
	walk = func(list []ast.Stmt, open []path, done *[]path, brk *[]path) []path {
		for _, st := range list {
			if len(open) == 0 {
				break
			}
			open = walk1(st, open, done, brk)
		}
		return open
	}
	walk1 = func(st ast.Stmt, open []path, done *[]path, brk *[]path) []path {
		switch s := st.(type) {
		case nil, *ast.EmptyStmt, *ast.DeclStmt:
			return open
		case *ast.ExprStmt, *ast.AssignStmt, *ast.IncDecStmt:
			return ext(open, effect(st))
		case *ast.BranchStmt:
			switch s.Tok {
			case token.GOTO:
				if s.Label != nil && s.Label.Name == "_out" {
					*done = append(*done, ext(open, []int{4})...)
				} else {
					*done = append(*done, open...)
				}
				return nil
			case token.BREAK, token.CONTINUE:
				if brk != nil && s.Label == nil {
					*brk = append(*brk, open...)
					return nil
				}
			}
			c.fail(comp, s.Pos(), "branch statement outside the fragment")
			return nil
		case *ast.ReturnStmt:
			*done = append(*done, open...)
			return nil
		case *ast.BlockStmt:
			return walk(s.List, open, done, brk)
		case *ast.IfStmt:
			open = walk1(s.Init, open, done, brk)
			thenOpen := walk(s.Body.List, open, done, brk)
			var elseOpen []path
			if s.Else != nil {
				elseOpen = walk1(s.Else, open, done, brk)
			} else {
				elseOpen = open
			}
			return append(append([]path{}, thenOpen...), elseOpen...)
		case *ast.SwitchStmt:
			open = walk1(s.Init, open, done, brk)
			var after []path
			hasDefault := false
			var inner []path
			for _, cc := range s.Body.List {
				cl := cc.(*ast.CaseClause)
				if cl.List == nil {
					hasDefault = true
				}
				after = append(after, walk(cl.Body, open, done, &inner)...)
			}
			after = append(after, inner...)
			if !hasDefault {
				after = append(after, open...)
			}
			return after
		case *ast.ForStmt, *ast.RangeStmt:
			var body *ast.BlockStmt
			if f, ok := s.(*ast.ForStmt); ok {
				open = walk1(f.Init, open, done, brk)
				body = f.Body
			} else {
				body = s.(*ast.RangeStmt).Body
			}
			var inner []path
			var d2 []path
			once := walk(body.List, []path{{}}, &d2, &inner)
			for _, p := range append(append(once, inner...), d2...) {
				if len(p) > 0 {
					c.fail(comp, s.Pos(), "loop body with a position / unget effect is outside the fragment")
				}
			}
			// leaving the block from inside the loop
			for range d2 {
				*done = append(*done, open...)
			}
			return open
		case *ast.LabeledStmt:
			return walk1(s.Stmt, open, done, brk)
		}
		c.fail(comp, st.Pos(), "statement kind %T outside the fragment", st)
		return open
	}
	isActSwitch := func(st ast.Stmt) (*ast.SwitchStmt, bool) {
		s, ok := st.(*ast.SwitchStmt)
		if !ok || s.Tag == nil || !isLexSel(s.Tag, "act") {
			return nil, false
		}
		return s, true
	}
	segment := func(label string, pos token.Pos, list []ast.Stmt) {
		n, err := strconv.Atoi(strings.TrimPrefix(label, "tr"))
		if err != nil {
			return
		}
		emit := func(id int, l []ast.Stmt, p token.Pos) {
			var done []path
			open := walk(l, []path{{}}, &done, nil)
			if len(open) > 0 {
				c.fail(comp, p, "action block can fall through into the next label")
			}
			for k, d := range done {
				blocks = append(blocks, block{id*100 + k, d, p})
			}
		}
		for i, st := range list {
			if sw, ok := isActSwitch(st); ok {
				for _, cc := range sw.Body.List {
					cl := cc.(*ast.CaseClause)
					cn := 0
					if len(cl.List) == 1 {
						if bl, ok := cl.List[0].(*ast.BasicLit); ok {
							cn, _ = strconv.Atoi(bl.Value)
						}
					}
					l := append(append(append([]ast.Stmt{}, list[:i]...), cl.Body...), list[i+1:]...)
					emit(n*1000+cn+1, l, cl.Pos())
				}
				return
			}
		}
		emit(n*1000, list, pos)
	}
	nLabelLists := 0
	ast.Inspect(lexFn.Body, func(n ast.Node) bool {
		b, ok := n.(*ast.BlockStmt)
		if !ok {
			return true
		}
		hasTr := false
		for _, st := range b.List {
			if ls, ok := st.(*ast.LabeledStmt); ok && strings.HasPrefix(ls.Label.Name, "tr") {
				hasTr = true
			}
		}
		if !hasTr {
			return true
		}
		nLabelLists++
		cur := ""
		var curPos token.Pos
		var acc []ast.Stmt
		flush := func() {
			if strings.HasPrefix(cur, "tr") {
				segment(cur, curPos, acc)
			}
		}
		for _, st := range b.List {
			if ls, ok := st.(*ast.LabeledStmt); ok {
				flush()
				cur, curPos, acc = ls.Label.Name, ls.Pos(), []ast.Stmt{ls.Stmt}
				continue
			}
			acc = append(acc, st)
		}
		flush()
		return false // the action labels all live in one statement list
	})
	if nLabelLists != 1 || len(blocks) == 0 {
		c.fail(comp, lexFn.Pos(), "expected exactly one statement list with tr labels in Lex, found %d (%d blocks)", nLabelLists, len(blocks))
	}
	// calls of Lex outside the extracted blocks
	var outside []string
	ast.Inspect(lexFn.Body, func(n ast.Node) bool {
		if call, ok := n.(*ast.CallExpr); ok {
			if sel, ok := call.Fun.(*ast.SelectorExpr); ok {
				if id, ok := sel.X.(*ast.Ident); ok && id.Name == "lex" && !seen[call.Pos()] {
					switch sel.Sel.Name {
					case "setTokenPosition", "addFreeFloatingToken", "ungetCnt", "ungetStr":
						outside = append(outside, fmt.Sprintf("%s@%d", sel.Sel.Name, c.fset.Position(call.Pos()).Line))
					}
				}
			}
		}
		return true
	})
	// the epilogue: tkn.Value and tkn.ID assignments of Lex
	var valueRhs, idRhs []string
	ast.Inspect(lexFn.Body, func(n ast.Node) bool {
		as, ok := n.(*ast.AssignStmt)
		if !ok || len(as.Lhs) != 1 || len(as.Rhs) != 1 {
			return true
		}
		if s, ok := as.Lhs[0].(*ast.SelectorExpr); ok {
			if id, ok := s.X.(*ast.Ident); ok && id.Name == "tkn" {
				switch s.Sel.Name {
				case "Value":
					valueRhs = append(valueRhs, txt(as.Rhs[0]))
				case "ID":
					idRhs = append(idRhs, txt(as.Rhs[0]))
				}
			}
		}
		return true
	})
	sort.Slice(blocks, func(i, j int) bool { return blocks[i].id < blocks[j].id })
	var b strings.Builder
	b.WriteString("-- GENERATED by gofacts from internal/scanner/scanner.go (func (*Lexer) Lex). Do not edit.\nnamespace PhpVerif.Gen\n\n")
	b.WriteString("/-- ((label number * 1000 + act case) * 100 + path number, effect codes along that path) -/\ndef scanBlocks : List (Nat × List Nat) := [\n")
	for i, bl := range blocks {
		sep := ","
		if i == len(blocks)-1 {
			sep = ""
		}
		fmt.Fprintf(&b, "  (%d, %s)%s\n", bl.id, natList(bl.ops), sep)
	}
	b.WriteString("]\n\n")
	valOK, idOK := 0, 0
	for _, v := range valueRhs {
		if v == "lex.data[lex.ts:lex.te]" {
			valOK++
		}
	}
	for _, v := range idRhs {
		if v == "token.ID(tok)" {
			idOK++
		}
	}
	fmt.Fprintf(&b, "/-- assignments `tkn.Value = …` in Lex: all of them, and those whose right-hand side is `lex.data[lex.ts:lex.te]` -/\ndef lexValueAssigns : Nat × Nat := (%d, %d)\n", len(valueRhs), valOK)
	fmt.Fprintf(&b, "/-- assignments `tkn.ID = …` in Lex: all, and those with right-hand side `token.ID(tok)` -/\ndef lexIdAssigns : Nat × Nat := (%d, %d)\n", len(idRhs), idOK)
	fmt.Fprintf(&b, "/-- position / free-floating / unget calls of Lex that are not inside an extracted action block -/\ndef lexCallsOutsideBlocks : Nat := %d\n", len(outside))
	c.side["scanCallsOutside"] = outside
	b.WriteString("\nend PhpVerif.Gen\n")
	writeIfChanged(c.out+"/ScanBlocks.lean", b.String())
	c.side["scanBlocks"] = len(blocks)
}
