module gofacts

go 1.21
