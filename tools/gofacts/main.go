// gofacts: the translator that regenerates the Lean model data from /repo's
// current Go sources. It is a recogniser, not an interpreter: every statement
// of every translated function must match a closed list of shapes; anything
// else is reported with file:line and makes the run fail ("tie broken").
//
// usage: gofacts -repo /repo -out /verif/lean/PhpVerif/Gen -json /verif/.cache/facts.json
package main

import (
	"encoding/json"
	"flag"
	"fmt"
	"go/ast"
	"go/parser"
	"go/token"
	"os"
	"path/filepath"
	"sort"
	"strings"
)

type problem struct {
	Where string `json:"where"`
	Msg   string `json:"msg"`
	Comp  string `json:"component"`
}

var tokenFileSetForPrint = token.NewFileSet()

type ctx struct {
	repo     string
	out      string
	fset     *token.FileSet
	problems []problem
	names    map[string]int // interned identifiers / literals
	nameList []string
	side     map[string]interface{} // JSON side file
	sigs     map[string]map[string]int
	printerDefaults map[string][]string
}

func (c *ctx) intern(s string) int {
	if id, ok := c.names[s]; ok {
		return id
	}
	id := len(c.nameList)
	c.names[s] = id
	c.nameList = append(c.nameList, s)
	return id
}

func (c *ctx) fail(comp string, pos token.Pos, format string, a ...interface{}) {
	where := "?"
	if pos.IsValid() {
		p := c.fset.Position(pos)
		rel, err := filepath.Rel(c.repo, p.Filename)
		if err != nil {
			rel = p.Filename
		}
		where = fmt.Sprintf("%s:%d", rel, p.Line)
	}
	c.problems = append(c.problems, problem{Where: where, Msg: fmt.Sprintf(format, a...), Comp: comp})
}

func (c *ctx) parseFile(rel string) *ast.File {
	f, err := parser.ParseFile(c.fset, filepath.Join(c.repo, rel), nil, parser.ParseComments)
	if err != nil {
		c.problems = append(c.problems, problem{Where: rel, Msg: err.Error(), Comp: "parse"})
		return nil
	}
	return f
}

// writeIfChanged keeps mtimes stable so lake rebuilds only what moved.
func writeIfChanged(path string, content string) {
	old, err := os.ReadFile(path)
	if err == nil && string(old) == content {
		return
	}
	if err := os.MkdirAll(filepath.Dir(path), 0o755); err != nil {
		panic(err)
	}
	if err := os.WriteFile(path, []byte(content), 0o644); err != nil {
		panic(err)
	}
}

func natList(xs []int) string {
	ss := make([]string, len(xs))
	for i, x := range xs {
		ss[i] = fmt.Sprint(x)
	}
	return "[" + strings.Join(ss, ", ") + "]"
}

func main() {
	repo := flag.String("repo", "/repo", "repository root")
	out := flag.String("out", "", "directory for generated Lean files")
	js := flag.String("json", "", "JSON side file")
	hdir := flag.String("harness", "", "directory of the Go harness (schema-dependent Go files are written there)")
	flag.Parse()
	c := &ctx{repo: *repo, out: *out, fset: tokenFileSetForPrint, names: map[string]int{}, side: map[string]interface{}{}}
	// fixed small ids the hand-written Lean side refers to
	c.intern("")         // 0
	c.intern("Position") // 1
	c.intern("Value")    // 2
	c.intern("Val")      // 3

	sch := genSchema(c)
	if sch != nil {
		genPrinter(c, sch)
		genTraverser(c, sch)
		genDumper(c, sch)
		genNull(c, sch)
	}
	genHarness(c, sch, *hdir)
	genPools(c)
	genVersionFacts(c)
	genFacts(c, sch)
	genScanBlocks(c)
	genBuilder(c)
	genScanDFA(c)
	if sch != nil {
		genResolver(c, sch)
		genFormatter(c, sch)
		genFmtCode(c, sch)
		genResolverCode(c, sch)
		genGrammar(c, sch, "php7")
		genGrammar(c, sch, "php5")
	}

	c.side["names"] = c.nameList
	c.side["problems"] = c.problems
	if *js != "" {
		b, _ := json.MarshalIndent(c.side, "", " ")
		writeIfChanged(*js, string(b))
	}
	if len(c.problems) > 0 {
		sort.SliceStable(c.problems, func(i, j int) bool { return c.problems[i].Comp < c.problems[j].Comp })
		for _, p := range c.problems {
			fmt.Printf("TIE-BROKEN component=%s at %s: %s\n", p.Comp, p.Where, p.Msg)
		}
		os.Exit(2)
	}
	fmt.Println("gofacts: ok")
}
