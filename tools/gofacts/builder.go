package main

import (
	"fmt"
	"go/ast"
	"path/filepath"
	"strings"
)

// genBuilder: the position combinators of internal/position/position.go as a table (T-gen).  Every
// `New…Position(params)` must be four assignments `pos.{StartLine,EndLine,StartPos,EndPos} = src` where
// src reads one parameter through `P.Position.X` (a token), `getNodeStartPos(P).x` / `getNodeEndPos(P).x`
// (a node) or `getListStartPos(P).x` / `getListEndPos(P).x` (a node list); one combinator may start with
// `if P == nil { …four assignments…; return pos }`.  The four getters are modelled by hand in
// Model/Term.lean and tied by diff-parser.
func genBuilder(c *ctx) {
	const comp = "builder"
	f := c.parseFile("internal/position/position.go")
	if f == nil {
		return
	}
	type src struct{ sort, arg int } // sort 1 token, 3 node, 4 list
	found := map[string]string{}
	for _, d := range f.Decls {
		fd, ok := d.(*ast.FuncDecl)
		if !ok || fd.Recv == nil || !strings.HasPrefix(fd.Name.Name, "New") || !strings.HasSuffix(fd.Name.Name, "Position") {
			continue
		}
		var params []string
		for _, p := range fd.Type.Params.List {
			for _, n := range p.Names {
				params = append(params, n.Name)
			}
		}
		pidx := func(n string) int {
			for i, p := range params {
				if p == n {
					return i
				}
			}
			return -1
		}
		// one block of four assignments -> (start, end)
		block := func(list []ast.Stmt) (st, en src, ok bool) {
			got := map[string]src{}
			for _, s := range list {
				as, isAs := s.(*ast.AssignStmt)
				if !isAs || len(as.Lhs) != 1 || len(as.Rhs) != 1 {
					return st, en, false
				}
				lhs := nodeText(as.Lhs[0])
				if !strings.HasPrefix(lhs, "pos.") {
					return st, en, false
				}
				fld := strings.TrimPrefix(lhs, "pos.")
				sel, isSel := as.Rhs[0].(*ast.SelectorExpr)
				if !isSel {
					return st, en, false
				}
				var s0 src
				want := strings.ToLower(fld[:1]) + fld[1:]
				switch b := sel.X.(type) {
				case *ast.CallExpr:
					fn := nodeText(b.Fun)
					if len(b.Args) != 1 || sel.Sel.Name != want {
						return st, en, false
					}
					side := "Start"
					if strings.HasPrefix(fld, "End") {
						side = "End"
					}
					switch fn {
					case "getNode" + side + "Pos":
						s0 = src{3, pidx(nodeText(b.Args[0]))}
					case "getList" + side + "Pos":
						s0 = src{4, pidx(nodeText(b.Args[0]))}
					default:
						return st, en, false
					}
				case *ast.SelectorExpr:
					if b.Sel.Name != "Position" || sel.Sel.Name != fld {
						return st, en, false
					}
					s0 = src{1, pidx(nodeText(b.X))}
				default:
					return st, en, false
				}
				if s0.arg < 0 {
					return st, en, false
				}
				got[fld] = s0
			}
			if len(got) != 4 || got["StartLine"] != got["StartPos"] || got["EndLine"] != got["EndPos"] {
				return st, en, false
			}
			return got["StartLine"], got["EndLine"], true
		}
		body := fd.Body.List
		if len(body) < 2 || nodeText(body[0]) != "pos := b.pool.Get()" || nodeText(body[len(body)-1]) != "return pos" {
			c.fail(comp, fd.Pos(), "%s: unexpected shape", fd.Name.Name)
			continue
		}
		body = body[1 : len(body)-1]
		optArg := -1
		var ost, oen src
		if len(body) > 0 {
			if is, ok := body[0].(*ast.IfStmt); ok {
				cond := nodeText(is.Cond)
				if !strings.HasSuffix(cond, " == nil") || is.Else != nil || len(is.Body.List) < 2 || nodeText(is.Body.List[len(is.Body.List)-1]) != "return pos" {
					c.fail(comp, fd.Pos(), "%s: unexpected conditional", fd.Name.Name)
					continue
				}
				optArg = pidx(strings.TrimSuffix(cond, " == nil"))
				var ok2 bool
				ost, oen, ok2 = block(is.Body.List[:len(is.Body.List)-1])
				if !ok2 || optArg < 0 {
					c.fail(comp, fd.Pos(), "%s: unexpected conditional block", fd.Name.Name)
					continue
				}
				body = body[1:]
			}
		}
		st, en, ok2 := block(body)
		if !ok2 {
			c.fail(comp, fd.Pos(), "%s: body is not four position assignments from one start and one end parameter", fd.Name.Name)
			continue
		}
		row := fmt.Sprintf("{ startSort := %d, startArg := %d, endSort := %d, endArg := %d, optArg := none, optStartSort := 0, optStartArg := 0, optEndSort := 0, optEndArg := 0 }", st.sort, st.arg, en.sort, en.arg)
		if optArg >= 0 {
			row = fmt.Sprintf("{ startSort := %d, startArg := %d, endSort := %d, endArg := %d, optArg := some %d, optStartSort := %d, optStartArg := %d, optEndSort := %d, optEndArg := %d }", st.sort, st.arg, en.sort, en.arg, optArg, ost.sort, ost.arg, oen.sort, oen.arg)
		}
		found[fd.Name.Name] = row
	}
	var rows []string
	for _, n := range posCombNames {
		r, ok := found[n]
		if !ok {
			c.fail(comp, f.Pos(), "position combinator %s not found", n)
			r = "{ startSort := 0, startArg := 0, endSort := 0, endArg := 0, optArg := none, optStartSort := 0, optStartArg := 0, optEndSort := 0, optEndArg := 0 }"
		}
		rows = append(rows, r)
		delete(found, n)
	}
	for n := range found {
		c.fail(comp, f.Pos(), "position combinator %s is not known to the translator", n)
	}
	// the four getters: their text must be the modelled one
	want := map[string]string{
		"getListStartPos": "func getListStartPos(l []ast.Vertex) startPos { if l == nil { return startPos{-1, -1} } if len(l) == 0 { return startPos{-1, -1} } return getNodeStartPos(l[0]) }",
		"getNodeStartPos": "func getNodeStartPos(n ast.Vertex) startPos { sl := -1 sp := -1 if n == nil { return startPos{-1, -1} } p := n.GetPosition() if p != nil { sl = p.StartLine sp = p.StartPos } return startPos{sl, sp} }",
		"getListEndPos":   "func getListEndPos(l []ast.Vertex) endPos { if l == nil { return endPos{-1, -1} } if len(l) == 0 { return endPos{-1, -1} } return getNodeEndPos(l[len(l)-1]) }",
		"getNodeEndPos":   "func getNodeEndPos(n ast.Vertex) endPos { el := -1 ep := -1 if n == nil { return endPos{-1, -1} } p := n.GetPosition() if p != nil { el = p.EndLine ep = p.EndPos } return endPos{el, ep} }",
	}
	for _, d := range f.Decls {
		fd, ok := d.(*ast.FuncDecl)
		if !ok || fd.Recv != nil {
			continue
		}
		if w, ok := want[fd.Name.Name]; ok {
			if got := nodeText(fd); got != w {
				c.fail(comp, fd.Pos(), "%s is not the modelled text: %s", fd.Name.Name, got)
			}
			delete(want, fd.Name.Name)
		}
	}
	for n := range want {
		c.fail(comp, f.Pos(), "getter %s not found", n)
	}
	var b strings.Builder
	b.WriteString("-- GENERATED by gofacts from internal/position/position.go (the position combinators). Do not edit.\nimport PhpVerif.Model.Term\nnamespace PhpVerif.Gen\nopen PhpVerif\n\n")
	fmt.Fprintf(&b, "def posCombs : List PosComb := [\n  %s]\n", strings.Join(rows, ",\n  "))
	b.WriteString("\nend PhpVerif.Gen\n")
	writeIfChanged(filepath.Join(c.out, "Builder.lean"), b.String())
}
