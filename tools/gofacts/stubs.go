package main


func genResolver(c *ctx, s *schema)                    {}
func genFormatter(c *ctx, s *schema)                   {}
