package main

import "go/ast"

func genResolver(c *ctx, s *schema)                    {}
func genFormatter(c *ctx, s *schema)                   {}
func genActions(c *ctx, s *schema, which string, g *ygrammar, gf *ast.File) {}
