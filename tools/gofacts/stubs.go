package main


func genFormatter(c *ctx, s *schema)                   {}
