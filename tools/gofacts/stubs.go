package main


