package main

import (
	"crypto/sha1"
	"fmt"
	"go/ast"
	"go/token"
	"path/filepath"
	"sort"
	"strings"
)

// genResolverCode: every visitor method of pkg/visitor/nsresolver/namespace_resolver.go as a list of
// instructions of Model/NsrTree.lean (`RI`).  A recogniser: a statement outside the closed list of shapes
// breaks the tie.  The helpers the instructions stand for (AddAlias, AddNamespacedName, ResolveName,
// ResolveType of the resolver, NewNamespaceResolver, concatNameParts; EnterNode / LeaveNode, which the
// traverser never calls) are modelled by hand; their text is pinned here.  The Namespace type is pinned
// too (Model/Nsr.lean, tied by diff-nsr).

const resolverHelpersPin = "b25a9b34e6f3d35a08078259b63b8d57ba3c7a8e"

var resolverHelperNames = []string{"NewNamespaceResolver", "EnterNode", "LeaveNode", "AddAlias", "AddNamespacedName", "ResolveName", "ResolveType",
	"NewNamespace", "ResolveAlias", "concatNameParts"}

type rcTr struct {
	c    *ctx
	s    *schema
	k    *kind
	recv string
	par  string
	comp string
	ok   bool
}

func (t *rcTr) fail(n ast.Node, format string, a ...interface{}) {
	t.ok = false
	t.c.fail(t.comp, n.Pos(), "%s: "+format, append([]interface{}{t.k.Name}, a...)...)
}

func (t *rcTr) field(e ast.Expr) (int, int, bool) {
	name, ok := selField(e, t.par)
	if !ok {
		return 0, 0, false
	}
	i := t.k.fieldIndex(name)
	if i < 0 {
		return 0, 0, false
	}
	return i, t.k.Fields[i].Sort, true
}

func aliasKindCode(e ast.Expr) (int, bool) {
	bl, ok := e.(*ast.BasicLit)
	if !ok || bl.Kind != token.STRING {
		return 0, false
	}
	switch bl.Value {
	case `""`:
		return 0, true
	case `"function"`:
		return 1, true
	case `"const"`:
		return 2, true
	}
	return 0, false
}

// one basic statement -> RI0 text
func (t *rcTr) basic(st ast.Stmt) (string, bool) {
	switch s := st.(type) {
	case *ast.ExprStmt:
		name, args, ok := callOn(s.X, t.recv)
		if !ok {
			return "", false
		}
		switch {
		case name == "ResolveName" && len(args) == 2:
			if f, so, ok := t.field(args[0]); ok && so == sortNode {
				if k, ok := aliasKindCode(args[1]); ok {
					return fmt.Sprintf(".resName %d %d", f, k), true
				}
			}
		case name == "ResolveType" && len(args) == 1:
			if f, so, ok := t.field(args[0]); ok && so == sortNode {
				return fmt.Sprintf(".resType %d", f), true
			}
		case name == "AddNamespacedName" && len(args) == 2 && nodeText(args[0]) == t.par:
			// string(n.F.(*ast.Identifier).Value)
			txt := nodeText(args[1])
			for i, fl := range t.k.Fields {
				if fl.Sort == sortNode && txt == fmt.Sprintf("string(%s.%s.(*ast.Identifier).Value)", t.par, fl.Name) {
					return fmt.Sprintf(".declare %d", i), true
				}
			}
		}
	case *ast.RangeStmt:
		f, so, ok := t.field(s.X)
		if !ok || so != sortNodes || s.Value == nil || s.Tok != token.DEFINE || (s.Key != nil && nodeText(s.Key) != "_") || len(s.Body.List) != 1 {
			return "", false
		}
		v := nodeText(s.Value)
		body := nodeText(s.Body.List[0])
		for k, lit := range []string{`""`, `"function"`, `"const"`} {
			if body == fmt.Sprintf("%s.ResolveName(%s, %s)", t.recv, v, lit) {
				return fmt.Sprintf(".resNames %d %d", f, k), true
			}
		}
		if body == fmt.Sprintf("%s.ResolveType(%s.(*ast.Parameter).Type)", t.recv, v) {
			return fmt.Sprintf(".resParamTypes %d", f), true
		}
		if body == fmt.Sprintf("%s.AddNamespacedName(%s, string(%s.(*ast.StmtConstant).Name.(*ast.Identifier).Value))", t.recv, v, v) {
			return fmt.Sprintf(".declareEach %d", f), true
		}
		// the adaptations loop of StmtTraitUse
		want := fmt.Sprintf("switch aa := %s.(type) { case *ast.StmtTraitUsePrecedence: refTrait := aa.Trait if refTrait != nil { %s.ResolveName(refTrait, \"\") } for _, insteadOf := range aa.Insteadof { %s.ResolveName(insteadOf, \"\") } case *ast.StmtTraitUseAlias: refTrait := aa.Trait if refTrait != nil { %s.ResolveName(refTrait, \"\") } }", v, t.recv, t.recv, t.recv)
		if body == want {
			return fmt.Sprintf(".traitAdapt %d", f), true
		}
	}
	return "", false
}

func (t *rcTr) method(fd *ast.FuncDecl) string {
	body := nodeText(fd.Body)
	// whole-body shapes
	if t.k.Name == "StmtNamespace" {
		for i, fl := range t.k.Fields {
			if fl.Sort != sortNode {
				continue
			}
			want := fmt.Sprintf("{ if %s.%s == nil { %s.Namespace = NewNamespace(\"\") } else { NSParts := %s.%s.(*ast.Name).Parts %s.Namespace = NewNamespace(concatNameParts(NSParts)) } }",
				t.par, fl.Name, t.recv, t.par, fl.Name, t.recv)
			if body == want {
				return fmt.Sprintf("[.base (.nsSwitch %d)]", i)
			}
		}
	}
	if t.k.Name == "StmtUseList" || t.k.Name == "StmtGroupUseList" {
		ti, ui, pi := t.k.fieldIndex("Type"), t.k.fieldIndex("Uses"), t.k.fieldIndex("Prefix")
		pre, preLean := "nil", "none"
		if t.k.Name == "StmtGroupUseList" {
			pre, preLean = t.par+".Prefix.(*ast.Name).Parts", fmt.Sprintf("(some %d)", pi)
		}
		want := fmt.Sprintf("{ useType := \"\" if %s.Type != nil { useType = string(%s.Type.(*ast.Identifier).Value) } for _, nn := range %s.Uses { %s.AddAlias(useType, nn, %s) } %s.goDeep = false }",
			t.par, t.par, t.par, t.recv, pre, t.recv)
		if body == want && ti >= 0 && ui >= 0 {
			return fmt.Sprintf("[.base (.uses %d %d %s)]", ti, ui, preLean)
		}
	}
	var out []string
	for _, st := range fd.Body.List {
		if b, ok := t.basic(st); ok {
			out = append(out, "(.base ("+b+"))")
			continue
		}
		if is, ok := st.(*ast.IfStmt); ok && is.Init == nil && is.Else == nil {
			if be, ok := is.Cond.(*ast.BinaryExpr); ok && be.Op == token.NEQ && isNil(be.Y) {
				if f, so, ok := t.field(be.X); ok && (so == sortNode || so == sortNodes) {
					var bs []string
					good := true
					for _, b := range is.Body.List {
						if x, ok := t.basic(b); ok {
							bs = append(bs, "("+x+")")
						} else {
							good = false
						}
					}
					if good {
						out = append(out, fmt.Sprintf("(.ifSet %d %v [%s])", f, so == sortNodes, strings.Join(bs, ", ")))
						continue
					}
				}
			}
		}
		t.fail(st, "statement outside the translated shapes: %s", clipStr(nodeText(st), 140))
	}
	return "[" + strings.Join(out, ", ") + "]"
}

func genResolverCode(c *ctx, s *schema) {
	comp := "resolvercode"
	f := c.parseFile("pkg/visitor/nsresolver/namespace_resolver.go")
	if f == nil {
		return
	}
	progs := make([]string, len(s.Kinds))
	var hb []string
	known := map[string]bool{}
	for _, n := range resolverHelperNames {
		known[n] = true
	}
	for _, d := range f.Decls {
		switch x := d.(type) {
		case *ast.GenDecl:
			if x.Tok != token.IMPORT {
				hb = append(hb, nodeText(x))
			}
		case *ast.FuncDecl:
			if x.Body == nil {
				continue
			}
			if known[x.Name.Name] {
				key := x.Name.Name
				if x.Recv != nil {
					key = nodeText(x.Recv.List[0].Type) + "." + key
				}
				hb = append(hb, key+" "+nodeText(x.Type)+" "+nodeText(x.Body))
				continue
			}
			if x.Recv == nil || len(x.Recv.List[0].Names) != 1 || len(x.Type.Params.List) != 1 || len(x.Type.Params.List[0].Names) != 1 {
				c.fail(comp, x.Pos(), "unexpected function %s", x.Name.Name)
				continue
			}
			ki, isVis := s.byVisitor[x.Name.Name]
			if !isVis {
				c.fail(comp, x.Pos(), "resolver has a function the model does not know: %s", x.Name.Name)
				continue
			}
			kn := strings.TrimPrefix(typeName(x.Type.Params.List[0].Type), "ast.")
			if s.byName[kn] != ki {
				c.fail(comp, x.Pos(), "method %s takes %s", x.Name.Name, kn)
				continue
			}
			t := &rcTr{c: c, s: s, k: s.Kinds[ki], recv: x.Recv.List[0].Names[0].Name, par: x.Type.Params.List[0].Names[0].Name, comp: comp, ok: true}
			p := t.method(x)
			if t.ok {
				progs[ki] = p
			}
		}
	}
	sort.Strings(hb)
	sum := fmt.Sprintf("%x", sha1.Sum([]byte(strings.Join(hb, "\n"))))
	if sum != resolverHelpersPin {
		c.fail(comp, f.Pos(), "the resolver's types, constructors or helpers (hand-modelled in Model/NsrTree.lean, Model/Nsr.lean) changed: sha1 %s, modelled %s", sum, resolverHelpersPin)
	}
	var b strings.Builder
	b.WriteString("import PhpVerif.Model.NsrTree\n-- GENERATED by gofacts from pkg/visitor/nsresolver/namespace_resolver.go (+ schema). Do not edit.\nnamespace PhpVerif.Gen\nopen PhpVerif.NsrT\n\n")
	n := 0
	for i, p := range progs {
		if p == "" {
			p = "[]"
		} else {
			n++
		}
		fmt.Fprintf(&b, "-- %s\ndef resProg_%d : List RI := %s\n", s.Kinds[i].Name, i, p)
	}
	writeTable(&b, "resProgs", "List RI", "resProg_", len(progs))
	kd := func(name string) int { return s.byName[name] }
	fl := func(kn, fn string) int { return s.Kinds[s.byName[kn]].fieldIndex(fn) }
	fmt.Fprintf(&b, "def resNums : List Nat := [%d, %d, %d, %d, %d, %d, %d, %d, %d, %d, %d,  %d, %d, %d, %d, %d, %d, %d,  %d, %d, %d, %d, %d, %d, %d]\n",
		kd("Name"), kd("NameFullyQualified"), kd("NameRelative"), kd("NamePart"), kd("Identifier"), kd("Parameter"), kd("Nullable"), kd("StmtUse"), kd("StmtConstant"), kd("StmtTraitUsePrecedence"), kd("StmtTraitUseAlias"),
		fl("Name", "Parts"), fl("NameFullyQualified", "Parts"), fl("NameRelative", "Parts"), fl("NamePart", "Value"), fl("Identifier", "Value"), fl("Parameter", "Type"), fl("Nullable", "Expr"),
		fl("StmtUse", "Type"), fl("StmtUse", "Use"), fl("StmtUse", "Alias"), fl("StmtConstant", "Name"), fl("StmtTraitUsePrecedence", "Trait"), fl("StmtTraitUsePrecedence", "Insteadof"), fl("StmtTraitUseAlias", "Trait"))
	fmt.Fprintf(&b, "def resMethodCount : Nat := %d\n", n)
	b.WriteString("\nend PhpVerif.Gen\n")
	writeIfChanged(filepath.Join(c.out, "ResolverCode.lean"), b.String())
	c.side["resolver_methods_translated"] = n
}
