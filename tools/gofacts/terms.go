package main

import (
	"fmt"
	"go/ast"
	"go/token"
	"path/filepath"
	"sort"
	"strconv"
	"strings"
)

// Grammar actions as executable terms (M-TERM, DESIGN §0.7).  Every `case N:` of `switch yynt` is run
// symbolically, path by path (if / type switch / `v, ok :=` fork a path), and every path is emitted as
// data for Model/Term.lean: its branch conditions, the node literals it builds (all fields, in struct
// order, field 0 = Position), what it stores into already existing nodes, and what it returns.  The
// Lean side *executes* these terms inside the goyacc driver model on real token streams (diff-parser:
// the tree the model builds against the tree the real parser builds), and proves the run-level
// theorems about them.  What the symbolic run cannot express (loops, stores through two levels of
// aliasing, unknown calls) marks the path `unsupported` with the reason; the set of unsupported paths
// is pinned in Spec/ActionExceptions.lean.

type sv struct {
	k    string // orig arg cur nil fld obj list app idx0 last bytes pos opaque cond okflag atoierr
	i    int    // orig/arg: right-hand-side index; fld: field index in the struct
	typ  string // fld: struct type the base was asserted to
	b    *sv
	xs   []*sv
	o    *sobj
	text string
	c    *scond
	ver  int           // arg: number of stores the action had done when the value was read
	tbl  [][2]string   // chain / nest: (node type, field that receives the accumulator)
}

type sobj struct {
	id     int
	typ    string
	fields map[string]*sv
}

type scond struct {
	op   string // nil lenpos leneq kind atoi not and or
	v    *sv
	n    int
	typ  string
	subs []*scond
}

type smut struct {
	i     int      // $i
	path  []string // "Type.Field" steps below $i
	typ   string
	field string
	val   *sv
}

type spath struct {
	locals  map[string]*sv
	ret     *sv
	retSet  bool
	root    *sv
	muts    []smut
	objs    []*sobj
	conds   []*scond
	bad     []string
	reports int
}

func (p *spath) clone() *spath {
	m := map[*sobj]*sobj{}
	var cv func(v *sv) *sv
	var co func(o *sobj) *sobj
	co = func(o *sobj) *sobj {
		if c, ok := m[o]; ok {
			return c
		}
		c := &sobj{id: o.id, typ: o.typ, fields: map[string]*sv{}}
		m[o] = c
		for k, v := range o.fields {
			c.fields[k] = cv(v)
		}
		return c
	}
	cv = func(v *sv) *sv {
		if v == nil {
			return nil
		}
		w := *v
		w.b = cv(v.b)
		if v.xs != nil {
			w.xs = make([]*sv, len(v.xs))
			for i, x := range v.xs {
				w.xs[i] = cv(x)
			}
		}
		if v.o != nil {
			w.o = co(v.o)
		}
		return &w
	}
	q := &spath{locals: map[string]*sv{}, retSet: p.retSet, reports: p.reports}
	q.ret = cv(p.ret)
	q.root = cv(p.root)
	for k, v := range p.locals {
		q.locals[k] = cv(v)
	}
	for _, mu := range p.muts {
		mu.val = cv(mu.val)
		mu.path = append([]string(nil), mu.path...)
		q.muts = append(q.muts, mu)
	}
	for _, o := range p.objs {
		q.objs = append(q.objs, co(o))
	}
	q.conds = append([]*scond(nil), p.conds...)
	q.bad = append([]string(nil), p.bad...)
	return q
}

type tctx struct {
	a     *actx
	nobj  int
	which string
}

// place of a value inside a right-hand-side node: $i, then a chain of fields
func placeOf(v *sv) (int, []string, bool) {
	switch v.k {
	case "orig", "arg":
		return v.i, nil, true
	case "fld":
		i, p, ok := placeOf(v.b)
		if !ok {
			return 0, nil, false
		}
		return i, append(append([]string(nil), p...), v.typ+"."+v.text), true
	case "idx0", "last":
		i, p, ok := placeOf(v.b)
		if !ok {
			return 0, nil, false
		}
		return i, append(append([]string(nil), p...), "["+v.k+"]"), true
	}
	return 0, nil, false
}

func samePath(a, b []string) bool {
	if len(a) != len(b) {
		return false
	}
	for i := range a {
		if a[i] != b[i] {
			return false
		}
	}
	return true
}

// reread: the same place, read now (after `ver` stores)
func reread(v *sv, ver int) *sv {
	if v == nil {
		return nil
	}
	switch v.k {
	case "arg":
		return &sv{k: "arg", i: v.i, ver: ver}
	case "fld", "idx0", "last":
		w := *v
		w.b = reread(v.b, ver)
		return &w
	}
	return v
}

func (t *tctx) field(p *spath, base *sv, typ, name string) *sv {
	if base == nil {
		return &sv{k: "opaque", text: "field of nothing"}
	}
	if name == "Value" && typ == "" {
		return &sv{k: "bytes", b: base}
	}
	switch base.k {
	case "obj":
		if v, ok := base.o.fields[name]; ok {
			return v
		}
		return &sv{k: "nil"}
	case "orig", "arg", "fld", "idx0", "last":
		if typ == "" {
			return &sv{k: "opaque", text: "field " + name + " of a value of unknown type"}
		}
		k := t.a.fieldIdx(typ, name)
		if k < 0 {
			return &sv{k: "opaque", text: "unknown field " + typ + "." + name}
		}
		if i, path, ok := placeOf(base); ok {
			// a field this action has already assigned holds what was assigned
			for j := len(p.muts) - 1; j >= 0; j-- {
				m := p.muts[j]
				if m.i == i && samePath(m.path, path) && m.field == name {
					return m.val
				}
			}
		}
		return &sv{k: "fld", b: reread(base, len(p.muts)), i: k, typ: typ, text: name}
	}
	return &sv{k: "opaque", text: "field " + name + " of " + base.k}
}

func (t *tctx) eval(p *spath, e ast.Expr) *sv {
	switch x := e.(type) {
	case *ast.ParenExpr:
		return t.eval(p, x.X)
	case *ast.Ident:
		if x.Name == "nil" {
			return &sv{k: "nil"}
		}
		if v, ok := p.locals[x.Name]; ok {
			return v
		}
		return &sv{k: "opaque", text: "identifier " + x.Name}
	case *ast.SelectorExpr:
		if i, _, ok := dollarIndex(x); ok {
			if v, ok := p.locals[fmt.Sprintf("$%d", i)]; ok {
				return v // the action has rebound yyDollar[i]
			}
			return &sv{k: "arg", i: i, ver: len(p.muts)}
		}
		if isParserSel(x, "currentToken") {
			return &sv{k: "cur"}
		}
		if id, ok := x.X.(*ast.Ident); ok && id.Name == "yyVAL" {
			if p.retSet {
				return p.ret
			}
			return &sv{k: "arg", i: 1, ver: len(p.muts)}
		}
		// X.(*T).F  or  local.F
		typ := ""
		bx := x.X
		if ta, ok := bx.(*ast.TypeAssertExpr); ok && ta.Type != nil {
			typ = typeName(ta.Type)
			bx = ta.X
		}
		base := t.eval(p, bx)
		if base.k == "cast" {
			if typ == "" {
				typ = base.typ
			}
			base = base.b
		}
		if x.Sel.Name == "Value" && typ == "" && base.k != "obj" {
			return &sv{k: "bytes", b: base}
		}
		return t.field(p, base, typ, x.Sel.Name)
	case *ast.TypeAssertExpr:
		base := t.eval(p, x.X)
		if x.Type == nil {
			return base
		}
		if base.k == "cast" {
			base = base.b
		}
		return &sv{k: "cast", b: base, typ: typeName(x.Type)}
	case *ast.StarExpr:
		return t.eval(p, x.X)
	case *ast.UnaryExpr:
		if x.Op == token.AND {
			if cl, ok := x.X.(*ast.CompositeLit); ok {
				return t.lit(p, cl)
			}
		}
		if x.Op == token.NOT {
			return &sv{k: "cond", c: &scond{op: "not", subs: []*scond{t.cond(p, x.X)}}}
		}
	case *ast.CompositeLit:
		tn := nodeText(x.Type)
		if tn == "[]ast.Vertex" || tn == "[]*token.Token" {
			v := &sv{k: "list"}
			for _, el := range x.Elts {
				v.xs = append(v.xs, t.eval(p, el))
			}
			return v
		}
	case *ast.IndexExpr:
		base := t.eval(p, x.X)
		if bl, ok := x.Index.(*ast.BasicLit); ok && bl.Value == "0" {
			return &sv{k: "idx0", b: base}
		}
		if strings.ReplaceAll(nodeText(x.Index), " ", "") == "len("+strings.ReplaceAll(nodeText(x.X), " ", "")+")-1" {
			return &sv{k: "last", b: base}
		}
	case *ast.SliceExpr:
		base := t.eval(p, x.X)
		xt := nodeText(x.X)
		lo, hi := "", ""
		if x.Low != nil {
			lo = strings.ReplaceAll(nodeText(x.Low), " ", "")
		}
		if x.High != nil {
			hi = strings.ReplaceAll(nodeText(x.High), " ", "")
		}
		ln := "len(" + strings.ReplaceAll(xt, " ", "") + ")"
		if lo == "1" && (hi == ln || hi == "") {
			return &sv{k: "tail", b: base}
		}
		if (lo == "" || lo == "0") && hi == ln+"-1" {
			return &sv{k: "init", b: base}
		}
	case *ast.BinaryExpr:
		return &sv{k: "cond", c: t.cond(p, x)}
	case *ast.CallExpr:
		fn := nodeText(x.Fun)
		if fn == "append" && len(x.Args) >= 1 {
			if nodeText(x.Args[0]) == `[]byte("-")` && len(x.Args) == 2 {
				v := t.eval(p, x.Args[1])
				if v.k == "bytes" {
					return &sv{k: "bytes", b: v.b, text: "-"}
				}
			}
			v := &sv{k: "app", b: t.eval(p, x.Args[0])}
			rest := x.Args[1:]
			var spread ast.Expr
			if x.Ellipsis.IsValid() && len(rest) > 0 { // append(a, b...)
				spread = rest[len(rest)-1]
				rest = rest[:len(rest)-1]
			}
			for _, y := range rest {
				v.xs = append(v.xs, t.eval(p, y))
			}
			if spread != nil {
				if len(v.xs) == 0 {
					v = v.b
				}
				return &sv{k: "cat", b: v, xs: []*sv{t.eval(p, spread)}}
			}
			return v
		}
		if fn == "lastNode" && len(x.Args) == 1 {
			return &sv{k: "last", b: t.eval(p, x.Args[0])}
		}
		if s, ok := x.Fun.(*ast.SelectorExpr); ok && isParserSel(s.X, "builder") {
			v := &sv{k: "pos", text: s.Sel.Name}
			for _, y := range x.Args {
				v.xs = append(v.xs, t.eval(p, y))
			}
			return v
		}
		if s, ok := x.Fun.(*ast.SelectorExpr); ok && s.Sel.Name == "GetPosition" && len(x.Args) == 0 {
			base := t.eval(p, s.X)
			typ := ""
			if base.k == "cast" {
				typ, base = base.typ, base.b
			}
			if base.k == "obj" {
				return t.field(p, base, "", "Position")
			}
			return &sv{k: "getpos", b: base, typ: typ}
		}
		if fn == "strconv.Atoi" && len(x.Args) == 1 {
			// strconv.Atoi(string($i.token.Value))
			if ce, ok := x.Args[0].(*ast.CallExpr); ok && nodeText(ce.Fun) == "string" && len(ce.Args) == 1 {
				v := t.eval(p, ce.Args[0])
				if v.k == "bytes" && v.text == "" {
					return &sv{k: "atoierr", b: v.b}
				}
			}
		}
		if fn == "intOffset" && len(x.Args) == 2 {
			v := t.eval(p, x.Args[0])
			neg := nodeText(x.Args[1]) == "true"
			if v.k == "bytes" && v.text == "" && (neg || nodeText(x.Args[1]) == "false") {
				n := 0
				if neg {
					n = 1
				}
				return &sv{k: "cond", c: &scond{op: "intoff", v: v.b, n: n}}
			}
		}
		if fn == "errors.NewError" {
			return &sv{k: "errval"}
		}
	case *ast.BasicLit:
		return &sv{k: "lit", text: x.Value}
	}
	return &sv{k: "opaque", text: clipText(nodeText(e), 60)}
}

func (t *tctx) lit(p *spath, cl *ast.CompositeLit) *sv {
	o := &sobj{id: t.nobj, typ: typeName(cl.Type), fields: map[string]*sv{}}
	t.nobj++
	if t.a.structs[o.typ] == nil {
		p.bad = append(p.bad, "literal of unknown type "+o.typ)
	}
	for _, el := range cl.Elts {
		kv, ok := el.(*ast.KeyValueExpr)
		if !ok {
			p.bad = append(p.bad, "unkeyed literal element")
			continue
		}
		key := kv.Key.(*ast.Ident).Name
		if t.a.fieldIdx(o.typ, key) < 0 {
			p.bad = append(p.bad, "unknown field "+o.typ+"."+key)
		}
		o.fields[key] = t.eval(p, kv.Value)
	}
	p.objs = append(p.objs, o)
	return &sv{k: "obj", o: o}
}

func isNilExpr(e ast.Expr) bool {
	id, ok := e.(*ast.Ident)
	return ok && id.Name == "nil"
}

// cond turns a Go condition into a condition tree over symbolic values
func (t *tctx) cond(p *spath, e ast.Expr) *scond {
	switch x := e.(type) {
	case *ast.ParenExpr:
		return t.cond(p, x.X)
	case *ast.UnaryExpr:
		if x.Op == token.NOT {
			return &scond{op: "not", subs: []*scond{t.cond(p, x.X)}}
		}
	case *ast.Ident:
		if v, ok := p.locals[x.Name]; ok {
			switch v.k {
			case "cond":
				return v.c
			case "okflag":
				return &scond{op: "kind", v: v.b, typ: v.typ}
			}
		}
	case *ast.CallExpr:
		if v := t.eval(p, x); v.k == "cond" {
			return v.c
		}
	case *ast.BinaryExpr:
		switch x.Op {
		case token.LAND:
			return &scond{op: "and", subs: []*scond{t.cond(p, x.X), t.cond(p, x.Y)}}
		case token.LOR:
			return &scond{op: "or", subs: []*scond{t.cond(p, x.X), t.cond(p, x.Y)}}
		case token.EQL, token.NEQ:
			var c *scond
			if isNilExpr(x.Y) {
				v := t.eval(p, x.X)
				if v.k == "atoierr" {
					c = &scond{op: "atoi", v: v.b}
				} else {
					if v.k == "cast" {
						v = v.b
					}
					c = &scond{op: "nil", v: v}
				}
			} else if ce, ok := x.X.(*ast.CallExpr); ok && nodeText(ce.Fun) == "len" && len(ce.Args) == 1 {
				if bl, ok := x.Y.(*ast.BasicLit); ok {
					n, _ := strconv.Atoi(bl.Value)
					c = &scond{op: "leneq", v: t.eval(p, ce.Args[0]), n: n}
				}
			}
			if c != nil {
				if x.Op == token.NEQ {
					return &scond{op: "not", subs: []*scond{c}}
				}
				return c
			}
		case token.GTR:
			if ce, ok := x.X.(*ast.CallExpr); ok && nodeText(ce.Fun) == "len" && len(ce.Args) == 1 && nodeText(x.Y) == "0" {
				return &scond{op: "not", subs: []*scond{{op: "leneq", v: t.eval(p, ce.Args[0]), n: 0}}}
			}
		}
	}
	return &scond{op: "opaque", typ: clipText(nodeText(e), 60)}
}

func (t *tctx) assign(p *spath, lhs ast.Expr, v *sv) {
	switch x := lhs.(type) {
	case *ast.Ident:
		if x.Name != "_" {
			p.locals[x.Name] = v
		}
		return
	case *ast.SelectorExpr:
		if id, ok := x.X.(*ast.Ident); ok && id.Name == "yyVAL" {
			p.ret, p.retSet = v, true
			return
		}
		if i, _, ok := dollarIndex(x); ok {
			p.locals[fmt.Sprintf("$%d", i)] = v // yyDollar[i].node = …: later reads of $i see the new value
			return
		}
		if isParserSel(x, "rootNode") {
			p.root = v
			return
		}
		if s2, ok := x.X.(*ast.SelectorExpr); ok && isParserSel(s2, "currentToken") && x.Sel.Name == "Value" && v.k == "nil" {
			return // the end token carries no text: its Value (a slice header) is reset
		}
		typ := ""
		bx := x.X
		if ta, ok := bx.(*ast.TypeAssertExpr); ok && ta.Type != nil {
			typ, bx = typeName(ta.Type), ta.X
		}
		base := t.eval(p, bx)
		if base.k == "cast" {
			if typ == "" {
				typ = base.typ
			}
			base = base.b
		}
		if v.k == "cast" {
			v = v.b
		}
		if base.k == "obj" {
			base.o.fields[x.Sel.Name] = v
			return
		}
		if i, path, ok := placeOf(base); ok && typ != "" {
			if t.a.fieldIdx(typ, x.Sel.Name) < 0 {
				p.bad = append(p.bad, "store into unknown field "+typ+"."+x.Sel.Name)
				return
			}
			p.muts = append(p.muts, smut{i: i, path: path, typ: typ, field: x.Sel.Name, val: v})
			return
		}
	case *ast.StarExpr:
		// *X.GetPosition() = *pos : overwrite a position in place
		if ce, ok := x.X.(*ast.CallExpr); ok {
			if s, ok := ce.Fun.(*ast.SelectorExpr); ok && s.Sel.Name == "GetPosition" {
				base := t.eval(p, s.X)
				typ := ""
				if base.k == "cast" {
					typ, base = base.typ, base.b
				}
				if base.k == "obj" {
					base.o.fields["Position"] = v
					return
				}
				if i, path, ok := placeOf(base); ok {
					p.muts = append(p.muts, smut{i: i, path: path, typ: typ, field: "Position", val: v})
					return
				}
			}
		}
	}
	p.bad = append(p.bad, "assignment to "+clipText(nodeText(lhs), 60))
}

func (t *tctx) stmts(paths []*spath, list []ast.Stmt) []*spath {
	for _, st := range list {
		var next []*spath
		for _, p := range paths {
			next = append(next, t.stmt(p, st)...)
		}
		paths = next
		if len(paths) > 64 {
			paths = paths[:1]
			paths[0].bad = append(paths[0].bad, "too many paths")
			return paths
		}
	}
	return paths
}

func (t *tctx) stmt(p *spath, st ast.Stmt) []*spath {
	switch x := st.(type) {
	case *ast.BlockStmt:
		return t.stmts([]*spath{p}, x.List)
	case *ast.AssignStmt:
		if len(x.Lhs) == len(x.Rhs) {
			for i := range x.Lhs {
				v := t.eval(p, x.Rhs[i])
				if v.k == "cast" {
					if _, isId := x.Lhs[i].(*ast.Ident); !isId {
						v = v.b
					}
				}
				t.assign(p, x.Lhs[i], v)
			}
			return []*spath{p}
		}
		if len(x.Lhs) == 2 && len(x.Rhs) == 1 {
			v := t.eval(p, x.Rhs[0])
			switch {
			case v.k == "cast": // v, ok := e.(*T)
				t.assign(p, x.Lhs[0], v)
				t.assign(p, x.Lhs[1], &sv{k: "okflag", b: v.b, typ: v.typ})
			case v.k == "atoierr": // _, err := strconv.Atoi(…)
				t.assign(p, x.Lhs[0], &sv{k: "opaque", text: "integer value"})
				t.assign(p, x.Lhs[1], v)
			default:
				p.bad = append(p.bad, "two-valued assignment "+clipText(nodeText(st), 60))
			}
			return []*spath{p}
		}
	case *ast.ExprStmt:
		if ce, ok := x.X.(*ast.CallExpr); ok {
			fn := nodeText(ce.Fun)
			if strings.HasSuffix(fn, ".reportError") || strings.HasSuffix(fn, ".Error") || strings.HasSuffix(fn, ".errHandlerFunc") {
				p.reports++
				return []*spath{p}
			}
		}
	case *ast.IfStmt:
		q := p
		if x.Init != nil {
			q = t.stmt(q, x.Init)[0]
		}
		c := t.cond(q, x.Cond)
		pt := q.clone()
		pt.conds = append(pt.conds, c)
		pe := q.clone()
		pe.conds = append(pe.conds, &scond{op: "not", subs: []*scond{c}})
		out := t.stmts([]*spath{pt}, x.Body.List)
		if x.Else != nil {
			out = append(out, t.stmt(pe, x.Else)...)
		} else {
			out = append(out, pe)
		}
		return out
	case *ast.TypeSwitchStmt:
		var name string
		var subj ast.Expr
		if as, ok := x.Assign.(*ast.AssignStmt); ok && len(as.Lhs) == 1 && len(as.Rhs) == 1 {
			name = as.Lhs[0].(*ast.Ident).Name
			subj = as.Rhs[0].(*ast.TypeAssertExpr).X
		} else if es, ok := x.Assign.(*ast.ExprStmt); ok {
			subj = es.X.(*ast.TypeAssertExpr).X
		}
		if subj != nil {
			var out []*spath
			var seen []*scond
			hasDefault := false
			for _, cc := range x.Body.List {
				cl := cc.(*ast.CaseClause)
				q := p.clone()
				sv0 := t.eval(q, subj)
				if sv0.k == "cast" {
					sv0 = sv0.b
				}
				if cl.List == nil {
					hasDefault = true
					for _, s := range seen {
						q.conds = append(q.conds, &scond{op: "not", subs: []*scond{s}})
					}
					if name != "" {
						q.locals[name] = sv0
					}
					out = append(out, t.stmts([]*spath{q}, cl.Body)...)
					continue
				}
				var alts []*scond
				for _, ty := range cl.List {
					alts = append(alts, &scond{op: "kind", v: sv0, typ: typeName(ty)})
				}
				c := alts[0]
				if len(alts) > 1 {
					c = &scond{op: "or", subs: alts}
				}
				for _, s := range seen {
					q.conds = append(q.conds, &scond{op: "not", subs: []*scond{s}})
				}
				q.conds = append(q.conds, c)
				seen = append(seen, c)
				if name != "" {
					if len(cl.List) == 1 {
						q.locals[name] = &sv{k: "cast", b: sv0, typ: typeName(cl.List[0])}
					} else {
						q.locals[name] = sv0
					}
				}
				out = append(out, t.stmts([]*spath{q}, cl.Body)...)
			}
			if !hasDefault {
				q := p.clone()
				for _, s := range seen {
					q.conds = append(q.conds, &scond{op: "not", subs: []*scond{s}})
				}
				out = append(out, q)
			}
			return out
		}
	case *ast.RangeStmt:
		if t.chainLoop(p, x) {
			return []*spath{p}
		}
	case *ast.ForStmt:
		if t.nestLoop(p, x) {
			return []*spath{p}
		}
	case *ast.DeclStmt, *ast.EmptyStmt:
		return []*spath{p}
	}
	p.bad = append(p.bad, "statement "+clipText(nodeText(st), 70))
	return []*spath{p}
}

// chainLoop recognises the left fold both php5 member-access productions use:
//
//	for _, n := range L { switch nn := n.(type) { case *T: nn.F = yyVAL.node; nn.Position = builder.NewNodesPosition(yyVAL.node, nn); yyVAL.node = nn … } }
//
// and replaces it by the term chain(acc, L, [(T, F)…]).
func (t *tctx) chainLoop(p *spath, x *ast.RangeStmt) bool {
	k, ok1 := x.Key.(*ast.Ident)
	v, ok2 := x.Value.(*ast.Ident)
	if !ok1 || !ok2 || k.Name != "_" || len(x.Body.List) != 1 {
		return false
	}
	ts, ok := x.Body.List[0].(*ast.TypeSwitchStmt)
	if !ok {
		return false
	}
	as, ok := ts.Assign.(*ast.AssignStmt)
	if !ok || len(as.Lhs) != 1 || nodeText(as.Rhs[0]) != v.Name+".(type)" {
		return false
	}
	nn := as.Lhs[0].(*ast.Ident).Name
	var tbl [][2]string
	for _, cc := range ts.Body.List {
		cl := cc.(*ast.CaseClause)
		if len(cl.List) != 1 || len(cl.Body) != 3 {
			return false
		}
		typ := typeName(cl.List[0])
		a0, ok := cl.Body[0].(*ast.AssignStmt)
		if !ok || len(a0.Lhs) != 1 || nodeText(a0.Rhs[0]) != "yyVAL.node" {
			return false
		}
		sel, ok := a0.Lhs[0].(*ast.SelectorExpr)
		if !ok || nodeText(sel.X) != nn {
			return false
		}
		if nodeText(cl.Body[1]) != nn+".Position = yylex.(*Parser).builder.NewNodesPosition(yyVAL.node, "+nn+")" || nodeText(cl.Body[2]) != "yyVAL.node = "+nn {
			return false
		}
		if t.a.fieldIdx(typ, sel.Sel.Name) < 0 {
			return false
		}
		tbl = append(tbl, [2]string{typ, sel.Sel.Name})
	}
	acc := p.ret
	if !p.retSet {
		acc = &sv{k: "arg", i: 1, ver: len(p.muts)}
	}
	p.ret, p.retSet = &sv{k: "chain", b: acc, xs: []*sv{t.eval(p, x.X)}, tbl: tbl}, true
	return true
}

// nestLoop recognises the right fold of `$$…$a` (php5 simple_indirect_reference):
//
//	for i := len($A.list) - 1; i >= 0; i-- { $A.list[i].(*T).F = $B.node; $A.list[i].(*T).Position = builder.NewNodesPosition($A.list[i], $B.node); $B.node = $A.list[i] }
//
// afterwards `$A.list[0]` (and `$B`) is the term nest($A, $B, [(T, F)]).
func (t *tctx) nestLoop(p *spath, x *ast.ForStmt) bool {
	if x.Init == nil || x.Cond == nil || x.Post == nil || len(x.Body.List) != 3 {
		return false
	}
	init := nodeText(x.Init)
	if !strings.HasPrefix(init, "i := len(") || nodeText(x.Cond) != "i >= 0" || nodeText(x.Post) != "i--" {
		return false
	}
	a0, ok := x.Body.List[0].(*ast.AssignStmt)
	if !ok || len(a0.Lhs) != 1 {
		return false
	}
	sel, ok := a0.Lhs[0].(*ast.SelectorExpr)
	if !ok {
		return false
	}
	ta, ok := sel.X.(*ast.TypeAssertExpr)
	if !ok {
		return false
	}
	ix, ok := ta.X.(*ast.IndexExpr)
	if !ok || nodeText(ix.Index) != "i" {
		return false
	}
	L := nodeText(ix.X)        // yyDollar[A].list
	B := nodeText(a0.Rhs[0])   // yyDollar[B].node
	typ := typeName(ta.Type)
	el := L + "[i]"
	if strings.ReplaceAll(init, " ", "") != "i:=len("+L+")-1" {
		return false
	}
	if nodeText(x.Body.List[1]) != el+".(*"+strings.TrimPrefix(nodeText(ta.Type), "*")+").Position = yylex.(*Parser).builder.NewNodesPosition("+el+", "+B+")" || nodeText(x.Body.List[2]) != B+" = "+el {
		return false
	}
	ia, _, okA := dollarIndex(ix.X)
	ib, _, okB := dollarIndex(a0.Rhs[0])
	if !okA || !okB || t.a.fieldIdx(typ, sel.Sel.Name) < 0 {
		return false
	}
	nest := &sv{k: "nest", b: t.eval(p, ix.X), xs: []*sv{t.eval(p, a0.Rhs[0])}, tbl: [][2]string{{typ, sel.Sel.Name}}}
	p.locals[fmt.Sprintf("$%d", ia)] = &sv{k: "list", xs: []*sv{nest}}
	p.locals[fmt.Sprintf("$%d", ib)] = nest
	return true
}

// ---------------------------------------------------------------- emission

type temit struct {
	t       *tctx
	kindNo  map[string]int // struct type -> kind code
	combNo  map[string]int
	objIdx  map[*sobj]int
	bad     *[]string
	lastMutOf map[int]int // $i -> index of the last store into it (-1: none)
	inMut     bool
	mutIdx    int
	inPos     bool
	inRead    int
	inCond    bool
}

func (e *temit) tm(v *sv) string {
	if v == nil {
		return ".nil"
	}
	switch v.k {
	case "arg":
		if e.inPos || e.inRead > 0 || e.inCond {
			// read at a definite point of the action: after `ver` stores
			return fmt.Sprintf("(.argAt %d %d)", v.ver, v.i)
		}
		if e.inMut {
			// the node itself is stored by store number mutIdx: later stores into it would have to be seen through it
			if e.lastMutOf[v.i] > e.mutIdx {
				*e.bad = append(*e.bad, fmt.Sprintf("$%d is stored into an existing node and modified afterwards", v.i))
			}
			return fmt.Sprintf("(.argAt %d %d)", e.mutIdx, v.i)
		}
		return fmt.Sprintf("(.arg %d)", v.i)
	case "cur":
		return ".cur"
	case "nil":
		return ".nil"
	case "cast":
		return e.tm(v.b)
	case "fld":
		e.inRead++
		r := fmt.Sprintf("(.fld %s %d)", e.tm(v.b), v.i)
		e.inRead--
		return r
	case "obj":
		j, ok := e.objIdx[v.o]
		if !ok {
			*e.bad = append(*e.bad, "reference to a node literal outside the path")
			return ".nil"
		}
		return fmt.Sprintf("(.obj %d)", j)
	case "list":
		return "(.list [" + e.tms(v.xs) + "])"
	case "app":
		return "(.app " + e.tm(v.b) + " [" + e.tms(v.xs) + "])"
	case "cat":
		return "(.cat " + e.tm(v.b) + " " + e.tm(v.xs[0]) + ")"
	case "idx0":
		return "(.idx0 " + e.tm(v.b) + ")"
	case "last":
		return "(.last " + e.tm(v.b) + ")"
	case "tail":
		return "(.tail " + e.tm(v.b) + ")"
	case "init":
		return "(.init " + e.tm(v.b) + ")"
	case "chain", "nest":
		var rows []string
		for _, r := range v.tbl {
			k, ok := e.kindNo[r[0]]
			f := e.t.a.fieldIdx(r[0], r[1])
			if !ok || f < 0 {
				*e.bad = append(*e.bad, "fold over unknown "+r[0]+"."+r[1])
			}
			rows = append(rows, fmt.Sprintf("(%d, %d)", k, f))
		}
		return fmt.Sprintf("(.%s %s %s [%s])", v.k, e.tm(v.b), e.tm(v.xs[0]), strings.Join(rows, ", "))
	case "bytes":
		pre := "[]"
		if v.text != "" {
			var bs []string
			for _, c := range []byte(v.text) {
				bs = append(bs, strconv.Itoa(int(c)))
			}
			pre = "[" + strings.Join(bs, ", ") + "]"
		}
		return "(.bytes " + pre + " " + e.tm(v.b) + ")"
	case "pos":
		c, ok := e.combNo[v.text]
		if !ok {
			*e.bad = append(*e.bad, "unknown position combinator "+v.text)
		}
		saved := e.inPos
		e.inPos = true
		r := fmt.Sprintf("(.pos %d [%s])", c, e.tms(v.xs))
		e.inPos = saved
		return r
	case "getpos":
		e.inRead++
		r := "(.fld " + e.tm(v.b) + " 0)"
		e.inRead--
		return r
	}
	*e.bad = append(*e.bad, "value: "+v.k+" "+v.text)
	return ".nil"
}

func (e *temit) tms(xs []*sv) string {
	ss := make([]string, len(xs))
	for i, x := range xs {
		ss[i] = e.tm(x)
	}
	return strings.Join(ss, ", ")
}

func (e *temit) cond(c *scond) string {
	saved := e.inCond
	e.inCond = true
	defer func() { e.inCond = saved }()
	switch c.op {
	case "nil":
		return "(.isNil " + e.tm(c.v) + ")"
	case "leneq":
		return fmt.Sprintf("(.lenEq %s %d)", e.tm(c.v), c.n)
	case "kind":
		k, ok := e.kindNo[c.typ]
		if !ok {
			*e.bad = append(*e.bad, "condition on unknown type "+c.typ)
		}
		return fmt.Sprintf("(.kindIs %s %d)", e.tm(c.v), k)
	case "atoi":
		return "(.atoi " + e.tm(c.v) + ")"
	case "intoff":
		return fmt.Sprintf("(.intOff %s %v)", e.tm(c.v), c.n == 1)
	case "not":
		return "(.not " + e.cond(c.subs[0]) + ")"
	case "and":
		return "(.and " + e.cond(c.subs[0]) + " " + e.cond(c.subs[1]) + ")"
	case "or":
		s := e.cond(c.subs[len(c.subs)-1])
		for i := len(c.subs) - 2; i >= 0; i-- {
			s = "(.or " + e.cond(c.subs[i]) + " " + s + ")"
		}
		return s
	}
	*e.bad = append(*e.bad, "condition: "+c.typ)
	return "(.isNil .nil)"
}

// objects reachable from a value
func reachObjs(v *sv, seen map[*sobj]bool, order *[]*sobj, onStack map[*sobj]bool, cyc *bool) {
	if v == nil {
		return
	}
	if v.o != nil {
		o := v.o
		if onStack[o] {
			*cyc = true
			return
		}
		if !seen[o] {
			seen[o] = true
			onStack[o] = true
			var keys []string
			for k := range o.fields {
				keys = append(keys, k)
			}
			sort.Strings(keys)
			for _, k := range keys {
				reachObjs(o.fields[k], seen, order, onStack, cyc)
			}
			onStack[o] = false
			*order = append(*order, o) // children first
		}
	}
	reachObjs(v.b, seen, order, onStack, cyc)
	for _, x := range v.xs {
		reachObjs(x, seen, order, onStack, cyc)
	}
	if v.c != nil {
		var rc func(c *scond)
		rc = func(c *scond) {
			reachObjs(c.v, seen, order, onStack, cyc)
			for _, s := range c.subs {
				rc(s)
			}
		}
		rc(v.c)
	}
}

func genTerms(c *ctx, a *actx, which string, g *ygrammar, sw *ast.SwitchStmt, s *schema) {
	comp := "grammar-" + which
	sfx := which[3:]
	t := &tctx{a: a, which: which}
	// kind codes: ast kinds by schema index, parser-only helper records from 1000
	kindNo := map[string]int{}
	for i, k := range s.Kinds {
		kindNo["ast."+k.Name] = i
	}
	var helpers []string
	for n := range a.structs {
		if !strings.HasPrefix(n, "ast.") {
			helpers = append(helpers, n)
		}
	}
	sort.Strings(helpers)
	for i, n := range helpers {
		kindNo[n] = 1000 + i
	}
	combNo := map[string]int{}
	for i, n := range posCombNames {
		combNo[n] = i
	}
	// value slot of every grammar symbol
	slotOf := func(sym string) string {
		if ty, ok := g.TokenType[sym]; ok {
			return ty
		}
		if ty, ok := g.NtType[sym]; ok {
			return ty
		}
		if strings.HasPrefix(sym, "'") {
			return "token"
		}
		return ""
	}
	type row struct {
		prod, path int
		lean       string
		bad        []string
	}
	var rows []row
	var side []map[string]interface{}
	for _, cc := range sw.Body.List {
		cl := cc.(*ast.CaseClause)
		if len(cl.List) != 1 {
			continue
		}
		bl, ok := cl.List[0].(*ast.BasicLit)
		if !ok {
			continue
		}
		pn, _ := strconv.Atoi(bl.Value)
		if pn < 1 || pn > len(g.Prods) {
			continue
		}
		prod := g.Prods[pn-1]
		a.n = len(prod.Rhs)
		body := cl.Body
		if len(body) > 0 {
			if as, ok := body[0].(*ast.AssignStmt); ok && len(as.Lhs) == 1 && nodeText(as.Lhs[0]) == "yyDollar" {
				body = body[1:]
			}
		}
		// slot discipline: every `yyDollar[i].X` reads the slot of the i-th symbol, every `yyVAL.X` writes the
		// slot of the left-hand side (goyacc generates these from `$i` / `$$`; a hand edit could break it)
		var slotBad []string
		for _, st := range body {
			ast.Inspect(st, func(n ast.Node) bool {
				se, ok := n.(*ast.SelectorExpr)
				if !ok {
					return true
				}
				if i, slot, ok := dollarIndex(se); ok {
					if i < 1 || i > len(prod.Rhs) {
						slotBad = append(slotBad, fmt.Sprintf("yyDollar[%d] outside the right-hand side", i))
					} else if want := slotOf(prod.Rhs[i-1]); want != slot {
						slotBad = append(slotBad, fmt.Sprintf("yyDollar[%d].%s but %s carries .%s", i, slot, prod.Rhs[i-1], want))
					}
					return false
				}
				if id, ok := se.X.(*ast.Ident); ok && id.Name == "yyVAL" {
					if want := slotOf(prod.Lhs); want != se.Sel.Name {
						slotBad = append(slotBad, fmt.Sprintf("yyVAL.%s but %s carries .%s", se.Sel.Name, prod.Lhs, want))
					}
				}
				return true
			})
		}
		t.nobj = 0
		start := &spath{locals: map[string]*sv{}}
		paths := t.stmts([]*spath{start}, body)
		for pi, p := range paths {
			bad := append(append([]string(nil), p.bad...), slotBad...)
			// default `$$ = $1` needs equal slots
			if !p.retSet && p.root == nil && len(prod.Rhs) >= 1 && slotOf(prod.Lhs) != "" && slotOf(prod.Lhs) != slotOf(prod.Rhs[0]) {
				bad = append(bad, "no value assigned and $1 carries another slot than the left-hand side")
			}
			if !p.retSet && p.root == nil && len(prod.Rhs) == 0 && slotOf(prod.Lhs) != "" {
				bad = append(bad, "empty production does not assign its value")
			}
			// object order: children first
			seen := map[*sobj]bool{}
			onStack := map[*sobj]bool{}
			var order []*sobj
			cyc := false
			reachObjs(p.ret, seen, &order, onStack, &cyc)
			reachObjs(p.root, seen, &order, onStack, &cyc)
			for _, m := range p.muts {
				reachObjs(m.val, seen, &order, onStack, &cyc)
			}
			for _, cd := range p.conds {
				reachObjs(&sv{k: "cond", c: cd}, seen, &order, onStack, &cyc)
			}
			if cyc {
				bad = append(bad, "cyclic node literals")
			}
			em := &temit{t: t, kindNo: kindNo, combNo: combNo, objIdx: map[*sobj]int{}, bad: &bad, lastMutOf: map[int]int{}}
			for i := 1; i <= len(prod.Rhs); i++ {
				em.lastMutOf[i] = -1
			}
			for k, m := range p.muts {
				em.lastMutOf[m.i] = k
			}
			// node literals stored into existing nodes are evaluated at the time of the store
			inMutObj := map[*sobj]int{}
			for k, m := range p.muts {
				var o2 []*sobj
				c2 := false
				reachObjs(m.val, map[*sobj]bool{}, &o2, map[*sobj]bool{}, &c2)
				for _, o := range o2 {
					if _, ok := inMutObj[o]; !ok {
						inMutObj[o] = k
					}
				}
			}
			var objRows []string
			for j, o := range order {
				si := a.structs[o.typ]
				var fs []string
				if k, ok := inMutObj[o]; ok {
					em.inMut, em.mutIdx = true, k
				}
				if si != nil {
					for _, f := range si.fields {
						if v, ok := o.fields[f]; ok {
							fs = append(fs, em.tm(v))
						} else {
							fs = append(fs, ".nil")
						}
					}
				}
				em.inMut = false
				objRows = append(objRows, fmt.Sprintf("{ kind := %d, fields := [%s] }", kindNo[o.typ], strings.Join(fs, ", ")))
				em.objIdx[o] = j
			}
			var mutRows []string
			for mk, m := range p.muts {
				em.inMut, em.mutIdx = true, mk
				var steps []string
				ok := true
				for _, st := range m.path {
					if st == "[idx0]" {
						steps = append(steps, "1000000")
						continue
					}
					if st == "[last]" {
						steps = append(steps, "1000001")
						continue
					}
					sp := strings.SplitN(st, ".", 3) // "ast.K.F" or "Helper.F"
					typ, f := "", ""
					if len(sp) == 3 {
						typ, f = sp[0]+"."+sp[1], sp[2]
					} else if len(sp) == 2 {
						typ, f = sp[0], sp[1]
					}
					k := a.fieldIdx(typ, f)
					if k < 0 {
						ok = false
					}
					steps = append(steps, strconv.Itoa(k))
				}
				k := 0
				if m.field != "Position" {
					k = a.fieldIdx(m.typ, m.field)
				}
				if !ok || k < 0 {
					bad = append(bad, "store through an unknown field")
					continue
				}
				mutRows = append(mutRows, fmt.Sprintf("{ arg := %d, path := [%s], field := %d, val := %s }", m.i, strings.Join(steps, ", "), k, em.tm(m.val)))
			}
			em.inMut = false
			var condRows []string
			for _, cd := range p.conds {
				condRows = append(condRows, em.cond(cd))
			}
			ret := "none"
			if p.retSet {
				ret = "some " + em.tm(p.ret)
			}
			root := "none"
			if p.root != nil {
				root = "some " + em.tm(p.root)
			}
			status := 0
			if len(bad) > 0 {
				status = 2
			}
			lean := fmt.Sprintf("{ prod := %d, path := %d, n := %d, status := %d, reports := %d,\n    conds := [%s],\n    objs := [%s],\n    muts := [%s],\n    ret := %s, root := %s }",
				pn, pi, len(prod.Rhs), status, p.reports, strings.Join(condRows, ", "), strings.Join(objRows, ",\n      "), strings.Join(mutRows, ", "), ret, root)
			rows = append(rows, row{pn, pi, lean, bad})
			if len(bad) > 0 {
				side = append(side, map[string]interface{}{"prod": pn, "path": pi, "why": bad, "line": c.fset.Position(cl.Pos()).Line})
			}
		}
	}
	// helper functions the actions call and the model mirrors by hand: their text is pinned
	if pf := c.parseFile(filepath.Join("internal", which, "parser.go")); pf != nil {
		const wantIntOffset = `func intOffset(digits []byte, negative bool) bool { if len(digits) > 1 && digits[0] == '0' { return false } if negative && len(digits) == 1 && digits[0] == '0' { return false } return true }`
		found := false
		for _, d := range pf.Decls {
			if fd, ok := d.(*ast.FuncDecl); ok && fd.Recv == nil && fd.Name.Name == "intOffset" {
				found = true
				doc := fd.Doc
				fd.Doc = nil
				got := nodeText(fd)
				fd.Doc = doc
				if got != wantIntOffset {
					c.fail(comp, fd.Pos(), "intOffset is not the modelled text (Model/Term.lean intOffsetOk): %s", got)
				}
			}
		}
		if !found {
			c.fail(comp, pf.Pos(), "helper intOffset not found in internal/%s/parser.go", which)
		}
	}
	var b strings.Builder
	fmt.Fprintf(&b, "-- GENERATED by gofacts from internal/%s/%s.go (switch yynt of Parse): every path of every grammar action as an executable term. Do not edit.\nimport PhpVerif.Model.Term\nnamespace PhpVerif.Gen\nopen PhpVerif\n\n", which, which)
	var names []string
	for i := 0; i < len(rows); i += 8 {
		j := i + 8
		if j > len(rows) {
			j = len(rows)
		}
		nm := fmt.Sprintf("terms%s_%d", sfx, i/8)
		var rs []string
		for _, r := range rows[i:j] {
			rs = append(rs, r.lean)
		}
		fmt.Fprintf(&b, "def %s : List TPath := [\n  %s]\n", nm, strings.Join(rs, ",\n  "))
		names = append(names, nm)
	}
	var groups []string
	for i := 0; i < len(names); i += 16 {
		j := i + 16
		if j > len(names) {
			j = len(names)
		}
		gn := fmt.Sprintf("terms%s_g%d", sfx, i/16)
		fmt.Fprintf(&b, "def %s : List TPath := [%s].flatten\n", gn, strings.Join(names[i:j], ", "))
		groups = append(groups, gn)
	}
	fmt.Fprintf(&b, "def terms%s : List TPath := [%s].flatten\n", sfx, strings.Join(groups, ", "))
	// symbols: value slot per production's right-hand side is checked above; the error symbol's positions per production
	var errRows []string
	for _, p := range g.Prods {
		var ix []string
		for i, x := range p.Rhs {
			if x == "error" {
				ix = append(ix, strconv.Itoa(i+1))
			}
		}
		if len(ix) > 0 {
			errRows = append(errRows, fmt.Sprintf("(%d, [%s])", p.N, strings.Join(ix, ", ")))
		}
	}
	fmt.Fprintf(&b, "def errorArgs%s : List (Nat × List Nat) := [%s]\n", sfx, strings.Join(errRows, ", "))
	// helper kinds: field sorts (the ast kinds' sorts are in Gen/Schema.lean)
	var hk []string
	for i, n := range helpers {
		si := a.structs[n]
		var ss []string
		for _, x := range si.sorts {
			ss = append(ss, strconv.Itoa(x))
		}
		hk = append(hk, fmt.Sprintf("(%d, [%s])", 1000+i, strings.Join(ss, ", ")))
	}
	fmt.Fprintf(&b, "def helperSorts%s : List (Nat × List Nat) := [%s]\n", sfx, strings.Join(hk, ", "))
	b.WriteString("\nend PhpVerif.Gen\n")
	writeIfChanged(filepath.Join(c.out, "Terms"+sfx+".lean"), b.String())
	c.side["terms"+sfx] = map[string]interface{}{"paths": len(rows), "unsupported": side, "helpers": helpers}
}

var posCombNames = []string{
	"NewTokenPosition", "NewTokensPosition", "NewNodePosition", "NewNodesPosition",
	"NewTokenNodePosition", "NewNodeTokenPosition", "NewNodeListPosition", "NewNodeListTokenPosition",
	"NewTokenNodeListPosition", "NewNodeNodeListPosition", "NewNodeListNodePosition", "NewOptionalListTokensPosition",
}
