package main

import (
	"fmt"
	"go/ast"
	"strings"
)

// field sorts
const (
	sortPos   = 0 // *position.Position
	sortTok   = 1 // *token.Token
	sortToks  = 2 // []*token.Token
	sortNode  = 3 // Vertex
	sortNodes = 4 // []Vertex
	sortVal   = 5 // []byte
)

type field struct {
	Name string `json:"name"`
	Sort int    `json:"sort"`
}

type kind struct {
	Name    string  `json:"name"`    // struct name
	Visitor string  `json:"visitor"` // Visitor method its Accept calls
	Fields  []field `json:"fields"`
}

type schema struct {
	Kinds     []*kind
	byName    map[string]int // struct name -> kind index
	byVisitor map[string]int // visitor method -> kind index
}

func (k *kind) fieldIndex(name string) int {
	for i, f := range k.Fields {
		if f.Name == name {
			return i
		}
	}
	return -1
}

func typeSort(e ast.Expr) int {
	switch t := e.(type) {
	case *ast.StarExpr:
		if s, ok := t.X.(*ast.SelectorExpr); ok {
			if x, ok := s.X.(*ast.Ident); ok {
				if x.Name == "position" && s.Sel.Name == "Position" {
					return sortPos
				}
				if x.Name == "token" && s.Sel.Name == "Token" {
					return sortTok
				}
			}
		}
	case *ast.Ident:
		if t.Name == "Vertex" {
			return sortNode
		}
	case *ast.ArrayType:
		if t.Len != nil {
			return -1
		}
		switch el := t.Elt.(type) {
		case *ast.Ident:
			if el.Name == "Vertex" {
				return sortNodes
			}
			if el.Name == "byte" {
				return sortVal
			}
		case *ast.StarExpr:
			if typeSort(el) == sortTok {
				return sortToks
			}
		}
	}
	return -1
}

// genSchema reads pkg/ast/node.go (struct kinds, Accept bodies) and
// pkg/ast/ast.go (Visitor interface).
func genSchema(c *ctx) *schema {
	const comp = "schema"
	f := c.parseFile("pkg/ast/node.go")
	g := c.parseFile("pkg/ast/ast.go")
	if f == nil || g == nil {
		return nil
	}
	s := &schema{byName: map[string]int{}, byVisitor: map[string]int{}}
	for _, d := range f.Decls {
		gd, ok := d.(*ast.GenDecl)
		if !ok {
			continue
		}
		for _, sp := range gd.Specs {
			ts, ok := sp.(*ast.TypeSpec)
			if !ok {
				continue
			}
			st, ok := ts.Type.(*ast.StructType)
			if !ok {
				c.fail(comp, ts.Pos(), "type %s is not a struct", ts.Name.Name)
				continue
			}
			k := &kind{Name: ts.Name.Name}
			for _, fl := range st.Fields.List {
				so := typeSort(fl.Type)
				if so < 0 {
					c.fail(comp, fl.Pos(), "field type of %s not one of the six node field types", ts.Name.Name)
					continue
				}
				if len(fl.Names) == 0 {
					c.fail(comp, fl.Pos(), "embedded field in %s", ts.Name.Name)
				}
				for _, nm := range fl.Names {
					k.Fields = append(k.Fields, field{nm.Name, so})
				}
			}
			s.byName[k.Name] = len(s.Kinds)
			s.Kinds = append(s.Kinds, k)
		}
	}
	// methods: Accept must be `v.M(n)`, GetPosition must be `return n.Position`
	gotAccept := map[string]bool{}
	gotPos := map[string]bool{}
	for _, d := range f.Decls {
		fd, ok := d.(*ast.FuncDecl)
		if !ok {
			continue
		}
		if fd.Recv == nil || len(fd.Recv.List) != 1 {
			c.fail(comp, fd.Pos(), "free function %s in node.go", fd.Name.Name)
			continue
		}
		se, ok := fd.Recv.List[0].Type.(*ast.StarExpr)
		if !ok {
			c.fail(comp, fd.Pos(), "non-pointer receiver")
			continue
		}
		rn := se.X.(*ast.Ident).Name
		ki, ok := s.byName[rn]
		if !ok {
			c.fail(comp, fd.Pos(), "method on unknown type %s", rn)
			continue
		}
		recv := fd.Recv.List[0].Names[0].Name
		switch fd.Name.Name {
		case "Accept":
			okShape := false
			if len(fd.Body.List) == 1 {
				if es, ok := fd.Body.List[0].(*ast.ExprStmt); ok {
					if call, ok := es.X.(*ast.CallExpr); ok && len(call.Args) == 1 {
						if sel, ok := call.Fun.(*ast.SelectorExpr); ok {
							if x, ok := sel.X.(*ast.Ident); ok && x.Name == fd.Type.Params.List[0].Names[0].Name {
								if a, ok := call.Args[0].(*ast.Ident); ok && a.Name == recv {
									s.Kinds[ki].Visitor = sel.Sel.Name
									if prev, dup := s.byVisitor[sel.Sel.Name]; dup {
										c.fail(comp, fd.Pos(), "visitor method %s dispatched by two kinds (%s, %s)", sel.Sel.Name, s.Kinds[prev].Name, rn)
									}
									s.byVisitor[sel.Sel.Name] = ki
									okShape = true
								}
							}
						}
					}
				}
			}
			if !okShape {
				c.fail(comp, fd.Pos(), "Accept of %s is not `v.M(n)`", rn)
			}
			gotAccept[rn] = true
		case "GetPosition":
			okShape := false
			if len(fd.Body.List) == 1 {
				if rs, ok := fd.Body.List[0].(*ast.ReturnStmt); ok && len(rs.Results) == 1 {
					if sel, ok := rs.Results[0].(*ast.SelectorExpr); ok && sel.Sel.Name == "Position" {
						if x, ok := sel.X.(*ast.Ident); ok && x.Name == recv {
							okShape = true
						}
					}
				}
			}
			if !okShape {
				c.fail(comp, fd.Pos(), "GetPosition of %s is not `return n.Position`", rn)
			}
			gotPos[rn] = true
		default:
			c.fail(comp, fd.Pos(), "unexpected method %s.%s", rn, fd.Name.Name)
		}
	}
	for _, k := range s.Kinds {
		if !gotAccept[k.Name] {
			c.fail(comp, f.Pos(), "kind %s has no Accept", k.Name)
		}
		if !gotPos[k.Name] {
			c.fail(comp, f.Pos(), "kind %s has no GetPosition", k.Name)
		}
	}
	// Visitor interface: every method named once, parameter *Kind agrees with Accept
	nVis := 0
	for _, d := range g.Decls {
		gd, ok := d.(*ast.GenDecl)
		if !ok {
			continue
		}
		for _, sp := range gd.Specs {
			ts, ok := sp.(*ast.TypeSpec)
			if !ok || ts.Name.Name != "Visitor" {
				continue
			}
			it := ts.Type.(*ast.InterfaceType)
			for _, m := range it.Methods.List {
				ft, ok := m.Type.(*ast.FuncType)
				if !ok || len(m.Names) != 1 {
					c.fail(comp, m.Pos(), "Visitor: embedded interface")
					continue
				}
				nVis++
				name := m.Names[0].Name
				ki, ok := s.byVisitor[name]
				if !ok {
					c.fail(comp, m.Pos(), "Visitor method %s is dispatched by no kind", name)
					continue
				}
				pt := ""
				if len(ft.Params.List) == 1 {
					if se, ok := ft.Params.List[0].Type.(*ast.StarExpr); ok {
						if id, ok := se.X.(*ast.Ident); ok {
							pt = id.Name
						}
					}
				}
				if pt != s.Kinds[ki].Name {
					c.fail(comp, m.Pos(), "Visitor method %s takes *%s but is dispatched by %s", name, pt, s.Kinds[ki].Name)
				}
			}
		}
	}
	if nVis != len(s.Kinds) {
		c.fail(comp, g.Pos(), "Visitor has %d methods, node.go has %d kinds", nVis, len(s.Kinds))
	}

	// emit Lean
	var b strings.Builder
	b.WriteString("-- GENERATED by gofacts from pkg/ast/node.go, pkg/ast/ast.go. Do not edit.\n")
	b.WriteString("namespace PhpVerif.Gen\n\n")
	fmt.Fprintf(&b, "def nKinds : Nat := %d\n\n", len(s.Kinds))
	for i, k := range s.Kinds {
		sorts := []int{}
		names := []int{}
		for _, f := range k.Fields {
			sorts = append(sorts, f.Sort)
			names = append(names, c.intern(f.Name))
		}
		fmt.Fprintf(&b, "-- kind %d: %s (visitor %s)\n", i, k.Name, k.Visitor)
		fmt.Fprintf(&b, "def sorts_%d : List Nat := %s\n", i, natList(sorts))
		fmt.Fprintf(&b, "def fnames_%d : List Nat := %s\n", i, natList(names))
		fmt.Fprintf(&b, "def kname_%d : Nat := %d\n", i, c.intern(k.Name))
	}
	writeTable(&b, "schemaSorts", "List Nat", "sorts_", len(s.Kinds))
	writeTable(&b, "schemaFNames", "List Nat", "fnames_", len(s.Kinds))
	writeTable(&b, "schemaKNames", "Nat", "kname_", len(s.Kinds))
	for i, k := range s.Kinds {
		fmt.Fprintf(&b, "def K_%s : Nat := %d\n", k.Name, i)
	}
	b.WriteString("\nend PhpVerif.Gen\n")
	writeIfChanged(c.out+"/Schema.lean", b.String())

	ks := []interface{}{}
	for _, k := range s.Kinds {
		ks = append(ks, k)
	}
	c.side["kinds"] = ks
	return s
}

// writeTable emits `def name : List T := [prefix0, prefix1, ...]` in chunks.
func writeTable(b *strings.Builder, name, typ, prefix string, n int) {
	const chunk = 32
	nch := (n + chunk - 1) / chunk
	for ch := 0; ch < nch; ch++ {
		items := []string{}
		for i := ch * chunk; i < n && i < (ch+1)*chunk; i++ {
			items = append(items, fmt.Sprintf("%s%d", prefix, i))
		}
		fmt.Fprintf(b, "def %s_c%d : List (%s) := [%s]\n", name, ch, typ, strings.Join(items, ", "))
	}
	parts := []string{}
	for ch := 0; ch < nch; ch++ {
		parts = append(parts, fmt.Sprintf("%s_c%d", name, ch))
	}
	if len(parts) == 0 {
		fmt.Fprintf(b, "def %s : List (%s) := []\n\n", name, typ)
		return
	}
	fmt.Fprintf(b, "def %s : List (%s) := %s\n\n", name, typ, strings.Join(parts, " ++ "))
}
