package main

import (
	"fmt"
	"go/ast"
	"go/token"
	"os"
	"path/filepath"
	"sort"
	"strconv"
	"strings"
)

// ---------------------------------------------------------------- .y reader

type yprod struct {
	N      int      `json:"n"` // goyacc production number (1-based; 0 is $accept)
	Lhs    string   `json:"lhs"`
	Rhs    []string `json:"rhs"`
	Prec   string   `json:"prec,omitempty"`
	Line   int      `json:"line"`
	Action bool     `json:"action"`
}

type ygrammar struct {
	Prods     []yprod
	TokenType map[string]string   // terminal -> union field
	NtType    map[string]string   // nonterminal -> union field
	Prec      [][]string          // precedence lines: [assoc, sym...], lowest first
	Terminals map[string]bool
}

type ytok struct {
	kind string // id | char | punct | action | prec
	text string
	line int
}

func lexRules(src string, line0 int) ([]ytok, error) {
	var out []ytok
	line := line0
	i := 0
	for i < len(src) {
		ch := src[i]
		switch {
		case ch == '\n':
			line++
			i++
		case ch == ' ' || ch == '\t' || ch == '\r':
			i++
		case strings.HasPrefix(src[i:], "/*"):
			j := strings.Index(src[i+2:], "*/")
			if j < 0 {
				return nil, fmt.Errorf("line %d: unterminated comment", line)
			}
			line += strings.Count(src[i:i+2+j+2], "\n")
			i += 2 + j + 2
		case strings.HasPrefix(src[i:], "//"):
			for i < len(src) && src[i] != '\n' {
				i++
			}
		case ch == '\'':
			j := i + 1
			for j < len(src) && src[j] != '\'' {
				if src[j] == '\\' {
					j++
				}
				j++
			}
			out = append(out, ytok{"char", src[i : j+1], line})
			i = j + 1
		case ch == ':' || ch == '|' || ch == ';':
			out = append(out, ytok{"punct", string(ch), line})
			i++
		case ch == '{':
			depth := 0
			j := i
			startLine := line
			for j < len(src) {
				c := src[j]
				if c == '\n' {
					line++
				}
				if c == '"' {
					j++
					for j < len(src) && src[j] != '"' {
						if src[j] == '\\' {
							j++
						}
						j++
					}
				} else if c == '`' {
					j++
					for j < len(src) && src[j] != '`' {
						j++
					}
				} else if c == '\'' {
					j++
					for j < len(src) && src[j] != '\'' {
						if src[j] == '\\' {
							j++
						}
						j++
					}
				} else if strings.HasPrefix(src[j:], "//") {
					for j < len(src) && src[j] != '\n' {
						j++
					}
					continue
				} else if strings.HasPrefix(src[j:], "/*") {
					k := strings.Index(src[j+2:], "*/")
					line += strings.Count(src[j:j+2+k+2], "\n")
					j += 2 + k + 2
					continue
				} else if c == '{' {
					depth++
				} else if c == '}' {
					depth--
					if depth == 0 {
						break
					}
				}
				j++
			}
			out = append(out, ytok{"action", src[i : j+1], startLine})
			i = j + 1
		case ch == '%':
			j := i + 1
			for j < len(src) && (src[j] == '_' || src[j] >= 'a' && src[j] <= 'z') {
				j++
			}
			out = append(out, ytok{"prec", src[i:j], line})
			i = j
		case ch == '_' || ch >= 'a' && ch <= 'z' || ch >= 'A' && ch <= 'Z':
			j := i
			for j < len(src) && (src[j] == '_' || src[j] >= 'a' && src[j] <= 'z' || src[j] >= 'A' && src[j] <= 'Z' || src[j] >= '0' && src[j] <= '9') {
				j++
			}
			out = append(out, ytok{"id", src[i:j], line})
			i = j
		default:
			return nil, fmt.Errorf("line %d: unexpected character %q in rules section", line, ch)
		}
	}
	return out, nil
}

func readY(path string) (*ygrammar, error) {
	b, err := os.ReadFile(path)
	if err != nil {
		return nil, err
	}
	src := string(b)
	i := strings.Index(src, "\n%%")
	if i < 0 {
		return nil, fmt.Errorf("no %%%% in %s", path)
	}
	decl := src[:i]
	rest := src[i+3:]
	if j := strings.Index(rest, "\n%%"); j >= 0 {
		rest = rest[:j]
	}
	g := &ygrammar{TokenType: map[string]string{}, NtType: map[string]string{}, Terminals: map[string]bool{}}
	for _, l := range strings.Split(decl, "\n") {
		f := strings.Fields(l)
		if len(f) == 0 {
			continue
		}
		typ := ""
		args := f[1:]
		if len(args) > 0 && strings.HasPrefix(args[0], "<") {
			typ = strings.Trim(args[0], "<>")
			args = args[1:]
		}
		switch f[0] {
		case "%token":
			for _, a := range args {
				g.TokenType[a] = typ
				g.Terminals[a] = true
			}
		case "%type":
			for _, a := range args {
				g.NtType[a] = typ
			}
		case "%left", "%right", "%nonassoc":
			g.Prec = append(g.Prec, append([]string{f[0][1:]}, args...))
			for _, a := range args {
				g.Terminals[a] = true
			}
		}
	}
	toks, err := lexRules(rest, strings.Count(src[:i+3], "\n")+1)
	if err != nil {
		return nil, err
	}
	n := 0
	k := 0
	for k < len(toks) {
		if toks[k].kind != "id" || k+1 >= len(toks) || toks[k+1].text != ":" {
			return nil, fmt.Errorf("line %d: expected `name :`, found %q", toks[k].line, toks[k].text)
		}
		lhs := toks[k].text
		k += 2
		for {
			p := yprod{Lhs: lhs, Line: toks[k].line}
			for k < len(toks) && toks[k].text != "|" && toks[k].text != ";" {
				t := toks[k]
				if t.kind == "id" && k+1 < len(toks) && toks[k+1].text == ":" {
					break // yacc lets a rule end without ';' when the next rule starts
				}
				switch t.kind {
				case "id", "char":
					if p.Action {
						return nil, fmt.Errorf("line %d: symbol after an action (mid-rule actions are outside the recognised fragment)", t.line)
					}
					p.Rhs = append(p.Rhs, t.text)
				case "prec":
					if t.text != "%prec" || k+1 >= len(toks) {
						return nil, fmt.Errorf("line %d: unexpected %s", t.line, t.text)
					}
					p.Prec = toks[k+1].text
					k++
				case "action":
					if p.Action {
						return nil, fmt.Errorf("line %d: two actions in one alternative", t.line)
					}
					p.Action = true
				}
				k++
			}
			n++
			p.N = n
			g.Prods = append(g.Prods, p)
			if k >= len(toks) {
				break
			}
			if toks[k].text == ";" {
				k++
				break
			}
			if toks[k].text != "|" {
				break
			}
			k++ // '|'
		}
	}
	return g, nil
}

// intArrayVar reads `var name = [...]intN{...}` from a Go file.
func intArrayVar(f *ast.File, name string) []int {
	for _, d := range f.Decls {
		gd, ok := d.(*ast.GenDecl)
		if !ok || gd.Tok != token.VAR {
			continue
		}
		for _, sp := range gd.Specs {
			vs := sp.(*ast.ValueSpec)
			if len(vs.Names) != 1 || vs.Names[0].Name != name || len(vs.Values) != 1 {
				continue
			}
			cl, ok := vs.Values[0].(*ast.CompositeLit)
			if !ok {
				continue
			}
			var out []int
			for _, e := range cl.Elts {
				neg := false
				if u, ok := e.(*ast.UnaryExpr); ok && u.Op == token.SUB {
					neg = true
					e = u.X
				}
				bl, ok := e.(*ast.BasicLit)
				if !ok {
					return nil
				}
				v, _ := strconv.Atoi(bl.Value)
				if neg {
					v = -v
				}
				out = append(out, v)
			}
			return out
		}
	}
	return nil
}

// bracket families for grammar_balanced
var bracketRole = map[string][2]int{ // symbol -> (family, +1 open / -1 close)
	"'('": {0, 1}, "')'": {0, -1}, "'['": {1, 1}, "']'": {1, -1},
	"'{'": {2, 1}, "'}'": {2, -1}, "T_CURLY_OPEN": {2, 1}, "T_DOLLAR_OPEN_CURLY_BRACES": {2, 1},
}

func genGrammar(c *ctx, s *schema, which string) {
	comp := "grammar-" + which
	ypath := filepath.Join(c.repo, "internal", which, which+".y")
	g, err := readY(ypath)
	if err != nil {
		c.problems = append(c.problems, problem{Where: "internal/" + which + "/" + which + ".y", Msg: err.Error(), Comp: comp})
		return
	}
	gf := c.parseFile(filepath.Join("internal", which, which+".go"))
	if gf == nil {
		return
	}
	r1 := intArrayVar(gf, "yyR1")
	r2 := intArrayVar(gf, "yyR2")
	if r1 == nil || r2 == nil {
		c.fail(comp, gf.Pos(), "yyR1 / yyR2 not found")
		return
	}
	// GrammarConsistency (light): the .go tables were generated from this .y
	if len(r2) != len(g.Prods)+1 {
		c.fail(comp, gf.Pos(), "%s.y has %d productions, %s.go's yyR2 has %d (+1 for $accept)", which, len(g.Prods), which, len(r2))
		return
	}
	lhsNum := map[string]int{}
	for _, p := range g.Prods {
		if r2[p.N] != len(p.Rhs) {
			c.fail(comp, gf.Pos(), "production %d (%s, %s.y:%d): %d right-hand symbols in the .y, yyR2 says %d", p.N, p.Lhs, which, p.Line, len(p.Rhs), r2[p.N])
		}
		if n, ok := lhsNum[p.Lhs]; ok && n != r1[p.N] {
			c.fail(comp, gf.Pos(), "production %d (%s): yyR1 numbers its left-hand side %d, earlier %d", p.N, p.Lhs, r1[p.N], n)
		}
		lhsNum[p.Lhs] = r1[p.N]
	}
	nts := map[string]bool{}
	for _, p := range g.Prods {
		nts[p.Lhs] = true
	}
	// symbols: interned; terminals = everything on a right-hand side that is not a left-hand side
	var b strings.Builder
	sfx := which[3:]
	fmt.Fprintf(&b, "-- GENERATED by gofacts from internal/%s/%s.y (cross-checked with yyR1/yyR2 of %s.go). Do not edit.\nnamespace PhpVerif.Gen\n\n", which, which, which)
	fmt.Fprintf(&b, "def nProds%s : Nat := %d\n", sfx, len(g.Prods))
	symID := map[string]int{}
	var symNames []string
	sym := func(x string) int {
		if id, ok := symID[x]; ok {
			return id
		}
		symID[x] = len(symNames)
		symNames = append(symNames, x)
		return symID[x]
	}
	sym("$end")
	sym("error")
	// each production: lhs, rhs ids, bracket deltas of its terminals in order (family*2 + (0 open|1 close))
	var rows, brs, isT []string
	for _, p := range g.Prods {
		ids := []string{}
		br := []string{}
		for _, x := range p.Rhs {
			ids = append(ids, strconv.Itoa(sym(x)))
			if !nts[x] {
				if r, ok := bracketRole[x]; ok {
					v := r[0] * 2
					if r[1] < 0 {
						v++
					}
					br = append(br, strconv.Itoa(v))
				}
			}
		}
		rows = append(rows, fmt.Sprintf("(%d, [%s])", sym(p.Lhs), strings.Join(ids, ", ")))
		brs = append(brs, "["+strings.Join(br, ", ")+"]")
	}
	for _, n := range symNames {
		if nts[n] {
			isT = append(isT, "false")
		} else {
			isT = append(isT, "true")
		}
	}
	chunk := func(name, typ string, items []string) {
		var names []string
		for i := 0; i < len(items); i += 48 {
			j := i + 48
			if j > len(items) {
				j = len(items)
			}
			nm := fmt.Sprintf("%s_%d", name, i/48)
			fmt.Fprintf(&b, "def %s : List %s := [%s]\n", nm, typ, strings.Join(items[i:j], ", "))
			names = append(names, nm)
		}
		fmt.Fprintf(&b, "def %s : List %s := %s\n", name, typ, strings.Join(names, " ++ "))
	}
	// grammar-independent signature of each production (shared intern table): "lhs: rhs…"
	var sigs []string
	for _, p := range g.Prods {
		sigs = append(sigs, strconv.Itoa(c.intern("sig:"+p.Lhs+": "+strings.Join(p.Rhs, " "))))
	}
	chunk("prodSig"+sfx, "Nat", sigs)
	chunk("prods"+sfx, "(Nat × List Nat)", rows)
	chunk("prodBrackets"+sfx, "(List Nat)", brs)
	chunk("symIsTerminal"+sfx, "Bool", isT)
	// bracket role per symbol id (0 = none, 1+family*2+close)
	var roles []string
	for _, n := range symNames {
		if r, ok := bracketRole[n]; ok && !nts[n] {
			v := 1 + r[0]*2
			if r[1] < 0 {
				v++
			}
			roles = append(roles, strconv.Itoa(v))
		} else {
			roles = append(roles, "0")
		}
	}
	chunk("symBracket"+sfx, "Nat", roles)
	// precedence declarations: (level, assoc 0 left 1 right 2 nonassoc, symbol id)
	var precs []string
	var precJSON [][]string
	for lvl, l := range g.Prec {
		a := map[string]int{"left": 0, "right": 1, "nonassoc": 2}[l[0]]
		for _, x := range l[1:] {
			precs = append(precs, fmt.Sprintf("(%d, %d, %d)", lvl+1, a, sym(x)))
			precJSON = append(precJSON, []string{strconv.Itoa(lvl + 1), l[0], x})
		}
	}
	chunk("precDecl"+sfx, "(Nat × Nat × Nat)", precs)
	// the same by name, and the %prec annotations, for the comparison with PHP's table (Spec/Precedence.lean)
	var pn, pp []string
	for lvl, l := range g.Prec {
		for _, x := range l[1:] {
			pn = append(pn, fmt.Sprintf("(%d, %q, %q)", lvl+1, l[0], x))
		}
	}
	for _, p := range g.Prods {
		if p.Prec != "" {
			pp = append(pp, fmt.Sprintf("(%q, %q)", p.Lhs+": "+strings.Join(p.Rhs, " "), p.Prec))
		}
	}
	fmt.Fprintf(&b, "def precNames%s : List (Nat × String × String) := [\n  %s]\n", sfx, strings.Join(pn, ",\n  "))
	fmt.Fprintf(&b, "def prodPrecs%s : List (String × String) := [%s]\n", sfx, strings.Join(pp, ", "))
	b.WriteString("\nend PhpVerif.Gen\n")
	writeIfChanged(filepath.Join(c.out, "Grammar"+sfx+".lean"), b.String())
	// pairs of identically spelled productions (emitted with the second grammar)
	sigOf := map[string]int{}
	for _, p := range g.Prods {
		sigOf[p.Lhs+": "+strings.Join(p.Rhs, " ")] = p.N
	}
	if c.sigs == nil {
		c.sigs = map[string]map[string]int{}
	}
	c.sigs[which] = sigOf
	if len(c.sigs) == 2 {
		var pairs []string
		var keys []string
		for k := range c.sigs["php7"] {
			keys = append(keys, k)
		}
		sort.Strings(keys)
		for _, k := range keys {
			if n5, ok := c.sigs["php5"][k]; ok {
				pairs = append(pairs, fmt.Sprintf("(%d, %d)", n5, c.sigs["php7"][k]))
			}
		}
		var mb strings.Builder
		mb.WriteString("-- GENERATED by gofacts: (php5 production, php7 production) pairs that php5.y and php7.y spell identically. Do not edit.\nnamespace PhpVerif.Gen\n\n")
		mbs := strings.Replace(mb.String(), "\\n", "\n", -1)
		mbs += fmt.Sprintf("def matchedPairs : List (Nat × Nat) := [%s]\n\nend PhpVerif.Gen\n", strings.Join(pairs, ", "))
		writeIfChanged(filepath.Join(c.out, "Matched.lean"), strings.Replace(mbs, "\\n", "\n", -1))
	}
	c.side["grammar"+sfx] = map[string]interface{}{"prods": g.Prods, "symbols": symNames, "prec": precJSON, "token_type": g.TokenType, "nt_type": g.NtType}
	genTables(c, which, gf)
	genActions(c, s, which, g, gf)
}
