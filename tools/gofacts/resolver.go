package main

import (
	"fmt"
	"go/ast"
	"path/filepath"
	"sort"
	"strings"
)

// genResolver: which (node kind, field) the name resolver looks at, and how — regenerated from the
// visitor methods of pkg/visitor/nsresolver/namespace_resolver.go.  The Lean side compares the list
// with the positions at which PHP resolves names at compile time (Spec/NameRes.lean).
func genResolver(c *ctx, s *schema) {
	comp := "resolver"
	f := c.parseFile("pkg/visitor/nsresolver/namespace_resolver.go")
	if f == nil {
		return
	}
	var out []string
	helperText := map[string]string{}
	stateful := map[string]bool{"StmtNamespace": true, "StmtUse": true, "StmtGroupUse": true, "EnterNode": true, "LeaveNode": true,
		"AddAlias": true, "AddNamespacedName": true, "ResolveName": true, "ResolveType": true, "ResolveAlias": true, "NewNamespaceResolver": true, "NewNamespace": true, "concatNameParts": true}
	for _, d := range f.Decls {
		fd, ok := d.(*ast.FuncDecl)
		if !ok || fd.Body == nil {
			continue
		}
		if stateful[fd.Name.Name] {
			var b strings.Builder
			printExpr(&b, fd.Body)
			key := fd.Name.Name
			if fd.Recv != nil {
				key = nodeText(fd.Recv.List[0].Type) + "." + key
			}
			helperText[key] = b.String()
			continue
		}
		if fd.Recv == nil || len(fd.Type.Params.List) != 1 {
			c.fail(comp, fd.Pos(), "unexpected function %s", fd.Name.Name)
			continue
		}
		par := fd.Type.Params.List[0]
		kind := strings.TrimPrefix(typeName(par.Type), "ast.")
		if _, ok := s.byName[kind]; !ok || len(par.Names) != 1 {
			c.fail(comp, fd.Pos(), "method %s: parameter is not a node", fd.Name.Name)
			continue
		}
		var walk func(list []ast.Stmt, nvar, prefix string)
		walk = func(list []ast.Stmt, nvar, prefix string) {
			for _, st := range list {
				switch t := st.(type) {
				case *ast.ExprStmt:
					ce, ok := t.X.(*ast.CallExpr)
					if !ok {
						c.fail(comp, st.Pos(), "%s: statement outside the recognised resolver fragment", kind)
						continue
					}
					fn := nodeText(ce.Fun)
					switch fn {
					case "nsr.ResolveName":
						fld, ok := selField(ce.Args[0], nvar)
						lit, ok2 := ce.Args[1].(*ast.BasicLit)
						if ok && ok2 {
							out = append(out, fmt.Sprintf("%s.%s:name:%s", prefix, fld, strings.Trim(lit.Value, "\"")))
						} else if id, isId := ce.Args[0].(*ast.Ident); isId && ok2 {
							out = append(out, fmt.Sprintf("%s[%s]:name:%s", prefix, id.Name, strings.Trim(lit.Value, "\"")))
						} else {
							c.fail(comp, st.Pos(), "%s: ResolveName argument", kind)
						}
					case "nsr.ResolveType":
						if fld, ok := selField(ce.Args[0], nvar); ok {
							out = append(out, fmt.Sprintf("%s.%s:type", prefix, fld))
						} else if nodeText(ce.Args[0]) == nvar+".(*ast.Parameter).Type" {
							out = append(out, fmt.Sprintf("%s[%s]:paramtype", prefix, nvar))
						} else {
							c.fail(comp, st.Pos(), "%s: ResolveType argument %s", kind, nodeText(ce.Args[0]))
						}
					case "nsr.AddNamespacedName":
						out = append(out, fmt.Sprintf("%s:declare:%s", prefix, nodeText(ce.Args[1])))
					default:
						c.fail(comp, st.Pos(), "%s: call of %s", kind, fn)
					}
				case *ast.IfStmt:
					walk(t.Body.List, nvar, prefix)
					if t.Else != nil {
						c.fail(comp, st.Pos(), "%s: else branch", kind)
					}
				case *ast.RangeStmt:
					fld, ok := selField(t.X, nvar)
					v, ok2 := t.Value.(*ast.Ident)
					if !ok || !ok2 {
						c.fail(comp, st.Pos(), "%s: range expression", kind)
						continue
					}
					walk(t.Body.List, v.Name, prefix+"."+fld)
				case *ast.TypeSwitchStmt:
					as, ok := t.Assign.(*ast.AssignStmt)
					if !ok {
						c.fail(comp, st.Pos(), "%s: type switch", kind)
						continue
					}
					bind := as.Lhs[0].(*ast.Ident).Name
					for _, cc := range t.Body.List {
						cl := cc.(*ast.CaseClause)
						if len(cl.List) != 1 {
							c.fail(comp, cl.Pos(), "%s: case list", kind)
							continue
						}
						walk(cl.Body, bind, prefix+">"+strings.TrimPrefix(typeName(cl.List[0]), "ast."))
					}
				case *ast.AssignStmt:
					// refTrait := aa.Trait
					if len(t.Lhs) == 1 && len(t.Rhs) == 1 {
						if fld, ok := selField(t.Rhs[0], nvar); ok {
							if id, ok := t.Lhs[0].(*ast.Ident); ok {
								// treat the local as that field for the statements that follow
								rest := []ast.Stmt{}
								found := false
								for _, s2 := range list {
									if found {
										rest = append(rest, s2)
									}
									if s2 == st {
										found = true
									}
								}
								_ = rest
								aliasField[id.Name] = fld
								continue
							}
						}
					}
					c.fail(comp, st.Pos(), "%s: assignment", kind)
				default:
					c.fail(comp, st.Pos(), "%s: statement outside the recognised resolver fragment", kind)
				}
			}
		}
		aliasField = map[string]string{}
		walk(fd.Body.List, par.Names[0].Name, kind)
		// locals that alias a field (refTrait := aa.Trait): rewrite "[refTrait]" to ".Trait"
		for i, o := range out {
			for a, fld := range aliasField {
				out[i] = strings.Replace(o, "["+a+"]", "."+fld, 1)
				o = out[i]
			}
		}
	}
	for i, o := range out {
		// loop variable names are immaterial
		for {
			a := strings.Index(o, "[")
			b := strings.Index(o, "]")
			if a < 0 || b < a || o[a+1:b] == "*" {
				break
			}
			o = o[:a] + "[*]" + o[b+1:]
		}
		out[i] = o
	}
	sort.Strings(out)
	c.side["resolver_positions"] = out
	c.side["resolver_helpers"] = helperText
	var b strings.Builder
	b.WriteString("-- GENERATED by gofacts from pkg/visitor/nsresolver/namespace_resolver.go. Do not edit.\nnamespace PhpVerif.Gen\n\n")
	b.WriteString("def resolverPositions : List String := [\n")
	for i, o := range out {
		sep := ","
		if i == len(out)-1 {
			sep = ""
		}
		fmt.Fprintf(&b, "  %q%s\n", o, sep)
	}
	b.WriteString("]\n\nend PhpVerif.Gen\n")
	writeIfChanged(filepath.Join(c.out, "ResolverTab.lean"), b.String())
}

var aliasField = map[string]string{}
