package main

import (
	"go/printer"
	"strings"
)

// printExpr renders an AST node as canonical single-line text (go/printer
// output with all whitespace runs collapsed to one blank).
func printExpr(b *strings.Builder, n interface{}) {
	var buf strings.Builder
	cfg := printer.Config{Mode: printer.RawFormat}
	if err := cfg.Fprint(&buf, tokenFileSetForPrint, n); err != nil {
		b.WriteString("<unprintable>")
		return
	}
	b.WriteString(strings.Join(strings.Fields(buf.String()), " "))
}
