package main

import (
	"crypto/sha1"
	"fmt"
	"go/ast"
	"go/token"
	"sort"
	"strconv"
	"strings"
)

// ---------------------------------------------------------------- helpers

type method struct {
	decl *ast.FuncDecl
	recv string // receiver variable
	par  string // node parameter variable
	kind int
}

// visitorMethods collects the methods of receiver type recvType whose name is
// a Visitor method; other methods are returned in `others`.
func visitorMethods(c *ctx, comp string, f *ast.File, recvType string, s *schema) (ms []*method, others map[string]*ast.FuncDecl) {
	others = map[string]*ast.FuncDecl{}
	seen := map[int]bool{}
	for _, d := range f.Decls {
		fd, ok := d.(*ast.FuncDecl)
		if !ok || fd.Recv == nil {
			if ok {
				others[fd.Name.Name] = fd
			}
			continue
		}
		rt := ""
		if se, ok := fd.Recv.List[0].Type.(*ast.StarExpr); ok {
			if id, ok := se.X.(*ast.Ident); ok {
				rt = id.Name
			}
		}
		if rt != recvType {
			others[fd.Name.Name] = fd
			continue
		}
		ki, isVis := s.byVisitor[fd.Name.Name]
		if !isVis {
			others[fd.Name.Name] = fd
			continue
		}
		m := &method{decl: fd, kind: ki}
		if len(fd.Recv.List[0].Names) == 1 {
			m.recv = fd.Recv.List[0].Names[0].Name
		}
		if len(fd.Type.Params.List) == 1 && len(fd.Type.Params.List[0].Names) == 1 {
			m.par = fd.Type.Params.List[0].Names[0].Name
		}
		if seen[ki] {
			c.fail(comp, fd.Pos(), "duplicate method %s", fd.Name.Name)
		}
		seen[ki] = true
		ms = append(ms, m)
	}
	for i, k := range s.Kinds {
		if !seen[i] {
			c.fail(comp, f.Pos(), "%s has no method %s", recvType, k.Visitor)
		}
	}
	return
}

// selField matches `x.F` and returns F.
func selField(e ast.Expr, x string) (string, bool) {
	sel, ok := e.(*ast.SelectorExpr)
	if !ok {
		return "", false
	}
	id, ok := sel.X.(*ast.Ident)
	if !ok || id.Name != x {
		return "", false
	}
	return sel.Sel.Name, true
}

// callOn matches `recv.M(args...)`.
func callOn(e ast.Expr, recv string) (string, []ast.Expr, bool) {
	call, ok := e.(*ast.CallExpr)
	if !ok {
		return "", nil, false
	}
	m, ok := selField(call.Fun, recv)
	if !ok {
		return "", nil, false
	}
	return m, call.Args, true
}

// byteLit matches `[]byte("lit")`.
func byteLit(e ast.Expr) (string, bool) {
	call, ok := e.(*ast.CallExpr)
	if !ok || len(call.Args) != 1 {
		return "", false
	}
	at, ok := call.Fun.(*ast.ArrayType)
	if !ok || at.Len != nil {
		return "", false
	}
	if id, ok := at.Elt.(*ast.Ident); !ok || id.Name != "byte" {
		return "", false
	}
	bl, ok := call.Args[0].(*ast.BasicLit)
	if !ok || bl.Kind != token.STRING {
		return "", false
	}
	s, err := strconv.Unquote(bl.Value)
	if err != nil {
		return "", false
	}
	return s, true
}

func isNil(e ast.Expr) bool {
	id, ok := e.(*ast.Ident)
	return ok && id.Name == "nil"
}

func nodeStr(c *ctx, n ast.Node) string {
	p := c.fset.Position(n.Pos())
	e := c.fset.Position(n.End())
	return fmt.Sprintf("L%d:%d-L%d:%d", p.Line, p.Column, e.Line, e.Column)
}

// ---------------------------------------------------------------- printer

type dflt struct {
	Op   string `json:"op"` // none lit own ifNode ifNodeList ifNotNodeList ifTok ifNotTok
	F    int    `json:"f,omitempty"`
	Lit  string `json:"lit,omitempty"`
	A, B *dflt  `json:",omitempty"`
}

type pop struct {
	Op  string `json:"op"` // tok node list sep alt html
	F   int    `json:"f"`
	G   int    `json:"g,omitempty"`
	D   *dflt  `json:"d,omitempty"`
	Lit string `json:"lit,omitempty"`
}

func (c *ctx) leanDflt(d *dflt) string {
	switch d.Op {
	case "none":
		return ".none"
	case "lit":
		return fmt.Sprintf("(.lit %d)", c.intern("lit:"+d.Lit))
	case "own":
		return fmt.Sprintf("(.own %d)", d.F)
	case "ifNode", "ifNodeList", "ifNotNodeList", "ifNotTok":
		return fmt.Sprintf("(.%s %d %s)", d.Op, d.F, c.leanDflt(d.A))
	case "ifTok":
		return fmt.Sprintf("(.ifTok %d %s %s)", d.F, c.leanDflt(d.A), c.leanDflt(d.B))
	}
	panic("dflt " + d.Op)
}

func (c *ctx) leanPop(o pop) string {
	switch o.Op {
	case "tok":
		return fmt.Sprintf(".tok %d %s", o.F, c.leanDflt(o.D))
	case "node", "list":
		return fmt.Sprintf(".%s %d", o.Op, o.F)
	case "sep":
		return fmt.Sprintf(".sep %d %d %d", o.F, o.G, c.intern("lit:"+o.Lit))
	case "alt":
		return fmt.Sprintf(".alt %d %d", o.F, o.G)
	case "html":
		return fmt.Sprintf(".html %d %s", o.F, c.leanDflt(o.D))
	}
	panic("pop " + o.Op)
}

func genPrinter(c *ctx, s *schema) {
	const comp = "printer"
	f := c.parseFile("pkg/visitor/printer/printer.go")
	if f == nil {
		return
	}
	ms, others := visitorMethods(c, comp, f, "printer", s)
	tabs := make([][]pop, len(s.Kinds))

	var parseD func(m *method, e ast.Expr) *dflt
	parseD = func(m *method, e ast.Expr) *dflt {
		k := s.Kinds[m.kind]
		if isNil(e) {
			return &dflt{Op: "none"}
		}
		if l, ok := byteLit(e); ok {
			return &dflt{Op: "lit", Lit: l}
		}
		if fn, ok := selField(e, m.par); ok {
			fi := k.fieldIndex(fn)
			if fi >= 0 && k.Fields[fi].Sort == sortVal {
				return &dflt{Op: "own", F: fi}
			}
			c.fail(comp, e.Pos(), "%s: default n.%s is not a byte-value field of the node", k.Name, fn)
			return nil
		}
		if name, args, ok := callOn(e, m.recv); ok {
			want := map[string][2]int{"ifNode": {sortNode, 2}, "ifNodeList": {sortNodes, 2}, "ifNotNodeList": {sortNodes, 2}, "ifToken": {sortTok, 3}, "ifNotToken": {sortTok, 2}}
			w, known := want[name]
			if known && len(args) == w[1] {
				fn, ok := selField(args[0], m.par)
				fi := -1
				if ok {
					fi = k.fieldIndex(fn)
				}
				if fi < 0 || k.Fields[fi].Sort != w[0] {
					c.fail(comp, e.Pos(), "%s: %s on something that is not a matching field of the node", k.Name, name)
					return nil
				}
				a := parseD(m, args[1])
				if a == nil {
					return nil
				}
				switch name {
				case "ifToken":
					b := parseD(m, args[2])
					if b == nil {
						return nil
					}
					return &dflt{Op: "ifTok", F: fi, A: a, B: b}
				case "ifNotToken":
					return &dflt{Op: "ifNotTok", F: fi, A: a}
				default:
					return &dflt{Op: name, F: fi, A: a}
				}
			}
		}
		c.fail(comp, e.Pos(), "%s: unrecognised default expression", k.Name)
		return nil
	}

	// parse a plain print statement on variable `v` of kind ki
	parseStmt := func(m *method, st ast.Stmt, v string, ki int) (pop, bool) {
		k := s.Kinds[ki]
		es, ok := st.(*ast.ExprStmt)
		if !ok {
			return pop{}, false
		}
		name, args, ok := callOn(es.X, m.recv)
		if !ok {
			return pop{}, false
		}
		fld := func(e ast.Expr, sorts ...int) int {
			fn, ok := selField(e, v)
			if !ok {
				return -1
			}
			fi := k.fieldIndex(fn)
			if fi < 0 {
				return -1
			}
			for _, so := range sorts {
				if k.Fields[fi].Sort == so {
					return fi
				}
			}
			return -1
		}
		switch name {
		case "printToken":
			if len(args) == 2 {
				if fi := fld(args[0], sortTok); fi >= 0 {
					mm := *m
					mm.par = v
					mm.kind = ki
					d := parseD(&mm, args[1])
					if d == nil {
						return pop{}, false
					}
					return pop{Op: "tok", F: fi, D: d}, true
				}
			}
		case "printNode":
			if len(args) == 1 {
				if fi := fld(args[0], sortNode); fi >= 0 {
					return pop{Op: "node", F: fi}, true
				}
			}
		case "printList":
			if len(args) == 1 {
				if fi := fld(args[0], sortNodes); fi >= 0 {
					return pop{Op: "list", F: fi}, true
				}
			}
		case "printSeparatedList":
			if len(args) == 3 {
				fi := fld(args[0], sortNodes)
				gi := fld(args[1], sortToks)
				l, ok := byteLit(args[2])
				if fi >= 0 && gi >= 0 && ok {
					return pop{Op: "sep", F: fi, G: gi, Lit: l}, true
				}
			}
		}
		return pop{}, false
	}

	stmtListKind, hasSL := s.byName["StmtStmtList"]

	// the alt-syntax block:
	//   if stmt, ok := n.Stmt.(*ast.StmtStmtList); ok && n.ColonTkn != nil {
	//       p.printToken(stmt.OpenCurlyBracketTkn, nil); p.printList(stmt.Stmts); p.printToken(stmt.CloseCurlyBracketTkn, nil)
	//   } else { p.printNode(n.Stmt) }
	parseAlt := func(m *method, st ast.Stmt) (pop, bool) {
		k := s.Kinds[m.kind]
		is, ok := st.(*ast.IfStmt)
		if !ok || is.Init == nil || is.Else == nil || !hasSL {
			return pop{}, false
		}
		as, ok := is.Init.(*ast.AssignStmt)
		if !ok || as.Tok != token.DEFINE || len(as.Lhs) != 2 || len(as.Rhs) != 1 {
			return pop{}, false
		}
		v, ok1 := as.Lhs[0].(*ast.Ident)
		okv, ok2 := as.Lhs[1].(*ast.Ident)
		ta, ok3 := as.Rhs[0].(*ast.TypeAssertExpr)
		if !ok1 || !ok2 || !ok3 {
			return pop{}, false
		}
		fn, ok := selField(ta.X, m.par)
		if !ok {
			return pop{}, false
		}
		fi := k.fieldIndex(fn)
		if fi < 0 || k.Fields[fi].Sort != sortNode {
			return pop{}, false
		}
		se, ok := ta.Type.(*ast.StarExpr)
		if !ok {
			return pop{}, false
		}
		if tn, ok := selField(se.X, "ast"); !ok || tn != "StmtStmtList" {
			return pop{}, false
		}
		// cond: ok && n.G != nil
		be, ok := is.Cond.(*ast.BinaryExpr)
		if !ok || be.Op != token.LAND {
			return pop{}, false
		}
		if id, ok := be.X.(*ast.Ident); !ok || id.Name != okv.Name {
			return pop{}, false
		}
		ne, ok := be.Y.(*ast.BinaryExpr)
		if !ok || ne.Op != token.NEQ || !isNil(ne.Y) {
			return pop{}, false
		}
		gn, ok := selField(ne.X, m.par)
		if !ok {
			return pop{}, false
		}
		gi := k.fieldIndex(gn)
		if gi < 0 || k.Fields[gi].Sort != sortTok {
			return pop{}, false
		}
		// then-branch: exactly tok Open nil; list Stmts; tok Close nil of StmtStmtList
		sl := s.Kinds[stmtListKind]
		want := []pop{
			{Op: "tok", F: sl.fieldIndex("OpenCurlyBracketTkn"), D: &dflt{Op: "none"}},
			{Op: "list", F: sl.fieldIndex("Stmts")},
			{Op: "tok", F: sl.fieldIndex("CloseCurlyBracketTkn"), D: &dflt{Op: "none"}},
		}
		if len(is.Body.List) != 3 {
			return pop{}, false
		}
		for i, bs := range is.Body.List {
			o, ok := parseStmt(m, bs, v.Name, stmtListKind)
			if !ok || o.Op != want[i].Op || o.F != want[i].F || (o.D != nil && o.D.Op != "none") {
				return pop{}, false
			}
		}
		eb, ok := is.Else.(*ast.BlockStmt)
		if !ok || len(eb.List) != 1 {
			return pop{}, false
		}
		o, ok := parseStmt(m, eb.List[0], m.par, m.kind)
		if !ok || o.Op != "node" || o.F != fi {
			return pop{}, false
		}
		return pop{Op: "alt", F: fi, G: gi}, true
	}

	// StmtInlineHtml: fixed four-statement shape, modelled by hand as `.html`
	isHTML := func(m *method) (pop, bool) {
		b := m.decl.Body.List
		if len(b) != 4 {
			return pop{}, false
		}
		setState := func(st ast.Stmt, val string) bool {
			as, ok := st.(*ast.AssignStmt)
			if !ok || as.Tok != token.ASSIGN || len(as.Lhs) != 1 {
				return false
			}
			fn, ok := selField(as.Lhs[0], m.recv)
			id, ok2 := as.Rhs[0].(*ast.Ident)
			return ok && ok2 && fn == "state" && id.Name == val
		}
		if !setState(b[0], "PrinterStatePHP") || !setState(b[3], "PrinterStateHTML") {
			return pop{}, false
		}
		// b[1]: if p.last != nil && !bytes.HasSuffix(p.last, []byte("?>")) && !bytes.HasSuffix(p.last, []byte("?>\n")) { p.write([]byte("?>")) }
		var buf strings.Builder
		printExpr(&buf, b[1])
		c.side["printer_html_guard"] = buf.String()
		o, ok := parseStmt(m, b[2], m.par, m.kind)
		if !ok || o.Op != "tok" {
			return pop{}, false
		}
		return pop{Op: "html", F: o.F, D: o.D}, true
	}

	for _, m := range ms {
		k := s.Kinds[m.kind]
		if k.Name == "StmtInlineHtml" {
			if o, ok := isHTML(m); ok {
				tabs[m.kind] = []pop{o}
				continue
			}
		}
		for _, st := range m.decl.Body.List {
			if o, ok := parseStmt(m, st, m.par, m.kind); ok {
				tabs[m.kind] = append(tabs[m.kind], o)
				continue
			}
			if o, ok := parseAlt(m, st); ok {
				tabs[m.kind] = append(tabs[m.kind], o)
				continue
			}
			c.fail(comp, st.Pos(), "%s: statement outside the recognised printer fragment", k.Name)
		}
	}

	// helper bodies are hand-modelled in Lean (Model/Render.lean, Model/Printer.lean);
	// their text is fingerprinted so that an edit is reported as a broken tie
	// unless the T-diff of the printer still agrees (the runner decides).
	helperText := map[string]string{}
	for _, h := range []string{"write", "writeToken", "printNode", "printList", "printSeparatedList", "printToken", "ifNode", "ifNodeList", "ifNotNodeList", "ifToken", "ifNotToken", "isValidVarName", "NewPrinter", "WithState"} {
		fd, ok := others[h]
		if !ok {
			c.fail(comp, f.Pos(), "printer helper %s not found", h)
			continue
		}
		var buf strings.Builder
		printExpr(&buf, fd.Body)
		helperText[h] = buf.String()
	}
	for name := range others {
		if _, ok := helperText[name]; !ok {
			c.fail(comp, others[name].Pos(), "unexpected printer helper %s", name)
		}
	}
	c.side["printer_helpers"] = helperText
	// … and pinned, together with the Printer type: state added to the printer (a cache, a visited set) changes
	// what printing the same node twice does, which no per-kind table shows
	{
		var hk []string
		for h := range helperText {
			hk = append(hk, h)
		}
		sort.Strings(hk)
		var hb strings.Builder
		for _, h := range hk {
			hb.WriteString(h + " " + helperText[h] + "\n")
		}
		for _, d := range f.Decls {
			if gd, ok := d.(*ast.GenDecl); ok && gd.Tok == token.TYPE {
				for _, sp := range gd.Specs {
					if ts, ok := sp.(*ast.TypeSpec); ok {
						var buf strings.Builder
						printExpr(&buf, ts.Type)
						hb.WriteString("type " + ts.Name.Name + " " + buf.String() + "\n")
					}
				}
			}
		}
		if sum := fmt.Sprintf("%x", sha1.Sum([]byte(hb.String()))); sum != printerHelpersPin {
			c.fail(comp, f.Pos(), "the printer's type or helpers (hand-modelled in Model/Printer.lean, Model/Render.lean) changed: sha1 %s, modelled %s", sum, printerHelpersPin)
		}
	}

	var b strings.Builder
	b.WriteString("-- GENERATED by gofacts from pkg/visitor/printer/printer.go. Do not edit.\n")
	b.WriteString("import PhpVerif.Model.Tables\nnamespace PhpVerif.Gen\nopen PhpVerif\n\n")
	for i := range s.Kinds {
		ops := []string{}
		for _, o := range tabs[i] {
			ops = append(ops, c.leanPop(o))
		}
		fmt.Fprintf(&b, "def printer_%d : List POp := [%s]\n", i, strings.Join(ops, ", "))
	}
	writeTable(&b, "printerTab", "List POp", "printer_", len(s.Kinds))
	// the literal lexemes by interned id, as bytes (for the executable printer model)
	{
		used := map[int]bool{}
		var walkD func(d *dflt)
		walkD = func(d *dflt) {
			if d == nil {
				return
			}
			if d.Op == "lit" {
				used[c.intern("lit:"+d.Lit)] = true
			}
			walkD(d.A)
			walkD(d.B)
		}
		for _, ops := range tabs {
			for _, o := range ops {
				walkD(o.D)
				if o.Op == "sep" {
					used[c.intern("lit:"+o.Lit)] = true
				}
			}
		}
		var ids []int
		for id := range used {
			ids = append(ids, id)
		}
		sort.Ints(ids)
		var rows []string
		for _, id := range ids {
			var bs []string
			for _, ch := range []byte(strings.TrimPrefix(c.nameList[id], "lit:")) {
				bs = append(bs, fmt.Sprint(int(ch)))
			}
			rows = append(rows, fmt.Sprintf("(%d, [%s])", id, strings.Join(bs, ", ")))
		}
		fmt.Fprintf(&b, "def printerLits : List (Nat × List Nat) := [%s]\n", strings.Join(rows, ", "))
	}
	b.WriteString("end PhpVerif.Gen\n")
	writeIfChanged(c.out+"/PrinterTab.lean", b.String())
	c.side["printer"] = tabs
	// default lexeme of every token field: the literals inside its default expression
	c.printerDefaults = map[string][]string{}
	var lits func(d *dflt) []string
	lits = func(d *dflt) []string {
		if d == nil {
			return nil
		}
		var out []string
		if d.Op == "lit" {
			out = append(out, d.Lit)
		}
		out = append(out, lits(d.A)...)
		out = append(out, lits(d.B)...)
		return out
	}
	for i, k := range s.Kinds {
		for _, o := range tabs[i] {
			if (o.Op == "tok" || o.Op == "html") && o.F < len(k.Fields) {
				c.printerDefaults[k.Name+"."+k.Fields[o.F].Name] = lits(o.D)
			}
			if o.Op == "sep" && o.G < len(k.Fields) {
				c.printerDefaults[k.Name+"."+k.Fields[o.G].Name] = []string{o.Lit}
			}
		}
	}
}

// ---------------------------------------------------------------- traverser

type top struct {
	F    int  `json:"f"`
	Loop bool `json:"loop"`
}

func genTraverser(c *ctx, s *schema) {
	const comp = "traverser"
	f := c.parseFile("pkg/visitor/traverser/traverser.go")
	if f == nil {
		return
	}
	ms, others := visitorMethods(c, comp, f, "Traverser", s)
	tabs := make([][]top, len(s.Kinds))
	selfFirst := make([]int, len(s.Kinds))
	for _, m := range ms {
		k := s.Kinds[m.kind]
		body := m.decl.Body.List
		// first statement: n.Accept(t.v)
		if len(body) > 0 {
			if es, ok := body[0].(*ast.ExprStmt); ok {
				if name, args, ok := callOn(es.X, m.par); ok && name == "Accept" && len(args) == 1 {
					if fn, ok := selField(args[0], m.recv); ok && fn == "v" {
						selfFirst[m.kind] = 1
						body = body[1:]
					}
				}
			}
		}
		if selfFirst[m.kind] == 0 {
			c.fail(comp, m.decl.Pos(), "%s: first statement is not `n.Accept(t.v)`", k.Name)
		}
		for _, st := range body {
			switch x := st.(type) {
			case *ast.ExprStmt:
				// t.Traverse(n.F)
				if name, args, ok := callOn(x.X, m.recv); ok && name == "Traverse" && len(args) == 1 {
					if fn, ok := selField(args[0], m.par); ok {
						fi := k.fieldIndex(fn)
						if fi >= 0 && k.Fields[fi].Sort == sortNode {
							tabs[m.kind] = append(tabs[m.kind], top{fi, false})
							continue
						}
					}
				}
			case *ast.RangeStmt:
				// for _, nn := range n.F { nn.Accept(t) }
				if x.Tok == token.DEFINE && x.Value != nil && len(x.Body.List) == 1 {
					kid, _ := x.Key.(*ast.Ident)
					vid, _ := x.Value.(*ast.Ident)
					if kid != nil && kid.Name == "_" && vid != nil {
						if fn, ok := selField(x.X, m.par); ok {
							fi := k.fieldIndex(fn)
							if es, ok := x.Body.List[0].(*ast.ExprStmt); ok && fi >= 0 && k.Fields[fi].Sort == sortNodes {
								if name, args, ok := callOn(es.X, vid.Name); ok && name == "Accept" && len(args) == 1 {
									if a, ok := args[0].(*ast.Ident); ok && a.Name == m.recv {
										tabs[m.kind] = append(tabs[m.kind], top{fi, true})
										continue
									}
								}
							}
						}
					}
				}
			}
			c.fail(comp, st.Pos(), "%s: statement outside the recognised traverser fragment", k.Name)
		}
	}
	// Traverse helper: `if n != nil { n.Accept(t) }`
	if fd, ok := others["Traverse"]; ok {
		var buf strings.Builder
		printExpr(&buf, fd.Body)
		want := "{ if n != nil { n.Accept(t) } }"
		if buf.String() != want {
			c.fail(comp, fd.Pos(), "Traverse helper body %q differs from the modelled %q", buf.String(), want)
		}
	} else {
		c.fail(comp, f.Pos(), "Traverse helper missing")
	}
	for name, fd := range others {
		if name != "Traverse" && name != "NewTraverser" {
			c.fail(comp, fd.Pos(), "unexpected traverser function %s", name)
		}
	}

	var b strings.Builder
	b.WriteString("-- GENERATED by gofacts from pkg/visitor/traverser/traverser.go. Do not edit.\n")
	b.WriteString("namespace PhpVerif.Gen\n\n")
	for i := range s.Kinds {
		fs := []int{}
		for _, o := range tabs[i] {
			fs = append(fs, o.F)
		}
		fmt.Fprintf(&b, "def trav_%d : List Nat := %s\n", i, natList(fs))
	}
	writeTable(&b, "travTab", "List Nat", "trav_", len(s.Kinds))
	fmt.Fprintf(&b, "def travSelfFirst : List Nat := %s\n\n", natList(selfFirst))
	b.WriteString("end PhpVerif.Gen\n")
	writeIfChanged(c.out+"/TraverserTab.lean", b.String())
	c.side["traverser"] = tabs
}

// ---------------------------------------------------------------- dumper

type dop struct {
	Fn    int    `json:"fn"` // sort code the dump helper is for
	Label string `json:"label"`
	F     int    `json:"f"`
}

const dumperHelpersPin = "9ab318c2c843bebac202b69c59119b808cbae864"
const printerHelpersPin = "ebeb8404f9e040eb5d60cfb34b47820692e2265d"

func genDumper(c *ctx, s *schema) {
	const comp = "dumper"
	f := c.parseFile("pkg/visitor/dumper/dumper.go")
	if f == nil {
		return
	}
	ms, others := visitorMethods(c, comp, f, "Dumper", s)
	tabs := make([][]dop, len(s.Kinds))
	headers := make([]int, len(s.Kinds))
	fnSort := map[string]int{"dumpPosition": sortPos, "dumpToken": sortTok, "dumpTokenList": sortToks, "dumpVertex": sortNode, "dumpVertexList": sortNodes, "dumpValue": sortVal}
	strLit := func(e ast.Expr) (string, bool) {
		bl, ok := e.(*ast.BasicLit)
		if !ok || bl.Kind != token.STRING {
			return "", false
		}
		s, err := strconv.Unquote(bl.Value)
		return s, err == nil
	}
	isPrint := func(st ast.Stmt, recv string, indentArg string, text string) bool {
		es, ok := st.(*ast.ExprStmt)
		if !ok {
			return false
		}
		name, args, ok := callOn(es.X, recv)
		if !ok || name != "print" || len(args) != 2 {
			return false
		}
		var buf strings.Builder
		printExpr(&buf, args[0])
		if buf.String() != indentArg {
			return false
		}
		l, ok := strLit(args[1])
		return ok && l == text
	}
	isIncDec := func(st ast.Stmt, recv string, tok token.Token) bool {
		ids, ok := st.(*ast.IncDecStmt)
		if !ok || ids.Tok != tok {
			return false
		}
		fn, ok := selField(ids.X, recv)
		return ok && fn == "indent"
	}
	for _, m := range ms {
		k := s.Kinds[m.kind]
		body := m.decl.Body.List
		// header: v.print(0, "&ast.K{\n"); v.indent++
		// footer: v.indent--; v.print(v.indent, "},\n")
		if len(body) < 4 {
			c.fail(comp, m.decl.Pos(), "%s: body too short", k.Name)
			continue
		}
		hdr := ""
		if es, ok := body[0].(*ast.ExprStmt); ok {
			if name, args, ok := callOn(es.X, m.recv); ok && name == "print" && len(args) == 2 {
				if bl, ok := args[0].(*ast.BasicLit); ok && bl.Value == "0" {
					if l, ok := strLit(args[1]); ok && strings.HasPrefix(l, "&ast.") && strings.HasSuffix(l, "{\n") {
						hdr = strings.TrimSuffix(strings.TrimPrefix(l, "&ast."), "{\n")
					}
				}
			}
		}
		if hdr == "" {
			c.fail(comp, body[0].Pos(), "%s: header is not `v.print(0, \"&ast.K{\\n\")`", k.Name)
		}
		headers[m.kind] = c.intern(hdr)
		if !isIncDec(body[1], m.recv, token.INC) {
			c.fail(comp, body[1].Pos(), "%s: second statement is not `v.indent++`", k.Name)
		}
		n := len(body)
		if !isIncDec(body[n-2], m.recv, token.DEC) {
			c.fail(comp, body[n-2].Pos(), "%s: penultimate statement is not `v.indent--`", k.Name)
		}
		if !isPrint(body[n-1], m.recv, m.recv+".indent", "},\n") {
			c.fail(comp, body[n-1].Pos(), "%s: footer is not `v.print(v.indent, \"},\\n\")`", k.Name)
		}
		for _, st := range body[2 : n-2] {
			ok := false
			if es, isE := st.(*ast.ExprStmt); isE {
				if name, args, isC := callOn(es.X, m.recv); isC {
					if so, known := fnSort[name]; known {
						var label string
						var fe ast.Expr
						if so == sortPos && len(args) == 1 {
							label, fe = "Position", args[0]
						} else if so != sortPos && len(args) == 2 {
							if l, isL := strLit(args[0]); isL {
								label, fe = l, args[1]
							}
						}
						if fe != nil {
							if fn, isF := selField(fe, m.par); isF {
								if fi := k.fieldIndex(fn); fi >= 0 {
									tabs[m.kind] = append(tabs[m.kind], dop{so, label, fi})
									ok = true
								}
							}
						}
					}
				}
			}
			if !ok {
				c.fail(comp, st.Pos(), "%s: statement outside the recognised dumper fragment", k.Name)
			}
		}
	}
	helperText := map[string]string{}
	for _, h := range []string{"print", "dumpVertex", "dumpVertexList", "dumpToken", "dumpTokenList", "dumpPosition", "dumpValue", "Dump", "WithTokens", "WithPositions", "NewDumper"} {
		fd, ok := others[h]
		if !ok {
			c.fail(comp, f.Pos(), "dumper helper %s not found", h)
			continue
		}
		var buf strings.Builder
		printExpr(&buf, fd.Body)
		helperText[h] = buf.String()
	}
	for name, fd := range others {
		if _, ok := helperText[name]; !ok {
			c.fail(comp, fd.Pos(), "unexpected dumper function %s", name)
		}
	}
	c.side["dumper_helpers"] = helperText
	// the helpers are hand-modelled (Model/Dumper.lean: dumpOp, dumpTokBody, dumpFFBody, dumpPos): text pinned
	{
		var hk []string
		for h := range helperText {
			hk = append(hk, h)
		}
		sort.Strings(hk)
		var hb strings.Builder
		for _, h := range hk {
			hb.WriteString(h + " " + helperText[h] + "\n")
		}
		if sum := fmt.Sprintf("%x", sha1.Sum([]byte(hb.String()))); sum != dumperHelpersPin {
			c.fail(comp, f.Pos(), "the dumper's helpers (hand-modelled in Model/Dumper.lean) changed: sha1 %s, modelled %s", sum, dumperHelpersPin)
		}
	}

	var b strings.Builder
	b.WriteString("-- GENERATED by gofacts from pkg/visitor/dumper/dumper.go. Do not edit.\n")
	b.WriteString("namespace PhpVerif.Gen\n\n")
	for i := range s.Kinds {
		items := []string{}
		for _, o := range tabs[i] {
			items = append(items, fmt.Sprintf("(%d, %d, %d)", o.Fn, c.intern(o.Label), o.F))
		}
		fmt.Fprintf(&b, "def dump_%d : List (Nat × Nat × Nat) := [%s]\n", i, strings.Join(items, ", "))
	}
	writeTable(&b, "dumpTab", "List (Nat × Nat × Nat)", "dump_", len(s.Kinds))
	fmt.Fprintf(&b, "def dumpHeaders : List Nat := %s\n\n", natList(headers))
	fmt.Fprintf(&b, "def dumpLblFF : Nat := %d\ndef dumpLblID : Nat := %d\n\n", c.intern("FreeFloating"), c.intern("ID"))
	b.WriteString("end PhpVerif.Gen\n")
	writeIfChanged(c.out+"/DumperTab.lean", b.String())
	c.side["dumper"] = tabs
}

// ---------------------------------------------------------------- null visitor

// genNull checks that every visitor method of visitor.Null has an empty body
// (the passive visitor of C12/C13).
func genNull(c *ctx, s *schema) {
	const comp = "null"
	f := c.parseFile("pkg/visitor/null.go")
	if f == nil {
		return
	}
	ms, _ := visitorMethods(c, comp, f, "Null", s)
	for _, m := range ms {
		if len(m.decl.Body.List) != 0 {
			c.fail(comp, m.decl.Pos(), "Null.%s has a non-empty body", m.decl.Name.Name)
		}
	}
}
