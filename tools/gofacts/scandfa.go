package main

import (
	"fmt"
	"go/ast"
	"go/token"
	"path/filepath"
	"sort"
	"strconv"
	"strings"
)

// genScanDFA (component "scandfa"): the transition function of the ragel-generated scanner
// (internal/scanner/scanner.go, `-G2` goto code).  Every `st_case_N:` segment of `Lex` is run by a
// small interpreter for each of the 256 byte values (and, where the segment calls a `when` condition
// such as lex.isNotStringEnd('"'), for both outcomes of every condition): the result is the label the
// segment jumps to — `trM` (an action block, which ends in `goto stK`) or `stK`.  Every `trM:`
// segment is summarised: does it run the new_line action, which token id does it assign, where does
// it go.  Lean (Props/Scanner.lean) checks facts about all 531 states at once.
//
// The interpreter knows: `switch lex.data[(lex.p)] {case c…: goto L}`, tagless `switch` / `if` over
// comparisons of `lex.data[(lex.p)]` and `_widec` with constants, `_widec = …` assignments,
// `if lex.cond(…) { _widec += K }`, `goto L`.  Anything else in a transition segment is a broken tie.

type dfaSeg struct {
	label string
	stmts []ast.Stmt
	pos   token.Pos
}

type dfaEval struct {
	b       int
	widec   int
	conds   map[string]bool // decided outcomes
	unknown string          // first undecided condition met
	bad     string
}

func (e *dfaEval) intExpr(x ast.Expr) (int, bool) {
	switch t := x.(type) {
	case *ast.ParenExpr:
		return e.intExpr(t.X)
	case *ast.BasicLit:
		if t.Kind == token.INT {
			v, err := strconv.Atoi(t.Value)
			return v, err == nil
		}
		if t.Kind == token.CHAR {
			s, err := strconv.Unquote(t.Value)
			if err == nil && len(s) == 1 {
				return int(s[0]), true
			}
		}
	case *ast.IndexExpr:
		if nodeText(t) == "lex.data[(lex.p)]" || nodeText(t) == "lex.data[lex.p]" {
			return e.b, true
		}
	case *ast.Ident:
		if t.Name == "_widec" {
			return e.widec, true
		}
	case *ast.CallExpr:
		if id, ok := t.Fun.(*ast.Ident); ok && (id.Name == "int16" || id.Name == "int") && len(t.Args) == 1 {
			return e.intExpr(t.Args[0])
		}
	case *ast.BinaryExpr:
		a, ok1 := e.intExpr(t.X)
		b, ok2 := e.intExpr(t.Y)
		if ok1 && ok2 {
			switch t.Op {
			case token.ADD:
				return a + b, true
			case token.SUB:
				return a - b, true
			}
		}
	}
	e.bad = "integer expression " + clipText(nodeText(x), 50)
	return 0, false
}

func (e *dfaEval) boolExpr(x ast.Expr) (bool, bool) {
	switch t := x.(type) {
	case *ast.ParenExpr:
		return e.boolExpr(t.X)
	case *ast.BinaryExpr:
		switch t.Op {
		case token.LAND, token.LOR:
			a, ok := e.boolExpr(t.X)
			if !ok {
				return false, false
			}
			if t.Op == token.LAND && !a {
				return false, true
			}
			if t.Op == token.LOR && a {
				return true, true
			}
			return e.boolExpr(t.Y)
		case token.LSS, token.LEQ, token.GTR, token.GEQ, token.EQL, token.NEQ:
			a, ok1 := e.intExpr(t.X)
			b, ok2 := e.intExpr(t.Y)
			if !ok1 || !ok2 {
				return false, false
			}
			switch t.Op {
			case token.LSS:
				return a < b, true
			case token.LEQ:
				return a <= b, true
			case token.GTR:
				return a > b, true
			case token.GEQ:
				return a >= b, true
			case token.EQL:
				return a == b, true
			default:
				return a != b, true
			}
		}
	case *ast.CallExpr:
		if s, ok := t.Fun.(*ast.SelectorExpr); ok {
			if id, ok := s.X.(*ast.Ident); ok && id.Name == "lex" {
				key := nodeText(t)
				if v, ok := e.conds[key]; ok {
					return v, true
				}
				if e.unknown == "" {
					e.unknown = key
				}
				return false, false
			}
		}
	}
	if e.bad == "" && e.unknown == "" {
		e.bad = "condition " + clipText(nodeText(x), 50)
	}
	return false, false
}

// run returns the goto target of a statement list, "" when it falls through
func (e *dfaEval) run(list []ast.Stmt) string {
	for _, st := range list {
		if t := e.stmt(st); t != "" || e.bad != "" || e.unknown != "" {
			return t
		}
	}
	return ""
}

func (e *dfaEval) stmt(st ast.Stmt) string {
	switch s := st.(type) {
	case *ast.LabeledStmt:
		return e.stmt(s.Stmt)
	case *ast.EmptyStmt:
		return ""
	case *ast.BlockStmt:
		return e.run(s.List)
	case *ast.BranchStmt:
		if s.Tok == token.GOTO {
			return s.Label.Name
		}
	case *ast.AssignStmt:
		if len(s.Lhs) == 1 && (nodeText(s.Lhs[0]) == "lex.ts" || nodeText(s.Lhs[0]) == "lex.te" || nodeText(s.Lhs[0]) == "lex.act") {
			return "" // from-state action of a scanner entry state (`ts = p`): no effect on the transition
		}
		if len(s.Lhs) == 1 && nodeText(s.Lhs[0]) == "_widec" && len(s.Rhs) == 1 {
			v, ok := e.intExpr(s.Rhs[0])
			if !ok {
				return ""
			}
			switch s.Tok {
			case token.ASSIGN:
				e.widec = v
			case token.ADD_ASSIGN:
				e.widec += v
			default:
				e.bad = "assignment " + nodeText(s)
			}
			return ""
		}
	case *ast.IfStmt:
		if s.Init == nil {
			c, ok := e.boolExpr(s.Cond)
			if !ok {
				return ""
			}
			if c {
				return e.run(s.Body.List)
			}
			if s.Else != nil {
				return e.stmt(s.Else)
			}
			return ""
		}
	case *ast.SwitchStmt:
		if s.Init == nil {
			var deflt *ast.CaseClause
			if s.Tag != nil {
				v, ok := e.intExpr(s.Tag)
				if !ok {
					return ""
				}
				for _, cc := range s.Body.List {
					cl := cc.(*ast.CaseClause)
					if cl.List == nil {
						deflt = cl
						continue
					}
					for _, x := range cl.List {
						c, ok := e.intExpr(x)
						if !ok {
							return ""
						}
						if c == v {
							return e.run(cl.Body)
						}
					}
				}
			} else {
				for _, cc := range s.Body.List {
					cl := cc.(*ast.CaseClause)
					if cl.List == nil {
						deflt = cl
						continue
					}
					for _, x := range cl.List {
						c, ok := e.boolExpr(x)
						if !ok {
							return ""
						}
						if c {
							return e.run(cl.Body)
						}
					}
				}
			}
			if deflt != nil {
				return e.run(deflt.Body)
			}
			return ""
		}
	}
	e.bad = "statement " + clipText(nodeText(st), 60)
	return ""
}

func labelCode(l string) (int, bool) {
	if strings.HasPrefix(l, "st") {
		if n, err := strconv.Atoi(l[2:]); err == nil {
			return n, true
		}
	}
	if strings.HasPrefix(l, "tr") {
		if n, err := strconv.Atoi(l[2:]); err == nil {
			return 10000 + n, true
		}
	}
	return 0, false
}

func genScanDFA(c *ctx) {
	const comp = "scandfa"
	f := c.parseFile("internal/scanner/scanner.go")
	if f == nil {
		return
	}
	var lexFn *ast.FuncDecl
	for _, d := range f.Decls {
		if fd, ok := d.(*ast.FuncDecl); ok && fd.Name.Name == "Lex" && fd.Recv != nil {
			lexFn = fd
		}
	}
	if lexFn == nil {
		c.fail(comp, f.Pos(), "func (*Lexer) Lex not found")
		return
	}
	// the block that holds the state labels
	var segs []dfaSeg
	ast.Inspect(lexFn.Body, func(n ast.Node) bool {
		bl, ok := n.(*ast.BlockStmt)
		if !ok {
			return true
		}
		nlab := 0
		for _, st := range bl.List {
			if _, ok := st.(*ast.LabeledStmt); ok {
				nlab++
			}
		}
		if nlab < 100 {
			return true
		}
		var cur *dfaSeg
		for _, st := range bl.List {
			if ls, ok := st.(*ast.LabeledStmt); ok {
				segs = append(segs, dfaSeg{label: ls.Label.Name, pos: ls.Pos()})
				cur = &segs[len(segs)-1]
				cur.stmts = append(cur.stmts, ls.Stmt)
				continue
			}
			if cur != nil {
				cur.stmts = append(cur.stmts, st)
			}
		}
		return false
	})
	if len(segs) == 0 {
		c.fail(comp, lexFn.Pos(), "no labelled state blocks found in Lex")
		return
	}
	// transitions
	type row struct {
		state int
		conds []string
		// targets[v][b] for condition vector v (bit i = outcome of conds[i])
		targets [][]int
	}
	var rows []row
	condIDs := map[string]int{}
	var condNames []string
	for _, sg := range segs {
		if !strings.HasPrefix(sg.label, "st_case_") {
			continue
		}
		sn, err := strconv.Atoi(strings.TrimPrefix(sg.label, "st_case_"))
		if err != nil || sn == 0 {
			continue // state 0 is ragel's error state: `lex.cs = 0; goto _out`
		}
		// discover the conditions of this state
		condSet := map[string]bool{}
		var conds []string
		var explore func(b int, dec map[string]bool) (int, bool)
		explore = func(b int, dec map[string]bool) (int, bool) {
			ev := &dfaEval{b: b, conds: dec}
			t := ev.run(sg.stmts)
			if ev.bad != "" {
				c.fail(comp, sg.pos, "state %d: %s", sn, ev.bad)
				return 0, false
			}
			if ev.unknown != "" {
				if !condSet[ev.unknown] {
					condSet[ev.unknown] = true
					conds = append(conds, ev.unknown)
				}
				return -1, true
			}
			code, ok := labelCode(t)
			if !ok {
				c.fail(comp, sg.pos, "state %d byte %d: jumps to %q", sn, b, t)
				return 0, false
			}
			return code, true
		}
		// first pass: find all conditions (iterate until no new condition shows up)
		for {
			n0 := len(conds)
			for v := 0; v < 1<<uint(len(conds)); v++ {
				dec := map[string]bool{}
				for i, cn := range conds {
					dec[cn] = v&(1<<uint(i)) != 0
				}
				for b := 0; b < 256; b++ {
					if _, ok := explore(b, dec); !ok {
						return
					}
				}
			}
			if len(conds) == n0 {
				break
			}
			if len(conds) > 4 {
				c.fail(comp, sg.pos, "state %d has more than four conditions", sn)
				return
			}
		}
		r := row{state: sn, conds: conds}
		for v := 0; v < 1<<uint(len(conds)); v++ {
			dec := map[string]bool{}
			for i, cn := range conds {
				dec[cn] = v&(1<<uint(i)) != 0
			}
			tg := make([]int, 256)
			for b := 0; b < 256; b++ {
				code, ok := explore(b, dec)
				if !ok || code < 0 {
					c.fail(comp, sg.pos, "state %d byte %d: undecided", sn, b)
					return
				}
				tg[b] = code
			}
			r.targets = append(r.targets, tg)
		}
		for _, cn := range conds {
			if _, ok := condIDs[cn]; !ok {
				// fixed codes: the executable scanner model (Model/Scan.lean) evaluates the conditions by code
				code, known := map[string]int{"lex.isNotPhpCloseToken()": 0, "lex.isNotNewLine()": 1, "lex.isNotHeredocEnd(lex.p)": 2,
					"lex.isNotStringVar()": 3, "lex.isNotStringEnd('`')": 4, "lex.isNotStringEnd('\"')": 5}[cn]
				if !known {
					c.fail(comp, sg.pos, "state %d: condition %s is not one the scanner model knows", sn, cn)
					code = 100 + len(condNames)
				}
				condIDs[cn] = code
				condNames = append(condNames, cn)
			}
		}
		rows = append(rows, r)
	}
	sort.Slice(rows, func(i, j int) bool { return rows[i].state < rows[j].state })
	// token numbers: pkg/token/token.go declares them as one iota block starting at 57346
	tokNum := map[string]int{}
	var tokOrder []string
	if tf := c.parseFile("pkg/token/token.go"); tf != nil {
		for _, d := range tf.Decls {
			gd, ok := d.(*ast.GenDecl)
			if !ok || gd.Tok != token.CONST {
				continue
			}
			base := -1
			for i, sp := range gd.Specs {
				vs := sp.(*ast.ValueSpec)
				if i == 0 && len(vs.Values) == 1 {
					if be, ok := vs.Values[0].(*ast.BinaryExpr); ok && nodeText(be.X) == "iota" {
						if bl, ok := be.Y.(*ast.BasicLit); ok {
							base, _ = strconv.Atoi(bl.Value)
						}
					}
				}
				if base < 0 {
					break
				}
				for _, n := range vs.Names {
					tokNum["token."+n.Name] = base + i
					tokOrder = append(tokOrder, n.Name)
				}
			}
		}
	}
	if len(tokNum) < 100 {
		c.fail(comp, f.Pos(), "token numbers not found in pkg/token/token.go")
		return
	}
	tokCode := func(expr string) int {
		e := strings.ReplaceAll(expr, " ", "")
		if n, ok := tokNum[e]; ok {
			return n
		}
		if strings.HasPrefix(e, "token.ID(int('") && strings.HasSuffix(e, "'))") {
			q := e[len("token.ID(int("):len(e)-2]
			if u, err := strconv.Unquote(q); err == nil && len(u) == 1 {
				return int(u[0])
			}
		}
		if e == "token.ID(int(lex.data[lex.ts]))" {
			return 999999 // the token's own first byte
		}
		return -1
	}
	// action blocks: new_line action? token id? where next?
	type trInfo struct {
		n       int
		holds   bool // the block moves p back (`p = te - 1`, `p--`): the byte that led here is read again
		unget   bool // lex.ungetCnt / lex.ungetStr: bytes are given back
		teNext  bool // `te = p + 1`: the block accepts the current byte as the end of a token
		newline bool
		toks    []string
		next    string
		act     int            // last `lex.act = N` of the block, -1 none
		emits   bool           // contains `goto _out`
		ffs     []string         // ids passed to lex.addFreeFloatingToken
		sw      map[int][]string // `switch lex.act`: case -> token expressions assigned in it
		swOrder []int
	}
	var trs []trInfo
	for _, sg := range segs {
		if !strings.HasPrefix(sg.label, "tr") {
			continue
		}
		n, err := strconv.Atoi(sg.label[2:])
		if err != nil {
			continue
		}
		ti := trInfo{n: n, act: -1}
		for _, st := range sg.stmts {
			// `switch lex.act` blocks: tokens per case
			ast.Inspect(st, func(x ast.Node) bool {
				sw, ok := x.(*ast.SwitchStmt)
				if !ok || sw.Tag == nil || nodeText(sw.Tag) != "lex.act" {
					return true
				}
				ti.sw = map[int][]string{}
				for _, cc := range sw.Body.List {
					cl := cc.(*ast.CaseClause)
					var ts []string
					for _, b := range cl.Body {
						ast.Inspect(b, func(y ast.Node) bool {
							if as, ok := y.(*ast.AssignStmt); ok && len(as.Lhs) == 1 && nodeText(as.Lhs[0]) == "tok" && len(as.Rhs) == 1 {
								ts = append(ts, nodeText(as.Rhs[0]))
							}
							return true
						})
					}
					for _, cv := range cl.List {
						if bl, ok := cv.(*ast.BasicLit); ok {
							k, _ := strconv.Atoi(bl.Value)
							ti.sw[k] = ts
							ti.swOrder = append(ti.swOrder, k)
						}
					}
				}
				return false
			})
			if as, ok := st.(*ast.AssignStmt); ok && len(as.Lhs) == 1 && nodeText(as.Lhs[0]) == "lex.act" {
				if bl, ok := as.Rhs[0].(*ast.BasicLit); ok {
					ti.act, _ = strconv.Atoi(bl.Value)
				}
			}
			ast.Inspect(st, func(x ast.Node) bool {
				if br, ok := x.(*ast.BranchStmt); ok && br.Tok == token.GOTO && br.Label.Name == "_out" {
					ti.emits = true
				}
				return true
			})
			ast.Inspect(st, func(x ast.Node) bool {
				switch t := x.(type) {
				case *ast.CallExpr:
					if nodeText(t.Fun) == "lex.newLines.Append" {
						ti.newline = true
					}
					if nodeText(t.Fun) == "lex.ungetCnt" || nodeText(t.Fun) == "lex.ungetStr" {
						ti.unget = true
					}
					if nodeText(t.Fun) == "lex.addFreeFloatingToken" && len(t.Args) == 4 {
						ti.ffs = append(ti.ffs, nodeText(t.Args[1]))
					}
				case *ast.AssignStmt:
					if len(t.Lhs) == 1 && nodeText(t.Lhs[0]) == "tok" && len(t.Rhs) == 1 {
						ti.toks = append(ti.toks, nodeText(t.Rhs[0]))
					}
					if len(t.Lhs) == 1 && (nodeText(t.Lhs[0]) == "(lex.p)" || nodeText(t.Lhs[0]) == "lex.p") && strings.ReplaceAll(nodeText(t.Rhs[0]), " ", "") == "(lex.te)-1" {
						ti.holds = true
					}
					if len(t.Lhs) == 1 && nodeText(t.Lhs[0]) == "lex.te" && strings.ReplaceAll(nodeText(t.Rhs[0]), " ", "") == "(lex.p)+1" {
						ti.teNext = true
					}
				case *ast.IncDecStmt:
					if t.Tok == token.DEC && (nodeText(t.X) == "(lex.p)" || nodeText(t.X) == "lex.p") {
						ti.holds = true
					}
				}
				return true
			})
		}
		if len(sg.stmts) > 0 {
			if br, ok := sg.stmts[len(sg.stmts)-1].(*ast.BranchStmt); ok && br.Tok == token.GOTO {
				ti.next = br.Label.Name
			}
		}
		trs = append(trs, ti)
	}
	sort.Slice(trs, func(i, j int) bool { return trs[i].n < trs[j].n })
	// emit: per state and condition vector, the row as byte intervals (hi, target)
	var b strings.Builder
	b.WriteString("-- GENERATED by gofacts from internal/scanner/scanner.go (transition function of the ragel -G2 scanner). Do not edit.\nimport PhpVerif.Model.ScanDFA\nnamespace PhpVerif.Gen\nopen PhpVerif\n\n")
	var names, namesV0, namesV1 []string
	nrows := 0
	for _, r := range rows {
		for v, tg := range r.targets {
			if v == 0 {
				namesV0 = append(namesV0, fmt.Sprintf("dfaRow_%d_%d", r.state, v))
			}
			if v == len(r.targets)-1 {
				namesV1 = append(namesV1, fmt.Sprintf("dfaRow_%d_%d", r.state, v))
			}
			var iv []string
			for bb := 0; bb < 256; bb++ {
				if bb == 255 || tg[bb+1] != tg[bb] {
					iv = append(iv, fmt.Sprintf("(%d, %d)", bb, tg[bb]))
				}
			}
			var cs []string
			for i, cn := range r.conds {
				val := 0
				if v&(1<<uint(i)) != 0 {
					val = 1
				}
				cs = append(cs, fmt.Sprintf("(%d, %d)", condIDs[cn], val))
			}
			nm := fmt.Sprintf("dfaRow_%d_%d", r.state, v)
			fmt.Fprintf(&b, "def %s : DFARow := { state := %d, conds := [%s], ivs := [%s] }\n", nm, r.state, strings.Join(cs, ", "), strings.Join(iv, ", "))
			names = append(names, nm)
			nrows++
		}
	}
	var groups []string
	for i := 0; i < len(names); i += 48 {
		j := i + 48
		if j > len(names) {
			j = len(names)
		}
		gn := fmt.Sprintf("dfaRows_g%d", i/48)
		fmt.Fprintf(&b, "def %s : List DFARow := [%s]\n", gn, strings.Join(names[i:j], ", "))
		groups = append(groups, gn)
	}
	fmt.Fprintf(&b, "def dfaRows : List DFARow := [%s].flatten\n", strings.Join(groups, ", "))
	for vi, ns := range [][]string{namesV0, namesV1} {
		var gs []string
		for i := 0; i < len(ns); i += 48 {
			j := i + 48
			if j > len(ns) {
				j = len(ns)
			}
			gn := fmt.Sprintf("dfaRowsV%d_g%d", vi, i/48)
			fmt.Fprintf(&b, "def %s : List DFARow := [%s]\n", gn, strings.Join(ns[i:j], ", "))
			gs = append(gs, gn)
		}
		fmt.Fprintf(&b, "/-- one row per state: every `when` condition of the state %s -/\ndef dfaRowsV%d : List DFARow := [%s].flatten\n", []string{"false", "true"}[vi], vi, strings.Join(gs, ", "))
	}
	var trNames []string
	for _, ti := range trs {
		uniq := func(xs []string) string {
			seen := map[int]bool{}
			var out []string
			for _, x := range xs {
				k := tokCode(x)
				if k < 0 {
					c.fail(comp, f.Pos(), "action block tr%d assigns tok = %s, which is not a token constant", ti.n, x)
					continue
				}
				if !seen[k] {
					seen[k] = true
					out = append(out, strconv.Itoa(k))
				}
			}
			return "[" + strings.Join(out, ", ") + "]"
		}
		toks := ti.toks
		var sw []string
		if ti.sw != nil {
			toks = nil
			for _, k := range ti.swOrder {
				sw = append(sw, fmt.Sprintf("(%d, %s)", k, uniq(ti.sw[k])))
			}
		}
		next := 0
		if code, ok := labelCode(ti.next); ok {
			next = code
		}
		act := "none"
		if ti.act >= 0 {
			act = fmt.Sprintf("some %d", ti.act)
		}
		nm := fmt.Sprintf("trInfo_%d", ti.n)
		hold := (ti.holds && !ti.teNext) || ti.unget
		fmt.Fprintf(&b, "def %s : TrInfo := { id := %d, act := %s, emits := %v, toks := %s, sw := [%s], next := %d, ffs := %s, hold := %v }\n", nm, 10000+ti.n, act, ti.emits, uniq(toks), strings.Join(sw, ", "), next, uniq(ti.ffs), hold)
		trNames = append(trNames, nm)
	}
	var trGroups []string
	for i := 0; i < len(trNames); i += 48 {
		j := i + 48
		if j > len(trNames) {
			j = len(trNames)
		}
		gn := fmt.Sprintf("trInfos_g%d", i/48)
		fmt.Fprintf(&b, "def %s : List TrInfo := [%s]\n", gn, strings.Join(trNames[i:j], ", "))
		trGroups = append(trGroups, gn)
	}
	fmt.Fprintf(&b, "def trInfos : List TrInfo := [%s].flatten\n", strings.Join(trGroups, ", "))
	// token names, as numbers (base-256 digits of the name) so that the kernel compares no strings
	var tn []string
	for i, n := range tokOrder {
		code := "0"
		for _, ch := range []byte(n) {
			code = fmt.Sprintf("(%s * 256 + %d)", code, ch)
		}
		_ = code
		tn = append(tn, fmt.Sprintf("(nm! %q, %d)", n, tokNum["token."+n]))
		_ = i
	}
	var tnGroups []string
	for i := 0; i < len(tn); i += 32 {
		j := i + 32
		if j > len(tn) {
			j = len(tn)
		}
		gn := fmt.Sprintf("tokenIds_g%d", i/32)
		fmt.Fprintf(&b, "def %s : List (Nat × Nat) := [%s]\n", gn, strings.Join(tn[i:j], ", "))
		tnGroups = append(tnGroups, gn)
	}
	fmt.Fprintf(&b, "/-- (name as a number, token number) from pkg/token/token.go -/\ndef tokenIds : List (Nat × Nat) := [%s].flatten\n", strings.Join(tnGroups, ", "))
	var nl, holds []string
	for _, t := range trs {
		if t.newline {
			nl = append(nl, strconv.Itoa(10000+t.n))
		}
		if (t.holds && !t.teNext) || t.unget {
			holds = append(holds, strconv.Itoa(10000+t.n))
		}
	}
	var hGroups []string
	for i := 0; i < len(holds); i += 48 {
		j := i + 48
		if j > len(holds) {
			j = len(holds)
		}
		gn := fmt.Sprintf("holdActions_%d", i/48)
		fmt.Fprintf(&b, "def %s : List Nat := [%s]\n", gn, strings.Join(holds[i:j], ", "))
		hGroups = append(hGroups, gn)
	}
	fmt.Fprintf(&b, "/-- action blocks that move p back: the byte that led to them is read again -/\ndef holdActions : List Nat := [%s].flatten\n", strings.Join(hGroups, ", "))
	var nlGroups []string
	for i := 0; i < len(nl); i += 48 {
		j := i + 48
		if j > len(nl) {
			j = len(nl)
		}
		gn := fmt.Sprintf("newlineActions_%d", i/48)
		fmt.Fprintf(&b, "def %s : List Nat := [%s]\n", gn, strings.Join(nl[i:j], ", "))
		nlGroups = append(nlGroups, gn)
	}
	fmt.Fprintf(&b, "/-- action blocks that run the new_line action -/\ndef newlineActions : List Nat := [%s].flatten\n", strings.Join(nlGroups, ", "))
	b.WriteString("\nend PhpVerif.Gen\n")
	writeIfChanged(filepath.Join(c.out, "ScanDFA.lean"), b.String())
	genScanCode(c, segs, tokCode, lexFn)
	// side data for the runner / evidence
	nstates := len(rows)
	c.side["scandfa"] = map[string]interface{}{"states": nstates, "rows": nrows, "conditions": condNames, "action_blocks": len(trs), "newline_action_blocks": len(nl)}
	// diagnostics that the design of the Lean facts rests on
	var ciViol, nlViol []string
	for _, r := range rows {
		for v, tg := range r.targets {
			for k := 0; k < 26; k++ {
				if tg[65+k] != tg[97+k] {
					ciViol = append(ciViol, fmt.Sprintf("state %d vec %d letter %c: %d vs %d", r.state, v, 'A'+k, tg[65+k], tg[97+k]))
					break
				}
			}
			for _, ch := range []int{10, 13} {
				t := tg[ch]
				isNL := false
				for _, x := range nl {
					if x == strconv.Itoa(t) {
						isNL = true
					}
				}
				for _, x := range holds {
					if x == strconv.Itoa(t) {
						isNL = true
					}
				}
				if !isNL && t != 0 {
					nlViol = append(nlViol, fmt.Sprintf("state %d vec %d byte %d -> %d", r.state, v, ch, t))
				}
			}
		}
	}
	c.side["scandfa_case_sensitive"] = ciViol
	c.side["scandfa_newline_without_action"] = nlViol
}
