import PhpVerif.Model.Pool
import PhpVerif.Model.Version
import PhpVerif.Gen.VersionFacts
import PhpVerif.Model.NewLines
import PhpVerif.Model.Glue
import PhpVerif.Spec.NameRes
import PhpVerif.Spec.Precedence
import PhpVerif.Model.Pratt
import PhpVerif.Model.Render
import PhpVerif.Props.C15
import PhpVerif.Props.C16
import PhpVerif.Gen.FmtCode
import PhpVerif.Model.Roundtrip
import PhpVerif.Gen.ResolverCode
import PhpVerif.Gen.TraverserTab
import PhpVerif.Gen.Tables7
import PhpVerif.Gen.Tables5
import PhpVerif.Gen.Terms7
import PhpVerif.Gen.Terms5
import PhpVerif.Gen.Builder
import PhpVerif.Model.Scan
import PhpVerif.Gen.ScanDFA
import PhpVerif.Gen.ScanCode
import PhpVerif.Model.Pipeline
/-
Line-protocol driver: runs the executable model definitions on the operations the Go harness
also runs on the real code.  One request per line, one answer per line.  Core only (no Mathlib)
so that it links as an executable.
-/
open PhpVerif

def hexVal (c : Char) : Nat :=
  if '0' ≤ c ∧ c ≤ '9' then c.toNat - 48 else if 'a' ≤ c ∧ c ≤ 'f' then c.toNat - 87 else 0

def unhex (s : String) : Bytes :=
  let rec go : List Char → Bytes
    | a :: b :: r => UInt8.ofNat (hexVal a * 16 + hexVal b) :: go r
    | _ => []
  if s == "-" then [] else go s.toList

def optStr : Option String → String
  | some s => s
  | none => "none"

def cellTrace (rs : List (Option Cell)) : String :=
  String.join (rs.map (fun r => match r with
    | none => "nil"
    | some c => s!"{c.1}:{c.2};"))

def cmpStr (i : Int) : String := toString i

def parseNats (s : String) : List Nat :=
  if s == "-" then [] else (s.splitOn ",").filterMap (·.toNat?)

def natsStr (l : List Nat) : String :=
  if l.isEmpty then "-" else ",".intercalate (l.map toString)

def faultStr : Glue.Fault → String
  | .index => "fault:index"
  | .slice => "fault:slice"

def rBool (r : Glue.R Bool) : String :=
  match r with
  | .ok b => toString b
  | .error f => faultStr f

def parseInt (s : String) : Option Int :=
  if s.startsWith "-" then (s.drop 1).toString.toNat?.map (fun n => -(n : Int)) else s.toNat?.map (fun n => (n : Int))

def intsStr (l : List Int) : String :=
  if l.isEmpty then "-" else ",".intercalate (l.map toString)

/-- call-stack ops: `c<state>:<fnext>` and `r<n>` separated by `;` -/
def parseStackOps (s : String) : List Glue.StackOp :=
  (s.splitOn ";").filterMap (fun w =>
    if w.startsWith "c" then
      match (w.drop 1).toString.splitOn ":" with
      | [a, b] => match parseInt a, parseInt b with
        | some a, some b => some (Glue.StackOp.call a b)
        | _, _ => none
      | _ => none
    else if w.startsWith "r" then (w.drop 1).toString.toNat?.map Glue.StackOp.ret
    else none)

def hexDigit (n : Nat) : Char := if n < 10 then Char.ofNat (48 + n) else Char.ofNat (87 + n)

def toHex (b : Bytes) : String :=
  if b.isEmpty then "-" else String.ofList (b.flatMap (fun x => [hexDigit (x.toNat / 16), hexDigit (x.toNat % 16)]))

def parseKind (c : String) : Option Nsr.AKind :=
  if c == "c" then some .cls else if c == "f" then some .fn else if c == "k" then some .cst else none

def parseHist (h : String) : List Nsr.UseDecl :=
  if h == "-" then [] else (h.splitOn ";").filterMap (fun w =>
    match w.splitOn ":" with
    | [k, t, a] => (parseKind k).map (fun k => { kind := k, target := unhex t, alias := unhex a })
    | _ => none)

def parseRef (q : String) : Option (Nsr.NameRef × Nsr.AKind) :=
  match q.splitOn ":" with
  | [fk, parts] =>
    let ps := if parts == "-" then [] else (parts.splitOn ",").map unhex
    let form := (fk.take 1).toString
    match parseKind (fk.drop 1).toString with
    | some k =>
      if form == "q" then some (.fq ps, k) else if form == "r" then some (.rel ps, k) else if form == "p" then some (.plain ps, k) else none
    | none => none
  | _ => none

/-! tree encoding of the `print` op (comma separated words):
  tree  := N kind nfields field*
  field := _ | t0 | t1 tok | T n tok* | v0 | v1 hex | k0 | k1 tree | l0 | l1 n tree*
  tok   := nff hex* hex          hex := x<hexdigits>                                   -/
structure Fields where
  toks : List (List Tok) := []
  vals : List (Option Bytes) := []
  kids : List (List Tree) := []
  nn : List Bool := []

def Fields.push (f : Fields) (t : List Tok) (v : Option Bytes) (k : List Tree) (n : Bool) : Fields :=
  { toks := f.toks ++ [t], vals := f.vals ++ [v], kids := f.kids ++ [k], nn := f.nn ++ [n] }

def pHex (s : String) : Option Bytes :=
  if s.startsWith "x" then some (unhex (s.drop 1).toString) else none

def pHexes : Nat → List String → Option (List Bytes × List String)
  | 0, r => some ([], r)
  | n + 1, w :: r => do
      let b ← pHex w
      let (bs, r') ← pHexes n r
      pure (b :: bs, r')
  | _, [] => none

/-- position word: `p-` (nil) or `p<startLine>:<endLine>:<startPos>:<endPos>` -/
def pPos (w : String) : Option (Option Pos) :=
  if w == "p-" then some none
  else if w.startsWith "p" then
    match ((w.drop 1).toString.splitOn ":").map String.toInt? with
    | [some a, some b, some c, some d] => some (some { startLine := a, endLine := b, startPos := c, endPos := d })
    | _ => none
  else none

/-- with ids: every hex word is preceded by the decimal token id and followed by the position word -/
def pIdHexes : Nat → List String → Option (List FF × List String)
  | 0, r => some ([], r)
  | n + 1, i :: w :: pw :: r => do
      let i ← i.toNat?
      let b ← pHex w
      let ps ← pPos pw
      let (bs, r') ← pIdHexes n r
      pure ({ id := i, val := b, pos := ps } :: bs, r')
  | _, _ => none

def pTok (ids : Bool) : List String → Option (Tok × List String)
  | n :: r => do
      let n ← n.toNat?
      if ids then
        let (ffs, r1) ← pIdHexes n r
        match r1 with
        | i :: v :: pw :: r2 => do
            let i ← i.toNat?
            let v ← pHex v
            let ps ← pPos pw
            pure ({ uid := 0, id := i, val := v, ff := ffs, pos := ps }, r2)
        | _ => none
      else
        let (ffs, r1) ← pHexes n r
        match r1 with
        | v :: r2 => do
            let v ← pHex v
            pure ({ uid := 0, id := 0, val := v, ff := ffs.map (fun b => { id := 0, val := b }) }, r2)
        | [] => none
  | [] => none

def pToks (ids : Bool) : Nat → List String → Option (List Tok × List String)
  | 0, r => some ([], r)
  | n + 1, r => do
      let (t, r1) ← pTok ids r
      let (ts, r2) ← pToks ids n r1
      pure (t :: ts, r2)

mutual
partial def pTree (ids : Bool) : List String → Option (Tree × List String)
  | "N" :: k :: nf :: r => do
      let k ← k.toNat?
      let nf ← nf.toNat?
      -- with ids the node's position word follows
      let (ps, r0) ← (if ids then (match r with
        | pw :: r' => (pPos pw).map (fun p => (p, r'))
        | [] => none) else some (none, r))
      let (fs, r1) ← pFields ids nf {} r0
      pure (.mk k 0 ps fs.toks fs.vals fs.kids fs.nn, r1)
  | _ => none
partial def pFields (ids : Bool) : Nat → Fields → List String → Option (Fields × List String)
  | 0, acc, r => some (acc, r)
  | n + 1, acc, w :: r =>
      match w with
      | "_" => pFields ids n (acc.push [] none [] false) r
      | "t0" => pFields ids n (acc.push [] none [] false) r
      | "Tn" => pFields ids n (acc.push [] none [] false) r      -- nil token slice
      | "t1" => do
          let (t, r1) ← pTok ids r
          pFields ids n (acc.push [t] none [] false) r1
      | "T" => match r with
          | c :: r0 => do
              let c ← c.toNat?
              let (ts, r1) ← pToks ids c r0
              pFields ids n (acc.push ts none [] true) r1
          | [] => none
      | "v0" => pFields ids n (acc.push [] none [] false) r
      | "v1" => match r with
          | h :: r0 => do
              let b ← pHex h
              pFields ids n (acc.push [] (some b) [] false) r0
          | [] => none
      | "k0" => pFields ids n (acc.push [] none [] false) r
      | "k1" => do
          let (t, r1) ← pTree ids r
          pFields ids n (acc.push [] none [t] true) r1
      | "l0" => pFields ids n (acc.push [] none [] false) r
      | "l1" => match r with
          | c :: r0 => do
              let c ← c.toNat?
              let (ts, r1) ← pTrees ids c r0
              pFields ids n (acc.push [] none ts true) r1
          | [] => none
      | _ => none
  | _, _, [] => none
partial def pTrees (ids : Bool) : Nat → List String → Option (List Tree × List String)
  | 0, r => some ([], r)
  | n + 1, r => do
      let (t, r1) ← pTree ids r
      let (ts, r2) ← pTrees ids n r1
      pure (t :: ts, r2)
end

/-! `format <tree with ids>`: the formatter model on a tree, answered as a dump of every token of the
  formatted tree followed by the bytes the printer model makes of it; `panic` where Go panics. -/
def fmtProgArr : Array (List Fmt.FI) := Gen.fmtProgs.toArray
def fmtCfg : Fmt.FCfg :=
  { prog := fun k => fmtProgArr.getD k [], htmlKind := Gen.fmtHtmlKind, nopKind := Gen.fmtNopKind,
    nopFields := Gen.fmtNopFields, nopSemi := Gen.fmtNopSemi, tWs := Gen.fmtTWs, tOpenTag := Gen.fmtTOpenTag, tInc := Gen.fmtTInc, tDec := Gen.fmtTDec }

def hexOr (b : Bytes) : String := if b.isEmpty then "-" else toHex b

def dumpTok (t : Tok) : String :=
  "[" ++ toString t.id ++ ":" ++ hexOr t.val ++ "|" ++ String.join (t.ff.map (fun f => "<" ++ toString f.id ++ ":" ++ hexOr f.val ++ ">")) ++ "]"

partial def dumpTree : Tree → String
  | .mk k _ _ toks _ kids _ =>
    let n := max toks.length kids.length
    let fields := (List.range n).filterMap (fun i =>
      let ts := fieldAt toks i
      let ks := fieldAt kids i
      if !ts.isEmpty then some (toString i ++ "t" ++ String.join (ts.map dumpTok))
      else if !ks.isEmpty then some (toString i ++ "k" ++ String.join (ks.map dumpTree))
      else none)
    "N" ++ toString k ++ "(" ++ ";".intercalate fields ++ ")"

/-! `nsrtree <tree>`: the resolver model on a whole tree: the final map as `path=hex` entries sorted by path. -/
def resProgArr : Array (List NsrT.RI) := Gen.resProgs.toArray
def travArr : Array (List Nat) := Gen.travTab.toArray
def rn (i : Nat) : Nat := Gen.resNums.getD i 0
def resCfg : NsrT.RCfg :=
  { prog := fun k => resProgArr.getD k [], trav := fun k => travArr.getD k [],
    kName := rn 0, kFQ := rn 1, kRel := rn 2, kPart := rn 3, kIdent := rn 4, kParam := rn 5, kNullable := rn 6, kUse := rn 7,
    kConst := rn 8, kPrec := rn 9, kAlias := rn 10,
    nameParts := rn 11, fqParts := rn 12, relParts := rn 13, partVal := rn 14, identVal := rn 15, paramType := rn 16, nullableExpr := rn 17,
    useType := rn 18, useUse := rn 19, useAlias := rn 20, constName := rn 21, precTrait := rn 22, precInstead := rn 23, aliasTrait := rn 24 }

def pathStr (p : NsrT.Path) : String := "/".intercalate (p.map (fun x => toString x.1 ++ "." ++ toString x.2))

def runNsrTree (t : Tree) : String :=
  match NsrT.resolveTree resCfg t with
  | none => "panic"
  | some out =>
    let m := (NsrT.finalMap out).map (fun e => (pathStr e.1, toHex e.2))
    let sorted := m.toArray.qsort (fun a b => a.1 < b.1)
    if sorted.isEmpty then "-" else ";".intercalate (sorted.toList.map (fun e => e.1 ++ "=" ++ e.2))

/-! `dump <t><p> <tree with ids and positions>`: the dumper model's event list (t / p = with tokens / positions) -/
def dumpCfgReal : DumpCfg := C16.realCfg Gen.dumpLblFF Gen.dumpLblID

def evStr : DEv → String
  | .openNode k => "O" ++ toString k
  | .close => "C"
  | .label l => "L" ++ toString l
  | .posv p => "P" ++ toString p.startLine ++ "," ++ toString p.endLine ++ "," ++ toString p.startPos ++ "," ++ toString p.endPos
  | .tokOpen => "T"
  | .tokId id => "I" ++ toString id
  | .valv b => "V" ++ toHex b
  | .listOpen isTok => if isTok then "LO1" else "LO0"
  | .emptyList isTok => if isTok then "E1" else "E0"

/-! `traverse <tree>`: every node gets its index in declaration-order preorder as uid; answered is the order in
  which the traverser model (`traverse` over the regenerated table) presents them. -/
mutual
partial def relabel : Tree → Nat → Tree × Nat
  | .mk k _ p toks vals kids nn, n =>
    let (kids', n') := relabelSlots kids (n + 1)
    (.mk k n p toks vals kids' nn, n')
partial def relabelSlots : List (List Tree) → Nat → List (List Tree) × Nat
  | [], n => ([], n)
  | f :: fs, n =>
    let (f', n1) := relabelForest f n
    let (fs', n2) := relabelSlots fs n1
    (f' :: fs', n2)
partial def relabelForest : List Tree → Nat → List Tree × Nat
  | [], n => ([], n)
  | t :: ts, n =>
    let (t', n1) := relabel t n
    let (ts', n2) := relabelForest ts n1
    (t' :: ts', n2)
end

def litBytes (id : Nat) : Bytes :=
  match Gen.printerLits.find? (·.1 == id) with
  | some (_, b) => b.map (fun n => UInt8.ofNat n)
  | none => []

/-! `yy <5|7> <chars>`: run the goyacc driver model on a sequence of external token numbers and print its
    moves in the vocabulary of goyacc's debug trace -/
def yyEvStr (t : YYTab) : YYEv → String
  | .shift _ _ => ""
  | .reduce p st => s!"r{p}:{st}"
  | .saw st tk =>
    match yyExpected t st with
    | .ok none => s!"w{st}:{tk}:-"
    | .ok (some l) => s!"w{st}:{tk}:e" ++ "+".intercalate (l.map toString)
    | .error _ => s!"w{st}:{tk}:fault"
  | .pop st => s!"p{st}"
  | .errShift _ => ""
  | .discard tk => s!"d{tk}"
  | .accept => "A"
  | .abort => "B"

def yyFaultStr : YYFault → String
  | .index tb i => s!"fault:index:{tb}:{i}"
  | .underflow => "fault:underflow"
  | .sem m => s!"fault:sem:{m}"

def runYY (t : YYTab) (chars : List Nat) : String :=
  let input := chars.toArray
  match yyRun t unitSem input (64 * (chars.length + 16) + 1024) (yyInit unitSem ()) with
  | .error f => yyFaultStr f
  | .ok (none, _) => "fuel"
  | .ok (some c, s) => s!"{c} " ++ " ".intercalate ((s.trace.reverse.map (yyEvStr t)).filter (· ≠ ""))

/-! `parse <5|7> <tokens>`: the whole-parser model on a token stream.  Token entries are separated by `;`:
    `id:sl:el:sp:ep[:hexvalue]`, or `id:-` for a token without position (the end token). -/
def pathTable7 : PathTable := mkPathTable Gen.terms7
def pathTable5 : PathTable := mkPathTable Gen.terms5

def parseTokInfo (w : String) : Option TokInfo :=
  match w.splitOn ":" with
  | [id, "-"] => id.toNat?.map (fun i => { id := i, pos := none })
  | [id, a, b, c, d] =>
    match id.toNat?, parseInt a, parseInt b, parseInt c, parseInt d with
    | some i, some a, some b, some c, some d => some { id := i, pos := some (a, b, c, d) }
    | _, _, _, _, _ => none
  | [id, a, b, c, d, h] =>
    match id.toNat?, parseInt a, parseInt b, parseInt c, parseInt d with
    | some i, some a, some b, some c, some d => some { id := i, pos := some (a, b, c, d), val := some ((unhex h).map (·.toNat)) }
    | _, _, _, _, _ => none
  | _ => none

def natsHex (l : List Nat) : String :=
  if l.isEmpty then "-" else String.ofList (l.flatMap (fun x => [hexDigit (x / 16), hexDigit (x % 16)]))

mutual
/-- positions are written out with the numbers of the tokens they refer to -/
partial def vStr (toks : Array TokInfo) : V → String
  | .nil => "_"
  | .tok i => s!"t{i}"
  | .pos s e =>
    let (sl, sp) := s.startOf toks
    let (el, ep) := e.endOf toks
    s!"p{sl}:{el}:{sp}:{ep}"
  | .node k _ fs => s!"N{k}(" ++ ",".intercalate (vStrs toks fs) ++ ")"
  | .list xs => "[" ++ ",".intercalate (vStrs toks xs) ++ "]"
  | .bytes pre i => s!"b{natsHex pre}+{i}"
  | .bad => "!"
partial def vStrs (toks : Array TokInfo) : List V → List String
  | [] => []
  | x :: r => vStr toks x :: vStrs toks r
end

def runParse (t : YYTab) (tbl : PathTable) (ws : String) : String :=
  let entries := if ws == "-" then [] else ws.splitOn ";"
  match entries.mapM parseTokInfo with
  | none => "bad-op"
  | some toks =>
    match parseTokens t Gen.posCombs tbl toks.toArray with
    | .error f => yyFaultStr f
    | .ok (none, _) => "fuel"
    | .ok (some c, s) =>
      let root := match s.aux.root with
        | some r => vStr toks.toArray r
        | none => "_"
      s!"{c} {s.aux.reports} {root}"

/-! `scan <0|1> <hex>`: the executable scanner model on a source (flag: version >= 7.3) -/
def scanProg : ScanProg :=
  mkScanProg Gen.dfaRows Gen.scanTrs Gen.scanEof Gen.scanToState Gen.scanToStateAct Gen.scanFromState

def ffStr (f : FFTok) : String := s!"{f.id}:{f.sp}:{f.ep}:{f.sl}:{f.el}"

def tokOutStr (t : TokOut) : String :=
  let pos := match t.pos with
    | some (sl, el, sp, ep) => s!"{sl}:{el}:{sp}:{ep}"
    | none => "-"
  s!"{t.id},{t.ts},{t.te},{pos}|" ++ "+".intercalate (t.ffs.map ffStr)

def runScan (ge73 : Bool) (src : Bytes) : String :=
  let d := src.toArray
  let s0 := initLex d ge73 113
  let (s, toks) := lexAllModel d scanProg (src.length + 16) s0 []
  let errs := "+".intercalate (s.errs.map (fun e => s!"{e.1}:{e.2.1}:{e.2.2.1}:{e.2.2.2.1}:{e.2.2.2.2}"))
  let fault := match s.fault with
    | some m => "fault:" ++ m.replace " " "_"
    | none => "-"
  ";".intercalate (toks.map tokOutStr) ++ " E " ++ (if errs.isEmpty then "-" else errs) ++ " N " ++ natsStr s.nl ++ " X " ++ fault

/-! `pparse <5|7> <0|1> <hex>`: the whole pipeline model on source bytes -/
def runPipeline (t : YYTab) (tbl : PathTable) (ge73 : Bool) (src : Bytes) : String :=
  let numString := ((Gen.tokenIds.find? (fun p => p.1 == nm! "T_NUM_STRING")).map (·.2)).getD 0
  let o := parseBytes scanProg t Gen.posCombs tbl numString ge73 src.toArray
  match o.fault with
  | some m => "fault:" ++ m.replace " " "_"
  | none =>
    let root := match o.root with
      | some r => vStr o.infos r
      | none => "_"
    let offs := ",".intercalate (o.toks.map (fun t => s!"{t.id}:{t.ts}:{t.te}"))
    s!"{(o.code.getD 9)} {o.semErrors} {o.lexErrors} {root} {offs}"

/-! `roundtrip <5|7> <0|1> <hex>`: parse then print inside the model: the printed bytes, `-` when no tree is
  returned, `!` when the returned value is not a well-formed tree -/
def schemaArr : Array (List Nat) := Gen.schemaSorts.toArray

def runRoundtrip (t : YYTab) (tbl : PathTable) (ge73 : Bool) (src : Bytes) : String :=
  let numString := ((Gen.tokenIds.find? (fun p => p.1 == nm! "T_NUM_STRING")).map (·.2)).getD 0
  let d := src.toArray
  let o := parseBytes scanProg t Gen.posCombs tbl numString ge73 d
  match o.fault, o.root with
  | some m, _ => "fault:" ++ m.replace " " "_"
  | none, none => "-"
  | none, some r =>
    match r.toTree (fun k => schemaArr.getD k []) ((o.toks.map (tokOfOut d)).toArray) with
    | none => "!"
    | some tr => "x" ++ toHex (render litBytes (chunks C15.realCfg false tr))

def handle (ws : List String) : String :=
  match ws with
  | ["pool", bs, n] =>
    match bs.toNat?, n.toNat? with
    | some bs, some n => cellTrace ((Pool.new bs).gets n)
    | _, _ => "bad-op"
  | ["vercmp", a, b, c, d] =>
    match a.toNat?, b.toNat?, c.toNat?, d.toNat? with
    | some a, some b, some c, some d => cmpStr ((Version.mk a b).compare ⟨c, d⟩)
    | _, _, _, _ => "bad-op"
  | ["vervalidate", a, b] =>
    match a.toNat?, b.toNat? with
    | some a, some b => if (Version.mk a b).validate Gen.versionRanges then "ok" else "unsupported"
    | _, _ => "bad-op"
  | ["verdispatch", a, b] =>
    match a.toNat?, b.toNat? with
    | some a, some b =>
      match dispatch Gen.parserRanges (some ⟨a, b⟩) with
      | .php5 => "php5" | .php7 => "php7" | .outOfRange => "out-of-range"
    | _, _ => "bad-op"
  | ["verdispatchnil"] =>
      match dispatch Gen.parserRanges none with
      | .php5 => "php5" | .php7 => "php7" | .outOfRange => "out-of-range"
  | ["vernew", h] =>
    match Version.new (unhex h) with
    | some v => s!"ok {v.major} {v.minor}"
    | none => "err"
  | ["verge73", a, b] =>
    match a.toNat?, b.toNat? with
    | some a, some b => toString ((Version.mk a b).greaterOrEqual ⟨7, 3⟩)
    | _, _ => "bad-op"
  | ["notStringVar", h, p] =>
    match parseInt p with
    | some p => rBool (Glue.isNotStringVar (unhex h) p)
    | none => "bad-op"
  | ["notStringEnd", h, p, c] =>
    match parseInt p, c.toNat? with
    | some p, some c => rBool (Glue.isNotStringEnd (unhex h) p (UInt8.ofNat c))
    | _, _ => "bad-op"
  | ["notPhpClose", h, p] =>
    match parseInt p with
    | some p => rBool (Glue.isNotPhpCloseToken (unhex h) p)
    | none => "bad-op"
  | ["notNewLine", h, p] =>
    match parseInt p with
    | some p => rBool (Glue.isNotNewLine (unhex h) p)
    | none => "bad-op"
  | ["hdBefore", h, p, l] =>
    match parseInt p with
    | some p => rBool (Glue.isHeredocEndBefore73 (unhex h) p (unhex l))
    | none => "bad-op"
  | ["hdSince", h, p, l] =>
    match parseInt p with
    | some p =>
      match Glue.isHeredocEndSince73 (unhex h) p (unhex l) with
      | .ok (b, some q) => s!"{b} {q}"
      | .ok (b, none) => s!"{b}"
      | .error f => faultStr f
    | none => "bad-op"
  | ["varStart", c] =>
    match c.toNat? with
    | some c => toString (Glue.isValidVarNameStart (UInt8.ofNat c))
    | none => "bad-op"
  | ["varName", c] =>
    match c.toNat? with
    | some c => toString (Glue.isValidVarName (UInt8.ofNat c))
    | none => "bad-op"
  | ["callstack", ops] =>
    match Glue.runOps (parseStackOps ops) { stack := [], top := 0, cs := 100, p := 0 } with
    | .ok s => s!"{s.top} {s.cs} {s.p} {intsStr s.stack}"
    | .error f => faultStr f
  | "climb" :: "7" :: ws => Pratt.climb Spec.phpPrec74 ws
  | "climb" :: "5" :: ws => Pratt.climb Spec.phpPrec56 ws
  | ["nsr", nsn, hist, q] =>
    match parseRef q with
    | some (r, k) => toHex (((Nsr.Ns.new (unhex nsn)).run (parseHist hist)).resolve r k)
    | none => "bad-op"
  | ["nsrspec", nsn, hist, q] =>
    match parseRef q with
    | some (r, k) => toHex (Spec.phpResolve (unhex nsn) (parseHist hist) r k)
    | none => "bad-op"
  | ["nsrdecl", nsn, x] => toHex (Spec.withNs (unhex nsn) (unhex x))
  | ["nlappend", ds, p] =>
    match p.toNat? with
    | some p => natsStr (NL.append (parseNats ds) p)
    | none => "bad-op"
  | ["nlgetline", ds, p] =>
    match p.toNat? with
    | some p => toString (NL.getLine (parseNats ds) p)
    | none => "bad-op"
  | ["nlstarts", h, m] =>
    match m.toNat? with
    | some m => natsStr (NL.lineStarts (unhex h) m)
    | none => "bad-op"
  | ["dump", o, enc] =>
    match pTree true (enc.splitOn ",") with
    | some (t, []) =>
      let opts : DumpOpts := { withTokens := (o.take 1).toString == "1", withPositions := (o.drop 1).toString == "1" }
      " ".intercalate ((dump dumpCfgReal opts t).map evStr)
    | _ => "bad-op"
  | ["traverse", enc] =>
    match pTree false (enc.splitOn ",") with
    | some (t, []) => natsStr (traverse (fun k => travArr.getD k []) (relabel t 0).1)
    | _ => "bad-op"
  | ["nsrtree", enc] =>
    match pTree false (enc.splitOn ",") with
    | some (t, []) => runNsrTree t
    | _ => "bad-op"
  | ["format", enc] =>
    match pTree true (enc.splitOn ",") with
    | some (t, []) =>
      (match Fmt.format fmtCfg t with
       | some t' => dumpTree t' ++ " x" ++ hexOr (render litBytes (chunks C15.realCfg false t'))
       | none => "panic")
    | _ => "bad-op"
  | ["print", enc] =>
    match pTree false (enc.splitOn ",") with
    | some (t, []) => "x" ++ toHex (render litBytes (chunks C15.realCfg false t))
    | _ => "bad-op"
  | ["roundtrip", "7", f, h] => runRoundtrip Gen.tables7 pathTable7 (f == "1") (unhex h)
  | ["roundtrip", "5", f, h] => runRoundtrip Gen.tables5 pathTable5 (f == "1") (unhex h)
  | ["pparse", "7", f, h] => runPipeline Gen.tables7 pathTable7 (f == "1") (unhex h)
  | ["pparse", "5", f, h] => runPipeline Gen.tables5 pathTable5 (f == "1") (unhex h)
  | ["scan", f, h] => runScan (f == "1") (unhex h)
  | ["parse", "7", ts] => runParse Gen.tables7 pathTable7 ts
  | ["parse", "5", ts] => runParse Gen.tables5 pathTable5 ts
  | ["yy", "7", cs] => runYY Gen.tables7 (parseNats cs)
  | ["yy", "5", cs] => runYY Gen.tables5 (parseNats cs)
  | ["nlscan", h, ps] => natsStr (NL.scan (unhex h) (parseNats ps))
  | _ => "bad-op"

partial def loop (h : IO.FS.Stream) (out : IO.FS.Stream) : IO Unit := do
  let line ← h.getLine
  if line.isEmpty then return ()
  let ws := (line.trimAscii.toString.splitOn " ").filter (· ≠ "")
  out.putStrLn (handle ws)
  loop h out

def main : IO Unit := do
  let out ← IO.getStdout
  loop (← IO.getStdin) out
  out.flush
