/-
M-POOL: pkg/token/pool.go and pkg/position/pool.go (identical up to the element type).

  func NewPool(blockSize int) *Pool { return &Pool{block: make([]T, blockSize)} }
  func (p *Pool) Get() *T {
      if len(p.block) == 0 { return nil }
      if len(p.block) == p.off { p.block = make([]T, len(p.block)); p.off = 0 }
      p.off++
      return &p.block[p.off-1]
  }

A pointer `&block[i]` is modelled as the cell `(ordinal of the block allocation, i)`;
two Go pointers are equal iff the cells are equal (distinct `make` results do not alias).
-/
namespace PhpVerif

structure Pool where
  len : Nat      -- len(p.block)
  off : Nat      -- p.off
  blk : Nat      -- ordinal of the current block allocation
  deriving Repr, DecidableEq

abbrev Cell := Nat × Nat

def Pool.new (blockSize : Nat) : Pool := ⟨blockSize, 0, 0⟩

def Pool.get (p : Pool) : Option Cell × Pool :=
  if p.len = 0 then (none, p)
  else
    let q : Pool := if p.len = p.off then { p with blk := p.blk + 1, off := 0 } else p
    (some (q.blk, q.off), { q with off := q.off + 1 })

/-- the results of `n` successive `Get` calls -/
def Pool.gets : Pool → Nat → List (Option Cell)
  | _, 0 => []
  | p, n+1 => (p.get).1 :: Pool.gets (p.get).2 n

end PhpVerif
