import PhpVerif.Model.YY
/-
M-TERM: the grammar actions of both generated parsers as executable terms, and the values they build.

gofacts (tools/gofacts/terms.go) runs every `case N:` of `switch yynt` symbolically and emits one
`TPath` per control-flow path: the branch conditions, the node literals (every field, in struct order,
field 0 = Position), the stores into already existing nodes, the returned value.  `runPath` is the
meaning of a path; `treeSem` plugs the paths into the driver model (Model/YY.lean), so that
`parseModel` is a model of the whole parser from the scanner's token stream to the tree.

Tie: T-gen (paths, position-combinator table) + T-diff `diff-parser` (the tree, the return code and
the number of semantic errors of the model against the real parser on the same token streams).
-/
namespace PhpVerif

/-- a boundary of a position: the start (StartLine, StartPos) resp. the end (EndLine, EndPos) of a token
    of the stream, or the marker -1 / -1.  The builder's getters only ever copy such a pair from a token
    or from the position of a node, so every boundary in a tree is one of these: the model keeps the
    reference and looks the numbers up when the tree is written out (`PRef.startOf`, `PRef.endOf`). -/
inductive PRef where
  | tok (i : Nat)
  | absent
  deriving Repr, Inhabited, DecidableEq

/-- values the parser manipulates -/
inductive V where
  | nil                                    -- Go nil (pointer, interface or slice)
  | tok (i : Nat)                          -- the i-th token of the stream
  | pos (s e : PRef)                       -- *position.Position: where it starts and where it ends
  | node (kind uid : Nat) (fs : List V)    -- a node: struct fields in declaration order (field 0 = Position)
  | list (xs : List V)                     -- a non-nil slice
  | bytes (pre : List Nat) (i : Nat)       -- `pre ++ Value of token i`
  | bad                                    -- Go would have panicked (nil dereference, failed assertion, index)
  deriving Repr, Inhabited

inductive Tm where
  | argAt (k i : Nat)                      -- `$i` as it is after the first k stores of the action (read at that point)
  | arg (i : Nat)                          -- `$i` itself: what the action leaves behind (all stores applied)
  | cur                                    -- yylex.(*Parser).currentToken
  | nil
  | fld (t : Tm) (k : Nat)                 -- t.(*K).F, F the k-th field
  | obj (j : Nat)                          -- the j-th node literal of the path
  | list (xs : List Tm)
  | app (b : Tm) (xs : List Tm)            -- append(b, x₁, …, xₙ)
  | cat (a b : Tm)                         -- append(a, b...)
  | idx0 (t : Tm)                          -- t[0]
  | last (t : Tm)                          -- t[len(t)-1]
  | tail (t : Tm)                          -- t[1:len(t)]
  | init (t : Tm)                          -- t[:len(t)-1]
  | bytes (pre : List Nat) (t : Tm)        -- t.Value, possibly prefixed
  | pos (comb : Nat) (args : List Tm)      -- builder.New…Position(args…)
  /-- php5 member-access fold: `for n in l: if n is a K with (K, f) ∈ tbl { n.f = acc; n.Position = NodesPosition(acc, n); acc = n }` -/
  | chain (acc l : Tm) (tbl : List (Nat × Nat))
  /-- php5 `$$…$a`: `for i from last downto 0: l[i].f = inner; l[i].Position = NodesPosition(l[i], inner); inner = l[i]`; the outermost node -/
  | nest (l inner : Tm) (tbl : List (Nat × Nat))
  deriving Repr, Inhabited

inductive Cond where
  | isNil (t : Tm)
  | lenEq (t : Tm) (n : Nat)
  | kindIs (t : Tm) (k : Nat)
  | atoi (t : Tm)                          -- strconv.Atoi(string(t.Value)) succeeds
  | intOff (t : Tm) (neg : Bool)           -- intOffset(t.Value, neg): no leading zero, not "-0"
  | not (c : Cond)
  | and (a b : Cond)
  | or (a b : Cond)
  deriving Repr, Inhabited

structure ObjLit where
  kind : Nat
  fields : List Tm
  deriving Repr

structure TMut where
  arg : Nat
  path : List Nat
  field : Nat
  val : Tm
  deriving Repr

structure TPath where
  prod : Nat
  path : Nat
  n : Nat
  status : Nat                -- 0 translated, 2 outside the translated fragment
  reports : Nat               -- semantic errors the path reports
  conds : List Cond
  objs : List ObjLit
  muts : List TMut
  ret : Option Tm
  root : Option Tm
  deriving Repr

structure PosComb where
  startSort : Nat
  startArg : Nat
  endSort : Nat
  endArg : Nat
  optArg : Option Nat         -- `if args[optArg] == nil` selects the opt* pair
  optStartSort : Nat
  optStartArg : Nat
  optEndSort : Nat
  optEndArg : Nat
  deriving Repr

structure TokInfo where
  id : Nat
  pos : Option (Int × Int × Int × Int)     -- StartLine, EndLine, StartPos, EndPos; none for the end token
  val : Option (List Nat) := none          -- the token's bytes, supplied for T_NUM_STRING only
  deriving Repr, Inhabited

/-- all the parser ever reads of a token: its number, whether it carries a position, and (T_NUM_STRING) its
    digits.  Line and offset numbers are not in here: the actions cannot branch on them. -/
structure TokKey where
  id : Nat
  hasPos : Bool
  val : Option (List Nat) := none
  deriving Repr, Inhabited, DecidableEq

def TokInfo.key (ti : TokInfo) : TokKey := { id := ti.id, hasPos := ti.pos.isSome, val := ti.val }

/-- the numbers behind a boundary -/
def PRef.startOf (toks : Array TokInfo) : PRef → Int × Int
  | .absent => (-1, -1)
  | .tok i => match toks[i]? with
    | some ti => (match ti.pos with
      | some p => (p.1, p.2.2.1)
      | none => (-1, -1))
    | none => (-1, -1)
def PRef.endOf (toks : Array TokInfo) : PRef → Int × Int
  | .absent => (-1, -1)
  | .tok i => match toks[i]? with
    | some ti => (match ti.pos with
      | some p => (p.2.1, p.2.2.2)
      | none => (-1, -1))
    | none => (-1, -1)

/-- `strconv.Atoi` succeeds: optional sign, at least one digit, only digits, fits int64 -/
def atoiOk (b : List Nat) : Bool :=
  let (neg, ds) := match b with
    | 43 :: r => (false, r)
    | 45 :: r => (true, r)
    | r => (false, r)
  !ds.isEmpty && ds.all (fun d => 48 ≤ d && d ≤ 57) &&
    (let v := ds.foldl (fun a d => a * 10 + (d - 48)) 0
     if neg then v ≤ 9223372036854775808 else v < 9223372036854775808)

/-- `intOffset` of internal/php{5,7}/parser.go -/
def intOffsetOk (digits : List Nat) (neg : Bool) : Bool :=
  match digits with
  | [d] => !(neg && d == 48)
  | d :: _ :: _ => d != 48
  | [] => true

structure ECtx where
  toks : Array TokKey
  combs : List PosComb
  cur : Option Nat            -- index of `currentToken` (the token lexed last); none before the first `Lex`
  envs : List (List V)        -- envs[k] = the right-hand-side values after the first k stores (envs[0] = as reduced)
  objs : List V

def getArg (l : List V) (i : Nat) : V := if i == 0 then .bad else (l[i - 1]?).getD .bad

def lastEnv : List (List V) → List V
  | [] => []
  | [e] => e
  | _ :: r => lastEnv r

/-- the values after `k` stores; a version that does not exist yet reads the latest one -/
def envAt (envs : List (List V)) (k : Nat) : List V :=
  match envs[k]? with
  | some e => e
  | none => lastEnv envs

/-- getNodeStartPos / getNodeEndPos / getListStartPos / getListEndPos and `t.Position.X`; `none` = Go panics -/
def nodeStart : V → Option PRef
  | .nil => some .absent
  | .node _ _ (.pos s _ :: _) => some s
  | .node _ _ _ => some .absent
  | _ => none
def nodeEnd : V → Option PRef
  | .nil => some .absent
  | .node _ _ (.pos _ e :: _) => some e
  | .node _ _ _ => some .absent
  | _ => none
def lastV : List V → Option V
  | [] => none
  | [x] => some x
  | _ :: r => lastV r
/-- the boundary of a token: the token itself, when it carries a position (Go: `t.Position.StartLine` on a
    nil position panics) -/
def tokRef (toks : Array TokKey) (i : Nat) : Option PRef :=
  match toks[i]? with
  | some k => if k.hasPos then some (.tok i) else none
  | none => none
def startOf (toks : Array TokKey) (sort : Nat) (v : V) : Option PRef :=
  if sort == 1 then
    match v with
    | .tok i => tokRef toks i
    | _ => none
  else if sort == 3 then nodeStart v
  else match v with
    | .nil => some .absent
    | .list [] => some .absent
    | .list (x :: _) => nodeStart x
    | _ => none
def endOf (toks : Array TokKey) (sort : Nat) (v : V) : Option PRef :=
  if sort == 1 then
    match v with
    | .tok i => tokRef toks i
    | _ => none
  else if sort == 3 then nodeEnd v
  else match v with
    | .nil => some .absent
    | .list l => match lastV l with
      | none => some .absent
      | some x => nodeEnd x
    | _ => none

def isNilV : V → Bool
  | .nil => true
  | _ => false

def evalPos (toks : Array TokKey) (combs : List PosComb) (comb : Nat) (args : List V) : V :=
  match combs[comb]? with
  | none => .bad
  | some c =>
    let useOpt := match c.optArg with
      | some a => isNilV ((args[a]?).getD .bad)
      | none => false
    let (ss, sa, es, ea) := if useOpt then (c.optStartSort, c.optStartArg, c.optEndSort, c.optEndArg)
                            else (c.startSort, c.startArg, c.endSort, c.endArg)
    match startOf toks ss ((args[sa]?).getD .bad), endOf toks es ((args[ea]?).getD .bad) with
    | some s, some e => .pos s e
    | _, _ => .bad

def setNth (l : List V) (k : Nat) (x : V) : List V :=
  match l, k with
  | [], _ => []
  | _ :: r, 0 => x :: r
  | a :: r, k + 1 => a :: setNth r k x

def dropLastV : List V → List V
  | [] => []
  | [_] => []
  | a :: r => a :: dropLastV r

/-- one step of the member-access fold -/
def chainStep (toks : Array TokKey) (combs : List PosComb) (tbl : List (Nat × Nat)) (acc n : V) : V :=
  match n with
  | .node k u fs =>
    match tbl.find? (fun r => r.1 == k) with
    | some (_, f) => .node k u (setNth (setNth fs f acc) 0 (evalPos toks combs 3 [acc, n]))
    | none => acc
  | _ => acc

/-- one step of the `$$…` fold (from the innermost outwards) -/
def nestStep (toks : Array TokKey) (combs : List PosComb) (tbl : List (Nat × Nat)) (n inner : V) : V :=
  match n with
  | .node k u fs =>
    match tbl.find? (fun r => r.1 == k) with
    | some (_, f) => .node k u (setNth (setNth fs f inner) 0 (evalPos toks combs 3 [n, inner]))
    | none => .bad      -- the type assertion fails
  | _ => .bad

mutual
def evalTm (c : ECtx) : Tm → V
  | .argAt k i => getArg (envAt c.envs k) i
  | .arg i => getArg (lastEnv c.envs) i
  | .cur => match c.cur with
    | some i => .tok i
    | none => .nil
  | .nil => .nil
  | .fld t k => match evalTm c t with
    | .node _ _ fs => (fs[k]?).getD .bad
    | _ => .bad
  | .obj j => (c.objs[j]?).getD .bad
  | .list xs => .list (evalTms c xs)
  | .app b xs => match xs, evalTm c b with
    | [], v => v
    | _, .nil => .list (evalTms c xs)
    | _, .list l => .list (l ++ evalTms c xs)
    | _, _ => .bad
  | .cat a b => match evalTm c a, evalTm c b with
    | v, .nil => v                          -- nothing appended: the slice itself (nil stays nil)
    | v, .list [] => v
    | .nil, .list l => .list l
    | .list l, .list m => .list (l ++ m)
    | _, _ => .bad
  | .idx0 t => match evalTm c t with
    | .list (x :: _) => x
    | _ => .bad
  | .last t => match evalTm c t with
    | .list l => (lastV l).getD .bad
    | _ => .bad
  | .tail t => match evalTm c t with
    | .list (_ :: r) => .list r
    | _ => .bad
  | .init t => match evalTm c t with
    | .list (x :: r) => .list (dropLastV (x :: r))
    | _ => .bad
  | .bytes pre t => match evalTm c t with
    | .tok i => .bytes pre i
    | _ => .bad
  | .pos comb args => evalPos c.toks c.combs comb (evalTms c args)
  | .chain acc l tbl => match evalTm c l with
    | .nil => evalTm c acc
    | .list xs => xs.foldl (chainStep c.toks c.combs tbl) (evalTm c acc)
    | _ => .bad
  | .nest l inner tbl => match evalTm c l with
    | .list (x :: r) => (x :: r).foldr (nestStep c.toks c.combs tbl) (evalTm c inner)
    | _ => .bad
def evalTms (c : ECtx) : List Tm → List V
  | [] => []
  | t :: ts => evalTm c t :: evalTms c ts
end

def evalCond (c : ECtx) : Cond → Bool
  | .isNil t => isNilV (evalTm c t)
  | .lenEq t n => match evalTm c t with
    | .nil => n == 0
    | .list l => l.length == n
    | _ => false
  | .kindIs t k => match evalTm c t with
    | .node k' _ _ => k == k'
    | _ => false
  | .atoi t => match evalTm c t with
    | .tok i => match c.toks[i]? with
      | some ti => match ti.val with
        | some b => atoiOk b
        | none => false
      | none => false
    | _ => false
  | .intOff t neg => match evalTm c t with
    | .tok i => match c.toks[i]? with
      | some ti => match ti.val with
        | some b => intOffsetOk b neg
        | none => false
      | none => false
    | _ => false
  | .not x => !evalCond c x
  | .and a b => evalCond c a && evalCond c b
  | .or a b => evalCond c a || evalCond c b

def setLastV (l : List V) (x : V) : List V :=
  match l with
  | [] => []
  | [_] => [x]
  | a :: r => a :: setLastV r x

/-- store `x` into field `field` of the node reached from `v` along `path`; a path step is a field number,
    1000000 (first element of a list) or 1000001 (last element) -/
def setPath (v : V) (path : List Nat) (field : Nat) (x : V) : V :=
  match path, v with
  | [], .node k u fs => if field < fs.length then .node k u (setNth fs field x) else .bad
  | p :: ps, .node k u fs =>
    match fs[p]? with
    | some sub => .node k u (setNth fs p (setPath sub ps field x))
    | none => .bad
  | p :: ps, .list (a :: r) =>
    if p == 1000000 then .list (setPath a ps field x :: r)
    else if p == 1000001 then
      match lastV (a :: r) with
      | some z => .list (setLastV (a :: r) (setPath z ps field x))
      | none => .bad
    else .bad
  | _, _ => .bad

structure PathOut where
  ret : Option V
  root : Option V
  uid : Nat

/-- the node literals of a path, in dependency order (children first): literal `j` gets uid `uid0 + j` -/
def evalObjs (c : ECtx) (uid0 : Nat) : List ObjLit → List V → List V
  | [], acc => acc
  | o :: os, acc =>
    let v := V.node o.kind (uid0 + acc.length) (evalTms { c with objs := acc } o.fields)
    evalObjs c uid0 os (acc ++ [v])

/-- the stores of a path, one after the other: every value is computed from the state the stores before it left -/
def runMuts (toks : Array TokKey) (combs : List PosComb) (cur : Option Nat) (uid0 : Nat) (objs : List ObjLit) : List TMut → List (List V) → List (List V)
  | [], envs => envs
  | m :: ms, envs =>
    let c0 : ECtx := { toks := toks, combs := combs, cur := cur, envs := envs, objs := [] }
    let c : ECtx := { c0 with objs := evalObjs c0 uid0 objs [] }
    let env := lastEnv envs
    let x := evalTm c m.val
    let env' := if m.arg == 0 then env else setNth env (m.arg - 1) (setPath (getArg env m.arg) m.path m.field x)
    runMuts toks combs cur uid0 objs ms (envs ++ [env'])

/-- evaluation context of a path after all its stores -/
def pathCtx (toks : Array TokKey) (combs : List PosComb) (p : TPath) (args : List V) (cur : Option Nat) (uid0 : Nat) : ECtx :=
  let envs := runMuts toks combs cur uid0 p.objs p.muts [args]
  let c1 : ECtx := { toks := toks, combs := combs, cur := cur, envs := envs, objs := [] }
  { c1 with objs := evalObjs c1 uid0 p.objs [] }

/-- the meaning of one path on the right-hand-side values `args` -/
def runPath (toks : Array TokKey) (combs : List PosComb) (p : TPath) (args : List V) (cur : Option Nat) (uid0 : Nat) : PathOut :=
  let c := pathCtx toks combs p args cur uid0
  { ret := p.ret.map (evalTm c), root := p.root.map (evalTm c), uid := uid0 + p.objs.length }

/-- a path is the trace of one run through the action: it applies when all its branch conditions, read at
    the points where the action tests them, hold -/
def pathApplies (toks : Array TokKey) (combs : List PosComb) (p : TPath) (args : List V) (cur : Option Nat) : Bool :=
  p.conds.all (evalCond (pathCtx toks combs p args cur 0))

/-- state threaded through the reductions -/
structure TreeSt where
  uid : Nat := 0
  root : Option V := none
  reports : Nat := 0
  deriving Repr, Inhabited

/-- paths grouped by production number: `table[π]` = the paths of production π -/
abbrev PathTable := Array (List TPath)

def mkPathTable (ps : List TPath) : PathTable :=
  let n := ps.foldl (fun m p => max m (p.prod + 1)) 0
  ps.foldl (fun (t : Array (List TPath)) p => t.modify p.prod (fun l => l ++ [p])) (Array.replicate n [])

def reduceTree (toks : Array TokKey) (combs : List PosComb) (tbl : PathTable) (st : TreeSt) (prod : Int) (args : List V)
    (dflt : V) (pos : Nat) : Except String (V × TreeSt) :=
  let cur : Option Nat := if pos == 0 then none else some (pos - 1)
  match (tbl[prod.toNat]?).getD [] with
  | [] => .ok (dflt, st)      -- a production without action: `$$ = $1`
  | ps =>
    match ps.find? (fun p => pathApplies toks combs p args cur) with
    | none => .error s!"no path of production {prod} applies"
    | some p =>
      if p.status != 0 then .error s!"production {prod} path {p.path} is outside the translated fragment"
      else
        let o := runPath toks combs p args cur st.uid
        .ok (o.ret.getD dflt, { uid := o.uid, root := (o.root <|> st.root), reports := st.reports + p.reports })

def treeSem (toks : Array TokKey) (combs : List PosComb) (tbl : PathTable) : YYSem V TreeSt :=
  { zero := .nil, tokVal := fun i => .tok i,
    reduce := fun st prod args dflt pos => reduceTree toks combs tbl st prod args dflt pos }

/-- the whole parser on a token stream: return code, root node, number of semantic errors, moves -/
def parseModel (t : YYTab) (combs : List PosComb) (tbl : PathTable) (toks : Array TokKey) :
    Except YYFault (Option Nat × YYSt V TreeSt) :=
  let sem := treeSem toks combs tbl
  -- the end token (id 0, no position) is the last entry of `toks`; the driver reads ids
  let input := (toks.toList.map (·.id)).toArray
  yyRun t sem input (64 * (toks.size + 16) + 1024) (yyInit sem {})

/-- the parser on the scanner's tokens: everything but the tokens' keys is dropped before the driver and
    the actions run; the line and offset numbers come back only when a position is written out -/
def parseTokens (t : YYTab) (combs : List PosComb) (tbl : PathTable) (toks : Array TokInfo) :
    Except YYFault (Option Nat × YYSt V TreeSt) :=
  parseModel t combs tbl (toks.map TokInfo.key)

end PhpVerif
