import PhpVerif.Model.Tree
/-
M-TRAV: the traverser as a table-driven walk.  `tab k` is the list of child
field numbers of kind `k` in the order the Go method visits them (regenerated
by gofacts from traverser.go).  Go shape modelled:

  func (t *Traverser) K(n *ast.K) { n.Accept(t.v); t.Traverse(n.F1); for _, nn := range n.F2 { nn.Accept(t) } … }
-/
namespace PhpVerif

/-- concatenate the per-field results selected by a table row, in row order -/
def pick {α} (ord : List Nat) (res : List (List α)) : List α :=
  ord.flatMap (fun f => fieldAt res f)

mutual
def traverse (tab : Nat → List Nat) : Tree → List Nat
  | .mk k u _ _ _ kids _ => u :: pick (tab k) (travSlots tab kids)
def travSlots (tab : Nat → List Nat) : List (List Tree) → List (List Nat)
  | [] => []
  | f :: fs => travForest tab f :: travSlots tab fs
def travForest (tab : Nat → List Nat) : List Tree → List Nat
  | [] => []
  | t :: ts => traverse tab t ++ travForest tab ts
end

def isChildSort (s : Nat) : Bool := s == 3 || s == 4

/-- child field numbers of a kind according to the schema (sort 3 = Vertex, 4 = []Vertex) -/
def childIdx (sorts : List Nat) : List Nat :=
  (List.range sorts.length).filter (fun j => isChildSort ((sorts[j]?).getD 0))

/-- agreement of the per-field child lists of a node with the sorts of its kind -/
def kidsOK (sorts : List Nat) (kids : List (List Tree)) : Prop :=
  (∀ j, j < kids.length → isChildSort ((sorts[j]?).getD 0) = false → (fieldAt kids j).isEmpty = true) ∧
  (∀ j, j < kids.length → (sorts[j]?).getD 0 = 3 → (fieldAt kids j).length ≤ 1)

mutual
/-- schema well-formedness of a tree: per-field lists have the schema's length,
    child lists sit only in child fields, single-valued fields hold at most one -/
def Tree.WF (sch : Nat → List Nat) : Tree → Prop
  | .mk k _ _ toks vals kids nn =>
      kids.length = (sch k).length ∧ toks.length = (sch k).length ∧ vals.length = (sch k).length ∧
      nn.length = (sch k).length ∧
      kidsOK (sch k) kids ∧ wfSlots sch kids
def wfSlots (sch : Nat → List Nat) : List (List Tree) → Prop
  | [] => True
  | f :: fs => wfForest sch f ∧ wfSlots sch fs
def wfForest (sch : Nat → List Nat) : List Tree → Prop
  | [] => True
  | t :: ts => t.WF sch ∧ wfForest sch ts
end

end PhpVerif
