/-
M-GLUE: the hand-written lookahead helpers and the scanner call stack of internal/scanner/lexer.go,
with faulting reads: indexing outside the buffer is `Except.error .index` (Go: run-time panic
"index out of range"), never a default value.

  func (lex *Lexer) isNotStringVar() bool {
      p := lex.p
      if lex.data[p-1] == '\\' && lex.data[p-2] != '\\' { return true }
      if len(lex.data) <= p+1 { return true }
      if lex.data[p] == '$' && (lex.data[p+1] == '{' || isValidVarNameStart(lex.data[p+1])) { return false }
      if lex.data[p] == '{' && lex.data[p+1] == '$' { return false }
      return true }
  func (lex *Lexer) isNotStringEnd(s byte) bool {
      p := lex.p
      if lex.data[p-1] == '\\' && lex.data[p-2] != '\\' { return true }
      return !(lex.data[p] == s) }
  func (lex *Lexer) isNotPhpCloseToken() bool {
      if lex.p+1 == len(lex.data) { return true }
      return lex.data[lex.p] != '?' || lex.data[lex.p+1] != '>' }
  func (lex *Lexer) isNotNewLine() bool {
      if lex.data[lex.p] == '\n' && lex.data[lex.p-1] == '\r' { return true }
      return lex.data[lex.p-1] != '\n' && lex.data[lex.p-1] != '\r' }
  isHeredocEndBefore73 / isHeredocEndSince73 / call / ret / growCallStack / ungetCnt: see below.
-/
namespace PhpVerif.Glue

inductive Fault where
  | index
  | slice
  deriving Repr, DecidableEq

abbrev R (α : Type) := Except Fault α

/-- data[i] with i an int expression of the Go code: negative or too large faults -/
def rd (data : List UInt8) (i : Int) : R UInt8 :=
  if i < 0 then .error .index else
  match data[i.toNat]? with
  | some b => .ok b
  | none => .error .index

def isValidVarNameStart (r : UInt8) : Bool :=
  (r ≥ 65 && r ≤ 90) || (r ≥ 97 && r ≤ 122) || r == 95 || r ≥ 0x80

def isValidVarName (r : UInt8) : Bool :=
  (r ≥ 65 && r ≤ 90) || (r ≥ 97 && r ≤ 122) || (r ≥ 48 && r ≤ 57) || r == 95 || r ≥ 0x80

def bs : UInt8 := 92   -- '\\'
def dollar : UInt8 := 36
def lbrace : UInt8 := 123

/-- `data[p-1] == '\\' && data[p-2] != '\\'` (Go evaluates the second read only when the first test holds) -/
def escaped (data : List UInt8) (p : Int) : R Bool := do
  let a ← rd data (p - 1)
  if a == bs then
    let b ← rd data (p - 2)
    pure (b != bs)
  else pure false

def isNotStringVar (data : List UInt8) (p : Int) : R Bool := do
  if (← escaped data p) then return true
  if (data.length : Int) ≤ p + 1 then return true
  let c ← rd data p
  if c == dollar then
    let d ← rd data (p + 1)
    if d == lbrace || isValidVarNameStart d then return false
  if c == lbrace then
    let d ← rd data (p + 1)
    if d == dollar then return false
  return true

def isNotStringEnd (data : List UInt8) (p : Int) (s : UInt8) : R Bool := do
  if (← escaped data p) then return true
  let c ← rd data p
  return !(c == s)

def isNotPhpCloseToken (data : List UInt8) (p : Int) : R Bool := do
  if p + 1 == (data.length : Int) then return true
  let c ← rd data p
  if c != 63 then return true          -- '?'
  let d ← rd data (p + 1)
  return d != 62                        -- '>'

def isNotNewLine (data : List UInt8) (p : Int) : R Bool := do
  let c ← rd data p
  if c == 10 then
    let b ← rd data (p - 1)
    if b == 13 then return true
  let b ← rd data (p - 1)
  return (b != 10 && b != 13)

/-- data[p:p+l] == label -/
def sliceEq (data : List UInt8) (p : Nat) (label : List UInt8) : Bool :=
  (data.drop p).take label.length == label

/-
  func (lex *Lexer) isHeredocEndBefore73(p int) bool {
      if lex.data[p-1] != '\r' && lex.data[p-1] != '\n' { return false }
      l := len(lex.heredocLabel)
      if len(lex.data) < p+l { return false }
      if len(lex.data) > p+l && lex.data[p+l] != ';' && lex.data[p+l] != '\r' && lex.data[p+l] != '\n' { return false }
      if len(lex.data) > p+l+1 && lex.data[p+l] == ';' && lex.data[p+l+1] != '\r' && lex.data[p+l+1] != '\n' { return false }
      return bytes.Equal(lex.heredocLabel, lex.data[p:p+l]) }
-/
def isHeredocEndBefore73 (data : List UInt8) (p : Int) (label : List UInt8) : R Bool := do
  let a ← rd data (p - 1)
  if a != 13 && a != 10 then return false
  let l : Int := label.length
  let n : Int := data.length
  if n < p + l then return false
  if n > p + l then
    let c ← rd data (p + l)
    if c != 59 && c != 13 && c != 10 then return false
  if n > p + l + 1 then
    let c ← rd data (p + l)
    if c == 59 then
      let d ← rd data (p + l + 1)
      if d != 13 && d != 10 then return false
  if p < 0 then throw .slice
  return sliceEq data p.toNat label

/-- the loop `for p < len(data) && (data[p] == ' ' || data[p] == '\t') { p++ }` -/
def skipBlanks (data : List UInt8) (p : Nat) : Nat → Nat
  | 0 => p
  | fuel + 1 =>
    match data[p]? with
    | some c => if c == 32 || c == 9 then skipBlanks data (p + 1) fuel else p
    | none => p

/-
  func (lex *Lexer) isHeredocEndSince73(p int) bool {
      if lex.data[p-1] != '\r' && lex.data[p-1] != '\n' { return false }
      if p == len(lex.data) { return false }
      for p < len(lex.data) && (lex.data[p] == ' ' || lex.data[p] == '\t') { p++ }
      l := len(lex.heredocLabel)
      if len(lex.data) < p+l { return false }
      if len(lex.data) > p+l && isValidVarName(lex.data[p+l]) { return false }
      if bytes.Equal(lex.heredocLabel, lex.data[p:p+l]) { lex.p = p; return true }
      return false }
  result: (answer, new value of lex.p if it is moved)
-/
def isHeredocEndSince73 (data : List UInt8) (p : Int) (label : List UInt8) : R (Bool × Option Nat) := do
  let a ← rd data (p - 1)
  if a != 13 && a != 10 then return (false, none)
  if p == (data.length : Int) then return (false, none)
  if p < 0 then throw .index
  let q := skipBlanks data p.toNat data.length
  let l := label.length
  if data.length < q + l then return (false, none)
  if data.length > q + l then
    let c ← rd data ((q + l : Nat) : Int)
    if isValidVarName c then return (false, none)
  if sliceEq data q label then return (true, some q)
  return (false, none)

/-! call stack -/

structure CS where
  stack : List Int
  top : Int
  cs : Int
  p : Int
  deriving Repr, DecidableEq

def setAt (l : List Int) (i : Nat) (v : Int) : List Int := l.set i v

/-- growCallStack; stack[top] = state; top++; p++; cs = fnext -/
def call (s : CS) (state fnext : Int) : R CS :=
  let st := if s.top = (s.stack.length : Int) then s.stack ++ [0] else s.stack
  if 0 ≤ s.top ∧ s.top < (st.length : Int) then
    .ok { stack := setAt st s.top.toNat state, top := s.top + 1, cs := fnext, p := s.p + 1 }
  else .error .index

/-- if top < n { top = 0; p++; return }; top -= n; cs = stack[top]; p++ — an unmatched closing brace keeps the
    current state (before fix a17d5be it loaded `stack[0]`, a state left behind by a call that had returned) -/
def ret (s : CS) (n : Int) : R CS :=
  if s.top < n then .ok { s with top := 0, p := s.p + 1 }
  else
    let t := s.top - n
    if 0 ≤ t ∧ t < (s.stack.length : Int) then
      .ok { s with top := t, cs := (s.stack[t.toNat]?).getD s.cs, p := s.p + 1 }
    else .error .index

inductive StackOp where
  | call (state fnext : Int)
  | ret (n : Nat)

def runOps : List StackOp → CS → R CS
  | [], s => pure s
  | .call a b :: r, s => do runOps r (← call s a b)
  | .ret n :: r, s => do runOps r (← ret s n)

end PhpVerif.Glue
