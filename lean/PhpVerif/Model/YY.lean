/-
M-YY: the goyacc driver (`(*yyParserImpl).Parse` and `yylex1` of internal/php{5,7}/php{5,7}.go, goyacc's
fixed template) over the LALR tables regenerated from the same file (Gen/Tables{5,7}.lean).

The model follows the Go text label by label.  Every table read goes through `rd`, which returns a
fault instead of Go's index panic; `Props/YY.lean` proves that no run faults, for every token
sequence.  The semantic values are a parameter (`YYSem`): `Unit` for the trace correspondence
`diff-yy`, the tree values of Model/Term.lean for the whole-parser model.

Ties: T-gen (tables, constants, the driver's text fingerprint) and T-diff (`diff-yy`: the event
trace of the model against the real parser's `yyDebug` trace on the same token sequences).
-/
namespace PhpVerif

/-- tables as kernel-friendly lists; every entry is stored as `entry + off` -/
structure YYTabL where
  act : List Nat
  pact : List Nat
  pgo : List Nat
  r1 : List Nat
  r2 : List Nat
  chk : List Nat
  dflt : List Nat
  exca : List Nat
  tok1 : List Nat
  tok2 : List Nat
  tok3 : List Nat
  off : Nat
  last : Nat
  priv : Nat
  flag : Nat        -- yyFlag = -flag
  eofCode : Nat
  errCode : Nat
  ntoknames : Nat   -- len(yyToknames)

/-- the same tables as arrays: what the executable model reads -/
structure YYTab where
  act : Array Nat
  pact : Array Nat
  pgo : Array Nat
  r1 : Array Nat
  r2 : Array Nat
  chk : Array Nat
  dflt : Array Nat
  exca : Array Nat
  tok1 : Array Nat
  tok2 : Array Nat
  tok3 : Array Nat
  off : Nat
  last : Nat
  priv : Nat
  flag : Nat
  eofCode : Nat
  errCode : Nat
  ntoknames : Nat

def YYTabL.toArr (l : YYTabL) : YYTab :=
  { act := l.act.toArray, pact := l.pact.toArray, pgo := l.pgo.toArray, r1 := l.r1.toArray, r2 := l.r2.toArray,
    chk := l.chk.toArray, dflt := l.dflt.toArray, exca := l.exca.toArray, tok1 := l.tok1.toArray,
    tok2 := l.tok2.toArray, tok3 := l.tok3.toArray, off := l.off, last := l.last, priv := l.priv, flag := l.flag,
    eofCode := l.eofCode, errCode := l.errCode, ntoknames := l.ntoknames }

inductive YYFault where
  | index (table : Nat) (i : Int)     -- a table read out of range (Go: index panic)
  | underflow                         -- the state stack is shorter than a production's right-hand side
  | sem (msg : String)                -- the semantic action gave up (outside the translated fragment)
  deriving Repr, DecidableEq

/-- read entry `i` of a table -/
def rd (tbl : Nat) (l : Array Nat) (off : Nat) (i : Int) : Except YYFault Int :=
  if i < 0 then .error (.index tbl i) else
  match l[i.toNat]? with
  | some v => .ok ((v : Int) - (off : Int))
  | none => .error (.index tbl i)

namespace YYTab
variable (t : YYTab)
def Act (i : Int) := rd 0 t.act t.off i
def Pact (i : Int) := rd 1 t.pact t.off i
def Pgo (i : Int) := rd 2 t.pgo t.off i
def R1 (i : Int) := rd 3 t.r1 t.off i
def R2 (i : Int) := rd 4 t.r2 t.off i
def Chk (i : Int) := rd 5 t.chk t.off i
def Def (i : Int) := rd 6 t.dflt t.off i
def Exca (i : Int) := rd 7 t.exca t.off i
def Tok1 (i : Int) := rd 8 t.tok1 t.off i
def Tok2 (i : Int) := rd 9 t.tok2 t.off i
def Tok3 (i : Int) := rd 10 t.tok3 t.off i
end YYTab

/-- the `for` loop of `yylex1` over yyTok3: pairs (char, token) -/
def tok3Loop (t : YYTab) (char : Int) : Nat → Int → Except YYFault Int
  | 0, _ => .ok 0
  | f + 1, i =>
    if i < t.tok3.size then do
      let c ← t.Tok3 i
      if c == char then t.Tok3 (i + 1) else tok3Loop t char f (i + 2)
    else .ok 0
-- NB: when the loop runs off the end Go leaves `token` = the last yyTok3[i] read; the model
-- returns that value through `tok3Last` below (it only matters when it is non-zero)

/-- the value `token` holds when the yyTok3 loop finishes without a match: the last even entry -/
def tok3Last (t : YYTab) : Except YYFault Int :=
  if t.tok3.size == 0 then .ok 0 else t.Tok3 (((t.tok3.size - 1) / 2 * 2 : Nat) : Int)

def yylexTok3 (t : YYTab) (char : Int) : Except YYFault Int := do
  let r ← tok3Loop t char t.tok3.size 0
  if r != 0 then pure r else tok3Last t

/-- the table lookup of `yylex1` -/
def yylexTok (t : YYTab) (char : Int) : Except YYFault Int :=
  if char ≤ 0 then t.Tok1 0
  else if char < t.tok1.size then t.Tok1 char
  else if char ≥ t.priv ∧ char < (t.priv : Int) + t.tok2.size then t.Tok2 (char - t.priv)
  else yylexTok3 t char

/-- `yylex1`: external token number (`char`) to internal (`token`) -/
def yylex1 (t : YYTab) (char : Int) : Except YYFault Int := do
  let tk ← yylexTok t char
  if tk == 0 then t.Tok2 1 else pure tk

/-- events of a run, in the vocabulary of goyacc's own debug output -/
inductive YYEv where
  | shift (tok : Nat) (state : Int)        -- token index shifted, new state
  | reduce (prod : Int) (state : Int)      -- "reduce P in: state-S"
  | saw (state : Int) (token : Int)        -- "state-S saw TOK" (a new syntax error is reported)
  | pop (state : Int)                      -- "error recovery pops state S"
  | errShift (state : Int)                 -- the error token is shifted, new state
  | discard (token : Int)                  -- "error recovery discards TOK"
  | accept
  | abort
  deriving Repr, DecidableEq

/-- semantic side of the driver -/
structure YYSem (α σ : Type) where
  zero : α                                                   -- Go zero value of yySymType's value part
  tokVal : Nat → α                                           -- value a shifted token carries (token index)
  /-- state of the actions, production, `$1…$n`, `yyVAL` default, tokens lexed so far -/
  reduce : σ → Int → List α → α → Nat → Except String (α × σ)

structure YYSt (α σ : Type) where
  stack : List (Int × α)        -- top first: (state, value); `yyS[0..yyp]`
  pos : Nat                     -- tokens lexed so far (`Lex` calls)
  la : Option Int               -- `yytoken` when `yyrcvr.char >= 0`
  errflag : Nat
  nerrs : Nat
  yyval : α                     -- the variable `yyVAL`
  trace : List YYEv             -- reversed
  aux : σ                       -- what the actions keep outside the value stack (root node, counters)

inductive YYRes (α σ : Type) where
  | cont (s : YYSt α σ)
  | done (code : Nat) (s : YYSt α σ)

variable {α σ : Type}

/-- make sure a lookahead is present (`if yyrcvr.char < 0 { yyrcvr.char, yytoken = yylex1(...) }`) -/
def ensureLA (t : YYTab) (input : Array Nat) (s : YYSt α σ) : Except YYFault (YYSt α σ × Int) :=
  match s.la with
  | some tk => .ok (s, tk)
  | none => do
    let char : Int := (input[s.pos]?).getD 0
    let tk ← yylex1 t char
    pure ({ s with la := some tk, pos := s.pos + 1 }, tk)

/-- first loop of the exception-table lookup: find the header `-1, state` -/
def excaHdr (t : YYTab) (state : Int) : Nat → Int → Except YYFault Int
  | 0, xi => .error (.index 7 xi)
  | f + 1, xi => do
    let a ← t.Exca xi
    let b ← t.Exca (xi + 1)
    if a == -1 && b == state then pure xi else excaHdr t state f (xi + 2)

/-- second loop: find the entry for `token`, or the row's terminator (a negative first component) -/
def excaRow (t : YYTab) (token : Int) : Nat → Int → Except YYFault Int
  | 0, xi => .error (.index 7 xi)
  | f + 1, xi => do
    let a ← t.Exca xi
    if a < 0 || a == token then pure xi else excaRow t token f (xi + 2)

def excaLookup (t : YYTab) (state token : Int) : Except YYFault Int := do
  let xi ← excaHdr t state t.exca.size 0
  let xj ← excaRow t token t.exca.size (xi + 2)
  t.Exca (xj + 1)

/-- does state `st` shift the `error` token, and into which state -/
def errShiftState (t : YYTab) (st : Int) : Except YYFault (Option Int) := do
  let p ← t.Pact st
  let n := p + t.errCode
  if n ≥ 0 ∧ n < t.last then do
    let ns ← t.Act n
    let c ← t.Chk ns
    pure (if c == t.errCode then some ns else none)
  else pure none

/-- the pop loop of error recovery: find a state on the stack that shifts `error` -/
def errPop (t : YYTab) : List (Int × α) → List YYEv → Except YYFault (Option (Int × List (Int × α)) × List YYEv)
  | [], tr => .ok (none, tr)
  | (st, v) :: rest, tr =>
    match errShiftState t st with
    | .error e => .error e
    | .ok (some ns) => .ok (some (ns, (st, v) :: rest), tr)
    | .ok none => errPop t rest (.pop st :: tr)

/-- goto after a reduction by a production with left-hand side `n`, `exposed` = the state now on top -/
def gotoState (t : YYTab) (n exposed : Int) : Except YYFault Int := do
  let g ← t.Pgo n
  let j := g + exposed + 1
  if j ≥ t.last then t.Act g
  else do
    let st ← t.Act j
    let c ← t.Chk st
    if c != -n then t.Act g else pure st

/-- split the top `n` entries off a stack: (popped values bottom-up = `$1…$n`, rest) -/
def popN : Nat → List (Int × α) → List α → Option (List α × List (Int × α))
  | 0, st, acc => some (acc, st)
  | _ + 1, [], _ => none
  | n + 1, (_, v) :: st, acc => popN n st (v :: acc)

/-- what one round of the driver decides from the tables and the lookahead -/
inductive YYMove where
  | shift (ns : Int)            -- valid shift into state ns
  | accept
  | discardEof                  -- error recovery meets the end of input: abort
  | discard                     -- error recovery drops the lookahead
  | recover (fresh : Bool)      -- pop states until one shifts `error` (fresh: a new error is reported first)
  | reduce (yyn : Int)
  deriving Repr, DecidableEq

/-- the try-to-shift part of `yynewstate` -/
def yyTryShift (t : YYTab) (input : Array Nat) (s : YYSt α σ) (yystate : Int) : Except YYFault (YYSt α σ × Option Int) := do
  let pn ← t.Pact yystate
  if pn ≤ -(t.flag : Int) then pure (s, none)
  else do
    let (s, tk) ← ensureLA t input s
    let n := pn + tk
    if n < 0 ∨ n ≥ t.last then pure (s, none)
    else do
      let ns ← t.Act n
      let c ← t.Chk ns
      if c == tk then pure (s, some ns) else pure (s, none)

/-- `yydefault`: the default action of a state, through the exception table when it says -2 -/
def yyDefault (t : YYTab) (input : Array Nat) (s : YYSt α σ) (yystate : Int) : Except YYFault (YYSt α σ × Int × Int) := do
  let d ← t.Def yystate
  if d == -2 then do
    let (s, tk) ← ensureLA t input s
    let r ← excaLookup t yystate tk
    pure (s, d, r)
  else pure (s, d, d)

/-- the table-driven half of a round: reads the tables, may lex one token, touches nothing else -/
def yyDecide (t : YYTab) (input : Array Nat) (s : YYSt α σ) (yystate : Int) : Except YYFault (YYSt α σ × YYMove) := do
  let (s, shifted) ← yyTryShift t input s yystate
  match shifted with
  | some ns => pure (s, .shift ns)
  | none =>
    let (s, d, yyn) ← yyDefault t input s yystate
    if d == -2 ∧ yyn < 0 then pure (s, .accept)
    else if yyn == 0 then
      if s.errflag == 3 then
        if s.la.getD (-1) == (t.eofCode : Int) then pure (s, .discardEof) else pure (s, .discard)
      else pure (s, .recover (s.errflag == 0))
    else pure (s, .reduce yyn)

/-- `yyVAL = yyS[yyp+1]`: `$1` when the right-hand side is not empty -/
def yyDflt (sem : YYSem α σ) : List α → α
  | a :: _ => a
  | [] => sem.zero

/-- the stack half of a round: carries out the move -/
def yyApply (t : YYTab) (sem : YYSem α σ) (s : YYSt α σ) (yystate : Int) : YYMove → Except YYFault (YYRes α σ)
  | .shift ns =>
    -- valid shift: yyVAL = lval; push
    let v := sem.tokVal (s.pos - 1)
    pure (.cont { s with la := none, yyval := v, stack := (ns, v) :: s.stack,
                         errflag := s.errflag - 1, trace := .shift (s.pos - 1) ns :: s.trace })
  | .accept => pure (.done 0 { s with trace := .accept :: s.trace })
  | .discardEof => pure (.done 1 { s with trace := .abort :: .discard (s.la.getD (-1)) :: s.trace })
  | .discard => pure (.cont { s with la := none, trace := .discard (s.la.getD (-1)) :: s.trace })
  | .recover fresh => do
    let s := if fresh then { s with nerrs := s.nerrs + 1, trace := .saw yystate (s.la.getD (-1)) :: s.trace } else s
    let (r, tr) ← errPop t s.stack s.trace
    match r with
    | none => pure (.done 1 { s with errflag := 3, stack := [], trace := .abort :: tr })
    | some (ns, st) =>
      pure (.cont { s with errflag := 3, stack := (ns, s.yyval) :: st, trace := .errShift ns :: tr })
  | .reduce yyn => do
    let n ← t.R2 yyn
    match popN n.toNat s.stack [] with
    | none => .error .underflow
    | some (args, rest) =>
      let (exposed, _) ← match rest with
        | [] => .error .underflow
        | e :: _ => pure e
      let dfl := yyDflt sem args
      let lhs ← t.R1 yyn
      let ns ← gotoState t lhs exposed
      match sem.reduce s.aux yyn args dfl s.pos with
      | .error m => .error (.sem m)
      | .ok (v, aux) =>
        pure (.cont { s with yyval := v, stack := (ns, v) :: rest, trace := .reduce yyn yystate :: s.trace, aux := aux })

/-- one round of the driver: from `yynewstate` to the next `yystack` / `yynewstate` / return -/
def yyStep (t : YYTab) (sem : YYSem α σ) (input : Array Nat) (s : YYSt α σ) : Except YYFault (YYRes α σ) :=
  match s.stack with
  | [] => .error .underflow
  | (yystate, _) :: _ =>
    match yyDecide t input s yystate with
    | .error e => .error e
    | .ok (s1, m) => yyApply t sem s1 yystate m

def yyInit (sem : YYSem α σ) (aux : σ) : YYSt α σ :=
  { stack := [(0, sem.zero)], pos := 0, la := none, errflag := 0, nerrs := 0, yyval := sem.zero, trace := [], aux := aux }

/-- run for at most `fuel` rounds -/
def yyRun (t : YYTab) (sem : YYSem α σ) (input : Array Nat) : Nat → YYSt α σ → Except YYFault (Option Nat × YYSt α σ)
  | 0, s => .ok (none, s)
  | f + 1, s =>
    match yyStep t sem input s with
    | .error e => .error e
    | .ok (.done c s') => .ok (some c, s')
    | .ok (.cont s') => yyRun t sem input f s'

/-! `yyErrorMessage`: the tokens named after "expecting" (at most four, otherwise none) -/

/-- first loop: shiftable tokens `TOKSTART ≤ tok ≤ ntoknames` -/
def expShift (t : YYTab) (base : Int) : Nat → Int → List Int → Except YYFault (Option (List Int))
  | 0, _, acc => .ok (some acc)
  | f + 1, tok, acc => do
    let n := base + tok
    let hit ←
      if n ≥ 0 ∧ n < t.last then do
        let a ← t.Act n
        let c ← t.Chk a
        pure (c == tok)
      else pure false
    if hit then
      if acc.length == 4 then pure none else expShift t base f (tok + 1) (acc ++ [tok])
    else expShift t base f (tok + 1) acc

/-- second loop: tokens of the state's exception row that reduce; `(expected, terminator action)` -/
def expExca (t : YYTab) : Nat → Int → List Int → Except YYFault (Option (List Int × Int))
  | 0, xi, _ => .error (.index 7 xi)
  | f + 1, xi, acc => do
    let tok ← t.Exca xi
    let a ← t.Exca (xi + 1)
    if tok < 0 then pure (some (acc, a))
    else if tok < 4 ∨ a == 0 then expExca t f (xi + 2) acc
    else if acc.length == 4 then pure none
    else expExca t f (xi + 2) (acc ++ [tok])

/-- `none`: the message is just "unexpected TOK"; `some l`: ", expecting l₁ or l₂ …" (possibly empty) -/
def yyExpected (t : YYTab) (state : Int) : Except YYFault (Option (List Int)) := do
  let base ← t.Pact state
  match ← expShift t base (t.ntoknames + 1 - 4) 4 [] with
  | none => pure none
  | some acc =>
    let d ← t.Def state
    if d == -2 then do
      let xi ← excaHdr t state t.exca.size 0
      match ← expExca t t.exca.size (xi + 2) acc with
      | none => pure none
      | some (acc, a) => if a != 0 then pure none else pure (some acc)
    else pure (some acc)

def unitSem : YYSem Unit Unit := { zero := (), tokVal := fun _ => (), reduce := fun _ _ _ _ _ => .ok ((), ()) }

end PhpVerif
