import PhpVerif.Model.Tree
/-
M-VERSION: pkg/version/version.go and the dispatch of pkg/parser/parser.go.
uint64 segments are modelled as `Nat`s below 2^64 (`ParseUint(…, 10, 64)` guarantees the bound;
`Compare` only uses `<` and `>` so no wrap-around is involved).
-/
namespace PhpVerif

structure Version where
  major : Nat
  minor : Nat
  deriving Repr, DecidableEq

def compareSegment (v o : Nat) : Int :=
  if v < o then -1 else if v > o then 1 else 0

def Version.compare (v o : Version) : Int :=
  let d := compareSegment v.major o.major
  if d ≠ 0 then d else compareSegment v.minor o.minor

def Version.inRange (v s e : Version) : Bool := v.compare s ≥ 0 && v.compare e ≤ 0
def Version.greaterOrEqual (v o : Version) : Bool := v.compare o ≥ 0

/-- the four range constants, as extracted from one Go file -/
structure Ranges where
  s5 : Version
  e5 : Version
  s7 : Version
  e7 : Version
  deriving Repr, DecidableEq

def Version.validate (r : Ranges) (v : Version) : Bool :=
  !( !v.inRange r.s5 r.e5 && !v.inRange r.s7 r.e7 )

inductive Dispatch where
  | php5 | php7 | outOfRange
  deriving Repr, DecidableEq

/-- parser.Parse: `nil` means `php7RangeEnd`; first test the php5 range, then php7 -/
def dispatch (r : Ranges) (v : Option Version) : Dispatch :=
  let v := v.getD r.e7
  if v.inRange r.s5 r.e5 then .php5 else if v.inRange r.s7 r.e7 then .php7 else .outOfRange

/-- 2^64, the first value `ParseUint(…, 10, 64)` rejects -/
def u64Bound : Nat := 18446744073709551616

def isDigit (c : UInt8) : Bool := 48 ≤ c && c ≤ 57

/-- strconv.ParseUint(s, 10, 64): `none` = error (syntax or range) -/
def parseUint (s : Bytes) : Option Nat :=
  if s.isEmpty then none
  else if s.all isDigit then
    let v := s.foldl (fun a c => a * 10 + (c.toNat - 48)) 0
    if v < u64Bound then some v else none
  else none

/-- strings.SplitN(v, ".", 2) -/
def splitDot : Bytes → Option (Bytes × Bytes)
  | [] => none
  | c :: cs => if c = 46 then some ([], cs) else (splitDot cs).map (fun (a, b) => (c :: a, b))

/-- version.New -/
def Version.new (s : Bytes) : Option Version :=
  match splitDot s with
  | none => none
  | some (a, b) =>
    match parseUint a with
    | none => none
    | some ma =>
      match parseUint b with
      | none => none
      | some mi => some ⟨ma, mi⟩

end PhpVerif
