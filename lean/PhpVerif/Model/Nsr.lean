/-
M-NSR: pkg/visitor/nsresolver — Namespace.AddAlias / ResolveName / ResolveAlias, concatNameParts and
AddNamespacedName over ASCII names (Go's strings.ToLower is modelled on ASCII only; non-ASCII
identifier bytes are outside the modelled domain).

Go maps `Aliases[kind][key] = target` are association lists with newest-first insertion and
first-match lookup (= overwrite semantics).
-/
namespace PhpVerif.Nsr

abbrev Str := List UInt8

def lowerB (b : UInt8) : UInt8 := if 65 ≤ b ∧ b ≤ 90 then b + 32 else b
def lower (s : Str) : Str := s.map lowerB

/-- concatNameParts: parts joined by a backslash; the Go loop omits the separator while the
    accumulated string is still empty -/
def join (parts : List Str) : Str :=
  parts.foldl (fun acc p => if acc.isEmpty then p else acc ++ [92] ++ p) []

inductive AKind where
  | cls | fn | cst
  deriving DecidableEq, Repr

structure Ns where
  name : Str
  cls : List (Str × Str)
  fn : List (Str × Str)
  cst : List (Str × Str)
  deriving Repr, DecidableEq

def Ns.new (name : Str) : Ns := { name := name, cls := [], fn := [], cst := [] }

def lookup (tab : List (Str × Str)) (key : Str) : Option Str :=
  (tab.find? (fun e => e.1 == key)).map (·.2)

/-- Namespace.AddAlias(kind, target, alias): constants are keyed by the alias as written, classes and
    functions by the lower-cased alias -/
def Ns.addAlias (ns : Ns) (k : AKind) (target alias : Str) : Ns :=
  match k with
  | .cst => { ns with cst := (alias, target) :: ns.cst }
  | .fn => { ns with fn := (lower alias, target) :: ns.fn }
  | .cls => { ns with cls := (lower alias, target) :: ns.cls }

def Ns.table (ns : Ns) : AKind → List (Str × Str)
  | .cls => ns.cls
  | .fn => ns.fn
  | .cst => ns.cst

inductive NameRef where
  | fq (parts : List Str)        -- \A\B
  | rel (parts : List Str)       -- namespace\A\B
  | plain (parts : List Str)     -- A\B or A
  deriving Repr, DecidableEq

def prefixed (ns : Ns) (s : Str) : Str := if ns.name.isEmpty then s else ns.name ++ [92] ++ s

def s (x : String) : Str := x.toUTF8.toList

def specialConst : List Str := [s "true", s "false", s "null"]
def specialClass : List Str :=
  [s "self", s "static", s "parent", s "int", s "float", s "bool", s "string", s "void", s "iterable", s "object"]

/-- Namespace.ResolveAlias: qualified names always in the class table with a lower-cased first
    segment; unqualified ones in the table of their kind, lower-cased unless constant -/
def Ns.resolveAlias (ns : Ns) (parts : List Str) (k : AKind) : Option Str :=
  match parts with
  | [] => none
  | first :: rest =>
    if !rest.isEmpty then lookup ns.cls (lower first)
    else if k == .cst then lookup ns.cst first
    else lookup (ns.table k) (lower first)

/-- Namespace.ResolveName -/
def Ns.resolve (ns : Ns) (n : NameRef) (k : AKind) : Str :=
  match n with
  | .fq parts => join parts
  | .rel parts => prefixed ns (join parts)
  | .plain parts =>
    match parts with
    | [one] =>
      if k == .cst && specialConst.contains (lower one) then lower one
      else if k == .cls && specialClass.contains (lower one) then lower one
      else match ns.resolveAlias parts k with
        | some t => t
        | none => prefixed ns (join parts)
    | _ =>
      match ns.resolveAlias parts k with
      | some t => (match parts with | _ :: rest => t ++ [92] ++ join rest | [] => t)
      | none => prefixed ns (join parts)

/-- AddNamespacedName -/
def Ns.declared (ns : Ns) (name : Str) : Str := prefixed ns name

/-! history of use declarations -/
structure UseDecl where
  kind : AKind
  target : Str
  alias : Str
  deriving Repr, DecidableEq

def Ns.run (ns : Ns) : List UseDecl → Ns
  | [] => ns
  | d :: r => (ns.addAlias d.kind d.target d.alias).run r

end PhpVerif.Nsr
