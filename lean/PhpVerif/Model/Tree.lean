/-
M-TREE: one generic tree type for all 155 node kinds.  Every per-field list is
indexed by the field number of the Go struct (0 = Position), so a table row can
address a field directly; fields of another sort hold the empty list / none.
-/
namespace PhpVerif

abbrev Bytes := List UInt8

structure Pos where
  startLine : Int
  endLine : Int
  startPos : Int
  endPos : Int
  deriving Repr, DecidableEq, Inhabited

/-- free-floating token (whitespace / comment) -/
structure FF where
  id : Nat
  val : Bytes
  pos : Option Pos := none
  deriving Repr, DecidableEq, Inhabited

structure Tok where
  uid : Nat
  id : Nat
  val : Bytes
  ff : List FF := []
  pos : Option Pos := none
  deriving Repr, DecidableEq, Inhabited

inductive Tree where
  | mk (kind uid : Nat) (pos : Option Pos)
       (toks : List (List Tok)) (vals : List (Option Bytes)) (kids : List (List Tree))
       (nn : List Bool)   -- per field: the Go slice stored there is non-nil (`[]Vertex{}` vs nil)
  deriving Repr, Inhabited

namespace Tree
def kind : Tree → Nat | .mk k _ _ _ _ _ _ => k
def uid : Tree → Nat | .mk _ u _ _ _ _ _ => u
def pos : Tree → Option Pos | .mk _ _ p _ _ _ _ => p
def toks : Tree → List (List Tok) | .mk _ _ _ t _ _ _ => t
def vals : Tree → List (Option Bytes) | .mk _ _ _ _ v _ _ => v
def kids : Tree → List (List Tree) | .mk _ _ _ _ _ c _ => c
def nn : Tree → List Bool | .mk _ _ _ _ _ _ n => n
end Tree

/-- field access that is total: an absent field is the empty list -/
def fieldAt {α} (l : List (List α)) (f : Nat) : List α := (l[f]?).getD []

mutual
/-- all nodes of a tree, parent first, fields in declaration order (table independent) -/
def Tree.nodes : Tree → List Nat
  | .mk _ u _ _ _ kids _ => u :: nodesSlots kids
def nodesSlots : List (List Tree) → List Nat
  | [] => []
  | f :: fs => nodesForest f ++ nodesSlots fs
def nodesForest : List Tree → List Nat
  | [] => []
  | t :: ts => t.nodes ++ nodesForest ts
end

mutual
/-- number of nodes -/
def Tree.size : Tree → Nat
  | .mk _ _ _ _ _ kids _ => 1 + sizeSlots kids
def sizeSlots : List (List Tree) → Nat
  | [] => 0
  | f :: fs => sizeForest f + sizeSlots fs
def sizeForest : List Tree → Nat
  | [] => 0
  | t :: ts => t.size + sizeForest ts
end

end PhpVerif
