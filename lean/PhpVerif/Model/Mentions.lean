import PhpVerif.Model.Term
/-
Which right-hand-side values an action path reads or writes (`$i` mentioned anywhere: conditions, node
literals, stores, the result), and the derived questions: which productions return a stale value, who reads it,
who reads the value of a given grammar symbol.  Used by Props/Linear.lean (stale values, error values) and
Props/ActionArgs.lean (`$i` within the right-hand side).
-/
namespace PhpVerif

mutual
def tmMentions (i : Nat) : Tm → Bool
  | .argAt _ j => i == j
  | .arg j => i == j
  | .cur => false
  | .nil => false
  | .fld t _ => tmMentions i t
  | .obj _ => false
  | .list xs => mentionsL i xs
  | .app b xs => tmMentions i b || mentionsL i xs
  | .cat a b => tmMentions i a || tmMentions i b
  | .idx0 t => tmMentions i t
  | .last t => tmMentions i t
  | .tail t => tmMentions i t
  | .init t => tmMentions i t
  | .bytes _ t => tmMentions i t
  | .pos _ args => mentionsL i args
  | .chain acc l _ => tmMentions i acc || tmMentions i l
  | .nest l inner _ => tmMentions i l || tmMentions i inner
def mentionsL (i : Nat) : List Tm → Bool
  | [] => false
  | t :: ts => tmMentions i t || mentionsL i ts
end

def condMentions (i : Nat) : Cond → Bool
  | .isNil t => tmMentions i t
  | .lenEq t _ => tmMentions i t
  | .kindIs t _ => tmMentions i t
  | .atoi t => tmMentions i t
  | .intOff t _ => tmMentions i t
  | .not c => condMentions i c
  | .and a b => condMentions i a || condMentions i b
  | .or a b => condMentions i a || condMentions i b

/-- the path reads or writes `$i` -/
def pathMentions (p : TPath) (i : Nat) : Bool :=
  p.conds.any (condMentions i) || p.objs.any (fun o => mentionsL i o.fields) ||
  p.muts.any (fun m => m.arg == i || tmMentions i m.val) ||
  (match p.ret with | some t => tmMentions i t | none => false) ||
  (match p.root with | some t => tmMentions i t | none => false)

/-- left-hand sides of productions with an empty right-hand side and no action -/
def staleSyms (prods : List (Nat × List Nat)) (ps : List TPath) : List Nat :=
  ((List.range prods.length).filter (fun k => ((prods[k]?).map (·.2)).getD [0] == [] && !ps.any (fun p => p.prod == k + 1))).map
    (fun k => ((prods[k]?).map (·.1)).getD 0)

/-- (production, path) of every action path that reads the value of symbol `s`; a production without any
    action whose *first* right-hand-side symbol is `s` (`$$ = $1` by default) counts as well -/
def readsSym (prods : List (Nat × List Nat)) (ps : List TPath) (s : Nat) : List (Nat × Nat) :=
  (ps.filter (fun p =>
    let rhs := ((prods[p.prod - 1]?).map (·.2)).getD []
    (List.range rhs.length).any (fun j => (rhs[j]?).getD 0 == s && pathMentions p (j + 1)))).map (fun p => (p.prod, p.path)) ++
  ((List.range prods.length).filter (fun k =>
    (match ((prods[k]?).map (·.2)).getD [] with
      | s' :: _ => s' == s
      | [] => false) && !ps.any (fun p => p.prod == k + 1))).map (fun k => (k + 1, 0))

def staleReads (prods : List (Nat × List Nat)) (ps : List TPath) : List (Nat × Nat) :=
  (staleSyms prods ps).flatMap (readsSym prods ps)


/-- the largest `$i` a path mentions, searched up to `bound` -/
def maxMention (p : TPath) (bound : Nat) : Nat :=
  (List.range (bound + 1)).foldl (fun m j => if pathMentions p j then j else m) 0

/-- (production, path, i) of every path that mentions a `$i` beyond the right-hand side of its production: in Go
    `yyDollar[i]` with `i > len(rhs)` is an index panic (`yyDollar = yyS[yypt-n : yypt+1]`) -/
def argsOutOfRange (prods : List (Nat × List Nat)) (ps : List TPath) : List (Nat × Nat × Nat) :=
  (ps.filter (fun p =>
    let n := (((prods[p.prod - 1]?).map (·.2)).getD []).length
    maxMention p 40 > n)).map (fun p => (p.prod, p.path, maxMention p 40))

end PhpVerif
