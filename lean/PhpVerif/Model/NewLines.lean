/-
M-NL: internal/scanner/newline.go and the scanner's `new_line` action (scanner.rl:38-46).

  func (nl *NewLines) Append(p int) { if len(nl.data) == 0 || nl.data[len(nl.data)-1] < p { nl.data = append(nl.data, p) } }
  func (nl *NewLines) GetLine(p int) int {
      line := len(nl.data) + 1
      for i := len(nl.data) - 1; i >= 0; i-- { if p < nl.data[i] { line = i + 1 } else { break } }
      return line }
  action new_line {
      if data[p] == '\n' { newLines.Append(p+1) }
      if data[p] == '\r' && (p+1 == pe || data[p+1] != '\n') { newLines.Append(p+1) } }
-/
namespace PhpVerif.NL

abbrev LF : UInt8 := 10
abbrev CR : UInt8 := 13

def append (d : List Nat) (p : Nat) : List Nat :=
  match d.getLast? with
  | none => d ++ [p]
  | some l => if l < p then d ++ [p] else d

/-- the loop of GetLine walks down from the end while `p < data[i]`; what it leaves is the prefix -/
def getLine (d : List Nat) (p : Nat) : Nat := (d.reverse.dropWhile (fun x => decide (p < x))).length + 1

/-- a line terminator ends at offset `p` (inclusive): LF, or CR not followed by LF -/
def endsLine (src : List UInt8) (p : Nat) : Bool :=
  match src[p]? with
  | some c =>
      c == LF || (c == CR && (match src[p+1]? with | some n => n != LF | none => true))
  | none => false

/-- the scanner action at offset `p` -/
def newLineAction (src : List UInt8) (d : List Nat) (p : Nat) : List Nat :=
  if endsLine src p then append d (p + 1) else d

/-- line table after the scanner has executed the action at the offsets `ps`, in that order -/
def scan (src : List UInt8) (ps : List Nat) : List Nat := ps.foldl (newLineAction src) []

/-- SPEC: offsets at which a new line starts, among the first `m` offsets -/
def lineStarts (src : List UInt8) (m : Nat) : List Nat :=
  ((List.range m).filter (endsLine src)).map (· + 1)

/-- SPEC: 1-based line of offset `p` = 1 + number of line starts at or before `p` -/
def lineOf (src : List UInt8) (p : Nat) : Nat := ((lineStarts src src.length).filter (· ≤ p)).length + 1

end PhpVerif.NL
