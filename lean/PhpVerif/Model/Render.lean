import PhpVerif.Model.Printer
/-
M-RENDER: the byte level of the printer (pkg/visitor/printer/printer.go):

  func (p *printer) write(b []byte) {
      if len(b) == 0 { return }
      if p.state == PrinterStateHTML {
          if !bytes.HasPrefix(b, []byte("<?")) { p.output.Write([]byte("<?php ")) }
          p.state = PrinterStatePHP }
      if p.last != nil && isValidVarName(p.last[len(p.last)-1]) && isValidVarName(b[0]) { p.output.Write([]byte(" ")) }
      p.last = b
      p.output.Write(b) }
  func (p *printer) writeToken(b []byte) {          // text of a token of the tree: as it is
      if len(b) == 0 { return }
      p.state = PrinterStatePHP; p.last = b; p.output.Write(b) }
  func (p *printer) StmtInlineHtml(n) {
      p.state = PrinterStatePHP
      if p.last != nil && !bytes.HasSuffix(bytes.TrimRight(p.last, "\r\n"), []byte("?>")) { p.write([]byte("?>")) }
      p.printToken(n.InlineHtmlTkn, n.Value)
      p.state = PrinterStateHTML }
-/
namespace PhpVerif

structure PState where
  html : Bool := true              -- NewPrinter starts in PrinterStateHTML
  last : Option Bytes := none
  out : Bytes := []
  deriving Repr

def isVarNameByte (r : UInt8) : Bool :=
  (r ≥ 65 && r ≤ 90) || (r ≥ 97 && r ≤ 122) || (r ≥ 48 && r ≤ 57) || r == 95 || r ≥ 0x80

def openTag : Bytes := [60, 63, 112, 104, 112, 32]   -- "<?php "
def closeTag : Bytes := [63, 62]                     -- "?>"

def hasPrefix (b p : Bytes) : Bool := b.take p.length == p
def hasSuffix (b p : Bytes) : Bool := (b.drop (b.length - p.length)) == p && p.length ≤ b.length

def trimRightNl (b : Bytes) : Bytes := (b.reverse.dropWhile (fun c => c == 13 || c == 10)).reverse

def PState.write (s : PState) (b : Bytes) : PState :=
  if b.isEmpty then s else
  let s1 := if s.html then { s with html := false, out := if hasPrefix b [60, 63] then s.out else s.out ++ openTag } else s
  let sp := match s1.last with
    | some l => (match l.getLast?, b.head? with
        | some x, some y => isVarNameByte x && isVarNameByte y
        | _, _ => false)
    | none => false
  { s1 with last := some b, out := (if sp then s1.out ++ [32] else s1.out) ++ b }

def PState.writeToken (s : PState) (b : Bytes) : PState :=
  if b.isEmpty then s else { s with html := false, last := some b, out := s.out ++ b }

def PState.item (lits : Nat → Bytes) (s : PState) : Item → PState
  | .tok t => (t.ff.foldl (fun s f => s.writeToken f.val) s).writeToken t.val
  | .lit id => s.write (lits id)
  | .own v => s.write v
  | .htmlOpen =>
    let s1 := { s with html := false }
    match s1.last with
    | some l => if hasSuffix (trimRightNl l) closeTag then s1 else s1.write closeTag
    | none => s1
  | .htmlClose => { s with html := true }

def render (lits : Nat → Bytes) (items : List Item) : Bytes :=
  (items.foldl (PState.item lits) {}).out

end PhpVerif
