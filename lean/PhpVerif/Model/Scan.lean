import PhpVerif.Model.ScanDFA
import PhpVerif.Model.NewLines
/-
M-SCANX: an executable model of the whole scanner — `(*Lexer).Lex` of the ragel-generated
internal/scanner/scanner.go plus the hand-written glue of lexer.go and newline.go.

Control follows ragel's `-G2` goto code: `_resume` / `_again` dispatch on `cs`; `stN` (to-state action,
advance, end-of-input test), `st_case_N` (from-state action, transition d), `trM` (action block),
`_test_eof` (end-of-input table), `_out` (epilogue).  The transition d function is Gen/ScanDFA.lean, the
action blocks, entry / exit actions and the end-of-input table are Gen/ScanCode.lean, both rewritten by
gofacts from the current scanner.go on every run; the glue functions are modelled here (array
versions of Model/Glue.lean, which is tied on its own by diff-glue).  A read or slice that would
panic in Go sets `fault`.  Tie: `diff-scanner` — every token (id, offsets, lines), every
free-floating token, every reported error and the final line table against the real scanner.
-/
namespace PhpVerif

inductive SE where
  | p | pe | ts | te | lblS | lblE | top | len
  | lit (n : Int)
  | add (a b : SE)
  | sub (a b : SE)
  | at (e : SE)                    -- lex.data[e]
  deriving Repr, Inhabited

inductive SC where
  | cmp (op : Nat) (a b : SE)      -- 0 ==, 1 !=, 2 <, 3 >, 4 <=, 5 >=
  | and (a b : SC)
  | or (a b : SC)
  | not (a : SC)
  | parseOk                        -- err == nil after strconv.ParseInt
  | docFlag
  | heredocEnd (e : SE)            -- lex.isHeredocEnd d(e)
  | varStart (e : SE)              -- isValidVarNameStart(byte e)
  | sliceIs (a b : SE) (lit : List Nat)   -- string(lex.data[a:b]) == lit
  deriving Repr, Inhabited

inductive SI where
  | setTe (e : SE) | setTs (e : SE) | setP (e : SE)
  | setAct (n : Nat) | setCs (n : Nat) | csFromStack | topInc | topDec | stackSet (n : Nat)
  | tokPos                                   -- lex.setTokenPosition(tkn)
  | addFF (id : Nat) (a b : SE)              -- lex.addFreeFloatingToken(tkn, id, a, b)
  | ungetCnt (e : SE) | ungetStr (s : List Nat)
  | call (state fnext : Nat) | ret (n : Nat) | grow
  | err                                      -- lex.error("WARNING: Unexpected character …")
  | nlAppend (e : SE)                        -- lex.newLines.Append(e)
  | tok (id : Nat) | tokFirst
  | setBase (n : Nat) | setDigits (a b : SE) | parse (base : Option Nat)
  | setDoc (b : Bool)
  | lblStart | lblEnd | setLabel
  | goto (code : Nat) | again | out
  | blk (l : List SI)
  | ite (c : SC) (t e : List SI)
  | swAct (cases : List (Nat × List SI))
  deriving Repr, Inhabited

structure FFTok where
  id : Nat
  sp : Int
  ep : Int
  sl : Nat
  el : Nat
  deriving Repr, Inhabited

inductive PC where
  | resume | again | st (n : Nat) | stCase (n : Nat) | tr (code : Nat) | testEof | out
  deriving Repr, Inhabited, DecidableEq

/-- the scanner's mutable state.  The input bytes are NOT part of it: every function below takes them as a
    separate, read-only argument `d`, so that "the scanner never modifies its input" holds by construction. -/
structure LexSt where
  ge73 : Bool                      -- version >= 7.3 (flexible heredoc terminator)
  p : Int := 0
  pe : Int
  cs : Int
  ts : Int := 0
  te : Int := 0
  act : Int := 0
  top : Int := 0
  stack : List Int := []
  label : List UInt8 := []
  lblS : Int := 0
  lblE : Int := 0
  nl : List Nat := []
  base : Nat := 10
  digits : List UInt8 := []
  parseOk : Bool := false
  docFlag : Bool := false
  tok : Nat := 0
  tokPos : Option (Nat × Nat × Int × Int) := none
  ffs : List FFTok := []
  errs : List (Nat × Nat × Nat × Int × Int) := []     -- (byte, startLine, endLine, ts, te)
  fault : Option String := none

namespace LexSt

def rdA (_s : LexSt) (d : Array UInt8) (i : Int) : Option UInt8 := if i < 0 then none else d[i.toNat]?

def setFault (s : LexSt) (m : String) : LexSt := if s.fault.isSome then s else { s with fault := some m }

/-- lex.data[i] as a number; out of range is Go's index panic -/
def byteAt (s : LexSt) (d : Array UInt8) (i : Int) : LexSt × Int :=
  match s.rdA d i with
  | some b => (s, b.toNat)
  | none => (s.setFault s!"index {i}", 0)

def getLine (s : LexSt) (p : Int) : Nat := NL.getLine s.nl p.toNat

end LexSt

section
variable (d : Array UInt8)

def evalSE : SE → LexSt → LexSt × Int
  | .p, s => (s, s.p) | .pe, s => (s, s.pe) | .ts, s => (s, s.ts) | .te, s => (s, s.te)
  | .lblS, s => (s, s.lblS) | .lblE, s => (s, s.lblE) | .top, s => (s, s.top) | .len, s => (s, d.size)
  | .lit n, s => (s, n)
  | .add a b, s => let (s, x) := evalSE a s; let (s, y) := evalSE b s; (s, x + y)
  | .sub a b, s => let (s, x) := evalSE a s; let (s, y) := evalSE b s; (s, x - y)
  | .at e, s => let (s, i) := evalSE e s; s.byteAt d i

def isValidVarNameStart (r : Int) : Bool := (65 ≤ r && r ≤ 90) || (97 ≤ r && r ≤ 122) || r == 95 || r ≥ 128
def isValidVarName (r : Int) : Bool := isValidVarNameStart r || (48 ≤ r && r ≤ 57)

def sliceEqA (s : LexSt) (p : Nat) (label : List UInt8) : Bool :=
  (List.range label.length).all (fun k => d[p + k]? == label[k]?)

/-- isHeredocEndBefore73 -/
def heredocEndBefore73 (s : LexSt) (p : Int) : LexSt × Bool := Id.run do
  let (s, a) := s.byteAt d (p - 1)
  if a != 13 && a != 10 then return (s, false)
  let l : Int := s.label.length
  let n : Int := d.size
  if n < p + l then return (s, false)
  let mut s := s
  if n > p + l then
    let (s', c) := s.byteAt d (p + l)
    s := s'
    if c != 59 && c != 13 && c != 10 then return (s, false)
  if n > p + l + 1 then
    let (s', c) := s.byteAt d (p + l)
    s := s'
    if c == 59 then
      let (s'', d) := s.byteAt d (p + l + 1)
      s := s''
      if d != 13 && d != 10 then return (s, false)
  if p < 0 then return (s.setFault "slice", false)
  return (s, sliceEqA d s p.toNat s.label)

def skipBlanksA (s : LexSt) (p : Nat) : Nat → Nat
  | 0 => p
  | f + 1 => match d[p]? with
    | some c => if c == 32 || c == 9 then skipBlanksA s (p + 1) f else p
    | none => p

/-- isHeredocEndSince73: may move lex.p -/
def heredocEndSince73 (s : LexSt) (p : Int) : LexSt × Bool := Id.run do
  let (s, a) := s.byteAt d (p - 1)
  if a != 13 && a != 10 then return (s, false)
  if p == (d.size : Int) then return (s, false)
  if p < 0 then return (s.setFault "index", false)
  let q := skipBlanksA d s p.toNat d.size
  let l := s.label.length
  if d.size < q + l then return (s, false)
  if d.size > q + l then
    let (s', c) := s.byteAt d ((q + l : Nat) : Int)
    if isValidVarName c then return (s', false)
  if sliceEqA d s q s.label then return ({ s with p := q }, true)
  return (s, false)

def isHeredocEnd (s : LexSt) (p : Int) : LexSt × Bool :=
  if s.ge73 then heredocEndSince73 d s p else heredocEndBefore73 d s p

/-- `data[p-1] == '\\' && data[p-2] != '\\'` -/
def escapedA (s : LexSt) : LexSt × Bool :=
  let (s, a) := s.byteAt d (s.p - 1)
  if a == 92 then
    let (s, b) := s.byteAt d (s.p - 2)
    (s, b != 92)
  else (s, false)

def isNotStringVar (s : LexSt) : LexSt × Bool := Id.run do
  let (s, esc) := escapedA d s
  if esc then return (s, true)
  if (d.size : Int) ≤ s.p + 1 then return (s, true)
  let (s, c) := s.byteAt d s.p
  let (s, d) := s.byteAt d (s.p + 1)
  if c == 36 && (d == 123 || isValidVarNameStart d) then return (s, false)
  if c == 123 && d == 36 then return (s, false)
  return (s, true)

def isNotStringEnd (s : LexSt) (q : Int) : LexSt × Bool :=
  let (s, esc) := escapedA d s
  if esc then (s, true)
  else let (s, c) := s.byteAt d s.p; (s, !(c == q))

def isNotPhpCloseToken (s : LexSt) : LexSt × Bool :=
  if s.p + 1 == (d.size : Int) then (s, true)
  else
    let (s, c) := s.byteAt d s.p
    if c != 63 then (s, true)
    else let (s, d) := s.byteAt d (s.p + 1); (s, d != 62)

def isNotNewLine (s : LexSt) : LexSt × Bool :=
  let (s, c) := s.byteAt d s.p
  let (s, b) := s.byteAt d (s.p - 1)
  if c == 10 && b == 13 then (s, true) else (s, b != 10 && b != 13)

/-- the `when` conditions of the transition function, by the code gofacts gives them -/
def evalWhen (s : LexSt) (code : Nat) : LexSt × Bool :=
  match code with
  | 0 => isNotPhpCloseToken d s
  | 1 => isNotNewLine d s
  | 2 => let (s, b) := isHeredocEnd d s s.p; (s, !b)
  | 3 => isNotStringVar d s
  | 4 => isNotStringEnd d s 96
  | 5 => isNotStringEnd d s 34
  | _ => (s.setFault "unknown condition", false)

/-- strconv.ParseInt(s, base, 0) succeeds: non-empty, digits of the base only, fits int64 -/
def parseIntOk (ds : List UInt8) (base : Nat) : Bool :=
  let val (c : UInt8) : Nat :=
    if 48 ≤ c && c ≤ 57 then c.toNat - 48 else if 97 ≤ c && c ≤ 122 then c.toNat - 87 else if 65 ≤ c && c ≤ 90 then c.toNat - 55 else 99
  !ds.isEmpty && ds.all (fun c => val c < base) && ds.foldl (fun a c => a * base + val c) 0 < 9223372036854775808

def cmpOp (op : Nat) (a b : Int) : Bool :=
  match op with
  | 0 => a == b | 1 => a != b | 2 => a < b | 3 => a > b | 4 => a ≤ b | _ => a ≥ b

def evalSC : SC → LexSt → LexSt × Bool
  | .cmp op a b, s => let (s, x) := evalSE d a s; let (s, y) := evalSE d b s; (s, cmpOp op x y)
  | .and a b, s => let (s, x) := evalSC a s; if x then evalSC b s else (s, false)
  | .or a b, s => let (s, x) := evalSC a s; if x then (s, true) else evalSC b s
  | .not a, s => let (s, x) := evalSC a s; (s, !x)
  | .parseOk, s => (s, s.parseOk)
  | .docFlag, s => (s, s.docFlag)
  | .heredocEnd e, s => let (s, i) := evalSE d e s; isHeredocEnd d s i
  | .varStart e, s => let (s, b) := evalSE d e s; (s, isValidVarNameStart b)
  | .sliceIs a b lit, s =>
    let (s, x) := evalSE d a s
    let (s, y) := evalSE d b s
    if x < 0 || y < x || y > d.size then (s.setFault "slice", false)
    else (s, y - x == lit.length && (List.range lit.length).all (fun k => (d[x.toNat + k]?).map (·.toNat) == lit[k]?))

def gotoPC (code : Nat) : PC := if code < 10000 then .st code else .tr code

def setTokenPosition (s : LexSt) : Nat × Nat × Int × Int := (s.getLine s.ts, s.getLine (s.te - 1), s.ts, s.te)

def listSet (l : List Int) (i : Nat) (v : Int) : List Int := l.set i v

def growStack (s : LexSt) : LexSt := if s.top == (s.stack.length : Int) then { s with stack := s.stack ++ [0] } else s

mutual
/-- run an instruction list; `some pc` = control left the list -/
def execSI : Nat → List SI → LexSt → LexSt × Option PC
  | 0, _, s => (s.setFault "fuel", some .out)
  | _, [], s => (s, none)
  | f + 1, i :: r, s =>
    match exec1 f i s with
    | (s, some pc) => (s, some pc)
    | (s, none) => execSI f r s
def exec1 : Nat → SI → LexSt → LexSt × Option PC
  | _, .setTe e, s => let (s, v) := evalSE d e s; ({ s with te := v }, none)
  | _, .setTs e, s => let (s, v) := evalSE d e s; ({ s with ts := v }, none)
  | _, .setP e, s => let (s, v) := evalSE d e s; ({ s with p := v }, none)
  | _, .setAct n, s => ({ s with act := n }, none)
  | _, .setCs n, s => ({ s with cs := n }, none)
  | _, .csFromStack, s =>
    if s.top < 0 then (s.setFault "stack index", none) else
    match s.stack[s.top.toNat]? with
    | some v => ({ s with cs := v }, none)
    | none => (s.setFault "stack index", none)
  | _, .topInc, s => ({ s with top := s.top + 1 }, none)
  | _, .topDec, s => ({ s with top := s.top - 1 }, none)
  | _, .stackSet n, s =>
    if 0 ≤ s.top ∧ s.top < (s.stack.length : Int) then ({ s with stack := listSet s.stack s.top.toNat n }, none)
    else (s.setFault "stack index", none)
  | _, .tokPos, s => ({ s with tokPos := some (setTokenPosition s) }, none)
  | _, .addFF id a b, s =>
    let (s, x) := evalSE d a s
    let (s, y) := evalSE d b s
    -- addFreeFloatingToken slices data[ps:pe] and takes the position from the CURRENT ts / te
    let s := if x < 0 || y < x || y > d.size then s.setFault "slice" else s
    let (sl, el, sp, ep) := setTokenPosition s
    ({ s with ffs := s.ffs ++ [{ id := id, sp := sp, ep := ep, sl := sl, el := el }] }, none)
  | _, .ungetCnt e, s => let (s, n) := evalSE d e s; ({ s with p := s.p - n, te := s.te - n }, none)
  | _, .ungetStr lit, s =>
    -- strings.HasSuffix(string(data[ts:te]), lit)
    let s := if s.ts < 0 || s.te < s.ts || s.te > d.size then s.setFault "slice" else s
    let n : Int := lit.length
    if s.te - s.ts ≥ n && (List.range lit.length).all (fun k => (d[(s.te - n).toNat + k]?).map (·.toNat) == lit[k]?)
    then ({ s with p := s.p - n, te := s.te - n }, none) else (s, none)
  | _, .call st fnext, s =>
    let s := growStack s
    if 0 ≤ s.top ∧ s.top < (s.stack.length : Int) then
      ({ s with stack := listSet s.stack s.top.toNat st, top := s.top + 1, p := s.p + 1, cs := fnext }, none)
    else (s.setFault "stack index", none)
  | _, .ret n, s =>
    if s.top < n then ({ s with top := 0, p := s.p + 1 }, none)
    else
      let t := s.top - n
      if 0 ≤ t ∧ t < (s.stack.length : Int) then ({ s with top := t, cs := (s.stack[t.toNat]?).getD s.cs, p := s.p + 1 }, none)
      else (s.setFault "stack index", none)
  | _, .grow, s => (growStack s, none)
  | _, .err, s =>
    let (s, c) := s.byteAt d s.p
    ({ s with errs := s.errs ++ [(c.toNat, s.getLine s.ts, s.getLine (s.te - 1), s.ts, s.te)] }, none)
  | _, .nlAppend e, s => let (s, v) := evalSE d e s; ({ s with nl := NL.append s.nl v.toNat }, none)
  | _, .tok id, s => ({ s with tok := id }, none)
  | _, .tokFirst, s => let (s, c) := s.byteAt d s.ts; ({ s with tok := c.toNat }, none)
  | _, .setBase n, s => ({ s with base := n }, none)
  | _, .setDigits a b, s =>
    let (s, x) := evalSE d a s
    let (s, y) := evalSE d b s
    if x < 0 || y < x || y > d.size then (s.setFault "slice", none)
    else ({ s with digits := ((d.extract x.toNat y.toNat).toList.filter (· != 95)) }, none)
  | _, .parse b, s => ({ s with parseOk := parseIntOk s.digits (b.getD s.base) }, none)
  | _, .setDoc b, s => ({ s with docFlag := b }, none)
  | _, .lblStart, s => ({ s with lblS := s.p }, none)
  | _, .lblEnd, s => ({ s with lblE := s.p }, none)
  | _, .setLabel, s =>
    if s.lblS < 0 || s.lblE < s.lblS || s.lblE > d.size then (s.setFault "slice", none)
    else ({ s with label := (d.extract s.lblS.toNat s.lblE.toNat).toList }, none)
  | _, .goto code, s => (s, some (gotoPC code))
  | _, .again, s => (s, some .again)
  | _, .out, s => (s, some .out)
  | f, .blk l, s => execSI f l s
  | f, .ite c t e, s =>
    let (s, b) := evalSC d c s
    if b then execSI f t s else execSI f e s
  | f, .swAct cases, s =>
    match cases.find? (fun c => (c.1 : Int) == s.act) with
    | some c => execSI f c.2 s
    | none => (s, none)
end

/-- the program: tables regenerated from scanner.go -/
structure ScanProg where
  rows : Array (List DFARow)           -- by state
  trs : Array (List SI)                -- by action-block number (code - 10000)
  eof : List (Nat × Nat)
  toState : List Nat
  toStateAct : List Nat
  fromState : List Nat

def mkScanProg (rows : List DFARow) (trs : List (Nat × List SI)) (eof : List (Nat × Nat)) (toS toA fromS : List Nat) : ScanProg :=
  let n := rows.foldl (fun m r => max m (r.state + 1)) 0
  let ra := rows.foldl (fun (a : Array (List DFARow)) r => a.modify r.state (fun l => l ++ [r])) (Array.replicate n [])
  let m := trs.foldl (fun m t => max m (t.1 - 10000 + 1)) 0
  let ta := trs.foldl (fun (a : Array (List SI)) t => a.set! (t.1 - 10000) t.2) (Array.replicate m [])
  { rows := ra, trs := ta, eof := eof, toState := toS, toStateAct := toA, fromState := fromS }

/-- the transition out of state `n` on the byte at `p` -/
def transition (pr : ScanProg) (n : Nat) (s : LexSt) : LexSt × Nat :=
  let (s, b) := s.byteAt d s.p
  match (pr.rows[n]?).getD [] with
  | [] => (s.setFault s!"no row for state {n}", 0)
  | [r] => (s, r.target b.toNat)
  | r :: rs =>
    -- several rows: the state has `when` conditions; they matter only where the rows disagree
    let t0 := r.target b.toNat
    if rs.all (fun x => x.target b.toNat == t0) then (s, t0)
    else
      let (s, vals) := r.conds.foldl (fun (acc : LexSt × List (Nat × Nat)) c =>
        let (s, v) := evalWhen d acc.1 c.1
        (s, acc.2 ++ [(c.1, if v then 1 else 0)])) (s, [])
      match (r :: rs).find? (fun x => x.conds.all (fun c => vals.contains c)) with
      | some x => (s, x.target b.toNat)
      | none => (s.setFault "no row matches the conditions", 0)

/-- one control step -/
def stepPC (pr : ScanProg) (pc : PC) (s : LexSt) : LexSt × PC :=
  match pc with
  | .resume => (s, .stCase s.cs.toNat)
  | .again => if s.cs == 0 then ({ s with cs := 0 }, .out) else (s, .st s.cs.toNat)
  | .st n =>
    let s := if pr.toState.contains n then { s with ts := 0 } else s
    let s := if pr.toStateAct.contains n then { s with act := 0 } else s
    let s := { s with p := s.p + 1 }
    if s.p == s.pe then ({ s with cs := n }, .testEof) else (s, .stCase n)
  | .stCase n =>
    if n == 0 then ({ s with cs := 0 }, .out) else
    let s := if pr.fromState.contains n then { s with ts := s.p } else s
    let (s, t) := transition d pr n s
    if t == 0 then ({ s with cs := 0 }, .out) else (s, gotoPC t)
  | .tr code =>
    match execSI d 10000 ((pr.trs[code - 10000]?).getD []) s with
    | (s, some pc) => (s, pc)
    | (s, none) => (s.setFault s!"action block {code} falls through", .out)
  | .testEof =>
    if s.p == s.pe then
      match pr.eof.find? (fun e => (e.1 : Int) == s.cs) with
      | some e => (s, gotoPC e.2)
      | none => (s, .out)
    else (s, .out)
  | .out => (s, .out)

def runPC (pr : ScanProg) : Nat → PC → LexSt → LexSt
  | 0, _, s => s.setFault "fuel"
  | f + 1, pc, s =>
    if pc == .out || s.fault.isSome then s
    else let (s, pc) := stepPC d pr pc s; runPC pr f pc s

structure TokOut where
  id : Nat
  ts : Int
  te : Int
  pos : Option (Nat × Nat × Int × Int)
  ffs : List FFTok
  deriving Repr, Inhabited

/-- `(*Lexer).Lex` -/
def lexOne (pr : ScanProg) (s : LexSt) : LexSt × TokOut :=
  let s := { s with tok := 0, tokPos := none, ffs := [], lblS := 0, lblE := 0 }
  let s := runPC d pr (16 * (d.size + 64)) (if s.p == s.pe then .testEof else .resume) s
  -- epilogue
  let s := if s.ts > s.te then { s with te := s.ts } else s
  let s := if s.ts < 0 || s.te > d.size then s.setFault "slice" else s
  (s, { id := s.tok, ts := s.ts, te := s.te, pos := s.tokPos, ffs := s.ffs })

/-- the token's text is a slice of the source: `tkn.Value = lex.data[lex.ts:lex.te]` does not panic -/
def TokOut.inBounds (t : TokOut) (size : Nat) : Bool := decide (0 ≤ t.ts) && decide (t.ts ≤ t.te) && decide (t.te ≤ (size : Int))

/-- all tokens up to and including the first one with id 0; a token whose bounds are not a slice of the source
    is Go's slice panic -/
def lexAllModel (pr : ScanProg) : Nat → LexSt → List TokOut → LexSt × List TokOut
  | 0, s, acc => (s.setFault "token fuel", acc)
  | f + 1, s, acc =>
    let (s, t) := lexOne d pr s
    if !t.inBounds d.size then (s.setFault "slice", acc)
    else if t.id == 0 || s.fault.isSome then (s, acc ++ [t]) else lexAllModel pr f s (acc ++ [t])

def initLex (ge73 : Bool) (start : Nat) : LexSt :=
  { ge73 := ge73, pe := d.size, cs := start }

end

end PhpVerif
