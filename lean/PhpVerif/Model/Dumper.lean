import PhpVerif.Model.Traverse
/-
M-DUMP: the Go-syntax dumper as a table-driven walk producing a flat event list
(one event per syntactic element of the composite literal).  Hand-modelled
helpers (Go: dumper.go): dumpPosition, dumpToken, dumpTokenList, dumpVertex,
dumpVertexList, dumpValue (text pinned by the translator); the per-kind bodies are the regenerated
table `(fn, label, field)`.  Tie: `diff-dumper` — the real dump text, read back line by line into these
events, under the four option combinations.
-/
namespace PhpVerif

inductive DEv where
  | openNode (kname : Nat)        -- `&ast.K{`
  | close                          -- `},`
  | label (l : Nat)                -- `Label: `
  | posv (p : Pos)                 -- `&position.Position{…},` (always under the label Position)
  | tokOpen                        -- `&token.Token{` / `{`
  | tokId (id : Nat)               -- `ID: token.T_X,`
  | valv (b : Bytes)               -- `[]byte("…"),` (under the label Val resp. the table's label)
  | listOpen (isTok : Bool)        -- `[]ast.Vertex{` / `[]*token.Token{`
  | emptyList (isTok : Bool)       -- `[]ast.Vertex{},` / `[]*token.Token{},`
  deriving Repr, DecidableEq

structure DumpOpts where
  withTokens : Bool
  withPositions : Bool
  deriving Repr, DecidableEq

structure DumpCfg where
  tab : Nat → List (Nat × Nat × Nat)   -- (helper sort, label, field)
  hdr : Nat → Nat                      -- kind ↦ interned name in the literal header
  lblPosition : Nat := 1
  lblVal : Nat := 3
  lblFF : Nat                          -- interned "FreeFloating"
  lblID : Nat

def dumpPos (c : DumpCfg) (o : DumpOpts) : Option Pos → List DEv
  | some p => if o.withPositions then [.label c.lblPosition, .posv p] else []
  | none => []

def dumpFFBody (c : DumpCfg) (o : DumpOpts) (t : FF) : List DEv :=
  [.tokOpen] ++ (if t.id > 0 then [.label c.lblID, .tokId t.id] else [])
    ++ (if t.val.isEmpty then [] else [.label c.lblVal, .valv t.val]) ++ dumpPos c o t.pos ++ [.close]

def dumpTokBody (c : DumpCfg) (o : DumpOpts) (t : Tok) : List DEv :=
  [.tokOpen] ++ (if t.id > 0 then [.label c.lblID, .tokId t.id] else [])
    ++ (if t.val.isEmpty then [] else [.label c.lblVal, .valv t.val]) ++ dumpPos c o t.pos
    ++ (if t.ff.isEmpty then [] else [.label c.lblFF, .listOpen true] ++ t.ff.flatMap (dumpFFBody c o) ++ [.close])
    ++ [.close]

def dumpOp (c : DumpCfg) (o : DumpOpts) (pos : Option Pos) (toks : List (List Tok))
    (vals : List (Option Bytes)) (nn : List Bool) (res : List (List (List DEv))) :
    Nat × Nat × Nat → List DEv
  | (0, _, _) => dumpPos c o pos
  | (1, l, f) =>
      match fieldAt toks f with
      | t :: _ => if o.withTokens then .label l :: dumpTokBody c o t else []
      | [] => []
  | (2, l, f) =>
      if !o.withTokens || !((nn[f]?).getD false) then []
      else if (fieldAt toks f).isEmpty then [.label l, .emptyList true]
      else [.label l, .listOpen true] ++ (fieldAt toks f).flatMap (dumpTokBody c o) ++ [.close]
  | (3, l, f) =>
      match fieldAt res f with
      | r :: _ => .label l :: r
      | [] => []
  | (4, l, f) =>
      if !((nn[f]?).getD false) then []
      else if (fieldAt res f).isEmpty then [.label l, .emptyList false]
      else [.label l, .listOpen false] ++ (fieldAt res f).flatten ++ [.close]
  | (5, l, f) =>
      match (vals[f]?).getD none with
      | some b => [.label l, .valv b]
      | none => []
  | _ => []

mutual
def dump (c : DumpCfg) (o : DumpOpts) : Tree → List DEv
  | .mk k _ pos toks vals kids nn =>
      .openNode (c.hdr k) :: (c.tab k).flatMap (dumpOp c o pos toks vals nn (dumpSlots c o kids)) ++ [.close]
def dumpSlots (c : DumpCfg) (o : DumpOpts) : List (List Tree) → List (List (List DEv))
  | [] => []
  | f :: fs => dumpForest c o f :: dumpSlots c o fs
def dumpForest (c : DumpCfg) (o : DumpOpts) : List Tree → List (List DEv)
  | [] => []
  | t :: ts => dump c o t :: dumpForest c o ts
end

/-- the canonical row of a kind: every schema field once, in declaration order, dumped by
    the helper for its sort under its own name (`Value` is labelled `Val`) -/
def canonRowFrom (lblValue lblVal : Nat) : Nat → List Nat → List Nat → List (Nat × Nat × Nat)
  | i, s :: ss, n :: ns => (s, (if n == lblValue then lblVal else n), i) :: canonRowFrom lblValue lblVal (i+1) ss ns
  | _, _, _ => []

end PhpVerif
