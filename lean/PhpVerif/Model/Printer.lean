import PhpVerif.Model.Tables
import PhpVerif.Model.Traverse
/-
M-PRINT: the printer as a table-driven walk producing the sequence of `write`
calls (items).  Hand-modelled helpers (Go: printer.go):

  printToken(t, def): t == nil && def == nil → nothing; t == nil → write(def);
                      else write every free-floating value, then write(t.Value)
  printNode(n): n != nil → n.Accept(p)           printList(l): every element in order
  printSeparatedList(l, seps, def): for k, nn := range l { printNode(nn);
        if k < len(seps) { printToken(seps[k], def) } else if k < len(l)-1 { write(def) } }
  alt block: if stmt, ok := n.F.(*ast.StmtStmtList); ok && n.G != nil
             { printToken(stmt.Open, nil); printList(stmt.Stmts); printToken(stmt.Close, nil) } else { printNode(n.F) }

The byte-level `write` (state HTML/PHP, `<?php ` and blank insertion) is
M-RENDER (Model/Render.lean); here an item records where the bytes come from.
-/
namespace PhpVerif

inductive Item where
  | tok (t : Tok)            -- a token of the tree: its free-floating values then its value
  | lit (id : Nat)           -- a default lexeme invented by the printer (interned literal)
  | own (v : Bytes)          -- the node's own byte value used as default
  | htmlOpen                 -- StmtInlineHtml: state := PHP, maybe write "?>"
  | htmlClose                -- StmtInlineHtml: state := HTML
  deriving Repr, DecidableEq

structure PrinterCfg where
  tab : Nat → List POp
  slKind : Nat               -- kind number of StmtStmtList
  slOps : List POp           -- the three statements of the alt block, over StmtStmtList's fields

def present {α} (l : List (List α)) (f : Nat) : Bool := !(fieldAt l f).isEmpty

/-- value of a default expression on a node: `none` = nil -/
def dfltEval (toks : List (List Tok)) (vals : List (Option Bytes)) (kids : List (List Tree)) (kidNil : Nat → Bool) :
    Dflt → Option Item
  | .none => none
  | .lit id => some (.lit id)
  | .own f => ((vals[f]?).getD none).map Item.own
  | .ifNode f d => if present kids f then dfltEval toks vals kids kidNil d else none
  | .ifNodeList f d => if kidNil f then none else dfltEval toks vals kids kidNil d
  | .ifNotNodeList f d => if kidNil f then dfltEval toks vals kids kidNil d else none
  | .ifTok f a b => if present toks f then dfltEval toks vals kids kidNil a else dfltEval toks vals kids kidNil b
  | .ifNotTok f d => if present toks f then none else dfltEval toks vals kids kidNil d

/-- printSeparatedList -/
def sepItems (dflt : Item) : List (List Item) → List Tok → List Item
  | [], _ => []
  | [x], [] => x
  | x :: xs, [] => x ++ dflt :: sepItems dflt xs []
  | x :: xs, s :: ss => x ++ .tok s :: sepItems dflt xs ss

/-- items of one printer statement; `res f` = per-child results of field f as (normal, alt-form) -/
def opItems (toks : List (List Tok)) (vals : List (Option Bytes)) (kids : List (List Tree)) (kidNil : Nat → Bool)
    (res : List (List (List Item × List Item))) : POp → List Item
  | .tok f d =>
      match fieldAt toks f with
      | t :: _ => [.tok t]
      | [] => (dfltEval toks vals kids kidNil d).toList
  | .node f => (fieldAt res f).flatMap (·.1)
  | .list f => (fieldAt res f).flatMap (·.1)
  | .sep f g lit => sepItems (.lit lit) ((fieldAt res f).map (·.1)) (fieldAt toks g)
  | .alt f g => if present toks g then (fieldAt res f).flatMap (·.2) else (fieldAt res f).flatMap (·.1)
  | .html f d =>
      .htmlOpen :: (match fieldAt toks f with
        | t :: _ => [.tok t]
        | [] => (dfltEval toks vals kids kidNil d).toList) ++ [.htmlClose]

mutual
/-- `chunks cfg alt t`: the write sequence of printing `t`; with `alt` the node, if it is a
    statement list, is printed by the alt block of its parent (no default braces) -/
def chunks (cfg : PrinterCfg) : Bool → Tree → List Item
  | alt, .mk k _ _ toks vals kids nn =>
      (if alt && k == cfg.slKind then cfg.slOps else cfg.tab k).flatMap
        (opItems toks vals kids (fun g => !((nn[g]?).getD false)) (chunksSlots cfg kids))
def chunksSlots (cfg : PrinterCfg) : List (List Tree) → List (List (List Item × List Item))
  | [] => []
  | f :: fs => chunksForest cfg f :: chunksSlots cfg fs
def chunksForest (cfg : PrinterCfg) : List Tree → List (List Item × List Item)
  | [] => []
  | t :: ts => (chunks cfg false t, chunks cfg true t) :: chunksForest cfg ts
end

/-- child fields in the order the printer statements mention them = source order -/
def srcOrder : List POp → List Nat
  | [] => []
  | .node f :: r => f :: srcOrder r
  | .list f :: r => f :: srcOrder r
  | .sep f _ _ :: r => f :: srcOrder r
  | .alt f _ :: r => f :: srcOrder r
  | _ :: r => srcOrder r

/-- token fields in the order the printer statements mention them -/
def tokOrder : List POp → List Nat
  | [] => []
  | .tok f _ :: r => f :: tokOrder r
  | .html f _ :: r => f :: tokOrder r
  | .sep _ g _ :: r => g :: tokOrder r
  | _ :: r => tokOrder r

end PhpVerif
