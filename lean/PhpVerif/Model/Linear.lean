import PhpVerif.Model.Term
/-
M-LIN: a resource analysis of action paths.  `V.lv` lists what a value *owns*: the tokens stored in its
token fields and the identities (uids) of its nodes — not the tokens its positions refer to.  An action is
*linear* when every such leaf of its result comes from exactly one place: one right-hand-side value (or one
field of it), one node literal of the path.  `linPath` computes, for one path, a symbolic upper bound of the
result's leaves as a list of resources, following `runPath` step by step (versions of `$i` after each store
included); `linOK` demands that the resources do not overlap.  Lemmas/Linear.lean proves the analysis sound;
Props/Linear.lean evaluates `linOK` on every regenerated path and lifts it to runs.
-/
namespace PhpVerif

inductive Leaf where
  | tok (i : Nat)
  | uid (u : Nat)
  deriving DecidableEq, Repr

mutual
/-- what a value owns: the tokens in its token fields and the identities of its nodes, in field order -/
def V.lv : V → List Leaf
  | .tok i => [.tok i]
  | .node _ u fs => .uid u :: lvL fs
  | .list xs => lvL xs
  | .nil => []
  | .pos _ _ => []
  | .bytes _ _ => []
  | .bad => []
def lvL : List V → List Leaf
  | [] => []
  | v :: r => v.lv ++ lvL r
end

/-- where a leaf of a result may come from -/
inductive Res where
  | root (i : Nat)            -- `$i` as it was when the production was reduced
  | fld (i f : Nat)           -- field `f` of that `$i`
  | cur                       -- the token lexed last
  | fresh (j : Nat)           -- the identity of the j-th node literal of the path
  deriving DecidableEq, Repr

/-- symbolic state of one `$i` at some point of the action: the fields that have been stored into, each with
    what the value stored last may have brought with it *beyond* what the field held when the production was
    reduced (latest store first, one entry per field) -/
structure SArg where
  ov : List (Nat × List Res) := []
  deriving Repr

/-- symbolic right-hand side: states of the `$i` that have been stored into (absent = untouched) -/
abbrev SEnv := List (Nat × SArg)

def sget (e : SEnv) (i : Nat) : SArg :=
  match e.find? (fun x => x.1 == i) with
  | some x => x.2
  | none => {}

def sset (e : SEnv) (i : Nat) (a : SArg) : SEnv := (i, a) :: e

structure SCtx where
  envs : List SEnv
  objs : List (List Res)

def slastEnv : List SEnv → SEnv
  | [] => []
  | [e] => e
  | _ :: r => slastEnv r

def senvAt (envs : List SEnv) (k : Nat) : SEnv :=
  match envs[k]? with
  | some e => e
  | none => slastEnv envs

def ovGet (ov : List (Nat × List Res)) (f : Nat) : List Res :=
  match ov.find? (fun e => e.1 == f) with
  | some e => e.2
  | none => []

def ovSet (ov : List (Nat × List Res)) (f : Nat) (b : List Res) : List (Nat × List Res) :=
  (f, b) :: ov.filter (fun e => !(e.1 == f))

def ovAll : List (Nat × List Res) → List Res
  | [] => []
  | e :: r => e.2 ++ ovAll r

def wholeB (e : SEnv) (i : Nat) : List Res := .root i :: ovAll (sget e i).ov

/-- field `f` of `$i` now: what it held at the reduction, plus what was stored into it -/
def fieldB (e : SEnv) (i f : Nat) : List Res := .fld i f :: ovGet (sget e i).ov f

/-- `t.(*K).F`: precise when `t` is a right-hand-side value, otherwise everything `t` owns -/
def fldB (sc : SCtx) (t : Tm) (f : Nat) (rec : List Res) : List Res :=
  match t with
  | .argAt k i => fieldB (senvAt sc.envs k) i f
  | .arg i => fieldB (slastEnv sc.envs) i f
  | _ => rec

mutual
def bTm (sc : SCtx) : Tm → List Res
  | .argAt k i => wholeB (senvAt sc.envs k) i
  | .arg i => wholeB (slastEnv sc.envs) i
  | .cur => [.cur]
  | .nil => []
  | .fld t f => fldB sc t f (bTm sc t)
  | .obj j => (sc.objs[j]?).getD []
  | .list xs => bTms sc xs
  | .app b xs => bTm sc b ++ bTms sc xs
  | .cat a b => bTm sc a ++ bTm sc b
  | .idx0 t => bTm sc t
  | .last t => bTm sc t
  | .tail t => bTm sc t
  | .init t => bTm sc t
  | .bytes _ _ => []
  | .pos _ _ => []
  | .chain acc l _ => bTm sc acc ++ bTm sc l
  | .nest l inner _ => bTm sc l ++ bTm sc inner
def bTms (sc : SCtx) : List Tm → List Res
  | [] => []
  | t :: ts => bTm sc t ++ bTms sc ts
end

def bObjs (sc : SCtx) : List ObjLit → List (List Res) → List (List Res)
  | [], acc => acc
  | o :: os, acc => bObjs sc os (acc ++ [.fresh acc.length :: bTms { sc with objs := acc } o.fields])

/-- one store, symbolically: `$i.F = x` replaces what `F` held.  When `x` was computed from what `F` held at the
    reduction (an append to the field), that resource stays where it is — it is not counted a second time. -/
def sStore (e : SEnv) (i f : Nat) (bx : List Res) : SEnv :=
  let a := sget e i
  let bx' := if bx.contains (.fld i f) then bx.erase (.fld i f) else bx
  sset e i { ov := ovSet a.ov f bx' }

/-- a store further down (`$i.F.G = x`, `$i[0].G = x`): whatever `x` brings is added to what the first step of the
    path (a field, or the first / last element of a list) leads to -/
def sStorePath (e : SEnv) (i p : Nat) (bx : List Res) : SEnv :=
  let a := sget e i
  sset e i { ov := (p, bx ++ ovGet a.ov p) :: a.ov }

/-- the stores of a path -/
def sRunMuts (objs : List ObjLit) : List TMut → List SEnv → Option (List SEnv)
  | [], envs => some envs
  | m :: ms, envs =>
    let sc0 : SCtx := { envs := envs, objs := [] }
    let sc : SCtx := { sc0 with objs := bObjs sc0 objs [] }
    let env := slastEnv envs
    if m.arg == 0 then sRunMuts objs ms (envs ++ [env])
    else match m.path with
      | [] => sRunMuts objs ms (envs ++ [sStore env m.arg m.field (bTm sc m.val)])
      | p :: _ => sRunMuts objs ms (envs ++ [sStorePath env m.arg p (bTm sc m.val)])

def sPathCtx (p : TPath) : Option SCtx :=
  match sRunMuts p.objs p.muts [[]] with
  | none => none
  | some envs =>
    let sc1 : SCtx := { envs := envs, objs := [] }
    some { sc1 with objs := bObjs sc1 p.objs [] }

def Res.overlap : Res → Res → Bool
  | .root i, .root j => i == j
  | .root i, .fld j _ => i == j
  | .fld i _, .root j => i == j
  | .fld i f, .fld j g => i == j && f == g
  | .cur, .cur => true
  | .fresh i, .fresh j => i == j
  | _, _ => false

/-- no two resources of the list overlap -/
def disjointRes : List Res → Bool
  | [] => true
  | r :: rs => rs.all (fun x => !r.overlap x) && disjointRes rs

def freshOK (n : Nat) (b : List Res) : Bool :=
  b.all (fun r => match r with
    | .fresh j => j < n
    | _ => true)

/-- the path is linear: what it returns (and what it stores as the root) takes every leaf from one place -/
def linOK (p : TPath) : Bool :=
  match sPathCtx p with
  | none => false
  | some sc =>
    (match p.ret with
     | none => true
     | some t => let b := bTm sc t; disjointRes b && freshOK p.objs.length b && !b.contains .cur) &&
    (match p.root with
     | none => true
     | some t => let b := bTm sc t; disjointRes b && freshOK p.objs.length b)

def notLinear (ps : List TPath) : List (Nat × Nat) :=
  (ps.filter (fun p => !linOK p)).map (fun p => (p.prod, p.path))

end PhpVerif
