/-
Op vocabularies of the regenerated tables (the translator `gofacts` emits values
of these types from the Go visitor sources).  Field numbers are positions in the
Go struct declaration of the node kind (0 = Position).
-/
namespace PhpVerif

/-- default-lexeme expression of a `printToken(n.F, D)` call -/
inductive Dflt where
  | none
  | lit (id : Nat)                         -- `[]byte("…")`, interned
  | own (f : Nat)                          -- the node's own byte value field
  | ifNode (f : Nat) (d : Dflt)            -- p.ifNode(n.F, D)
  | ifNodeList (f : Nat) (d : Dflt)
  | ifNotNodeList (f : Nat) (d : Dflt)
  | ifTok (f : Nat) (a b : Dflt)           -- p.ifToken(n.F, A, B)
  | ifNotTok (f : Nat) (d : Dflt)
  deriving Repr, DecidableEq

/-- one statement of a printer method -/
inductive POp where
  | tok (f : Nat) (d : Dflt)               -- p.printToken(n.F, D)
  | node (f : Nat)                         -- p.printNode(n.F)
  | list (f : Nat)                         -- p.printList(n.F)
  | sep (f g lit : Nat)                    -- p.printSeparatedList(n.F, n.G, lit)
  | alt (f g : Nat)                        -- the alt-syntax block on child F guarded by token G
  | html (f : Nat) (d : Dflt)              -- StmtInlineHtml body
  deriving Repr, DecidableEq

/-- field sorts of the node schema -/
abbrev sPos : Nat := 0
abbrev sTok : Nat := 1
abbrev sToks : Nat := 2
abbrev sNode : Nat := 3
abbrev sNodes : Nat := 4
abbrev sVal : Nat := 5

end PhpVerif
