import PhpVerif.Model.Scan
import PhpVerif.Model.Term
/-
The whole library function `parser.Parse` as one Lean function: bytes → scanner model (M-SCANX) →
token stream → driver + actions (M-YY, M-TERM) → tree.  Nothing here is new: it composes the two
models; `diff-pipeline` compares the composition with the real `parser.Parse` on source bytes.
-/
namespace PhpVerif

/-- what the parser needs to know about a token the scanner returned -/
def tokInfoOf (numString : Nat) (data : Array UInt8) (t : TokOut) : TokInfo :=
  { id := t.id,
    pos := t.pos.map (fun p => ((p.1 : Int), (p.2.1 : Int), p.2.2.1, p.2.2.2)),
    val := if t.id == numString then some ((data.extract t.ts.toNat t.te.toNat).toList.map (·.toNat)) else none }

structure ParseOut where
  code : Option Nat
  root : Option V
  semErrors : Nat
  lexErrors : Nat
  toks : List TokOut
  infos : Array TokInfo        -- what the positions of `root` refer to
  fault : Option String

/-- `parser.Parse(src, {Version})` for a version of the family that `tables` / `paths` belong to -/
def parseBytes (pr : ScanProg) (t : YYTab) (combs : List PosComb) (tbl : PathTable) (numString : Nat) (ge73 : Bool) (src : Array UInt8) : ParseOut :=
  let (ls, toks) := lexAllModel src pr (src.size + 16) (initLex src ge73 113) []
  match ls.fault with
  | some m => { code := none, root := none, semErrors := 0, lexErrors := ls.errs.length, toks := toks, infos := #[], fault := some ("scanner: " ++ m) }
  | none =>
    let infos := (toks.map (tokInfoOf numString src)).toArray
    match parseTokens t combs tbl infos with
    | .error _ => { code := none, root := none, semErrors := 0, lexErrors := ls.errs.length, toks := toks, infos := infos, fault := some "driver" }
    | .ok (c, s) => { code := c, root := s.aux.root, semErrors := s.aux.reports, lexErrors := ls.errs.length, toks := toks, infos := infos, fault := none }

end PhpVerif
