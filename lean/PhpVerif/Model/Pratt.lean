/-
Reference parser for PHP's operator expressions: precedence climbing driven by a precedence table
(level, associativity) — the executable reading of "operators group according to PHP's documented
precedence and associativity".  Used by the C03 oracle through the driver: the grouping of generated
operator chains by the real parser is compared with this reference.

Token language (what the harness sends): atoms, prefix operators, infix operators, `?` `:`,
assignment operators (left operand must be a variable: `variable '=' expr`), `instanceof` + name.
-/
namespace PhpVerif.Pratt

inductive Tk where
  | atom (s : String) (isVar : Bool)
  | pre (op : String) (level : Nat)             -- prefix operator with the level of its production
  | bin (op : String) (level : Nat) (assoc : Nat) -- 0 left, 1 right, 2 nonassoc
  | asg (op : String) (level : Nat)             -- assignment operator
  | quest (level : Nat)
  | colon
  | inst (level : Nat)
  deriving Repr, DecidableEq

inductive Ex where
  | atom (s : String) (isVar : Bool)
  | pre (op : String) (e : Ex)
  | bin (op : String) (l r : Ex)
  | asg (op : String) (v e : Ex)
  | tern (c t e : Ex)
  | short (c e : Ex)
  | inst (e n : Ex)
  deriving Repr

def Ex.render : Ex → String
  | .atom s _ => s
  | .pre op e => "(" ++ op ++ " " ++ e.render ++ ")"
  | .bin op l r => "(" ++ l.render ++ " " ++ op ++ " " ++ r.render ++ ")"
  | .asg op v e => "(" ++ v.render ++ " " ++ op ++ " " ++ e.render ++ ")"
  | .tern c t e => "(" ++ c.render ++ " ? " ++ t.render ++ " : " ++ e.render ++ ")"
  | .short c e => "(" ++ c.render ++ " ? : " ++ e.render ++ ")"
  | .inst e n => "(" ++ e.render ++ " instanceof " ++ n.render ++ ")"

/-- rightmost operand of an expression is a variable: where an assignment operator may attach -/
def attachAsg (op : String) (rhs : Ex) : Ex → Option Ex
  | .atom s true => some (.asg op (.atom s true) rhs)
  | .atom _ false => none
  | .pre o e => (attachAsg op rhs e).map (.pre o)
  | .bin o l r => (attachAsg op rhs r).map (.bin o l)
  | .asg o v e => (attachAsg op rhs e).map (.asg o v)
  | .tern c t e => (attachAsg op rhs e).map (.tern c t)
  | .short c e => (attachAsg op rhs e).map (.short c)
  | .inst _ _ => none

abbrev P := Option (Ex × List Tk)

mutual
/-- parse an expression whose infix operators all have level ≥ minLvl; `nonAt`: a non-associative
    operator of that level has just been consumed (a second one in a row is an error) -/
def parseExpr (fuel : Nat) (minLvl : Nat) (ts : List Tk) : P :=
  match fuel with
  | 0 => none
  | fuel + 1 =>
    match parsePrefix fuel ts with
    | none => none
    | some (lhs, rest) => parseInfix fuel minLvl 0 lhs rest

def parsePrefix (fuel : Nat) (ts : List Tk) : P :=
  match fuel with
  | 0 => none
  | fuel + 1 =>
    match ts with
    | .atom s v :: rest => some (.atom s v, rest)
    | .pre op lvl :: rest =>
      match parseExpr fuel lvl rest with
      | some (e, r) => some (.pre op e, r)
      | none => none
    | _ => none

def parseInfix (fuel : Nat) (minLvl : Nat) (lastNon : Nat) (lhs : Ex) (ts : List Tk) : P :=
  match fuel with
  | 0 => none
  | fuel + 1 =>
    match ts with
    | .bin op lvl assoc :: rest =>
      if lvl < minLvl then some (lhs, ts)
      else if assoc == 2 && lastNon == lvl then none       -- a == b == c
      else
        let next := if assoc == 1 then lvl else lvl + 1
        match parseExpr fuel next rest with
        | some (rhs, r) => parseInfix fuel minLvl (if assoc == 2 then lvl else 0) (.bin op lhs rhs) r
        | none => none
    | .inst lvl :: .atom n false :: rest =>
      -- the right operand of instanceof is a class name, not an expression: after it the only move is to
      -- reduce, so the %nonassoc declaration never comes into play and chains group to the left
      if lvl < minLvl then some (lhs, ts)
      else parseInfix fuel minLvl 0 (.inst lhs (.atom n false)) rest
    | .quest lvl :: .colon :: rest =>
      if lvl < minLvl then some (lhs, ts)
      else match parseExpr fuel (lvl + 1) rest with
        | some (e, r) => parseInfix fuel minLvl 0 (.short lhs e) r
        | none => none
    | .quest lvl :: rest =>
      if lvl < minLvl then some (lhs, ts)
      else match parseExpr fuel 0 rest with
        | some (t, .colon :: r) =>
          match parseExpr fuel (lvl + 1) r with
          | some (e, r2) => parseInfix fuel minLvl 0 (.tern lhs t e) r2
          | none => none
        | _ => none
    | .asg op lvl :: rest =>
      -- `variable '=' expr`: the operator attaches to the variable at the right end of what has been
      -- read (yacc shifts), its right operand takes everything that binds tighter than assignment
      match parseExpr fuel lvl rest with
      | some (rhs, r) =>
        match attachAsg op rhs lhs with
        | some e => parseInfix fuel minLvl 0 e r
        | none => none
      | none => none
    | _ => some (lhs, ts)
end

def parseAll (ts : List Tk) : Option Ex :=
  match parseExpr (4 * ts.length + 8) 0 ts with
  | some (e, []) => some e
  | _ => none

end PhpVerif.Pratt

namespace PhpVerif.Pratt

def levelOf (tab : List (Nat × String × String)) (sym : String) : Option (Nat × Nat) :=
  (tab.find? (fun e => e.2.2 == sym)).map (fun e => (e.1, if e.2.1 == "left" then 0 else if e.2.1 == "right" then 1 else 2))

/-- words of the harness, fields separated by U+001F: `v $a`, `n Foo`, `pre SYMBOL text`, `bin SYMBOL text`, `asg SYMBOL text`, `q '?'`, `c`, `i T_INSTANCEOF` -/
def mkToken (tab : List (Nat × String × String)) (w : String) : Option Tk :=
  match w.splitOn "\x1f" with
  | ["v", s] => some (.atom s true)
  | ["n", s] => some (.atom s false)
  | ["pre", sym, txt] => (levelOf tab sym).map (fun la => .pre txt la.1)
  | ["bin", sym, txt] => (levelOf tab sym).map (fun la => .bin txt la.1 la.2)
  | ["asg", sym, txt] => (levelOf tab sym).map (fun la => .asg txt la.1)
  | ["q", sym] => (levelOf tab sym).map (fun la => .quest la.1)
  | ["c"] => some .colon
  | ["i", sym] => (levelOf tab sym).map (fun la => .inst la.1)
  | _ => none

def climb (tab : List (Nat × String × String)) (ws : List String) : String :=
  match ws.mapM (mkToken tab) with
  | none => "bad-token"
  | some ts =>
    match parseAll ts with
    | some e => e.render
    | none => "error"

end PhpVerif.Pratt
