/-
M-DFA: the transition function of the ragel-generated scanner as data.  gofacts (scandfa.go) runs every
`st_case_N` segment of `Lex` for all 256 byte values (and all outcomes of the `when` conditions the
segment calls) and records the label it jumps to: a state `stK` (code K), an action block `trM`
(code 10000 + M, which ends in `goto stK`), or the error state (code 0).  A row lists the targets as
byte intervals `(last byte of the interval, target)`.
-/
namespace PhpVerif

structure DFARow where
  state : Nat
  conds : List (Nat × Nat)      -- outcome (1 = true) of each `when` condition of the state, for this row
  ivs : List (Nat × Nat)        -- intervals in increasing order of their last byte
  deriving Repr

/-- target of byte `b` -/
def DFARow.target (r : DFARow) (b : Nat) : Nat :=
  match r.ivs.find? (fun iv => b ≤ iv.1) with
  | some iv => iv.2
  | none => 0

/-- the intervals cover 0..255 in increasing order -/
def ivsOK : List (Nat × Nat) → Nat → Bool
  | [], _ => false
  | [(hi, _)], lo => lo ≤ hi && hi == 255
  | (hi, _) :: r, lo => lo ≤ hi && hi < 255 && ivsOK r (hi + 1)

def rowCaseBlind (r : DFARow) : Bool :=
  (List.range 26).all (fun k => r.target (65 + k) == r.target (97 + k))

/-- a line terminator is never consumed silently: the transition on LF / CR runs the new_line action, gives
    the byte back (it is read again by the state the scanner continues in), or is the error transition -/
def rowNewlineOK (nl hold : List Nat) (r : DFARow) : Bool :=
  [10, 13].all (fun b => let t := r.target b; t == 0 || nl.contains t || hold.contains t)

end PhpVerif
