/-
M-DFA: the transition function of the ragel-generated scanner as data.  gofacts (scandfa.go) runs every
`st_case_N` segment of `Lex` for all 256 byte values (and all outcomes of the `when` conditions the
segment calls) and records the label it jumps to: a state `stK` (code K), an action block `trM`
(code 10000 + M, which ends in `goto stK`), or the error state (code 0).  A row lists the targets as
byte intervals `(last byte of the interval, target)`.
-/
namespace PhpVerif

/-- a name as a number (its bytes as base-256 digits), computed when the source is elaborated: tables that the
    kernel evaluates hold no strings -/
def nameCode (s : String) : Nat := s.toUTF8.foldl (fun a b => a * 256 + b.toNat) 0

open Lean in
macro "nm!" s:str : term => do
  let n := nameCode s.getString
  return Syntax.mkNumLit (toString n)

open Lean in
/-- the bytes of a string literal as a list of numbers -/
macro "bytes!" s:str : term => do
  let bs : Array (TSyntax `term) := (s.getString.toUTF8.toList.map (fun b => (Syntax.mkNumLit (toString b.toNat) : TSyntax `term))).toArray
  `([$bs,*])

structure DFARow where
  state : Nat
  conds : List (Nat × Nat)      -- outcome (1 = true) of each `when` condition of the state, for this row
  ivs : List (Nat × Nat)        -- intervals in increasing order of their last byte
  deriving Repr

/-- target of byte `b` -/
def DFARow.target (r : DFARow) (b : Nat) : Nat :=
  match r.ivs.find? (fun iv => b ≤ iv.1) with
  | some iv => iv.2
  | none => 0

/-- the intervals cover 0..255 in increasing order -/
def ivsOK : List (Nat × Nat) → Nat → Bool
  | [], _ => false
  | [(hi, _)], lo => lo ≤ hi && hi == 255
  | (hi, _) :: r, lo => lo ≤ hi && hi < 255 && ivsOK r (hi + 1)

def rowCaseBlind (r : DFARow) : Bool :=
  (List.range 26).all (fun k => r.target (65 + k) == r.target (97 + k))

/-- a line terminator is never consumed silently: the transition on LF / CR runs the new_line action, gives
    the byte back (it is read again by the state the scanner continues in), or is the error transition -/
def rowNewlineOK (nl hold : List Nat) (r : DFARow) : Bool :=
  [10, 13].all (fun b => let t := r.target b; t == 0 || nl.contains t || hold.contains t)

/-- what an action block `trM` does, as far as token recognition goes -/
structure TrInfo where
  id : Nat                          -- 10000 + M
  act : Option Nat                  -- `lex.act = N`
  emits : Bool                      -- contains `goto _out`: a token is returned
  toks : List Nat                   -- token numbers the block may assign (999999: the token's own first byte)
  sw : List (Nat × List Nat)        -- `switch lex.act`: per case, the token numbers it may assign
  next : Nat                        -- `goto stK` at its end (0: none)
  ffs : List Nat := []              -- ids of the free-floating tokens the block attaches (addFreeFloatingToken)
  hold : Bool := false              -- the block moves p back: the byte that led to it is read again
  deriving Repr

structure ScanRes where
  tok : Option Nat       -- the token returned, when it is determined
  consumed : Nat         -- bytes read when the token was returned

/-- run the transition table (one row per state) from state `cs` with the `act` register on the bytes `bs`;
    stop at the first action block that returns a token -/
def scanRun (rows : List DFARow) (trs : List TrInfo) : Nat → Option Nat → List Nat → Nat → Option ScanRes
  | _, _, [], _ => none
  | cs, act, b :: rest, n =>
    match rows.find? (fun r => r.state == cs) with
    | none => none
    | some row =>
      let t := row.target b
      if t == 0 then none
      else if t < 10000 then scanRun rows trs t act rest (n + 1)
      else
        match trs.find? (fun x => x.id == t) with
        | none => none
        | some ti =>
          let act' := match ti.act with
            | some a => some a
            | none => act
          if ti.emits then
            let cand := if ti.sw.isEmpty then ti.toks
              else match act with
                | some a => ((ti.sw.find? (fun c => c.1 == a)).map (·.2)).getD []
                | none => []
            match cand with
            | [k] => some { tok := some k, consumed := n }
            | _ => some { tok := none, consumed := n }
          else if ti.next == 0 then none
          else scanRun rows trs ti.next act' rest (n + 1)

/-- the token the scanner (entry state `start`) returns first on `word` followed by `delim`, if the run with
    every `when` condition false (`rows0`) and the run with every condition true (`rows1`) agree on it -/
def scanWord (rows0 rows1 : List DFARow) (trs : List TrInfo) (start : Nat) (word : List Nat) (delim : Nat) : Option Nat :=
  match scanRun rows0 trs start none (word ++ [delim]) 0, scanRun rows1 trs start none (word ++ [delim]) 0 with
  | some a, some b => if a.tok == b.tok then a.tok else none
  | _, _ => none

end PhpVerif
