import PhpVerif.Model.Tree
import PhpVerif.Model.Nsr
/-
M-NSRT: the name resolver as a visitor over a whole tree — `traverser.NewTraverser(nsr).Traverse(root)`
with `nsr = nsresolver.NewNamespaceResolver()`.

The traverser (table regenerated from traverser.go, C12) presents every node parents first, children
in table order; for each node the resolver's method of the node's kind runs.  Those methods are
translated by gofacts (tools/gofacts/resolvercode.go) into instruction lists `RI`
(Gen/ResolverCode.lean, regenerated on every run).  Hand-modelled, text pinned by the translator:
NamespaceResolver.{AddAlias, AddNamespacedName, ResolveName, ResolveType}, NewNamespaceResolver,
concatNameParts; the Namespace type is Model/Nsr.lean (tied on its own by diff-nsr).
`EnterNode` / `LeaveNode` / `goDeep` are never called by this traverser: not part of the behaviour.

`ResolvedNames map[ast.Vertex]string` is an association list keyed by the node's path from the root
(newest first); a Go panic (failed type assertion, index out of range) is `none`.

Ghost state: the name of the current namespace and the use declarations seen since it was opened
(`gname`, `ghist`); every entry records the ghost state it was made under (`Entry.ns`, `Entry.hist`).

Tie: `diff-nsrtree` — the final map (path of every key, value) against the real traverser + resolver
on G-tree instances, parsed corpus / grammar-driven trees and generated multi-namespace programs.
-/
namespace PhpVerif.NsrT
open PhpVerif PhpVerif.Nsr

inductive RI0 where
  | nsSwitch (f : Nat)                          -- StmtNamespace: Namespace = NewNamespace(concat(n.F.(*Name).Parts) / "")
  | uses (typeF usesF : Nat) (pre : Option Nat) -- StmtUseList / StmtGroupUseList: AddAlias for every use
  | resName (f k : Nat)                         -- nsr.ResolveName(n.F, kind)   (0 class, 1 function, 2 const)
  | resNames (f k : Nat)                        -- for _, x := range n.F { nsr.ResolveName(x, kind) }
  | resType (f : Nat)                           -- nsr.ResolveType(n.F)
  | resParamTypes (f : Nat)                     -- for _, p := range n.F { nsr.ResolveType(p.(*ast.Parameter).Type) }
  | declare (f : Nat)                           -- nsr.AddNamespacedName(n, string(n.F.(*ast.Identifier).Value))
  | declareEach (f : Nat)                       -- for _, c := range n.F { AddNamespacedName(c, c.(*StmtConstant).Name.(*Identifier).Value) }
  | traitAdapt (f : Nat)                        -- the adaptations loop of StmtTraitUse
  deriving Repr, Inhabited

inductive RI where
  | base (i : RI0)
  | ifSet (f : Nat) (list : Bool) (body : List RI0)   -- if n.F != nil { … }
  deriving Repr, Inhabited

/-- schema numbers the helpers need -/
structure RCfg where
  prog : Nat → List RI
  trav : Nat → List Nat
  (kName kFQ kRel kPart kIdent kParam kNullable kUse kConst kPrec kAlias : Nat)
  (nameParts fqParts relParts partVal identVal paramType nullableExpr : Nat)
  (useType useUse useAlias constName precTrait precInstead aliasTrait : Nat)

abbrev Path := List (Nat × Nat)

structure Entry where
  key : Path
  val : Str
  ns : Str                 -- ghost: namespace the entry was made under
  hist : List UseDecl      -- ghost: use declarations in effect
  ref : Option (NameRef × AKind)   -- ghost: the reference resolved (none: a declaration)
  decl : Option Str        -- ghost: the declared name
  deriving Repr

structure RSt where
  ns : Ns := Ns.new []
  out : List Entry := []
  gname : Str := []
  ghist : List UseDecl := []
  deriving Repr

def kindOf (k : Nat) : AKind := if k == 1 then .fn else if k == 2 then .cst else .cls

def kid? (t : Tree) (f : Nat) : Option Tree := (fieldAt t.kids f).head?
def valOf (t : Tree) (f : Nat) : Str := ((t.vals[f]?).getD none).getD []

/-- string(x.(*ast.NamePart).Value) for every part; `none` = the assertion panics -/
def partsOf (c : RCfg) (ps : List Tree) : Option (List Str) :=
  ps.mapM (fun p => if p.kind == c.kPart then some (valOf p c.partVal) else none)

/-- string(n.F.(*ast.Identifier).Value); `none` = nil interface or another kind: panic -/
def identOf (c : RCfg) (t : Tree) (f : Nat) : Option Str :=
  match kid? t f with
  | some i => if i.kind == c.kIdent then some (valOf i c.identVal) else none
  | none => none

/-- the parts of n.F.(*ast.Name) -/
def namePartsOf (c : RCfg) (t : Tree) (f : Nat) : Option (List Str) :=
  match kid? t f with
  | some n => if n.kind == c.kName then partsOf c (fieldAt n.kids c.nameParts) else none
  | none => none

def aliasKind (ty : Str) : Option AKind :=
  let l := lower ty
  if l == [] then some .cls else if l == s "function" then some .fn else if l == s "const" then some .cst else none

/-- the name node as a reference: `some none` = not a name (ResolveName returns an error, nothing is
    recorded); `none` = panic -/
def refOf (c : RCfg) (n : Tree) : Option (Option NameRef) :=
  if n.kind == c.kFQ then (partsOf c (fieldAt n.kids c.fqParts)).map (fun p => some (.fq p))
  else if n.kind == c.kRel then (partsOf c (fieldAt n.kids c.relParts)).map (fun p => some (.rel p))
  else if n.kind == c.kName then
    match partsOf c (fieldAt n.kids c.nameParts) with
    | some [] => none                       -- nameParts[0]: index out of range
    | some p => some (some (.plain p))
    | none => none
  else some none

/-- nsr.ResolveName(node at path, kind) -/
def resolveName (c : RCfg) (n : Tree) (path : Path) (k : AKind) (st : RSt) : Option RSt :=
  match refOf c n with
  | none => none
  | some none => some st
  | some (some r) =>
    some { st with out := { key := path, val := st.ns.resolve r k, ns := st.gname, hist := st.ghist, ref := some (r, k), decl := none } :: st.out }

/-- nsr.ResolveType: through Nullable to a name; anything else (and nil) is left alone -/
def resolveType (c : RCfg) : Nat → Option Tree → Path → RSt → Option RSt
  | 0, _, _, st => some st
  | _, none, _, st => some st
  | fuel + 1, some n, path, st =>
    if n.kind == c.kNullable then resolveType c fuel (kid? n c.nullableExpr) (path ++ [(c.nullableExpr, 0)]) st
    else if n.kind == c.kName || n.kind == c.kRel || n.kind == c.kFQ then resolveName c n path .cls st
    else some st

def declareAt (path : Path) (name : Str) (st : RSt) : RSt :=
  { st with out := { key := path, val := st.ns.declared name, ns := st.gname, hist := st.ghist, ref := none, decl := some name } :: st.out }

/-- `for i, x := range xs { body x }` with the element's index -/
def forIdx {α} (body : Nat → α → RSt → Option RSt) : Nat → List α → RSt → Option RSt
  | _, [], st => some st
  | i, x :: r, st =>
    match body i x st with
    | none => none
    | some st1 => forIdx body (i + 1) r st1

/-- the part nodes of n.F.(*ast.Name); `none` = nil interface or another kind: panic -/
def namePartNodes (c : RCfg) (t : Tree) (f : Nat) : Option (List Tree) :=
  match kid? t f with
  | some n => if n.kind == c.kName then some (fieldAt n.kids c.nameParts) else none
  | none => none

/-- NamespaceResolver.AddAlias(useType, nn, prefix) -/
def addAlias (c : RCfg) (useType : Str) (pre : List Tree) (u : Tree) (st : RSt) : Option RSt :=
  if u.kind != c.kUse then some st else
  -- use.Type overrides the list's type
  let ty := match kid? u c.useType with
    | some i => if i.kind == c.kIdent then some (valOf i c.identVal) else none
    | none => some useType
  match ty, namePartNodes c u c.useUse with
  | some ty, some useNodes =>
    let alias := match kid? u c.useAlias with
      | none => (match useNodes.getLast? with                                      -- useNameParts[len-1].(*ast.NamePart)
          | some l => if l.kind == c.kPart then some (valOf l c.partVal) else none
          | none => none)
      | some a => if a.kind == c.kIdent then some (valOf a c.identVal) else none
    (match alias, aliasKind ty, partsOf c (pre ++ useNodes) with
     | some alias, some k, some parts =>
       let target := join parts
       some { st with ns := st.ns.addAlias k target alias, ghist := st.ghist ++ [⟨k, target, alias⟩] }
     | _, _, _ => none)                      -- failed assertion / nil map for an unknown alias type: panic
  | _, _ => none

def exec0 (c : RCfg) (t : Tree) (path : Path) : RI0 → RSt → Option RSt
  | .nsSwitch f, st =>
    (match kid? t f with
     | none => some { st with ns := Ns.new [], gname := [], ghist := [] }
     | some _ =>
       match namePartsOf c t f with
       | some parts => some { st with ns := Ns.new (join parts), gname := join parts, ghist := [] }
       | none => none)
  | .uses typeF usesF pre, st =>
    let ty := match kid? t typeF with
      | some i => if i.kind == c.kIdent then some (valOf i c.identVal) else none
      | none => some []
    let prefixParts := match pre with
      | none => some []
      | some pf => if (fieldAt t.kids usesF).isEmpty then some [] else namePartNodes c t pf
    (match ty with
     | none => none
     | some ty =>
       -- n.Prefix.(*ast.Name).Parts is evaluated inside the loop: no uses, no assertion
       match prefixParts with
       | none => none
       | some pp => forIdx (fun _ u st => addAlias c ty pp u st) 0 (fieldAt t.kids usesF) st)
  | .resName f k, st =>
    (match kid? t f with
     | none => some st                                        -- nil interface: the type switch falls through
     | some n => resolveName c n (path ++ [(f, 0)]) (kindOf k) st)
  | .resNames f k, st => forIdx (fun i n st => resolveName c n (path ++ [(f, i)]) (kindOf k) st) 0 (fieldAt t.kids f) st
  | .resType f, st => resolveType c t.size (kid? t f) (path ++ [(f, 0)]) st
  | .resParamTypes f, st =>
    forIdx (fun i p st =>
      if p.kind == c.kParam then resolveType c p.size (kid? p c.paramType) (path ++ [(f, i), (c.paramType, 0)]) st
      else none) 0 (fieldAt t.kids f) st
  | .declare f, st =>
    (match identOf c t f with
     | some name => some (declareAt path name st)
     | none => none)
  | .declareEach f, st =>
    forIdx (fun i k st =>
      if k.kind == c.kConst then
        match identOf c k c.constName with
        | some name => some (declareAt (path ++ [(f, i)]) name st)
        | none => none
      else none) 0 (fieldAt t.kids f) st
  | .traitAdapt f, st =>
    forIdx (fun i a st =>
      if a.kind == c.kPrec then
        let st1 := match kid? a c.precTrait with
          | some n => resolveName c n (path ++ [(f, i), (c.precTrait, 0)]) .cls st
          | none => some st
        match st1 with
        | none => none
        | some st1 => forIdx (fun j n st => resolveName c n (path ++ [(f, i), (c.precInstead, j)]) .cls st) 0 (fieldAt a.kids c.precInstead) st1
      else if a.kind == c.kAlias then
        match kid? a c.aliasTrait with
        | some n => resolveName c n (path ++ [(f, i), (c.aliasTrait, 0)]) .cls st
        | none => some st
      else some st) 0 (fieldAt t.kids f) st

def exec0s (c : RCfg) (t : Tree) (path : Path) : List RI0 → RSt → Option RSt
  | [], st => some st
  | i :: r, st =>
    match exec0 c t path i st with
    | none => none
    | some st1 => exec0s c t path r st1

/-- `n.F != nil` for a child (`list = false`) or a child list (the slice itself) -/
def isSet (t : Tree) (f : Nat) (list : Bool) : Bool :=
  if list then (t.nn[f]?).getD false || !(fieldAt t.kids f).isEmpty else !(fieldAt t.kids f).isEmpty

def execRI (c : RCfg) (t : Tree) (path : Path) : RI → RSt → Option RSt
  | .base i, st => exec0 c t path i st
  | .ifSet f list body, st => if isSet t f list then exec0s c t path body st else some st

def execRIs (c : RCfg) (t : Tree) (path : Path) : List RI → RSt → Option RSt
  | [], st => some st
  | i :: r, st =>
    match execRI c t path i st with
    | none => none
    | some st1 => execRIs c t path r st1

abbrev Walker := Path → RSt → Option RSt

/-- the walkers of field f's children, applied in list order with their index -/
def runField (f : Nat) (ws : List Walker) (path : Path) : Nat → RSt → Option RSt :=
  fun i0 st => (forIdx (fun i (w : Walker) st => w (path ++ [(f, i)]) st) i0 ws st)

def runFields (slots : List (List Walker)) (path : Path) : List Nat → RSt → Option RSt
  | [], st => some st
  | f :: r, st =>
    match runField f (fieldAt slots f) path 0 st with
    | none => none
    | some st1 => runFields slots path r st1

mutual
/-- Traverser.K(n): the visitor's method on n, then the children in table order -/
def walk (c : RCfg) : Tree → Walker
  | .mk k u p toks vals kids nn, path, st =>
    match execRIs c (.mk k u p toks vals kids nn) path (c.prog k) st with
    | none => none
    | some st1 => runFields (walkSlots c kids) path (c.trav k) st1
def walkSlots (c : RCfg) : List (List Tree) → List (List Walker)
  | [] => []
  | f :: fs => walkForest c f :: walkSlots c fs
def walkForest (c : RCfg) : List Tree → List Walker
  | [] => []
  | t :: ts => walk c t :: walkForest c ts
end

/-- the final map: newest entry of every key -/
def finalMap (out : List Entry) : List (Path × Str) :=
  out.foldl (fun acc e => if acc.any (·.1 == e.key) then acc else acc ++ [(e.key, e.val)]) []

def resolveTree (c : RCfg) (t : Tree) : Option (List Entry) := (walk c t [] {}).map (·.out)

end PhpVerif.NsrT
