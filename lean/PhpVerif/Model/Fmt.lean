import PhpVerif.Model.Tree
/-
M-FMT: an executable model of the formatter (pkg/visitor/formatter/formatter.go).

Every one of the 155 per-kind methods is translated by gofacts (tools/gofacts/fmtcode.go) into a list
of instructions `FI` over the fields of the node (Gen/FmtCode.lean, regenerated on every run); the
interpreter below gives the instructions their meaning.  The helpers of the formatter
(addFreeFloating, addIndent, getFreeFloating, newToken with its sign-clash rule and `lastID`, formatList,
formatStmts, newSemicolonTkn, insert, heredocLabel, heredocOpener) are modelled by hand — their text is
pinned by the translator — as is the traversal
(`n.F.Accept(f)` = run the child's own method on the child).

The interpreter reads a node's tokens only through accessors (`curToks … |>.isEmpty`, the token's
value, the halt-compiler entries of its free-floating list): source trivia, token positions and node
positions are never consulted; what it writes goes to an overlay (`NSt.w`, `NSt.kw`), so that the
fields a method leaves alone are visibly the original ones.

Not modelled: positions and identities (the output tree is position-free); `formatter.lastSemiColon`
(written by newSemicolonTkn, reset by formatStmts before its only read: dead state — the translator
pins the text of both).  formatStmts walks a copy of the statement list (since the repair e1694f9), so
its `insert` is the list insertion below whatever the capacity of the Go slice.  A Go panic (nil child
dereferenced, `make` with negative length) is `none`.

Tie: `diff-formatter` — the formatted tree (every token id, value and free-floating entry of every
node) and the bytes the printer model makes of it against the real formatter and printer.
-/
namespace PhpVerif.Fmt
open PhpVerif

/-- conditions of the formatter's `if` / `switch` statements -/
inductive FC where
  | tokNil (f : Nat)                       -- n.F == nil (token field, current value)
  | kidNil (f : Nat)                       -- n.F == nil / len(n.F) == 0 (child field)
  | listNil (f : Nat)                      -- n.F == nil (child-list field: the slice itself)
  | kidKindIn (f : Nat) (ks : List Nat)    -- type switch / assertion on the child n.F
  | tokValHas (f : Nat) (b : Nat)          -- n.F != nil && bytes.IndexByte(n.F.Value, b) >= 0
  | flag (i : Nat)                         -- a local boolean
  | not (c : FC)
  | and (a b : FC)
  | or (a b : FC)
  deriving Repr, Inhabited

abbrev Ws := Nat × List Nat                -- addFreeFloating(id, lit)

inductive FI where
  | newTok (f id : Nat) (lit : List Nat)   -- n.F = f.newToken(id, lit)
  | newTokVal (f id g : Nat)               -- n.F = f.newToken(id, n.G) (G a []byte field)
  | newTokReg (f id r : Nat)               -- n.F = f.newToken(id, local)
  | setFlag (i : Nat) (c : FC)             -- local := condition
  | setReg (r : Nat) (lit : List Nat)      -- local = []byte(lit)
  | setRegLabel (r f : Nat)                -- local := heredocLabel(n.F)
  | setRegOpener (r r2 : Nat) (nowdoc : Bool)  -- local = heredocOpener(local2, nowdoc)
  | clear (f : Nat)                        -- n.F = nil (token or token list)
  | ws (id : Nat) (lit : List Nat)         -- f.addFreeFloating(id, lit)
  | indent (up : Bool)                     -- f.indent++ / f.indent--
  | setHtml                                -- f.state = FormatterStateHTML
  | addIndent                              -- f.addIndent()
  | accept (f : Nat)                       -- n.F.Accept(f)
  | setFF (f : Nat)                        -- n.F.FreeFloating = f.getFreeFloating()
  | semi (f : Nat)                         -- n.F = f.newSemicolonTkn()
  | fmtList (g : Option Nat) (f sep : Nat) -- [n.G =] f.formatList(n.F, sep)
  | stmts (f : Nat)                        -- f.formatStmts(&n.F)
  | each (f : Nat) (pre post : List Ws)    -- for _, m := range n.F { pre; m.Accept(f); post }
  | sepLoop (f g : Nat) (pre : List Ws) (id : Nat) (lit : List Nat) (post : List Ws)
      -- n.G = make(len(n.F)-1); for i, v := range n.F { v.Accept(f); if i != len(n.F)-1 { pre; n.G[i] = newToken(id, lit); post } }
  | haltTail (f id : Nat)                  -- if n.F != nil { n.F.FreeFloating = its entries with ID == id }
  | ite (c : FC) (a b : List FI)
  deriving Repr, Inhabited

structure FSt where
  html : Bool := true          -- formatter.state == FormatterStateHTML (the zero value)
  indent : Int := 0
  ff : List FF := []
  last : Nat := 0              -- formatter.lastID: the token created last, 0 once the pending list was taken
  deriving Repr, DecidableEq, Inhabited

abbrev FRes := Option (Tree × FSt)
/-- a child as the parent's method sees it: its kind and what `child.Accept(f)` does -/
abbrev KFn := Nat × (FSt → FRes)

structure FCfg where
  prog : Nat → List FI
  htmlKind : Nat               -- StmtInlineHtml
  nopKind : Nat                -- StmtNop
  nopFields : Nat              -- number of fields of StmtNop
  nopSemi : Nat                -- field number of StmtNop.SemiColonTkn
  tWs : Nat                    -- token.T_WHITESPACE
  tOpenTag : Nat               -- token.T_OPEN_TAG
  tInc : Nat                   -- token.T_INC
  tDec : Nat                   -- token.T_DEC

def u8s (l : List Nat) : Bytes := l.map UInt8.ofNat

/-! ### the helpers (formatter.go:33-140) -/

def FSt.addWs (s : FSt) (id : Nat) (lit : List Nat) : FSt := { s with ff := s.ff ++ [{ id := id, val := u8s lit }] }
def FSt.addWss (s : FSt) (l : List Ws) : FSt := l.foldl (fun s w => s.addWs w.1 w.2) s

def fourBlanks : Bytes := [32, 32, 32, 32]
def FSt.addIndent (c : FCfg) (s : FSt) : FSt :=
  if s.indent < 1 then s
  else { s with ff := s.ff ++ [{ id := c.tWs, val := (List.replicate s.indent.toNat fourBlanks).flatten }] }

def openTagFF (c : FCfg) : FF := { id := c.tOpenTag, val := [60, 63, 112, 104, 112, 32] }   -- "<?php "

/-- getFreeFloating: the pending list (behind `<?php ` when still in HTML state); the list is reset -/
def FSt.getFF (c : FCfg) (s : FSt) : List FF × FSt :=
  ((if s.html then openTagFF c :: s.ff else s.ff), { s with html := false, ff := [], last := 0 })

/-- `-` behind `-`, `--` behind `-`, `+` behind `+`, `++` behind `+` with nothing pending: a blank goes between -/
def signClash (c : FCfg) (s : FSt) (id : Nat) : Bool :=
  s.ff.isEmpty && ((s.last == 45 && (id == 45 || id == c.tDec)) || (s.last == 43 && (id == 43 || id == c.tInc)))

def FSt.newToken (c : FCfg) (s : FSt) (id : Nat) (val : Bytes) : Tok × FSt :=
  let s0 := if signClash c s id then s.addWs c.tWs [32] else s
  let (l, s') := s0.getFF c
  ({ uid := 0, id := id, val := val, ff := l }, { s' with last := id })

/-! ### the node under construction -/

structure NSt where
  w : List (Option (List Tok)) := []       -- token fields written so far
  kw : List (Option (List Tree)) := []     -- child fields formatted so far
  flags : List (Nat × Bool) := []
  regs : List (Nat × List Nat) := []
  st : FSt

def setOv {α} : List (Option α) → Nat → α → List (Option α)
  | [], 0, v => [some v]
  | [], n + 1, v => none :: setOv [] n v
  | _ :: r, 0, v => some v :: r
  | x :: r, n + 1, v => x :: setOv r n v

def getOv {α} (l : List (Option α)) (f : Nat) : Option α := (l[f]?).getD none

/-- the current value of token field f -/
def curToks (orig : List (List Tok)) (w : List (Option (List Tok))) (f : Nat) : List Tok :=
  match getOv w f with
  | some l => l
  | none => fieldAt orig f

def NSt.setTok (n : NSt) (f : Nat) (t : List Tok) : NSt := { n with w := setOv n.w f t }
def NSt.flag (n : NSt) (i : Nat) : Bool := ((n.flags.find? (·.1 == i)).map (·.2)).getD false
def NSt.reg (n : NSt) (r : Nat) : List Nat := ((n.regs.find? (·.1 == r)).map (·.2)).getD []

def evalFC (orig : List (List Tok)) (nn : List Bool) (fns : List (List KFn)) (n : NSt) : FC → Bool
  | .tokNil f => (curToks orig n.w f).isEmpty
  | .kidNil f => (fieldAt fns f).isEmpty
  | .listNil f => !((nn[f]?).getD false) && (fieldAt fns f).isEmpty   -- a nil slice has no elements
  | .kidKindIn f ks => match fieldAt fns f with
      | (k, _) :: _ => ks.contains k
      | [] => false
  | .tokValHas f b => match curToks orig n.w f with
      | t :: _ => t.val.contains (UInt8.ofNat b)
      | [] => false
  | .flag i => n.flag i
  | .not c => !(evalFC orig nn fns n c)
  | .and a b => evalFC orig nn fns n a && evalFC orig nn fns n b
  | .or a b => evalFC orig nn fns n a || evalFC orig nn fns n b

/-- `x.Accept(f)` over a list of children with blanks queued before and after each -/
def acceptAll (pre post : List Ws) : List KFn → FSt → Option (List Tree × FSt)
  | [], s => some ([], s)
  | (_, fn) :: r, s =>
    match fn (s.addWss pre) with
    | none => none
    | some (t, s1) =>
      match acceptAll pre post r (s1.addWss post) with
      | none => none
      | some (ts, s2) => some (t :: ts, s2)

/-- the separated loop of formatList / StmtCatch / the names: a token after every child but the last -/
def sepAll (c : FCfg) (pre : List Ws) (id : Nat) (lit : List Nat) (post : List Ws) :
    List KFn → FSt → Option (List Tree × List Tok × FSt)
  | [], s => some ([], [], s)
  | [(_, fn)], s =>
    match fn s with
    | none => none
    | some (t, s1) => some ([t], [], s1)
  | (_, fn) :: r, s =>
    match fn s with
    | none => none
    | some (t, s1) =>
      let (tk, s2) := (s1.addWss pre).newToken c id (u8s lit)
      match sepAll c pre id lit post r (s2.addWss post) with
      | none => none
      | some (ts, tks, s3) => some (t :: ts, tk :: tks, s3)

/-- the `StmtNop{SemiColonTkn: {Value: "?>"}}` formatStmts puts in front of inline HTML -/
def nopNode (c : FCfg) : Tree :=
  .mk c.nopKind 0 none
    ((List.range c.nopFields).map (fun i => if i == c.nopSemi then [{ uid := 0, id := 0, val := [63, 62] }] else []))
    (List.replicate c.nopFields none) (List.replicate c.nopFields []) (List.replicate c.nopFields false)

/-- formatStmts (formatter.go:102-125) -/
def stmtsAll (c : FCfg) : List KFn → FSt → Option (List Tree × FSt)
  | [], s => some ([], s)
  | (k, fn) :: r, s =>
    if k == c.htmlKind then
      match fn s with
      | none => none
      | some (t, s1) =>
        match stmtsAll c r s1 with
        | none => none
        | some (ts, s2) => some (nopNode c :: t :: ts, s2)
    else
      match fn ((s.addWs c.tWs [10]).addIndent c) with
      | none => none
      | some (t, s1) =>
        match stmtsAll c r s1 with
        | none => none
        | some (ts, s2) => some (t :: ts, s2)

def eot : Bytes := [69, 79, 84]

def findSub (v pat : Bytes) : Nat → Option Nat
  | 0 => none
  | fuel + 1 => if pat.isPrefixOf v then some 0 else
      match v with
      | [] => none
      | _ :: r => (findSub r pat fuel).map (· + 1)

def labelCut : List UInt8 := [32, 9, 13, 10, 34, 39]

/-- heredocLabel of formatter.go on the opener's bytes: what follows the first `<<<`, without blanks, line
    ends and quotes at either end; EOT when nothing is left -/
def heredocLabel (v : Bytes) : Bytes :=
  let v1 := match findSub v [60, 60, 60] (v.length + 1) with
    | some i => v.drop (i + 3)
    | none => v
  let t := ((v1.dropWhile (labelCut.contains ·)).reverse.dropWhile (labelCut.contains ·)).reverse
  if t.isEmpty then eot else t

/-- keep a token, replace its free-floating list (the model's output is position-free) -/
def keepTok (t : Tok) (ff : List FF) : Tok := { uid := 0, id := t.id, val := t.val, ff := ff }

/-- a free-floating entry without its position -/
def bareFF (f : FF) : FF := { id := f.id, val := f.val }

def haltFF (id : Nat) (l : List FF) : List FF := (l.filter (·.id == id)).map bareFF

section exec
variable (c : FCfg) (orig : List (List Tok)) (vals : List (Option Bytes)) (nn : List Bool) (fns : List (List KFn))

mutual
def execI : FI → NSt → Option NSt
  | .newTok f id lit, n => let (t, s) := n.st.newToken c id (u8s lit); some { n.setTok f [t] with st := s }
  | .newTokVal f id g, n =>
    -- a nil []byte is the empty value
    let (t, s) := n.st.newToken c id (((vals[g]?).getD none).getD []); some { n.setTok f [t] with st := s }
  | .newTokReg f id r, n => let (t, s) := n.st.newToken c id (u8s (n.reg r)); some { n.setTok f [t] with st := s }
  | .setFlag i cd, n => some { n with flags := (i, evalFC orig nn fns n cd) :: n.flags }
  | .setReg r lit, n => some { n with regs := (r, lit) :: n.regs }
  | .setRegLabel r f, n =>
    let lbl := match curToks orig n.w f with
      | t :: _ => heredocLabel t.val
      | [] => eot
    some { n with regs := (r, lbl.map (·.toNat)) :: n.regs }
  | .setRegOpener r r2 nowdoc, n =>
    let q : List Nat := if nowdoc then [39] else []
    some { n with regs := (r, [60, 60, 60] ++ q ++ n.reg r2 ++ q ++ [10]) :: n.regs }
  | .clear f, n => some (n.setTok f [])
  | .ws id lit, n => some { n with st := n.st.addWs id lit }
  | .indent up, n => some { n with st := { n.st with indent := if up then n.st.indent + 1 else n.st.indent - 1 } }
  | .setHtml, n => some { n with st := { n.st with html := true } }
  | .addIndent, n => some { n with st := n.st.addIndent c }
  | .accept f, n =>
    match fieldAt fns f with
    | (_, fn) :: _ =>
      (match fn n.st with
       | none => none
       | some (t, s) => some { n with kw := setOv n.kw f [t], st := s })
    | [] => none                                        -- nil interface: panic
  | .setFF f, n =>
    match curToks orig n.w f with
    | t :: _ => let (l, s) := n.st.getFF c; some { n.setTok f [keepTok t l] with st := s }
    | [] => none                                        -- nil token: panic
  | .semi f, n => let (t, s) := n.st.newToken c 59 [59]; some { n.setTok f [t] with st := s }
  | .fmtList g f sep, n =>
    match sepAll c [] sep [sep] [(c.tWs, [32])] (fieldAt fns f) n.st with
    | none => none
    | some (ts, tks, s) =>
      let n1 : NSt := if (fieldAt fns f).isEmpty then { n with st := s } else { n with kw := setOv n.kw f ts, st := s }
      some (match g with
        | some g => n1.setTok g tks
        | none => n1)
  | .stmts f, n =>
    match stmtsAll c (fieldAt fns f) n.st with
    | none => none
    | some (ts, s) => some (if (fieldAt fns f).isEmpty then { n with st := s } else { n with kw := setOv n.kw f ts, st := s })
  | .each f pre post, n =>
    match acceptAll pre post (fieldAt fns f) n.st with
    | none => none
    | some (ts, s) => some (if (fieldAt fns f).isEmpty then { n with st := s } else { n with kw := setOv n.kw f ts, st := s })
  | .sepLoop f g pre id lit post, n =>
    if (fieldAt fns f).isEmpty then none               -- make([]*token.Token, -1): panic
    else match sepAll c pre id lit post (fieldAt fns f) n.st with
      | none => none
      | some (ts, tks, s) => some { (n.setTok g tks) with kw := setOv n.kw f ts, st := s }
  | .haltTail f id, n =>
    match curToks orig n.w f with
    | t :: _ => some (n.setTok f [keepTok t (haltFF id t.ff)])
    | [] => some n
  | .ite cd a b, n => if evalFC orig nn fns n cd then execIs a n else execIs b n
def execIs : List FI → NSt → Option NSt
  | [], n => some n
  | i :: r, n =>
    match execI i n with
    | none => none
    | some n1 => execIs r n1
end
end exec

/-- a field the method left alone: the original tokens, position-free -/
def bareTok (t : Tok) : Tok := { uid := 0, id := t.id, val := t.val, ff := t.ff.map bareFF }

def mergeToks : List (List Tok) → List (Option (List Tok)) → List (List Tok)
  | [], _ => []
  | o :: r, [] => o.map bareTok :: mergeToks r []
  | o :: r, none :: w => o.map bareTok :: mergeToks r w
  | _ :: r, some l :: w => l :: mergeToks r w

def mergeKids : List (List Tree) → List (Option (List Tree)) → List (List Tree)
  | [], _ => []
  | o :: r, [] => o :: mergeKids r []
  | o :: r, none :: w => o :: mergeKids r w
  | _ :: r, some l :: w => l :: mergeKids r w

mutual
/-- `t.Accept(formatter)`: the formatted tree (position-free) and the formatter's state afterwards -/
def fmtTree (c : FCfg) : Tree → FSt → FRes
  | .mk k _ _ toks vals kids nn, s =>
    match execIs c toks vals nn (fmtSlots c kids) (c.prog k) { st := s } with
    | none => none
    | some n => some (.mk k 0 none (mergeToks toks n.w) vals (mergeKids kids n.kw) nn, n.st)
def fmtSlots (c : FCfg) : List (List Tree) → List (List KFn)
  | [] => []
  | f :: fs => fmtForest c f :: fmtSlots c fs
def fmtForest (c : FCfg) : List Tree → List KFn
  | [] => []
  | t :: ts => (t.kind, fmtTree c t) :: fmtForest c ts
end

/-- `root.Accept(formatter.NewFormatter())` -/
def format (c : FCfg) (t : Tree) : Option Tree := (fmtTree c t {}).map (·.1)

end PhpVerif.Fmt
