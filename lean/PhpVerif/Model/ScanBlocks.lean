/-
M-SCANBLOCKS: the effect of a scanner action block on the token being built.

Go (internal/scanner/lexer.go, scanner.go):
  setTokenPosition(tkn):   tkn.Position = {StartPos: lex.ts, EndPos: lex.te, lines of ts and te-1}
  addFreeFloatingToken(tkn, id, ps, pe): skipped.Value = lex.data[ps:pe]; setTokenPosition(skipped)
  ungetCnt(n): lex.p -= n; lex.te -= n          ungetStr(s): ungetCnt(len(s)) when the token ends in s
  epilogue of Lex (after `_out:`): tkn.Value = lex.data[lex.ts:lex.te]; tkn.ID = token.ID(tok)

A token's Value is sliced when Lex returns, its Position when the action calls
setTokenPosition: they describe the same bytes iff (ts, te) do not move in between.
-/
namespace PhpVerif.Scan

inductive BOp where
  | setTe (v : Nat)      -- code 1: any change of te (unget, ragel's own `lex.te = …`)
  | setTs (v : Nat)      -- code 1: any change of ts
  | te5                  -- code 8: ungetCnt(te - ts - 5), i.e. te := ts + 5
  | setPos               -- code 2
  | ff                   -- code 3: addFreeFloatingToken(tkn, id, ts, te)
  | ff5                  -- code 6: addFreeFloatingToken(tkn, id, ts, ts+5)
  | bad                  -- code 7: another argument shape
  | out                  -- code 4: goto _out
  deriving Repr, DecidableEq

def BOp.code : BOp → Nat
  | .setTe _ => 1 | .setTs _ => 1 | .te5 => 8 | .setPos => 2 | .ff => 3 | .ff5 => 6 | .bad => 7 | .out => 4

structure St where
  ts : Nat
  te : Nat
  pos : Option (Nat × Nat) := none                      -- Position of tkn, once set
  ffs : List ((Nat × Nat) × (Nat × Nat)) := []          -- per free-floating token: (value slice, position)
  deriving Repr, DecidableEq

def step (s : St) : BOp → St
  | .setTe v => { s with te := v }
  | .setTs v => { s with ts := v }
  | .te5 => { s with te := s.ts + 5 }
  | .setPos => { s with pos := some (s.ts, s.te) }
  | .ff => { s with ffs := s.ffs ++ [((s.ts, s.te), (s.ts, s.te))] }
  | .ff5 => { s with ffs := s.ffs ++ [((s.ts, s.ts + 5), (s.ts, s.te))] }
  | .bad => s
  | .out => s

def exec (ops : List BOp) (s : St) : St := ops.foldl step s

/-- the check on the effect codes along one path of an action block (`seen` = the position of
    `tkn` was taken, `prev` = the previous code): nothing moves ts/te and nothing else happens
    between setTokenPosition(tkn) and `goto _out`; a path returns a token (`goto _out`) only with
    its position taken, and takes it only to return; the 5-byte open-tag free-floating token
    directly follows `te := ts + 5`; no unknown argument shape. -/
def pathOK : Bool → Nat → List Nat → Bool
  | seen, _, [] => !seen
  | seen, prev, c :: r =>
      if c == 1 || c == 8 then !seen && pathOK seen c r
      else if c == 2 then !seen && pathOK true c r
      else if c == 3 then !seen && pathOK seen c r
      else if c == 6 then !seen && prev == 8 && pathOK seen c r
      else if c == 4 then seen && r.isEmpty
      else false

/-- a Lex call: action blocks run one after the other, the generated DFA code moving ts and te
    freely in between, until a block leaves through `goto _out` -/
def execRun : List (Nat × Nat × List BOp) → St → St
  | [], s => s
  | (ts, te, ops) :: r, s =>
      let s' := exec ops { s with ts := ts, te := te }
      if ops.contains .out then s' else execRun r s'

def AllFF (s : St) : Prop := ∀ f ∈ s.ffs, f.1 = f.2

end PhpVerif.Scan
