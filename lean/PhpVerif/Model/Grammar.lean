/-
M-GRAMMAR: the context-free skeleton of a goyacc grammar, as regenerated from the .y file
(productions as (lhs, rhs) over interned symbol ids) and derivation trees over it.
-/
namespace PhpVerif

structure Grammar where
  prods : List (Nat × List Nat)     -- production n (1-based in goyacc) is prods[n-1]
  role : List Nat                   -- per symbol: 0 no bracket, 1+2f opener of family f, 2+2f closer of family f

def Grammar.rhs (g : Grammar) (p : Nat) : List Nat := ((g.prods[p]?).map (·.2)).getD []
def Grammar.lhs (g : Grammar) (p : Nat) : Nat := ((g.prods[p]?).map (·.1)).getD 0
def Grammar.roleOf (g : Grammar) (s : Nat) : Nat := (g.role[s]?).getD 0

/-- derivation trees: a leaf is a terminal occurrence, a node an application of a production -/
inductive DT where
  | leaf (sym : Nat)
  | node (p : Nat) (kids : List DT)

def DT.root (g : Grammar) : DT → Nat
  | .leaf s => s
  | .node p _ => g.lhs p

mutual
def DT.yield : DT → List Nat
  | .leaf s => [s]
  | .node _ kids => yieldF kids
def yieldF : List DT → List Nat
  | [] => []
  | t :: ts => t.yield ++ yieldF ts
end

mutual
/-- well-formed: every node applies an existing production to children whose roots spell its
    right-hand side -/
def DT.WF (g : Grammar) : DT → Prop
  | .leaf _ => True
  | .node p kids => p < g.prods.length ∧ kids.map (DT.root g) = g.rhs p ∧ wfF g kids
def wfF (g : Grammar) : List DT → Prop
  | [] => True
  | t :: ts => t.WF g ∧ wfF g ts
end

/-- occurrences of bracket role `v` in a symbol list -/
def cnt (g : Grammar) (v : Nat) (l : List Nat) : Nat := (l.filter (fun s => g.roleOf s == v)).length

/-- per-production obligation: no left-hand side is itself a bracket; every right-hand side has,
    for each family, as many openers as closers among its terminals -/
def prodBalanced (g : Grammar) (pr : Nat × List Nat) : Bool :=
  g.roleOf pr.1 == 0 &&
  cnt g 1 pr.2 == cnt g 2 pr.2 && cnt g 3 pr.2 == cnt g 4 pr.2 && cnt g 5 pr.2 == cnt g 6 pr.2

def grammarBalanced (g : Grammar) : Bool := g.prods.all (prodBalanced g)

end PhpVerif
