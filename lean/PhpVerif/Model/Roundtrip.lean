import PhpVerif.Model.Pipeline
import PhpVerif.Model.Render
/-
M-ROUND: parse then print, inside the model.  The value the parser model returns (`V`: nodes with their
struct fields in declaration order, tokens by stream index) is turned into the printer model's `Tree`
(per-field token / value / child lists by the schema's field sorts), the tokens taking their text and
their free-floating entries from the scanner model's output; `printParsed` is then
scanner model → driver + actions → `toTree` → printer model → render.

Tie: `diff-roundtrip` — the bytes against the real `printer` on the real `parser.Parse` of the same source
(any tree that is returned, with or without errors), under 5.6 / 7.4.
-/
namespace PhpVerif

/-- a scanner token as the printer sees it.  The end-of-input token (id 0) is the only one whose bytes are
    not its text (ts / te are left over from the token before it); the parsers' root action — its only
    user, as `Root.EndTkn` — sets `currentToken.Value = nil` for that reason, which is what is modelled. -/
def tokOfOut (src : Array UInt8) (t : TokOut) : Tok :=
  { uid := 0, id := t.id, val := if t.id == 0 then [] else (src.extract t.ts.toNat t.te.toNat).toList,
    ff := t.ffs.map (fun f => { id := f.id, val := (src.extract f.sp.toNat f.ep.toNat).toList }) }

structure TFields where
  toks : List (List Tok) := []
  vals : List (Option Bytes) := []
  kids : List (List Tree) := []
  nn : List Bool := []

def TFields.cons (t : List Tok) (v : Option Bytes) (k : List Tree) (n : Bool) (f : TFields) : TFields :=
  { toks := t :: f.toks, vals := v :: f.vals, kids := k :: f.kids, nn := n :: f.nn }

/-- the tokens a list value holds; `none` when an element is not a token -/
def tokList (toks : Array Tok) : List V → Option (List Tok)
  | [] => some []
  | .tok i :: r => match toks[i]?, tokList toks r with
    | some t, some ts => some (t :: ts)
    | _, _ => none
  | _ :: _ => none

/-- one struct field of sort s holding value v, in front of the fields already converted; `kid` / `kidsL` are the
    conversions of v as a node / as a list of nodes -/
def fieldCombine (toks : Array Tok) (s : Nat) (v : V) (kid : Option Tree) (kidsL : Option (List Tree)) (rest : TFields) :
    Option TFields :=
  if s == 0 then some (rest.cons [] none [] false)
  else if s == 1 then
    match v with
    | .nil => some (rest.cons [] none [] false)
    | .tok i => (toks[i]?).map (fun t => rest.cons [t] none [] false)
    | _ => none
  else if s == 2 then
    match v with
    | .nil => some (rest.cons [] none [] false)
    | .list xs => (tokList toks xs).map (fun ts => rest.cons ts none [] true)
    | _ => none
  else if s == 3 then
    match v with
    | .nil => some (rest.cons [] none [] false)
    | .node _ _ _ => kid.map (fun t => rest.cons [] none [t] true)
    | _ => none
  else if s == 4 then
    match v with
    | .nil => some (rest.cons [] none [] false)
    | .list _ => kidsL.map (fun ts => rest.cons [] none ts true)
    | _ => none
  else if s == 5 then
    match v with
    | .nil => some (rest.cons [] none [] false)
    | .bytes pre i => (toks[i]?).map (fun t => rest.cons [] (some (pre.map UInt8.ofNat ++ t.val)) [] false)
    | _ => none
  else none

mutual
/-- `none`: the value is not a well-formed node (a `bad` inside, a field of the wrong sort) -/
def V.toTree (sorts : Nat → List Nat) (toks : Array Tok) : V → Option Tree
  | .node k u fs =>
    match fieldsTo sorts toks (sorts k) fs with
    | some f => some (.mk k u none f.toks f.vals f.kids f.nn)
    | none => none
  | _ => none
def V.kidsOf (sorts : Nat → List Nat) (toks : Array Tok) : V → Option (List Tree)
  | .list xs => toTrees sorts toks xs
  | _ => none
def toTrees (sorts : Nat → List Nat) (toks : Array Tok) : List V → Option (List Tree)
  | [] => some []
  | v :: r => match V.toTree sorts toks v, toTrees sorts toks r with
    | some t, some ts => some (t :: ts)
    | _, _ => none
def fieldsTo (sorts : Nat → List Nat) (toks : Array Tok) : List Nat → List V → Option TFields
  | [], [] => some {}
  | s :: ss, v :: vs =>
    match fieldsTo sorts toks ss vs with
    | none => none
    | some rest => fieldCombine toks s v (V.toTree sorts toks v) (V.kidsOf sorts toks v) rest
  | _, _ => none
end

end PhpVerif

namespace PhpVerif

/-- `printer.NewPrinter(w); parser.Parse(src, cfg).Accept(p)`: the bytes written, when a tree is returned -/
def printParsed (pr : ScanProg) (t : YYTab) (combs : List PosComb) (tbl : PathTable) (numString : Nat) (ge73 : Bool)
    (sorts : Nat → List Nat) (pcfg : PrinterCfg) (lits : Nat → Bytes) (src : Array UInt8) : Option Bytes :=
  let o := parseBytes pr t combs tbl numString ge73 src
  match o.fault, o.root with
  | none, some r =>
    (r.toTree sorts ((o.toks.map (tokOfOut src)).toArray)).map (fun tr => render lits (chunks pcfg false tr))
  | _, _ => none

end PhpVerif
