import PhpVerif.Gen.Grammar7
import PhpVerif.Gen.Grammar5
import PhpVerif.Gen.Actions7
import PhpVerif.Gen.Actions5
import PhpVerif.Spec.Precedence
import PhpVerif.Spec.Lexemes
import PhpVerif.Model.Pratt
/-
C03 — Valid programs are accepted and yield the tree PHP's grammar prescribes.

What a theorem carries here is the part of "prescribed" that is a finite declaration:
  * `prec_decl_is_php74 / 56`: the %left / %right / %nonassoc declarations of php7.y and php5.y,
    regenerated on every run, are PHP's documented precedence table, level by level, token by token;
  * `prod_prec_is_php74 / 56`: the %prec annotations (unary + and -, dangling else) are PHP's;
  * `token_roles_match7 / 5`: wherever an action stores a fixed-spelling terminal in a token field of a
    node it builds, the printer's canonical lexeme for that field is a spelling of that terminal —
    the node kind an operator or keyword production builds is the kind of that operator / keyword
    (`'-'` building ExprBinaryPlus, `T_REQUIRE` building an include node with the wrong token, … fail);
  * operands in source order: Actions.ordered (C02).
The reference semantics of the table is Model/Pratt.lean (precedence climbing); the oracle compares
the real parser's grouping of generated operator chains with it through the driver.
Not proved: that goyacc's LALR construction turns the declarations into tables that group this way
(goyacc trusted; explored by the oracle: 30 000 chains in the thorough tier), that the 531-state DFA
implements scanner.rl (keyword case-insensitivity explored over all case patterns).
-/
namespace PhpVerif.C03
open PhpVerif

theorem prec_decl_is_php74 : Gen.precNames7 = Spec.phpPrec74 := by decide
theorem prec_decl_is_php56 : Gen.precNames5 = Spec.phpPrec56 := by decide
theorem prod_prec_is_php74 : Gen.prodPrecs7 = Spec.phpProdPrec74 := by decide
theorem prod_prec_is_php56 : Gen.prodPrecs5 = Spec.phpProdPrec56 := by decide

/-- alternate bracket spellings PHP allows: `$a{1}` for `$a[1]`, `[$a, $b] = …` for `list($a, $b) = …` -/
def altSpellings : List (String × String) :=
  [("ExprArrayDimFetch.CloseBracketTkn", "'}'"), ("ExprArrayDimFetch.OpenBracketTkn", "'{'"),
   ("ExprList.CloseBracketTkn", "']'"), ("ExprList.OpenBracketTkn", "'['")]

/-- (field, terminal) pairs for which no canonical lexeme of the field is a spelling of the terminal -/
def roleBad (roles : List (String × String × List String)) : List (String × String) :=
  (roles.filter (fun r =>
    let lx := Spec.lexemeOf r.2.1
    !lx.isEmpty && !altSpellings.contains (r.1, r.2.1) && !(r.2.2.any lx.contains))).map (fun r => (r.1, r.2.1))

theorem token_roles_match7 : roleBad Gen.tokenRoles7 = [] := by decide +kernel
theorem token_roles_match5 : roleBad Gen.tokenRoles5 = [] := by decide +kernel

/-- the check is not vacuous: a minus stored in the operator field of an addition node is rejected -/
example : roleBad [("ExprBinaryPlus.OpTkn", "'-'", ["+"])] = [("ExprBinaryPlus.OpTkn", "'-'")] := by decide +kernel
example : 100 < Gen.tokenRoles7.length := by decide +kernel

end PhpVerif.C03
