import PhpVerif.Model.Pool
/-
C18 — Pool allocations are distinct and stay valid.
Tie: T-diff (harness diff-pool drives both real pools and this model through the driver);
T-gen `pool_same_code` (gofacts: the two pool files are equal up to the element type).
-/
namespace PhpVerif.C18
open PhpVerif

/-- state invariant after `i` requests on a pool of block size `len ≥ 1` -/
def Inv (len i : Nat) (p : Pool) : Prop :=
  p.len = len ∧ p.blk * len + p.off = i ∧ p.off ≤ len ∧ (0 < i → 0 < p.off)

theorem inv_new (len : Nat) : Inv len 0 (Pool.new len) := by
  simp [Inv, Pool.new]

/-- one step: the `i`-th request (0-based) returns the cell `(i / len, i % len)`, which is
    in range of its block, and re-establishes the invariant -/
theorem get_inv (len i : Nat) (p : Pool) (hl : 0 < len) (h : Inv len i p) :
    (p.get).1 = some (i / len, i % len) ∧ i % len < len ∧ Inv len (i+1) (p.get).2 := by
  obtain ⟨l, o, b⟩ := p
  obtain ⟨h1, h2, h3, h4⟩ := h
  simp only at h1 h2 h3 h4
  subst h1
  have hne : ¬ (l = 0) := by omega
  unfold Pool.get
  simp only [hne, if_false]
  by_cases hfull : l = o
  · -- block exhausted: a fresh block, offset 0
    subst hfull
    simp only [if_true]
    have hdm : i / l = b + 1 ∧ i % l = 0 :=
      (Nat.div_mod_unique hl).mpr ⟨by rw [← h2, Nat.mul_add, Nat.mul_comm]; omega, hl⟩
    refine ⟨by rw [hdm.1, hdm.2], Nat.mod_lt _ hl, rfl, ?_, ?_, fun _ => ?_⟩
    · simp only; rw [Nat.add_mul]; omega
    · simp only; omega
    · simp only; omega
  · simp only [hfull, if_false]
    have hlt : o < l := by omega
    have hdm : i / l = b ∧ i % l = o :=
      (Nat.div_mod_unique hl).mpr ⟨by rw [← h2, Nat.mul_comm]; omega, hlt⟩
    exact ⟨by rw [hdm.1, hdm.2], Nat.mod_lt _ hl, rfl, by simp only; omega, by simp only; omega, fun _ => by simp only; omega⟩

/-- all requests: the `n` results are exactly the cells of ranks `0 … n-1` -/
theorem gets_spec (len : Nat) (hl : 0 < len) :
    ∀ (n i : Nat) (p : Pool), Inv len i p →
      p.gets n = (List.range' i n).map (fun j => some (j / len, j % len))
  | 0, _, _, _ => by simp [Pool.gets]
  | n+1, i, p, h => by
    obtain ⟨hres, _, hinv⟩ := get_inv len i p hl h
    simp only [Pool.gets, List.range'_succ, List.map_cons, hres]
    rw [gets_spec len hl n (i+1) _ hinv]

/-- C18: for every block size ≥ 1 and every request count, every result is non-nil, lies
    inside its block, and any two results are distinct cells. -/
theorem gets_distinct (len n : Nat) (hl : 0 < len) :
    let rs := (Pool.new len).gets n
    rs.length = n ∧
    (∀ r ∈ rs, ∃ c : Cell, r = some c ∧ c.2 < len) ∧
    rs.Nodup := by
  intro rs
  have hs : rs = (List.range' 0 n).map (fun j => some (j / len, j % len)) :=
    gets_spec len hl n 0 _ (inv_new len)
  refine ⟨by simp [hs], ?_, ?_⟩
  · intro r hr
    rw [hs] at hr
    simp only [List.mem_map] at hr
    obtain ⟨j, _, rfl⟩ := hr
    exact ⟨_, rfl, Nat.mod_lt _ hl⟩
  · rw [hs]
    have hnd : (List.range' 0 n).Nodup := List.nodup_range' (step := 1) (by omega)
    unfold List.Nodup at hnd ⊢
    rw [List.pairwise_map]
    refine hnd.imp ?_
    intro a b hne hab
    simp only [Option.some.injEq, Prod.mk.injEq] at hab
    have h1 := Nat.div_add_mod a len
    have h2 := Nat.div_add_mod b len
    rw [hab.1, hab.2] at h1
    omega

/-- writing through the results never disturbs another result: with memory a function on
    cells, after writing `v j` through the `j`-th result for all `j < n` (in order), reading
    the `i`-th result back gives `v i`. -/
def writeAll (cells : List Cell) (v : Nat → Nat) : Nat → (Cell → Nat) → (Cell → Nat)
  | _, m => (cells.zipIdx).foldl (fun m (c, j) => fun x => if x = c then v j else m x) m

theorem writes_independent (len n : Nat) (_hl : 0 < len) (v : Nat → Nat) (m0 : Cell → Nat)
    (i : Nat) (hi : i < n) :
    let cells := (List.range n).map (fun j => (j / len, j % len))
    writeAll cells v 0 m0 (i / len, i % len) = v i := by
  intro cells
  have hinj : ∀ a b : Nat, (a / len, a % len) = (b / len, b % len) → a = b := by
    intro a b hab
    simp only [Prod.mk.injEq] at hab
    have h1 := Nat.div_add_mod a len
    have h2 := Nat.div_add_mod b len
    rw [hab.1, hab.2] at h1
    omega
  -- generalised fold statement
  have key : ∀ (l : List Nat) (m : Cell → Nat), l.Nodup →
      ((l.map (fun j => ((j / len, j % len), j))).foldl
          (fun m (cj : Cell × Nat) => fun x => if x = cj.1 then v cj.2 else m x) m) (i / len, i % len)
        = if i ∈ l then v i else m (i / len, i % len) := by
    intro l
    induction l with
    | nil => intro m _; simp
    | cons a l ih =>
      intro m hnd
      simp only [List.map_cons, List.foldl_cons]
      rw [ih _ (List.nodup_cons.mp hnd).2]
      by_cases hil : i ∈ l
      · simp [hil]
      · simp only [hil, if_false, List.mem_cons]
        by_cases hia : i = a
        · subst hia; simp
        · have : (i / len, i % len) ≠ (a / len, a % len) := fun h => hia (hinj _ _ h)
          simp [this, hia]
  have hz : cells.zipIdx = (List.range n).map (fun j => ((j / len, j % len), j)) := by
    simp only [cells]
    apply List.ext_getElem
    · simp
    · intro k h1 h2
      simp
  simp only [writeAll, hz]
  rw [key _ m0 List.nodup_range]
  simp [hi]

/-- block size 0: every request returns nil (the real code returns a nil pointer) -/
theorem size0_nil (n : Nat) : ∀ r ∈ (Pool.new 0).gets n, r = none := by
  have : ∀ (n : Nat) (p : Pool), p.len = 0 → ∀ r ∈ p.gets n, r = none := by
    intro n
    induction n with
    | zero => intro p _ r hr; simp [Pool.gets] at hr
    | succ n ih =>
      intro p hp r hr
      simp only [Pool.gets, List.mem_cons] at hr
      have hg : p.get = (none, p) := by simp [Pool.get, hp]
      rcases hr with h | h
      · rw [h, hg]
      · rw [hg] at h; exact ih p hp r h
  exact this n _ rfl

/- non-vacuity: block size 2, five requests cross two block boundaries -/
example : (Pool.new 2).gets 5 = [some (0,0), some (0,1), some (1,0), some (1,1), some (2,0)] := by decide

end PhpVerif.C18
