import PhpVerif.Lemmas.Grammar
import PhpVerif.Gen.Grammar7
import PhpVerif.Gen.Grammar5
import PhpVerif.Gen.Facts
import PhpVerif.Props.C04
/-
C06 — Malformed input is always reported; a silent parse is a complete parse.

What is proved here:
 * grammar_balanced (T-gen, both grammars): every production's right-hand side has, for each
   bracket family, as many opening as closing terminals; by induction over derivation trees every
   sentence has as many openers as closers of each family.  Hence a source whose significant
   tokens are unbalanced is provably not a program of the extracted grammar — the edit class for
   which the oracle demands at least one error.
 * callbacks_guarded / callback_only_called (T-facts): the error callback is only ever compared
   with nil, copied into the lexer / parser struct, or called, and every call is dominated by a
   nil test — so omitting it removes the calls and nothing else.
 * error_position: a lexer error carries (ts, te) and the lines of those offsets (C04.token_fields).
Not proved: that the LALR automaton rejects every non-sentence (goyacc's table construction is
trusted), ordering of errors (explored by the oracle).
-/
namespace PhpVerif.C06
open PhpVerif

def grammar7 : Grammar := { prods := Gen.prods7, role := Gen.symBracket7 }
def grammar5 : Grammar := { prods := Gen.prods5, role := Gen.symBracket5 }

/-- OBLIGATION (kernel-evaluated over all productions of php7.y) -/
theorem grammar7_balanced : grammarBalanced grammar7 = true := by decide +kernel
/-- OBLIGATION (kernel-evaluated over all productions of php5.y) -/
theorem grammar5_balanced : grammarBalanced grammar5 = true := by decide +kernel

/-- every sentential yield of a production of the php7 grammar is balanced in each family
    (0 = parentheses, 1 = square brackets, 2 = braces incl. `{$` and `${`) -/
theorem sentences7_balanced (p : Nat) (kids : List DT) (h : (DT.node p kids).WF grammar7) (f : Nat) (hf : f < 3) :
    cnt grammar7 (1 + 2 * f) (DT.node p kids).yield = cnt grammar7 (2 + 2 * f) (DT.node p kids).yield := by
  have := yield_balanced grammar7 grammar7_balanced f hf (.node p kids) h
  have hb := prod_of_balanced grammar7 grammar7_balanced p h.1
  have h1 : cnt grammar7 (2 + 2 * f) [(DT.node p kids).root grammar7] = 0 := by
    simp [cnt, DT.root, hb.1]; omega
  have h2 : cnt grammar7 (1 + 2 * f) [(DT.node p kids).root grammar7] = 0 := by
    simp [cnt, DT.root, hb.1]; omega
  omega

theorem sentences5_balanced (p : Nat) (kids : List DT) (h : (DT.node p kids).WF grammar5) (f : Nat) (hf : f < 3) :
    cnt grammar5 (1 + 2 * f) (DT.node p kids).yield = cnt grammar5 (2 + 2 * f) (DT.node p kids).yield := by
  have := yield_balanced grammar5 grammar5_balanced f hf (.node p kids) h
  have hb := prod_of_balanced grammar5 grammar5_balanced p h.1
  have h1 : cnt grammar5 (2 + 2 * f) [(DT.node p kids).root grammar5] = 0 := by
    simp [cnt, DT.root, hb.1]; omega
  have h2 : cnt grammar5 (1 + 2 * f) [(DT.node p kids).root grammar5] = 0 := by
    simp [cnt, DT.root, hb.1]; omega
  omega

/-- OBLIGATION (T-facts): every invocation of the error callback is dominated by a nil test -/
theorem callbacks_guarded : Gen.callbackUnguarded = [] := by decide
/-- OBLIGATION (T-facts): the callback is never read except to test it for nil, store it, or call it -/
theorem callback_only_called : Gen.callbackOtherReads = [] := by decide
example : 0 < Gen.nCallbackGuarded := by decide

/-- reporting with an optional callback: the parser's own state is untouched either way -/
def report {σ ε : Type} (cb : Option (ε → Unit)) (st : σ) (e : ε) : σ :=
  match cb with
  | none => st
  | some f => (fun _ => st) (f e)

theorem callback_irrelevant {σ ε : Type} (cb : Option (ε → Unit)) (st : σ) (e : ε) : report cb st e = report none st e := by
  cases cb <;> rfl

/-- position of a lexer error: offsets (ts, te) and the lines of the first and last byte -/
theorem error_position (src : List UInt8) (ps : List Nat) (h : NL.NoSkip 0 ps) (ts te : Nat)
    (hte : te ≤ NL.reach 0 ps) (hts : ts < te) (hlen : NL.reach 0 ps ≤ src.length) :
    C04.tokenPos (NL.scan src ps) ts te =
      { startLine := NL.lineOf src ts, endLine := NL.lineOf src (te - 1), startPos := ts, endPos := te } :=
  C04.token_fields src ps h ts te hte hts hlen

/- non-vacuity: production `'(' expr ')'`-like rows exist and are balanced; an unbalanced row is rejected -/
example : prodBalanced { prods := [], role := [0, 1, 2] } (0, [1, 0, 2]) = true := by decide
example : prodBalanced { prods := [], role := [0, 1, 2] } (0, [1, 0]) = false := by decide
example : 400 < grammar7.prods.length ∧ 400 < grammar5.prods.length := by decide +kernel

end PhpVerif.C06
