import PhpVerif.Model.Mentions
import PhpVerif.Gen.Terms7
import PhpVerif.Gen.Terms5
import PhpVerif.Gen.Grammar7
import PhpVerif.Gen.Grammar5
/-
C01 (and C02): grammar actions only touch `$1 … $n` of their own production.  goyacc hands an action the slice
`yyDollar = yyS[yypt-n : yypt+1]`; `yyDollar[i]` with `i > n` panics with an index error.  The generated code
is produced from the .y, where goyacc itself checks `$i`; an action edited in the .go (as every grammar change
in this repository has to be mirrored by hand — no ragel, and the tables are not regenerated) is not checked by
anybody.  Obligation over the regenerated action terms and the regenerated grammar: no path mentions a `$i`
beyond its production's right-hand side (searched up to `$40`; the longest right-hand side has 11 symbols).
-/
namespace PhpVerif.ActionArgs
open PhpVerif

theorem action_args_in_range7 : argsOutOfRange Gen.prods7 Gen.terms7 = [] := by decide +kernel
theorem action_args_in_range5 : argsOutOfRange Gen.prods5 Gen.terms5 = [] := by decide +kernel

/- non-vacuity: a path of production 2 (one symbol) that reads `$3` is reported -/
def exOut : TPath :=
  { prod := 2, path := 0, n := 1, status := 0, reports := 0,
    conds := [],
    objs := [],
    muts := [],
    ret := some (.arg 3), root := none }
example : argsOutOfRange Gen.prods7 [exOut] = [(2, 0, 3)] := by decide +kernel

end PhpVerif.ActionArgs
