import PhpVerif.Props.C12
import PhpVerif.Props.Linear
import PhpVerif.Lemmas.LinearTree
/-
C12 end to end: parse (whole-parser model, any LALR table), convert to the visitors' tree, traverse with the
regenerated traverser table.  Composition of
  * `parsed_tree_is_linear7` (Props/Linear.lean): no node identity occurs twice in the parser's root value,
  * `toTree_nodup`, `toTree_WF` (Lemmas/LinearTree.lean): the conversion keeps that and yields a schema-well-formed tree,
  * `traverse_exactly_once`, `traverse_nodup` (Props/C12.lean): the visit sequence is a permutation of the tree's nodes.
-/
namespace PhpVerif.ParsedTree
open PhpVerif PhpVerif.Linear

/-- C12 for parsed trees (php7 actions, every LALR table, every token stream, every run that shifts no error token):
    the tree the parser returns is schema-well-formed and has no shared node object, and the traverser hands every
    node object of it to the visitor exactly once — the visit sequence has no repetition and is a permutation of
    the tree's node listing. -/
theorem parsed_tree_traversed_exactly_once7 (t : YYTab) (combs : List PosComb) (toks : Array TokKey)
    (c : Option Nat) (s : YYSt V TreeSt) (h : parseModel t combs (mkPathTable Gen.terms7) toks = .ok (c, s))
    (hne : ¬ hasErrShift s.trace) (r : V) (hr : s.aux.root = some r)
    (tarr : Array Tok) (tr : Tree) (htr : r.toTree C12.sch tarr = some tr) :
    tr.WF C12.sch ∧ tr.nodes.Nodup ∧ (traverse C12.travF tr).Nodup ∧ (traverse C12.travF tr).Perm tr.nodes := by
  have hlin := parsed_tree_is_linear7 t combs toks c s h hne r hr
  have hwf := toTree_WF C12.sch tarr r tr htr
  have hnd := toTree_nodup C12.sch tarr r tr htr hlin.1
  exact ⟨hwf, hnd, C12.traverse_nodup tr hwf hnd, C12.traverse_exactly_once tr hwf⟩

/-- the same for php5 outside the four productions the linearity analysis does not follow -/
theorem parsed_tree_traversed_exactly_once5_partial (t : YYTab) (combs : List PosComb) (toks : Array TokKey)
    (c : Option Nat) (s : YYSt V TreeSt) (h : parseModel t combs (mkPathTable Gen.terms5) toks = .ok (c, s))
    (hne : ¬ Exc bad5 s.trace) (r : V) (hr : s.aux.root = some r)
    (tarr : Array Tok) (tr : Tree) (htr : r.toTree C12.sch tarr = some tr) :
    tr.WF C12.sch ∧ tr.nodes.Nodup ∧ (traverse C12.travF tr).Nodup ∧ (traverse C12.travF tr).Perm tr.nodes := by
  have hlin := parsed_tree_is_linear5_partial t combs toks c s h hne r hr
  have hwf := toTree_WF C12.sch tarr r tr htr
  have hnd := toTree_nodup C12.sch tarr r tr htr hlin.1
  exact ⟨hwf, hnd, C12.traverse_nodup tr hwf hnd, C12.traverse_exactly_once tr hwf⟩

end PhpVerif.ParsedTree
