import PhpVerif.Lemmas.Glue
import PhpVerif.Gen.Facts
/-
C01 — Parsing never crashes, hangs or touches the input buffer.

Proved here (all byte strings, all positions in the stated ranges):
  * every lookahead helper of lexer.go returns normally, never indexes outside the buffer, under
    the guard its call sites provide (M-SCAN: inside a PHP-mode string rule `<?` has been consumed,
    so 2 ≤ p; a `when` condition is evaluated with p < pe);
  * the scanner call stack: any sequence of call / ret from a state with 0 ≤ top ≤ len(stack) stays
    in range (with the repaired `ret`);
  * facts regenerated from the sources: every invocation of the error callback is nil-guarded, no
    statement of the parsing packages writes into the input buffer or a token's bytes.
Model tie: T-diff (harness diff-glue): every helper on every (data, p) with |data| ≤ 5 over an
alphabet of lexically relevant bytes, faults compared; isValidVarName* on all 256 bytes.
Not proved: the transition function of the 531-state generated DFA and the number of its steps,
termination of the goyacc loop; "time proportional to length" — explored by the oracle under a
watchdog (G-bytes exhaustive, truncations, mutations, long inputs).
-/
namespace PhpVerif.C01
open PhpVerif.Glue

theorem isNotStringVar_total (data : List UInt8) (p : Int) (h0 : 2 ≤ p) (h1 : p ≤ data.length) :
    (isNotStringVar data p).isOk = true := by
  obtain ⟨e, he⟩ := escaped_ok data p h0 h1
  unfold isNotStringVar
  simp only [he, bind, Except.bind, pure, Except.pure]
  by_cases hlen : (data.length : Int) ≤ p + 1
  · cases e <;> simp [hlen, R.isOk]
  · obtain ⟨c, hc⟩ := rd_ok data p (by omega) (by omega)
    obtain ⟨d, hd⟩ := rd_ok data (p + 1) (by omega) (by omega)
    cases e
    · simp only [hlen, hc, hd, Bool.false_eq_true, if_false]
      repeat (first | rfl | split)
    · rfl

theorem isNotStringEnd_total (data : List UInt8) (p : Int) (s : UInt8) (h0 : 2 ≤ p) (h1 : p < data.length) :
    (isNotStringEnd data p s).isOk = true := by
  obtain ⟨e, he⟩ := escaped_ok data p h0 (by omega)
  obtain ⟨c, hc⟩ := rd_ok data p (by omega) h1
  unfold isNotStringEnd
  simp only [he, hc, bind, Except.bind, pure, Except.pure]
  cases e <;> rfl

theorem isNotPhpCloseToken_total (data : List UInt8) (p : Int) (h0 : 0 ≤ p) (h1 : p < data.length) :
    (isNotPhpCloseToken data p).isOk = true := by
  unfold isNotPhpCloseToken
  by_cases hl : p + 1 = (data.length : Int)
  · simp [hl, R.isOk, pure, Except.pure]
  · obtain ⟨c, hc⟩ := rd_ok data p h0 h1
    obtain ⟨d, hd⟩ := rd_ok data (p + 1) (by omega) (by omega)
    simp only [hl, hc, hd, bind, Except.bind, pure, Except.pure, beq_iff_eq, if_false]
    repeat (first | rfl | split)

theorem isNotNewLine_total (data : List UInt8) (p : Int) (h0 : 1 ≤ p) (h1 : p < data.length) :
    (isNotNewLine data p).isOk = true := by
  obtain ⟨c, hc⟩ := rd_ok data p (by omega) h1
  obtain ⟨b, hb⟩ := rd_ok data (p - 1) (by omega) (by omega)
  unfold isNotNewLine
  simp only [hc, hb, bind, Except.bind, pure, Except.pure]
  repeat (first | rfl | split)

theorem isHeredocEndBefore73_total (data : List UInt8) (p : Int) (label : List UInt8) (h0 : 1 ≤ p) (h1 : p ≤ data.length) :
    (isHeredocEndBefore73 data p label).isOk = true := by
  obtain ⟨a, ha⟩ := rd_ok data (p - 1) (by omega) (by omega)
  unfold isHeredocEndBefore73
  simp only [ha, bind, Except.bind, pure, Except.pure]
  by_cases c1 : (a != 13 && a != 10) = true
  · simp [c1, R.isOk]
  · simp only [c1, Bool.false_eq_true, if_false]
    by_cases c2 : (data.length : Int) < p + label.length
    · simp [c2, R.isOk]
    · simp only [c2, if_false]
      have hp : ¬ p < 0 := by omega
      by_cases c3 : (data.length : Int) > p + label.length
      · obtain ⟨c, hc⟩ := rd_ok data (p + label.length) (by omega) (by omega)
        by_cases c4 : (data.length : Int) > p + label.length + 1
        · obtain ⟨d, hd⟩ := rd_ok data (p + label.length + 1) (by omega) (by omega)
          simp only [c3, c4, hc, hd, hp, if_true, if_false]
          repeat (first | rfl | split)
        · simp only [c3, c4, hc, hp, if_true, if_false]
          repeat (first | rfl | split)
      · have c4 : ¬ (data.length : Int) > p + label.length + 1 := by omega
        simp only [c3, c4, hp, if_false]
        rfl

theorem isHeredocEndSince73_total (data : List UInt8) (p : Int) (label : List UInt8) (h0 : 1 ≤ p) (h1 : p ≤ data.length) :
    (isHeredocEndSince73 data p label).isOk = true := by
  obtain ⟨a, ha⟩ := rd_ok data (p - 1) (by omega) (by omega)
  unfold isHeredocEndSince73
  simp only [ha, bind, Except.bind, pure, Except.pure]
  by_cases c1 : (a != 13 && a != 10) = true
  · simp [c1, R.isOk]
  · simp only [c1, Bool.false_eq_true, if_false]
    by_cases c2 : p = (data.length : Int)
    · simp [c2, R.isOk]
    · have hp : ¬ p < 0 := by omega
      simp only [hp, if_false]
      generalize skipBlanks data p.toNat data.length = q
      by_cases c3 : data.length < q + label.length
      · simp [c3, R.isOk]
      · simp only [c3, if_false]
        by_cases c4 : data.length > q + label.length
        · obtain ⟨c, hc⟩ := rd_ok data ((q + label.length : Nat) : Int) (by omega) (by omega)
          simp only [c4, hc, if_true]
          repeat (first | rfl | split)
        · simp only [c4, if_false]
          repeat (first | rfl | split)

/-- invariant of the scanner call stack -/
def CSInv (s : CS) : Prop := 0 ≤ s.top ∧ s.top ≤ s.stack.length

theorem call_ok (s : CS) (a b : Int) (h : CSInv s) : ∃ s', call s a b = .ok s' ∧ CSInv s' := by
  have h1 := h.1
  have h2 := h.2
  unfold call
  by_cases hg : s.top = (s.stack.length : Int)
  · have hc : 0 ≤ s.top ∧ s.top < ((s.stack ++ [0]).length : Int) := by
      simp only [List.length_append, List.length_singleton]; omega
    simp only [hg, if_true] at hc ⊢
    simp only [hc, and_self, if_true]
    refine ⟨_, rfl, ?_⟩
    simp [CSInv, setAt]; omega
  · have hc : 0 ≤ s.top ∧ s.top < (s.stack.length : Int) := by omega
    simp only [hg, if_false, hc, and_self, if_true]
    refine ⟨_, rfl, ?_⟩
    simp [CSInv, setAt]; omega

theorem ret_ok (s : CS) (n : Nat) (hn : 1 ≤ n) (h : CSInv s) : ∃ s', ret s n = .ok s' ∧ CSInv s' := by
  have h1 := h.1
  have h2 := h.2
  unfold ret
  by_cases c : s.top < (n : Int)
  · simp only [c, if_true]
    refine ⟨_, rfl, ?_⟩
    simp only [CSInv]; omega
  · simp only [c, if_false]
    have hr : 0 ≤ s.top - (n : Int) ∧ s.top - (n : Int) < (s.stack.length : Int) := by omega
    simp only [hr, and_self, if_true]
    refine ⟨_, rfl, ?_⟩
    simp only [CSInv]; omega

/-- every `ret` of the sequence pops at least one entry (the scanner's call sites are `ret(1)` and `ret(2)`) -/
def RetsPositive (ops : List StackOp) : Prop := ∀ n, StackOp.ret n ∈ ops → 1 ≤ n

/-- C01 call stack: every finite sequence of call / ret keeps every stack index in range -/
theorem callstack_safe (ops : List StackOp) (hp : RetsPositive ops) (s : CS) (h : CSInv s) : (runOps ops s).isOk = true := by
  induction ops generalizing s with
  | nil => rfl
  | cons op ops ih =>
    have hp' : RetsPositive ops := fun n hn => hp n (List.mem_cons_of_mem _ hn)
    cases op with
    | call a b =>
      obtain ⟨s', hs, hi⟩ := call_ok s a b h
      simp only [runOps, hs, bind, Except.bind]
      exact ih hp' s' hi
    | ret n =>
      obtain ⟨s', hs, hi⟩ := ret_ok s n (hp n (List.mem_cons_self ..)) h
      simp only [runOps, hs, bind, Except.bind]
      exact ih hp' s' hi

/-- the initial state of NewLexer: empty stack, top = 0 -/
example : CSInv { stack := [], top := 0, cs := 0, p := 0 } := by simp [CSInv]
/-- an unmatched `}` at top level: ret on the empty stack is fine (this was the `<? }` panic) -/
example : (runOps [.ret 1, .call 5 6, .ret 2, .ret 1] { stack := [], top := 0, cs := 123, p := 3 }).isOk = true := by decide

/-- OBLIGATIONS (T-facts) -/
theorem callbacks_guarded : Gen.callbackUnguarded = [] := by decide
theorem input_untouched : Gen.bufferWrites = [] := by decide

/- the guards are tight: at the excluded points the helpers do fault (the two repaired panics were
   exactly one step outside) -/
example : (isNotStringVar [92, 63, 32] 1).isOk = false := by decide
example : (isNotStringVar [60, 63, 32, 34, 36] 4).isOk = true := by decide   -- `<? "$` : the `"$` panic, repaired
example : (isNotNewLine [10] 0).isOk = false := by decide

end PhpVerif.C01
