import PhpVerif.Props.Actions
import PhpVerif.Gen.Grammar7
import PhpVerif.Gen.Grammar5
/-
C07 — A syntax error costs only the statement it is in.

Proved here:
  * `error_productions_store_nothing`: every production with the `error` token on its right-hand side
    (top_statement: error, inner_statement: error) returns without storing any right-hand-side
    value — the tokens of the discarded statement are referenced by no node;
  * `nothing_stored_twice` (from Actions): no production path stores a right-hand-side value twice, so
    whatever tree is returned, with or without errors, holds each token of the source at most once;
  * every node is built from right-hand-side values and literals only (untranslatable paths pinned),
    so a returned tree holds no token that the scanner did not produce.
Not mechanised: the goyacc error-recovery loop itself (state popping, the three-token resync) —
"the statements before the broken one are what parsing them alone gives" and "parsing continues"
are checked by the oracle on the real parser (valid statement lists with a malformed statement
inserted at every boundary, at top level and inside blocks).
-/
namespace PhpVerif.C07
open PhpVerif

/-- symbol id 1 is `error` in the generated grammars -/
def hasError (prods : List (Nat × List Nat)) (p : Nat) : Bool :=
  ((prods[p - 1]?).map (fun r => r.2.contains 1)).getD false

def errorPathsEmpty (prods : List (Nat × List Nat)) (ps : List PathSum) : Bool :=
  ps.all (fun p => !hasError prods p.prod || (p.used.isEmpty && p.objs.isEmpty))

/-- OBLIGATION: error productions drop the broken statement and keep nothing of it -/
theorem error_productions_store_nothing7 : errorPathsEmpty Gen.prods7 Gen.paths7 = true := by decide +kernel
theorem error_productions_store_nothing5 : errorPathsEmpty Gen.prods5 Gen.paths5 = true := by decide +kernel

/-- there are error productions (the obligation is not vacuous) -/
example : (Gen.paths7.filter (fun p => hasError Gen.prods7 p.prod)).length = 2 := by decide +kernel
example : (Gen.paths5.filter (fun p => hasError Gen.prods5 p.prod)).length = 2 := by decide +kernel

theorem nothing_stored_twice7 (p : PathSum) (hp : p ∈ Gen.paths7) (hk : p.kind = 0 ∨ p.kind = 1)
    (hn : (p.prod, p.path) ∉ Spec.knownFailing7) : p.used.Nodup :=
  (Actions.paths7_facts p hp hk hn).linear

theorem nothing_stored_twice5 (p : PathSum) (hp : p ∈ Gen.paths5) (hk : p.kind = 0 ∨ p.kind = 1)
    (hn : (p.prod, p.path) ∉ Spec.knownFailing5) : p.used.Nodup :=
  (Actions.paths5_facts p hp hk hn).linear

end PhpVerif.C07
