import PhpVerif.Lemmas.YYStack
import PhpVerif.Gen.Tables7
import PhpVerif.Gen.Tables5
import PhpVerif.Gen.Cert7
import PhpVerif.Gen.Cert5
/-
Stack underflow of the LALR driver (the one fault `driver7/5_no_index_fault` leaves open besides `sem`).

NOT A PROOF.  gofacts computes, by a fixpoint over the tables, a certificate (possible predecessors of
every state, LR items by dot position, the goto relation; Gen/Cert{5,7}.lean) and `certOK`
(Lemmas/YYStack.lean) is the decidable condition under which the certificate implies "a reduction
always finds its right-hand side on the stack":
  K1 every shift edge is recorded, K2 a reducing state holds the complete item, K3 items move down one
  entry per edge, K4 the bottom state holds only dot-at-start items, K5 every exposed state has a goto
  entry, which is what the tables compute and is a recorded edge.
Here the condition is only EVALUATED (`#guard`, Lean's compiled evaluator — about 5 s), not reduced by the
kernel (measured: > 10 min for K3 alone with list-based sets), and the implication itself (an induction
over M-LR moves with the invariant "adjacent stack states are recorded edges") is not mechanised.  It
is a test of the current tables that fails when a table edit makes an underflow possible; it is listed
under "explored" in the evidence, not under theorems.
-/
namespace PhpVerif.StackCert
open PhpVerif

def cert7 : StackCert := { pre := Gen.preList7, items := Gen.items7, gotos := Gen.gotoTab7 }
def cert5 : StackCert := { pre := Gen.preList5, items := Gen.items5, gotos := Gen.gotoTab5 }

#guard certOK Gen.tables7L cert7
#guard certOK Gen.tables5L cert5
-- the check is not vacuous: without the goto relation it fails
#guard !certOK Gen.tables7L { cert7 with gotos := [] }
#guard !certOK Gen.tables7L { cert7 with pre := Gen.preList7.map (fun _ => []) }

end PhpVerif.StackCert
