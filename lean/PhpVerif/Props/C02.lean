import PhpVerif.Props.Actions
import PhpVerif.Props.C15
/-
C02 — Parse then print reproduces the source byte for byte.

Proved here (for every production path of both grammars, except the recorded findings and the
paths listed as assumed):
  * every terminal and nonterminal value of the right-hand side that carries text is stored in the
    result, exactly once (`stored_once`), and inside every node the action builds, the stored values
    sit in struct-field order (`stored_in_order`), which is the order in which the printer emits
    them (C15.printer_order_is_field_order) and emits each exactly once (C15.printer_rows);
  * hence by induction over the reductions of an error-free parse the printed token sequence is
    the source token sequence — this last induction over the LR run is NOT mechanised (M-LR of
    DESIGN.md §3 was not built); the oracle checks its conclusion on the real code, with
    production coverage reported.
Tie: T-gen (actions, printer table, schema).  The byte-level `write` state machine is checked
by the oracle only.
-/
namespace PhpVerif.C02
open PhpVerif

theorem stored_once7 (p : PathSum) (hp : p ∈ Gen.paths7) (hk : p.kind = 0 ∨ p.kind = 1)
    (hn : (p.prod, p.path) ∉ Spec.knownFailing7) :
    p.used.Nodup ∧ ∀ r ∈ p.need, r.1 ∉ p.exempt → r ∈ p.used :=
  let f := Actions.paths7_facts p hp hk hn
  ⟨f.linear, f.complete⟩

theorem stored_once5 (p : PathSum) (hp : p ∈ Gen.paths5) (hk : p.kind = 0 ∨ p.kind = 1)
    (hn : (p.prod, p.path) ∉ Spec.knownFailing5) :
    p.used.Nodup ∧ ∀ r ∈ p.need, r.1 ∉ p.exempt → r ∈ p.used :=
  let f := Actions.paths5_facts p hp hk hn
  ⟨f.linear, f.complete⟩

theorem stored_in_order7 (p : PathSum) (hp : p ∈ Gen.paths7) (hk : p.kind = 0 ∨ p.kind = 1)
    (hn : (p.prod, p.path) ∉ Spec.knownFailing7) :
    ∀ o ∈ p.objs, o.1.Pairwise (fun a b => refLt a b = true) :=
  (Actions.paths7_facts p hp hk hn).ordered

theorem stored_in_order5 (p : PathSum) (hp : p ∈ Gen.paths5) (hk : p.kind = 0 ∨ p.kind = 1)
    (hn : (p.prod, p.path) ∉ Spec.knownFailing5) :
    ∀ o ∈ p.objs, o.1.Pairwise (fun a b => refLt a b = true) :=
  (Actions.paths5_facts p hp hk hn).ordered

/-- the printer emits the fields of every kind in declaration order, each once -/
theorem printer_follows_fields (k : Nat) :
    C15.fieldOrder (C15.printF k) = C15.printedIdx (C15.sch k) := C15.printer_order_row k

end PhpVerif.C02
