import PhpVerif.Props.Actions
import PhpVerif.Props.C15
/-
C02 — Parse then print reproduces the source byte for byte.

Proved here (for every production path of both grammars, except the recorded findings and the
paths listed as assumed):
  * every terminal and nonterminal value of the right-hand side that carries text is stored in the
    result, exactly once (`stored_once`), and inside every node the action builds, the stored values
    sit in struct-field order (`stored_in_order`), which is the order in which the printer emits
    them (C15.printer_order_is_field_order) and emits each exactly once (C15.printer_rows);
  * hence by induction over the reductions of an error-free parse the printed token sequence is
    the source token sequence — this last induction over the LR run is NOT mechanised (M-LR of
    DESIGN.md §3 was not built); the oracle checks its conclusion on the real code, with
    production coverage reported.
Tie: T-gen (actions, printer table, schema); T-diff diff-printer (M-PRINT + M-RENDER vs the real
printer, byte for byte).
  * byte level (`print_complete_tree`): a tree that has all its tokens (`Tree.complete`: no
    statement needs a default lexeme) and whose inline-HTML nodes each follow a close tag is printed
    as exactly the concatenation of its tokens' texts, free-floating first — the printer adds no
    `<?php `, no blank, no `?>` and drops nothing.
-/
namespace PhpVerif.C02
open PhpVerif

theorem stored_once7 (p : PathSum) (hp : p ∈ Gen.paths7) (hk : p.kind = 0 ∨ p.kind = 1)
    (hn : (p.prod, p.path) ∉ Spec.knownFailing7) :
    p.used.Nodup ∧ ∀ r ∈ p.need, r.1 ∉ p.exempt → r ∈ p.used :=
  let f := Actions.paths7_facts p hp hk hn
  ⟨f.linear, f.complete⟩

theorem stored_once5 (p : PathSum) (hp : p ∈ Gen.paths5) (hk : p.kind = 0 ∨ p.kind = 1)
    (hn : (p.prod, p.path) ∉ Spec.knownFailing5) :
    p.used.Nodup ∧ ∀ r ∈ p.need, r.1 ∉ p.exempt → r ∈ p.used :=
  let f := Actions.paths5_facts p hp hk hn
  ⟨f.linear, f.complete⟩

theorem stored_in_order7 (p : PathSum) (hp : p ∈ Gen.paths7) (hk : p.kind = 0 ∨ p.kind = 1)
    (hn : (p.prod, p.path) ∉ Spec.knownFailing7) :
    ∀ o ∈ p.objs, o.1.Pairwise (fun a b => refLt a b = true) :=
  (Actions.paths7_facts p hp hk hn).ordered

theorem stored_in_order5 (p : PathSum) (hp : p ∈ Gen.paths5) (hk : p.kind = 0 ∨ p.kind = 1)
    (hn : (p.prod, p.path) ∉ Spec.knownFailing5) :
    ∀ o ∈ p.objs, o.1.Pairwise (fun a b => refLt a b = true) :=
  (Actions.paths5_facts p hp hk hn).ordered

/-- the printer emits the fields of every kind in declaration order, each once -/
theorem printer_follows_fields (k : Nat) :
    C15.fieldOrder (C15.printF k) = C15.printedIdx (C15.sch k) := C15.printer_order_row k

/-- inline HTML finds a close tag (or the start of the output) before it -/
def htmlQuiet : Option Bytes → List Item → Bool
  | _, [] => true
  | last, .tok t :: r => htmlQuiet (lastAfter last t) r
  | last, .htmlOpen :: r =>
      (match last with
       | none => true
       | some l => hasSuffix (trimRightNl l) closeTag) && htmlQuiet last r
  | last, _ :: r => htmlQuiet last r

theorem tokensOnly_of_pure (last : Option Bytes) (l : List Item)
    (hp : pureItems l = true) (hq : htmlQuiet last l = true) : tokensOnly last l = true := by
  induction l generalizing last with
  | nil => rfl
  | cons i r ih =>
    simp only [pureItems, List.all_cons, Bool.and_eq_true] at hp
    cases i with
    | tok t => simpa [tokensOnly] using ih _ hp.2 (by simpa [htmlQuiet] using hq)
    | lit id => simp [Item.pure] at hp
    | own v => simp [Item.pure] at hp
    | htmlOpen =>
      simp only [htmlQuiet, Bool.and_eq_true] at hq
      simp only [tokensOnly, Bool.and_eq_true]
      exact ⟨hq.1, ih _ hp.2 hq.2⟩
    | htmlClose => simpa [tokensOnly] using ih _ hp.2 (by simpa [htmlQuiet] using hq)

/-- BYTE LEVEL: a complete tree is printed as exactly its tokens' bytes in write order. -/
theorem print_complete_tree (t : Tree) (hc : t.complete C15.realCfg = true)
    (hq : htmlQuiet none (chunks C15.realCfg false t) = true) :
    C15.printBytes t = (chunks C15.realCfg false t).flatMap (itemBytes C15.litBytes) := by
  have hp := pure_chunks C15.realCfg false t hc
  have := tokensOnly_out C15.litBytes (chunks C15.realCfg false t) {} (tokensOnly_of_pure none _ hp hq)
  simpa [C15.printBytes, render] using this

/-- non-vacuity: `Root{Stmts: [], EndTkn: tok "A" with free-floating " "}` is complete and quiet -/
example : (Tree.mk 0 0 none [[], [], [{ uid := 1, id := 0, val := [65], ff := [{ id := 0, val := [32] }] }]] [] [] []).complete C15.realCfg = true
    ∧ htmlQuiet none (chunks C15.realCfg false (Tree.mk 0 0 none [[], [], [{ uid := 1, id := 0, val := [65], ff := [{ id := 0, val := [32] }] }]] [] [] [])) = true := by
  decide +kernel

end PhpVerif.C02
