import PhpVerif.Lemmas.YYRoot
import PhpVerif.Props.Complete
import PhpVerif.Gen.Terms7
import PhpVerif.Gen.Terms5
/-
C06, "whenever no error is delivered the returned tree is non-nil": on the whole-parser model (driver M-YY over the
regenerated LALR tables, actions M-TERM regenerated from php{5,7}.go; tied by diff-yy / diff-parser / diff-pipeline)
**every run that returns 0 (accept) has set the root** — for every token stream, with or without reported errors.

Rests on `rootFacts` (Lemmas/YYRoot.lean), decided by kernel evaluation on the regenerated tables and action terms:
state 1 is the only accepting state; nothing but the goto on the start symbol enters it; every production of the
start symbol has actions and all of them set the root.  Together with `silent_parse_is_complete7/5` (every token
shifted, once, in order) this is the model-level content of "a silent parse is a complete parse".
-/
namespace PhpVerif.Root
open PhpVerif

/-- OBLIGATIONS (kernel-evaluated over the regenerated tables and action terms), php7 -/
theorem kpos7 : kPos Gen.tables7L 1 = true := by decide +kernel
theorem acc_only7 : accOnly Gen.tables7L 1 = true := by decide +kernel
theorem no_shift7 : noShiftB Gen.tables7L 1 = true := by decide +kernel
theorem fallback7 : fallbackB Gen.tables7L 1 = true := by decide +kernel
theorem roots7 : rootsB Gen.tables7L Gen.terms7 1 = true := by decide +kernel
/-- php5 -/
theorem kpos5 : kPos Gen.tables5L 1 = true := by decide +kernel
theorem acc_only5 : accOnly Gen.tables5L 1 = true := by decide +kernel
theorem no_shift5 : noShiftB Gen.tables5L 1 = true := by decide +kernel
theorem fallback5 : fallbackB Gen.tables5L 1 = true := by decide +kernel
theorem roots5 : rootsB Gen.tables5L Gen.terms5 1 = true := by decide +kernel

theorem root_facts7 : RootFacts Gen.tables7L Gen.terms7 1 := rootFacts_spec kpos7 acc_only7 no_shift7 fallback7 roots7
theorem root_facts5 : RootFacts Gen.tables5L Gen.terms5 1 := rootFacts_spec kpos5 acc_only5 no_shift5 fallback5 roots5

theorem init_rinv (toks : Array TokKey) (combs : List PosComb) (tbl : PathTable) :
    RInv 1 (yyInit (treeSem toks combs tbl) ({} : TreeSt)) := by
  intro e he hea
  simp only [yyInit, List.mem_singleton] at he
  subst he
  simp at hea

/-- C06 (php7): an accepted parse returns a tree -/
theorem accepted_parse_has_root7 (combs : List PosComb) (toks : Array TokKey) (s : YYSt V TreeSt)
    (h : parseModel Gen.tables7 combs (mkPathTable Gen.terms7) toks = .ok (some 0, s)) : s.aux.root.isSome = true := by
  have e : Gen.tables7 = Gen.tables7L.toArr := rfl
  rw [e] at h
  exact yyRun_root root_facts7 (eofFacts_spec C06.eof_facts7) toks combs _ _ _ s (init_rinv toks combs _) h

/-- C06 (php5): an accepted parse returns a tree -/
theorem accepted_parse_has_root5 (combs : List PosComb) (toks : Array TokKey) (s : YYSt V TreeSt)
    (h : parseModel Gen.tables5 combs (mkPathTable Gen.terms5) toks = .ok (some 0, s)) : s.aux.root.isSome = true := by
  have e : Gen.tables5 = Gen.tables5L.toArr := rfl
  rw [e] at h
  exact yyRun_root root_facts5 (eofFacts_spec C06.eof_facts5) toks combs _ _ _ s (init_rinv toks combs _) h

/- non-vacuity: the facts fail for tables in which another state accepts as well (state 2 is given state 1's row) -/
example : accOnly Gen.tables7L 2 = false := by decide +kernel

end PhpVerif.Root
