import PhpVerif.Spec.NameRes
import PhpVerif.Gen.ResolverTab
/-
C14 — Resolved names follow PHP's name-resolution rules.

Model: Model/Nsr.lean mirrors Namespace.{AddAlias, ResolveAlias, ResolveName}, concatNameParts,
AddNamespacedName (hand-written; tied T-diff: harness diff-nsr runs the real Namespace on generated
alias histories and names).  Spec: Spec/NameRes.lean, PHP's rules over the history of use
declarations.  `resolve_refines_spec`: for every namespace, every history of use declarations and
every reference the model's answer is the spec's.  `dispatch_is_php`: the (kind, field, how) triples
regenerated from the resolver's visitor methods are exactly PHP's compile-time-resolved positions.
Outside the model: non-ASCII identifier bytes (Go's Unicode ToLower vs PHP's ASCII folding).
-/
namespace PhpVerif.C14
open PhpVerif.Nsr PhpVerif.Spec

/-- OBLIGATION (T-gen): what the resolver looks at = where PHP resolves names -/
theorem dispatch_is_php : Gen.resolverPositions = phpResolvedPositions := by decide

theorem lookup_cons (k v key : Str) (tab : List (Str × Str)) :
    lookup ((k, v) :: tab) key = if k == key then some v else lookup tab key := by
  simp only [lookup, List.find?_cons]
  split <;> simp_all

/-- table lookup after replaying a history = the last matching declaration, else what was there -/
theorem lookup_run_cls (hist : List UseDecl) (ns : Ns) (key : Str) :
    lookup (ns.run hist).cls (lower key) = (lastUse hist .cls key).orElse (fun _ => lookup ns.cls (lower key)) := by
  induction hist generalizing ns with
  | nil => simp [Ns.run, lastUse]
  | cons d r ih =>
    simp only [Ns.run, lastUse]
    rw [ih]
    cases hl : lastUse r .cls key with
    | some t => simp
    | none =>
      simp only [Option.orElse]
      cases hk : d.kind <;> simp [Ns.addAlias, hk, aliasMatches, lookup_cons] <;> split <;> simp_all

theorem lookup_run_fn (hist : List UseDecl) (ns : Ns) (key : Str) :
    lookup (ns.run hist).fn (lower key) = (lastUse hist .fn key).orElse (fun _ => lookup ns.fn (lower key)) := by
  induction hist generalizing ns with
  | nil => simp [Ns.run, lastUse]
  | cons d r ih =>
    simp only [Ns.run, lastUse]
    rw [ih]
    cases hl : lastUse r .fn key with
    | some t => simp
    | none =>
      simp only [Option.orElse]
      cases hk : d.kind <;> simp [Ns.addAlias, hk, aliasMatches, lookup_cons] <;> split <;> simp_all

theorem lookup_run_cst (hist : List UseDecl) (ns : Ns) (key : Str) :
    lookup (ns.run hist).cst key = (lastUse hist .cst key).orElse (fun _ => lookup ns.cst key) := by
  induction hist generalizing ns with
  | nil => simp [Ns.run, lastUse]
  | cons d r ih =>
    simp only [Ns.run, lastUse]
    rw [ih]
    cases hl : lastUse r .cst key with
    | some t => simp
    | none =>
      simp only [Option.orElse]
      cases hk : d.kind <;> simp [Ns.addAlias, hk, aliasMatches, lookup_cons] <;> split <;> simp_all

theorem run_name (hist : List UseDecl) (ns : Ns) : (ns.run hist).name = ns.name := by
  induction hist generalizing ns with
  | nil => rfl
  | cons d r ih => simp only [Ns.run]; rw [ih]; cases d.kind <;> rfl

theorem lookup_nil (key : Str) : lookup [] key = none := rfl

theorem join_single (x : Str) : join [x] = x := by simp [join]

/-- C14, all namespaces, all histories of use declarations, all references, all three kinds:
    the resolver's answer is the answer of PHP's rules -/
theorem resolve_refines_spec (nsName : Str) (hist : List UseDecl) (n : NameRef) (k : AKind) :
    ((Ns.new nsName).run hist).resolve n k = phpResolve nsName hist n k := by
  have hname : ((Ns.new nsName).run hist).name = nsName := by rw [run_name]; rfl
  have hname' : (({ name := nsName, cls := [], fn := [], cst := [] } : Ns).run hist).name = nsName := hname
  cases n with
  | fq parts => rfl
  | rel parts => simp [Ns.resolve, phpResolve, prefixed, withNs, hname]
  | plain parts =>
    match parts with
    | [] => simp [Ns.resolve, phpResolve, Ns.resolveAlias, prefixed, withNs, hname, join]
    | [one] =>
      simp only [Ns.resolve, phpResolve]
      split
      · rfl
      · split
        · rfl
        · simp only [Ns.resolveAlias, List.isEmpty_nil, Bool.not_true, Bool.false_eq_true, if_false]
          cases k with
          | cst =>
            simp only [beq_self_eq_true, if_true, lookup_run_cst, Ns.new, lookup_nil]
            cases lastUse hist .cst one <;> simp [prefixed, withNs, hname, hname', join_single]
          | cls =>
            have : (AKind.cls == AKind.cst) = false := by decide
            simp only [this, Bool.false_eq_true, if_false, Ns.table, lookup_run_cls, Ns.new, lookup_nil]
            cases lastUse hist .cls one <;> simp [prefixed, withNs, hname, hname', join_single]
          | fn =>
            have : (AKind.fn == AKind.cst) = false := by decide
            simp only [this, Bool.false_eq_true, if_false, Ns.table, lookup_run_fn, Ns.new, lookup_nil]
            cases lastUse hist .fn one <;> simp [prefixed, withNs, hname, hname', join_single]
    | first :: second :: rest =>
      simp only [Ns.resolve, phpResolve, Ns.resolveAlias, List.isEmpty_cons, Bool.not_false, if_true,
        lookup_run_cls, Ns.new, lookup_nil]
      cases lastUse hist .cls first <;> simp [prefixed, withNs, hname, hname']

/-- declarations get the current namespace as prefix -/
theorem declared_spec (nsName : Str) (hist : List UseDecl) (x : Str) :
    ((Ns.new nsName).run hist).declared x = withNs nsName x := by
  simp [Ns.declared, prefixed, withNs, run_name, Ns.new]

/- non-vacuity: `namespace N; use A\B; use function f\g as H; use const C\D;` -/
def exHist : List UseDecl :=
  [⟨.cls, s "A\\B", s "B"⟩, ⟨.fn, s "f\\g", s "H"⟩, ⟨.cst, s "C\\D", s "D"⟩, ⟨.cls, s "X\\B2", s "b"⟩]

example : phpResolve (s "N") exHist (.plain [s "b"]) .cls = s "X\\B2" := by decide +kernel          -- the later `use … as b` wins, case-insensitively
example : phpResolve (s "N") exHist (.plain [s "h"]) .fn = s "f\\g" := by decide +kernel           -- function aliases are case-insensitive
example : phpResolve (s "N") exHist (.plain [s "d"]) .cst = s "N\\d" := by decide +kernel          -- constant aliases are case-sensitive
example : phpResolve (s "N") exHist (.plain [s "B", s "C"]) .fn = s "X\\B2\\C" := by decide +kernel  -- qualified: class table, whatever the kind
example : phpResolve (s "N") exHist (.plain [s "Self"]) .cls = s "self" := by decide +kernel
example : phpResolve (s "N") exHist (.rel [s "Q"]) .cls = s "N\\Q" := by decide +kernel

end PhpVerif.C14
