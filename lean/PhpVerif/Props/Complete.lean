import PhpVerif.Lemmas.YYComplete
import PhpVerif.Gen.Tables7
import PhpVerif.Gen.Tables5
/-
C06 — "a silent parse is a complete parse", on the goyacc driver model (Model/YY.lean, tied by diff-yy)
over the LALR tables regenerated from php7.go / php5.go on every run:

  for EVERY sequence of token numbers (none of them 0, the number the lexer keeps for the end of input),
  every semantic side and every number of rounds: if the run returns 0 and no syntax error was reported,
  then the tokens it shifted are exactly tokens 0, 1, …, n-1 of the input, each once, in order.

Rests on three facts decided on the tables (`eofFacts`, kernel evaluation): a negative entry of the
exception table (accept) stands only under the end-of-input token; `yylex1` maps to that token exactly the
characters ≤ 0; no state shifts it.  So acceptance needs the end of input as lookahead, the end of input is
read only after the last token, and every token before it was shifted (nothing is dropped without an
error being reported first).  What the actions do with the shifted tokens is C02 / Props/Parser.lean.
-/
namespace PhpVerif.C06
open PhpVerif

/-- OBLIGATION (kernel-evaluated over the regenerated php7 tables) -/
theorem eof_facts7 : eofFacts Gen.tables7L = true := by decide +kernel
/-- OBLIGATION (kernel-evaluated over the regenerated php5 tables) -/
theorem eof_facts5 : eofFacts Gen.tables5L = true := by decide +kernel

theorem silent_parse_is_complete7 {α σ : Type} (sem : YYSem α σ) (input : Array Nat)
    (hin : ∀ i (h : i < input.size), input[i] ≠ 0) (n : Nat) (aux : σ) (s' : YYSt α σ)
    (h : yyRun Gen.tables7 sem input n (yyInit sem aux) = .ok (some 0, s')) (hs : noSaw s'.trace) :
    (shiftIdx s'.trace).reverse = List.range input.size :=
  yyRun_complete (tl := Gen.tables7L) (eofFacts_spec eof_facts7) hin sem n _ s' (yyInit_cinv sem aux) h hs

theorem silent_parse_is_complete5 {α σ : Type} (sem : YYSem α σ) (input : Array Nat)
    (hin : ∀ i (h : i < input.size), input[i] ≠ 0) (n : Nat) (aux : σ) (s' : YYSt α σ)
    (h : yyRun Gen.tables5 sem input n (yyInit sem aux) = .ok (some 0, s')) (hs : noSaw s'.trace) :
    (shiftIdx s'.trace).reverse = List.range input.size :=
  yyRun_complete (tl := Gen.tables5L) (eofFacts_spec eof_facts5) hin sem n _ s' (yyInit_cinv sem aux) h hs

/-- the condition is not vacuous: tables in which another token leads to acceptance are rejected -/
example : pairsAll (fun a b => decide (0 ≤ b) || a == 1) 10 [9, 11, 11, 9, 8, 10] = true := by decide
example : pairsAll (fun a b => decide (0 ≤ b) || a == 1) 10 [9, 11, 12, 9, 8, 10] = false := by decide

end PhpVerif.C06

namespace PhpVerif.C06
open PhpVerif

def silentAccept (r : Except YYFault (Option Nat × YYSt Unit Unit)) : Bool :=
  match r with
  | .ok (some 0, s') => s'.trace.all (fun e => match e with | .saw _ _ => false | _ => true)
  | _ => false

/-- the hypotheses are satisfiable: `echo 1;` (T_ECHO T_LNUMBER ';') is accepted silently by the php7 tables,
    and the run shifted tokens 0, 1, 2 -/
example : silentAccept (yyRun Gen.tables7 unitSem #[57361, 57350, 59] 40 (yyInit unitSem ())) = true := by decide +kernel
/-- … while `echo ;` is not -/
example : silentAccept (yyRun Gen.tables7 unitSem #[57361, 59] 40 (yyInit unitSem ())) = false := by decide +kernel

end PhpVerif.C06
