import PhpVerif.Lemmas.Roundtrip
import PhpVerif.Props.C15
import PhpVerif.Props.Pipeline
import PhpVerif.Gen.Schema
/-
C02 / C07, end to end inside the model (scanner model → driver + actions → `toTree` → printer model → render,
tied as a whole by diff-roundtrip):

  `printed_parse_is_source_tokens` — for every source, whatever tree the parser returns (accepted parse or any
  amount of error recovery): the bytes the printer writes for it are a sequence of pieces, each preceded by
  one of the printer's glue strings (nothing, `<?php `, a blank, both, `?>`), and every piece that is the text
  of a token (free-floating entries first) is the text of a token the scanner cut out of the source
  (`0 ≤ ts ≤ te ≤ |src|`); the other pieces are the printer's own lexemes and node values.  No piece of text
  comes from anywhere else: neither the actions, nor recovery, nor the conversion, nor the printer invent
  token text.

Not proved: that every source token is written, once, in source order (the per-production obligations of
Props/C02.lean + oracle-C02; diff-roundtrip counts the sources printed back exactly).
-/
namespace PhpVerif.C02
open PhpVerif

def schemaSortsOf (k : Nat) : List Nat := rowAt Gen.schemaSorts k

/-- the real printer tables on the parsed tree -/
def printParsedReal (pr : ScanProg) (t : YYTab) (combs : List PosComb) (tbl : PathTable) (numString : Nat) (ge73 : Bool)
    (src : Array UInt8) : Option Bytes :=
  printParsed pr t combs tbl numString ge73 schemaSortsOf C15.realCfg C15.litBytes src

theorem printed_parse_is_source_tokens (pr : ScanProg) (t : YYTab) (combs : List PosComb) (tbl : PathTable) (numString : Nat)
    (ge73 : Bool) (src : Array UInt8) (out : Bytes) (h : printParsedReal pr t combs tbl numString ge73 src = some out) :
    ∃ (items : List Item) (gs : List Bytes), gs.length = items.length ∧ (∀ g ∈ gs, g ∈ glueSet) ∧
      out = (gs.zip items).flatMap (fun p => p.1 ++ itemBytes C15.litBytes p.2) ∧
      ∀ x, Item.tok x ∈ items →
        ∃ tk ∈ (parseBytes pr t combs tbl numString ge73 src).toks, tk.inBounds src.size = true ∧ x = tokOfOut src tk := by
  unfold printParsedReal printParsed at h
  simp only at h
  split at h
  · rename_i r hf hr
    cases htr : V.toTree schemaSortsOf ((parseBytes pr t combs tbl numString ge73 src).toks.map (tokOfOut src)).toArray r with
    | none => simp [htr] at h
    | some tr =>
      simp only [htr, Option.map_some, Option.some.injEq] at h
      obtain ⟨gs, h1, h2, h3⟩ := C15.print_is_items_with_glue tr
      refine ⟨chunks C15.realCfg false tr, gs, h1, h2, ?_, ?_⟩
      · rw [← h]; exact h3
      · intro x hx
        have hP := chunks_tokP (P := FromArr ((parseBytes pr t combs tbl numString ge73 src).toks.map (tokOfOut src)).toArray)
          C15.realCfg false tr (toTree_P _ _ r tr htr) x hx
        obtain ⟨i, hi⟩ := hP
        have hi' : ((parseBytes pr t combs tbl numString ge73 src).toks.map (tokOfOut src))[i]? = some x := by simpa using hi
        rw [List.getElem?_map] at hi'
        cases hk : (parseBytes pr t combs tbl numString ge73 src).toks[i]? with
        | none => simp [hk] at hi'
        | some tk =>
          simp [hk] at hi'
          have hm := List.mem_of_getElem? hk
          exact ⟨tk, hm, Pipeline.pipeline_tokens_are_source_slices pr t combs tbl numString ge73 src tk hm, hi'.symm⟩
  · cases h

end PhpVerif.C02
