import PhpVerif.Gen.Schema
import PhpVerif.Gen.TraverserTab
import PhpVerif.Gen.PrinterTab
import PhpVerif.Model.Printer
import PhpVerif.Lemmas.Traverse
import PhpVerif.Lemmas.Rows
import PhpVerif.Props.Actions
/-
C12 — Traversal presents every node exactly once, parents first, in source order.

Tie: T-gen.  `Gen.travTab`, `Gen.printerTab`, `Gen.schemaSorts` are regenerated from
traverser.go, printer.go and node.go on every run; `trav_table_ok` is re-evaluated by
the kernel on the fresh data.
-/
namespace PhpVerif.C12
open PhpVerif PhpVerif.Gen

def sch (k : Nat) : List Nat := rowAt schemaSorts k
def travF (k : Nat) : List Nat := rowAt travTab k
def printF (k : Nat) : List POp := rowAt printerTab k

/-- one kind: the traverser visits the children in the printer's (= source) order,
    and that order mentions every child field of the schema exactly once -/
def travRowOK (sorts : List Nat) (trav : List Nat) (pr : List POp) : Bool :=
  trav == srcOrder pr && trav.isPerm (childIdx sorts)

def travTableOK : Bool :=
  allRows3 travRowOK schemaSorts travTab printerTab
    && travSelfFirst == List.replicate nKinds 1
    && schemaSorts.length == nKinds

/-- OBLIGATION (kernel-evaluated on the regenerated tables, all kinds × all child fields). -/
theorem trav_table_ok : travTableOK = true := by decide +kernel

theorem trav_rows (k : Nat) :
    travF k = srcOrder (printF k) ∧ (travF k).Perm (childIdx (sch k)) := by
  have h := trav_table_ok
  simp only [travTableOK, Bool.and_eq_true] at h
  have hk := allRows3_spec travRowOK _ _ _ h.1.1 k
  simp only [travRowOK, Bool.and_eq_true, beq_iff_eq, List.isPerm_iff] at hk
  exact hk

/-- C12, "exactly once, nothing else": for every schema-well-formed tree the visit sequence
    of the real traverser table is a permutation of the tree's nodes (table-independent listing). -/
theorem traverse_exactly_once (t : Tree) (h : t.WF sch) :
    (traverse travF t).Perm t.nodes :=
  traverse_perm sch travF (fun k => (trav_rows k).2) t h

/-- hence no node is visited twice when the tree has no shared node -/
theorem traverse_nodup (t : Tree) (h : t.WF sch) (hn : t.nodes.Nodup) :
    (traverse travF t).Nodup :=
  (traverse_exactly_once t h).nodup_iff.mpr hn

/-- C12, "parents first, children in source order": the visit sequence of a node is the node
    itself followed by the visit sequences of its children, child fields taken in the order
    in which the printer emits them. -/
theorem traverse_parent_first_source_order (k u : Nat) (p : Option Pos) (toks : List (List Tok))
    (vals : List (Option Bytes)) (kids : List (List Tree)) (nn : List Bool) :
    traverse travF (.mk k u p toks vals kids nn)
      = u :: (srcOrder (printF k)).flatMap (fun f => (fieldAt kids f).flatMap (traverse travF)) := by
  rw [traverse_unfold, (trav_rows k).1]

/- non-vacuity: a concrete well-formed two-level tree (a Root holding a StmtNop). -/
def exRoot : Tree :=
  .mk K_Root 1 none [[], [], []] [none, none, none]
    [[], [.mk K_StmtNop 2 none [[], []] [none, none] [[], []] [false, false]], []] [false, true, false]

example : exRoot.WF sch ∧ exRoot.nodes.Nodup ∧ traverse travF exRoot = [1, 2] := by
  refine ⟨?_, by decide, by decide⟩
  simp only [exRoot, Tree.WF, wfSlots, wfForest, kidsOK]
  decide

end PhpVerif.C12

/-! ### no node object is reachable along two paths of a parsed tree -/
namespace PhpVerif.C12
open PhpVerif

/-- In every translated production path of php7.y no right-hand-side value is stored twice; every
    other node of the result is allocated by a composite literal of the action itself (a value that
    is neither makes the path untranslatable, and the set of untranslatable paths is pinned by
    Actions.assumed7).  By induction over reductions a parsed tree has no shared node — the
    induction is not mechanised; the oracle walks real trees for pointer identity. -/
theorem no_value_stored_twice7 (p : PathSum) (hp : p ∈ Gen.paths7) (hk : p.kind = 0 ∨ p.kind = 1)
    (hn : (p.prod, p.path) ∉ Spec.knownFailing7) : p.used.Nodup :=
  (Actions.paths7_facts p hp hk hn).linear

theorem no_value_stored_twice5 (p : PathSum) (hp : p ∈ Gen.paths5) (hk : p.kind = 0 ∨ p.kind = 1)
    (hn : (p.prod, p.path) ∉ Spec.knownFailing5) : p.used.Nodup :=
  (Actions.paths5_facts p hp hk hn).linear

end PhpVerif.C12
