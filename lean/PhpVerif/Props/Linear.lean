import PhpVerif.Lemmas.LinearRun
import PhpVerif.Model.Mentions
import PhpVerif.Gen.Terms7
import PhpVerif.Gen.Terms5
import PhpVerif.Gen.Grammar7
import PhpVerif.Gen.Grammar5
/-
C02 / C07 / C12: **no token and no node is stored twice** — the lift of the per-production facts through
the reductions of an LR run that earlier sessions reported missing.

Model: the whole-parser model (Model/YY.lean driver over arbitrary tables, Model/Term.lean action terms
regenerated from php{5,7}.go).  Analysis: Model/Linear.lean (`linOK`: the symbolic resources of what a path
returns do not overlap), proved sound in Lemmas/Linear.lean, lifted to runs in Lemmas/LinearRun.lean.
Ties: T-gen (the paths are regenerated on every run, `linOK` is re-evaluated by the kernel on all of them)
and T-diff (`diff-parser`, `diff-pipeline`: the model's trees are the real parser's trees).
-/
namespace PhpVerif.Linear
open PhpVerif

/-- OBLIGATION (php7): the analysis shows **every** path of every grammar action linear.  An action that starts to
    store a right-hand-side value, or one of its own node literals, in two places lands in this list and breaks
    the theorems below. -/
theorem not_linear7 : notLinear Gen.terms7 = [] := by decide +kernel

/-- OBLIGATION (php5): 8 paths of 4 productions are outside the analysis: the two `foreach` productions with a
    `list()` target (68, 69: two fields of a field of `$6` go to two places — linear, but the analysis has no
    resource for a field of a field) and the two member-chain productions that take the elements of a list
    apart (436, 440: `idx0` / `tail` / `last` / `init` of one list used side by side). -/
theorem not_linear5 : notLinear Gen.terms5 =
    [(68, 0), (68, 2), (69, 0), (69, 2), (436, 0), (436, 1), (440, 0), (440, 1)] := by
  decide +kernel

def bad7 : List Nat := []
def bad5 : List Nat := [68, 69, 436, 440]

theorem allLin_of (ps : List TPath) (bad : List Nat) (h : ∀ x ∈ notLinear ps, x.1 ∈ bad) : AllLin bad (mkPathTable ps) := by
  intro i l hl hnb p hp
  have hm := mkPathTable_mem ps i l hl p hp
  cases hlin : linOK p with
  | true => rfl
  | false =>
    exfalso
    have : (p.prod, p.path) ∈ notLinear ps := by
      unfold notLinear
      exact List.mem_map.mpr ⟨p, List.mem_filter.mpr ⟨hm.1, by simp [hlin]⟩, rfl⟩
    have := h _ this
    rw [hm.2] at this
    exact hnb this

theorem allLin7 : AllLin bad7 (mkPathTable Gen.terms7) :=
  allLin_of _ _ (by rw [not_linear7]; decide)
theorem allLin5 : AllLin bad5 (mkPathTable Gen.terms5) :=
  allLin_of _ _ (by rw [not_linear5]; decide)

theorem not_exc7 {tr : List YYEv} (h : ¬ hasErrShift tr) : ¬ Exc bad7 tr := by
  intro he
  rcases he with he | ⟨p, st, _, hb⟩
  · exact h he
  · simp [bad7] at hb

/-- the statement about a returned root -/
def LinearRoot (r : V) : Prop :=
  (∀ u, (r.lv.count (.uid u)) ≤ 1) ∧ ∃ c, ∀ i, i ≠ c → (r.lv.count (.tok i)) ≤ 1

theorem parse_linear_gen (ps : List TPath) (bad : List Nat) (hl : AllLin bad (mkPathTable ps))
    (t : YYTab) (combs : List PosComb) (toks : Array TokKey)
    (c : Option Nat) (s : YYSt V TreeSt) (h : parseModel t combs (mkPathTable ps) toks = .ok (c, s))
    (hne : ¬ Exc bad s.trace) (r : V) (hr : s.aux.root = some r) : LinearRoot r := by
  have hinit : Exc bad (yyInit (treeSem toks combs (mkPathTable ps)) ({} : TreeSt)).trace ∨
      LinInv (yyInit (treeSem toks combs (mkPathTable ps)) ({} : TreeSt)) := .inr (LinInv_init toks combs _)
  have := yyRun_linear toks combs (mkPathTable ps) bad hl t _ _ _ c s hinit h
  rcases this with he | hinv
  · exact absurd he hne
  · exact ⟨hinv.rootU r hr, hinv.rootT r hr⟩

/-- C02 / C12, php7, every LALR table, every token stream, every run of the whole-parser model that shifts no
    error token (in particular every parse without a syntax error):
    in the returned tree **no node object occurs twice** (no node is reachable along two paths), and **no token
    is stored in two token fields** — with the possible exception of one token, the one lexed last when the root
    was built (the root's `EndTkn` is `currentToken`, the end-of-input token, which is never shifted). -/
theorem parsed_tree_is_linear7 (t : YYTab) (combs : List PosComb) (toks : Array TokKey)
    (c : Option Nat) (s : YYSt V TreeSt) (h : parseModel t combs (mkPathTable Gen.terms7) toks = .ok (c, s))
    (hne : ¬ hasErrShift s.trace) (r : V) (hr : s.aux.root = some r) : LinearRoot r :=
  parse_linear_gen Gen.terms7 bad7 allLin7 t combs toks c s h (not_exc7 hne) r hr

/-- the same for php5; partial: runs that reduce one of the four productions of `bad5` are not covered -/
theorem parsed_tree_is_linear5_partial (t : YYTab) (combs : List PosComb) (toks : Array TokKey)
    (c : Option Nat) (s : YYSt V TreeSt) (h : parseModel t combs (mkPathTable Gen.terms5) toks = .ok (c, s))
    (hne : ¬ Exc bad5 s.trace) (r : V) (hr : s.aux.root = some r) : LinearRoot r :=
  parse_linear_gen Gen.terms5 bad5 allLin5 t combs toks c s h hne r hr

/-- the invariant behind it, for every state a run reaches: all values on the parser's stack together hold every
    token index and every node identity at most once -/
theorem stack_is_linear7 (t : YYTab) (combs : List PosComb) (toks : Array TokKey) (fuel : Nat)
    (c : Option Nat) (s : YYSt V TreeSt)
    (h : yyRun t (treeSem toks combs (mkPathTable Gen.terms7)) ((toks.toList.map (·.id)).toArray) fuel
           (yyInit (treeSem toks combs (mkPathTable Gen.terms7)) {}) = .ok (c, s))
    (hne : ¬ hasErrShift s.trace) (a : Leaf) : (lvL (stackVals s)).count a ≤ 1 := by
  have := yyRun_linear toks combs _ bad7 allLin7 t _ fuel _ c s (.inr (LinInv_init toks combs _)) h
  rcases this with he | hinv
  · exact absurd he (not_exc7 hne)
  · exact hinv.cnt a

/-! ### Stale values: empty productions without an action

goyacc's driver sets `yyVAL = yyS[yyp+1]` before every action.  For an empty right-hand side that is the slot
*above* the stack — whatever an earlier, already popped symbol left there — so a production with an empty
right-hand side and no action returns a stale value, possibly a node that is also somewhere else in the tree.
(The driver model returns Go's zero value there: the one place where it deliberately differs from the Go text;
`diff-parser` cannot see the difference as long as nobody reads the value.)  The obligation: the value of such a
production is never read by any action. -/

/-- OBLIGATION: no action reads the value of an `error` symbol (symbol 1 of the regenerated grammar), and no
    production without an action starts with one.  goyacc pushes the error token with the value `yyVAL` of the
    moment — the result of the last reduction, which may still be on the stack — so this is what keeps a tree
    returned after recovery from holding a node twice (the part of C07 the linearity theorem above leaves out). -/
theorem error_values_never_read7 : readsSym Gen.prods7 Gen.terms7 1 = [] := by decide +kernel
theorem error_values_never_read5 : readsSym Gen.prods5 Gen.terms5 1 = [] := by decide +kernel
example : 0 < (Gen.prods7.filter (fun p => p.2.contains 1)).length ∧ 0 < (Gen.prods5.filter (fun p => p.2.contains 1)).length := by
  decide +kernel

/-- OBLIGATION: php7 has one action-less empty production (`backup_doc_comment`), php5 none; no action reads its value -/
theorem no_stale_reads7 : staleReads Gen.prods7 Gen.terms7 = [] := by decide +kernel
theorem no_stale_reads5 : staleReads Gen.prods5 Gen.terms5 = [] := by decide +kernel
example : (staleSyms Gen.prods7 Gen.terms7).length = 1 ∧ staleSyms Gen.prods5 Gen.terms5 = [] := by decide +kernel

/-! ### Sensitivity of the analysis on the real actions

For every path the analysis accepts and every node literal in it that holds two different right-hand-side values
`$i`, `$j` in two fields, the variant of the path that stores `$i` in both places (the slip "wrong `$n`" in an
action) is rejected — decided on the regenerated terms.  The obligation `not_linear7 = []` is therefore not met
vacuously by the shape of the data: it would break for each of these 226 (php7) / 250-odd (php5) single-symbol
edits. -/

def isArg : Tm → Option Nat
  | .arg i => some i
  | .argAt _ i => some i
  | _ => none

/-- first pair of fields that hold two different `$i`, `$j` whole: the second is overwritten with the first -/
def dupFields : List Tm → Option (List Tm)
  | [] => none
  | t :: r =>
    match isArg t with
    | some i =>
      match r.findIdx? (fun u => match isArg u with | some j => j != i | none => false) with
      | some k => some (t :: r.set k t)
      | none => (dupFields r).map (t :: ·)
    | none => (dupFields r).map (t :: ·)

def dupMutants (p : TPath) : List TPath :=
  (List.range p.objs.length).filterMap (fun o =>
    match p.objs[o]? with
    | some ob => (dupFields ob.fields).map (fun fs => { p with objs := p.objs.set o { ob with fields := fs } })
    | none => none)

theorem dup_mutants_rejected7 : ((Gen.terms7.filter linOK).flatMap dupMutants).all (fun p => !linOK p) = true := by decide +kernel
theorem dup_mutants_rejected5 : ((Gen.terms5.filter linOK).flatMap dupMutants).all (fun p => !linOK p) = true := by decide +kernel
example : 200 < ((Gen.terms7.filter linOK).flatMap dupMutants).length ∧ 200 < ((Gen.terms5.filter linOK).flatMap dupMutants).length := by
  decide +kernel

/- non-vacuity: a path that stores `$1` twice is rejected; a path that appends to a field of `$1` is accepted;
   the same path returning `$1` next to the `$2` it has appended is rejected -/
def exDup : TPath :=
  { prod := 1, path := 0, n := 1, status := 0, reports := 0,
    conds := [],
    objs := [{ kind := 5, fields := [.nil, (.arg 1), (.arg 1)] }],
    muts := [],
    ret := some (.obj 0), root := none }
def exAppend : TPath :=
  { prod := 1, path := 0, n := 2, status := 0, reports := 0,
    conds := [],
    objs := [],
    muts := [{ arg := 1, path := [], field := 2, val := (.app (.fld (.argAt 0 1) 2) [(.argAt 0 2)]) }],
    ret := some (.arg 1), root := none }
def exAppendDup : TPath :=
  { prod := 1, path := 0, n := 2, status := 0, reports := 0,
    conds := [],
    objs := [],
    muts := [{ arg := 1, path := [], field := 2, val := (.app (.fld (.argAt 0 1) 2) [(.argAt 0 2)]) }],
    ret := some (.list [(.arg 1), (.arg 2)]), root := none }
example : linOK exDup = false ∧ linOK exAppend = true ∧ linOK exAppendDup = false := by decide

end PhpVerif.Linear
