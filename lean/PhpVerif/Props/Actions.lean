import PhpVerif.Lemmas.Actions
import PhpVerif.Gen.Actions7
import PhpVerif.Gen.Actions5
import PhpVerif.Spec.ActionExceptions
/-
Obligations on the regenerated grammar actions (both grammars), shared by C02, C05, C07, C12.
Tie: T-gen — Gen/Actions{5,7}.lean are rewritten by gofacts from the `switch yynt` of
internal/php{5,7}/php{5,7}.go on every run.
-/
namespace PhpVerif.Actions
open PhpVerif

/-- OBLIGATION (kernel-evaluated, php7: every path of every production): the only paths whose
    obligation fails are the recorded known findings -/
theorem failing7 : failing Gen.paths7 = Spec.knownFailing7 := by decide +kernel
theorem failing5 : failing Gen.paths5 = Spec.knownFailing5 := by decide +kernel
/-- OBLIGATION: the set of paths outside the translated fragment is exactly the recorded one -/
theorem assumed7 : assumed Gen.paths7 = Spec.assumed7 := by decide +kernel
theorem assumed5 : assumed Gen.paths5 = Spec.assumed5 := by decide +kernel

theorem ok_of_not_failing (ps : List PathSum) (p : PathSum) (hp : p ∈ ps) (h : (p.prod, p.path) ∉ failing ps) :
    pathOK p = true := by
  by_cases hc : pathOK p = true
  · exact hc
  · exfalso
    apply h
    simp only [failing, List.mem_map, List.mem_filter]
    exact ⟨p, ⟨hp, by simpa using hc⟩, rfl⟩

/-- what a passing path means, spelled out -/
structure PathFacts (p : PathSum) : Prop where
  /-- no right-hand-side value (or part of one) is stored twice: a node or token of the right-hand side
      is reachable from the result along one path only -/
  linear : p.used.Nodup
  /-- every right-hand-side value that carries text is stored (whole, or every part its nonterminal fills) -/
  complete : ∀ r ∈ p.need, r.1 ∉ p.exempt → r ∈ p.used
  /-- inside every node built by the action the stored values follow the struct-field (= printer) order -/
  ordered : ∀ o ∈ p.objs, o.1.Pairwise (fun a b => refLt a b = true)
  /-- every node built by the action spans from its first to its last stored value -/
  positioned : ∀ o ∈ p.objs, objOK p.n p.exempt o = true

theorem facts_of_ok (p : PathSum) (hk : p.kind = 0 ∨ p.kind = 1) (h : pathOK p = true) : PathFacts p := by
  have hk2 : (p.kind == 2) = false := by rcases hk with h | h <;> simp [h]
  have hk3 : (p.kind == 3) = false := by rcases hk with h | h <;> simp [h]
  simp only [pathOK, hk2, hk3, Bool.false_or, Bool.and_eq_true] at h
  obtain ⟨⟨⟨⟨hobj, _⟩, hcov⟩, _⟩, hlin⟩ := h
  refine ⟨?_, fun r hr he => cover_spec p hcov r hr he, ?_, fun o ho => List.all_eq_true.mp hobj o ho⟩
  · rcases hk with h0 | h1
    · simp only [h0, beq_self_eq_true, if_true] at hlin
      exact incr_nodup _ hlin
    · have : (p.kind == 0) = false := by simp [h1]
      simp only [this] at hlin
      exact distinct_nodup _ (by simpa using hlin)
  · intro o ho
    have := List.all_eq_true.mp hobj o ho
    simp only [objOK, Bool.and_eq_true] at this
    exact incr_pairwise _ this.1

/-- php7, every translated path that is not a recorded finding satisfies the four facts -/
theorem paths7_facts (p : PathSum) (hp : p ∈ Gen.paths7) (hk : p.kind = 0 ∨ p.kind = 1)
    (hn : (p.prod, p.path) ∉ Spec.knownFailing7) : PathFacts p :=
  facts_of_ok p hk (ok_of_not_failing _ p hp (by rw [failing7]; exact hn))

theorem paths5_facts (p : PathSum) (hp : p ∈ Gen.paths5) (hk : p.kind = 0 ∨ p.kind = 1)
    (hn : (p.prod, p.path) ∉ Spec.knownFailing5) : PathFacts p :=
  facts_of_ok p hk (ok_of_not_failing _ p hp (by rw [failing5]; exact hn))

/- non-vacuity: a dropped token, a swapped pair, a wrong boundary are each rejected -/
def exOK : PathSum :=
  { prod := 0
    path := 0
    n := 3
    kind := 0
    objs := [([(1, 0), (2, 0), (3, 0)], [(1, 0), (2, 0), (3, 0)], some ((1, 0), (3, 0)))]
    used := [(1, 0), (2, 0), (3, 0)]
    need := [(1, 0), (2, 0), (3, 0)]
    exempt := []
    mutPos := [] }
example : pathOK exOK = true := by decide +kernel
example : pathOK { exOK with used := [(1, 0), (3, 0)], objs := [] } = false := by decide +kernel
example : pathOK { exOK with objs := [([(2, 0), (1, 0), (3, 0)], [], none)] } = false := by decide +kernel
example : pathOK { exOK with objs := [([(1, 0), (2, 0), (3, 0)], [(1, 0), (2, 0), (3, 0)], some ((2, 0), (3, 0)))] } = false := by
  decide +kernel
example : 400 < Gen.paths7.length ∧ 400 < Gen.paths5.length := by decide +kernel

end PhpVerif.Actions
