import PhpVerif.Gen.Schema
import PhpVerif.Gen.DumperTab
import PhpVerif.Model.Dumper
import PhpVerif.Lemmas.Rows
/-
C16 — The Go-syntax dump is a complete and faithful rendering of the tree.

Tie: T-gen (dumper.go per-kind bodies, node.go schema); helper bodies are
hand-modelled (Model/Dumper.lean), their text pinned, and tied T-diff through the driver (diff-dumper).
-/
namespace PhpVerif.C16
open PhpVerif PhpVerif.Gen

def sch (k : Nat) : List Nat := rowAt schemaSorts k
def fnames (k : Nat) : List Nat := rowAt schemaFNames k
def dumpF (k : Nat) : List (Nat × Nat × Nat) := rowAt dumpTab k

/-- interned ids fixed by the translator: 1 = "Position", 2 = "Value", 3 = "Val" -/
def canonRow (sorts names : List Nat) : List (Nat × Nat × Nat) := canonRowFrom 2 3 0 sorts names

def dumpRowOK (sorts names : List Nat) (row : List (Nat × Nat × Nat)) : Bool :=
  row.isPerm (canonRow sorts names) && sorts.length == names.length

def dumpTableOK : Bool :=
  allRows3 dumpRowOK schemaSorts schemaFNames dumpTab
    && dumpHeaders == schemaKNames
    && schemaSorts.length == nKinds

/-- OBLIGATION (kernel-evaluated on regenerated tables; all kinds × all fields): every dumper
    method prints the header `&ast.<struct name>{`, then every field of the struct exactly once
    (in any order — a keyed composite literal does not care), through the helper for the field's
    type, under the field's own name (`Value` ↦ `Val`). -/
theorem dump_table_ok : dumpTableOK = true := by decide +kernel

theorem dump_rows (k : Nat) : (dumpF k).Perm (canonRow (sch k) (fnames k)) := by
  have h := dump_table_ok
  simp only [dumpTableOK, Bool.and_eq_true] at h
  have hk := allRows3_spec dumpRowOK _ _ _ h.1.1 k
  simp only [dumpRowOK, Bool.and_eq_true, List.isPerm_iff] at hk
  exact hk.1

theorem dump_headers : dumpHeaders = schemaKNames := by
  have h := dump_table_ok
  simp only [dumpTableOK, Bool.and_eq_true, beq_iff_eq] at h
  exact h.1.2

def realCfg (lblFF lblID : Nat) : DumpCfg :=
  { tab := dumpF, hdr := fun k => (dumpHeaders[k]?).getD 0, lblFF := lblFF, lblID := lblID }

/-- the literal of a node: header of the node's own type, the field segments, the closing brace -/
theorem dump_unfold (c : DumpCfg) (o : DumpOpts) (k u : Nat) (pos : Option Pos) (toks : List (List Tok))
    (vals : List (Option Bytes)) (kids : List (List Tree)) (nn : List Bool) :
    dump c o (.mk k u pos toks vals kids nn)
      = .openNode (c.hdr k)
          :: ((c.tab k).map (dumpOp c o pos toks vals nn (dumpSlots c o kids))).flatten ++ [.close] := by
  simp only [dump, List.flatMap_def]

/-- C16 (per node, all kinds, all option combinations): the header names the node's own struct
    type and the field segments the real dumper emits are, up to order, exactly the segments of
    the schema-driven mirror: one per schema field, through the helper of the field's type,
    under the field's own name. -/
theorem dump_mirrors (lblFF lblID : Nat) (o : DumpOpts) (k : Nat) (pos : Option Pos) (toks : List (List Tok))
    (vals : List (Option Bytes)) (nn : List Bool) (res : List (List (List DEv))) :
    (realCfg lblFF lblID).hdr k = (schemaKNames[k]?).getD 0 ∧
    (((realCfg lblFF lblID).tab k).map (dumpOp (realCfg lblFF lblID) o pos toks vals nn res)).Perm
      ((canonRow (sch k) (fnames k)).map (dumpOp (realCfg lblFF lblID) o pos toks vals nn res)) := by
  refine ⟨by simp only [realCfg, dump_headers], ?_⟩
  exact (dump_rows k).map _

/- non-vacuity: the canonical row of a real kind is non-trivial -/
example : canonRow (sch K_Argument) (fnames K_Argument) ≠ [] ∧ (dumpF K_Argument).length = 4 := by decide

end PhpVerif.C16
