import PhpVerif.Model.NsrTree
import PhpVerif.Props.C14
import PhpVerif.Gen.ResolverCode
/-
C14 on the whole visitor (M-NSRT, Model/NsrTree.lean): for EVERY tree, every traverser table and every
instruction list (so for whatever namespace_resolver.go and traverser.go say, as long as they translate):

  `resolver_entries_follow_php` — every entry the resolver ever writes into ResolvedNames is PHP's answer
  (Spec/NameRes.lean) for the reference it was written for, under the namespace and exactly the use
  declarations the walk has met since that namespace was opened (the ghost state recorded in the
  entry); every declaration gets the current namespace as prefix.

The lift of `resolve_refines_spec` (one Namespace, one history) through the visitor's state handling:
the namespace statement replaces the Namespace, a use list adds its aliases in order, nothing else
touches it.  Tie: T-gen (Gen/ResolverCode.lean, Gen/TraverserTab.lean) + T-diff (diff-nsrtree).
-/
namespace PhpVerif.NsrT
open PhpVerif PhpVerif.Nsr PhpVerif.Spec

/-- the Namespace object is the replay of the ghost history -/
def GhostOK (st : RSt) : Prop := st.ns = (Ns.new st.gname).run st.ghist

def EntryOK (e : Entry) : Prop :=
  match e.ref, e.decl with
  | some (r, k), _ => e.val = phpResolve e.ns e.hist r k
  | none, some d => e.val = withNs e.ns d
  | none, none => False

def Inv (st : RSt) : Prop := GhostOK st ∧ ∀ e ∈ st.out, EntryOK e

theorem run_append (ns : Ns) (h : List UseDecl) (d : UseDecl) :
    (ns.run h).addAlias d.kind d.target d.alias = ns.run (h ++ [d]) := by
  induction h generalizing ns with
  | nil => simp [Ns.run]
  | cons x r ih => simp [Ns.run, ih]

theorem inv_init : Inv {} := by
  constructor
  · simp [GhostOK, Ns.run]
  · intro e he; simp at he

theorem forIdx_inv {α} {P : RSt → Prop} (body : Nat → α → RSt → Option RSt)
    (hb : ∀ i x st st', P st → body i x st = some st' → P st') :
    ∀ (xs : List α) (i : Nat) (st st' : RSt), P st → forIdx body i xs st = some st' → P st'
  | [], _, st, st', hp, h => by simp [forIdx] at h; subst h; exact hp
  | x :: r, i, st, st', hp, h => by
    simp only [forIdx] at h
    split at h
    · cases h
    · rename_i st1 h1
      exact forIdx_inv body hb r (i + 1) st1 st' (hb i x st st1 hp h1) h

theorem resolveName_inv (c : RCfg) (n : Tree) (path : Path) (k : AKind) (st st' : RSt)
    (hi : Inv st) (h : resolveName c n path k st = some st') : Inv st' := by
  unfold resolveName at h
  split at h
  · cases h
  · cases h; exact hi
  · rename_i r _
    cases h
    refine ⟨hi.1, ?_⟩
    intro e he
    cases List.mem_cons.mp he with
    | inl x =>
      subst x
      have hg : st.ns = (Ns.new st.gname).run st.ghist := hi.1
      simp only [EntryOK, hg]
      exact C14.resolve_refines_spec st.gname st.ghist r k
    | inr x => exact hi.2 e x

theorem resolveType_inv (c : RCfg) : ∀ (fuel : Nat) (n : Option Tree) (path : Path) (st st' : RSt),
    Inv st → resolveType c fuel n path st = some st' → Inv st'
  | 0, _, _, st, st', hi, h => by simp [resolveType] at h; subst h; exact hi
  | fuel + 1, none, _, st, st', hi, h => by simp [resolveType] at h; subst h; exact hi
  | fuel + 1, some n, path, st, st', hi, h => by
    simp only [resolveType] at h
    split at h
    · exact resolveType_inv c fuel _ _ st st' hi h
    · split at h
      · exact resolveName_inv c n path .cls st st' hi h
      · cases h; exact hi

theorem declareAt_inv (path : Path) (name : Str) (st : RSt) (hi : Inv st) : Inv (declareAt path name st) := by
  refine ⟨hi.1, ?_⟩
  intro e he
  cases List.mem_cons.mp he with
  | inl x =>
    subst x
    have hg : st.ns = (Ns.new st.gname).run st.ghist := hi.1
    simp only [EntryOK, hg]
    exact C14.declared_spec st.gname st.ghist name
  | inr x => exact hi.2 e x

theorem addAlias_inv (c : RCfg) (ty : Str) (pre : List Tree) (u : Tree) (st st' : RSt)
    (hi : Inv st) (h : addAlias c ty pre u st = some st') : Inv st' := by
  unfold addAlias at h
  split at h
  · cases h; exact hi
  · dsimp only at h
    split at h
    · split at h
      · rename_i alias k parts _ _ _
        cases h
        refine ⟨?_, hi.2⟩
        have hg : st.ns = (Ns.new st.gname).run st.ghist := hi.1
        show (st.ns.addAlias k (join parts) alias) = (Ns.new st.gname).run (st.ghist ++ [⟨k, join parts, alias⟩])
        rw [hg]
        exact run_append (Ns.new st.gname) st.ghist ⟨k, join parts, alias⟩
      · cases h
    · cases h

theorem exec0_inv (c : RCfg) (t : Tree) (path : Path) (i : RI0) (st st' : RSt)
    (hi : Inv st) (h : exec0 c t path i st = some st') : Inv st' := by
  cases i with
  | nsSwitch f =>
    simp only [exec0] at h
    split at h
    · cases h; exact ⟨by simp [GhostOK, Ns.run], hi.2⟩
    · split at h
      · cases h; exact ⟨by simp [GhostOK, Ns.run], hi.2⟩
      · cases h
  | uses typeF usesF pre =>
    simp only [exec0] at h
    split at h
    · cases h
    · split at h
      · cases h
      · exact forIdx_inv _ (fun _ u s s' hp hb => addAlias_inv c _ _ u s s' hp hb) _ 0 st st' hi h
  | resName f k =>
    simp only [exec0] at h
    split at h
    · cases h; exact hi
    · exact resolveName_inv c _ _ _ st st' hi h
  | resNames f k =>
    simp only [exec0] at h
    exact forIdx_inv _ (fun _ n s s' hp hb => resolveName_inv c n _ _ s s' hp hb) _ 0 st st' hi h
  | resType f =>
    simp only [exec0] at h
    exact resolveType_inv c _ _ _ st st' hi h
  | resParamTypes f =>
    simp only [exec0] at h
    refine forIdx_inv _ ?_ _ 0 st st' hi h
    intro i p s s' hp hb
    split at hb
    · exact resolveType_inv c _ _ _ s s' hp hb
    · cases hb
  | declare f =>
    simp only [exec0] at h
    split at h
    · cases h; exact declareAt_inv _ _ st hi
    · cases h
  | declareEach f =>
    simp only [exec0] at h
    refine forIdx_inv _ ?_ _ 0 st st' hi h
    intro i k s s' hp hb
    split at hb
    · split at hb
      · cases hb; exact declareAt_inv _ _ s hp
      · cases hb
    · cases hb
  | traitAdapt f =>
    simp only [exec0] at h
    refine forIdx_inv _ ?_ _ 0 st st' hi h
    intro i a s s' hp hb
    split at hb
    · -- precedence
      split at hb
      · cases hb
      · rename_i s1 h1
        have hp1 : Inv s1 := by
          split at h1
          · exact resolveName_inv c _ _ _ s s1 hp h1
          · cases h1; exact hp
        exact forIdx_inv _ (fun _ n x x' hx hb' => resolveName_inv c n _ _ x x' hx hb') _ 0 s1 s' hp1 hb
    · split at hb
      · split at hb
        · exact resolveName_inv c _ _ _ s s' hp hb
        · cases hb; exact hp
      · cases hb; exact hp

theorem exec0s_inv (c : RCfg) (t : Tree) (path : Path) : ∀ (is : List RI0) (st st' : RSt),
    Inv st → exec0s c t path is st = some st' → Inv st'
  | [], st, st', hi, h => by simp [exec0s] at h; subst h; exact hi
  | i :: r, st, st', hi, h => by
    simp only [exec0s] at h
    split at h
    · cases h
    · rename_i s1 h1
      exact exec0s_inv c t path r s1 st' (exec0_inv c t path i st s1 hi h1) h

theorem execRI_inv (c : RCfg) (t : Tree) (path : Path) (i : RI) (st st' : RSt)
    (hi : Inv st) (h : execRI c t path i st = some st') : Inv st' := by
  cases i with
  | base i => exact exec0_inv c t path i st st' hi h
  | ifSet f list body =>
    simp only [execRI] at h
    split at h
    · exact exec0s_inv c t path body st st' hi h
    · cases h; exact hi

theorem execRIs_inv (c : RCfg) (t : Tree) (path : Path) : ∀ (is : List RI) (st st' : RSt),
    Inv st → execRIs c t path is st = some st' → Inv st'
  | [], st, st', hi, h => by simp [execRIs] at h; subst h; exact hi
  | i :: r, st, st', hi, h => by
    simp only [execRIs] at h
    split at h
    · cases h
    · rename_i s1 h1
      exact execRIs_inv c t path r s1 st' (execRI_inv c t path i st s1 hi h1) h

/-- a walker that keeps the invariant -/
def WInv (w : Walker) : Prop := ∀ path st st', Inv st → w path st = some st' → Inv st'

theorem fieldAt_all {α} {P : List α → Prop} (hnil : P []) : ∀ (l : List (List α)), (∀ x ∈ l, P x) → ∀ f, P (fieldAt l f) := by
  intro l hl f
  unfold fieldAt
  cases hx : l[f]? with
  | none => simpa using hnil
  | some x => simpa using hl x (List.mem_of_getElem? hx)

theorem runFields_inv (slots : List (List Walker)) (hs : ∀ ws ∈ slots, ∀ w ∈ ws, WInv w) (path : Path) :
    ∀ (fs : List Nat) (st st' : RSt), Inv st → runFields slots path fs st = some st' → Inv st'
  | [], st, st', hi, h => by simp [runFields] at h; subst h; exact hi
  | f :: r, st, st', hi, h => by
    simp only [runFields] at h
    split at h
    · cases h
    · rename_i s1 h1
      have hws : ∀ w ∈ fieldAt slots f, WInv w :=
        fieldAt_all (P := fun ws => ∀ w ∈ ws, WInv w) (by intro w hw; simp at hw) slots hs f
      have hp1 : Inv s1 := by
        unfold runField at h1
        -- the body applies a walker of the field: by membership it keeps the invariant
        have : ∀ (ws : List Walker) (i : Nat) (s s' : RSt), (∀ w ∈ ws, WInv w) → Inv s →
            forIdx (fun i (w : Walker) st => w (path ++ [(f, i)]) st) i ws s = some s' → Inv s' := by
          intro ws
          induction ws with
          | nil => intro i s s' _ hp hb; simp [forIdx] at hb; subst hb; exact hp
          | cons w rest ih =>
            intro i s s' hw hp hb
            simp only [forIdx] at hb
            split at hb
            · cases hb
            · rename_i s2 h2
              exact ih (i + 1) s2 s' (fun x hx => hw x (List.mem_cons_of_mem _ hx)) (hw w (List.mem_cons_self) _ _ _ hp h2) hb
        exact this _ 0 st s1 hws hi h1
      exact runFields_inv slots hs path r s1 st' hp1 h

mutual
theorem walk_inv (c : RCfg) : ∀ t : Tree, WInv (walk c t)
  | .mk k u p toks vals kids nn => by
    intro path st st' hi h
    simp only [walk] at h
    split at h
    · cases h
    · rename_i s1 h1
      exact runFields_inv (walkSlots c kids) (walkSlots_inv c kids) path (c.trav k) s1 st'
        (execRIs_inv c _ path (c.prog k) st s1 hi h1) h
theorem walkSlots_inv (c : RCfg) : ∀ kids : List (List Tree), ∀ ws ∈ walkSlots c kids, ∀ w ∈ ws, WInv w
  | [] => by intro ws h; simp [walkSlots] at h
  | f :: fs => by
    intro ws h
    simp only [walkSlots, List.mem_cons] at h
    cases h with
    | inl x => subst x; exact walkForest_inv c f
    | inr x => exact walkSlots_inv c fs ws x
theorem walkForest_inv (c : RCfg) : ∀ ts : List Tree, ∀ w ∈ walkForest c ts, WInv w
  | [] => by intro w h; simp [walkForest] at h
  | t :: ts => by
    intro w h
    simp only [walkForest, List.mem_cons] at h
    cases h with
    | inl x => subst x; exact walk_inv c t
    | inr x => exact walkForest_inv c ts w x
end

/-- C14, every tree, every table and instruction list: every entry the resolver writes is PHP's resolution
    of its reference under the namespace and the use declarations in effect where it stands (or the
    namespaced name of the declaration), and the Namespace object is always the replay of those
    declarations. -/
theorem resolver_entries_follow_php (c : RCfg) (t : Tree) (out : List Entry) (h : resolveTree c t = some out) :
    ∀ e ∈ out, EntryOK e := by
  unfold resolveTree at h
  cases hw : walk c t [] {} with
  | none => simp [hw] at h
  | some st =>
    simp [hw] at h
    subst h
    exact (walk_inv c t [] {} st inv_init hw).2

/-! the regenerated instruction lists are what the theorem is used with -/
example : 21 = Gen.resMethodCount := by decide

/- non-vacuity: `namespace N; use A\B as C; new C\D;` written as a tree of the real schema numbers is run
   by the driver (diff-nsrtree: 39 799 entries per quick run); here the ghost bookkeeping on a hand-made state -/
example : EntryOK { key := [], val := s "A\\B\\D", ns := s "N", hist := [⟨.cls, s "A\\B", s "C"⟩],
                    ref := some (.plain [s "C", s "D"], .cls), decl := none } := by
  simp only [EntryOK]; decide +kernel

end PhpVerif.NsrT
