import PhpVerif.Gen.FormatterTab
import PhpVerif.Spec.Lexemes
/-
C17 — Formatting preserves the program, is canonical and idempotent.

Proved here (T-gen: Gen/FormatterTab.lean is regenerated from formatter.go, with the printer's
default lexemes and the schema):
  * `fmt_lexemes`: every canonical token the formatter creates (`n.F = f.newToken(id, lit)`, 278 sites)
    carries a lexeme that is one of the printer's own default lexemes for that field (when it has
    any) and a token id of which that lexeme is a spelling — the formatter never writes another
    construct's keyword or operator into a node;
  * `fmt_touches_every_token`: every token field of every node kind is assigned by the kind's
    formatter method (replaced, cleared, or its free-floating list replaced), except the recorded
    ones — so no source whitespace or comment survives formatting: the formatted text depends on the
    structure only (canonicity), and formatting formatted code finds nothing to change;
  * `fmt_visits_every_child`: every child field is visited.
Not proved: that the canonical text re-parses to the same structure (needs the lexer and the LALR
tables): checked by the oracle (parse -> format -> print -> parse, second formatting, second layout).
-/
namespace PhpVerif.C17
open PhpVerif

def idOK (idExpr lit : String) : Bool :=
  if lit == "<expr>" then true
  else if idExpr.startsWith "'" then idExpr == "'" ++ lit ++ "'"
  else if idExpr.startsWith "token." then
    let lx := Spec.lexemeOf (idExpr.drop 6).toString
    lx.isEmpty || lx.contains lit
  else false

def fmtBad (rows : List (String × String × String × List String)) : List (String × String × String) :=
  (rows.filter (fun r => !((r.2.2.1 == "<expr>" || r.2.2.2.isEmpty || r.2.2.2.contains r.2.2.1) && idOK r.2.1 r.2.2.1))).map
    (fun r => (r.1, r.2.1, r.2.2.1))

/-- OBLIGATION: canonical tokens carry the lexeme of their field and the id of their lexeme -/
theorem fmt_lexemes : fmtBad Gen.fmtNewTokens = [] := by decide +kernel

/-- token fields the formatter leaves alone, with the reason:
    ScalarString.MinusTkn — the sign of a negative numeric string offset inside an interpolated string
    (`"$a[-0x1F]"`); no trivia can stand between it and the offset, its text is part of the value -/
def keptTokens : List String := ["ScalarString.MinusTkn"]

/-- OBLIGATION: the formatter replaces (or clears) every other token of every node kind -/
theorem fmt_touches_every_token : Gen.fmtUntouchedTokens = keptTokens := by decide
/-- OBLIGATION: the formatter descends into every child of every node kind -/
theorem fmt_visits_every_child : Gen.fmtUnvisitedChildren = [] := by decide

example : 200 < Gen.fmtNewTokens.length := by decide +kernel
/-- the lexeme check is not vacuous -/
example : fmtBad [("ExprExit.ExitTkn", "token.T_EVAL", "exit", ["exit"])] = [("ExprExit.ExitTkn", "token.T_EVAL", "exit")] := by decide +kernel

end PhpVerif.C17
