import PhpVerif.Lemmas.YYSilent
import PhpVerif.Props.Root
import PhpVerif.Props.Linear
/-
C06 / C02 / C12, the headline about silent parses, on the whole-parser model (driver M-YY over the regenerated php7
tables, actions M-TERM regenerated from php7.go; tied to the real parser by diff-yy, diff-parser, diff-pipeline):

  for EVERY token stream as the scanner hands it over — tokens with non-zero numbers followed by the end token —
  if the parse returns 0 and reported no syntax error, then
    * a root was returned                                   (accepted_parse_has_root7),
    * every token before the end token was shifted, once, in order (silent_parse_is_complete7),
    * no node object and no token occurs twice in the root  (parsed_tree_is_linear7; the one token that may be
      held twice is the one lexed last — the end token, which the root stores as EndTkn and nothing shifts).

Composition only; the new ingredients are `silent_no_errShift` (no reported error ⇒ no error shift) and
`yyRun_input_congr` (the explicit end token does not change the run), Lemmas/YYSilent.lean.
-/
namespace PhpVerif.Silent
open PhpVerif

theorem ids_congr (body : List Nat) (i : Nat) :
    (((body ++ [0]).toArray)[i]?).getD 0 = ((body.toArray)[i]?).getD 0 := by
  simp only [List.getElem?_toArray]
  by_cases h : i < body.length
  · rw [List.getElem?_append_left h]
  · rw [List.getElem?_eq_none (Nat.le_of_not_lt h)]
    by_cases h2 : i = body.length
    · subst h2
      simp
    · rw [List.getElem?_eq_none (by simp; omega)]

theorem silent_parse_is_a_complete_linear_tree7 (combs : List PosComb) (body : List TokKey) (e : TokKey)
    (he : e.id = 0) (hb : ∀ k ∈ body, k.id ≠ 0) (s : YYSt V TreeSt)
    (h : parseModel Gen.tables7 combs (mkPathTable Gen.terms7) (body ++ [e]).toArray = .ok (some 0, s))
    (hs : noSaw s.trace) :
    ∃ r, s.aux.root = some r ∧ Linear.LinearRoot r ∧ (shiftIdx s.trace).reverse = List.range body.length := by
  have hroot := Root.accepted_parse_has_root7 combs _ s h
  obtain ⟨r, hr⟩ := Option.isSome_iff_exists.mp hroot
  -- the run on the token numbers without the explicit end token
  have hrun := h
  unfold parseModel at hrun
  simp only [List.map_append, List.map_cons, List.map_nil, he] at hrun
  rw [yyRun_input_congr Gen.tables7 _ _ ((body.map (·.id)).toArray) (ids_congr (body.map (·.id)))] at hrun
  have hin : ∀ i (hi : i < ((body.map (·.id)).toArray).size), ((body.map (·.id)).toArray)[i] ≠ 0 := by
    intro i hi
    simp only [List.getElem_toArray, List.getElem_map]
    exact hb _ (List.getElem_mem _)
  have e7 : Gen.tables7 = Gen.tables7L.toArr := rfl
  rw [e7] at hrun
  have hcomp := yyRun_complete (tl := Gen.tables7L) (eofFacts_spec C06.eof_facts7) hin _ _ _ s (yyInit_cinv _ _) hrun hs
  have hne := silent_no_errShift (tl := Gen.tables7L) (eofFacts_spec C06.eof_facts7) hin _ _ _ (some 0) s (yyInit_cinv _ _)
    (by intro hx; obtain ⟨x, hx⟩ := hx; simp [yyInit] at hx) hrun hs
  have hlin := Linear.parsed_tree_is_linear7 Gen.tables7 combs _ (some 0) s h hne r hr
  refine ⟨r, hr, hlin, ?_⟩
  simpa using hcomp

/-- php5: the same, for runs that do not reduce one of the four productions the linearity analysis does not follow
    (68, 69: `foreach` with a `list()` target; 436, 440: member chains that take a list apart) -/
theorem silent_parse_is_a_complete_linear_tree5_partial (combs : List PosComb) (body : List TokKey) (e : TokKey)
    (he : e.id = 0) (hb : ∀ k ∈ body, k.id ≠ 0) (s : YYSt V TreeSt)
    (h : parseModel Gen.tables5 combs (mkPathTable Gen.terms5) (body ++ [e]).toArray = .ok (some 0, s))
    (hs : noSaw s.trace) (hnb : ¬ usedBad Linear.bad5 s.trace) :
    ∃ r, s.aux.root = some r ∧ Linear.LinearRoot r ∧ (shiftIdx s.trace).reverse = List.range body.length := by
  have hroot := Root.accepted_parse_has_root5 combs _ s h
  obtain ⟨r, hr⟩ := Option.isSome_iff_exists.mp hroot
  have hrun := h
  unfold parseModel at hrun
  simp only [List.map_append, List.map_cons, List.map_nil, he] at hrun
  rw [yyRun_input_congr Gen.tables5 _ _ ((body.map (·.id)).toArray) (ids_congr (body.map (·.id)))] at hrun
  have hin : ∀ i (hi : i < ((body.map (·.id)).toArray).size), ((body.map (·.id)).toArray)[i] ≠ 0 := by
    intro i hi
    simp only [List.getElem_toArray, List.getElem_map]
    exact hb _ (List.getElem_mem _)
  have e5 : Gen.tables5 = Gen.tables5L.toArr := rfl
  rw [e5] at hrun
  have hcomp := yyRun_complete (tl := Gen.tables5L) (eofFacts_spec C06.eof_facts5) hin _ _ _ s (yyInit_cinv _ _) hrun hs
  have hne := silent_no_errShift (tl := Gen.tables5L) (eofFacts_spec C06.eof_facts5) hin _ _ _ (some 0) s (yyInit_cinv _ _)
    (by intro hx; obtain ⟨x, hx⟩ := hx; simp [yyInit] at hx) hrun hs
  have hexc : ¬ Exc Linear.bad5 s.trace := by
    intro hx
    rcases hx with hx | hx
    · exact hne hx
    · exact hnb hx
  have hlin := Linear.parsed_tree_is_linear5_partial Gen.tables5 combs _ (some 0) s h hexc r hr
  refine ⟨r, hr, hlin, ?_⟩
  simpa using hcomp

end PhpVerif.Silent
