import PhpVerif.Model.ScanDFA
import PhpVerif.Gen.ScanDFA
/-
Facts about all states of the generated scanner at once (C03 letter case, C04 line terminators).
Tie: T-gen — Gen/ScanDFA.lean is rewritten by gofacts from internal/scanner/scanner.go on every run
(530 states, 594 rows counting the outcomes of `when` conditions, 388 action blocks).
-/
namespace PhpVerif.Scanner
open PhpVerif

/-- OBLIGATION: the regenerated table is a total function on bytes in every row -/
theorem rows_total : Gen.dfaRows.all (fun r => ivsOK r.ivs 0) = true := by decide +kernel

/-- OBLIGATION (C03, kernel-evaluated over every state and every outcome of the scanner's conditions): the
    transition taken on an ASCII letter — next state and action block — does not depend on the letter's
    case.  Keywords, casts, `<?php`, number prefixes and exponents, heredoc openers are therefore
    recognised identically in every spelling; the only case-sensitive comparisons left are the ones the
    hand-written glue makes on purpose (heredoc labels). -/
theorem letter_case_never_matters : Gen.dfaRows.all rowCaseBlind = true := by decide +kernel

theorem letter_case_spec (r : DFARow) (hr : r ∈ Gen.dfaRows) (k : Nat) (hk : k < 26) :
    r.target (65 + k) = r.target (97 + k) := by
  have h := List.all_eq_true.mp letter_case_never_matters r hr
  have h2 := List.all_eq_true.mp h k (List.mem_range.mpr hk)
  simpa using h2

/-- OBLIGATION (C04, the M-SCAN clause "the scanner runs new_line at every line terminator it consumes"):
    in every state, for LF and for CR, the transition runs the new_line action, or hands the byte back
    to be read again, or is the error transition. -/
theorem line_terminators_never_skipped :
    Gen.dfaRows.all (rowNewlineOK Gen.newlineActions Gen.holdActions) = true := by decide +kernel

/- non-vacuity -/
example : 500 < Gen.dfaRows.length ∧ 50 < Gen.newlineActions.length := by decide +kernel
example : rowCaseBlind { state := 1, conds := [], ivs := [(97, 5), (98, 7), (255, 5)] } = false := by decide +kernel
example : rowNewlineOK [10008] [] { state := 1, conds := [], ivs := [(9, 3), (10, 4), (255, 3)] } = false := by decide +kernel

end PhpVerif.Scanner
