import PhpVerif.Model.ScanDFA
import PhpVerif.Gen.ScanDFA
import PhpVerif.Spec.Keywords
/-
Facts about all states of the generated scanner at once (C03 letter case, C04 line terminators).
Tie: T-gen — Gen/ScanDFA.lean is rewritten by gofacts from internal/scanner/scanner.go on every run
(530 states, 594 rows counting the outcomes of `when` conditions, 388 action blocks).
-/
namespace PhpVerif.Scanner
open PhpVerif

/-- OBLIGATION: the regenerated table is a total function on bytes in every row -/
theorem rows_total : Gen.dfaRows.all (fun r => ivsOK r.ivs 0) = true := by decide +kernel

/-- OBLIGATION (C03, kernel-evaluated over every state and every outcome of the scanner's conditions): the
    transition taken on an ASCII letter — next state and action block — does not depend on the letter's
    case.  Keywords, casts, `<?php`, number prefixes and exponents, heredoc openers are therefore
    recognised identically in every spelling; the only case-sensitive comparisons left are the ones the
    hand-written glue makes on purpose (heredoc labels). -/
theorem letter_case_never_matters : Gen.dfaRows.all rowCaseBlind = true := by decide +kernel

theorem letter_case_spec (r : DFARow) (hr : r ∈ Gen.dfaRows) (k : Nat) (hk : k < 26) :
    r.target (65 + k) = r.target (97 + k) := by
  have h := List.all_eq_true.mp letter_case_never_matters r hr
  have h2 := List.all_eq_true.mp h k (List.mem_range.mpr hk)
  simpa using h2

/-- OBLIGATION (C04, the M-SCAN clause "the scanner runs new_line at every line terminator it consumes"):
    in every state, for LF and for CR, the transition runs the new_line action, or hands the byte back
    to be read again, or is the error transition. -/
theorem line_terminators_never_skipped :
    Gen.dfaRows.all (rowNewlineOK Gen.newlineActions Gen.holdActions) = true := by decide +kernel

/-- the PHP-mode entry state of the scanner (`lexer_en_php`) -/
def phpStart : Nat := 123

/-- every lexeme of the table, followed by `delim`, makes the scanner return the token the table names -/
def recognises (tbl : List (List Nat × Nat)) (delim : Nat) : Bool :=
  tbl.all (fun e =>
    match Gen.tokenIds.find? (fun p => p.1 == e.2) with
    | some (_, id) => scanWord Gen.dfaRowsV0 Gen.dfaRowsV1 Gen.trInfos phpStart e.1 delim == some id
    | none => false)

/-- OBLIGATION (C03): each of PHP's 76 reserved words and magic constants, written in lower case and followed by
    `(`, is returned as its own token by the regenerated transition table and action blocks —
    whether all of the scanner's `when` conditions are false or all are true.  With `letter_case_never_matters`: in every
    spelling. -/
theorem keywords_recognised : recognises Spec.keywords 40 = true := by decide +kernel

/-- OBLIGATION (C03): the twelve casts (with blanks or tabs inside the parentheses) and the 34 operators of
    more than one character, followed by `$` -/
theorem casts_recognised : recognises Spec.casts 36 = true := by decide +kernel

theorem operators_recognised : recognises Spec.operators 36 = true := by decide +kernel

/-! ### Whitespace in PHP mode is skipped and changes nothing (C08, scanner half, first part) -/

/-- blank, tab, vertical tab, form feed, LF (a CR is the subject of a known finding: alone it is reported as an
    unexpected character) -/
def wsBytes : List Nat := [9, 10, 11, 12, 32]
def isSpaceByte (b : Nat) : Bool := wsBytes.contains b || b == 13
/-- the states the scanner is in while it reads such a run -/
def wsStates : List Nat := [124, 125]
def tWhitespace : Nat := 57416

def trOf (t : Nat) : Option TrInfo := Gen.trInfos.find? (fun x => x.id == t)

/-- the state a transition target leads to when it is a state, or a block that neither returns a token, nor
    attaches one, nor gives bytes back -/
def quietLanding (t : Nat) : Option Nat :=
  if t == 0 then none
  else if t < 10000 then some t
  else match trOf t with
    | some ti => if !ti.emits && ti.ffs.isEmpty && !ti.hold && ti.next != 0 then some ti.next else none
    | none => none

/-- the block that ends a whitespace run: attaches one T_WHITESPACE, gives the byte back, continues in the start state -/
def wsExit (t : Nat) : Bool :=
  match trOf t with
  | some ti => !ti.emits && ti.ffs == [tWhitespace] && ti.hold && ti.next == phpStart
  | none => false

def rowsOfState (st : Nat) : List DFARow := Gen.dfaRows.filter (fun r => r.state == st)

/-- OBLIGATIONS (kernel-evaluated on the regenerated table, every outcome of the conditions) -/
theorem ws_enter : (rowsOfState phpStart).all (fun r => wsBytes.all (fun b =>
    match quietLanding (r.target b) with | some s => wsStates.contains s | none => false)) = true := by decide +kernel
theorem ws_loop : wsStates.all (fun st => (rowsOfState st).all (fun r => wsBytes.all (fun b =>
    match quietLanding (r.target b) with | some s => wsStates.contains s | none => false))) = true := by decide +kernel
theorem ws_exit : wsStates.all (fun st => (rowsOfState st).all (fun r => (List.range 256).all (fun b =>
    isSpaceByte b || wsExit (r.target b)))) = true := by decide +kernel
theorem ws_rows_exist : (phpStart :: wsStates).all (fun st => !(rowsOfState st).isEmpty) = true := by decide +kernel

/-- reading a run of whitespace bytes from state `st`, by any rows of the states passed through -/
inductive WsRun : Nat → List Nat → Nat → Prop where
  | nil (st : Nat) : WsRun st [] st
  | cons (st b st' st'' : Nat) (r : DFARow) (w : List Nat) : r ∈ rowsOfState st → quietLanding (r.target b) = some st' →
      WsRun st' w st'' → WsRun st (b :: w) st''

/-- C08, scanner half, whitespace in PHP mode: a run of blanks, tabs, VT, FF and LF — however long, whatever
    the scanner's conditions answer along the way — is read without returning or attaching anything and
    leaves the scanner in one of two states, from which any non-space byte `b` makes it attach exactly
    one T_WHITESPACE, hand `b` back and continue in its start state: the token that begins at `b` is
    scanned from the same state as if the run were not there. -/
theorem whitespace_run_is_skipped (w : List Nat) (hw : ∀ b ∈ w, b ∈ wsBytes) (hne : w ≠ []) :
    ∀ st', WsRun phpStart w st' → st' ∈ wsStates ∧
      ∀ r ∈ rowsOfState st', ∀ b, b < 256 → isSpaceByte b = false → wsExit (r.target b) = true := by
  have loop : ∀ (w : List Nat) (st st' : Nat), (∀ b ∈ w, b ∈ wsBytes) → st ∈ wsStates → WsRun st w st' → st' ∈ wsStates := by
    intro w
    induction w with
    | nil => intro st st' _ hst h; cases h; exact hst
    | cons b w ih =>
      intro st st' hb hst h
      cases h with
      | cons _ _ s1 _ r _ hr hl hrest =>
        have h1 := List.all_eq_true.mp ws_loop st hst
        have h2 := List.all_eq_true.mp h1 r hr
        have h3 := List.all_eq_true.mp h2 b (hb b (List.mem_cons_self ..))
        rw [hl] at h3
        have hs1 : s1 ∈ wsStates := by simpa using h3
        exact ih s1 st' (fun x hx => hb x (List.mem_cons_of_mem _ hx)) hs1 hrest
  intro st' hrun
  cases w with
  | nil => exact absurd rfl hne
  | cons b w =>
    cases hrun with
    | cons _ _ s1 _ r _ hr hl hrest =>
      have h2 := List.all_eq_true.mp ws_enter r hr
      have h3 := List.all_eq_true.mp h2 b (hw b (List.mem_cons_self ..))
      rw [hl] at h3
      have hs1 : s1 ∈ wsStates := by simpa using h3
      have hst' := loop w s1 st' (fun x hx => hw x (List.mem_cons_of_mem _ hx)) hs1 hrest
      refine ⟨hst', ?_⟩
      intro r' hr' b' hb' hsp
      have e1 := List.all_eq_true.mp ws_exit st' hst'
      have e2 := List.all_eq_true.mp e1 r' hr'
      have e3 := List.all_eq_true.mp e2 b' (List.mem_range.mpr hb')
      simpa [hsp] using e3

/- non-vacuity -/
example : recognises [(bytes! "iff", nm! "T_IF")] 40 = false := by decide +kernel
example : recognises [(bytes! "if", nm! "T_ELSE")] 40 = false := by decide +kernel
example : 500 < Gen.dfaRows.length ∧ 50 < Gen.newlineActions.length := by decide +kernel
example : rowCaseBlind { state := 1, conds := [], ivs := [(97, 5), (98, 7), (255, 5)] } = false := by decide +kernel
example : rowNewlineOK [10008] [] { state := 1, conds := [], ivs := [(9, 3), (10, 4), (255, 3)] } = false := by decide +kernel

end PhpVerif.Scanner
