import PhpVerif.Model.ScanDFA
import PhpVerif.Gen.ScanDFA
import PhpVerif.Spec.Keywords
/-
Facts about all states of the generated scanner at once (C03 letter case, C04 line terminators).
Tie: T-gen — Gen/ScanDFA.lean is rewritten by gofacts from internal/scanner/scanner.go on every run
(530 states, 594 rows counting the outcomes of `when` conditions, 388 action blocks).
-/
namespace PhpVerif.Scanner
open PhpVerif

/-- OBLIGATION: the regenerated table is a total function on bytes in every row -/
theorem rows_total : Gen.dfaRows.all (fun r => ivsOK r.ivs 0) = true := by decide +kernel

/-- OBLIGATION (C03, kernel-evaluated over every state and every outcome of the scanner's conditions): the
    transition taken on an ASCII letter — next state and action block — does not depend on the letter's
    case.  Keywords, casts, `<?php`, number prefixes and exponents, heredoc openers are therefore
    recognised identically in every spelling; the only case-sensitive comparisons left are the ones the
    hand-written glue makes on purpose (heredoc labels). -/
theorem letter_case_never_matters : Gen.dfaRows.all rowCaseBlind = true := by decide +kernel

theorem letter_case_spec (r : DFARow) (hr : r ∈ Gen.dfaRows) (k : Nat) (hk : k < 26) :
    r.target (65 + k) = r.target (97 + k) := by
  have h := List.all_eq_true.mp letter_case_never_matters r hr
  have h2 := List.all_eq_true.mp h k (List.mem_range.mpr hk)
  simpa using h2

/-- OBLIGATION (C04, the M-SCAN clause "the scanner runs new_line at every line terminator it consumes"):
    in every state, for LF and for CR, the transition runs the new_line action, or hands the byte back
    to be read again, or is the error transition. -/
theorem line_terminators_never_skipped :
    Gen.dfaRows.all (rowNewlineOK Gen.newlineActions Gen.holdActions) = true := by decide +kernel

/-- the PHP-mode entry state of the scanner (`lexer_en_php`) -/
def phpStart : Nat := 123

/-- every lexeme of the table, followed by `delim`, makes the scanner return the token the table names -/
def recognises (tbl : List (List Nat × Nat)) (delim : Nat) : Bool :=
  tbl.all (fun e =>
    match Gen.tokenIds.find? (fun p => p.1 == e.2) with
    | some (_, id) => scanWord Gen.dfaRowsV0 Gen.dfaRowsV1 Gen.trInfos phpStart e.1 delim == some id
    | none => false)

/-- OBLIGATION (C03): each of PHP's 76 reserved words and magic constants, written in lower case and followed by
    `(`, is returned as its own token by the regenerated transition table and action blocks —
    whether all of the scanner's `when` conditions are false or all are true.  With `letter_case_never_matters`: in every
    spelling. -/
theorem keywords_recognised : recognises Spec.keywords 40 = true := by decide +kernel

/-- OBLIGATION (C03): the twelve casts (with blanks or tabs inside the parentheses) and the 34 operators of
    more than one character, followed by `$` -/
theorem casts_recognised : recognises Spec.casts 36 = true := by decide +kernel

theorem operators_recognised : recognises Spec.operators 36 = true := by decide +kernel

/-! ### Whitespace in PHP mode is skipped and changes nothing (C08, scanner half, first part) -/

/-- blank, tab, vertical tab, form feed, LF (a CR is the subject of a known finding: alone it is reported as an
    unexpected character) -/
def wsBytes : List Nat := [9, 10, 11, 12, 32]
def isSpaceByte (b : Nat) : Bool := wsBytes.contains b || b == 13
/-- the states the scanner is in while it reads such a run -/
def wsStates : List Nat := [124, 125]
def tWhitespace : Nat := 57416

def trOf (t : Nat) : Option TrInfo := Gen.trInfos.find? (fun x => x.id == t)

/-- the state a transition target leads to when it is a state, or a block that neither returns a token, nor
    attaches one, nor gives bytes back -/
def quietLanding (t : Nat) : Option Nat :=
  if t == 0 then none
  else if t < 10000 then some t
  else match trOf t with
    | some ti => if !ti.emits && ti.ffs.isEmpty && !ti.hold && ti.next != 0 then some ti.next else none
    | none => none

/-- the block that ends a whitespace run: attaches one T_WHITESPACE, gives the byte back, continues in the start state -/
def wsExit (t : Nat) : Bool :=
  match trOf t with
  | some ti => !ti.emits && ti.ffs == [tWhitespace] && ti.hold && ti.next == phpStart
  | none => false

def rowsOfState (st : Nat) : List DFARow := Gen.dfaRows.filter (fun r => r.state == st)

/-- OBLIGATIONS (kernel-evaluated on the regenerated table, every outcome of the conditions) -/
theorem ws_enter : (rowsOfState phpStart).all (fun r => wsBytes.all (fun b =>
    match quietLanding (r.target b) with | some s => wsStates.contains s | none => false)) = true := by decide +kernel
theorem ws_loop : wsStates.all (fun st => (rowsOfState st).all (fun r => wsBytes.all (fun b =>
    match quietLanding (r.target b) with | some s => wsStates.contains s | none => false))) = true := by decide +kernel
theorem ws_exit : wsStates.all (fun st => (rowsOfState st).all (fun r => (List.range 256).all (fun b =>
    isSpaceByte b || wsExit (r.target b)))) = true := by decide +kernel
theorem ws_rows_exist : (phpStart :: wsStates).all (fun st => !(rowsOfState st).isEmpty) = true := by decide +kernel

/-- reading a run of whitespace bytes from state `st`, by any rows of the states passed through -/
inductive WsRun : Nat → List Nat → Nat → Prop where
  | nil (st : Nat) : WsRun st [] st
  | cons (st b st' st'' : Nat) (r : DFARow) (w : List Nat) : r ∈ rowsOfState st → quietLanding (r.target b) = some st' →
      WsRun st' w st'' → WsRun st (b :: w) st''

/-- C08, scanner half, whitespace in PHP mode: a run of blanks, tabs, VT, FF and LF — however long, whatever
    the scanner's conditions answer along the way — is read without returning or attaching anything and
    leaves the scanner in one of two states, from which any non-space byte `b` makes it attach exactly
    one T_WHITESPACE, hand `b` back and continue in its start state: the token that begins at `b` is
    scanned from the same state as if the run were not there. -/
theorem whitespace_run_is_skipped (w : List Nat) (hw : ∀ b ∈ w, b ∈ wsBytes) (hne : w ≠ []) :
    ∀ st', WsRun phpStart w st' → st' ∈ wsStates ∧
      ∀ r ∈ rowsOfState st', ∀ b, b < 256 → isSpaceByte b = false → wsExit (r.target b) = true := by
  have loop : ∀ (w : List Nat) (st st' : Nat), (∀ b ∈ w, b ∈ wsBytes) → st ∈ wsStates → WsRun st w st' → st' ∈ wsStates := by
    intro w
    induction w with
    | nil => intro st st' _ hst h; cases h; exact hst
    | cons b w ih =>
      intro st st' hb hst h
      cases h with
      | cons _ _ s1 _ r _ hr hl hrest =>
        have h1 := List.all_eq_true.mp ws_loop st hst
        have h2 := List.all_eq_true.mp h1 r hr
        have h3 := List.all_eq_true.mp h2 b (hb b (List.mem_cons_self ..))
        rw [hl] at h3
        have hs1 : s1 ∈ wsStates := by simpa using h3
        exact ih s1 st' (fun x hx => hb x (List.mem_cons_of_mem _ hx)) hs1 hrest
  intro st' hrun
  cases w with
  | nil => exact absurd rfl hne
  | cons b w =>
    cases hrun with
    | cons _ _ s1 _ r _ hr hl hrest =>
      have h2 := List.all_eq_true.mp ws_enter r hr
      have h3 := List.all_eq_true.mp h2 b (hw b (List.mem_cons_self ..))
      rw [hl] at h3
      have hs1 : s1 ∈ wsStates := by simpa using h3
      have hst' := loop w s1 st' (fun x hx => hw x (List.mem_cons_of_mem _ hx)) hs1 hrest
      refine ⟨hst', ?_⟩
      intro r' hr' b' hb' hsp
      have e1 := List.all_eq_true.mp ws_exit st' hst'
      have e2 := List.all_eq_true.mp e1 r' hr'
      have e3 := List.all_eq_true.mp e2 b' (List.mem_range.mpr hb')
      simpa [hsp] using e3

/- non-vacuity -/
example : recognises [(bytes! "iff", nm! "T_IF")] 40 = false := by decide +kernel
example : recognises [(bytes! "if", nm! "T_ELSE")] 40 = false := by decide +kernel
example : 500 < Gen.dfaRows.length ∧ 50 < Gen.newlineActions.length := by decide +kernel
example : rowCaseBlind { state := 1, conds := [], ivs := [(97, 5), (98, 7), (255, 5)] } = false := by decide +kernel
example : rowNewlineOK [10008] [] { state := 1, conds := [], ivs := [(9, 3), (10, 4), (255, 3)] } = false := by decide +kernel

/-! ### A block comment in PHP mode is skipped and changes nothing (C08, scanner half, second part) -/

/-- the state after `/` and the states the scanner is in while it reads the body of `/* … */` (71: body, 72: the
    same after a line terminator was counted, 73: after a `*`) -/
def afterSlash : Nat := 145
def cmtStates : List Nat := [71, 72, 73]
def cmtStar : Nat := 73
def tComment : Nat := 57411
def tDocComment : Nat := 57412

/-- the block that ends a block comment: returns no token, attaches one comment (T_COMMENT or T_DOC_COMMENT,
    decided by the text), hands nothing back, continues in the start state -/
def cmtExit (t : Nat) : Bool :=
  match trOf t with
  | some ti => !ti.emits && !ti.ffs.isEmpty && ti.ffs.all (fun f => f == tComment || f == tDocComment) && !ti.hold && ti.next == phpStart
  | none => false

/-- OBLIGATIONS (kernel-evaluated on the regenerated table, every outcome of the conditions) -/
theorem cmt_enter : (rowsOfState phpStart).all (fun r => quietLanding (r.target 47) == some afterSlash) &&
    (rowsOfState afterSlash).all (fun r => quietLanding (r.target 42) == some 71) = true := by decide +kernel
theorem cmt_loop : cmtStates.all (fun st => (rowsOfState st).all (fun r => (List.range 256).all (fun b =>
    (st == cmtStar && b == 47) ||
    (match quietLanding (r.target b) with | some s => cmtStates.contains s | none => false)))) = true := by decide +kernel
theorem cmt_exit : (rowsOfState cmtStar).all (fun r => cmtExit (r.target 47)) = true := by decide +kernel
theorem cmt_exit_not_quiet : (rowsOfState cmtStar).all (fun r => quietLanding (r.target 47) == none) = true := by decide +kernel
theorem cmt_rows_exist : (afterSlash :: cmtStates).all (fun st => !(rowsOfState st).isEmpty) = true := by decide +kernel

/-- C08, scanner half, block comments in PHP mode: after `/*` the scanner reads ANY bytes — line terminators
    included, whatever its conditions answer — without returning or attaching anything and stays in one of three
    states, as long as the byte read in the after-`*` state is not `/`; there, `/` makes it attach exactly one comment
    token, hand nothing back and continue in its start state: the token after the comment is scanned from the
    same state as if the comment were not there. -/
theorem block_comment_is_skipped (w : List Nat) (hw : ∀ b ∈ w, b < 256) :
    ∀ st st', st ∈ cmtStates → WsRun st w st' → st' ∈ cmtStates ∧ ∀ r ∈ rowsOfState cmtStar, cmtExit (r.target 47) = true := by
  have hexit : ∀ r ∈ rowsOfState cmtStar, cmtExit (r.target 47) = true := List.all_eq_true.mp cmt_exit
  induction w with
  | nil => intro st st' hst h; cases h; exact ⟨hst, hexit⟩
  | cons b w ih =>
    intro st st' hst h
    cases h with
    | cons _ _ s1 _ r _ hr hl hrest =>
      have h1 := List.all_eq_true.mp cmt_loop st hst
      have h2 := List.all_eq_true.mp h1 r hr
      have hb : b < 256 := hw b (List.mem_cons_self ..)
      have h3 := List.all_eq_true.mp h2 b (List.mem_range.mpr hb)
      simp only [Bool.or_eq_true, Bool.and_eq_true, beq_iff_eq] at h3
      have hs1 : s1 ∈ cmtStates := by
        rcases h3 with ⟨h73, h47⟩ | h3
        · -- the exit transition is not a quiet landing
          exfalso
          subst h73; subst h47
          have hq := List.all_eq_true.mp cmt_exit_not_quiet r hr
          rw [hl] at hq
          simp at hq
        · rw [hl] at h3
          simpa using h3
      exact ih (fun b' hb' => hw b' (List.mem_cons_of_mem _ hb')) s1 st' hs1 hrest

/- the conditions are not vacuous: from the after-`*` state a `/` is NOT a quiet landing, every other byte is -/
example : (rowsOfState cmtStar).all (fun r => quietLanding (r.target 47) == none && quietLanding (r.target 42) == some cmtStar) = true := by
  decide +kernel

/-! ### A line comment in PHP mode is skipped and changes nothing (C08, scanner half, third part) -/

/-- the states the scanner is in while it reads the body of `// …` or `# …` -/
def lcStates : List Nat := [130, 131]
def lcBody : Nat := 130

/-- every `when` condition of the row answers true (here: not at `?>` and not behind a line terminator) -/
def condsTrue (r : DFARow) : Bool := r.conds.all (fun c => c.2 == 1)

/-- the block that ends a line comment: returns no token, attaches one T_COMMENT, hands the byte back, continues in
    the start state -/
def lcExit (t : Nat) : Bool :=
  match trOf t with
  | some ti => !ti.emits && ti.ffs == [tComment] && ti.hold && ti.next == phpStart
  | none => false

/-- OBLIGATIONS (kernel-evaluated on the regenerated table) -/
theorem lc_enter : (rowsOfState phpStart).all (fun r => quietLanding (r.target 35) == some lcBody) &&
    (rowsOfState afterSlash).all (fun r => quietLanding (r.target 47) == some lcBody) = true := by decide +kernel
theorem lc_loop : lcStates.all (fun st => (rowsOfState st).all (fun r => !condsTrue r || (List.range 256).all (fun b =>
    match quietLanding (r.target b) with | some s => lcStates.contains s | none => false))) = true := by decide +kernel
theorem lc_exit : lcStates.all (fun st => (rowsOfState st).all (fun r => condsTrue r || (List.range 256).all (fun b =>
    lcExit (r.target b)))) = true := by decide +kernel
theorem lc_rows_exist : lcStates.all (fun st => (rowsOfState st).any condsTrue && (rowsOfState st).any (fun r => !condsTrue r)) = true := by
  decide +kernel

/-- reading bytes from state `st` through rows all of whose conditions hold -/
inductive LcRun : Nat → List Nat → Nat → Prop where
  | nil (st : Nat) : LcRun st [] st
  | cons (st b st' st'' : Nat) (r : DFARow) (w : List Nat) : r ∈ rowsOfState st → condsTrue r = true →
      quietLanding (r.target b) = some st' → LcRun st' w st'' → LcRun st (b :: w) st''

/-- C08, scanner half, line comments in PHP mode: `#` and `//` enter the same state; while the scanner's conditions
    hold (it is not at `?>` and not behind a line terminator) ANY byte is read without returning or attaching
    anything and the scanner stays in two states; as soon as a condition fails, whatever the byte, it attaches
    exactly one T_COMMENT, hands the byte back and continues in its start state: the token after the comment is
    scanned from the same state as if the comment were not there. -/
theorem line_comment_is_skipped (w : List Nat) (hw : ∀ b ∈ w, b < 256) :
    ∀ st st', st ∈ lcStates → LcRun st w st' → st' ∈ lcStates ∧
      ∀ r ∈ rowsOfState st', condsTrue r = false → ∀ b, b < 256 → lcExit (r.target b) = true := by
  have hexit : ∀ st ∈ lcStates, ∀ r ∈ rowsOfState st, condsTrue r = false → ∀ b, b < 256 → lcExit (r.target b) = true := by
    intro st hst r hr hc b hb
    have h1 := List.all_eq_true.mp lc_exit st hst
    have h2 := List.all_eq_true.mp h1 r hr
    simp only [hc, Bool.false_or] at h2
    exact List.all_eq_true.mp h2 b (List.mem_range.mpr hb)
  induction w with
  | nil => intro st st' hst h; cases h; exact ⟨hst, hexit st hst⟩
  | cons b w ih =>
    intro st st' hst h
    cases h with
    | cons _ _ s1 _ r _ hr hc hl hrest =>
      have h1 := List.all_eq_true.mp lc_loop st hst
      have h2 := List.all_eq_true.mp h1 r hr
      simp only [hc, Bool.not_true, Bool.false_or] at h2
      have hb : b < 256 := hw b (List.mem_cons_self ..)
      have h3 := List.all_eq_true.mp h2 b (List.mem_range.mpr hb)
      rw [hl] at h3
      have hs1 : s1 ∈ lcStates := by simpa using h3
      exact ih (fun b' hb' => hw b' (List.mem_cons_of_mem _ hb')) s1 st' hs1 hrest

end PhpVerif.Scanner
