import PhpVerif.Model.ScanDFA
import PhpVerif.Gen.ScanDFA
import PhpVerif.Spec.Keywords
/-
Facts about all states of the generated scanner at once (C03 letter case, C04 line terminators).
Tie: T-gen — Gen/ScanDFA.lean is rewritten by gofacts from internal/scanner/scanner.go on every run
(530 states, 594 rows counting the outcomes of `when` conditions, 388 action blocks).
-/
namespace PhpVerif.Scanner
open PhpVerif

/-- OBLIGATION: the regenerated table is a total function on bytes in every row -/
theorem rows_total : Gen.dfaRows.all (fun r => ivsOK r.ivs 0) = true := by decide +kernel

/-- OBLIGATION (C03, kernel-evaluated over every state and every outcome of the scanner's conditions): the
    transition taken on an ASCII letter — next state and action block — does not depend on the letter's
    case.  Keywords, casts, `<?php`, number prefixes and exponents, heredoc openers are therefore
    recognised identically in every spelling; the only case-sensitive comparisons left are the ones the
    hand-written glue makes on purpose (heredoc labels). -/
theorem letter_case_never_matters : Gen.dfaRows.all rowCaseBlind = true := by decide +kernel

theorem letter_case_spec (r : DFARow) (hr : r ∈ Gen.dfaRows) (k : Nat) (hk : k < 26) :
    r.target (65 + k) = r.target (97 + k) := by
  have h := List.all_eq_true.mp letter_case_never_matters r hr
  have h2 := List.all_eq_true.mp h k (List.mem_range.mpr hk)
  simpa using h2

/-- OBLIGATION (C04, the M-SCAN clause "the scanner runs new_line at every line terminator it consumes"):
    in every state, for LF and for CR, the transition runs the new_line action, or hands the byte back
    to be read again, or is the error transition. -/
theorem line_terminators_never_skipped :
    Gen.dfaRows.all (rowNewlineOK Gen.newlineActions Gen.holdActions) = true := by decide +kernel

/-- the PHP-mode entry state of the scanner (`lexer_en_php`) -/
def phpStart : Nat := 123

/-- every lexeme of the table, followed by `delim`, makes the scanner return the token the table names -/
def recognises (tbl : List (List Nat × Nat)) (delim : Nat) : Bool :=
  tbl.all (fun e =>
    match Gen.tokenIds.find? (fun p => p.1 == e.2) with
    | some (_, id) => scanWord Gen.dfaRowsV0 Gen.dfaRowsV1 Gen.trInfos phpStart e.1 delim == some id
    | none => false)

/-- OBLIGATION (C03): each of PHP's 76 reserved words and magic constants, written in lower case and followed by
    `(`, is returned as its own token by the regenerated transition table and action blocks —
    whether all of the scanner's `when` conditions are false or all are true.  With `letter_case_never_matters`: in every
    spelling. -/
theorem keywords_recognised : recognises Spec.keywords 40 = true := by decide +kernel

/-- OBLIGATION (C03): the twelve casts (with blanks or tabs inside the parentheses) and the 34 operators of
    more than one character, followed by `$` -/
theorem casts_recognised : recognises Spec.casts 36 = true := by decide +kernel

theorem operators_recognised : recognises Spec.operators 36 = true := by decide +kernel

/- non-vacuity -/
example : recognises [(bytes! "iff", nm! "T_IF")] 40 = false := by decide +kernel
example : recognises [(bytes! "if", nm! "T_ELSE")] 40 = false := by decide +kernel
example : 500 < Gen.dfaRows.length ∧ 50 < Gen.newlineActions.length := by decide +kernel
example : rowCaseBlind { state := 1, conds := [], ivs := [(97, 5), (98, 7), (255, 5)] } = false := by decide +kernel
example : rowNewlineOK [10008] [] { state := 1, conds := [], ivs := [(9, 3), (10, 4), (255, 3)] } = false := by decide +kernel

end PhpVerif.Scanner
