import PhpVerif.Model.History
import PhpVerif.Gen.Facts
/-
C13 — Printing, dumping, traversing and resolving never modify the tree.

Tie: T-facts.  `Gen.observerWrites` is regenerated on every run from printer.go, dumper.go,
traverser.go, namespace_resolver.go and null.go: every assignment / inc-dec whose target is a
field, element or pointee of a node or token variable, every append / copy / sort whose
destination is such a field.  The history model is the consequence drawn from the fact.
-/
namespace PhpVerif.C13
open PhpVerif

/-- OBLIGATION (T-facts): no observer statement writes through a node or token. -/
theorem observers_pure : Gen.observerWrites = [] := by decide

/-- one pure step: tree unchanged, output = output on the tree as it was -/
theorem pure_step {Out} (op : Op Out) (h : op.Pure) (t : Tree) : (op t).1 = t := h t

/-- C13, all finite histories: when every operation is pure the tree object after the history
    is the tree it was before, and every operation produced exactly the output it produces on a
    freshly parsed tree — in any order, any number of times. -/
theorem history_invariant {Out} (ops : List (Op Out)) (h : ∀ op ∈ ops, op.Pure) (t : Tree) :
    runHistory ops t = (t, freshOutputs ops t) := by
  induction ops generalizing t with
  | nil => rfl
  | cons op ops ih =>
    have hp : (op t).1 = t := h op (List.mem_cons_self) t
    have ih' := ih (fun o ho => h o (List.mem_cons_of_mem _ ho)) t
    simp only [runHistory, freshOutputs, List.map_cons, hp]
    rw [ih']
    rfl

/-- a history that contains one impure operation is observable: the statement is not vacuous
    (the hypothesis is what the facts provide, and dropping it makes the conclusion false) -/
def dropKids : Op Nat := fun t => (.mk t.kind t.uid t.pos t.toks t.vals [] t.nn, t.size)
def countOp : Op Nat := fun t => (t, t.size)

def exT : Tree := .mk 0 1 none [] [] [[.mk 3 2 none [] [] [] []]] []

example : countOp.Pure := fun _ => rfl
example : (runHistory [countOp, countOp] exT).2 = [2, 2] ∧ (runHistory [countOp, countOp] exT).1.size = exT.size := by decide
example : (runHistory [dropKids, countOp] exT).2 = [2, 1] ∧ freshOutputs [dropKids, countOp] exT = [2, 2] := by decide

end PhpVerif.C13
