import PhpVerif.Props.Parser
/-
C08 (parser half) and C05 (where position numbers come from), on the whole-parser model (M-YY + M-TERM,
tied by diff-parser and diff-pipeline):

  * `parse_ignores_layout` — for every two token streams that agree on what `TokInfo.key` keeps of a token
    (its number, whether it carries a position, the digits of a T_NUM_STRING), the driver and the actions
    produce the same return code, the same tree, the same number of semantic errors and the same trace.
    Line and offset numbers — all that whitespace, line endings and comments change in the stream of
    significant tokens — are not an input of `parseModel`: positions are kept as references to tokens
    (`PRef`) and become numbers only when the tree is written out (`PRef.startOf` / `PRef.endOf`).
    The statement is true by the construction of the model; what makes it a statement about the code is
    the tie: the model with its positions resolved equals the real parser's tree, positions included, on
    every input of diff-parser (87 736 token streams per quick run) and diff-pipeline (173 226 sources).
  * `position_numbers_are_token_boundaries` — every number in every position of the returned tree is the
    StartLine / StartPos resp. EndLine / EndPos of one token of the stream that had been delivered when
    the tree was built, or -1: no action computes a line or an offset.

Not proved here: that the scanner returns the same significant tokens under another layout (lexer half of
C08: oracle) and that a node's boundaries are those of its own first and last token (C05: per-production
obligations + oracle).
-/
namespace PhpVerif.C08
open PhpVerif

/-- CANONICITY OF THE PARSE: the parser model is a function of the tokens' keys -/
theorem parse_ignores_layout (t : YYTab) (combs : List PosComb) (tbl : PathTable) (toks₁ toks₂ : Array TokInfo)
    (h : toks₁.map TokInfo.key = toks₂.map TokInfo.key) :
    parseTokens t combs tbl toks₁ = parseTokens t combs tbl toks₂ := by
  unfold parseTokens
  rw [h]

/-- the hypothesis, token by token -/
theorem keys_eq_of_pointwise (toks₁ toks₂ : Array TokInfo) (hs : toks₁.size = toks₂.size)
    (hp : ∀ i (h₁ : i < toks₁.size) (h₂ : i < toks₂.size),
      toks₁[i].id = toks₂[i].id ∧ toks₁[i].pos.isSome = toks₂[i].pos.isSome ∧ toks₁[i].val = toks₂[i].val) :
    toks₁.map TokInfo.key = toks₂.map TokInfo.key := by
  apply Array.ext
  · simp [hs]
  · intro i h1 h2
    have h1' : i < toks₁.size := by simpa using h1
    have h2' : i < toks₂.size := by simpa using h2
    obtain ⟨a, b, c⟩ := hp i h1' h2'
    simp [TokInfo.key, a, b, c]

/-- two layouts of one program: the significant tokens have the same numbers (and digits), only lines and
    offsets differ — the parser cannot tell them apart -/
example : parseTokens t combs tbl #[{ id := 5, pos := some (1, 1, 6, 10) }, { id := 0, pos := none }]
        = parseTokens t combs tbl #[{ id := 5, pos := some (3, 4, 60, 64) }, { id := 0, pos := none }] :=
  parse_ignores_layout t combs tbl _ _ (by simp [TokInfo.key])

/-- the numbers a position boundary stands for are those of a token of the stream, or -1 -/
theorem PRef.startOf_is_token (toks : Array TokInfo) (r : PRef) :
    r.startOf toks = (-1, -1) ∨ ∃ i ti p, r = .tok i ∧ toks[i]? = some ti ∧ ti.pos = some p ∧ r.startOf toks = (p.1, p.2.2.1) := by
  cases r with
  | absent => left; rfl
  | tok i =>
    cases h : toks[i]? with
    | none => left; simp [PRef.startOf, h]
    | some ti =>
      cases hp : ti.pos with
      | none => left; simp [PRef.startOf, h, hp]
      | some p => right; exact ⟨i, ti, p, rfl, h, hp, by simp [PRef.startOf, h, hp]⟩

theorem PRef.endOf_is_token (toks : Array TokInfo) (r : PRef) :
    r.endOf toks = (-1, -1) ∨ ∃ i ti p, r = .tok i ∧ toks[i]? = some ti ∧ ti.pos = some p ∧ r.endOf toks = (p.2.1, p.2.2.2) := by
  cases r with
  | absent => left; rfl
  | tok i =>
    cases h : toks[i]? with
    | none => left; simp [PRef.endOf, h]
    | some ti =>
      cases hp : ti.pos with
      | none => left; simp [PRef.endOf, h, hp]
      | some p => right; exact ⟨i, ti, p, rfl, h, hp, by simp [PRef.endOf, h, hp]⟩

/-- C05, where the numbers come from (every token stream, every run, accepted or recovered): every boundary
    of every position in the returned tree refers to a token that had been delivered to the parser -/
theorem position_numbers_are_token_boundaries (t : YYTab) (combs : List PosComb) (tbl : PathTable) (toks : Array TokInfo)
    (c : Option Nat) (s : YYSt V TreeSt) (h : parseTokens t combs tbl toks = .ok (c, s)) (r : V) (hr : s.aux.root = some r) :
    ∀ i ∈ r.toks, i < s.pos :=
  Parser.parse_no_invention t combs tbl (toks.map TokInfo.key) c s h r hr

/-- `V.toks` does count the references of positions -/
example : (V.node 7 0 [.pos (.tok 3) (.tok 5), .tok 4]).toks = [3, 5, 4] := by decide

end PhpVerif.C08
