import PhpVerif.Gen.VersionFacts
import PhpVerif.Model.Version
/-
C09 — Version selection is exact and only matters where the languages differ.
Ties: T-gen (the range constants of version.go and parser.go), T-diff (diff-version drives
Compare / InRange / Validate / New / parser.Parse dispatch against this model),
T-facts (reads of the version in the pipeline: Props side `version_reads`, see Gen/Facts).
-/
namespace PhpVerif.C09
open PhpVerif PhpVerif.Gen

/-- the supported set S = {5}×[0,6] ∪ {7}×[0,4] -/
def inS (v : Version) : Prop := (v.major = 5 ∧ v.minor ≤ 6) ∨ (v.major = 7 ∧ v.minor ≤ 4)

/-- OBLIGATION (regenerated constants): the two files declare the same four constants and
    they are the end points of S. -/
theorem ranges_agree :
    versionRanges = parserRanges ∧ versionRanges = ⟨⟨5, 0⟩, ⟨5, 6⟩, ⟨7, 0⟩, ⟨7, 4⟩⟩ := by decide

theorem compareSegment_cases (a b : Nat) :
    (compareSegment a b = -1 ∧ a < b) ∨ (compareSegment a b = 0 ∧ a = b) ∨ (compareSegment a b = 1 ∧ a > b) := by
  unfold compareSegment
  by_cases h1 : a < b
  · simp [h1]
  · by_cases h2 : a > b
    · simp [h1, h2]
    · simp [h1, h2]; omega

/-- `Compare` is the lexicographic order on numeric (major, minor): all pairs of uint64 × uint64 -/
theorem compare_total_order (v o : Version) :
    (v.compare o = -1 ↔ (v.major < o.major ∨ (v.major = o.major ∧ v.minor < o.minor))) ∧
    (v.compare o = 0 ↔ (v.major = o.major ∧ v.minor = o.minor)) ∧
    (v.compare o = 1 ↔ (v.major > o.major ∨ (v.major = o.major ∧ v.minor > o.minor))) := by
  unfold Version.compare
  rcases compareSegment_cases v.major o.major with ⟨h, hm⟩ | ⟨h, hm⟩ | ⟨h, hm⟩ <;>
  rcases compareSegment_cases v.minor o.minor with ⟨g, gm⟩ | ⟨g, gm⟩ | ⟨g, gm⟩ <;>
  simp [h, g] <;> omega

theorem inRange_iff (v s e : Version) :
    v.inRange s e = true ↔
      ((s.major < v.major ∨ (s.major = v.major ∧ s.minor ≤ v.minor)) ∧
       (v.major < e.major ∨ (v.major = e.major ∧ v.minor ≤ e.minor))) := by
  unfold Version.inRange Version.compare
  rcases compareSegment_cases v.major s.major with ⟨h, hm⟩ | ⟨h, hm⟩ | ⟨h, hm⟩ <;>
  rcases compareSegment_cases v.minor s.minor with ⟨g, gm⟩ | ⟨g, gm⟩ | ⟨g, gm⟩ <;>
  rcases compareSegment_cases v.major e.major with ⟨h', hm'⟩ | ⟨h', hm'⟩ | ⟨h', hm'⟩ <;>
  rcases compareSegment_cases v.minor e.minor with ⟨g', gm'⟩ | ⟨g', gm'⟩ | ⟨g', gm'⟩ <;>
  simp [h, g, h', g'] <;> omega

/-- `Validate` accepts exactly S -/
theorem validate_iff (v : Version) : v.validate versionRanges = true ↔ inS v := by
  have hr := ranges_agree.2
  unfold Version.validate inS
  rw [hr]
  simp only [Bool.not_and, Bool.not_not, Bool.or_eq_true, inRange_iff]
  omega

/-- the parser dispatch returns the out-of-range error exactly outside S, the php5 parser on
    5.0–5.6 and the php7 parser on 7.0–7.4; an omitted version means 7.4 -/
theorem dispatch_iff (v : Version) :
    (dispatch parserRanges (some v) = .outOfRange ↔ ¬ inS v) ∧
    (dispatch parserRanges (some v) = .php5 ↔ (v.major = 5 ∧ v.minor ≤ 6)) ∧
    (dispatch parserRanges (some v) = .php7 ↔ (v.major = 7 ∧ v.minor ≤ 4)) := by
  have hr : parserRanges = ⟨⟨5, 0⟩, ⟨5, 6⟩, ⟨7, 0⟩, ⟨7, 4⟩⟩ := by rw [← ranges_agree.1]; exact ranges_agree.2
  unfold dispatch inS
  rw [hr]
  simp only [Option.getD_some]
  by_cases h5 : v.inRange ⟨5, 0⟩ ⟨5, 6⟩ = true
  · have := (inRange_iff v ⟨5, 0⟩ ⟨5, 6⟩).mp h5
    dsimp only at this
    simp [h5]; omega
  · have h5' := mt (inRange_iff v ⟨5, 0⟩ ⟨5, 6⟩).mpr h5
    by_cases h7 : v.inRange ⟨7, 0⟩ ⟨7, 4⟩ = true
    · have := (inRange_iff v ⟨7, 0⟩ ⟨7, 4⟩).mp h7
      dsimp only at this h5'
      simp [h5, h7]; omega
    · have h7' := mt (inRange_iff v ⟨7, 0⟩ ⟨7, 4⟩).mpr h7
      dsimp only at h5' h7'
      simp [h5, h7]; omega

theorem dispatch_nil : dispatch parserRanges none = dispatch parserRanges (some ⟨7, 4⟩) ∧
    dispatch parserRanges none = .php7 := by decide

/-- the validator and the dispatcher accept the same set -/
theorem validate_dispatch_agree (v : Version) :
    v.validate versionRanges = true ↔ dispatch parserRanges (some v) ≠ .outOfRange := by
  rw [validate_iff, Ne, (dispatch_iff v).1, Classical.not_not]

/-- the lexer's only use of the version: `GreaterOrEqual(7.3)`; within {5.0..5.6}, {7.0..7.2},
    {7.3, 7.4} it is constant, and so is the dispatch -/
def family (v : Version) : Dispatch := dispatch parserRanges (some v)
def ge73 (v : Version) : Bool := v.greaterOrEqual ⟨7, 3⟩

theorem version_class (v w : Version) (hv : inS v) (hw : inS w)
    (hsame : v.major = w.major ∧ (v.major = 7 → (v.minor ≥ 3 ↔ w.minor ≥ 3))) :
    family v = family w ∧ ge73 v = ge73 w := by
  constructor
  · unfold family
    rcases hv with hv | hv <;> rcases hw with hw | hw
    · rw [((dispatch_iff v).2.1).mpr hv, ((dispatch_iff w).2.1).mpr hw]
    · omega
    · omega
    · rw [((dispatch_iff v).2.2).mpr hv, ((dispatch_iff w).2.2).mpr hw]
  · unfold ge73 Version.greaterOrEqual Version.compare
    rcases compareSegment_cases v.major 7 with ⟨h, hm⟩ | ⟨h, hm⟩ | ⟨h, hm⟩ <;>
    rcases compareSegment_cases w.major 7 with ⟨h', hm'⟩ | ⟨h', hm'⟩ | ⟨h', hm'⟩ <;>
    rcases compareSegment_cases v.minor 3 with ⟨g, gm⟩ | ⟨g, gm⟩ | ⟨g, gm⟩ <;>
    rcases compareSegment_cases w.minor 3 with ⟨g', gm'⟩ | ⟨g', gm'⟩ | ⟨g', gm'⟩ <;>
    simp [h, h', g, g'] <;> omega

/-- value of a decimal digit string -/
def digitsVal (s : Bytes) : Nat := s.foldl (fun a c => a * 10 + (c.toNat - 48)) 0

/-- `New s` succeeds exactly on `d₁ "." d₂` with d₁ a non-empty digit string without dot whose
    value fits 64 bits and d₂ (everything after the first dot) likewise; the result is the pair
    of values. -/
theorem new_spec (s : Bytes) (ma mi : Nat) :
    Version.new s = some ⟨ma, mi⟩ ↔
      ∃ a b : Bytes, s = a ++ 46 :: b ∧ (46 : UInt8) ∉ a ∧
        a ≠ [] ∧ a.all isDigit = true ∧ digitsVal a < u64Bound ∧ ma = digitsVal a ∧
        b ≠ [] ∧ b.all isDigit = true ∧ digitsVal b < u64Bound ∧ mi = digitsVal b := by
  have hsplit : ∀ (s a b : Bytes), splitDot s = some (a, b) ↔ (s = a ++ 46 :: b ∧ (46 : UInt8) ∉ a) := by
    intro s
    induction s with
    | nil => intro a b; simp [splitDot]
    | cons c cs ih =>
      intro a b
      unfold splitDot
      by_cases hc : c = 46
      · subst hc
        simp only [if_true, Option.some.injEq, Prod.mk.injEq]
        constructor
        · rintro ⟨rfl, rfl⟩; simp
        · rintro ⟨h, hn⟩
          cases a with
          | nil => simpa using h
          | cons x xs => simp at h; simp [h.1] at hn
      · simp only [hc, if_false, Option.map_eq_some_iff]
        constructor
        · rintro ⟨⟨a', b'⟩, h, he⟩
          simp only [Prod.mk.injEq] at he
          obtain ⟨rfl, rfl⟩ := he
          obtain ⟨h1, h2⟩ := (ih a' b').mp h
          exact ⟨by simp [h1], by simp [h2, Ne.symm hc]⟩
        · rintro ⟨h, hn⟩
          cases a with
          | nil => simp at h; exact absurd h.1 hc
          | cons x xs =>
            simp only [List.cons_append, List.cons.injEq] at h
            obtain ⟨rfl, h⟩ := h
            refine ⟨(xs, b), (ih xs b).mpr ⟨h, ?_⟩, rfl⟩
            simp at hn; exact hn.2
  have hparse : ∀ (x : Bytes) (n : Nat), parseUint x = some n ↔
      (x ≠ [] ∧ x.all isDigit = true ∧ digitsVal x < u64Bound ∧ n = digitsVal x) := by
    intro x n
    unfold parseUint digitsVal
    by_cases he : x = []
    · simp [he]
    · by_cases hd : x.all isDigit = true
      · by_cases hv : x.foldl (fun a c => a * 10 + (c.toNat - 48)) 0 < u64Bound
        · simp only [List.isEmpty_iff, he, if_false, hd, if_true, hv, Option.some.injEq, ne_eq,
            not_false_eq_true, true_and]
          exact eq_comm
        · simp only [List.isEmpty_iff, he, if_false, hd, if_true, hv, ne_eq, not_false_eq_true,
            true_and, false_and, reduceCtorEq]
      · simp [he, hd]
  unfold Version.new
  constructor
  · intro h
    cases hs : splitDot s with
    | none => simp [hs] at h
    | some ab =>
      obtain ⟨a, b⟩ := ab
      simp only [hs] at h
      cases ha : parseUint a with
      | none => simp [ha] at h
      | some x =>
        cases hb : parseUint b with
        | none => simp [ha, hb] at h
        | some y =>
          simp only [ha, hb, Option.some.injEq, Version.mk.injEq] at h
          obtain ⟨rfl, rfl⟩ := h
          obtain ⟨h1, h2⟩ := (hsplit s a b).mp hs
          obtain ⟨a1, a2, a3, a4⟩ := (hparse a x).mp ha
          obtain ⟨b1, b2, b3, b4⟩ := (hparse b y).mp hb
          exact ⟨a, b, h1, h2, a1, a2, a3, a4, b1, b2, b3, b4⟩
  · rintro ⟨a, b, h1, h2, a1, a2, a3, a4, b1, b2, b3, b4⟩
    rw [(hsplit s a b).mpr ⟨h1, h2⟩]
    simp only
    rw [(hparse a ma).mpr ⟨a1, a2, a3, a4⟩, (hparse b mi).mpr ⟨b1, b2, b3, b4⟩]

/- non-vacuity -/
example : Version.new [55, 46, 52] = some ⟨7, 4⟩ ∧ Version.new [55] = none
    ∧ Version.new [55, 46, 52, 46, 49] = none ∧ inS ⟨5, 6⟩ ∧ ¬ inS ⟨5, 7⟩ := by
  refine ⟨by decide, by decide, by decide, by unfold inS; simp, by unfold inS; simp⟩

end PhpVerif.C09
