import PhpVerif.Gen.Schema
import PhpVerif.Gen.PrinterTab
import PhpVerif.Model.Printer
import PhpVerif.Lemmas.Rows
import PhpVerif.Lemmas.Render
import PhpVerif.Lemmas.Printer
/-
C15 — The printer emits every token and child of every node kind once, in order.

Tie: T-gen (printer.go per-kind bodies, node.go schema); the helper bodies
(printToken, printSeparatedList, the alt block, write) are hand-modelled in
Model/Printer.lean / Model/Render.lean and tied T-diff through the driver
(harness diff-printer: `render (chunks realCfg false t)` vs the real printer on the same tree).
-/
namespace PhpVerif.C15
open PhpVerif PhpVerif.Gen

def sch (k : Nat) : List Nat := rowAt schemaSorts k
def printF (k : Nat) : List POp := rowAt printerTab k

def sortAt (sorts : List Nat) (f : Nat) : Nat := (sorts[f]?).getD 99

/-- token-bearing field numbers of a kind (sort 1 = *Token, 2 = []*Token) -/
def tokIdx (sorts : List Nat) : List Nat :=
  (List.range sorts.length).filter (fun j => sortAt sorts j == 1 || sortAt sorts j == 2)

/-- a default expression only tests fields of the right sort and only ever yields nothing,
    a literal, or the node's own byte value -/
def dfltOK (sorts : List Nat) : Dflt → Bool
  | .none => true
  | .lit _ => true
  | .own f => sortAt sorts f == 5
  | .ifNode f d => sortAt sorts f == 3 && dfltOK sorts d
  | .ifNodeList f d => sortAt sorts f == 4 && dfltOK sorts d
  | .ifNotNodeList f d => sortAt sorts f == 4 && dfltOK sorts d
  | .ifTok f a b => sortAt sorts f == 1 && dfltOK sorts a && dfltOK sorts b
  | .ifNotTok f d => sortAt sorts f == 1 && dfltOK sorts d

def opOK (sorts : List Nat) : POp → Bool
  | .tok f d => sortAt sorts f == 1 && dfltOK sorts d
  | .node f => sortAt sorts f == 3
  | .list f => sortAt sorts f == 4
  | .sep f g _ => sortAt sorts f == 4 && sortAt sorts g == 2
  | .alt f g => sortAt sorts f == 3 && sortAt sorts g == 1
  | .html f d => sortAt sorts f == 1 && dfltOK sorts d

/-- one kind: every token field and every child field of the schema is mentioned by exactly
    one printer statement of the right shape -/
def printerRowOK (sorts : List Nat) (ops : List POp) : Bool :=
  ops.all (opOK sorts)
    && (srcOrder ops).isPerm (childIdx sorts)
    && (tokOrder ops).isPerm (tokIdx sorts)

/-- the alt block prints exactly the statements of StmtStmtList's own method, without defaults -/
def stripDflt : POp → POp
  | .tok f _ => .tok f .none
  | o => o

def slOps : List POp := (printF K_StmtStmtList).map stripDflt

def printerTableOK : Bool :=
  allRows2 printerRowOK schemaSorts printerTab
    && schemaSorts.length == nKinds

/-- OBLIGATION (kernel-evaluated on the regenerated tables; all kinds × all token and child
    fields). -/
theorem printer_table_ok : printerTableOK = true := by decide +kernel

theorem printer_rows (k : Nat) :
    (printF k).all (opOK (sch k)) = true ∧
    (srcOrder (printF k)).Perm (childIdx (sch k)) ∧
    (tokOrder (printF k)).Perm (tokIdx (sch k)) := by
  have h := printer_table_ok
  simp only [printerTableOK, Bool.and_eq_true] at h
  have hk := allRows2_spec printerRowOK _ _ h.1 k
  simp only [printerRowOK, Bool.and_eq_true, List.isPerm_iff] at hk
  exact ⟨hk.1.1, hk.1.2, hk.2⟩

def realCfg : PrinterCfg := { tab := printF, slKind := K_StmtStmtList, slOps := slOps }

/-- the write sequence of a node is the concatenation, in statement order, of what each of its
    printer statements contributes; children contribute their own write sequences unchanged -/
theorem chunks_unfold (k u : Nat) (pos : Option Pos) (toks : List (List Tok))
    (vals : List (Option Bytes)) (kids : List (List Tree)) (nn : List Bool) :
    chunks realCfg false (.mk k u pos toks vals kids nn)
      = (printF k).flatMap (opItems toks vals kids (fun g => !((nn[g]?).getD false)) (chunksSlots realCfg kids)) := by
  simp [chunks, realCfg]

end PhpVerif.C15

namespace PhpVerif.C15
open PhpVerif PhpVerif.Gen

/-- token and child fields in the order the printer statements mention them (a separated list counts
    as its items followed by its separators, which the printer interleaves) -/
def fieldOrder : List POp → List Nat
  | [] => []
  | .tok f _ :: r => f :: fieldOrder r
  | .node f :: r => f :: fieldOrder r
  | .list f :: r => f :: fieldOrder r
  | .sep f g _ :: r => f :: g :: fieldOrder r
  | .alt f _ :: r => f :: fieldOrder r
  | .html f _ :: r => f :: fieldOrder r

def printedIdx (sorts : List Nat) : List Nat :=
  (List.range sorts.length).filter (fun j => sortAt sorts j == 1 || sortAt sorts j == 2 || sortAt sorts j == 3 || sortAt sorts j == 4)

def printerOrderOK : Bool :=
  allRows2 (fun sorts ops => fieldOrder ops == printedIdx sorts) schemaSorts printerTab

/-- OBLIGATION: every printer method mentions the token and child fields of its kind in exactly the
    order in which pkg/ast/node.go declares them.  Struct declaration order is therefore the source
    order the grammar-action obligations (Props/Actions.lean) and the traverser obligation refer to. -/
theorem printer_order_is_field_order : printerOrderOK = true := by decide +kernel

theorem printer_order_row (k : Nat) : fieldOrder (printF k) = printedIdx (sch k) := by
  have hk := allRows2_spec (fun sorts ops => fieldOrder ops == printedIdx sorts) _ _ printer_order_is_field_order k
  simpa [printF, sch] using hk

end PhpVerif.C15

namespace PhpVerif.C15
open PhpVerif PhpVerif.Gen

def litBytes (id : Nat) : Bytes :=
  match printerLits.find? (·.1 == id) with
  | some (_, b) => b.map (fun n => UInt8.ofNat n)
  | none => []

/-- the printed bytes of a tree (M-PRINT then M-RENDER over the regenerated table) -/
def printBytes (t : Tree) : Bytes := render litBytes (chunks realCfg false t)

/-- BYTE LEVEL, every tree, every printer state: the output is the bytes of the write sequence in
    order — token texts (free-floating first), canonical lexemes, the node's own value — each
    preceded by nothing, `<?php `, one blank, both, or `?>`: never any other text. -/
theorem print_is_items_with_glue (t : Tree) :
    ∃ gs : List Bytes, gs.length = (chunks realCfg false t).length ∧ (∀ g ∈ gs, g ∈ glueSet) ∧
      printBytes t = (gs.zip (chunks realCfg false t)).flatMap (fun p => p.1 ++ itemBytes litBytes p.2) := by
  obtain ⟨gs, h1, h2, h3⟩ := foldl_out litBytes (chunks realCfg false t) {}
  exact ⟨gs, h1, h2, by simpa [printBytes, render] using h3⟩

theorem dfltEval_congr (toks : List (List Tok)) (vals : List (Option Bytes)) (kids kids' : List (List Tree))
    (kidNil : Nat → Bool) (h : ∀ f, (fieldAt kids f).isEmpty = (fieldAt kids' f).isEmpty) (d : Dflt) :
    dfltEval toks vals kids kidNil d = dfltEval toks vals kids' kidNil d := by
  induction d with
  | none => rfl
  | lit id => rfl
  | own f => rfl
  | ifNode f d ih => simp [dfltEval, present, h f, ih]
  | ifNodeList f d ih => simp [dfltEval, ih]
  | ifNotNodeList f d ih => simp [dfltEval, ih]
  | ifTok f a b iha ihb => simp [dfltEval, iha, ihb]
  | ifNotTok f d ih => simp [dfltEval, ih]

/-- LOCALITY: what a node's statements write depends on its children only through the children's
    own write sequences (`res`) and through which child slots are filled; so replacing a subtree
    changes exactly the items that subtree contributes. -/
theorem opItems_congr (toks : List (List Tok)) (vals : List (Option Bytes)) (kids kids' : List (List Tree))
    (kidNil : Nat → Bool) (res : List (List (List Item × List Item)))
    (h : ∀ f, (fieldAt kids f).isEmpty = (fieldAt kids' f).isEmpty) (op : POp) :
    opItems toks vals kids kidNil res op = opItems toks vals kids' kidNil res op := by
  cases op <;> simp [opItems, dfltEval_congr toks vals kids kids' kidNil h]

/-- non-vacuity: a two-token Root prints its tokens; a token-less Nullable prints `?` -/
example : printBytes (.mk 0 0 none [[], [], [{ uid := 1, id := 0, val := [65], ff := [{ id := 0, val := [32] }] }]] [] [] []) = [32, 65] := by
  decide +kernel
example : printBytes (.mk 1 0 none [] [] [] []) = [60, 63, 112, 104, 112, 32, 63] := by
  decide +kernel

end PhpVerif.C15
