import PhpVerif.Props.Actions
import PhpVerif.Gen.Facts
/-
C08 — Whitespace, line endings and comments never change the tree's structure.

Parser half (this file): the structure the parser builds cannot depend on trivia or positions,
because (T-facts, T-gen, re-checked on every run)
  * no grammar action of either generated parser branches on a FreeFloating list or a position
    field (`no_trivia_branches`), nor mentions a FreeFloating list at all (`no_trivia_reads`);
  * in every translated action path positions flow only into Position fields — a position stored
    anywhere else makes the path untranslatable, and the set of untranslatable paths is pinned
    (Actions.assumed7 / assumed5);
  * the goyacc driver consults token ids only.
Lexer half: that the generated DFA emits the same significant (id, value) sequence whatever trivia
separates the tokens is a property of 531 generated states; it is explored by the metamorphic
oracle (same token sequence under eight trivia renderings, structure projections compared), not
proved.  Known on the unchanged tree: a lone CR between tokens in PHP mode is reported as an
unexpected character (the tree is unchanged; recorded under C03).
-/
namespace PhpVerif.C08
open PhpVerif

theorem no_trivia_branches : Gen.triviaBranches = [] := by decide
theorem no_trivia_reads : Gen.freeFloatingMentions = [] := by decide
theorem positions_stay_in_positions7 : assumed Gen.paths7 = Spec.assumed7 := Actions.assumed7
theorem positions_stay_in_positions5 : assumed Gen.paths5 = Spec.assumed5 := Actions.assumed5

end PhpVerif.C08
