import PhpVerif.Model.History
import PhpVerif.Gen.Facts
import PhpVerif.Spec.SharedState
/-
C11 — Concurrent use on different inputs is safe and deterministic.

Tie: T-facts.  `Gen.globalWritesLib` lists every statement of the library (all non-test
packages except cmd/) that assigns to, increments or takes the address of a package-level
variable; with none, the only state shared between two pipelines is read-only (tables,
constants, sentinel errors).  The theorem is the standard consequence: under every
interleaving each pipeline's state is the state of its own sequential run.
-/
namespace PhpVerif.C11
open PhpVerif

/-- OBLIGATION (T-facts): library code never writes a package-level variable. -/
theorem no_shared_writes : Gen.globalWritesLib = [] := by decide

/-- OBLIGATION (T-facts): the library declares exactly the package-level variables the model knows to be
    read-only (tables, sentinel errors, range constants); a new one — a pool, a cache — is shared state
    whether or not any statement assigns to it -/
theorem lib_package_vars_pinned : Gen.libPackageVars = Spec.libPackageVars := by decide

/-- there are package-level variables at all (tables, error values): the fact is not vacuous -/
example : 0 < Gen.nPackageVars := by decide

theorem upd_same {σ} (st : Nat → σ) (i : Nat) (v : σ) : upd st i v i = v := by simp [upd]
theorem upd_other {σ} (st : Nat → σ) (i j : Nat) (v : σ) (h : j ≠ i) : upd st i v j = st j := by simp [upd, h]

theorem iter_succ_left {σ} (f : σ → σ) (n : Nat) (s : σ) : iter f (n + 1) s = iter f n (f s) := rfl

/-- C11, every schedule: the state of pipeline `i` after any interleaving is what `i` reaches by
    taking its own steps alone, as many as the schedule gave it. -/
theorem pipelines_commute {σ ρ} (step : Nat → ρ → σ → σ) (r : ρ) (sched : List Nat) (st : Nat → σ) (i : Nat) :
    runSched step r sched st i = iter (step i r) (sched.count i) (st i) := by
  induction sched generalizing st with
  | nil => rfl
  | cons j js ih =>
    simp only [runSched]
    rw [ih]
    by_cases h : j = i
    · subst h
      simp [upd_same, iter_succ_left]
    · have hc : (j :: js).count i = js.count i := by
        simp [h]
      rw [hc, upd_other _ _ _ _ (fun e => h e.symm)]

/-- two schedules that give every pipeline the same number of steps end in the same state -/
theorem schedule_irrelevant {σ ρ} (step : Nat → ρ → σ → σ) (r : ρ) (s₁ s₂ : List Nat) (st : Nat → σ)
    (h : ∀ i, s₁.count i = s₂.count i) : runSched step r s₁ st = runSched step r s₂ st := by
  funext i
  rw [pipelines_commute, pipelines_commute, h]

/-- determinism: the same work twice gives the same result -/
theorem determinism {σ ρ} (step : Nat → ρ → σ → σ) (r : ρ) (s : List Nat) (st : Nat → σ) :
    runSched step r s st = runSched step r s st := rfl

/- non-vacuity: two counters stepped in two different interleavings -/
example : runSched (fun i (_ : Unit) (s : Nat) => s + (i + 1)) () [0, 1, 0] (fun _ => 0) 0 = 2
    ∧ runSched (fun i (_ : Unit) (s : Nat) => s + (i + 1)) () [1, 0, 0] (fun _ => 0) 0 = 2 := by decide

end PhpVerif.C11
