import PhpVerif.Model.Pipeline
import PhpVerif.Props.Parser
/-
Theorems about the composed model `parseBytes` (scanner model + parser model = parser.Parse).
-/
namespace PhpVerif.Pipeline
open PhpVerif

/-- C04 / C02 (scanner model, every program and every input): each token `lexAllModel` returns is a slice of the
    source — `0 ≤ ts ≤ te ≤ |d|` — so its text is source text.  (The input `d` is a read-only parameter of
    the model: no instruction can change it.) -/
theorem lexAll_inBounds (d : Array UInt8) (pr : ScanProg) : ∀ (fuel : Nat) (s : LexSt) (acc : List TokOut),
    (∀ t ∈ acc, t.inBounds d.size = true) → ∀ t ∈ (lexAllModel d pr fuel s acc).2, t.inBounds d.size = true
  | 0, s, acc, hacc => by simpa [lexAllModel] using hacc
  | f + 1, s, acc, hacc => by
    simp only [lexAllModel]
    split
    · simpa using hacc
    · rename_i hb
      have hb' : (lexOne d pr s).2.inBounds d.size = true := by simpa using hb
      have hacc' : ∀ t ∈ acc ++ [(lexOne d pr s).2], t.inBounds d.size = true := by
        intro t ht
        rcases List.mem_append.mp ht with h | h
        · exact hacc t h
        · simp only [List.mem_singleton] at h
          subst h
          exact hb'
      split
      · exact hacc'
      · exact lexAll_inBounds d pr f _ _ hacc'

/-- the whole pipeline: every token the scanner model hands to the parser model is a slice of the source -/
theorem pipeline_tokens_are_source_slices (pr : ScanProg) (t : YYTab) (combs : List PosComb) (tbl : PathTable)
    (numString : Nat) (ge73 : Bool) (src : Array UInt8) :
    ∀ tk ∈ (parseBytes pr t combs tbl numString ge73 src).toks, tk.inBounds src.size = true := by
  intro tk htk
  have h := lexAll_inBounds src pr (src.size + 16) (initLex src ge73 113) [] (by intro t ht; cases ht)
  unfold parseBytes at htk
  simp only at htk
  split at htk
  · exact h tk htk
  · split at htk
    · exact h tk htk
    · exact h tk htk

end PhpVerif.Pipeline
