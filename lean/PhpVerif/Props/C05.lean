import PhpVerif.Props.Actions
/-
C05 — Node positions span exactly the node's own tokens and nest properly.

Proved here: for every production path of both grammars (except recorded findings / assumed
paths) every node the action builds gets a position whose start boundary is the first and whose
end boundary is the last value stored in it, separator lists and the lookahead token aside, values
that are nil on the path aside (`node_spans_its_values`); positions assigned to an existing node
run from the first to the last value stored into it (`mutated_node_spans`).
Not mechanised: the induction over reductions that turns this into "position = span of the
subtree's tokens" (needs M-LR), the twelve builder combinators themselves (checked through the
oracle: reflection walk comparing every node position with the extent of its tokens).
-/
namespace PhpVerif.C05
open PhpVerif

theorem node_spans_its_values7 (p : PathSum) (hp : p ∈ Gen.paths7) (hk : p.kind = 0 ∨ p.kind = 1)
    (hn : (p.prod, p.path) ∉ Spec.knownFailing7) : ∀ o ∈ p.objs, objOK p.n p.exempt o = true :=
  (Actions.paths7_facts p hp hk hn).positioned

theorem node_spans_its_values5 (p : PathSum) (hp : p ∈ Gen.paths5) (hk : p.kind = 0 ∨ p.kind = 1)
    (hn : (p.prod, p.path) ∉ Spec.knownFailing5) : ∀ o ∈ p.objs, objOK p.n p.exempt o = true :=
  (Actions.paths5_facts p hp hk hn).positioned

theorem mutated_node_spans7 (p : PathSum) (hp : p ∈ Gen.paths7) (hk : p.kind = 0 ∨ p.kind = 1)
    (hn : (p.prod, p.path) ∉ Spec.knownFailing7) : mutPosOK p = true := by
  have h := Actions.ok_of_not_failing _ p hp (by rw [Actions.failing7]; exact hn)
  have hk2 : (p.kind == 2) = false := by rcases hk with h | h <;> simp [h]
  have hk3 : (p.kind == 3) = false := by rcases hk with h | h <;> simp [h]
  simp only [pathOK, hk2, hk3, Bool.false_or, Bool.and_eq_true] at h
  exact h.1.2

theorem mutated_node_spans5 (p : PathSum) (hp : p ∈ Gen.paths5) (hk : p.kind = 0 ∨ p.kind = 1)
    (hn : (p.prod, p.path) ∉ Spec.knownFailing5) : mutPosOK p = true := by
  have h := Actions.ok_of_not_failing _ p hp (by rw [Actions.failing5]; exact hn)
  have hk2 : (p.kind == 2) = false := by rcases hk with h | h <;> simp [h]
  have hk3 : (p.kind == 3) = false := by rcases hk with h | h <;> simp [h]
  simp only [pathOK, hk2, hk3, Bool.false_or, Bool.and_eq_true] at h
  exact h.1.2

/-- the recorded findings are real failures of the obligation, not tolerated noise:
    php7 production 479 builds a node whose end boundary is `$3` while its last value is `$6` -/
example : (Gen.paths7.filter (fun p => p.prod == 479)).all (fun p => !pathOK p) = true := by decide +kernel

end PhpVerif.C05
