import PhpVerif.Props.Actions
import PhpVerif.Gen.Grammar7
import PhpVerif.Gen.Grammar5
import PhpVerif.Gen.Matched
/-
C10 — PHP 5 and PHP 7 grammars agree on the syntax they share.

Proved here: `matched_productions_agree` — every production that the two grammar files spell
identically (same left-hand side, same right-hand side symbols: 179 of them) has, path by path,
the same action in both generated parsers: the same node types, the same fields filled from the
same right-hand-side values, the same position combinators with the same arguments, under the same
branch conditions (`shape` is the interned canonical rendering produced by the translator; the
intern table is shared by both grammars within one gofacts run).
Not covered by a theorem: constructs the grammars spell differently (member-access chains, which
php5 folds iteratively; statements built by differently named nonterminals) — the oracle parses the
same sources under 5.6 and 7.4 and compares full trees, excluding the constructs whose meaning
differs between the languages (uniform variable syntax, yield precedence, empty list()).
-/
namespace PhpVerif.C10
open PhpVerif

/-- shapes of the paths of each production, in one pass (paths are emitted in production order) -/
def groupShapes : List PathSum → List (Nat × List Nat)
  | [] => []
  | p :: r =>
    match groupShapes r with
    | (q, l) :: t => if q == p.prod then (q, p.shape :: l) :: t else (p.prod, [p.shape]) :: (q, l) :: t
    | [] => [(p.prod, [p.shape])]

def tab5 : List (Nat × List Nat) := groupShapes Gen.paths5
def tab7 : List (Nat × List Nat) := groupShapes Gen.paths7

def shapesIn (tab : List (Nat × List Nat)) (p : Nat) : List Nat := ((tab.find? (·.1 == p)).map (·.2)).getD []

def nth : List Nat → Nat → Nat
  | [], _ => 0
  | a :: _, 0 => a
  | _ :: r, n + 1 => nth r n

/-- the pairs listed by the translator really are spelled identically (signatures interned in one table) -/
def sameSig (pr : Nat × Nat) : Bool :=
  pr.1 ≥ 1 && pr.2 ≥ 1 && pr.1 ≤ Gen.prodSig5.length && pr.2 ≤ Gen.prodSig7.length &&
    nth Gen.prodSig5 (pr.1 - 1) == nth Gen.prodSig7 (pr.2 - 1)

def matched : List (Nat × Nat) := Gen.matchedPairs

def agree (pr : Nat × Nat) : Bool := shapesIn tab5 pr.1 == shapesIn tab7 pr.2

/-- OBLIGATION (kernel-evaluated): identically spelled productions build identical trees -/
theorem matched_productions_agree : matched.all (fun pr => sameSig pr && agree pr) = true := by decide +kernel

theorem agree_of_matched (pr : Nat × Nat) (h : pr ∈ matched) :
    sameSig pr = true ∧ shapesIn tab5 pr.1 = shapesIn tab7 pr.2 := by
  have := List.all_eq_true.mp matched_productions_agree pr h
  simpa [agree] using this

/-- the matched part is substantial -/
example : 150 < matched.length := by decide +kernel

end PhpVerif.C10
