import PhpVerif.Model.Term
import PhpVerif.Lemmas.Term
import PhpVerif.Lemmas.YY
import PhpVerif.Lemmas.YYSafe
import PhpVerif.Gen.Terms7
import PhpVerif.Gen.Terms5
import PhpVerif.Gen.Tables7
import PhpVerif.Gen.Tables5
import PhpVerif.Gen.Builder
/-
The whole-parser model (M-YY + M-TERM): obligations on the regenerated data and theorems about every
run.  Shared by C01, C02, C05, C06, C07, C10, C12.

Ties: T-gen — Gen/Tables{5,7}.lean (LALR tables), Gen/Terms{5,7}.lean (every path of every grammar
action as a term), Gen/Builder.lean (position combinators) are rewritten by gofacts on every run;
T-diff — `diff-yy` (the driver's moves and messages) and `diff-parser` (the complete tree) run the
executable model against the real parsers on the same token streams.
-/
namespace PhpVerif.Parser
open PhpVerif

/-- paths the translator could not express, as (production, path) -/
def untranslated (ps : List TPath) : List (Nat × Nat) :=
  (ps.filter (fun p => p.status != 0)).map (fun p => (p.prod, p.path))

/-- OBLIGATION (php7, php5): every path of every grammar action is inside the executable model — a
    production that becomes untranslatable (a loop of a new shape, an unknown call, a store through
    an alias the translator does not follow) breaks this -/
theorem all_paths_translated7 : untranslated Gen.terms7 = [] := by decide +kernel
theorem all_paths_translated5 : untranslated Gen.terms5 = [] := by decide +kernel

example : 500 < Gen.terms7.length ∧ 500 < Gen.terms5.length := by decide +kernel

/-! ### No action can invent a token (all tables, all action terms, all runs) -/

theorem withObjs_bnd {n : Nat} {c0 : ECtx} (hc0 : CtxBnd n c0) (uid0 : Nat) (os : List ObjLit) :
    CtxBnd n { c0 with objs := evalObjs c0 uid0 os [] } :=
  ⟨hc0.envs, BndL_evalObjs hc0 uid0 os [] (BndL_nil n), hc0.cur⟩

theorem runMuts_bnd {n : Nat} (toks : Array TokKey) (combs : List PosComb) (cur : Option Nat) (uid0 : Nat) (objs : List ObjLit)
    (hcur : ∀ i, cur = some i → i < n) : ∀ (ms : List TMut) (envs : List (List V)),
    (∀ env ∈ envs, BndL n env) → ∀ env ∈ runMuts toks combs cur uid0 objs ms envs, BndL n env
  | [], envs, h => by simpa [runMuts] using h
  | m :: ms, envs, h => by
    simp only [runMuts]
    apply runMuts_bnd toks combs cur uid0 objs hcur ms
    intro env he
    rcases List.mem_append.mp he with he | he
    · exact h env he
    · simp only [List.mem_singleton] at he
      subst he
      have hc0 : CtxBnd n (ECtx.mk toks combs cur envs []) := ⟨h, BndL_nil n, hcur⟩
      have hc := withObjs_bnd hc0 uid0 objs
      have hlast := BndL_lastEnv h
      split
      · exact hlast
      · exact BndL_setNth (Bnd_setPath (Bnd_evalTm hc m.val) _ _ _ (Bnd_getArg hlast _)) _ hlast

theorem pathCtx_bnd {n : Nat} (toks : Array TokKey) (combs : List PosComb) (p : TPath) (args : List V) (cur : Option Nat) (uid0 : Nat)
    (hargs : BndL n args) (hcur : ∀ i, cur = some i → i < n) : CtxBnd n (pathCtx toks combs p args cur uid0) := by
  have henvs : ∀ env ∈ runMuts toks combs cur uid0 p.objs p.muts [args], BndL n env :=
    runMuts_bnd toks combs cur uid0 p.objs hcur p.muts [args] (by
      intro env he
      simp only [List.mem_singleton] at he
      subst he
      exact hargs)
  exact ⟨henvs, BndL_evalObjs ⟨henvs, BndL_nil n, hcur⟩ uid0 p.objs [] (BndL_nil n), hcur⟩

/-- the values the whole-parser model manipulates hold only tokens the scanner has delivered so far -/
theorem treeSem_inv (toks : Array TokKey) (combs : List PosComb) (tbl : PathTable) :
    SemInv (treeSem toks combs tbl) (fun n v => Bnd n v) (fun n st => ∀ r, st.root = some r → Bnd n r) where
  monoP := fun _ _ _ h hv => Bnd_mono h hv
  monoQ := fun _ _ _ h hq r hr => Bnd_mono h (hq r hr)
  zero := fun n => Bnd_nil n
  tok := fun i => Bnd_tok (Nat.lt_succ_self i)
  reduce := by
    intro n aux prod args dflt v aux' hargs hdfl hq hred
    simp only [treeSem, reduceTree] at hred
    split at hred
    · cases hred
      exact ⟨hdfl, hq⟩
    · split at hred
      · cases hred
      · rename_i p _
        split at hred
        · cases hred
        · cases hred
          have hcur : ∀ i, (if (n == 0) = true then none else some (n - 1)) = some i → i < n := by
            intro i hi
            split at hi
            · cases hi
            · rename_i hn
              cases hi
              have : n ≠ 0 := by simpa using hn
              omega
          have hc := pathCtx_bnd toks combs p args _ aux.uid (BndL_of_mem hargs) hcur
          simp only [runPath]
          refine ⟨?_, ?_⟩
          · cases hret : p.ret with
            | none => simpa [Option.map, hret] using hdfl
            | some t => simpa [Option.map, hret] using Bnd_evalTm hc t
          · intro r hr
            cases hroot : p.root with
            | none =>
              simp only [hroot, Option.map, HOrElse.hOrElse, OrElse.orElse, Option.orElse] at hr
              exact hq r hr
            | some t =>
              simp only [hroot, Option.map, HOrElse.hOrElse, OrElse.orElse, Option.orElse] at hr
              cases hr
              exact Bnd_evalTm hc t

/-- C02 / C07, token level, every run: whatever the LALR tables and whatever the action terms, every token
    in the tree the parser model returns — after an accepted parse or after any amount of error
    recovery — is one of the tokens the scanner delivered to it (`i < s.pos`, the number of `Lex`
    calls): recovery and actions never invent a token.  Since positions are kept as references to tokens
    (`PRef`, Model/Term.lean) and `V.toks` counts those references too, the same holds for every boundary
    of every position in the tree: it is the start or the end of a token already delivered, or absent. -/
theorem parse_no_invention (t : YYTab) (combs : List PosComb) (tbl : PathTable) (toks : Array TokKey)
    (c : Option Nat) (s : YYSt V TreeSt) (h : parseModel t combs tbl toks = .ok (c, s)) (r : V) (hr : s.aux.root = some r) :
    ∀ i ∈ r.toks, i < s.pos := by
  have hs := treeSem_inv toks combs tbl
  have hinit := StInv_init hs ({} : TreeSt) (by intro r hr; cases hr)
  have := yyRun_inv hs t _ _ _ c s hinit h
  exact this.2.2.1 r hr

/-! ### The generated parsers never read a table out of range (C01) -/

/-- OBLIGATION (kernel-evaluated on the regenerated LALR tables of php7.go / php5.go): every `yyAct` entry
    is a state, every state has `yyPact` / `yyChk` / `yyDef` entries, goto bases and production numbers are
    in range, every state whose default is "consult the exception table" has a well-formed row there,
    the token translation tables cover every external token number. -/
theorem tables7_ok : tablesOK Gen.tables7L = true := by decide +kernel
theorem tables5_ok : tablesOK Gen.tables5L = true := by decide +kernel

/-- C01, the LALR driver: for every token sequence, every semantic action and every number of rounds, the
    driver model over the real tables never reads a table out of range (in Go: never panics with an index
    error in `yyPact`, `yyAct`, `yyChk`, `yyDef`, `yyExca`, `yyPgo`, `yyR1`, `yyR2`, `yyTok1-3`).  The only
    faults left are `underflow` (state stack shorter than a right-hand side — excluded by LALR
    construction, not proved here) and `sem` (an action outside the translated fragment — none, by
    `all_paths_translated`). -/
theorem driver7_no_index_fault {α σ : Type} (sem : YYSem α σ) (aux : σ) (input : Array Nat) (fuel : Nat) (tb : Nat) (i : Int) :
    yyRun Gen.tables7 sem input fuel (yyInit sem aux) ≠ .error (.index tb i) := by
  intro h
  have := yyRun_safe (tabFacts_of_ok tables7_ok) sem input fuel (yyInit sem aux)
    (yyInit_stackOK Gen.tables7L sem aux (by decide +kernel))
  have e : Gen.tables7 = Gen.tables7L.toArr := rfl
  rw [e] at h
  rw [h] at this
  exact this

theorem driver5_no_index_fault {α σ : Type} (sem : YYSem α σ) (aux : σ) (input : Array Nat) (fuel : Nat) (tb : Nat) (i : Int) :
    yyRun Gen.tables5 sem input fuel (yyInit sem aux) ≠ .error (.index tb i) := by
  intro h
  have := yyRun_safe (tabFacts_of_ok tables5_ok) sem input fuel (yyInit sem aux)
    (yyInit_stackOK Gen.tables5L sem aux (by decide +kernel))
  have e : Gen.tables5 = Gen.tables5L.toArr := rfl
  rw [e] at h
  rw [h] at this
  exact this

/- non-vacuity: a table with an action entry that is not a state is rejected -/
example : tablesOK { Gen.tables7L with act := [100000 + 5000] } = false := by decide +kernel

end PhpVerif.Parser
