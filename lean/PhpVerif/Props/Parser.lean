import PhpVerif.Model.Term
import PhpVerif.Gen.Terms7
import PhpVerif.Gen.Terms5
import PhpVerif.Gen.Tables7
import PhpVerif.Gen.Tables5
import PhpVerif.Gen.Builder
/-
The whole-parser model (M-YY + M-TERM): obligations on the regenerated data and theorems about every
run.  Shared by C01, C02, C05, C06, C07, C10, C12.

Ties: T-gen — Gen/Tables{5,7}.lean (LALR tables), Gen/Terms{5,7}.lean (every path of every grammar
action as a term), Gen/Builder.lean (position combinators) are rewritten by gofacts on every run;
T-diff — `diff-yy` (the driver's moves and messages) and `diff-parser` (the complete tree) run the
executable model against the real parsers on the same token streams.
-/
namespace PhpVerif.Parser
open PhpVerif

/-- paths the translator could not express, as (production, path) -/
def untranslated (ps : List TPath) : List (Nat × Nat) :=
  (ps.filter (fun p => p.status != 0)).map (fun p => (p.prod, p.path))

/-- OBLIGATION (php7, php5): every path of every grammar action is inside the executable model — a
    production that becomes untranslatable (a loop of a new shape, an unknown call, a store through
    an alias the translator does not follow) breaks this -/
theorem all_paths_translated7 : untranslated Gen.terms7 = [] := by decide +kernel
theorem all_paths_translated5 : untranslated Gen.terms5 = [] := by decide +kernel

example : 500 < Gen.terms7.length ∧ 500 < Gen.terms5.length := by decide +kernel

end PhpVerif.Parser
