import PhpVerif.Lemmas.NewLines
import PhpVerif.Lemmas.ScanBlocks
import PhpVerif.Gen.ScanBlocks
/-
C04 — Tokens carry exact source text, offsets and lines, and tile the source.

Model: Model/NewLines.lean (newline.go, the scanner's new_line action) — hand-written, tied
T-diff (harness diff-newlines: Append/GetLine on generated tables and offsets, and the line
table the real scanner leaves after lexing whole sources against `lineStarts`).
Scanner contract used (M-SCAN, validated by the same run): the generated DFA executes `new_line`
at every offset it reads that holds a CR or LF, it reads offsets without skipping (re-reading
after backtracking is allowed), and consecutive tokens / free-floating tokens satisfy
ts_next = te_prev.

Action blocks (M-SCANBLOCKS, tie T-gen): gofacts enumerates every path through every action
block of the generated scanner.go (`Gen.scanBlocks`); `scan_paths_ok` is the kernel-checked
obligation on that table, `value_is_position` lifts it to every Lex call: the Position taken by
setTokenPosition is the slice the epilogue takes the Value from.
-/
namespace PhpVerif.C04
open PhpVerif.NL

/-- every reachable line table is strictly increasing, whatever the order of the calls -/
theorem table_sorted (src : List UInt8) (ps : List Nat) : (scan src ps).Pairwise (· < ·) := by
  unfold scan
  suffices h : ∀ d : List Nat, d.Pairwise (· < ·) → (ps.foldl (newLineAction src) d).Pairwise (· < ·) from h [] (by simp)
  induction ps with
  | nil => intro d h; exact h
  | cons p ps ih =>
    intro d h
    simp only [List.foldl_cons]
    apply ih
    unfold newLineAction
    split
    · exact append_sorted d _ h
    · exact h

/-- GetLine on a strictly increasing table: 1 + number of recorded line starts at or before p -/
theorem getLine_counts (d : List Nat) (h : d.Pairwise (· < ·)) (p : Nat) :
    getLine d p = (d.filter (· ≤ p)).length + 1 := getLine_spec d h p

/-- the table after scanning without skipping is exactly the set of line starts seen so far:
    after each LF, after each CR that is not followed by LF (a CR in last position included) -/
theorem scan_is_lineStarts (src : List UInt8) (ps : List Nat) (h : NoSkip 0 ps) :
    scan src ps = lineStarts src (reach 0 ps) := by
  have := scan_from src ps 0 h
  simpa [scan, lineStarts] using this

/-- C04 lines: the line the scanner assigns to an offset it has passed is the offset's line in
    the source, where LF, CRLF and a lone CR each end one line -/
theorem line_correct (src : List UInt8) (ps : List Nat) (h : NoSkip 0 ps) (p : Nat)
    (hp : p ≤ reach 0 ps) (hlen : reach 0 ps ≤ src.length) :
    getLine (scan src ps) p = lineOf src p := by
  rw [scan_is_lineStarts src ps h, getLine_spec _ (lineStarts_sorted src _), lineOf,
    filter_le_lineStarts src p _ hp, filter_le_lineStarts src p _ (by omega)]

/-- setTokenPosition / addFreeFloatingToken: offsets are the token bounds, lines those of the
    first and of the last byte -/
structure TokPos where
  startLine : Nat
  endLine : Nat
  startPos : Nat
  endPos : Nat
  deriving DecidableEq, Repr

def tokenPos (d : List Nat) (ts te : Nat) : TokPos :=
  { startLine := getLine d ts, endLine := getLine d (te - 1), startPos := ts, endPos := te }

theorem token_fields (src : List UInt8) (ps : List Nat) (h : NoSkip 0 ps) (ts te : Nat)
    (hte : te ≤ reach 0 ps) (hts : ts < te) (hlen : reach 0 ps ≤ src.length) :
    tokenPos (scan src ps) ts te =
      { startLine := lineOf src ts, endLine := lineOf src (te - 1), startPos := ts, endPos := te } := by
  simp only [tokenPos]
  rw [line_correct src ps h ts (by omega) hlen, line_correct src ps h (te - 1) (by omega) hlen]

/-- tokens and free-floating tokens in emission order as (ts, te) pairs, each starting where the
    previous one ended -/
def Chained : Nat → List (Nat × Nat) → Nat → Prop
  | a, [], b => a = b
  | a, (s, e) :: r, b => s = a ∧ s ≤ e ∧ Chained e r b

def slice (src : List UInt8) (s e : Nat) : List UInt8 := (src.drop s).take (e - s)

theorem tiling_from (src : List UInt8) : ∀ (cuts : List (Nat × Nat)) (a : Nat),
    Chained a cuts src.length → (cuts.map (fun c => slice src c.1 c.2)).flatten = src.drop a
  | [], a, h => by
    simp only [Chained] at h
    subst h; simp
  | (s, e) :: r, a, h => by
    obtain ⟨rfl, hle, hr⟩ := h
    have ih := tiling_from src r e hr
    have hd : src.drop e = (src.drop s).drop (e - s) := by
      rw [List.drop_drop]; congr 1; omega
    simp only [List.map_cons, List.flatten_cons]
    rw [ih, hd]
    simp only [slice]
    exact List.take_append_drop _ _

/-- C04 tiling: under ts_next = te_prev from 0 to the end, the token texts concatenate to the source -/
theorem tiling (src : List UInt8) (cuts : List (Nat × Nat)) (h : Chained 0 cuts src.length) :
    (cuts.map (fun c => slice src c.1 c.2)).flatten = src := by
  simpa using tiling_from src cuts 0 h

/- non-vacuity: "a\r\nb\rc\n" scanned with a re-read; lines of offsets -/
def exSrc : List UInt8 := [97, 13, 10, 98, 13, 99, 10]

example : NoSkip 0 [0, 1, 2, 3, 2, 3, 4, 5, 6] ∧ reach 0 [0, 1, 2, 3, 2, 3, 4, 5, 6] = 7 := by
  simp [NoSkip, reach]
example : scan exSrc [0, 1, 2, 3, 2, 3, 4, 5, 6] = [3, 5, 7] := by decide
example : lineOf exSrc 0 = 1 ∧ lineOf exSrc 2 = 1 ∧ lineOf exSrc 3 = 2 ∧ lineOf exSrc 5 = 3 := by decide
example : Chained 0 [(0, 1), (1, 3), (3, 7)] exSrc.length := by simp [Chained, exSrc]

/-- OBLIGATION (kernel-evaluated on the regenerated table, every path of every action block):
    see `Scan.pathOK`; plus: Lex assigns `tkn.Value` once, from `lex.data[lex.ts:lex.te]`, and
    `tkn.ID` once, from `tok`; no position / free-floating / unget call sits outside the blocks. -/
def scanPathsOK : Bool :=
  Gen.scanBlocks.all (fun b => Scan.pathOK false 0 b.2)
  && Gen.lexValueAssigns == (1, 1) && Gen.lexIdAssigns == (1, 1) && Gen.lexCallsOutsideBlocks == 0

theorem scan_paths_ok : scanPathsOK = true := by decide +kernel

def tablePath (c : List Nat) : Bool := Gen.scanBlocks.any (fun b => b.2 == c)

/-- every Lex call whose action-block paths come from the table (ts and te moved arbitrarily by
    the DFA between blocks): when it returns, the token's position — if one was taken — is exactly
    (ts, te), the slice its Value is then taken from; same for each free-floating token. -/
theorem value_is_position (blocks : List (Nat × Nat × List Scan.BOp)) (ts te : Nat)
    (h : ∀ b ∈ blocks, tablePath (b.2.2.map Scan.BOp.code) = true) :
    let s := Scan.execRun blocks { ts := ts, te := te }
    Scan.AllFF s ∧ (s.pos = none ∨ s.pos = some (s.ts, s.te)) := by
  apply Scan.run_sound tablePath
  · intro c hc
    simp only [tablePath, List.any_eq_true, beq_iff_eq] at hc
    obtain ⟨b, hb, rfl⟩ := hc
    have h0 := scan_paths_ok
    simp only [scanPathsOK, Bool.and_eq_true, List.all_eq_true] at h0
    exact h0.1.1.1 b hb
  · exact h
  · rfl
  · intro f hf; simp at hf

/- non-vacuity: `{$` in a string: te moved by ragel, one byte given back, position, out -/
example : tablePath ([Scan.BOp.setTe 7, .setTe 6, .setPos, .out].map Scan.BOp.code) = true := by decide +kernel
example : (Scan.execRun [(5, 5, [.setTe 9, .ff]), (9, 9, [Scan.BOp.setTe 11, .setTe 10, .setPos, .out])] { ts := 0, te := 0 }).pos = some (9, 10) := by decide
/- the order `setTokenPosition; ungetCnt` is rejected -/
example : Scan.pathOK false 0 [1, 2, 1, 4] = false := by decide

end PhpVerif.C04
