import PhpVerif.Lemmas.Fmt
import PhpVerif.Gen.FmtCode
import PhpVerif.Gen.Schema
import PhpVerif.Props.C15
/-
C17, the canonicity half, on the executable formatter model (Model/Fmt.lean) running the instruction
lists gofacts regenerates from formatter.go on every run (Gen/FmtCode.lean):

  * `format_ignores_trivia` — for EVERY tree and every formatter state, formatting the skeleton of the
    tree (free-floating lists, token and node positions erased in every field the kind's method
    provably writes on every path) gives exactly what formatting the tree gives;
  * `fmt_covers_tokens`, `fmt_covers_children` (decided on the regenerated instruction lists by the
    path-sensitive analysis `daIs` / `dakIs`, proved sound against the interpreter in
    Lemmas/Fmt.lean) — the fields a method writes on every path are ALL token fields of its kind but
    one (`ScalarString.MinusTkn`) and ALL child fields: so the skeleton keeps no source whitespace
    or comment at all (but the halt-compiler tail and what stands before the sign of `"$a[-1]"`);
  * `formatted_text_depends_on_structure_only` — two trees with the same skeleton print, after
    formatting, to the same bytes (printer model of C15);
  * `formatted_tokens_carry_no_source_trivia` — in the formatted tree every token of a written field carries
    only free-floating entries of the formatter's own making (or the halt-compiler tail), for every tree;
  * `format_keeps_nodes` — for every schema-well-formed tree without inline HTML the formatted tree has
    the kinds, byte values and children of the tree: the formatter touches tokens only (with inline HTML
    formatStmts inserts `StmtNop{"?>"}` nodes: a recorded finding).

Tie: T-gen (the instruction lists; the translator rejects any statement of formatter.go outside the
instruction vocabulary, whose constructors cannot read trivia) + T-diff (`diff-formatter`: the
interpreter's formatted tree and printed bytes against the real formatter / printer).
Not proved here: that the canonical text re-parses into the same structure (oracle-C17).
-/
namespace PhpVerif.C17F
open PhpVerif PhpVerif.Fmt

def prog (k : Nat) : List FI := (Gen.fmtProgs[k]?).getD []

def realCfg : FCfg :=
  { prog := prog, htmlKind := Gen.fmtHtmlKind, nopKind := Gen.fmtNopKind, nopFields := Gen.fmtNopFields,
    nopSemi := Gen.fmtNopSemi, tWs := Gen.fmtTWs, tOpenTag := Gen.fmtTOpenTag, tInc := Gen.fmtTInc, tDec := Gen.fmtTDec }

/-- token.T_HALT_COMPILER -/
def tHalt : Nat := 57394

/-- the token / child fields of kind k its formatter method writes (or finds absent) on every path -/
def dTok (k : Nat) : List Nat := daIs (prog k)
def dKid (k : Nat) : List Nat := dakIs (prog k)

/-- the skeleton of a tree: what the formatter can see of it -/
def skeleton (t : Tree) : Tree := skel tHalt dTok dKid t

theorem halt_ids : Gen.fmtProgs.all (haltOKIs tHalt) = true := by decide +kernel

theorem halt_ok (k : Nat) : haltOKIs tHalt (realCfg.prog k) = true := by
  show haltOKIs tHalt ((Gen.fmtProgs[k]?).getD []) = true
  cases hk : Gen.fmtProgs[k]? with
  | none => simp [haltOKIs]
  | some p =>
    have hm : p ∈ Gen.fmtProgs := List.mem_of_getElem? hk
    exact List.all_eq_true.mp halt_ids p hm

/-- CANONICITY (every tree, every state): the formatter's result — the formatted tree and the state it
    leaves — is a function of the skeleton alone. -/
theorem format_ignores_trivia (t : Tree) (s : FSt) : fmtTree realCfg (skeleton t) s = fmtTree realCfg t s :=
  fmtTree_skel realCfg tHalt dTok dKid (fun _ _ h => h) (fun _ _ h => h) halt_ok t s

theorem format_skeleton (t : Tree) : format realCfg (skeleton t) = format realCfg t := by
  simp [format, format_ignores_trivia]

/-- two trees with one skeleton format to one tree … -/
theorem same_skeleton_same_format (t₁ t₂ : Tree) (h : skeleton t₁ = skeleton t₂) :
    format realCfg t₁ = format realCfg t₂ := by
  rw [← format_skeleton t₁, ← format_skeleton t₂, h]

/-- … and so to one text -/
theorem formatted_text_depends_on_structure_only (t₁ t₂ : Tree) (h : skeleton t₁ = skeleton t₂) :
    (format realCfg t₁).map C15.printBytes = (format realCfg t₂).map C15.printBytes := by
  rw [same_skeleton_same_format t₁ t₂ h]

/-! ### what the skeleton erases: decided on the regenerated instruction lists -/

def fieldsOfSort (k : Nat) (p : Nat → Bool) : List Nat :=
  ((List.range (rowAt Gen.schemaSorts k).length).filter (fun f => p (((rowAt Gen.schemaSorts k)[f]?).getD 99)))

/-- (kind, token field) pairs a formatter method does NOT write on every path -/
def uncoveredToks : List (Nat × Nat) :=
  (List.range Gen.nKinds).flatMap (fun k =>
    ((fieldsOfSort k (fun s => s == sTok || s == sToks)).filter (fun f => !(dTok k).contains f)).map (fun f => (k, f)))

def uncoveredKids : List (Nat × Nat) :=
  (List.range Gen.nKinds).flatMap (fun k =>
    ((fieldsOfSort k (fun s => s == sNode || s == sNodes)).filter (fun f => !(dKid k).contains f)).map (fun f => (k, f)))

/-- token fields a method writes only together with a companion child (`n.EqualTkn` with `n.DefaultValue`,
    `n.ExtendsTkn` with `n.Extends`, the `$` of a variable with a non-identifier name, …): the grammar
    actions set both or neither, so in a parsed tree the token is absent on the paths that skip it — a fact
    about parsed trees, checked on the real code by oracle-C17 (no source trivia survives formatting), not
    proved.  `ScalarString.MinusTkn` (the sign of a negative offset inside an interpolated string) is never
    written: no trivia can stand before it. -/
def companionTokens : List (Nat × Nat) :=
  [(Gen.K_Parameter, 5),                 -- EqualTkn / DefaultValue
   (Gen.K_ScalarString, 1),              -- MinusTkn
   (Gen.K_StmtClass, 6), (Gen.K_StmtClass, 8), (Gen.K_StmtClass, 10), (Gen.K_StmtClass, 12),
                                         -- SeparatorTkns / Args, ExtendsTkn / Extends, ImplementsTkn + separators / Implements
   (Gen.K_StmtClassMethod, 9),           -- ColonTkn / ReturnType
   (Gen.K_StmtForeach, 6),               -- DoubleArrowTkn / Key
   (Gen.K_StmtFunction, 8),              -- ColonTkn / ReturnType
   (Gen.K_StmtInterface, 3), (Gen.K_StmtInterface, 5),   -- ExtendsTkn + separators / Extends
   (Gen.K_StmtProperty, 2),              -- EqualTkn / Expr
   (Gen.K_StmtStaticVar, 2),             -- EqualTkn / Expr
   (Gen.K_StmtTraitUseAlias, 2),         -- DoubleColonTkn / Trait
   (Gen.K_StmtTraitUsePrecedence, 2),    -- DoubleColonTkn / Trait
   (Gen.K_StmtUse, 4),                   -- AsTkn / Alias
   (Gen.K_ExprArrayItem, 3),             -- DoubleArrowTkn / Key
   (Gen.K_ExprVariable, 1),              -- DollarTkn / Name not an identifier
   (Gen.K_ExprYield, 3)]                 -- DoubleArrowTkn / Key

/-- OBLIGATION (path-sensitive): every other token field of every kind is rewritten — or found absent — on
    every path through the kind's method: its source trivia cannot survive formatting, whatever the tree -/
theorem fmt_covers_tokens : uncoveredToks = companionTokens := by decide +kernel

/-- OBLIGATION (path-sensitive): every child of every kind is formatted — or absent — on every path, except
    the statements of a namespace (visited exactly when the namespace is bracketed, and a namespace with
    statements is; the analysis does not look through the local `bracketed`) -/
theorem fmt_covers_children : uncoveredKids = [(Gen.K_StmtNamespace, 4)] := by decide +kernel

/-! ### formatting keeps the program's nodes -/

def schemaOf (k : Nat) : List Nat := rowAt Gen.schemaSorts k

/-- every `n.F.Accept(f)` of every method is on a field that holds a single child -/
def accSingleOK : Bool :=
  (List.range Gen.nKinds).all (fun k => (acceptsIs (prog k)).all (fun f => ((schemaOf k)[f]?).getD 0 == 3))

theorem acc_single_ok : accSingleOK = true := by decide +kernel

theorem acc_single : AccSingle realCfg schemaOf := by
  intro k f hf
  by_cases hk : k < Gen.nKinds
  · have h := List.all_eq_true.mp acc_single_ok k (List.mem_range.mpr hk)
    have h2 := List.all_eq_true.mp h f hf
    simpa using h2
  · -- no method beyond the schema
    have : prog k = [] := by
      have hl : Gen.fmtProgs.length = Gen.nKinds := by decide +kernel
      unfold prog
      have : Gen.fmtProgs[k]? = none := by simp; omega
      simp [this]
    simp [realCfg, this, acceptsIs] at hf

/-- PRESERVATION on the tree level (every schema-well-formed tree without inline HTML, every state): the
    formatted tree has the kinds, byte values, children and slice nil-ness of the tree — the formatter
    touches tokens only -/
theorem format_keeps_nodes (t : Tree) (hw : t.WF schemaOf) (hno : noKind realCfg.htmlKind t = true)
    (s : FSt) (t' : Tree) (s' : FSt) (h : fmtTree realCfg t s = some (t', s')) : shape t' = shape t :=
  fmtTree_shape realCfg schemaOf acc_single t hw hno s t' s' h

/-! ### what the formatter writes carries no source trivia -/

theorem ws_ids : Gen.fmtProgs.all (wsOKIs realCfg tHalt) = true := by decide +kernel

theorem ws_ok (k : Nat) : wsOKIs realCfg tHalt (realCfg.prog k) = true := by
  show wsOKIs realCfg tHalt ((Gen.fmtProgs[k]?).getD []) = true
  cases hk : Gen.fmtProgs[k]? with
  | none => simp [wsOKIs]
  | some p => exact List.all_eq_true.mp ws_ids p (List.mem_of_getElem? hk)

theorem nop_own : OwnTree realCfg tHalt dTok dKid (nopNode realCfg) := by
  have hn : realCfg.nopFields = 2 := by decide
  have hs : realCfg.nopSemi = 1 := by decide
  simp only [nopNode, hn, hs, OwnTree]
  refine ⟨?_, ?_⟩
  · intro f _ t ht
    have : t.ff = [] := by
      match f, ht with
      | 0, ht => simp [fieldAt, List.range, List.range.loop] at ht
      | 1, ht => simp [fieldAt, List.range, List.range.loop] at ht; rw [ht]
      | n + 2, ht => simp [fieldAt, List.range, List.range.loop] at ht
    intro x hx
    rw [this] at hx
    simp at hx
  · simp [ownSlots, ownForest, List.replicate]

/-- NO SOURCE TRIVIA (every tree; every state whose pending list is the formatter's own): in the formatted
    tree every token of every field its kind's method writes — all token fields but the 19 of
    `fmt_covers_tokens` — carries only free-floating entries the formatter made (T_WHITESPACE, the
    `<?php ` open tag) or kept on purpose (the halt-compiler tail): no comment, no source blank. -/
theorem formatted_tokens_carry_no_source_trivia (t : Tree) (s : FSt) (hs : StOwn realCfg tHalt s) (t' : Tree) (s' : FSt)
    (h : fmtTree realCfg t s = some (t', s')) : OwnTree realCfg tHalt dTok dKid t' ∧ StOwn realCfg tHalt s' := by
  have := fmtTree_own realCfg tHalt dTok dKid (fun _ _ h => h) (fun _ _ h => h) ws_ok nop_own t s t' s' hs h
  exact ⟨this.2, this.1⟩

theorem format_carries_no_source_trivia (t t' : Tree) (h : format realCfg t = some t') : OwnTree realCfg tHalt dTok dKid t' := by
  unfold format at h
  cases hx : fmtTree realCfg t {} with
  | none => simp [hx] at h
  | some r =>
    obtain ⟨t1, s1⟩ := r
    simp [hx] at h
    subst h
    exact (formatted_tokens_carry_no_source_trivia t {} (by intro x hx; simp at hx) t1 s1 hx).1

/-- the analysis is not vacuous: a method that rewrites a token only under a condition on another field is
    reported -/
example : daIs [.ite (.not (.kidNil 3)) [.newTok 1 40 [40]] [], .newTok 2 41 [41]] = [2] := by decide
example : daIs [.ite (.not (.tokNil 1)) [.newTok 1 38 [38]] []] = [1] := by decide
example : dakIs [.ite (.not (.kidNil 3)) [.accept 3] [], .ite (.flag 0) [.accept 2] []] = [3] := by decide

end PhpVerif.C17F
