import PhpVerif.Model.Grammar
namespace PhpVerif

theorem cnt_append (g : Grammar) (v : Nat) (a b : List Nat) : cnt g v (a ++ b) = cnt g v a + cnt g v b := by
  simp [cnt, List.filter_append]

theorem cnt_cons (g : Grammar) (v s : Nat) (l : List Nat) :
    cnt g v (s :: l) = (if g.roleOf s == v then 1 else 0) + cnt g v l := by
  simp only [cnt, List.filter_cons]
  split <;> simp <;> omega

theorem prod_of_balanced (g : Grammar) (h : grammarBalanced g = true) (p : Nat) (hp : p < g.prods.length) :
    g.roleOf (g.lhs p) = 0 ∧ ∀ f, f < 3 → cnt g (1 + 2 * f) (g.rhs p) = cnt g (2 + 2 * f) (g.rhs p) := by
  have hall := List.all_eq_true.mp h (g.prods[p]) (List.getElem_mem hp)
  simp only [prodBalanced, Bool.and_eq_true, beq_iff_eq] at hall
  have hl : g.lhs p = (g.prods[p]).1 := by simp [Grammar.lhs, List.getElem?_eq_getElem hp]
  have hr : g.rhs p = (g.prods[p]).2 := by simp [Grammar.rhs, List.getElem?_eq_getElem hp]
  rw [hl, hr]
  refine ⟨hall.1.1.1, ?_⟩
  intro f hf
  have : f = 0 ∨ f = 1 ∨ f = 2 := by omega
  rcases this with rfl | rfl | rfl
  · exact hall.1.1.2
  · exact hall.1.2
  · exact hall.2

mutual
/-- for a well-formed tree rooted at a production, openers and closers of every family agree -/
theorem yield_balanced (g : Grammar) (h : grammarBalanced g = true) (f : Nat) (hf : f < 3) :
    ∀ (t : DT), t.WF g →
      cnt g (1 + 2 * f) t.yield + cnt g (2 + 2 * f) [t.root g] = cnt g (2 + 2 * f) t.yield + cnt g (1 + 2 * f) [t.root g]
  | .leaf s, _ => by simp [DT.yield, DT.root]; omega
  | .node p kids, hw => by
    obtain ⟨hp, hk, hwf⟩ := hw
    have ih := yieldF_balanced g h f hf kids hwf
    have hb := prod_of_balanced g h p hp
    simp only [DT.yield, DT.root]
    rw [hk] at ih
    have hl := hb.1
    have hr := hb.2 f hf
    have h1 : cnt g (2 + 2 * f) [g.lhs p] = 0 := by simp [cnt, hl]; omega
    have h2 : cnt g (1 + 2 * f) [g.lhs p] = 0 := by simp [cnt, hl]; omega
    omega
theorem yieldF_balanced (g : Grammar) (h : grammarBalanced g = true) (f : Nat) (hf : f < 3) :
    ∀ (ts : List DT), wfF g ts →
      cnt g (1 + 2 * f) (yieldF ts) + cnt g (2 + 2 * f) (ts.map (DT.root g)) =
        cnt g (2 + 2 * f) (yieldF ts) + cnt g (1 + 2 * f) (ts.map (DT.root g))
  | [], _ => by simp [yieldF, cnt]
  | t :: ts, hw => by
    have h1 := yield_balanced g h f hf t hw.1
    have h2 := yieldF_balanced g h f hf ts hw.2
    simp only [yieldF, List.map_cons, cnt_append]
    have c1 := cnt_cons g (2 + 2 * f) (t.root g) (ts.map (DT.root g))
    have c2 := cnt_cons g (1 + 2 * f) (t.root g) (ts.map (DT.root g))
    have c3 := cnt_cons g (2 + 2 * f) (t.root g) []
    have c4 := cnt_cons g (1 + 2 * f) (t.root g) []
    have z : ∀ v, cnt g v [] = 0 := fun v => rfl
    rw [z] at c3 c4
    omega
end

end PhpVerif
