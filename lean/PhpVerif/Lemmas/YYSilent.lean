import PhpVerif.Lemmas.YYComplete
import PhpVerif.Lemmas.LinearRun
/-
Two facts about runs of the driver model that the headline theorem of Props/Silent.lean needs:

  * a run whose trace holds no reported syntax error (`noSaw`) has never shifted the error token
    (`silent_no_errShift`): an error shift is part of a recovery, a recovery starts with a report unless the error
    flag is up, and the error flag is up only after a report;
  * the driver reads its input only through "the token number at position i, 0 beyond the end"
    (`yyRun_input_congr`): a token stream with an explicit end token (number 0) as its last entry — what the scanner
    model hands over — drives exactly the run of the stream without it.
-/
namespace PhpVerif
variable {α σ : Type}

theorem Lexed_trace {t : YYTab} {input : Array Nat} {s s' : YYSt α σ} (h : Lexed t input s s') :
    s'.trace = s.trace ∧ s'.errflag = s.errflag := by
  rcases h with rfl | ⟨_, tk, _, rfl⟩
  · exact ⟨rfl, rfl⟩
  · exact ⟨rfl, rfl⟩

/-- where an error shift in the trace can come from -/
theorem yyStep_errShift (t : YYTab) (sem : YYSem α σ) (input : Array Nat) (s : YYSt α σ) (r : YYRes α σ)
    (h : yyStep t sem input s = .ok r) (he : ∃ e, YYEv.errShift e ∈ (resState r).trace) :
    (∃ e, YYEv.errShift e ∈ s.trace) ∨ ¬ noSaw (resState r).trace ∨ s.errflag ≠ 0 := by
  unfold yyStep at h
  split at h
  · cases h
  · rename_i st v rst hstk
    split at h
    · cases h
    · rename_i s1 m hd
      have dc := yyDecide_facts t input s s1 st m hd
      have hlt := Lexed_trace dc.lexed
      obtain ⟨e, hev⟩ := he
      cases m with
      | shift ns =>
        simp only [yyApply, pure, Except.pure] at h
        cases h
        simp only [resState, List.mem_cons] at hev
        rcases hev with hx | hx
        · cases hx
        · left; exact ⟨e, hlt.1 ▸ hx⟩
      | accept =>
        simp only [yyApply, pure, Except.pure] at h
        cases h
        simp only [resState, List.mem_cons] at hev
        rcases hev with hx | hx
        · cases hx
        · left; exact ⟨e, hlt.1 ▸ hx⟩
      | discardEof =>
        simp only [yyApply, pure, Except.pure] at h
        cases h
        simp only [resState, List.mem_cons] at hev
        rcases hev with hx | hx | hx
        · cases hx
        · cases hx
        · left; exact ⟨e, hlt.1 ▸ hx⟩
      | discard =>
        simp only [yyApply, pure, Except.pure] at h
        cases h
        simp only [resState, List.mem_cons] at hev
        rcases hev with hx | hx
        · cases hx
        · left; exact ⟨e, hlt.1 ▸ hx⟩
      | recover fresh =>
        have hfr := dc.recov fresh rfl
        cases fresh with
        | false =>
          right; right
          rw [← hlt.2]
          intro h0
          rw [h0] at hfr
          simp at hfr
        | true =>
          right; left
          simp only [yyApply, bind, Except.bind, pure, Except.pure] at h
          split at h
          · cases h
          · rename_i x hx
            obtain ⟨res, tr⟩ := x
            have hsuf := errPop_trace t _ _ res tr hx
            have hsaw : YYEv.saw st (s1.la.getD (-1)) ∈ tr := hsuf.subset (by simp)
            intro hn
            cases res with
            | none =>
              simp only at h
              cases h
              exact hn _ (List.mem_cons_of_mem _ hsaw) _ _ rfl
            | some p =>
              simp only at h
              cases h
              exact hn _ (List.mem_cons_of_mem _ hsaw) _ _ rfl
      | reduce yyn =>
        simp only [yyApply, bind, Except.bind, pure, Except.pure] at h
        split at h
        · cases h
        · split at h
          · cases h
          · split at h
            · cases h
            · split at h
              · cases h
              · split at h
                · cases h
                · split at h
                  · cases h
                  · cases h
                    simp only [resState, List.mem_cons] at hev
                    rcases hev with hx | hx
                    · cases hx
                    · left; exact ⟨e, hlt.1 ▸ hx⟩

theorem yyStep_trace_suffix (t : YYTab) (sem : YYSem α σ) (input : Array Nat) (s : YYSt α σ) (r : YYRes α σ)
    (h : yyStep t sem input s = .ok r) : s.trace <:+ (resState r).trace := by
  obtain ⟨s1, hlex, hm⟩ := yyStep_LR t sem input s r h
  have := LRMove_trace hm
  rw [hlex.trace] at this
  exact this

section silent
variable {tl : YYTabL} {input : Array Nat}

/-- a run that reported no syntax error never shifted the error token -/
theorem silent_no_errShift (hf : EofFacts tl) (hin : ∀ i (h : i < input.size), input[i] ≠ 0) (sem : YYSem α σ) :
    ∀ (n : Nat) (s : YYSt α σ) (c : Option Nat) (s' : YYSt α σ), CInv tl input s →
      ((∃ e, YYEv.errShift e ∈ s.trace) → ¬ noSaw s.trace) →
      yyRun tl.toArr sem input n s = .ok (c, s') → noSaw s'.trace → ¬ ∃ e, YYEv.errShift e ∈ s'.trace
  | 0, s, c, s', _, hk, h, hn => by
    simp only [yyRun] at h
    cases h
    exact fun he => hk he hn
  | n + 1, s, c, s', hi, hk, h, hn => by
    simp only [yyRun] at h
    have step : ∀ r, yyStep tl.toArr sem input s = .ok r →
        CInv tl input (resState r) ∧ ((∃ e, YYEv.errShift e ∈ (resState r).trace) → ¬ noSaw (resState r).trace) := by
      intro r hstep
      refine ⟨(yyStep_cinv hf hin sem s r hi hstep).1, ?_⟩
      intro he hn'
      have hsuf := yyStep_trace_suffix tl.toArr sem input s r hstep
      rcases yyStep_errShift tl.toArr sem input s r hstep he with h1 | h2 | h3
      · exact hk h1 (noSaw_suffix hsuf hn')
      · exact h2 hn'
      · exact h3 (hi.silent (noSaw_suffix hsuf hn')).1
    split at h
    · cases h
    · rename_i code s2 hstep
      cases h
      have := step _ hstep
      exact fun he => this.2 he hn
    · rename_i s2 hstep
      have := step _ hstep
      exact silent_no_errShift hf hin sem n s2 c s' this.1 this.2 h hn

end silent

/-! ### the driver reads its input through `charAt` only -/

theorem ensureLA_congr (t : YYTab) (a b : Array Nat) (hab : ∀ i : Nat, (a[i]?).getD 0 = (b[i]?).getD 0) (s : YYSt α σ) :
    ensureLA t a s = ensureLA t b s := by
  unfold ensureLA
  split
  · rfl
  · simp only [hab]

theorem yyStep_congr (t : YYTab) (sem : YYSem α σ) (a b : Array Nat) (hab : ∀ i : Nat, (a[i]?).getD 0 = (b[i]?).getD 0) (s : YYSt α σ) :
    yyStep t sem a s = yyStep t sem b s := by
  have h1 : ∀ st, yyTryShift t a s st = yyTryShift t b s st := by
    intro st
    unfold yyTryShift
    simp only [ensureLA_congr t a b hab]
  have h2 : ∀ (s : YYSt α σ) st, yyDefault t a s st = yyDefault t b s st := by
    intro s st
    unfold yyDefault
    simp only [ensureLA_congr t a b hab]
  have h3 : ∀ st, yyDecide t a s st = yyDecide t b s st := by
    intro st
    unfold yyDecide
    simp only [h1, h2]
  unfold yyStep
  simp only [h3]

theorem yyRun_input_congr (t : YYTab) (sem : YYSem α σ) (a b : Array Nat) (hab : ∀ i : Nat, (a[i]?).getD 0 = (b[i]?).getD 0) :
    ∀ (n : Nat) (s : YYSt α σ), yyRun t sem a n s = yyRun t sem b n s
  | 0, _ => rfl
  | n + 1, s => by
    simp only [yyRun, yyStep_congr t sem a b hab s]
    split
    · rfl
    · rfl
    · exact yyRun_input_congr t sem a b hab n _

end PhpVerif
