import PhpVerif.Lemmas.Lists
namespace PhpVerif

theorem travSlots_length (tab : Nat → List Nat) (kids : List (List Tree)) :
    (travSlots tab kids).length = kids.length := by
  induction kids with
  | nil => simp [travSlots]
  | cons f fs ih => simp [travSlots, ih]

theorem travSlots_field (tab : Nat → List Nat) (kids : List (List Tree)) (f : Nat) :
    fieldAt (travSlots tab kids) f = travForest tab (fieldAt kids f) := by
  induction kids generalizing f with
  | nil => simp [travSlots, fieldAt_nil, travForest]
  | cons x xs ih =>
    cases f with
    | zero => simp [travSlots]
    | succ f => simp [travSlots, ih]

theorem travForest_eq_flatMap (tab : Nat → List Nat) (ts : List Tree) :
    travForest tab ts = ts.flatMap (traverse tab) := by
  induction ts with
  | nil => simp [travForest]
  | cons t ts ih => simp [travForest, ih]

/-- The walk in its specification form: the node itself, then for every child
    field in table order the walks of that field's children in list order. -/
theorem traverse_unfold (tab : Nat → List Nat) (k u : Nat) (p : Option Pos)
    (toks : List (List Tok)) (vals : List (Option Bytes)) (kids : List (List Tree)) (nn : List Bool) :
    traverse tab (.mk k u p toks vals kids nn)
      = u :: (tab k).flatMap (fun f => (fieldAt kids f).flatMap (traverse tab)) := by
  simp only [traverse, pick, travSlots_field, travForest_eq_flatMap]

mutual
theorem traverse_perm (sch tab : Nat → List Nat)
    (htab : ∀ k, (tab k).Perm (childIdx (sch k))) :
    ∀ t : Tree, t.WF sch → (traverse tab t).Perm t.nodes
  | .mk k u p toks vals kids nn, h => by
    obtain ⟨hlen, _, _, _, hk, hs⟩ := h
    simp only [traverse, Tree.nodes]
    apply List.Perm.cons
    have h1 := pick_perm (htab k) (travSlots tab kids)
    refine h1.trans ?_
    have h2 : pick (childIdx (sch k)) (travSlots tab kids)
        = pick (List.range (travSlots tab kids).length) (travSlots tab kids) := by
      rw [travSlots_length, hlen]
      simp only [childIdx]
      symm
      apply pick_filter
      intro j hjr hj
      have hjl : j < kids.length := by rw [hlen]; simpa using hjr
      have := hk.1 j hjl hj
      rw [travSlots_field, List.isEmpty_iff.mp this]; rfl
    rw [h2, ← flatten_eq_pick_range]
    exact travSlots_perm sch tab htab kids hs
theorem travSlots_perm (sch tab : Nat → List Nat)
    (htab : ∀ k, (tab k).Perm (childIdx (sch k))) :
    ∀ kids : List (List Tree), wfSlots sch kids → (travSlots tab kids).flatten.Perm (nodesSlots kids)
  | [], _ => by simp [travSlots, nodesSlots]
  | f :: fs, h => by
    simp only [travSlots, nodesSlots, List.flatten_cons]
    exact List.Perm.append (travForest_perm sch tab htab f h.1) (travSlots_perm sch tab htab fs h.2)
theorem travForest_perm (sch tab : Nat → List Nat)
    (htab : ∀ k, (tab k).Perm (childIdx (sch k))) :
    ∀ ts : List Tree, wfForest sch ts → (travForest tab ts).Perm (nodesForest ts)
  | [], _ => by simp [travForest, nodesForest]
  | t :: ts, h => by
    simp only [travForest, nodesForest]
    exact List.Perm.append (traverse_perm sch tab htab t h.1) (travForest_perm sch tab htab ts h.2)
end

end PhpVerif
