import PhpVerif.Model.Fmt
import PhpVerif.Model.Traverse
/-
Lemmas about the formatter model (Model/Fmt.lean), for every instruction list:
  * the skeleton of a tree (`skel`: trivia and positions erased in the fields a method provably
    writes) — the interpreter cannot tell a tree from its skeleton (`execI_skel`);
  * a path-sensitive definite-assignment analysis of instruction lists (`daIs`, `dakIs`) and its
    soundness against the interpreter (`execI_done`, `execI_doneK`).
-/
namespace PhpVerif.Fmt
open PhpVerif

/-! ### overlays -/

theorem getOv_nil {α} (f : Nat) : getOv ([] : List (Option α)) f = none := by simp [getOv]
theorem getOv_cons_zero {α} (x : Option α) (l) : getOv (x :: l) 0 = x := by simp [getOv]
theorem getOv_cons_succ {α} (x : Option α) (l) (f : Nat) : getOv (x :: l) (f + 1) = getOv l f := by simp [getOv]

theorem getOv_setOv_same {α} (l : List (Option α)) (f : Nat) (v : α) : getOv (setOv l f v) f = some v := by
  induction l generalizing f with
  | nil =>
    induction f with
    | zero => simp [setOv, getOv]
    | succ f ih => simpa [setOv, getOv] using ih
  | cons x r ih =>
    cases f with
    | zero => simp [setOv, getOv]
    | succ f => simpa [setOv, getOv] using ih f

theorem getOv_setOv_isSome {α} (l : List (Option α)) (f g : Nat) (v : α) (h : (getOv l g).isSome) :
    (getOv (setOv l f v) g).isSome := by
  induction l generalizing f g with
  | nil => simp [getOv] at h
  | cons x r ih =>
    cases f with
    | zero =>
      cases g with
      | zero => simp [setOv, getOv]
      | succ g => simpa [setOv, getOv] using h
    | succ f =>
      cases g with
      | zero => simpa [setOv, getOv] using h
      | succ g =>
        have := ih f g (by simpa [getOv] using h)
        simpa [setOv, getOv] using this

/-! ### the children as functions -/

theorem fmtSlots_field (c : FCfg) (kids : List (List Tree)) (f : Nat) :
    fieldAt (fmtSlots c kids) f = fmtForest c (fieldAt kids f) := by
  induction kids generalizing f with
  | nil => simp [fmtSlots, fieldAt, fmtForest]
  | cons x xs ih =>
    cases f with
    | zero => simp [fmtSlots, fieldAt]
    | succ f => simpa [fmtSlots, fieldAt] using ih f

theorem fmtForest_eq_nil (c : FCfg) (ts : List Tree) : fmtForest c ts = [] ↔ ts = [] := by
  cases ts <;> simp [fmtForest]

/-! ### skeleton -/

/-- the free-floating list of a token in the skeleton: only the halt-compiler entries where the
    method rewrites the token (`keep = false`), all entries — without positions — where it does not -/
def skelFFs (h : Nat) (keep : Bool) (l : List FF) : List FF := if keep then l.map bareFF else haltFF h l

def skelTok (h : Nat) (keep : Bool) (t : Tok) : Tok := { uid := 0, id := t.id, val := t.val, ff := skelFFs h keep t.ff }

def skelFields (h : Nat) (d : List Nat) : Nat → List (List Tok) → List (List Tok)
  | _, [] => []
  | i, l :: r => l.map (skelTok h (!d.contains i)) :: skelFields h d (i + 1) r

mutual
/-- `dT k` / `dK k`: the token / child fields of kind k whose trivia is erased -/
def skel (h : Nat) (dT dK : Nat → List Nat) : Tree → Tree
  | .mk k _ _ toks vals kids nn => .mk k 0 none (skelFields h (dT k) 0 toks) vals (skelSlots h dT dK (dK k) 0 kids) nn
def skelSlots (h : Nat) (dT dK : Nat → List Nat) (d : List Nat) : Nat → List (List Tree) → List (List Tree)
  | _, [] => []
  | i, f :: fs => (if d.contains i then skelForest h dT dK f else f) :: skelSlots h dT dK d (i + 1) fs
def skelForest (h : Nat) (dT dK : Nat → List Nat) : List Tree → List Tree
  | [] => []
  | t :: ts => skel h dT dK t :: skelForest h dT dK ts
end

theorem bareFF_idem (f : FF) : bareFF (bareFF f) = bareFF f := rfl
theorem bareFF_id (f : FF) : (bareFF f).id = f.id := rfl

theorem haltFF_map_bare (h : Nat) (l : List FF) : haltFF h (l.map bareFF) = haltFF h l := by
  induction l with
  | nil => rfl
  | cons x r ih =>
    simp only [haltFF, List.map_cons, List.filter_cons, bareFF_id] at ih ⊢
    by_cases hx : (x.id == h) = true
    · simp [hx, bareFF_idem, ih]
    · simp [hx, ih]

theorem haltFF_idem (h : Nat) (l : List FF) : haltFF h (haltFF h l) = haltFF h l := by
  induction l with
  | nil => rfl
  | cons x r ih =>
    simp only [haltFF, List.filter_cons] at ih ⊢
    by_cases hx : (x.id == h) = true
    · simp [hx, bareFF_id, bareFF_idem, ih]
    · simp [hx, ih]

theorem haltFF_skel (h : Nat) (b : Bool) (l : List FF) : haltFF h (skelFFs h b l) = haltFF h l := by
  cases b <;> simp [skelFFs, haltFF_map_bare, haltFF_idem]

theorem keepTok_skel (h : Nat) (b : Bool) (t : Tok) (l : List FF) : keepTok (skelTok h b t) l = keepTok t l := rfl

theorem bareTok_skel_keep (h : Nat) (t : Tok) : bareTok (skelTok h true t) = bareTok t := by
  simp [bareTok, skelTok, skelFFs, Function.comp_def, bareFF_idem]

theorem skelFields_field (h : Nat) (d : List Nat) (i : Nat) (toks : List (List Tok)) (f : Nat) :
    fieldAt (skelFields h d i toks) f = (fieldAt toks f).map (skelTok h (!d.contains (i + f))) := by
  induction toks generalizing i f with
  | nil => simp [skelFields, fieldAt]
  | cons x r ih =>
    cases f with
    | zero => simp [skelFields, fieldAt]
    | succ f =>
      have := ih (i + 1) f
      simp only [fieldAt, skelFields, List.getElem?_cons_succ] at this ⊢
      rw [this]
      have e : i + 1 + f = i + (f + 1) := by omega
      rw [e]

theorem skelFields_length (h : Nat) (d : List Nat) (i : Nat) (toks : List (List Tok)) :
    (skelFields h d i toks).length = toks.length := by
  induction toks generalizing i with
  | nil => rfl
  | cons x r ih => simp [skelFields, ih]

/-- `orig'` is `orig` with the trivia of the fields in `d` erased -/
def SkRel (h : Nat) (d : List Nat) (orig orig' : List (List Tok)) : Prop :=
  ∀ f, fieldAt orig' f = (fieldAt orig f).map (skelTok h (!d.contains f))

theorem skelFields_rel (h : Nat) (d : List Nat) (toks : List (List Tok)) : SkRel h d toks (skelFields h d 0 toks) := by
  intro f
  simpa using skelFields_field h d 0 toks f

theorem curToks_rel {h d orig orig'} (hr : SkRel h d orig orig') (w : List (Option (List Tok))) (f : Nat) :
    curToks orig' w f = match getOv w f with
      | some l => l
      | none => (fieldAt orig f).map (skelTok h (!d.contains f)) := by
  unfold curToks
  cases getOv w f <;> simp [hr f]

/-! ### the interpreter cannot tell a node from its skeleton -/

-- every halt-compiler filter of the instructions asks for the id the skeleton keeps
mutual
def haltOKI (h : Nat) : FI → Bool
  | .haltTail _ id => id == h
  | .ite _ a b => haltOKIs h a && haltOKIs h b
  | _ => true
def haltOKIs (h : Nat) : List FI → Bool
  | [] => true
  | i :: r => haltOKI h i && haltOKIs h r
end

theorem evalFC_skel {h d orig orig'} (hr : SkRel h d orig orig') (nn : List Bool) (fns : List (List KFn)) (n : NSt) (cd : FC) :
    evalFC orig' nn fns n cd = evalFC orig nn fns n cd := by
  induction cd with
  | tokNil f =>
    simp only [evalFC, curToks_rel hr]
    unfold curToks
    cases getOv n.w f <;> simp
  | tokValHas f b =>
    simp only [evalFC, curToks_rel hr]
    unfold curToks
    cases getOv n.w f with
    | some l => rfl
    | none =>
      cases fieldAt orig f with
      | nil => rfl
      | cons t r => simp [skelTok]
  | not c ih => simp [evalFC, ih]
  | and a b iha ihb => simp [evalFC, iha, ihb]
  | or a b iha ihb => simp [evalFC, iha, ihb]
  | _ => simp [evalFC]

mutual
theorem execI_skel {h d orig orig'} (hr : SkRel h d orig orig') (c : FCfg) (vals : List (Option Bytes)) (nn : List Bool)
    (fns : List (List KFn)) :
    ∀ (i : FI) (n : NSt), haltOKI h i = true → execI c orig' vals nn fns i n = execI c orig vals nn fns i n
  | .newTok .., _, _ => by simp [execI]
  | .newTokVal .., _, _ => by simp [execI]
  | .newTokReg .., _, _ => by simp [execI]
  | .setFlag i cd, n, _ => by simp [execI, evalFC_skel hr]
  | .setReg .., _, _ => by simp [execI]
  | .setRegOpener .., _, _ => by simp [execI]
  | .setRegLabel r f, n, _ => by
    simp only [execI, curToks_rel hr]
    unfold curToks
    cases getOv n.w f with
    | some l => rfl
    | none =>
      cases fieldAt orig f with
      | nil => rfl
      | cons t rest => simp [skelTok]
  | .clear .., _, _ => by simp [execI]
  | .ws .., _, _ => by simp [execI]
  | .indent .., _, _ => by simp [execI]
  | .setHtml, _, _ => by simp [execI]
  | .addIndent, _, _ => by simp [execI]
  | .accept .., _, _ => by simp [execI]
  | .setFF f, n, _ => by
    simp only [execI, curToks_rel hr]
    unfold curToks
    cases getOv n.w f with
    | some l => rfl
    | none =>
      cases fieldAt orig f with
      | nil => rfl
      | cons t r => simp [keepTok_skel]
  | .semi .., _, _ => by simp [execI]
  | .fmtList .., _, _ => by simp [execI]
  | .stmts .., _, _ => by simp [execI]
  | .each .., _, _ => by simp [execI]
  | .sepLoop .., _, _ => by simp [execI]
  | .haltTail f id, n, hk => by
    have hid : id = h := by simpa [haltOKI] using hk
    subst hid
    simp only [execI, curToks_rel hr]
    unfold curToks
    cases getOv n.w f with
    | some l => rfl
    | none =>
      cases fieldAt orig f with
      | nil => rfl
      | cons t r =>
        simp only [List.map_cons, keepTok_skel]
        simp [skelTok, haltFF_skel]
  | .ite cd a b, n, hk => by
    have hk' : haltOKIs h a = true ∧ haltOKIs h b = true := by simpa [haltOKI] using hk
    simp only [execI, evalFC_skel hr]
    split
    · exact execIs_skel hr c vals nn fns a n hk'.1
    · exact execIs_skel hr c vals nn fns b n hk'.2
theorem execIs_skel {h d orig orig'} (hr : SkRel h d orig orig') (c : FCfg) (vals : List (Option Bytes)) (nn : List Bool)
    (fns : List (List KFn)) :
    ∀ (is : List FI) (n : NSt), haltOKIs h is = true → execIs c orig' vals nn fns is n = execIs c orig vals nn fns is n
  | [], _, _ => by simp [execIs]
  | i :: r, n, hk => by
    have hk' : haltOKI h i = true ∧ haltOKIs h r = true := by simpa [haltOKIs] using hk
    simp only [execIs, execI_skel hr c vals nn fns i n hk'.1]
    cases execI c orig vals nn fns i n with
    | none => rfl
    | some n1 => exact execIs_skel hr c vals nn fns r n1 hk'.2
end

/-! ### definite assignment: which fields a method has written (or found absent) on every path -/

def inter (a b : List Nat) : List Nat := a.filter (b.contains ·)

theorem mem_inter {a b : List Nat} {x : Nat} : x ∈ inter a b ↔ x ∈ a ∧ x ∈ b := by simp [inter]

mutual
/-- token fields known to be absent (or already written) when the condition holds -/
def nilT : FC → List Nat
  | .tokNil f => [f]
  | .not c => nilF c
  | .and a b => nilT a ++ nilT b
  | .or a b => inter (nilT a) (nilT b)
  | _ => []
/-- … when it does not hold -/
def nilF : FC → List Nat
  | .not c => nilT c
  | .or a b => nilF a ++ nilF b
  | .and a b => inter (nilF a) (nilF b)
  | _ => []
end

mutual
def knilT : FC → List Nat
  | .kidNil f => [f]
  | .listNil f => [f]
  | .not c => knilF c
  | .and a b => knilT a ++ knilT b
  | .or a b => inter (knilT a) (knilT b)
  | _ => []
def knilF : FC → List Nat
  | .not c => knilT c
  | .or a b => knilF a ++ knilF b
  | .and a b => inter (knilF a) (knilF b)
  | _ => []
end

mutual
/-- token fields written, or known absent, on every path through the instruction -/
def daI : FI → List Nat
  | .newTok f _ _ => [f]
  | .newTokVal f _ _ => [f]
  | .newTokReg f _ _ => [f]
  | .clear f => [f]
  | .setFF f => [f]
  | .semi f => [f]
  | .haltTail f _ => [f]
  | .fmtList (some g) _ _ => [g]
  | .sepLoop _ g _ _ _ _ => [g]
  | .ite c a b => inter (daIs a ++ nilT c) (daIs b ++ nilF c)
  | _ => []
def daIs : List FI → List Nat
  | [] => []
  | i :: r => daI i ++ daIs r
end

mutual
/-- child fields formatted, or known absent, on every path through the instruction -/
def dakI : FI → List Nat
  | .accept f => [f]
  | .fmtList _ f _ => [f]
  | .stmts f => [f]
  | .each f _ _ => [f]
  | .sepLoop f _ _ _ _ _ => [f]
  | .ite c a b => inter (dakIs a ++ knilT c) (dakIs b ++ knilF c)
  | _ => []
def dakIs : List FI → List Nat
  | [] => []
  | i :: r => dakI i ++ dakIs r
end

/-- token field f needs nothing more: the method wrote it, or the node has no such token -/
def Done (orig : List (List Tok)) (w : List (Option (List Tok))) (f : Nat) : Prop :=
  (getOv w f).isSome ∨ fieldAt orig f = []

def DoneK (fns : List (List KFn)) (kw : List (Option (List Tree))) (f : Nat) : Prop :=
  (getOv kw f).isSome ∨ fieldAt fns f = []

theorem nil_sound (orig : List (List Tok)) (nn : List Bool) (fns : List (List KFn)) (n : NSt) (cd : FC) :
    (evalFC orig nn fns n cd = true → ∀ f ∈ nilT cd, Done orig n.w f) ∧
    (evalFC orig nn fns n cd = false → ∀ f ∈ nilF cd, Done orig n.w f) := by
  induction cd with
  | tokNil f =>
    constructor
    · intro h g hg
      have hg' : g = f := by simpa [nilT] using hg
      subst hg'
      simp only [evalFC, curToks] at h
      unfold Done
      cases hw : getOv n.w g with
      | some l => simp
      | none =>
        rw [hw] at h
        right
        simpa using h
    · intro _ g hg; simp [nilF] at hg
  | not c ih =>
    constructor
    · intro h g hg
      exact ih.2 (by simpa [evalFC] using h) g (by simpa [nilT] using hg)
    · intro h g hg
      exact ih.1 (by simpa [evalFC] using h) g (by simpa [nilF] using hg)
  | and a b iha ihb =>
    constructor
    · intro h g hg
      have h' : evalFC orig nn fns n a = true ∧ evalFC orig nn fns n b = true := by simpa [evalFC] using h
      have hg' : g ∈ nilT a ∨ g ∈ nilT b := by simpa [nilT] using hg
      cases hg' with
      | inl x => exact iha.1 h'.1 g x
      | inr x => exact ihb.1 h'.2 g x
    · intro h g hg
      have hg' : g ∈ nilF a ∧ g ∈ nilF b := by simpa [nilF, mem_inter] using hg
      cases ha : evalFC orig nn fns n a with
      | false => exact iha.2 ha g hg'.1
      | true =>
        have hb : evalFC orig nn fns n b = false := by simpa [evalFC, ha] using h
        exact ihb.2 hb g hg'.2
  | or a b iha ihb =>
    constructor
    · intro h g hg
      have hg' : g ∈ nilT a ∧ g ∈ nilT b := by simpa [nilT, mem_inter] using hg
      cases ha : evalFC orig nn fns n a with
      | true => exact iha.1 ha g hg'.1
      | false =>
        have hb : evalFC orig nn fns n b = true := by simpa [evalFC, ha] using h
        exact ihb.1 hb g hg'.2
    · intro h g hg
      have h' : evalFC orig nn fns n a = false ∧ evalFC orig nn fns n b = false := by simpa [evalFC] using h
      have hg' : g ∈ nilF a ∨ g ∈ nilF b := by simpa [nilF] using hg
      cases hg' with
      | inl x => exact iha.2 h'.1 g x
      | inr x => exact ihb.2 h'.2 g x
  | _ => constructor <;> intro _ g hg <;> simp [nilT, nilF] at hg

theorem knil_sound (orig : List (List Tok)) (nn : List Bool) (fns : List (List KFn)) (n : NSt) (cd : FC) :
    (evalFC orig nn fns n cd = true → ∀ f ∈ knilT cd, DoneK fns n.kw f) ∧
    (evalFC orig nn fns n cd = false → ∀ f ∈ knilF cd, DoneK fns n.kw f) := by
  induction cd with
  | kidNil f =>
    constructor
    · intro h g hg
      have hg' : g = f := by simpa [knilT] using hg
      subst hg'
      right
      simpa [evalFC] using h
    · intro _ g hg; simp [knilF] at hg
  | listNil f =>
    constructor
    · intro h g hg
      have hg' : g = f := by simpa [knilT] using hg
      subst hg'
      right
      have := h
      simp only [evalFC, Bool.and_eq_true] at this
      simpa using this.2
    · intro _ g hg; simp [knilF] at hg
  | not c ih =>
    constructor
    · intro h g hg
      exact ih.2 (by simpa [evalFC] using h) g (by simpa [knilT] using hg)
    · intro h g hg
      exact ih.1 (by simpa [evalFC] using h) g (by simpa [knilF] using hg)
  | and a b iha ihb =>
    constructor
    · intro h g hg
      have h' : evalFC orig nn fns n a = true ∧ evalFC orig nn fns n b = true := by simpa [evalFC] using h
      have hg' : g ∈ knilT a ∨ g ∈ knilT b := by simpa [knilT] using hg
      cases hg' with
      | inl x => exact iha.1 h'.1 g x
      | inr x => exact ihb.1 h'.2 g x
    · intro h g hg
      have hg' : g ∈ knilF a ∧ g ∈ knilF b := by simpa [knilF, mem_inter] using hg
      cases ha : evalFC orig nn fns n a with
      | false => exact iha.2 ha g hg'.1
      | true =>
        have hb : evalFC orig nn fns n b = false := by simpa [evalFC, ha] using h
        exact ihb.2 hb g hg'.2
  | or a b iha ihb =>
    constructor
    · intro h g hg
      have hg' : g ∈ knilT a ∧ g ∈ knilT b := by simpa [knilT, mem_inter] using hg
      cases ha : evalFC orig nn fns n a with
      | true => exact iha.1 ha g hg'.1
      | false =>
        have hb : evalFC orig nn fns n b = true := by simpa [evalFC, ha] using h
        exact ihb.1 hb g hg'.2
    · intro h g hg
      have h' : evalFC orig nn fns n a = false ∧ evalFC orig nn fns n b = false := by simpa [evalFC] using h
      have hg' : g ∈ knilF a ∨ g ∈ knilF b := by simpa [knilF] using hg
      cases hg' with
      | inl x => exact iha.2 h'.1 g x
      | inr x => exact ihb.2 h'.2 g x
  | _ => constructor <;> intro _ g hg <;> simp [knilT, knilF] at hg

/-! ### soundness of the analysis -/

def Grows {α} (w w' : List (Option α)) : Prop := ∀ g, (getOv w g).isSome → (getOv w' g).isSome

theorem Grows.refl {α} (w : List (Option α)) : Grows w w := fun _ h => h
theorem Grows.trans {α} {a b c : List (Option α)} (h1 : Grows a b) (h2 : Grows b c) : Grows a c := fun g h => h2 g (h1 g h)
theorem grows_setOv {α} (w : List (Option α)) (f : Nat) (v : α) : Grows w (setOv w f v) := fun g h => getOv_setOv_isSome w f g v h

theorem Done.mono {orig : List (List Tok)} {w w' f} (g : Grows w w') (h : Done orig w f) : Done orig w' f := by
  cases h with
  | inl h => exact Or.inl (g f h)
  | inr h => exact Or.inr h

theorem DoneK.mono {fns : List (List KFn)} {w w' f} (g : Grows w w') (h : DoneK fns w f) : DoneK fns w' f := by
  cases h with
  | inl h => exact Or.inl (g f h)
  | inr h => exact Or.inr h

/-- what running instructions does to the overlays: they only grow, and the fields in `dt` / `dk` are done -/
structure Eff (orig : List (List Tok)) (fns : List (List KFn)) (n n' : NSt) (dt dk : List Nat) : Prop where
  gw : Grows n.w n'.w
  gk : Grows n.kw n'.kw
  dt : ∀ f ∈ dt, Done orig n'.w f
  dk : ∀ f ∈ dk, DoneK fns n'.kw f

section eff
variable {orig : List (List Tok)} {fns : List (List KFn)}

theorem eff_none {n n' : NSt} (hw : n'.w = n.w) (hk : n'.kw = n.kw) : Eff orig fns n n' [] [] :=
  ⟨by rw [hw]; exact Grows.refl _, by rw [hk]; exact Grows.refl _, by simp, by simp⟩

theorem eff_tok {n n' : NSt} (f : Nat) (t : List Tok) (hw : n'.w = setOv n.w f t) (hk : n'.kw = n.kw) :
    Eff orig fns n n' [f] [] :=
  ⟨by rw [hw]; exact grows_setOv _ _ _, by rw [hk]; exact Grows.refl _,
   by intro g hg; have : g = f := by simpa using hg
      subst this; left; rw [hw, getOv_setOv_same]; rfl,
   by simp⟩

theorem eff_kid {n n' : NSt} (f : Nat) (hw : n'.w = n.w)
    (hk : (∃ ts, n'.kw = setOv n.kw f ts) ∨ (n'.kw = n.kw ∧ fieldAt fns f = [])) : Eff orig fns n n' [] [f] := by
  refine ⟨by rw [hw]; exact Grows.refl _, ?_, by simp, ?_⟩
  · cases hk with
    | inl h => obtain ⟨ts, h⟩ := h; rw [h]; exact grows_setOv _ _ _
    | inr h => rw [h.1]; exact Grows.refl _
  · intro g hg
    have : g = f := by simpa using hg
    subst this
    cases hk with
    | inl h => obtain ⟨ts, h⟩ := h; left; rw [h, getOv_setOv_same]; rfl
    | inr h => right; exact h.2

theorem eff_both {n n' : NSt} (g f : Nat) (t : List Tok) (hw : n'.w = setOv n.w g t)
    (hk : (∃ ts, n'.kw = setOv n.kw f ts) ∨ (n'.kw = n.kw ∧ fieldAt fns f = [])) : Eff orig fns n n' [g] [f] := by
  refine ⟨by rw [hw]; exact grows_setOv _ _ _, ?_, ?_, ?_⟩
  · cases hk with
    | inl h => obtain ⟨ts, h⟩ := h; rw [h]; exact grows_setOv _ _ _
    | inr h => rw [h.1]; exact Grows.refl _
  · intro x hx
    have : x = g := by simpa using hx
    subst this; left; rw [hw, getOv_setOv_same]; rfl
  · intro x hx
    have : x = f := by simpa using hx
    subst this
    cases hk with
    | inl h => obtain ⟨ts, h⟩ := h; left; rw [h, getOv_setOv_same]; rfl
    | inr h => right; exact h.2

theorem Eff.seq {n n1 n' : NSt} {a b ka kb : List Nat} (h1 : Eff orig fns n n1 a ka) (h2 : Eff orig fns n1 n' b kb) :
    Eff orig fns n n' (a ++ b) (ka ++ kb) := by
  refine ⟨h1.gw.trans h2.gw, h1.gk.trans h2.gk, ?_, ?_⟩
  · intro f hf
    cases List.mem_append.mp hf with
    | inl h => exact (h1.dt f h).mono h2.gw
    | inr h => exact h2.dt f h
  · intro f hf
    cases List.mem_append.mp hf with
    | inl h => exact (h1.dk f h).mono h2.gk
    | inr h => exact h2.dk f h

end eff

mutual
theorem execI_eff (c : FCfg) (orig : List (List Tok)) (vals : List (Option Bytes)) (nn : List Bool) (fns : List (List KFn)) :
    ∀ (i : FI) (n n' : NSt), execI c orig vals nn fns i n = some n' → Eff orig fns n n' (daI i) (dakI i)
  | .newTok f id lit, n, n', h => by
    simp only [execI] at h; cases h; simp only [daI, dakI]; exact eff_tok f _ rfl rfl
  | .newTokVal f id g, n, n', h => by
    simp only [execI] at h; cases h; simp only [daI, dakI]; exact eff_tok f _ rfl rfl
  | .newTokReg f id r, n, n', h => by
    simp only [execI] at h; cases h; simp only [daI, dakI]; exact eff_tok f _ rfl rfl
  | .setFlag i cd, n, n', h => by
    simp only [execI] at h; cases h; simp only [daI, dakI]; exact eff_none rfl rfl
  | .setReg r lit, n, n', h => by
    simp only [execI] at h; cases h; simp only [daI, dakI]; exact eff_none rfl rfl
  | .setRegLabel r f, n, n', h => by
    simp only [execI] at h; cases h; simp only [daI, dakI]; exact eff_none rfl rfl
  | .setRegOpener r r2 nd, n, n', h => by
    simp only [execI] at h; cases h; simp only [daI, dakI]; exact eff_none rfl rfl
  | .clear f, n, n', h => by
    simp only [execI] at h; cases h; simp only [daI, dakI]; exact eff_tok f _ rfl rfl
  | .ws id lit, n, n', h => by
    simp only [execI] at h; cases h; simp only [daI, dakI]; exact eff_none rfl rfl
  | .indent up, n, n', h => by
    simp only [execI] at h; cases h; simp only [daI, dakI]; exact eff_none rfl rfl
  | .setHtml, n, n', h => by
    simp only [execI] at h; cases h; simp only [daI, dakI]; exact eff_none rfl rfl
  | .addIndent, n, n', h => by
    simp only [execI] at h; cases h; simp only [daI, dakI]; exact eff_none rfl rfl
  | .accept f, n, n', h => by
    simp only [execI] at h
    simp only [daI, dakI]
    split at h
    · split at h
      · cases h
      · cases h; exact eff_kid f rfl (Or.inl ⟨_, rfl⟩)
    · cases h
  | .setFF f, n, n', h => by
    simp only [execI] at h
    simp only [daI, dakI]
    split at h
    · cases h; exact eff_tok f _ rfl rfl
    · cases h
  | .semi f, n, n', h => by
    simp only [execI] at h; cases h; simp only [daI, dakI]; exact eff_tok f _ rfl rfl
  | .fmtList g f sep, n, n', h => by
    simp only [execI] at h
    split at h
    · cases h
    · rename_i ts tks s _
      cases h
      by_cases he : (fieldAt fns f).isEmpty = true
      · have he' : fieldAt fns f = [] := by simpa using he
        cases g with
        | none => simp only [daI, dakI, he]; exact eff_kid f (by simp) (Or.inr ⟨by simp, he'⟩)
        | some g => simp only [daI, dakI]; exact eff_both g f tks (by simp [he, NSt.setTok]) (Or.inr ⟨by simp [he, NSt.setTok], he'⟩)
      · cases g with
        | none => simp only [daI, dakI]; exact eff_kid f (by simp [he]) (Or.inl ⟨ts, by simp [he]⟩)
        | some g => simp only [daI, dakI]; exact eff_both g f tks (by simp [he, NSt.setTok]) (Or.inl ⟨ts, by simp [he, NSt.setTok]⟩)
  | .stmts f, n, n', h => by
    simp only [execI] at h
    simp only [daI, dakI]
    split at h
    · cases h
    · rename_i ts s _
      cases h
      by_cases he : (fieldAt fns f).isEmpty = true
      · exact eff_kid f (by simp [he]) (Or.inr ⟨by simp [he], by simpa using he⟩)
      · exact eff_kid f (by simp [he]) (Or.inl ⟨ts, by simp [he]⟩)
  | .each f pre post, n, n', h => by
    simp only [execI] at h
    simp only [daI, dakI]
    split at h
    · cases h
    · rename_i ts s _
      cases h
      by_cases he : (fieldAt fns f).isEmpty = true
      · exact eff_kid f (by simp [he]) (Or.inr ⟨by simp [he], by simpa using he⟩)
      · exact eff_kid f (by simp [he]) (Or.inl ⟨ts, by simp [he]⟩)
  | .sepLoop f g pre id lit post, n, n', h => by
    simp only [execI] at h
    simp only [daI, dakI]
    split at h
    · cases h
    · split at h
      · cases h
      · rename_i ts tks s _
        cases h
        exact eff_both g f tks rfl (Or.inl ⟨ts, rfl⟩)
  | .haltTail f id, n, n', h => by
    simp only [execI] at h
    simp only [daI, dakI]
    split at h
    · cases h; exact eff_tok f _ rfl rfl
    · rename_i hc
      cases h
      refine ⟨Grows.refl _, Grows.refl _, ?_, by simp⟩
      intro x hx
      have : x = f := by simpa using hx
      subst this
      unfold curToks at hc
      unfold Done
      cases hw : getOv n.w x with
      | some l => simp
      | none => rw [hw] at hc; right; exact hc
  | .ite cd a b, n, n', h => by
    simp only [execI] at h
    simp only [daI, dakI]
    split at h
    · rename_i hc
      have ih := execIs_eff c orig vals nn fns a n n' h
      refine ⟨ih.gw, ih.gk, ?_, ?_⟩
      · intro f hf
        have hf' := (mem_inter.mp hf).1
        cases List.mem_append.mp hf' with
        | inl x => exact ih.dt f x
        | inr x => exact ((nil_sound orig nn fns n cd).1 hc f x).mono ih.gw
      · intro f hf
        have hf' := (mem_inter.mp hf).1
        cases List.mem_append.mp hf' with
        | inl x => exact ih.dk f x
        | inr x => exact ((knil_sound orig nn fns n cd).1 hc f x).mono ih.gk
    · rename_i hc
      have hc' : evalFC orig nn fns n cd = false := by simpa using hc
      have ih := execIs_eff c orig vals nn fns b n n' h
      refine ⟨ih.gw, ih.gk, ?_, ?_⟩
      · intro f hf
        have hf' := (mem_inter.mp hf).2
        cases List.mem_append.mp hf' with
        | inl x => exact ih.dt f x
        | inr x => exact ((nil_sound orig nn fns n cd).2 hc' f x).mono ih.gw
      · intro f hf
        have hf' := (mem_inter.mp hf).2
        cases List.mem_append.mp hf' with
        | inl x => exact ih.dk f x
        | inr x => exact ((knil_sound orig nn fns n cd).2 hc' f x).mono ih.gk
theorem execIs_eff (c : FCfg) (orig : List (List Tok)) (vals : List (Option Bytes)) (nn : List Bool) (fns : List (List KFn)) :
    ∀ (is : List FI) (n n' : NSt), execIs c orig vals nn fns is n = some n' → Eff orig fns n n' (daIs is) (dakIs is)
  | [], n, n', h => by
    simp only [execIs] at h; cases h; simp only [daIs, dakIs]; exact eff_none rfl rfl
  | i :: r, n, n', h => by
    simp only [execIs] at h
    simp only [daIs, dakIs]
    split at h
    · cases h
    · rename_i n1 h1
      exact (execI_eff c orig vals nn fns i n n1 h1).seq (execIs_eff c orig vals nn fns r n1 n' h)
end

/-! ### merging the overlay back -/

theorem mergeToks_congr : ∀ (orig orig' : List (List Tok)) (w : List (Option (List Tok))), orig'.length = orig.length →
    (∀ f, (getOv w f).isSome ∨ (fieldAt orig' f).map bareTok = (fieldAt orig f).map bareTok) →
    mergeToks orig' w = mergeToks orig w
  | [], [], _, _, _ => by simp [mergeToks]
  | [], _ :: _, _, hl, _ => by simp at hl
  | _ :: _, [], _, hl, _ => by simp at hl
  | o :: r, o' :: r', w, hl, h => by
    have hl' : r'.length = r.length := by simpa using hl
    have h0 := h 0
    cases w with
    | nil =>
      have ih := mergeToks_congr r r' [] hl' (fun f => by simpa [getOv, fieldAt] using h (f + 1))
      have : o'.map bareTok = o.map bareTok := by simpa [getOv, fieldAt] using h0
      simp [mergeToks, ih, this]
    | cons x w =>
      have ih := mergeToks_congr r r' w hl' (fun f => by simpa [getOv, fieldAt] using h (f + 1))
      cases x with
      | none =>
        have : o'.map bareTok = o.map bareTok := by simpa [getOv, fieldAt] using h0
        simp [mergeToks, ih, this]
      | some l => simp [mergeToks, ih]

theorem mergeKids_congr : ∀ (orig orig' : List (List Tree)) (w : List (Option (List Tree))), orig'.length = orig.length →
    (∀ f, (getOv w f).isSome ∨ fieldAt orig' f = fieldAt orig f) →
    mergeKids orig' w = mergeKids orig w
  | [], [], _, _, _ => by simp [mergeKids]
  | [], _ :: _, _, hl, _ => by simp at hl
  | _ :: _, [], _, hl, _ => by simp at hl
  | o :: r, o' :: r', w, hl, h => by
    have hl' : r'.length = r.length := by simpa using hl
    have h0 := h 0
    cases w with
    | nil =>
      have ih := mergeKids_congr r r' [] hl' (fun f => by simpa [getOv, fieldAt] using h (f + 1))
      have : o' = o := by simpa [getOv, fieldAt] using h0
      simp [mergeKids, ih, this]
    | cons x w =>
      have ih := mergeKids_congr r r' w hl' (fun f => by simpa [getOv, fieldAt] using h (f + 1))
      cases x with
      | none =>
        have : o' = o := by simpa [getOv, fieldAt] using h0
        simp [mergeKids, ih, this]
      | some l => simp [mergeKids, ih]

theorem skelSlots_field (h : Nat) (dT dK : Nat → List Nat) (d : List Nat) (i : Nat) (kids : List (List Tree)) (f : Nat) :
    fieldAt (skelSlots h dT dK d i kids) f
      = if d.contains (i + f) then skelForest h dT dK (fieldAt kids f) else fieldAt kids f := by
  induction kids generalizing i f with
  | nil => simp [skelSlots, fieldAt, skelForest]
  | cons x r ih =>
    cases f with
    | zero => simp [skelSlots, fieldAt]
    | succ f =>
      have := ih (i + 1) f
      have e : i + 1 + f = i + (f + 1) := by omega
      simp only [fieldAt, skelSlots, List.getElem?_cons_succ] at this ⊢
      rw [this, e]

theorem skelSlots_length (h : Nat) (dT dK : Nat → List Nat) (d : List Nat) (i : Nat) (kids : List (List Tree)) :
    (skelSlots h dT dK d i kids).length = kids.length := by
  induction kids generalizing i with
  | nil => rfl
  | cons x r ih => simp [skelSlots, ih]

theorem skel_kind (h : Nat) (dT dK : Nat → List Nat) (t : Tree) : (skel h dT dK t).kind = t.kind := by
  cases t; simp [skel, Tree.kind]

/-! ### the formatter cannot tell a tree from its skeleton -/

section main
variable (c : FCfg) (h : Nat) (dT dK : Nat → List Nat)
variable (hT : ∀ k f, f ∈ dT k → f ∈ daIs (c.prog k))
variable (hK : ∀ k f, f ∈ dK k → f ∈ dakIs (c.prog k))
variable (hh : ∀ k, haltOKIs h (c.prog k) = true)
include hT hK hh

mutual
theorem fmtTree_skel : ∀ (t : Tree) (s : FSt), fmtTree c (skel h dT dK t) s = fmtTree c t s
  | .mk k u p toks vals kids nn, s => by
    have hs : fmtSlots c (skelSlots h dT dK (dK k) 0 kids) = fmtSlots c kids := fmtSlots_skel kids (dK k) 0
    simp only [skel, fmtTree, hs]
    rw [execIs_skel (skelFields_rel h (dT k) toks) c vals nn (fmtSlots c kids) (c.prog k) _ (hh k)]
    cases hx : execIs c toks vals nn (fmtSlots c kids) (c.prog k) { st := s } with
    | none => rfl
    | some n =>
      have eff := execIs_eff c toks vals nn (fmtSlots c kids) (c.prog k) _ n hx
      have e1 : mergeToks (skelFields h (dT k) 0 toks) n.w = mergeToks toks n.w := by
        apply mergeToks_congr _ _ _ (skelFields_length h (dT k) 0 toks)
        intro f
        rw [skelFields_rel h (dT k) toks f]
        by_cases hf : f ∈ dT k
        · cases eff.dt f (hT k f hf) with
          | inl x => exact Or.inl x
          | inr x => right; rw [x]; rfl
        · right
          have : (!(dT k).contains f) = true := by simpa using hf
          rw [this]
          simp [Function.comp_def, bareTok_skel_keep]
      have e2 : mergeKids (skelSlots h dT dK (dK k) 0 kids) n.kw = mergeKids kids n.kw := by
        apply mergeKids_congr _ _ _ (skelSlots_length h dT dK (dK k) 0 kids)
        intro f
        rw [skelSlots_field]
        by_cases hf : f ∈ dK k
        · cases eff.dk f (hK k f hf) with
          | inl x => exact Or.inl x
          | inr x =>
            right
            have : fieldAt kids f = [] := by
              rw [fmtSlots_field] at x
              exact (fmtForest_eq_nil c _).mp x
            simp [this, skelForest]
        · right
          simp [hf]
      simp [e1, e2]
theorem fmtSlots_skel : ∀ (kids : List (List Tree)) (d : List Nat) (i : Nat),
    fmtSlots c (skelSlots h dT dK d i kids) = fmtSlots c kids
  | [], _, _ => by simp [skelSlots]
  | f :: fs, d, i => by
    simp only [skelSlots, fmtSlots, fmtSlots_skel fs d (i + 1)]
    split
    · rw [fmtForest_skel f]
    · rfl
theorem fmtForest_skel : ∀ (ts : List Tree), fmtForest c (skelForest h dT dK ts) = fmtForest c ts
  | [] => by simp [skelForest]
  | t :: ts => by
    simp only [skelForest, fmtForest, fmtForest_skel ts, skel_kind]
    have : fmtTree c (skel h dT dK t) = fmtTree c t := funext (fmtTree_skel t)
    rw [this]
end
end main

end PhpVerif.Fmt

/-! ### formatting keeps the nodes: kinds, values and children of the formatted tree are those of the tree -/
namespace PhpVerif.Fmt
open PhpVerif

mutual
/-- the program without its tokens: kind, byte values, children, which slices are non-nil -/
def shape : Tree → Tree
  | .mk k _ _ _ vals kids nn => .mk k 0 none [] vals (shapeSlots kids) nn
def shapeSlots : List (List Tree) → List (List Tree)
  | [] => []
  | f :: fs => shapeForest f :: shapeSlots fs
def shapeForest : List Tree → List Tree
  | [] => []
  | t :: ts => shape t :: shapeForest ts
end

mutual
/-- no node of kind h (inline HTML) anywhere -/
def noKind (h : Nat) : Tree → Bool
  | .mk k _ _ _ _ kids _ => k != h && noKindSlots h kids
def noKindSlots (h : Nat) : List (List Tree) → Bool
  | [] => true
  | f :: fs => noKindForest h f && noKindSlots h fs
def noKindForest (h : Nat) : List Tree → Bool
  | [] => true
  | t :: ts => noKind h t && noKindForest h ts
end

theorem shapeSlots_field (kids : List (List Tree)) (f : Nat) :
    fieldAt (shapeSlots kids) f = shapeForest (fieldAt kids f) := by
  induction kids generalizing f with
  | nil => simp [shapeSlots, fieldAt, shapeForest]
  | cons x xs ih =>
    cases f with
    | zero => simp [shapeSlots, fieldAt]
    | succ f => simpa [shapeSlots, fieldAt] using ih f

theorem noKindSlots_field (h : Nat) (kids : List (List Tree)) (f : Nat) (hk : noKindSlots h kids = true) :
    noKindForest h (fieldAt kids f) = true := by
  induction kids generalizing f with
  | nil => simp [fieldAt, noKindForest]
  | cons x xs ih =>
    simp only [noKindSlots, Bool.and_eq_true] at hk
    cases f with
    | zero => simpa [fieldAt] using hk.1
    | succ f => simpa [fieldAt] using ih f hk.2

/-- a list of child formatters that keep the shape of the children `ts` they stand for -/
def KeepShape (c : FCfg) (ts : List Tree) (fns : List KFn) : Prop :=
  fns = fmtForest c ts ∧ noKindForest c.htmlKind ts = true ∧
  ∀ t ∈ ts, ∀ s t' s', fmtTree c t s = some (t', s') → shape t' = shape t

theorem acceptAll_shape (c : FCfg) (pre post : List Ws) : ∀ (ts : List Tree) (s : FSt) (out : List Tree) (s' : FSt),
    (∀ t ∈ ts, ∀ s t' s', fmtTree c t s = some (t', s') → shape t' = shape t) →
    acceptAll pre post (fmtForest c ts) s = some (out, s') → shapeForest out = shapeForest ts
  | [], s, out, s', _, h => by simp [fmtForest, acceptAll] at h; rw [h.1]
  | t :: ts, s, out, s', hk, h => by
    simp only [fmtForest, acceptAll] at h
    split at h
    · cases h
    · rename_i t1 s1 h1
      split at h
      · cases h
      · rename_i ts1 s2 h2
        cases h
        have e1 := hk t (List.mem_cons_self) _ _ _ h1
        have e2 := acceptAll_shape c pre post ts _ _ _ (fun x hx => hk x (List.mem_cons_of_mem _ hx)) h2
        simp [shapeForest, e1, e2]

theorem sepAll_shape (c : FCfg) (pre : List Ws) (id : Nat) (lit : List Nat) (post : List Ws) :
    ∀ (ts : List Tree) (s : FSt) (out : List Tree) (tks : List Tok) (s' : FSt),
    (∀ t ∈ ts, ∀ s t' s', fmtTree c t s = some (t', s') → shape t' = shape t) →
    sepAll c pre id lit post (fmtForest c ts) s = some (out, tks, s') → shapeForest out = shapeForest ts
  | [], s, out, tks, s', _, h => by simp [fmtForest, sepAll] at h; rw [h.1]
  | [t], s, out, tks, s', hk, h => by
    simp only [fmtForest, sepAll] at h
    split at h
    · cases h
    · rename_i t1 s1 h1
      cases h
      simp [shapeForest, hk t (List.mem_cons_self) _ _ _ h1]
  | t :: u :: ts, s, out, tks, s', hk, h => by
    simp only [fmtForest, sepAll] at h
    split at h
    · cases h
    · rename_i t1 s1 h1
      split at h
      · cases h
      · rename_i ts1 tks1 s3 h2
        cases h
        have e1 := hk t (List.mem_cons_self) _ _ _ h1
        have e2 := sepAll_shape c pre id lit post (u :: ts) _ _ _ _ (fun x hx => hk x (List.mem_cons_of_mem _ hx))
          (by simpa [fmtForest] using h2)
        simp only [shapeForest] at e2 ⊢
        rw [e1, e2]

theorem stmtsAll_shape (c : FCfg) : ∀ (ts : List Tree) (s : FSt) (out : List Tree) (s' : FSt),
    noKindForest c.htmlKind ts = true →
    (∀ t ∈ ts, ∀ s t' s', fmtTree c t s = some (t', s') → shape t' = shape t) →
    stmtsAll c (fmtForest c ts) s = some (out, s') → shapeForest out = shapeForest ts
  | [], s, out, s', _, _, h => by simp [fmtForest, stmtsAll] at h; rw [h.1]
  | t :: ts, s, out, s', hn, hk, h => by
    simp only [noKindForest, Bool.and_eq_true] at hn
    have hkind : (t.kind == c.htmlKind) = false := by
      cases t with
      | mk k u p toks vals kids nn =>
        have := hn.1
        simp only [noKind, Bool.and_eq_true, bne_iff_ne, ne_eq] at this
        simpa [Tree.kind] using this.1
    simp only [fmtForest, stmtsAll, hkind] at h
    simp only [Bool.false_eq_true, if_false] at h
    split at h
    · cases h
    · rename_i t1 s1 h1
      split at h
      · cases h
      · rename_i ts1 s2 h2
        cases h
        have e1 := hk t (List.mem_cons_self) _ _ _ h1
        have e2 := stmtsAll_shape c ts _ _ _ hn.2 (fun x hx => hk x (List.mem_cons_of_mem _ hx)) h2
        simp [shapeForest, e1, e2]

end PhpVerif.Fmt

namespace PhpVerif.Fmt
open PhpVerif

theorem getOv_setOv_other {α} (l : List (Option α)) (f g : Nat) (v : α) (h : f ≠ g) : getOv (setOv l f v) g = getOv l g := by
  induction l generalizing f g with
  | nil =>
    induction f generalizing g with
    | zero =>
      cases g with
      | zero => exact absurd rfl h
      | succ g => simp [setOv, getOv]
    | succ f ih =>
      cases g with
      | zero => simp [setOv, getOv]
      | succ g =>
        have := ih g (by omega)
        simpa [setOv, getOv] using this
  | cons x r ih =>
    cases f with
    | zero =>
      cases g with
      | zero => exact absurd rfl h
      | succ g => simp [setOv, getOv]
    | succ f =>
      cases g with
      | zero => simp [setOv, getOv]
      | succ g =>
        have := ih f g (by omega)
        simpa [setOv, getOv] using this

mutual
/-- the child fields an instruction list visits with `n.F.Accept(f)` (single-child fields) -/
def acceptsI : FI → List Nat
  | .accept f => [f]
  | .ite _ a b => acceptsIs a ++ acceptsIs b
  | _ => []
def acceptsIs : List FI → List Nat
  | [] => []
  | i :: r => acceptsI i ++ acceptsIs r
end

/-- what has been formatted so far has the shape of the children it replaces -/
def KwOK (kids : List (List Tree)) (kw : List (Option (List Tree))) : Prop :=
  ∀ f l, getOv kw f = some l → shapeForest l = shapeForest (fieldAt kids f)

theorem KwOK.set {kids kw} (h : KwOK kids kw) (f : Nat) (l : List Tree) (hl : shapeForest l = shapeForest (fieldAt kids f)) :
    KwOK kids (setOv kw f l) := by
  intro g l' hg
  by_cases hfg : f = g
  · subst hfg
    rw [getOv_setOv_same] at hg
    cases hg
    exact hl
  · rw [getOv_setOv_other _ _ _ _ hfg] at hg
    exact h g l' hg

section shapeExec
variable (c : FCfg) (orig : List (List Tok)) (vals : List (Option Bytes)) (nn : List Bool) (kids : List (List Tree))
variable (hk : ∀ f, ∀ t ∈ fieldAt kids f, ∀ s t' s', fmtTree c t s = some (t', s') → shape t' = shape t)
variable (hn : noKindSlots c.htmlKind kids = true)
include hk hn

mutual
theorem execI_kw : ∀ (i : FI) (n n' : NSt), (∀ f ∈ acceptsI i, (fieldAt kids f).length ≤ 1) →
    execI c orig vals nn (fmtSlots c kids) i n = some n' → KwOK kids n.kw → KwOK kids n'.kw
  | .newTok .., n, n', _, h, hi => by simp only [execI] at h; cases h; exact hi
  | .newTokVal .., n, n', _, h, hi => by simp only [execI] at h; cases h; exact hi
  | .newTokReg .., n, n', _, h, hi => by simp only [execI] at h; cases h; exact hi
  | .setFlag .., n, n', _, h, hi => by simp only [execI] at h; cases h; exact hi
  | .setReg .., n, n', _, h, hi => by simp only [execI] at h; cases h; exact hi
  | .setRegLabel .., n, n', _, h, hi => by simp only [execI] at h; cases h; exact hi
  | .setRegOpener .., n, n', _, h, hi => by simp only [execI] at h; cases h; exact hi
  | .clear .., n, n', _, h, hi => by simp only [execI] at h; cases h; exact hi
  | .ws .., n, n', _, h, hi => by simp only [execI] at h; cases h; exact hi
  | .indent .., n, n', _, h, hi => by simp only [execI] at h; cases h; exact hi
  | .setHtml, n, n', _, h, hi => by simp only [execI] at h; cases h; exact hi
  | .addIndent, n, n', _, h, hi => by simp only [execI] at h; cases h; exact hi
  | .semi .., n, n', _, h, hi => by simp only [execI] at h; cases h; exact hi
  | .setFF f, n, n', _, h, hi => by
    simp only [execI] at h
    split at h
    · cases h; exact hi
    · cases h
  | .haltTail f id, n, n', _, h, hi => by
    simp only [execI] at h
    split at h
    · cases h; exact hi
    · cases h; exact hi
  | .accept f, n, n', hs, h, hi => by
    simp only [execI, fmtSlots_field] at h
    have hlen := hs f (by simp [acceptsI])
    cases hkf : fieldAt kids f with
    | nil => rw [hkf] at h; simp [fmtForest] at h
    | cons t rest =>
      have hrest : rest = [] := by
        rw [hkf] at hlen
        cases rest with
        | nil => rfl
        | cons a b => simp at hlen
      subst hrest
      rw [hkf] at h
      simp only [fmtForest] at h
      split at h
      · cases h
      · rename_i t1 s1 h1
        cases h
        apply hi.set
        rw [hkf]
        simp [shapeForest, hk f t (by rw [hkf]; simp) _ _ _ h1]
  | .fmtList g f sep, n, n', _, h, hi => by
    simp only [execI, fmtSlots_field] at h
    split at h
    · cases h
    · rename_i ts tks s hsep
      cases h
      have hsh := sepAll_shape c [] sep [sep] [(c.tWs, [32])] (fieldAt kids f) _ ts tks s (hk f) hsep
      by_cases he : (fmtForest c (fieldAt kids f)).isEmpty = true
      · cases g <;> simpa [he, NSt.setTok] using hi
      · cases g <;> simpa [he, NSt.setTok] using hi.set f ts hsh
  | .stmts f, n, n', _, h, hi => by
    simp only [execI, fmtSlots_field] at h
    split at h
    · cases h
    · rename_i ts s hst
      cases h
      have hsh := stmtsAll_shape c (fieldAt kids f) _ ts s (noKindSlots_field _ kids f hn) (hk f) hst
      by_cases he : (fmtForest c (fieldAt kids f)).isEmpty = true
      · simpa [he] using hi
      · simpa [he] using hi.set f ts hsh
  | .each f pre post, n, n', _, h, hi => by
    simp only [execI, fmtSlots_field] at h
    split at h
    · cases h
    · rename_i ts s hac
      cases h
      have hsh := acceptAll_shape c pre post (fieldAt kids f) _ ts s (hk f) hac
      by_cases he : (fmtForest c (fieldAt kids f)).isEmpty = true
      · simpa [he] using hi
      · simpa [he] using hi.set f ts hsh
  | .sepLoop f g pre id lit post, n, n', _, h, hi => by
    simp only [execI, fmtSlots_field] at h
    split at h
    · cases h
    · split at h
      · cases h
      · rename_i ts tks s hsep
        cases h
        have hsh := sepAll_shape c pre id lit post (fieldAt kids f) _ ts tks s (hk f) hsep
        simpa [NSt.setTok] using hi.set f ts hsh
  | .ite cd a b, n, n', hs, h, hi => by
    simp only [execI] at h
    have hsa : ∀ f ∈ acceptsIs a, (fieldAt kids f).length ≤ 1 := fun f hf => hs f (by simp [acceptsI, hf])
    have hsb : ∀ f ∈ acceptsIs b, (fieldAt kids f).length ≤ 1 := fun f hf => hs f (by simp [acceptsI, hf])
    split at h
    · exact execIs_kw a n n' hsa h hi
    · exact execIs_kw b n n' hsb h hi
theorem execIs_kw : ∀ (is : List FI) (n n' : NSt), (∀ f ∈ acceptsIs is, (fieldAt kids f).length ≤ 1) →
    execIs c orig vals nn (fmtSlots c kids) is n = some n' → KwOK kids n.kw → KwOK kids n'.kw
  | [], n, n', _, h, hi => by simp only [execIs] at h; cases h; exact hi
  | i :: r, n, n', hs, h, hi => by
    simp only [execIs] at h
    split at h
    · cases h
    · rename_i n1 h1
      have hsi : ∀ f ∈ acceptsI i, (fieldAt kids f).length ≤ 1 := fun f hf => hs f (by simp [acceptsIs, hf])
      have hsr : ∀ f ∈ acceptsIs r, (fieldAt kids f).length ≤ 1 := fun f hf => hs f (by simp [acceptsIs, hf])
      exact execIs_kw r n1 n' hsr h (execI_kw i n n1 hsi h1 hi)
end
end shapeExec

theorem mergeKids_shape : ∀ (kids : List (List Tree)) (kw : List (Option (List Tree))), KwOK kids kw →
    shapeSlots (mergeKids kids kw) = shapeSlots kids
  | [], _, _ => by simp [mergeKids, shapeSlots]
  | o :: r, [], _ => by
    have := mergeKids_shape r [] (by intro f l h; simp [getOv] at h)
    simp [mergeKids, shapeSlots, this]
  | o :: r, none :: w, h => by
    have := mergeKids_shape r w (by intro f l hf; simpa [fieldAt] using h (f + 1) l (by simpa [getOv] using hf))
    simp [mergeKids, shapeSlots, this]
  | o :: r, some l :: w, h => by
    have h0 := h 0 l (by simp [getOv])
    have := mergeKids_shape r w (by intro f l' hf; simpa [fieldAt] using h (f + 1) l' (by simpa [getOv] using hf))
    simp only [fieldAt, List.getElem?_cons_zero, Option.getD_some] at h0
    simp [mergeKids, shapeSlots, this, h0]

end PhpVerif.Fmt

namespace PhpVerif.Fmt
open PhpVerif

/-- every `n.F.Accept(f)` of the instruction lists is on a single-child field of the schema -/
def AccSingle (c : FCfg) (sch : Nat → List Nat) : Prop :=
  ∀ k, ∀ f ∈ acceptsIs (c.prog k), ((sch k)[f]?).getD 0 = 3

def ShapeKept (c : FCfg) (t : Tree) : Prop := ∀ s t' s', fmtTree c t s = some (t', s') → shape t' = shape t

theorem fieldAt_len_of_kidsOK {sorts : List Nat} {kids : List (List Tree)} (h : kidsOK sorts kids) (f : Nat)
    (hs : (sorts[f]?).getD 0 = 3) : (fieldAt kids f).length ≤ 1 := by
  by_cases hf : f < kids.length
  · exact h.2 f hf hs
  · have : kids[f]? = none := by simp; omega
    simp [fieldAt, this]

section shapeTree
variable (c : FCfg) (sch : Nat → List Nat) (hacc : AccSingle c sch)
include hacc

mutual
theorem fmtTree_shape : ∀ t : Tree, t.WF sch → noKind c.htmlKind t = true → ShapeKept c t
  | .mk k u p toks vals kids nn, hw, hno => by
    intro s t' s' h
    obtain ⟨_, _, _, _, hko, hws⟩ := hw
    simp only [noKind, Bool.and_eq_true] at hno
    have hk := fmtSlots_shape kids hws hno.2
    simp only [fmtTree] at h
    split at h
    · cases h
    · rename_i n hx
      cases h
      have hs : ∀ f ∈ acceptsIs (c.prog k), (fieldAt kids f).length ≤ 1 :=
        fun f hf => fieldAt_len_of_kidsOK hko f (hacc k f hf)
      have hkw := execIs_kw c toks vals nn kids hk hno.2 (c.prog k) _ n hs hx
        (by intro f l hf; simp [getOv] at hf)
      simp [shape, mergeKids_shape kids n.kw hkw]
theorem fmtSlots_shape : ∀ kids : List (List Tree), wfSlots sch kids → noKindSlots c.htmlKind kids = true →
    ∀ f, ∀ t ∈ fieldAt kids f, ShapeKept c t
  | [], _, _ => by intro f t ht; simp [fieldAt] at ht
  | x :: xs, hw, hno => by
    intro f t ht
    simp only [noKindSlots, Bool.and_eq_true] at hno
    cases f with
    | zero => exact fmtForest_shape x hw.1 hno.1 t (by simpa [fieldAt] using ht)
    | succ f => exact fmtSlots_shape xs hw.2 hno.2 f t (by simpa [fieldAt] using ht)
theorem fmtForest_shape : ∀ ts : List Tree, wfForest sch ts → noKindForest c.htmlKind ts = true →
    ∀ t ∈ ts, ShapeKept c t
  | [], _, _ => by intro t ht; simp at ht
  | x :: xs, hw, hno => by
    intro t ht
    simp only [noKindForest, Bool.and_eq_true] at hno
    cases List.mem_cons.mp ht with
    | inl e => rw [e]; exact fmtTree_shape x hw.1 hno.1
    | inr e => exact fmtForest_shape xs hw.2 hno.2 t e
end
end shapeTree

end PhpVerif.Fmt

/-! ### what the formatter writes carries only trivia of its own making -/
namespace PhpVerif.Fmt
open PhpVerif

/-- a free-floating entry the formatter makes itself (blank / newline / indentation, `<?php `) or keeps on
    purpose (the halt-compiler tail) -/
def OwnFF (c : FCfg) (h : Nat) (x : FF) : Prop := x.id = c.tWs ∨ x.id = c.tOpenTag ∨ x.id = h

def OwnTok (c : FCfg) (h : Nat) (t : Tok) : Prop := ∀ x ∈ t.ff, OwnFF c h x

/-- the pending list holds only entries of the formatter's own -/
def StOwn (c : FCfg) (h : Nat) (s : FSt) : Prop := ∀ x ∈ s.ff, OwnFF c h x

mutual
/-- every `addFreeFloating` of the instructions queues a T_WHITESPACE entry; every halt filter keeps id h -/
def wsOKI (c : FCfg) (h : Nat) : FI → Bool
  | .ws id _ => id == c.tWs
  | .each _ pre post => pre.all (fun w => w.1 == c.tWs) && post.all (fun w => w.1 == c.tWs)
  | .sepLoop _ _ pre _ _ post => pre.all (fun w => w.1 == c.tWs) && post.all (fun w => w.1 == c.tWs)
  | .haltTail _ id => id == h
  | .ite _ a b => wsOKIs c h a && wsOKIs c h b
  | _ => true
def wsOKIs (c : FCfg) (h : Nat) : List FI → Bool
  | [] => true
  | i :: r => wsOKI c h i && wsOKIs c h r
end

theorem StOwn.addWs {c : FCfg} {h : Nat} {s : FSt} (hs : StOwn c h s) (lit : List Nat) : StOwn c h (s.addWs c.tWs lit) := by
  intro x hx
  simp only [FSt.addWs, List.mem_append, List.mem_singleton] at hx
  cases hx with
  | inl a => exact hs x a
  | inr a => subst a; exact Or.inl rfl

theorem StOwn.addWss {c : FCfg} {h : Nat} : ∀ (l : List Ws) {s : FSt}, StOwn c h s → l.all (fun w => w.1 == c.tWs) = true →
    StOwn c h (s.addWss l)
  | [], s, hs, _ => by simpa [FSt.addWss] using hs
  | w :: r, s, hs, hl => by
    simp only [List.all_cons, Bool.and_eq_true, beq_iff_eq] at hl
    simp only [FSt.addWss, List.foldl_cons]
    have : StOwn c h (s.addWs w.1 w.2) := by rw [hl.1]; exact hs.addWs w.2
    exact StOwn.addWss r this hl.2

theorem StOwn.addIndent {c : FCfg} {h : Nat} {s : FSt} (hs : StOwn c h s) : StOwn c h (s.addIndent c) := by
  unfold FSt.addIndent
  split
  · exact hs
  · intro x hx
    simp only [List.mem_append, List.mem_singleton] at hx
    cases hx with
    | inl a => exact hs x a
    | inr a => subst a; exact Or.inl rfl

theorem getFF_own {c : FCfg} {h : Nat} {s : FSt} (hs : StOwn c h s) :
    (∀ x ∈ (s.getFF c).1, OwnFF c h x) ∧ StOwn c h (s.getFF c).2 := by
  constructor
  · intro x hx
    simp only [FSt.getFF] at hx
    split at hx
    · cases List.mem_cons.mp hx with
      | inl a => subst a; exact Or.inr (Or.inl rfl)
      | inr a => exact hs x a
    · exact hs x hx
  · intro x hx; simp [FSt.getFF] at hx

theorem newToken_own {c : FCfg} {h : Nat} {s : FSt} (hs : StOwn c h s) (id : Nat) (val : Bytes) :
    OwnTok c h (s.newToken c id val).1 ∧ StOwn c h (s.newToken c id val).2 := by
  have h0 : StOwn c h (if signClash c s id then s.addWs c.tWs [32] else s) := by
    split
    · exact hs.addWs [32]
    · exact hs
  have := getFF_own (h := h) h0
  exact ⟨this.1, fun x hx => by simp [FSt.newToken, FSt.getFF] at hx⟩

theorem haltFF_own (c : FCfg) (h : Nat) (l : List FF) : ∀ x ∈ haltFF h l, OwnFF c h x := by
  intro x hx
  simp only [haltFF, List.mem_map, List.mem_filter, beq_iff_eq] at hx
  obtain ⟨y, ⟨_, hy⟩, rfl⟩ := hx
  exact Or.inr (Or.inr hy)

/-- a child formatter that keeps the pending list clean and whose result satisfies P -/
def FnOwn (c : FCfg) (h : Nat) (P : Tree → Prop) (fn : FSt → FRes) : Prop :=
  ∀ s t' s', StOwn c h s → fn s = some (t', s') → StOwn c h s' ∧ P t'

theorem acceptAll_own {c : FCfg} {h : Nat} {P : Tree → Prop} (pre post : List Ws) (hpre : pre.all (fun w => w.1 == c.tWs) = true)
    (hpost : post.all (fun w => w.1 == c.tWs) = true) : ∀ (fns : List KFn) (s : FSt) (out : List Tree) (s' : FSt),
    (∀ kf ∈ fns, FnOwn c h P kf.2) → StOwn c h s → acceptAll pre post fns s = some (out, s') →
    StOwn c h s' ∧ ∀ t ∈ out, P t
  | [], s, out, s', _, hs, hh => by simp [acceptAll] at hh; obtain ⟨h1, h2⟩ := hh; subst h1; subst h2; exact ⟨hs, by simp⟩
  | (k, fn) :: r, s, out, s', hf, hs, hh => by
    simp only [acceptAll] at hh
    split at hh
    · cases hh
    · rename_i t1 s1 h1
      split at hh
      · cases hh
      · rename_i ts1 s2 h2
        cases hh
        have a1 := hf (k, fn) (List.mem_cons_self) _ _ _ (hs.addWss pre hpre) h1
        have ih := acceptAll_own pre post hpre hpost r _ _ _ (fun x hx => hf x (List.mem_cons_of_mem _ hx)) (a1.1.addWss post hpost) h2
        refine ⟨ih.1, ?_⟩
        intro t ht
        cases List.mem_cons.mp ht with
        | inl e => subst e; exact a1.2
        | inr e => exact ih.2 t e

theorem sepAll_own {c : FCfg} {h : Nat} {P : Tree → Prop} (pre post : List Ws) (id : Nat) (lit : List Nat)
    (hpre : pre.all (fun w => w.1 == c.tWs) = true) (hpost : post.all (fun w => w.1 == c.tWs) = true) :
    ∀ (fns : List KFn) (s : FSt) (out : List Tree) (tks : List Tok) (s' : FSt),
    (∀ kf ∈ fns, FnOwn c h P kf.2) → StOwn c h s → sepAll c pre id lit post fns s = some (out, tks, s') →
    StOwn c h s' ∧ (∀ t ∈ tks, OwnTok c h t) ∧ ∀ t ∈ out, P t
  | [], s, out, tks, s', _, hs, hh => by
    simp [sepAll] at hh; obtain ⟨h1, h2, h3⟩ := hh; subst h1; subst h2; subst h3; exact ⟨hs, by simp, by simp⟩
  | [(k, fn)], s, out, tks, s', hf, hs, hh => by
    simp only [sepAll] at hh
    split at hh
    · cases hh
    · rename_i t1 s1 h1
      cases hh
      have a1 := hf (k, fn) (List.mem_cons_self) _ _ _ hs h1
      exact ⟨a1.1, by simp, by simpa using a1.2⟩
  | (k, fn) :: kf2 :: r, s, out, tks, s', hf, hs, hh => by
    simp only [sepAll] at hh
    split at hh
    · cases hh
    · rename_i t1 s1 h1
      have a1 := hf (k, fn) (List.mem_cons_self) _ _ _ hs h1
      have a2 := newToken_own (h := h) (a1.1.addWss pre hpre) id (u8s lit)
      split at hh
      · cases hh
      · rename_i ts1 tks1 s3 h2
        cases hh
        have ih := sepAll_own pre post id lit hpre hpost (kf2 :: r) _ _ _ _
          (fun x hx => hf x (List.mem_cons_of_mem _ hx)) (a2.2.addWss post hpost) h2
        refine ⟨ih.1, ?_, ?_⟩
        · intro t ht
          cases List.mem_cons.mp ht with
          | inl e => subst e; exact a2.1
          | inr e => exact ih.2.1 t e
        · intro t ht
          cases List.mem_cons.mp ht with
          | inl e => subst e; exact a1.2
          | inr e => exact ih.2.2 t e

theorem stmtsAll_own {c : FCfg} {h : Nat} {P : Tree → Prop} (hnop : P (nopNode c)) : ∀ (fns : List KFn) (s : FSt) (out : List Tree) (s' : FSt),
    (∀ kf ∈ fns, FnOwn c h P kf.2) → StOwn c h s → stmtsAll c fns s = some (out, s') → StOwn c h s' ∧ ∀ t ∈ out, P t
  | [], s, out, s', _, hs, hh => by simp [stmtsAll] at hh; obtain ⟨h1, h2⟩ := hh; subst h1; subst h2; exact ⟨hs, by simp⟩
  | (k, fn) :: r, s, out, s', hf, hs, hh => by
    simp only [stmtsAll] at hh
    split at hh
    · split at hh
      · cases hh
      · rename_i t1 s1 h1
        split at hh
        · cases hh
        · rename_i ts1 s2 h2
          cases hh
          have a1 := hf (k, fn) (List.mem_cons_self) _ _ _ hs h1
          have ih := stmtsAll_own hnop r _ _ _ (fun x hx => hf x (List.mem_cons_of_mem _ hx)) a1.1 h2
          refine ⟨ih.1, ?_⟩
          intro t ht
          simp only [List.mem_cons] at ht
          rcases ht with e | e | e
          · subst e; exact hnop
          · subst e; exact a1.2
          · exact ih.2 t e
    · split at hh
      · cases hh
      · rename_i t1 s1 h1
        split at hh
        · cases hh
        · rename_i ts1 s2 h2
          cases hh
          have a1 := hf (k, fn) (List.mem_cons_self) _ _ _ ((hs.addWs [10]).addIndent) h1
          have ih := stmtsAll_own hnop r _ _ _ (fun x hx => hf x (List.mem_cons_of_mem _ hx)) a1.1 h2
          refine ⟨ih.1, ?_⟩
          intro t ht
          cases List.mem_cons.mp ht with
          | inl e => subst e; exact a1.2
          | inr e => exact ih.2 t e

end PhpVerif.Fmt

namespace PhpVerif.Fmt
open PhpVerif

def WOwn (c : FCfg) (h : Nat) (w : List (Option (List Tok))) : Prop :=
  ∀ f l, getOv w f = some l → ∀ t ∈ l, OwnTok c h t

def KwP (P : Tree → Prop) (kw : List (Option (List Tree))) : Prop :=
  ∀ f l, getOv kw f = some l → ∀ t ∈ l, P t

theorem WOwn.set {c h w} (hw : WOwn c h w) (f : Nat) (l : List Tok) (hl : ∀ t ∈ l, OwnTok c h t) : WOwn c h (setOv w f l) := by
  intro g l' hg
  by_cases hfg : f = g
  · subst hfg; rw [getOv_setOv_same] at hg; cases hg; exact hl
  · rw [getOv_setOv_other _ _ _ _ hfg] at hg; exact hw g l' hg

theorem KwP.set {P kw} (hw : KwP P kw) (f : Nat) (l : List Tree) (hl : ∀ t ∈ l, P t) : KwP P (setOv kw f l) := by
  intro g l' hg
  by_cases hfg : f = g
  · subst hfg; rw [getOv_setOv_same] at hg; cases hg; exact hl
  · rw [getOv_setOv_other _ _ _ _ hfg] at hg; exact hw g l' hg

theorem keepTok_own {c : FCfg} {h : Nat} (t : Tok) (l : List FF) (hl : ∀ x ∈ l, OwnFF c h x) : OwnTok c h (keepTok t l) := hl

/-- the state and both overlays hold only what the formatter made -/
structure NOwn (c : FCfg) (h : Nat) (P : Tree → Prop) (n : NSt) : Prop where
  st : StOwn c h n.st
  w : WOwn c h n.w
  kw : KwP P n.kw

section ownExec
variable (c : FCfg) (h : Nat) (P : Tree → Prop) (orig : List (List Tok)) (vals : List (Option Bytes)) (nn : List Bool)
variable (fns : List (List KFn))
variable (hfns : ∀ f, ∀ kf ∈ fieldAt fns f, FnOwn c h P kf.2) (hnop : P (nopNode c))
include hfns hnop

mutual
theorem execI_own : ∀ (i : FI) (n n' : NSt), wsOKI c h i = true → execI c orig vals nn fns i n = some n' →
    NOwn c h P n → NOwn c h P n'
  | .newTok f id lit, n, n', _, hx, hi => by
    simp only [execI] at hx; cases hx
    have a := newToken_own (h := h) hi.st id (u8s lit)
    exact ⟨a.2, hi.w.set f _ (by intro t ht; simp at ht; subst ht; exact a.1), hi.kw⟩
  | .newTokVal f id g, n, n', _, hx, hi => by
    simp only [execI] at hx; cases hx
    have a := newToken_own (h := h) hi.st id (((vals[g]?).getD none).getD [])
    exact ⟨a.2, hi.w.set f _ (by intro t ht; simp at ht; subst ht; exact a.1), hi.kw⟩
  | .newTokReg f id r, n, n', _, hx, hi => by
    simp only [execI] at hx; cases hx
    have a := newToken_own (h := h) hi.st id (u8s (n.reg r))
    exact ⟨a.2, hi.w.set f _ (by intro t ht; simp at ht; subst ht; exact a.1), hi.kw⟩
  | .setFlag .., n, n', _, hx, hi => by simp only [execI] at hx; cases hx; exact ⟨hi.st, hi.w, hi.kw⟩
  | .setReg .., n, n', _, hx, hi => by simp only [execI] at hx; cases hx; exact ⟨hi.st, hi.w, hi.kw⟩
  | .setRegLabel .., n, n', _, hx, hi => by simp only [execI] at hx; cases hx; exact ⟨hi.st, hi.w, hi.kw⟩
  | .setRegOpener .., n, n', _, hx, hi => by simp only [execI] at hx; cases hx; exact ⟨hi.st, hi.w, hi.kw⟩
  | .clear f, n, n', _, hx, hi => by
    simp only [execI] at hx; cases hx
    exact ⟨hi.st, hi.w.set f _ (by simp), hi.kw⟩
  | .ws id lit, n, n', hok, hx, hi => by
    simp only [execI] at hx; cases hx
    have : id = c.tWs := by simpa [wsOKI] using hok
    subst this
    exact ⟨hi.st.addWs lit, hi.w, hi.kw⟩
  | .indent up, n, n', _, hx, hi => by
    simp only [execI] at hx; cases hx; exact ⟨hi.st, hi.w, hi.kw⟩
  | .setHtml, n, n', _, hx, hi => by
    simp only [execI] at hx; cases hx; exact ⟨hi.st, hi.w, hi.kw⟩
  | .addIndent, n, n', _, hx, hi => by
    simp only [execI] at hx; cases hx; exact ⟨hi.st.addIndent, hi.w, hi.kw⟩
  | .accept f, n, n', _, hx, hi => by
    simp only [execI] at hx
    split at hx
    · rename_i k fn rest hf
      split at hx
      · cases hx
      · rename_i t1 s1 h1
        cases hx
        have a := hfns f (k, fn) (by rw [hf]; exact List.mem_cons_self) _ _ _ hi.st h1
        exact ⟨a.1, hi.w, hi.kw.set f _ (by intro t ht; simp at ht; subst ht; exact a.2)⟩
    · cases hx
  | .setFF f, n, n', _, hx, hi => by
    simp only [execI] at hx
    split at hx
    · cases hx
      have a := getFF_own (h := h) hi.st
      exact ⟨a.2, hi.w.set f _ (by intro t ht; simp at ht; subst ht; exact keepTok_own _ _ a.1), hi.kw⟩
    · cases hx
  | .semi f, n, n', _, hx, hi => by
    simp only [execI] at hx; cases hx
    have a := newToken_own (h := h) hi.st 59 [59]
    exact ⟨a.2, hi.w.set f _ (by intro t ht; simp at ht; subst ht; exact a.1), hi.kw⟩
  | .fmtList g f sep, n, n', _, hx, hi => by
    simp only [execI] at hx
    split at hx
    · cases hx
    · rename_i ts tks s hsep
      cases hx
      have a := sepAll_own (h := h) (P := P) [] [(c.tWs, [32])] sep [sep] (by simp) (by simp) (fieldAt fns f) _ ts tks s
        (hfns f) hi.st hsep
      by_cases he : (fieldAt fns f).isEmpty = true
      · cases g with
        | none => simpa [he] using (⟨a.1, hi.w, hi.kw⟩ : NOwn c h P { n with st := s })
        | some g => simpa [he, NSt.setTok] using (⟨a.1, hi.w.set g tks a.2.1, hi.kw⟩ : NOwn c h P { n with w := setOv n.w g tks, st := s })
      · cases g with
        | none => simpa [he] using (⟨a.1, hi.w, hi.kw.set f ts a.2.2⟩ : NOwn c h P { n with kw := setOv n.kw f ts, st := s })
        | some g => simpa [he, NSt.setTok] using
            (⟨a.1, hi.w.set g tks a.2.1, hi.kw.set f ts a.2.2⟩ : NOwn c h P { n with w := setOv n.w g tks, kw := setOv n.kw f ts, st := s })
  | .stmts f, n, n', _, hx, hi => by
    simp only [execI] at hx
    split at hx
    · cases hx
    · rename_i ts s hst
      cases hx
      have a := stmtsAll_own (h := h) (P := P) hnop (fieldAt fns f) _ ts s (hfns f) hi.st hst
      by_cases he : (fieldAt fns f).isEmpty = true
      · simpa [he] using (⟨a.1, hi.w, hi.kw⟩ : NOwn c h P { n with st := s })
      · simpa [he] using (⟨a.1, hi.w, hi.kw.set f ts a.2⟩ : NOwn c h P { n with kw := setOv n.kw f ts, st := s })
  | .each f pre post, n, n', hok, hx, hi => by
    simp only [execI] at hx
    have hok' : pre.all (fun w => w.1 == c.tWs) = true ∧ post.all (fun w => w.1 == c.tWs) = true := by
      simpa [wsOKI] using hok
    split at hx
    · cases hx
    · rename_i ts s hac
      cases hx
      have a := acceptAll_own (h := h) (P := P) pre post hok'.1 hok'.2 (fieldAt fns f) _ ts s (hfns f) hi.st hac
      by_cases he : (fieldAt fns f).isEmpty = true
      · simpa [he] using (⟨a.1, hi.w, hi.kw⟩ : NOwn c h P { n with st := s })
      · simpa [he] using (⟨a.1, hi.w, hi.kw.set f ts a.2⟩ : NOwn c h P { n with kw := setOv n.kw f ts, st := s })
  | .sepLoop f g pre id lit post, n, n', hok, hx, hi => by
    simp only [execI] at hx
    have hok' : pre.all (fun w => w.1 == c.tWs) = true ∧ post.all (fun w => w.1 == c.tWs) = true := by
      simpa [wsOKI] using hok
    split at hx
    · cases hx
    · split at hx
      · cases hx
      · rename_i ts tks s hsep
        cases hx
        have a := sepAll_own (h := h) (P := P) pre post id lit hok'.1 hok'.2 (fieldAt fns f) _ ts tks s (hfns f) hi.st hsep
        exact ⟨a.1, by simpa [NSt.setTok] using hi.w.set g tks a.2.1, hi.kw.set f ts a.2.2⟩
  | .haltTail f id, n, n', hok, hx, hi => by
    simp only [execI] at hx
    have hid : id = h := by simpa [wsOKI] using hok
    subst hid
    split at hx
    · rename_i t rest _
      cases hx
      exact ⟨hi.st, by simpa [NSt.setTok] using hi.w.set f _ (by intro x hx; simp at hx; subst hx; exact keepTok_own _ _ (haltFF_own c id t.ff)), hi.kw⟩
    · cases hx; exact hi
  | .ite cd a b, n, n', hok, hx, hi => by
    simp only [execI] at hx
    have hok' : wsOKIs c h a = true ∧ wsOKIs c h b = true := by simpa [wsOKI] using hok
    split at hx
    · exact execIs_own a n n' hok'.1 hx hi
    · exact execIs_own b n n' hok'.2 hx hi
theorem execIs_own : ∀ (is : List FI) (n n' : NSt), wsOKIs c h is = true → execIs c orig vals nn fns is n = some n' →
    NOwn c h P n → NOwn c h P n'
  | [], n, n', _, hx, hi => by simp only [execIs] at hx; cases hx; exact hi
  | i :: r, n, n', hok, hx, hi => by
    simp only [execIs] at hx
    have hok' : wsOKI c h i = true ∧ wsOKIs c h r = true := by simpa [wsOKIs] using hok
    split at hx
    · cases hx
    · rename_i n1 h1
      exact execIs_own r n1 n' hok'.2 hx (execI_own i n n1 hok'.1 h1 hi)
end
end ownExec

end PhpVerif.Fmt

namespace PhpVerif.Fmt
open PhpVerif

mutual
/-- every token in a field its kind's method writes carries only trivia the formatter made; likewise the
    children in the fields it formats -/
def OwnTree (c : FCfg) (h : Nat) (dT dK : Nat → List Nat) : Tree → Prop
  | .mk k _ _ toks _ kids _ =>
    (∀ f ∈ dT k, ∀ t ∈ fieldAt toks f, OwnTok c h t) ∧ ownSlots c h dT dK (dK k) 0 kids
def ownSlots (c : FCfg) (h : Nat) (dT dK : Nat → List Nat) (d : List Nat) : Nat → List (List Tree) → Prop
  | _, [] => True
  | i, f :: fs => (d.contains i = true → ownForest c h dT dK f) ∧ ownSlots c h dT dK d (i + 1) fs
def ownForest (c : FCfg) (h : Nat) (dT dK : Nat → List Nat) : List Tree → Prop
  | [] => True
  | t :: ts => OwnTree c h dT dK t ∧ ownForest c h dT dK ts
end

theorem ownForest_of_mem {c h dT dK} : ∀ (ts : List Tree), (∀ t ∈ ts, OwnTree c h dT dK t) → ownForest c h dT dK ts
  | [], _ => trivial
  | t :: ts, hh => ⟨hh t (List.mem_cons_self), ownForest_of_mem ts (fun x hx => hh x (List.mem_cons_of_mem _ hx))⟩

theorem ownSlots_of_field {c h dT dK} (d : List Nat) : ∀ (kids : List (List Tree)) (i : Nat),
    (∀ f, d.contains (i + f) = true → ownForest c h dT dK (fieldAt kids f)) → ownSlots c h dT dK d i kids
  | [], _, _ => trivial
  | x :: xs, i, hh => by
    refine ⟨?_, ?_⟩
    · intro hc; simpa [fieldAt] using hh 0 (by simpa using hc)
    · apply ownSlots_of_field d xs (i + 1)
      intro f hf
      have e : i + 1 + f = i + (f + 1) := by omega
      rw [e] at hf
      simpa [fieldAt] using hh (f + 1) hf

theorem mergeToks_field : ∀ (orig : List (List Tok)) (w : List (Option (List Tok))) (f : Nat) (t : Tok),
    t ∈ fieldAt (mergeToks orig w) f → (∃ l, getOv w f = some l ∧ t ∈ l) ∨ (getOv w f = none ∧ t ∈ (fieldAt orig f).map bareTok)
  | [], _, f, t, hh => by simp [mergeToks, fieldAt] at hh
  | o :: r, [], f, t, hh => by
    cases f with
    | zero => right; simpa [mergeToks, fieldAt, getOv] using hh
    | succ f =>
      have := mergeToks_field r [] f t (by simpa [mergeToks, fieldAt] using hh)
      simpa [getOv, fieldAt] using this
  | o :: r, none :: w, f, t, hh => by
    cases f with
    | zero => right; simpa [mergeToks, fieldAt, getOv] using hh
    | succ f =>
      have := mergeToks_field r w f t (by simpa [mergeToks, fieldAt] using hh)
      simpa [getOv, fieldAt] using this
  | o :: r, some l :: w, f, t, hh => by
    cases f with
    | zero => left; exact ⟨l, by simp [getOv], by simpa [mergeToks, fieldAt] using hh⟩
    | succ f =>
      have := mergeToks_field r w f t (by simpa [mergeToks, fieldAt] using hh)
      simpa [getOv, fieldAt] using this

theorem mergeKids_field : ∀ (orig : List (List Tree)) (w : List (Option (List Tree))) (f : Nat),
    (∃ l, getOv w f = some l ∧ fieldAt (mergeKids orig w) f = l) ∨ fieldAt (mergeKids orig w) f = [] ∨
      (getOv w f = none ∧ fieldAt (mergeKids orig w) f = fieldAt orig f)
  | [], _, f => by right; left; simp [mergeKids, fieldAt]
  | o :: r, [], f => by
    cases f with
    | zero => right; right; simp [mergeKids, fieldAt, getOv]
    | succ f =>
      have := mergeKids_field r [] f
      simpa [getOv, fieldAt, mergeKids] using this
  | o :: r, none :: w, f => by
    cases f with
    | zero => right; right; simp [mergeKids, fieldAt, getOv]
    | succ f =>
      have := mergeKids_field r w f
      simpa [getOv, fieldAt, mergeKids] using this
  | o :: r, some l :: w, f => by
    cases f with
    | zero => left; exact ⟨l, by simp [getOv], by simp [mergeKids, fieldAt]⟩
    | succ f =>
      have := mergeKids_field r w f
      simpa [getOv, fieldAt, mergeKids] using this

section ownTree
variable (c : FCfg) (h : Nat) (dT dK : Nat → List Nat)
variable (hT : ∀ k f, f ∈ dT k → f ∈ daIs (c.prog k))
variable (hK : ∀ k f, f ∈ dK k → f ∈ dakIs (c.prog k))
variable (hws : ∀ k, wsOKIs c h (c.prog k) = true)
variable (hnop : OwnTree c h dT dK (nopNode c))
include hT hK hws hnop

mutual
theorem fmtTree_own : ∀ t : Tree, FnOwn c h (OwnTree c h dT dK) (fmtTree c t)
  | .mk k u p toks vals kids nn => by
    intro s t' s' hs hx
    simp only [fmtTree] at hx
    split at hx
    · cases hx
    · rename_i n hex
      cases hx
      have hfns := fmtSlots_own kids
      have hn := execIs_own c h (OwnTree c h dT dK) toks vals nn (fmtSlots c kids) hfns hnop (c.prog k) _ n (hws k) hex
        ⟨hs, by intro f l hf; simp [getOv] at hf, by intro f l hf; simp [getOv] at hf⟩
      have eff := execIs_eff c toks vals nn (fmtSlots c kids) (c.prog k) _ n hex
      refine ⟨hn.st, ?_, ?_⟩
      · intro f hf t ht
        cases mergeToks_field toks n.w f t ht with
        | inl x => obtain ⟨l, hl, hm⟩ := x; exact hn.w f l hl t hm
        | inr x =>
          cases eff.dt f (hT k f hf) with
          | inl y => rw [x.1] at y; cases y
          | inr y => rw [y] at x; simp at x
      · apply ownSlots_of_field
        intro f hf
        have hf' : f ∈ dK k := by simpa using hf
        cases mergeKids_field kids n.kw f with
        | inl x => obtain ⟨l, hl, hm⟩ := x; rw [hm]; exact ownForest_of_mem l (hn.kw f l hl)
        | inr x =>
          cases x with
          | inl y => rw [y]; trivial
          | inr y =>
            cases eff.dk f (hK k f hf') with
            | inl z => rw [y.1] at z; cases z
            | inr z =>
              rw [y.2]
              have : fieldAt kids f = [] := by
                rw [fmtSlots_field] at z
                exact (fmtForest_eq_nil c _).mp z
              rw [this]; trivial
theorem fmtSlots_own : ∀ (kids : List (List Tree)) (f : Nat), ∀ kf ∈ fieldAt (fmtSlots c kids) f, FnOwn c h (OwnTree c h dT dK) kf.2
  | [], f => by intro kf hkf; simp [fmtSlots, fieldAt] at hkf
  | x :: xs, f => by
    intro kf hkf
    cases f with
    | zero => exact fmtForest_own x kf (by simpa [fmtSlots, fieldAt] using hkf)
    | succ f => exact fmtSlots_own xs f kf (by simpa [fmtSlots, fieldAt] using hkf)
theorem fmtForest_own : ∀ (ts : List Tree), ∀ kf ∈ fmtForest c ts, FnOwn c h (OwnTree c h dT dK) kf.2
  | [] => by intro kf hkf; simp [fmtForest] at hkf
  | t :: ts => by
    intro kf hkf
    simp only [fmtForest, List.mem_cons] at hkf
    cases hkf with
    | inl e => rw [e]; exact fmtTree_own t
    | inr e => exact fmtForest_own ts kf e
end
end ownTree

end PhpVerif.Fmt
