import PhpVerif.Model.YY
/-
M-LR: the abstract LR machine — what one round of the goyacc driver may do to the value stack,
whatever the tables say — and the proof that every round of the driver model (Model/YY.lean) is a
move of it.  Invariants of parsed values (Props/Parser.lean) are proved once, over M-LR moves.
-/
namespace PhpVerif
variable {α σ : Type}

/-- reading a token: nothing but the lookahead and the count of tokens lexed changes -/
structure LexRel (s s' : YYSt α σ) : Prop where
  stack : s'.stack = s.stack
  yyval : s'.yyval = s.yyval
  aux : s'.aux = s.aux
  step : (s'.pos = s.pos ∧ s'.la = s.la) ∨ (s'.pos = s.pos + 1 ∧ s.la = none ∧ s'.la.isSome = true)
  trace : s'.trace = s.trace

theorem LexRel.refl (s : YYSt α σ) : LexRel s s := ⟨rfl, rfl, rfl, .inl ⟨rfl, rfl⟩, rfl⟩

theorem LexRel.trans {a b c : YYSt α σ} (h1 : LexRel a b) (h2 : LexRel b c) (hb : b.la.isSome = true → c = b) : LexRel a c := by
  rcases h1.step with ⟨hp, hl⟩ | ⟨hp, hl, hs⟩
  · refine ⟨h2.stack.trans h1.stack, h2.yyval.trans h1.yyval, h2.aux.trans h1.aux, ?_, h2.trace.trans h1.trace⟩
    rcases h2.step with ⟨hp2, hl2⟩ | ⟨hp2, hl2, hs2⟩
    · exact .inl ⟨hp2.trans hp, hl2.trans hl⟩
    · exact .inr ⟨by omega, hl ▸ hl2, hs2⟩
  · have := hb hs
    subst this
    exact h1

theorem ensureLA_lex (t : YYTab) (input : Array Nat) (s s' : YYSt α σ) (tk : Int)
    (h : ensureLA t input s = .ok (s', tk)) : LexRel s s' ∧ s'.la = some tk := by
  unfold ensureLA at h
  split at h
  · rename_i tk' hla
    cases h
    exact ⟨LexRel.refl _, hla⟩
  · rename_i hla
    simp only [bind, Except.bind] at h
    split at h
    · cases h
    · cases h
      exact ⟨⟨rfl, rfl, rfl, .inr ⟨rfl, hla, rfl⟩, rfl⟩, rfl⟩

theorem yyTryShift_lex (t : YYTab) (input : Array Nat) (s s' : YYSt α σ) (st : Int) (r : Option Int)
    (h : yyTryShift t input s st = .ok (s', r)) : LexRel s s' ∧ (r.isSome = true → s'.la.isSome = true) := by
  unfold yyTryShift at h
  simp only [bind, Except.bind, pure, Except.pure] at h
  split at h
  · cases h
  · split at h
    · cases h
      exact ⟨LexRel.refl _, by simp⟩
    · split at h
      · cases h
      · rename_i x hx
        obtain ⟨s1, tk⟩ := x
        have hl := ensureLA_lex t input s s1 tk hx
        split at h
        · cases h
          exact ⟨hl.1, by simp⟩
        · split at h
          · cases h
          · split at h
            · cases h
            · split at h
              · cases h
                exact ⟨hl.1, fun _ => by simp [hl.2]⟩
              · cases h
                exact ⟨hl.1, by simp⟩

theorem yyDefault_lex (t : YYTab) (input : Array Nat) (s s' : YYSt α σ) (st d yyn : Int)
    (h : yyDefault t input s st = .ok (s', d, yyn)) : LexRel s s' := by
  unfold yyDefault at h
  simp only [bind, Except.bind, pure, Except.pure] at h
  split at h
  · cases h
  · split at h
    · split at h
      · cases h
      · rename_i x hx
        obtain ⟨s1, tk⟩ := x
        have hl := ensureLA_lex t input s s1 tk hx
        split at h
        · cases h
        · cases h
          exact hl.1
    · cases h
      exact LexRel.refl _

/-- the table-driven half of a round only reads tokens; a shift is decided with a lookahead in hand -/
theorem yyDecide_lex (t : YYTab) (input : Array Nat) (s s' : YYSt α σ) (st : Int) (m : YYMove)
    (h : yyDecide t input s st = .ok (s', m)) : LexRel s s' ∧ (∀ ns, m = .shift ns → s'.la.isSome = true) := by
  unfold yyDecide at h
  simp only [bind, Except.bind, pure, Except.pure] at h
  split at h
  · cases h
  · rename_i x hx
    obtain ⟨s1, sh⟩ := x
    have h1 := yyTryShift_lex t input s s1 st sh hx
    cases sh with
    | some ns =>
      simp only at h
      cases h
      exact ⟨h1.1, fun _ _ => h1.2 rfl⟩
    | none =>
      simp only at h
      split at h
      · cases h
      · rename_i y hy
        obtain ⟨s2, d, yyn⟩ := y
        have h2 := yyDefault_lex t input s1 s2 st d yyn hy
        have h12 : LexRel s s2 := by
          refine LexRel.trans h1.1 h2 ?_
          intro hsome
          -- with a lookahead in hand nothing is lexed
          unfold yyDefault at hy
          simp only [bind, Except.bind, pure, Except.pure] at hy
          split at hy
          · cases hy
          · split at hy
            · split at hy
              · cases hy
              · rename_i z hz
                obtain ⟨s3, tk⟩ := z
                split at hy
                · cases hy
                · cases hy
                  unfold ensureLA at hz
                  split at hz
                  · cases hz; rfl
                  · rename_i hnone
                    rw [hnone] at hsome
                    cases hsome
            · cases hy; rfl
        split at h
        · cases h; exact ⟨h12, fun _ hm => by cases hm⟩
        · split at h
          · split at h
            · split at h <;> (cases h; exact ⟨h12, fun _ hm => by cases hm⟩)
            · cases h; exact ⟨h12, fun _ hm => by cases hm⟩
          · cases h; exact ⟨h12, fun _ hm => by cases hm⟩

/-- the moves of M-LR.  No table is mentioned: a theorem about all sequences of these moves holds for
    whatever the LALR tables make the driver do. -/
inductive LRMove (sem : YYSem α σ) (s : YYSt α σ) : YYRes α σ → Prop where
  /-- the lookahead is pushed -/
  | shift (ns : Int) (s' : YYSt α σ) : s.la.isSome = true →
      s'.stack = (ns, sem.tokVal (s.pos - 1)) :: s.stack → s'.yyval = sem.tokVal (s.pos - 1) →
      s'.aux = s.aux → s'.pos = s.pos → s'.la = none → s.trace <:+ s'.trace → LRMove sem s (.cont s')
  /-- the run ends (accepted, or recovery gave up); entries may have been popped -/
  | stop (code : Nat) (s' : YYSt α σ) : s'.stack <:+ s.stack → s'.yyval = s.yyval → s'.aux = s.aux →
      s'.pos = s.pos → s'.la = s.la → s.trace <:+ s'.trace → LRMove sem s (.done code s')
  /-- recovery drops the lookahead -/
  | discard (s' : YYSt α σ) : s'.stack = s.stack → s'.yyval = s.yyval → s'.aux = s.aux → s'.pos = s.pos →
      s'.la = none → s.trace <:+ s'.trace → LRMove sem s (.cont s')
  /-- recovery pops entries and pushes the error token, whose value is the current `yyVAL` -/
  | errShift (ns : Int) (st : List (Int × α)) (s' : YYSt α σ) : st <:+ s.stack → s'.stack = (ns, s.yyval) :: st →
      s'.yyval = s.yyval → s'.aux = s.aux → s'.pos = s.pos → s'.la = s.la → s.trace <:+ s'.trace →
      (∃ e, YYEv.errShift e ∈ s'.trace) → LRMove sem s (.cont s')
  /-- a reduction: the top `n` values become `$1…$n` of an action, whose result replaces them -/
  | reduce (yyn ns : Int) (n : Nat) (args : List α) (rest : List (Int × α)) (v : α) (aux' : σ) (s' : YYSt α σ) :
      popN n s.stack [] = some (args, rest) →
      sem.reduce s.aux yyn args (yyDflt sem args) s.pos = .ok (v, aux') →
      s'.stack = (ns, v) :: rest → s'.yyval = v → s'.aux = aux' → s'.pos = s.pos → s'.la = s.la →
      s.trace <:+ s'.trace → (∃ st, YYEv.reduce yyn st ∈ s'.trace) → LRMove sem s (.cont s')

theorem errPop_suffix (t : YYTab) : ∀ (stk : List (Int × α)) (tr : List YYEv) (ns : Int) (st : List (Int × α)) (tr' : List YYEv),
    errPop t stk tr = .ok (some (ns, st), tr') → st <:+ stk
  | [], tr, ns, st, tr', h => by simp [errPop] at h
  | (s0, v) :: rest, tr, ns, st, tr', h => by
    unfold errPop at h
    split at h
    · cases h
    · cases h
      exact List.suffix_refl _
    · exact List.IsSuffix.trans (errPop_suffix t rest _ ns st tr' h) (List.suffix_cons _ _)

theorem errPop_trace_suffix (t : YYTab) : ∀ (stk : List (Int × α)) (tr : List YYEv) (r : Option (Int × List (Int × α))) (tr' : List YYEv),
    errPop t stk tr = .ok (r, tr') → tr <:+ tr'
  | [], tr, r, tr', h => by
    simp only [errPop] at h
    cases h
    exact List.suffix_refl _
  | (s0, v) :: rest, tr, r, tr', h => by
    unfold errPop at h
    split at h
    · cases h
    · cases h
      exact List.suffix_refl _
    · exact List.IsSuffix.trans (List.suffix_cons _ _) (errPop_trace_suffix t rest _ r tr' h)

/-- the stack half of a round is a move of M-LR -/
theorem yyApply_LR (t : YYTab) (sem : YYSem α σ) (s : YYSt α σ) (st : Int) (m : YYMove) (r : YYRes α σ)
    (h : yyApply t sem s st m = .ok r) (hla : ∀ ns, m = .shift ns → s.la.isSome = true) : LRMove sem s r := by
  cases m with
  | shift ns =>
    simp only [yyApply, pure, Except.pure] at h
    cases h
    exact .shift ns _ (hla ns rfl) rfl rfl rfl rfl rfl (List.suffix_cons _ _)
  | accept =>
    simp only [yyApply, pure, Except.pure] at h
    cases h
    exact .stop 0 _ (List.suffix_refl _) rfl rfl rfl rfl (List.suffix_cons _ _)
  | discardEof =>
    simp only [yyApply, pure, Except.pure] at h
    cases h
    exact .stop 1 _ (List.suffix_refl _) rfl rfl rfl rfl (List.IsSuffix.trans (List.suffix_cons _ _) (List.suffix_cons _ _))
  | discard =>
    simp only [yyApply, pure, Except.pure] at h
    cases h
    exact .discard _ rfl rfl rfl rfl rfl (List.suffix_cons _ _)
  | recover fresh =>
    simp only [yyApply, bind, Except.bind, pure, Except.pure] at h
    split at h
    · cases h
    · rename_i x hx
      obtain ⟨res, tr⟩ := x
      cases res with
      | none =>
        simp only at h
        cases h
        have htr := errPop_trace_suffix t _ _ _ tr hx
        refine .stop 1 _ List.nil_suffix ?_ ?_ ?_ ?_ ?_
        · cases fresh <;> rfl
        · cases fresh <;> rfl
        · cases fresh <;> rfl
        · cases fresh <;> rfl
        · cases fresh
          · exact List.IsSuffix.trans htr (List.suffix_cons _ _)
          · exact List.IsSuffix.trans (List.IsSuffix.trans (List.suffix_cons _ _) htr) (List.suffix_cons _ _)
      | some p =>
        obtain ⟨ns, st'⟩ := p
        simp only at h
        cases h
        have hs := errPop_suffix t _ _ ns st' tr hx
        have htr := errPop_trace_suffix t _ _ _ tr hx
        refine .errShift ns st' _ ?_ ?_ ?_ ?_ ?_ ?_ ?_ ⟨ns, List.mem_cons_self ..⟩
        · cases fresh <;> exact hs
        · cases fresh <;> rfl
        · cases fresh <;> rfl
        · cases fresh <;> rfl
        · cases fresh <;> rfl
        · cases fresh <;> rfl
        · cases fresh
          · exact List.IsSuffix.trans htr (List.suffix_cons _ _)
          · exact List.IsSuffix.trans (List.IsSuffix.trans (List.suffix_cons _ _) htr) (List.suffix_cons _ _)
  | reduce yyn =>
    simp only [yyApply, bind, Except.bind, pure, Except.pure] at h
    split at h
    · cases h
    · rename_i n hn
      split at h
      · cases h
      · rename_i args rest hpop
        split at h
        · cases h
        · rename_i e he
          split at h
          · cases h
          · split at h
            · cases h
            · rename_i ns hns
              split at h
              · cases h
              · rename_i v aux' hred
                cases h
                exact .reduce yyn ns n.toNat args _ v aux' _ hpop hred rfl rfl rfl rfl rfl (List.suffix_cons _ _) ⟨_, List.mem_cons_self ..⟩

/-- every round of the driver model is: read at most one token, then make one M-LR move -/
theorem yyStep_LR (t : YYTab) (sem : YYSem α σ) (input : Array Nat) (s : YYSt α σ) (r : YYRes α σ)
    (h : yyStep t sem input s = .ok r) : ∃ s1, LexRel s s1 ∧ LRMove sem s1 r := by
  unfold yyStep at h
  split at h
  · cases h
  · rename_i st v rst hstk
    split at h
    · cases h
    · rename_i s1 m hd
      have hl := yyDecide_lex t input s s1 st m hd
      exact ⟨s1, hl.1, yyApply_LR t sem s1 st m r h hl.2⟩

theorem popN_spec : ∀ (n : Nat) (stk : List (Int × α)) (acc args : List α) (rest : List (Int × α)),
    popN n stk acc = some (args, rest) → rest <:+ stk ∧ ∀ a ∈ args, a ∈ acc ∨ ∃ e ∈ stk, e.2 = a
  | 0, stk, acc, args, rest, h => by
    simp only [popN] at h
    cases h
    exact ⟨List.suffix_refl _, fun a ha => .inl ha⟩
  | n + 1, [], acc, args, rest, h => by simp [popN] at h
  | n + 1, (st, v) :: stk, acc, args, rest, h => by
    simp only [popN] at h
    have ih := popN_spec n stk (v :: acc) args rest h
    refine ⟨List.IsSuffix.trans ih.1 (List.suffix_cons _ _), fun a ha => ?_⟩
    rcases ih.2 a ha with h1 | ⟨e, he, hea⟩
    · rcases List.mem_cons.mp h1 with rfl | h2
      · exact .inr ⟨(st, a), List.mem_cons_self .., rfl⟩
      · exact .inl h2
    · exact .inr ⟨e, List.mem_cons_of_mem _ he, hea⟩

/-- an invariant of the values a run holds: `P n v` — value `v` is fine when `n` tokens have been lexed;
    `Q n a` — the same for the actions' own state -/
structure SemInv (sem : YYSem α σ) (P : Nat → α → Prop) (Q : Nat → σ → Prop) : Prop where
  monoP : ∀ n m v, n ≤ m → P n v → P m v
  monoQ : ∀ n m a, n ≤ m → Q n a → Q m a
  zero : ∀ n, P n sem.zero
  tok : ∀ i, P (i + 1) (sem.tokVal i)
  reduce : ∀ n aux prod args dflt v aux', (∀ a ∈ args, P n a) → P n dflt → Q n aux →
    sem.reduce aux prod args dflt n = .ok (v, aux') → P n v ∧ Q n aux'

def StInv (P : Nat → α → Prop) (Q : Nat → σ → Prop) (s : YYSt α σ) : Prop :=
  (∀ e ∈ s.stack, P s.pos e.2) ∧ P s.pos s.yyval ∧ Q s.pos s.aux ∧ (s.la.isSome = true → 0 < s.pos)

theorem StInv_lex {P : Nat → α → Prop} {Q : Nat → σ → Prop} {sem : YYSem α σ} (hs : SemInv sem P Q)
    {s s' : YYSt α σ} (h : LexRel s s') (hi : StInv P Q s) : StInv P Q s' := by
  obtain ⟨h1, h2, h3, h4⟩ := hi
  have hle : s.pos ≤ s'.pos := by rcases h.step with ⟨hp, _⟩ | ⟨hp, _, _⟩ <;> omega
  refine ⟨?_, ?_, ?_, ?_⟩
  · intro e he
    rw [h.stack] at he
    exact hs.monoP _ _ _ hle (h1 e he)
  · rw [h.yyval]; exact hs.monoP _ _ _ hle h2
  · rw [h.aux]; exact hs.monoQ _ _ _ hle h3
  · intro hsome
    rcases h.step with ⟨hp, hl⟩ | ⟨hp, _, _⟩
    · rw [hp]; exact h4 (hl ▸ hsome)
    · omega

def resState : YYRes α σ → YYSt α σ
  | .cont s => s
  | .done _ s => s

/-- every M-LR move preserves the invariant -/
theorem StInv_move {P : Nat → α → Prop} {Q : Nat → σ → Prop} {sem : YYSem α σ} (hs : SemInv sem P Q)
    {s : YYSt α σ} {r : YYRes α σ} (h : LRMove sem s r) (hi : StInv P Q s) : StInv P Q (resState r) := by
  obtain ⟨h1, h2, h3, h4⟩ := hi
  cases h with
  | shift ns s' hla hstk hval haux hpos hlan _ =>
    have hp : 0 < s.pos := h4 hla
    have ht : P s.pos (sem.tokVal (s.pos - 1)) := by
      have := hs.tok (s.pos - 1)
      rwa [Nat.sub_add_cancel hp] at this
    refine ⟨?_, ?_, ?_, ?_⟩ <;> simp only [resState]
    · intro e he
      rw [hstk] at he
      rw [hpos]
      rcases List.mem_cons.mp he with rfl | he'
      · exact ht
      · exact h1 e he'
    · rw [hval, hpos]; exact ht
    · rw [haux, hpos]; exact h3
    · rw [hlan]; intro hh; cases hh
  | stop code s' hsuf hval haux hpos hla _ =>
    refine ⟨?_, ?_, ?_, ?_⟩ <;> simp only [resState]
    · intro e he; rw [hpos]; exact h1 e (hsuf.subset he)
    · rw [hval, hpos]; exact h2
    · rw [haux, hpos]; exact h3
    · rw [hla, hpos]; exact h4
  | discard s' hstk hval haux hpos hlan _ =>
    refine ⟨?_, ?_, ?_, ?_⟩ <;> simp only [resState]
    · intro e he; rw [hstk] at he; rw [hpos]; exact h1 e he
    · rw [hval, hpos]; exact h2
    · rw [haux, hpos]; exact h3
    · rw [hlan]; intro hh; cases hh
  | errShift ns st s' hsuf hstk hval haux hpos hla _ _ =>
    refine ⟨?_, ?_, ?_, ?_⟩ <;> simp only [resState]
    · intro e he
      rw [hstk] at he
      rw [hpos]
      rcases List.mem_cons.mp he with rfl | he'
      · exact h2
      · exact h1 e (hsuf.subset he')
    · rw [hval, hpos]; exact h2
    · rw [haux, hpos]; exact h3
    · rw [hla, hpos]; exact h4
  | reduce yyn ns n args rest v aux' s' hpop hred hstk hval haux hpos hla _ _ =>
    have hspec := popN_spec n s.stack [] args rest hpop
    have hargs : ∀ a ∈ args, P s.pos a := by
      intro a ha
      rcases hspec.2 a ha with h0 | ⟨e, he, hea⟩
      · cases h0
      · exact hea ▸ h1 e he
    have hdfl : P s.pos (yyDflt sem args) := by
      cases args with
      | nil => exact hs.zero _
      | cons a r => exact hargs a (List.mem_cons_self ..)
    have hr := hs.reduce s.pos s.aux yyn args _ v aux' hargs hdfl h3 hred
    refine ⟨?_, ?_, ?_, ?_⟩ <;> simp only [resState]
    · intro e he
      rw [hstk] at he
      rw [hpos]
      rcases List.mem_cons.mp he with rfl | he'
      · exact hr.1
      · exact h1 e (hspec.1.subset he')
    · rw [hval, hpos]; exact hr.1
    · rw [haux, hpos]; exact hr.2
    · rw [hla, hpos]; exact h4

theorem StInv_init {P : Nat → α → Prop} {Q : Nat → σ → Prop} {sem : YYSem α σ} (hs : SemInv sem P Q) (aux : σ)
    (hq : Q 0 aux) : StInv P Q (yyInit sem aux) := by
  refine ⟨?_, hs.zero _, hq, ?_⟩
  · intro e he
    simp only [yyInit, List.mem_singleton] at he
    subst he
    exact hs.zero _
  · intro h; simp [yyInit] at h

/-- the invariant holds in every state a run of the driver model reaches — for whatever tables -/
theorem yyRun_inv {P : Nat → α → Prop} {Q : Nat → σ → Prop} {sem : YYSem α σ} (hs : SemInv sem P Q)
    (t : YYTab) (input : Array Nat) : ∀ (fuel : Nat) (s : YYSt α σ) (c : Option Nat) (s' : YYSt α σ),
    StInv P Q s → yyRun t sem input fuel s = .ok (c, s') → StInv P Q s'
  | 0, s, c, s', hi, h => by
    simp only [yyRun] at h
    cases h
    exact hi
  | f + 1, s, c, s', hi, h => by
    simp only [yyRun] at h
    split at h
    · cases h
    · rename_i code s2 hstep
      cases h
      obtain ⟨s1, hl, hm⟩ := yyStep_LR t sem input s _ hstep
      exact StInv_move hs hm (StInv_lex hs hl hi)
    · rename_i s2 hstep
      obtain ⟨s1, hl, hm⟩ := yyStep_LR t sem input s _ hstep
      exact yyRun_inv hs t input f s2 c s' (StInv_move hs hm (StInv_lex hs hl hi)) h

end PhpVerif
