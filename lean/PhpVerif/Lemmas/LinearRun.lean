import PhpVerif.Lemmas.Linear
import PhpVerif.Lemmas.YY
/-
The run-level lift of the resource analysis: as long as no error token has been shifted, the values on
the parser model's stack are jointly linear — every token index and every node identity occurs at most
once in all of them together — whatever the LALR tables make the driver do, provided every action path
that runs is `linOK`.
-/
namespace PhpVerif

def hasErrShift (tr : List YYEv) : Prop := ∃ e, YYEv.errShift e ∈ tr

/-- a production of the list `bad` has been reduced -/
def usedBad (bad : List Nat) (tr : List YYEv) : Prop := ∃ (prod st : Int), YYEv.reduce prod st ∈ tr ∧ prod.toNat ∈ bad

/-- the run has left the part the linearity theorem speaks about: an error token was shifted (recovery),
    or a production with a path the analysis cannot follow was reduced -/
def Exc (bad : List Nat) (tr : List YYEv) : Prop := hasErrShift tr ∨ usedBad bad tr

def stackVals (s : YYSt V TreeSt) : List V := s.stack.map (·.2)
def laB (s : YYSt V TreeSt) : Nat := if s.la.isSome then 1 else 0

structure LinInv (s : YYSt V TreeSt) : Prop where
  cnt : ∀ a, cnL a (stackVals s) ≤ 1
  tokB : ∀ i, 0 < cnL (.tok i) (stackVals s) → i + laB s < s.pos
  uidB : ∀ u, 0 < cnL (.uid u) (stackVals s) → u < s.aux.uid
  la : s.la.isSome = true → 0 < s.pos
  rootU : ∀ r, s.aux.root = some r → ∀ u, cn (.uid u) r ≤ 1
  rootT : ∀ r, s.aux.root = some r → ∃ c, ∀ i, i ≠ c → cn (.tok i) r ≤ 1

/-- every path of the table is linear -/
def AllLin (bad : List Nat) (tbl : PathTable) : Prop :=
  ∀ (i : Nat) (ps : List TPath), (tbl : Array (List TPath))[i]? = some ps → i ∉ bad → ∀ p ∈ ps, linOK p = true

theorem cnL_reverse (a : Leaf) : ∀ (l : List V), cnL a l.reverse = cnL a l
  | [] => by simp
  | v :: r => by
    rw [List.reverse_cons, cnL_append, cnL_reverse a r]
    simp; omega

theorem cnL_suffix (a : Leaf) {l1 l2 : List V} (h : l1 <:+ l2) : cnL a l1 ≤ cnL a l2 := by
  obtain ⟨t, rfl⟩ := h
  rw [cnL_append]; omega

theorem popN_vals {α : Type} : ∀ (n : Nat) (stk : List (Int × α)) (acc args : List α) (rest : List (Int × α)),
    popN n stk acc = some (args, rest) → acc.reverse ++ stk.map (·.2) = args.reverse ++ rest.map (·.2)
  | 0, stk, acc, args, rest, h => by
    simp only [popN] at h
    cases h
    rfl
  | n + 1, [], acc, args, rest, h => by simp [popN] at h
  | n + 1, (st, v) :: stk, acc, args, rest, h => by
    simp only [popN] at h
    have ih := popN_vals n stk (v :: acc) args rest h
    simpa using ih

theorem LinInv_lex {s s' : YYSt V TreeSt} (h : LexRel s s') (hi : LinInv s) : LinInv s' := by
  have hsv : stackVals s' = stackVals s := by simp [stackVals, h.stack]
  refine ⟨?_, ?_, ?_, ?_, ?_, ?_⟩
  · intro a; rw [hsv]; exact hi.cnt a
  · intro i hpos
    rw [hsv] at hpos
    have := hi.tokB i hpos
    rcases h.step with ⟨hp, hl⟩ | ⟨hp, hl, hs⟩
    · simp only [laB, hl, hp] at this ⊢; exact this
    · simp only [laB, hl, hs, hp] at this ⊢
      simp at this ⊢; omega
  · intro u hpos
    rw [hsv] at hpos
    rw [h.aux]
    exact hi.uidB u hpos
  · intro hsome
    rcases h.step with ⟨hp, hl⟩ | ⟨hp, _, _⟩
    · rw [hp]; exact hi.la (hl ▸ hsome)
    · omega
  · intro r hr; rw [h.aux] at hr; exact hi.rootU r hr
  · intro r hr; rw [h.aux] at hr; exact hi.rootT r hr

theorem yyDflt_cn (a : Leaf) (toks : Array TokKey) (combs : List PosComb) (tbl : PathTable) (args : List V) :
    cn a (yyDflt (treeSem toks combs tbl) args) ≤ cnL a args := by
  cases args with
  | nil => simp [yyDflt, treeSem]
  | cons x r => simp [yyDflt]

/-- what one reduction returns, and the root it may set -/
theorem reduceTree_linear (toks : Array TokKey) (combs : List PosComb) (tbl : PathTable) (bad : List Nat) (hl : AllLin bad tbl)
    (st : TreeSt) (prod : Int) (hnb : prod.toNat ∉ bad) (args : List V) (pos : Nat) (v : V) (st' : TreeSt)
    (h : reduceTree toks combs tbl st prod args (yyDflt (treeSem toks combs tbl) args) pos = .ok (v, st')) :
    ∃ n, st'.uid = st.uid + n ∧ (∀ a, cn a v ≤ cnL a args + freshCn st.uid n a) ∧
      (st'.root = st.root ∨ ∃ r, st'.root = some r ∧
        ∀ a, cn a r ≤ cnL a args + (if pos = 0 then 0 else if Leaf.tok (pos - 1) = a then 1 else 0) + freshCn st.uid n a) := by
  simp only [reduceTree] at h
  split at h
  · cases h
    refine ⟨0, rfl, ?_, .inl rfl⟩
    intro a
    have := yyDflt_cn a toks combs tbl args
    omega
  · rename_i ps hps
    split at h
    · cases h
    · rename_i p hfind
      split at h
      · cases h
      · cases h
        have hpm : p ∈ (tbl[prod.toNat]?).getD [] := List.mem_of_find?_eq_some hfind
        have hlin : linOK p = true := by
          cases hget : tbl[prod.toNat]? with
          | none => simp [hget] at hpm
          | some l =>
            simp only [hget, Option.getD_some] at hpm
            exact hl _ l hget hnb p hpm
        refine ⟨p.objs.length, rfl, ?_, ?_⟩
        · intro a
          have hp := (runPath_linear toks combs p args (if (pos == 0) = true then none else some (pos - 1)) st.uid hlin a).1
          cases hret : (runPath toks combs p args (if (pos == 0) = true then none else some (pos - 1)) st.uid).ret with
          | none =>
            simp only [Option.getD_none]
            have := yyDflt_cn a toks combs tbl args
            omega
          | some w =>
            simp only [Option.getD_some]
            exact hp w hret
        · cases hroot : (runPath toks combs p args (if (pos == 0) = true then none else some (pos - 1)) st.uid).root with
          | none =>
            left
            simp [hroot, HOrElse.hOrElse, OrElse.orElse, Option.orElse]
          | some r =>
            right
            refine ⟨r, by simp [hroot, HOrElse.hOrElse, OrElse.orElse, Option.orElse], ?_⟩
            intro a
            have hp := (runPath_linear toks combs p args (if (pos == 0) = true then none else some (pos - 1)) st.uid hlin a).2 r hroot
            have hc : resCn ⟨args, (if (pos == 0) = true then none else some (pos - 1)), st.uid⟩ a .cur =
                (if pos = 0 then 0 else if Leaf.tok (pos - 1) = a then 1 else 0) := by
              by_cases hz : pos = 0
              · simp [resCn, resLv, hz]
              · simp [resCn, resLv, hz, List.count_cons]
            rw [hc] at hp
            exact hp

theorem LinInv_move (toks : Array TokKey) (combs : List PosComb) (tbl : PathTable) (bad : List Nat) (hl : AllLin bad tbl)
    {s : YYSt V TreeSt} {r : YYRes V TreeSt} (h : LRMove (treeSem toks combs tbl) s r) (hi : LinInv s) :
    Exc bad (resState r).trace ∨ LinInv (resState r) := by
  cases h with
  | shift ns s' hla hstk hval haux hpos hlan _ =>
    right
    have hp : 0 < s.pos := hi.la hla
    have hsv : stackVals s' = .tok (s.pos - 1) :: stackVals s := by simp [stackVals, hstk, treeSem]
    have hlb : laB s = 1 := by simp [laB, hla]
    have hlb' : laB s' = 0 := by simp [laB, hlan]
    simp only [resState]
    refine ⟨?_, ?_, ?_, ?_, ?_, ?_⟩
    · intro a
      rw [hsv, cnL_cons, cn_tok]
      have := hi.cnt a
      split
      · rename_i heq
        subst heq
        have hz : cnL (.tok (s.pos - 1)) (stackVals s) = 0 := by
          cases hc : cnL (.tok (s.pos - 1)) (stackVals s) with
          | zero => rfl
          | succ k =>
            have := hi.tokB (s.pos - 1) (by omega)
            omega
        omega
      · omega
    · intro i hpos'
      rw [hsv, cnL_cons, cn_tok] at hpos'
      rw [hlb', hpos]
      split at hpos'
      · rename_i heq
        cases heq
        omega
      · have := hi.tokB i (by omega)
        omega
    · intro u hpos'
      rw [hsv, cnL_cons, cn_tok] at hpos'
      rw [haux]
      have : ¬ (Leaf.tok (s.pos - 1) = Leaf.uid u) := by intro e; cases e
      simp only [this, if_false] at hpos'
      exact hi.uidB u (by omega)
    · intro hh; rw [hlan] at hh; cases hh
    · intro r hr; rw [haux] at hr; exact hi.rootU r hr
    · intro r hr; rw [haux] at hr; exact hi.rootT r hr
  | stop code s' hsuf hval haux hpos hla _ =>
    right
    have hsuf' : stackVals s' <:+ stackVals s := by
      obtain ⟨t, ht⟩ := hsuf
      exact ⟨t.map (·.2), by simp [stackVals, ← ht]⟩
    have hlb : laB s' = laB s := by simp [laB, hla]
    simp only [resState]
    refine ⟨?_, ?_, ?_, ?_, ?_, ?_⟩
    · intro a; exact Nat.le_trans (cnL_suffix a hsuf') (hi.cnt a)
    · intro i hp
      rw [hlb, hpos]
      exact hi.tokB i (Nat.lt_of_lt_of_le hp (cnL_suffix _ hsuf'))
    · intro u hp
      rw [haux]
      exact hi.uidB u (Nat.lt_of_lt_of_le hp (cnL_suffix _ hsuf'))
    · rw [hla, hpos]; exact hi.la
    · intro r hr; rw [haux] at hr; exact hi.rootU r hr
    · intro r hr; rw [haux] at hr; exact hi.rootT r hr
  | discard s' hstk hval haux hpos hlan _ =>
    right
    have hsv : stackVals s' = stackVals s := by simp [stackVals, hstk]
    have hlb' : laB s' = 0 := by simp [laB, hlan]
    simp only [resState]
    refine ⟨?_, ?_, ?_, ?_, ?_, ?_⟩
    · intro a; rw [hsv]; exact hi.cnt a
    · intro i hp
      rw [hsv] at hp
      have := hi.tokB i hp
      rw [hlb', hpos]; omega
    · intro u hp
      rw [hsv] at hp; rw [haux]; exact hi.uidB u hp
    · intro hh; rw [hlan] at hh; cases hh
    · intro r hr; rw [haux] at hr; exact hi.rootU r hr
    · intro r hr; rw [haux] at hr; exact hi.rootT r hr
  | errShift ns st s' hsuf hstk hval haux hpos hla _ herr =>
    left
    exact .inl herr
  | reduce yyn ns n args rest v aux' s' hpop hred hstk hval haux hpos hla _ hev =>
    by_cases hnb : yyn.toNat ∈ bad
    · left
      obtain ⟨st0, hst0⟩ := hev
      exact .inr ⟨yyn, st0, hst0, hnb⟩
    right
    have hvals := popN_vals n s.stack [] args rest hpop
    simp only [List.reverse_nil, List.nil_append] at hvals
    have hsplit : ∀ a, cnL a (stackVals s) = cnL a args + cnL a (rest.map (·.2)) := by
      intro a
      simp only [stackVals]
      rw [hvals, cnL_append, cnL_reverse]
    have hsv : stackVals s' = v :: rest.map (·.2) := by simp [stackVals, hstk]
    have hlb : laB s' = laB s := by simp [laB, hla]
    obtain ⟨m, huid, hv, hroot⟩ := reduceTree_linear toks combs tbl bad hl s.aux yyn hnb args s.pos v aux' (by simpa [treeSem] using hred)
    -- a fresh identity is not on the stack
    have hfresh : ∀ a, freshCn s.aux.uid m a = 0 ∨ (freshCn s.aux.uid m a = 1 ∧ cnL a (stackVals s) = 0) := by
      intro a
      cases a with
      | tok i => left; exact freshCn_tok _ _ _
      | uid u =>
        rw [freshCn_uid]
        split
        · rename_i hu
          right
          refine ⟨rfl, ?_⟩
          cases hc : cnL (.uid u) (stackVals s) with
          | zero => rfl
          | succ k =>
            have := hi.uidB u (by omega)
            omega
        · left; rfl
    simp only [resState]
    refine ⟨?_, ?_, ?_, ?_, ?_, ?_⟩
    · intro a
      rw [hsv, cnL_cons]
      have h1 := hv a
      have h2 := hsplit a
      have h3 := hi.cnt a
      rcases hfresh a with h0 | ⟨h0, hz⟩ <;> omega
    · intro i hp
      rw [hsv, cnL_cons] at hp
      have h1 := hv (.tok i)
      rw [freshCn_tok] at h1
      have h2 := hsplit (.tok i)
      rw [hlb, hpos]
      exact hi.tokB i (by omega)
    · intro u hp
      rw [hsv, cnL_cons] at hp
      have h1 := hv (.uid u)
      have h2 := hsplit (.uid u)
      rw [haux, huid]
      rw [freshCn_uid] at h1
      split at h1
      · rename_i hu; omega
      · have := hi.uidB u (by omega)
        omega
    · rw [hla, hpos]; exact hi.la
    · intro r hr
      rw [haux] at hr
      rcases hroot with hsame | ⟨r', hr', hb⟩
      · rw [hsame] at hr; exact hi.rootU r hr
      · rw [hr'] at hr
        cases hr
        intro u
        have h1 := hb (.uid u)
        have h2 := hsplit (.uid u)
        have h3 := hi.cnt (.uid u)
        have hc : (if s.pos = 0 then 0 else if Leaf.tok (s.pos - 1) = Leaf.uid u then 1 else 0) = 0 := by
          split
          · rfl
          · have : ¬ (Leaf.tok (s.pos - 1) = Leaf.uid u) := by intro e; cases e
            simp [this]
        rw [hc] at h1
        rcases hfresh (.uid u) with h0 | ⟨h0, hz⟩ <;> omega
    · intro r hr
      rw [haux] at hr
      rcases hroot with hsame | ⟨r', hr', hb⟩
      · rw [hsame] at hr; exact hi.rootT r hr
      · rw [hr'] at hr
        cases hr
        refine ⟨s.pos - 1, ?_⟩
        intro i hne
        have h1 := hb (.tok i)
        rw [freshCn_tok] at h1
        have h2 := hsplit (.tok i)
        have h3 := hi.cnt (.tok i)
        have hc : (if s.pos = 0 then 0 else if Leaf.tok (s.pos - 1) = Leaf.tok i then 1 else 0) = 0 := by
          split
          · rfl
          · have : ¬ (Leaf.tok (s.pos - 1) = Leaf.tok i) := by intro e; cases e; exact hne rfl
            simp [this]
        rw [hc] at h1
        omega

theorem LinInv_init (toks : Array TokKey) (combs : List PosComb) (tbl : PathTable) :
    LinInv (yyInit (treeSem toks combs tbl) ({} : TreeSt)) := by
  refine ⟨?_, ?_, ?_, ?_, ?_, ?_⟩
  · intro a; simp [stackVals, yyInit, treeSem]
  · intro i h; simp [stackVals, yyInit, treeSem] at h
  · intro u h; simp [stackVals, yyInit, treeSem] at h
  · intro h; simp [yyInit] at h
  · intro r h; simp [yyInit] at h
  · intro r h; simp [yyInit] at h

theorem Exc_suffix {bad : List Nat} {a b : List YYEv} (h : a <:+ b) (ha : Exc bad a) : Exc bad b := by
  rcases ha with ⟨e, he⟩ | ⟨p, st, he, hb⟩
  · exact .inl ⟨e, h.subset he⟩
  · exact .inr ⟨p, st, h.subset he, hb⟩

theorem LRMove_trace {α σ : Type} {sem : YYSem α σ} {s : YYSt α σ} {r : YYRes α σ} (h : LRMove sem s r) :
    s.trace <:+ (resState r).trace := by
  cases h <;> simp only [resState] <;> assumption

/-- in every state a run reaches: an error token has been shifted, or the stack is jointly linear -/
theorem yyRun_linear (toks : Array TokKey) (combs : List PosComb) (tbl : PathTable) (bad : List Nat) (hl : AllLin bad tbl)
    (t : YYTab) (input : Array Nat) : ∀ (fuel : Nat) (s : YYSt V TreeSt) (c : Option Nat) (s' : YYSt V TreeSt),
    (Exc bad s.trace ∨ LinInv s) → yyRun t (treeSem toks combs tbl) input fuel s = .ok (c, s') →
    (Exc bad s'.trace ∨ LinInv s')
  | 0, s, c, s', hi, h => by
    simp only [yyRun] at h
    cases h
    exact hi
  | f + 1, s, c, s', hi, h => by
    simp only [yyRun] at h
    have step : ∀ r, yyStep t (treeSem toks combs tbl) input s = .ok r → (Exc bad (resState r).trace ∨ LinInv (resState r)) := by
      intro r hstep
      obtain ⟨s1, hlex, hm⟩ := yyStep_LR t _ input s r hstep
      rcases hi with he | hinv
      · left
        have := LRMove_trace hm
        rw [hlex.trace] at this
        exact Exc_suffix this he
      · exact LinInv_move toks combs tbl bad hl hm (LinInv_lex hlex hinv)
    split at h
    · cases h
    · rename_i code s2 hstep
      cases h
      exact step _ hstep
    · rename_i s2 hstep
      exact yyRun_linear toks combs tbl bad hl t input f s2 c s' (step _ hstep) h

/-- the table the driver builds from the list of paths holds, under index `i`, paths of production `i` from that list -/
theorem mkPathTable_mem (ps : List TPath) : ∀ (i : Nat) (l : List TPath), (mkPathTable ps : Array (List TPath))[i]? = some l →
    ∀ p ∈ l, p ∈ ps ∧ p.prod = i := by
  unfold mkPathTable
  generalize (ps.foldl (fun m p => max m (p.prod + 1)) 0) = n
  have key : ∀ (qs : List TPath), (∀ q ∈ qs, q ∈ ps) → ∀ (t : Array (List TPath)),
      (∀ i l, t[i]? = some l → ∀ p ∈ l, p ∈ ps ∧ p.prod = i) →
      (∀ i l, (qs.foldl (fun (t : Array (List TPath)) p => t.modify p.prod (fun l => l ++ [p])) t)[i]? = some l → ∀ p ∈ l, p ∈ ps ∧ p.prod = i) := by
    intro qs
    induction qs with
    | nil => intro _ t ht; simpa using ht
    | cons q r ih =>
      intro hq t ht
      simp only [List.foldl]
      apply ih (fun x hx => hq x (List.mem_cons_of_mem _ hx))
      intro i l hl p hp
      rw [Array.getElem?_modify] at hl
      split at hl
      · rename_i heq
        cases hti : t[i]? with
        | none => simp [hti] at hl
        | some l0 =>
          simp only [hti, Option.map_some, Option.some.injEq] at hl
          subst hl
          rcases List.mem_append.mp hp with h1 | h1
          · exact ht i l0 hti p h1
          · have : p = q := by simpa using h1
            subst this
            exact ⟨hq p (List.mem_cons_self ..), heq⟩
      · exact ht i l hl p hp
  apply key ps (fun q hq => hq)
  intro i l hl p hp
  rw [Array.getElem?_replicate] at hl
  split at hl
  · cases hl; cases hp
  · cases hl

end PhpVerif
