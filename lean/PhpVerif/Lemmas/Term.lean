import PhpVerif.Model.Term
/-
Value-level lemmas about M-TERM: the tokens a value holds (`V.toks`) and the bound `Bnd n v` — every
token of `v` is one of the first `n` tokens of the stream.  Evaluation of terms, node literals, stores
and folds only moves values around, so it preserves the bound: an action cannot invent a token.
-/
namespace PhpVerif

/-- the token a position boundary refers to -/
def PRef.toks : PRef → List Nat
  | .tok i => [i]
  | .absent => []

mutual
/-- the tokens of a value, in field order — those it holds and those its positions refer to -/
def V.toks : V → List Nat
  | .tok i => [i]
  | .node _ _ fs => toksL fs
  | .list xs => toksL xs
  | .nil => []
  | .pos s e => s.toks ++ e.toks
  | .bytes _ _ => []
  | .bad => []
def toksL : List V → List Nat
  | [] => []
  | v :: r => v.toks ++ toksL r
end

/-- every token of `v` is among the first `n` tokens lexed -/
def Bnd (n : Nat) (v : V) : Prop := ∀ i ∈ v.toks, i < n
def BndL (n : Nat) (l : List V) : Prop := ∀ i ∈ toksL l, i < n

theorem BndL_nil (n : Nat) : BndL n [] := by intro i h; simp [toksL] at h

theorem BndL_cons {n : Nat} {v : V} {l : List V} : BndL n (v :: l) ↔ Bnd n v ∧ BndL n l := by
  simp only [BndL, Bnd, toksL, List.mem_append]
  constructor
  · intro h; exact ⟨fun i hi => h i (.inl hi), fun i hi => h i (.inr hi)⟩
  · intro h i hi; rcases hi with hi | hi
    · exact h.1 i hi
    · exact h.2 i hi

theorem Bnd_node {n k u : Nat} {fs : List V} : Bnd n (.node k u fs) ↔ BndL n fs := by simp [Bnd, BndL, V.toks]
theorem Bnd_list {n : Nat} {xs : List V} : Bnd n (.list xs) ↔ BndL n xs := by simp [Bnd, BndL, V.toks]
theorem Bnd_nil (n : Nat) : Bnd n .nil := by intro i h; simp [V.toks] at h
theorem Bnd_bad (n : Nat) : Bnd n .bad := by intro i h; simp [V.toks] at h
theorem Bnd_pos {n : Nat} {a b : PRef} (ha : ∀ i ∈ a.toks, i < n) (hb : ∀ i ∈ b.toks, i < n) : Bnd n (.pos a b) := by
  intro i h
  simp only [V.toks, List.mem_append] at h
  cases h with
  | inl x => exact ha i x
  | inr x => exact hb i x
theorem Bnd_bytes (n : Nat) (p : List Nat) (j : Nat) : Bnd n (.bytes p j) := by intro i h; simp [V.toks] at h
theorem Bnd_tok {n j : Nat} (h : j < n) : Bnd n (.tok j) := by intro i hi; simp [V.toks] at hi; omega

theorem Bnd_mono {n m : Nat} (h : n ≤ m) {v : V} (hv : Bnd n v) : Bnd m v := fun i hi => Nat.lt_of_lt_of_le (hv i hi) h
theorem BndL_mono {n m : Nat} (h : n ≤ m) {l : List V} (hl : BndL n l) : BndL m l := fun i hi => Nat.lt_of_lt_of_le (hl i hi) h

theorem BndL_mem {n : Nat} : ∀ {l : List V} {v : V}, BndL n l → v ∈ l → Bnd n v
  | [], _, _, hm => by cases hm
  | a :: r, v, h, hm => by
    rcases List.mem_cons.mp hm with rfl | hm'
    · exact (BndL_cons.mp h).1
    · exact BndL_mem (BndL_cons.mp h).2 hm'

theorem BndL_of_mem {n : Nat} : ∀ {l : List V}, (∀ v ∈ l, Bnd n v) → BndL n l
  | [], _ => BndL_nil n
  | a :: r, h => BndL_cons.mpr ⟨h a (List.mem_cons_self ..), BndL_of_mem (fun v hv => h v (List.mem_cons_of_mem _ hv))⟩

theorem BndL_append {n : Nat} {a b : List V} (ha : BndL n a) (hb : BndL n b) : BndL n (a ++ b) :=
  BndL_of_mem (fun v hv => by
    rcases List.mem_append.mp hv with h | h
    · exact BndL_mem ha h
    · exact BndL_mem hb h)

theorem Bnd_getElem? {n : Nat} {l : List V} (hl : BndL n l) (k : Nat) : Bnd n ((l[k]?).getD .bad) := by
  cases h : l[k]? with
  | none => exact Bnd_bad n
  | some v => exact BndL_mem hl (List.mem_of_getElem? h)

theorem Bnd_getArg {n : Nat} {l : List V} (hl : BndL n l) (i : Nat) : Bnd n (getArg l i) := by
  unfold getArg
  split
  · exact Bnd_bad n
  · exact Bnd_getElem? hl _

theorem BndL_setNth {n : Nat} {x : V} (hx : Bnd n x) : ∀ {l : List V} (k : Nat), BndL n l → BndL n (setNth l k x)
  | [], _, h => by simpa [setNth] using h
  | a :: r, 0, h => by
    simp only [setNth]
    exact BndL_cons.mpr ⟨hx, (BndL_cons.mp h).2⟩
  | a :: r, k + 1, h => by
    simp only [setNth]
    exact BndL_cons.mpr ⟨(BndL_cons.mp h).1, BndL_setNth hx k (BndL_cons.mp h).2⟩

theorem lastV_mem : ∀ {l : List V} {v : V}, lastV l = some v → v ∈ l
  | [], _, h => by simp [lastV] at h
  | [x], v, h => by simp [lastV] at h; simp [h]
  | a :: b :: r, v, h => by
    simp only [lastV] at h
    exact List.mem_cons_of_mem _ (lastV_mem h)

theorem dropLastV_sub : ∀ (l : List V) (v : V), v ∈ dropLastV l → v ∈ l
  | [], _, h => by simp [dropLastV] at h
  | [x], _, h => by simp [dropLastV] at h
  | a :: b :: r, v, h => by
    simp only [dropLastV] at h
    rcases List.mem_cons.mp h with rfl | h'
    · exact List.mem_cons_self ..
    · exact List.mem_cons_of_mem _ (dropLastV_sub (b :: r) v h')

theorem BndL_setLastV {n : Nat} {x : V} (hx : Bnd n x) : ∀ {l : List V}, BndL n l → BndL n (setLastV l x)
  | [], h => by simpa [setLastV] using h
  | [a], _ => by simp only [setLastV]; exact BndL_cons.mpr ⟨hx, BndL_nil n⟩
  | a :: b :: r, h => by
    simp only [setLastV]
    exact BndL_cons.mpr ⟨(BndL_cons.mp h).1, BndL_setLastV hx (BndL_cons.mp h).2⟩

theorem nodeStart_bnd {n : Nat} {v : V} {r : PRef} (hv : Bnd n v) (h : nodeStart v = some r) : ∀ i ∈ r.toks, i < n := by
  unfold nodeStart at h
  split at h
  · cases h; intro i hi; simp [PRef.toks] at hi
  · rename_i k u s e rest
    cases h
    intro i hi
    exact hv i (by simp [V.toks, toksL, hi])
  · cases h; intro i hi; simp [PRef.toks] at hi
  · cases h

theorem nodeEnd_bnd {n : Nat} {v : V} {r : PRef} (hv : Bnd n v) (h : nodeEnd v = some r) : ∀ i ∈ r.toks, i < n := by
  unfold nodeEnd at h
  split at h
  · cases h; intro i hi; simp [PRef.toks] at hi
  · rename_i k u s e rest
    cases h
    intro i hi
    exact hv i (by simp [V.toks, toksL, hi])
  · cases h; intro i hi; simp [PRef.toks] at hi
  · cases h

theorem tokRef_eq {toks : Array TokKey} {i : Nat} {r : PRef} (h : tokRef toks i = some r) : r = .tok i := by
  unfold tokRef at h
  split at h
  · split at h
    · cases h; rfl
    · cases h
  · cases h

theorem startOf_bnd {n : Nat} (toks : Array TokKey) (sort : Nat) {v : V} {r : PRef} (hv : Bnd n v)
    (h : startOf toks sort v = some r) : ∀ i ∈ r.toks, i < n := by
  unfold startOf at h
  split at h
  · split at h
    · rename_i j
      have := tokRef_eq h
      subst this
      intro i hi
      exact hv i (by simpa [V.toks, PRef.toks] using hi)
    · cases h
  · split at h
    · exact nodeStart_bnd hv h
    · split at h
      · cases h; intro i hi; simp [PRef.toks] at hi
      · cases h; intro i hi; simp [PRef.toks] at hi
      · rename_i x rest
        exact nodeStart_bnd (BndL_mem (Bnd_list.mp hv) (List.mem_cons_self ..)) h
      · cases h

theorem endOf_bnd {n : Nat} (toks : Array TokKey) (sort : Nat) {v : V} {r : PRef} (hv : Bnd n v)
    (h : endOf toks sort v = some r) : ∀ i ∈ r.toks, i < n := by
  unfold endOf at h
  split at h
  · split at h
    · rename_i j
      have := tokRef_eq h
      subst this
      intro i hi
      exact hv i (by simpa [V.toks, PRef.toks] using hi)
    · cases h
  · split at h
    · exact nodeEnd_bnd hv h
    · split at h
      · cases h; intro i hi; simp [PRef.toks] at hi
      · rename_i l
        split at h
        · cases h; intro i hi; simp [PRef.toks] at hi
        · rename_i x hx
          exact nodeEnd_bnd (BndL_mem (Bnd_list.mp hv) (lastV_mem hx)) h
      · cases h

theorem Bnd_evalPos (n : Nat) (toks : Array TokKey) (combs : List PosComb) (comb : Nat) (args : List V) (ha : BndL n args) :
    Bnd n (evalPos toks combs comb args) := by
  unfold evalPos
  split
  · exact Bnd_bad n
  · simp only
    split
    · rename_i s e hs he
      exact Bnd_pos (startOf_bnd toks _ (Bnd_getElem? ha _) hs) (endOf_bnd toks _ (Bnd_getElem? ha _) he)
    · exact Bnd_bad n

theorem Bnd_chainStep {n : Nat} (toks : Array TokKey) (combs : List PosComb) (tbl : List (Nat × Nat)) {acc x : V}
    (ha : Bnd n acc) (hx : Bnd n x) : Bnd n (chainStep toks combs tbl acc x) := by
  unfold chainStep
  split
  · split
    · exact Bnd_node.mpr (BndL_setNth (Bnd_evalPos n _ _ _ _ (BndL_cons.mpr ⟨ha, BndL_cons.mpr ⟨hx, BndL_nil n⟩⟩)) _ (BndL_setNth ha _ (Bnd_node.mp hx)))
    · exact ha
  · exact ha

theorem Bnd_nestStep {n : Nat} (toks : Array TokKey) (combs : List PosComb) (tbl : List (Nat × Nat)) {x inner : V}
    (hx : Bnd n x) (hi : Bnd n inner) : Bnd n (nestStep toks combs tbl x inner) := by
  unfold nestStep
  split
  · split
    · exact Bnd_node.mpr (BndL_setNth (Bnd_evalPos n _ _ _ _ (BndL_cons.mpr ⟨hx, BndL_cons.mpr ⟨hi, BndL_nil n⟩⟩)) _ (BndL_setNth hi _ (Bnd_node.mp hx)))
    · exact Bnd_bad n
  · exact Bnd_bad n

theorem Bnd_foldl_chain {n : Nat} (toks : Array TokKey) (combs : List PosComb) (tbl : List (Nat × Nat)) :
    ∀ (xs : List V) (acc : V), BndL n xs → Bnd n acc → Bnd n (xs.foldl (chainStep toks combs tbl) acc)
  | [], acc, _, ha => ha
  | x :: r, acc, hx, ha => by
    simp only [List.foldl]
    exact Bnd_foldl_chain toks combs tbl r _ (BndL_cons.mp hx).2 (Bnd_chainStep toks combs tbl ha (BndL_cons.mp hx).1)

theorem Bnd_foldr_nest {n : Nat} (toks : Array TokKey) (combs : List PosComb) (tbl : List (Nat × Nat)) :
    ∀ (xs : List V) (inner : V), BndL n xs → Bnd n inner → Bnd n (xs.foldr (nestStep toks combs tbl) inner)
  | [], inner, _, hi => hi
  | x :: r, inner, hx, hi => by
    simp only [List.foldr]
    exact Bnd_nestStep toks combs tbl (BndL_cons.mp hx).1 (Bnd_foldr_nest toks combs tbl r inner (BndL_cons.mp hx).2 hi)

/-- a context all of whose values hold only tokens among the first `n` -/
structure CtxBnd (n : Nat) (c : ECtx) : Prop where
  envs : ∀ env ∈ c.envs, BndL n env
  objs : BndL n c.objs
  cur : ∀ i, c.cur = some i → i < n

theorem BndL_lastEnv {n : Nat} : ∀ {envs : List (List V)}, (∀ env ∈ envs, BndL n env) → BndL n (lastEnv envs)
  | [], _ => BndL_nil n
  | [e], h => h e (List.mem_cons_self ..)
  | a :: b :: r, h => by
    simp only [lastEnv]
    exact BndL_lastEnv (fun env he => h env (List.mem_cons_of_mem _ he))

theorem BndL_envAt {n : Nat} {envs : List (List V)} (h : ∀ env ∈ envs, BndL n env) (k : Nat) : BndL n (envAt envs k) := by
  unfold envAt
  split
  · rename_i e he
    exact h e (List.mem_of_getElem? he)
  · exact BndL_lastEnv h

mutual
/-- evaluation cannot invent a token -/
theorem Bnd_evalTm {n : Nat} {c : ECtx} (hc : CtxBnd n c) : ∀ (t : Tm), Bnd n (evalTm c t)
  | .argAt k i => by simp only [evalTm]; exact Bnd_getArg (BndL_envAt hc.envs k) i
  | .arg i => by simp only [evalTm]; exact Bnd_getArg (BndL_lastEnv hc.envs) i
  | .cur => by
    simp only [evalTm]
    split
    · rename_i i hi; exact Bnd_tok (hc.cur i hi)
    · exact Bnd_nil n
  | .nil => by simp only [evalTm]; exact Bnd_nil n
  | .fld t k => by
    simp only [evalTm]
    have ih := Bnd_evalTm hc t
    split
    · rename_i kk u fs heq
      rw [heq] at ih
      exact Bnd_getElem? (Bnd_node.mp ih) k
    · exact Bnd_bad n
  | .obj j => by simp only [evalTm]; exact Bnd_getElem? hc.objs j
  | .list xs => by simp only [evalTm]; exact Bnd_list.mpr (BndL_evalTms hc xs)
  | .app b xs => by
    simp only [evalTm]
    have ihb := Bnd_evalTm hc b
    have ihx := BndL_evalTms hc xs
    split
    · exact ihb
    · exact Bnd_list.mpr ihx
    · rename_i l heq
      rw [heq] at ihb
      exact Bnd_list.mpr (BndL_append (Bnd_list.mp ihb) ihx)
    · exact Bnd_bad n
  | .cat a b => by
    simp only [evalTm]
    have iha := Bnd_evalTm hc a
    have ihb := Bnd_evalTm hc b
    split
    · exact iha
    · exact iha
    · rename_i l _ heq
      rw [heq] at ihb
      exact ihb
    · rename_i l m h1 h2
      rw [h1] at iha
      rw [h2] at ihb
      exact Bnd_list.mpr (BndL_append (Bnd_list.mp iha) (Bnd_list.mp ihb))
    · exact Bnd_bad n
  | .idx0 t => by
    simp only [evalTm]
    have ih := Bnd_evalTm hc t
    split
    · rename_i x r heq
      rw [heq] at ih
      exact (BndL_cons.mp (Bnd_list.mp ih)).1
    · exact Bnd_bad n
  | .last t => by
    simp only [evalTm]
    have ih := Bnd_evalTm hc t
    split
    · rename_i l heq
      rw [heq] at ih
      cases hl : lastV l with
      | none => exact Bnd_bad n
      | some v => exact BndL_mem (Bnd_list.mp ih) (lastV_mem hl)
    · exact Bnd_bad n
  | .tail t => by
    simp only [evalTm]
    have ih := Bnd_evalTm hc t
    split
    · rename_i x r heq
      rw [heq] at ih
      exact Bnd_list.mpr (BndL_cons.mp (Bnd_list.mp ih)).2
    · exact Bnd_bad n
  | .init t => by
    simp only [evalTm]
    have ih := Bnd_evalTm hc t
    split
    · rename_i x r heq
      rw [heq] at ih
      exact Bnd_list.mpr (BndL_of_mem (fun v hv => BndL_mem (Bnd_list.mp ih) (dropLastV_sub _ v hv)))
    · exact Bnd_bad n
  | .bytes pre t => by
    simp only [evalTm]
    split
    · exact Bnd_bytes n _ _
    · exact Bnd_bad n
  | .pos comb args => by simp only [evalTm]; exact Bnd_evalPos n _ _ _ _ (BndL_evalTms hc args)
  | .chain acc l tbl => by
    simp only [evalTm]
    have iha := Bnd_evalTm hc acc
    have ihl := Bnd_evalTm hc l
    split
    · exact iha
    · rename_i xs heq
      rw [heq] at ihl
      exact Bnd_foldl_chain c.toks c.combs tbl xs _ (Bnd_list.mp ihl) iha
    · exact Bnd_bad n
  | .nest l inner tbl => by
    simp only [evalTm]
    have ihl := Bnd_evalTm hc l
    have ihi := Bnd_evalTm hc inner
    split
    · rename_i x r heq
      rw [heq] at ihl
      exact Bnd_foldr_nest c.toks c.combs tbl (x :: r) _ (Bnd_list.mp ihl) ihi
    · exact Bnd_bad n
theorem BndL_evalTms {n : Nat} {c : ECtx} (hc : CtxBnd n c) : ∀ (ts : List Tm), BndL n (evalTms c ts)
  | [] => by simp only [evalTms]; exact BndL_nil n
  | t :: r => by
    simp only [evalTms]
    exact BndL_cons.mpr ⟨Bnd_evalTm hc t, BndL_evalTms hc r⟩
end

theorem BndL_evalObjs {n : Nat} {c : ECtx} (hc : CtxBnd n c) (uid0 : Nat) : ∀ (os : List ObjLit) (acc : List V),
    BndL n acc → BndL n (evalObjs c uid0 os acc)
  | [], acc, h => by simpa [evalObjs] using h
  | o :: os, acc, h => by
    simp only [evalObjs]
    refine BndL_evalObjs hc uid0 os _ (BndL_append h (BndL_cons.mpr ⟨?_, BndL_nil n⟩))
    exact Bnd_node.mpr (BndL_evalTms (c := { c with objs := acc }) ⟨hc.envs, h, hc.cur⟩ o.fields)

theorem Bnd_setPath {n : Nat} {x : V} (hx : Bnd n x) : ∀ (path : List Nat) (v : V) (field : Nat), Bnd n v → Bnd n (setPath v path field x)
  | [], v, field, hv => by
    cases v <;> simp only [setPath] <;> try exact Bnd_bad n
    case node k u fs =>
      split
      · exact Bnd_node.mpr (BndL_setNth hx _ (Bnd_node.mp hv))
      · exact Bnd_bad n
  | p :: ps, v, field, hv => by
    cases v <;> (try simp only [setPath]) <;> try exact Bnd_bad n
    case node k u fs =>
      split
      · rename_i sub hsub
        have hsubB : Bnd n sub := BndL_mem (Bnd_node.mp hv) (List.mem_of_getElem? hsub)
        exact Bnd_node.mpr (BndL_setNth (Bnd_setPath hx ps sub field hsubB) _ (Bnd_node.mp hv))
      · exact Bnd_bad n
    case list xs =>
      cases xs with
      | nil => simp only [setPath]; exact Bnd_bad n
      | cons a r =>
        simp only [setPath]
        have hl := Bnd_list.mp hv
        split
        · exact Bnd_list.mpr (BndL_cons.mpr ⟨Bnd_setPath hx ps a field (BndL_cons.mp hl).1, (BndL_cons.mp hl).2⟩)
        · split
          · split
            · rename_i z hz
              exact Bnd_list.mpr (BndL_setLastV (Bnd_setPath hx ps z field (BndL_mem hl (lastV_mem hz))) hl)
            · exact Bnd_bad n
          · exact Bnd_bad n

end PhpVerif
