import PhpVerif.Model.ScanBlocks
namespace PhpVerif.Scan

/-- state invariant along a path -/
def G (seen : Bool) (prev : Nat) (s : St) : Prop :=
  (seen = false → s.pos = none) ∧ (seen = true → s.pos = some (s.ts, s.te)) ∧
  (prev = 8 → s.te = s.ts + 5) ∧ AllFF s

theorem allFF_append {s : St} {x : (Nat × Nat) × (Nat × Nat)} (h : AllFF s) (hx : x.1 = x.2) :
    ∀ f ∈ s.ffs ++ [x], f.1 = f.2 := by
  intro f hf
  rcases List.mem_append.1 hf with h1 | h1
  · exact h f h1
  · simp at h1; subst h1; exact hx

/-- one path: the position, if taken, is (ts, te) at the moment Lex slices the value, a token is
    returned iff its position was taken, every free-floating token's value slice is its position -/
theorem path_sound (ops : List BOp) : ∀ (seen : Bool) (prev : Nat) (s : St),
    pathOK seen prev (ops.map BOp.code) = true → G seen prev s →
    AllFF (exec ops s) ∧
    (((exec ops s).pos = none ∧ BOp.out ∉ ops) ∨
     ((exec ops s).pos = some ((exec ops s).ts, (exec ops s).te) ∧ BOp.out ∈ ops)) := by
  induction ops with
  | nil =>
    intro seen prev s h g
    simp only [List.map_nil, pathOK, Bool.not_eq_true'] at h
    exact ⟨g.2.2.2, Or.inl ⟨g.1 h, by simp⟩⟩
  | cons op r ih =>
    intro seen prev s h g
    obtain ⟨g1, g2, g3, g4⟩ := g
    cases op with
    | setTe v =>
      simp [pathOK, BOp.code] at h
      have := ih seen 1 (step s (.setTe v)) h.2 ⟨by intro hs; simpa [step] using g1 hs, by intro hs; simp [h.1] at hs, by simp, by simpa [AllFF, step] using g4⟩
      simpa [exec] using this
    | setTs v =>
      simp [pathOK, BOp.code] at h
      have := ih seen 1 (step s (.setTs v)) h.2 ⟨by intro hs; simpa [step] using g1 hs, by intro hs; simp [h.1] at hs, by simp, by simpa [AllFF, step] using g4⟩
      simpa [exec] using this
    | te5 =>
      simp [pathOK, BOp.code] at h
      have := ih seen 8 (step s .te5) h.2 ⟨by intro hs; simpa [step] using g1 hs, by intro hs; simp [h.1] at hs, by simp [step], by simpa [AllFF, step] using g4⟩
      simpa [exec] using this
    | setPos =>
      simp [pathOK, BOp.code] at h
      have := ih true 2 (step s .setPos) h.2 ⟨by simp, by simp [step], by simp, by simpa [AllFF, step] using g4⟩
      simpa [exec] using this
    | ff =>
      simp [pathOK, BOp.code] at h
      have := ih seen 3 (step s .ff) h.2 ⟨by intro hs; simpa [step] using g1 hs, by intro hs; simp [h.1] at hs, by simp,
        by simpa [AllFF, step] using allFF_append g4 (x := ((s.ts, s.te), (s.ts, s.te))) rfl⟩
      simpa [exec] using this
    | ff5 =>
      simp [pathOK, BOp.code] at h
      obtain ⟨⟨hseen, hp8⟩, hrest⟩ := h
      have hte := g3 hp8
      have := ih seen 6 (step s .ff5) hrest ⟨by intro hs; simpa [step] using g1 hs, by intro hs; simp [hseen] at hs, by simp,
        by simpa [AllFF, step] using allFF_append g4 (x := ((s.ts, s.ts + 5), (s.ts, s.te))) (by simp [hte])⟩
      simpa [exec] using this
    | bad => simp [pathOK, BOp.code] at h
    | out =>
      simp [pathOK, BOp.code] at h
      obtain ⟨hs, hr⟩ := h
      cases r with
      | nil =>
        refine ⟨by simpa [exec, step] using g4, Or.inr ⟨?_, by simp⟩⟩
        simpa [exec, step] using g2 hs
      | cons x xs => simp at hr

/-- a whole Lex call over paths of the table: the returned token's Position is the slice its
    Value is taken from, and so is every free-floating token's -/
theorem run_sound (ok : List Nat → Bool) (hok : ∀ c, ok c = true → pathOK false 0 c = true) :
    ∀ (blocks : List (Nat × Nat × List BOp)) (s : St),
      (∀ b ∈ blocks, ok (b.2.2.map BOp.code) = true) → s.pos = none → AllFF s →
      AllFF (execRun blocks s) ∧
      ((execRun blocks s).pos = none ∨
       (execRun blocks s).pos = some ((execRun blocks s).ts, (execRun blocks s).te)) := by
  intro blocks
  induction blocks with
  | nil => intro s _ hp hf; exact ⟨hf, Or.inl hp⟩
  | cons b r ih =>
    intro s hb hp hf
    obtain ⟨ts, te, ops⟩ := b
    have hpath := hok _ (hb (ts, te, ops) (by simp))
    have g : G false 0 { s with ts := ts, te := te } := ⟨fun _ => hp, by simp, by simp, hf⟩
    obtain ⟨h1, h2⟩ := path_sound ops false 0 _ hpath g
    simp only [execRun]
    rcases h2 with ⟨hn, ho⟩ | ⟨hs, ho⟩
    · have : ops.contains BOp.out = false := by simpa using ho
      simp only [this, Bool.false_eq_true, if_false]
      exact ih _ (fun b hb' => hb b (by simp [hb'])) hn h1
    · have : ops.contains BOp.out = true := by simpa using ho
      simp only [this, if_true]
      exact ⟨h1, Or.inr hs⟩

end PhpVerif.Scan
