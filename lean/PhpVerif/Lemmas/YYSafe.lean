import PhpVerif.Model.YY
import PhpVerif.Lemmas.YY
/-
Index safety of the goyacc driver over the regenerated LALR tables (C01): `tablesOK` is a decidable
condition on the tables (kernel-evaluated on the real tables in Props/Parser.lean); under it no table
read of the driver model is ever out of range, for every token sequence, every state the run reaches
and every semantic action.  (In Go an out-of-range read is an index panic.)
-/
namespace PhpVerif

/-- a result that is not an index fault; when it is a value, the value satisfies `post` -/
def Safe {β : Type} (r : Except YYFault β) (post : β → Prop) : Prop :=
  match r with
  | .ok v => post v
  | .error (.index _ _) => False
  | .error _ => True

theorem Safe.bind {β γ : Type} {x : Except YYFault β} {f : β → Except YYFault γ} {P : β → Prop} {Q : γ → Prop}
    (hx : Safe x P) (hf : ∀ v, P v → Safe (f v) Q) : Safe (x >>= f) Q := by
  cases x with
  | ok v => exact hf v hx
  | error e =>
    cases e with
    | index tb i => exact hx.elim
    | underflow => trivial
    | sem m => trivial

theorem Safe.pure {β : Type} {v : β} {P : β → Prop} (h : P v) : Safe (pure v : Except YYFault β) P := h

theorem Safe.ite {β : Type} {c : Prop} [Decidable c] {a b : Except YYFault β} {P : β → Prop}
    (ha : c → Safe a P) (hb : ¬c → Safe b P) : Safe (if c then a else b) P := by
  by_cases h : c
  · rw [if_pos h]; exact ha h
  · rw [if_neg h]; exact hb h

theorem Safe.mono {β : Type} {r : Except YYFault β} {P Q : β → Prop} (h : Safe r P) (hpq : ∀ v, P v → Q v) : Safe r Q := by
  cases r with
  | ok v => exact hpq v h
  | error e => cases e <;> first | exact h | trivial

/-- decode an entry -/
def dec (off : Nat) (v : Nat) : Int := (v : Int) - (off : Int)

/-- reading inside the table succeeds with the decoded entry -/
theorem rd_ok (tb : Nat) (l : List Nat) (off : Nat) (i : Int) (h0 : 0 ≤ i) (h1 : i < l.length) :
    ∃ x, l[i.toNat]? = some x ∧ rd tb l.toArray off i = .ok (dec off x) := by
  have hlt : i.toNat < l.length := by omega
  refine ⟨l[i.toNat], by simp [hlt], ?_⟩
  unfold rd
  have : ¬ i < 0 := by omega
  simp [this, hlt, dec]

theorem rd_safe (tb : Nat) (l : List Nat) (off : Nat) (i : Int) (h0 : 0 ≤ i) (h1 : i < l.length) (P : Int → Prop)
    (hall : ∀ x ∈ l, P (dec off x)) : Safe (rd tb l.toArray off i) P := by
  obtain ⟨x, hx, hr⟩ := rd_ok tb l off i h0 h1
  rw [hr]
  exact hall x (List.mem_of_getElem? hx)

/-- the decidable condition on the tables -/
def entriesIn (l : List Nat) (off : Nat) (lo hi : Int) : Bool := l.all (fun v => decide (lo ≤ dec off v) && decide (dec off v < hi))

theorem entriesIn_spec {l : List Nat} {off : Nat} {lo hi : Int} (h : entriesIn l off lo hi = true) :
    ∀ x ∈ l, lo ≤ dec off x ∧ dec off x < hi := by
  intro x hx
  have := List.all_eq_true.mp h x hx
  simpa using this

/-- the row of the exception table that starts at `xi`: every action is a production number, 0 or negative; the row ends -/
def excaRowOK (e : List Nat) (off : Nat) (nprod : Int) : Nat → Nat → Bool
  | 0, _ => false
  | f + 1, xi =>
    match e[xi]?, e[xi + 1]? with
    | some a, some b => decide (dec off b < nprod) && (decide (dec off a < 0) || excaRowOK e off nprod f (xi + 2))
    | _, _ => false

/-- the header `-1, state` is found at an even offset and its row is well formed -/
def excaStateOK (e : List Nat) (off : Nat) (nprod : Int) (state : Int) : Nat → Nat → Bool
  | 0, _ => false
  | f + 1, xi =>
    match e[xi]?, e[xi + 1]? with
    | some a, some b =>
      if dec off a == -1 && dec off b == state then excaRowOK e off nprod e.length (xi + 2)
      else excaStateOK e off nprod state f (xi + 2)
    | _, _ => false

def statesFrom (dflt : List Nat) (off : Nat) (e : List Nat) (nprod : Int) : List Nat → Nat → Bool
  | [], _ => true
  | d :: r, st => (dec off d != -2 || excaStateOK e off nprod st e.length 0) && statesFrom dflt off e nprod r (st + 1)

def lastNat : List Nat → Option Nat
  | [] => none
  | [a] => some a
  | _ :: r => lastNat r

/-- an unpaired last entry of yyTok3 is never equal to a positive external token number -/
def tok3OK (l : List Nat) (off : Nat) : Bool :=
  l.length % 2 == 0 || (match lastNat l with
    | some a => decide (dec off a ≤ 0)
    | none => true)

def tablesOK (t : YYTabL) : Bool :=
  let N : Int := t.pact.length
  let nprod : Int := t.r2.length
  t.chk.length == t.pact.length && t.dflt.length == t.pact.length && t.r1.length == t.r2.length &&
  decide (t.last ≤ t.act.length) &&
  entriesIn t.act t.off 0 N &&
  entriesIn t.pgo t.off 0 t.act.length &&
  entriesIn t.r1 t.off 0 t.pgo.length &&
  entriesIn t.r2 t.off 0 (t.off : Int) &&
  t.dflt.all (fun v => dec t.off v == -2 || (decide (0 ≤ dec t.off v) && decide (dec t.off v < nprod))) &&
  decide (0 < t.tok1.length) && decide (2 ≤ t.tok2.length) &&
  tok3OK t.tok3 t.off &&
  statesFrom t.dflt t.off t.exca nprod t.dflt 0

structure TabFacts (tl : YYTabL) : Prop where
  chkLen : tl.chk.length = tl.pact.length
  dfltLen : tl.dflt.length = tl.pact.length
  r1Len : tl.r1.length = tl.r2.length
  last : tl.last ≤ tl.act.length
  act : ∀ x ∈ tl.act, 0 ≤ dec tl.off x ∧ dec tl.off x < (tl.pact.length : Int)
  pgo : ∀ x ∈ tl.pgo, 0 ≤ dec tl.off x ∧ dec tl.off x < (tl.act.length : Int)
  r1 : ∀ x ∈ tl.r1, 0 ≤ dec tl.off x ∧ dec tl.off x < (tl.pgo.length : Int)
  r2 : ∀ x ∈ tl.r2, 0 ≤ dec tl.off x ∧ dec tl.off x < (tl.off : Int)
  dflt : ∀ x ∈ tl.dflt, dec tl.off x = -2 ∨ (0 ≤ dec tl.off x ∧ dec tl.off x < (tl.r2.length : Int))
  tok1 : 0 < tl.tok1.length
  tok2 : 2 ≤ tl.tok2.length
  tok3 : tok3OK tl.tok3 tl.off = true
  exca : statesFrom tl.dflt tl.off tl.exca tl.r2.length tl.dflt 0 = true

theorem tabFacts_of_ok {tl : YYTabL} (h : tablesOK tl = true) : TabFacts tl := by
  simp only [tablesOK, Bool.and_eq_true, beq_iff_eq, decide_eq_true_eq] at h
  obtain ⟨⟨⟨⟨⟨⟨⟨⟨⟨⟨⟨⟨h1, h2⟩, h3⟩, h4⟩, h5⟩, h6⟩, h7⟩, h8⟩, h9⟩, h10⟩, h11⟩, h12⟩, h13⟩ := h
  refine ⟨h1, h2, h3, h4, entriesIn_spec h5, entriesIn_spec h6, entriesIn_spec h7, entriesIn_spec h8, ?_, h10, h11, h12, h13⟩
  intro x hx
  have := List.all_eq_true.mp h9 x hx
  simp only [Bool.or_eq_true, beq_iff_eq, Bool.and_eq_true, decide_eq_true_eq] at this
  exact this

section
variable {tl : YYTabL}

/-- a state number the tables know -/
def VS (tl : YYTabL) (st : Int) : Prop := 0 ≤ st ∧ st < (tl.pact.length : Int)
/-- a production number -/
def VP (tl : YYTabL) (p : Int) : Prop := 0 ≤ p ∧ p < (tl.r2.length : Int)

@[simp] theorem toArr_last : tl.toArr.last = tl.last := rfl
@[simp] theorem toArr_errCode : tl.toArr.errCode = tl.errCode := rfl
@[simp] theorem toArr_flag : tl.toArr.flag = tl.flag := rfl
@[simp] theorem toArr_priv : tl.toArr.priv = tl.priv := rfl
@[simp] theorem toArr_eofCode : tl.toArr.eofCode = tl.eofCode := rfl
@[simp] theorem toArr_tok1_size : tl.toArr.tok1.size = tl.tok1.length := by simp [YYTabL.toArr]
@[simp] theorem toArr_tok2_size : tl.toArr.tok2.size = tl.tok2.length := by simp [YYTabL.toArr]
@[simp] theorem toArr_tok3_size : tl.toArr.tok3.size = tl.tok3.length := by simp [YYTabL.toArr]
@[simp] theorem toArr_exca_size : tl.toArr.exca.size = tl.exca.length := by simp [YYTabL.toArr]

theorem Pact_safe {st : Int} (h : VS tl st) : Safe (tl.toArr.Pact st) (fun _ => True) :=
  rd_safe 1 tl.pact tl.off st h.1 h.2 _ (fun _ _ => trivial)

theorem Act_safe (F : TabFacts tl) {n : Int} (h0 : 0 ≤ n) (h1 : n < (tl.act.length : Int)) : Safe (tl.toArr.Act n) (VS tl) :=
  rd_safe 0 tl.act tl.off n h0 h1 _ (fun x hx => F.act x hx)

theorem Chk_safe (F : TabFacts tl) {st : Int} (h : VS tl st) : Safe (tl.toArr.Chk st) (fun _ => True) :=
  rd_safe 5 tl.chk tl.off st h.1 (by rw [F.chkLen]; exact h.2) _ (fun _ _ => trivial)

theorem R2_safe (F : TabFacts tl) {p : Int} (h : VP tl p) : Safe (tl.toArr.R2 p) (fun n => 0 ≤ n) :=
  rd_safe 4 tl.r2 tl.off p h.1 h.2 _ (fun x hx => (F.r2 x hx).1)

theorem R1_safe (F : TabFacts tl) {p : Int} (h : VP tl p) : Safe (tl.toArr.R1 p) (fun l => 0 ≤ l ∧ l < (tl.pgo.length : Int)) :=
  rd_safe 3 tl.r1 tl.off p h.1 (by rw [F.r1Len]; exact h.2) _ (fun x hx => F.r1 x hx)

theorem Pgo_safe (F : TabFacts tl) {l : Int} (h0 : 0 ≤ l) (h1 : l < (tl.pgo.length : Int)) :
    Safe (tl.toArr.Pgo l) (fun g => 0 ≤ g ∧ g < (tl.act.length : Int)) :=
  rd_safe 2 tl.pgo tl.off l h0 h1 _ (fun x hx => F.pgo x hx)

theorem gotoState_safe (F : TabFacts tl) {lhs exposed : Int} (hl : 0 ≤ lhs ∧ lhs < (tl.pgo.length : Int)) (he : VS tl exposed) :
    Safe (gotoState tl.toArr lhs exposed) (VS tl) := by
  unfold gotoState
  refine Safe.bind (Pgo_safe F hl.1 hl.2) (fun g hg => ?_)
  have hlast : (tl.last : Int) ≤ (tl.act.length : Int) := by exact_mod_cast F.last
  dsimp only
  refine Safe.ite (fun _ => Act_safe F hg.1 hg.2) (fun hj => ?_)
  simp only [toArr_last] at hj
  refine Safe.bind (Act_safe F (by have := he.1; omega) (by omega)) (fun st hst => ?_)
  refine Safe.bind (Chk_safe F hst) (fun c _ => ?_)
  exact Safe.ite (fun _ => Act_safe F hg.1 hg.2) (fun _ => Safe.pure hst)

theorem errShiftState_safe (F : TabFacts tl) {st : Int} (h : VS tl st) :
    Safe (errShiftState tl.toArr st) (fun r => ∀ ns, r = some ns → VS tl ns) := by
  unfold errShiftState
  refine Safe.bind (Pact_safe h) (fun p _ => ?_)
  have hlast : (tl.last : Int) ≤ (tl.act.length : Int) := by exact_mod_cast F.last
  dsimp only
  refine Safe.ite (fun hn => ?_) (fun _ => ?_)
  · simp only [toArr_last, toArr_errCode] at hn
    have he : ((tl.toArr.errCode : Nat) : Int) = (tl.errCode : Int) := rfl
    refine Safe.bind (Act_safe F (by omega) (by omega)) (fun ns hns => ?_)
    refine Safe.bind (Chk_safe F hns) (fun c _ => ?_)
    apply Safe.pure
    intro ns' h'
    split at h'
    · cases h'; exact hns
    · cases h'
  · apply Safe.pure
    intro ns' h'
    cases h'

theorem lastNat_getElem? : ∀ (l : List Nat), l ≠ [] → lastNat l = l[l.length - 1]?
  | [], h => absurd rfl h
  | [a], _ => by simp [lastNat]
  | a :: b :: r, _ => by
    simp only [lastNat]
    rw [lastNat_getElem? (b :: r) (by simp)]
    simp

theorem tok3Loop_safe (F : TabFacts tl) {char : Int} (hc : 0 < char) : ∀ (f k : Nat),
    Safe (tok3Loop tl.toArr char f ((2 * k : Nat) : Int)) (fun _ => True)
  | 0, _ => by simp [tok3Loop, Safe]
  | f + 1, k => by
    unfold tok3Loop
    refine Safe.ite (fun hi => ?_) (fun _ => by simp [Safe, pure, Except.pure])
    simp only [toArr_tok3_size] at hi
    have hi' : 2 * k < tl.tok3.length := by omega
    obtain ⟨x, hx, hr⟩ := rd_ok 10 tl.tok3 tl.off ((2 * k : Nat) : Int) (by omega) (by omega)
    show Safe (tl.toArr.Tok3 _ >>= _) _
    have hr' : tl.toArr.Tok3 ((2 * k : Nat) : Int) = .ok (dec tl.off x) := hr
    rw [hr']
    show Safe (if _ then _ else _) _
    refine Safe.ite (fun heq => ?_) (fun _ => ?_)
    · -- the entry equals the (positive) char: its partner exists
      have hxc : dec tl.off x = char := by simpa using heq
      have hpart : 2 * k + 1 < tl.tok3.length := by
        by_cases hp : 2 * k + 1 < tl.tok3.length
        · exact hp
        · exfalso
          have hlen : tl.tok3.length = 2 * k + 1 := by omega
          have hne : tl.tok3 ≠ [] := by intro h0; rw [h0] at hi'; simp at hi'
          have hlast := lastNat_getElem? tl.tok3 hne
          have hidx : tl.tok3.length - 1 = 2 * k := by omega
          rw [hidx] at hlast
          have hx' : tl.tok3[2 * k]? = some x := by
            have e0 : ((2 * k : Nat) : Int).toNat = 2 * k := Int.toNat_natCast _
            rw [e0] at hx
            exact hx
          rw [hx'] at hlast
          have h3 := F.tok3
          simp only [tok3OK, Bool.or_eq_true, beq_iff_eq, hlast, decide_eq_true_eq] at h3
          rcases h3 with h3 | h3
          · omega
          · omega
      have e1 : ((2 * k : Nat) : Int) + 1 = ((2 * k + 1 : Nat) : Int) := by push_cast; rfl
      rw [e1]
      exact rd_safe 10 tl.tok3 tl.off _ (by omega) (by omega) _ (fun _ _ => trivial)
    · have : ((2 * k : Nat) : Int) + 2 = ((2 * (k + 1) : Nat) : Int) := by push_cast; omega
      rw [this]
      exact tok3Loop_safe F hc f (k + 1)

theorem yylex1_safe (F : TabFacts tl) (char : Int) : Safe (yylex1 tl.toArr char) (fun _ => True) := by
  unfold yylex1
  have h1 := F.tok1
  have h2 := F.tok2
  refine Safe.bind (P := fun _ => True) ?_ (fun tk _ => ?_)
  · unfold yylexTok
    refine Safe.ite (fun _ => ?_) (fun hpos => ?_)
    · exact rd_safe 8 tl.tok1 tl.off 0 (by omega) (by omega) _ (fun _ _ => trivial)
    · refine Safe.ite (fun hlt => ?_) (fun _ => ?_)
      · simp only [toArr_tok1_size] at hlt
        exact rd_safe 8 tl.tok1 tl.off char (by omega) hlt _ (fun _ _ => trivial)
      · refine Safe.ite (fun hr => ?_) (fun _ => ?_)
        · simp only [toArr_tok2_size, toArr_priv] at hr
          have ep : ((tl.toArr.priv : Nat) : Int) = (tl.priv : Int) := rfl
          exact rd_safe 9 tl.tok2 tl.off _ (by omega) (by omega) _ (fun _ _ => trivial)
        · unfold yylexTok3
          refine Safe.bind (P := fun _ => True) ?_ (fun r _ => ?_)
          · have := tok3Loop_safe F (char := char) (by omega) tl.toArr.tok3.size 0
            simpa using this
          · refine Safe.ite (fun _ => Safe.pure trivial) (fun _ => ?_)
            unfold tok3Last
            refine Safe.ite (fun _ => Safe.pure trivial) (fun hne => ?_)
            simp only [toArr_tok3_size] at hne
            have hpos3 : 0 < tl.tok3.length := by
              rcases Nat.eq_zero_or_pos tl.tok3.length with h0 | h0
              · simp [h0] at hne
              · exact h0
            have hsz : tl.toArr.tok3.size = tl.tok3.length := toArr_tok3_size
            rw [hsz]
            exact rd_safe 10 tl.tok3 tl.off _ (by omega) (by
              have : (tl.tok3.length - 1) / 2 * 2 ≤ tl.tok3.length - 1 := Nat.div_mul_le_self _ _
              omega) _ (fun _ _ => trivial)
  · refine Safe.ite (fun _ => ?_) (fun _ => Safe.pure trivial)
    exact rd_safe 9 tl.tok2 tl.off 1 (by omega) (by omega) _ (fun _ _ => trivial)

theorem rd_at (tb : Nat) (l : List Nat) (off : Nat) (i : Nat) (x : Nat) (h : l[i]? = some x) :
    rd tb l.toArray off (i : Int) = .ok (dec off x) := by
  unfold rd
  have h0 : ¬ ((i : Int) < 0) := by omega
  simp [h0, h, dec]

theorem excaRow_safe (token nprod : Int) : ∀ (f xi : Nat), excaRowOK tl.exca tl.off nprod f xi = true →
    Safe (excaRow tl.toArr token f (xi : Int) >>= fun xj => tl.toArr.Exca (xj + 1)) (fun r => r < nprod)
  | 0, xi, h => by simp [excaRowOK] at h
  | f + 1, xi, h => by
    unfold excaRowOK at h
    split at h
    · rename_i a b ha hb
      simp only [Bool.and_eq_true, Bool.or_eq_true, decide_eq_true_eq] at h
      unfold excaRow
      have ra : tl.toArr.Exca (xi : Int) = .ok (dec tl.off a) := rd_at 7 tl.exca tl.off xi a ha
      have rb : tl.toArr.Exca ((xi : Int) + 1) = .ok (dec tl.off b) := by
        have := rd_at 7 tl.exca tl.off (xi + 1) b hb
        have e1 : ((xi + 1 : Nat) : Int) = (xi : Int) + 1 := by push_cast; rfl
        rw [e1] at this
        exact this
      simp only [bind, Except.bind, ra]
      by_cases hstop : (decide (dec tl.off a < 0) || dec tl.off a == token) = true
      · rw [if_pos hstop]
        simp only [pure, Except.pure, rb]
        exact h.1
      · rw [if_neg hstop]
        have hneg : ¬ dec tl.off a < 0 := by
          intro hlt
          apply hstop
          simp [hlt]
        rcases h.2 with h2 | h2
        · exact absurd h2 hneg
        · have ih := excaRow_safe token nprod f (xi + 2) h2
          have e2 : ((xi + 2 : Nat) : Int) = (xi : Int) + 2 := by push_cast; rfl
          rw [e2] at ih
          exact ih
    · cases h

theorem excaLookup_safe (state token nprod : Int) : ∀ (f xi : Nat), excaStateOK tl.exca tl.off nprod state f xi = true →
    Safe (excaHdr tl.toArr state f (xi : Int) >>= fun x0 =>
      excaRow tl.toArr token tl.toArr.exca.size (x0 + 2) >>= fun xj => tl.toArr.Exca (xj + 1)) (fun r => r < nprod)
  | 0, xi, h => by simp [excaStateOK] at h
  | f + 1, xi, h => by
    unfold excaStateOK at h
    split at h
    · rename_i a b ha hb
      unfold excaHdr
      have ra : tl.toArr.Exca (xi : Int) = .ok (dec tl.off a) := rd_at 7 tl.exca tl.off xi a ha
      have rb : tl.toArr.Exca ((xi : Int) + 1) = .ok (dec tl.off b) := by
        have := rd_at 7 tl.exca tl.off (xi + 1) b hb
        have e1 : ((xi + 1 : Nat) : Int) = (xi : Int) + 1 := by push_cast; rfl
        rw [e1] at this
        exact this
      simp only [bind, Except.bind, ra, rb]
      by_cases hhit : (dec tl.off a == -1 && dec tl.off b == state) = true
      · rw [if_pos hhit] at h
        rw [if_pos hhit]
        simp only [pure, Except.pure]
        have := excaRow_safe (tl := tl) token nprod tl.exca.length (xi + 2) h
        have e2 : ((xi + 2 : Nat) : Int) = (xi : Int) + 2 := by push_cast; rfl
        rw [e2] at this
        simpa [bind, Except.bind] using this
      · rw [if_neg hhit] at h
        rw [if_neg hhit]
        have ih := excaLookup_safe state token nprod f (xi + 2) h
        have e2 : ((xi + 2 : Nat) : Int) = (xi : Int) + 2 := by push_cast; rfl
        rw [e2] at ih
        simpa [bind, Except.bind] using ih
    · cases h

theorem statesFrom_spec (dflt e : List Nat) (off : Nat) (nprod : Int) : ∀ (l : List Nat) (k : Nat),
    statesFrom dflt off e nprod l k = true → ∀ (j : Nat) (d : Nat), l[j]? = some d → dec off d = -2 →
    excaStateOK e off nprod ((k + j : Nat) : Int) e.length 0 = true
  | [], _, _, j, d, hj, _ => by simp at hj
  | a :: r, k, h, j, d, hj, hd => by
    simp only [statesFrom, Bool.and_eq_true, Bool.or_eq_true, bne_iff_ne, ne_eq] at h
    cases j with
    | zero =>
      simp only [List.getElem?_cons_zero, Option.some.injEq] at hj
      subst hj
      rcases h.1 with h1 | h1
      · exact absurd hd h1
      · simpa using h1
    | succ j' =>
      simp only [List.getElem?_cons_succ] at hj
      have := statesFrom_spec dflt e off nprod r (k + 1) h.2 j' d hj hd
      have e1 : k + 1 + j' = k + (j' + 1) := by omega
      rw [e1] at this
      exact this

variable {α σ : Type}

theorem ensureLA_safe (F : TabFacts tl) (input : Array Nat) (s : YYSt α σ) :
    Safe (ensureLA tl.toArr input s) (fun r => r.1.stack = s.stack) := by
  unfold ensureLA
  split
  · exact Safe.pure rfl
  · exact Safe.bind (yylex1_safe F _) (fun tk _ => Safe.pure rfl)

theorem yyTryShift_safe (F : TabFacts tl) (input : Array Nat) (s : YYSt α σ) {st : Int} (h : VS tl st) :
    Safe (yyTryShift tl.toArr input s st) (fun r => r.1.stack = s.stack ∧ ∀ ns, r.2 = some ns → VS tl ns) := by
  unfold yyTryShift
  refine Safe.bind (Pact_safe h) (fun pn _ => ?_)
  have hlast : (tl.last : Int) ≤ (tl.act.length : Int) := by exact_mod_cast F.last
  refine Safe.ite (fun _ => Safe.pure ⟨rfl, fun _ hh => by cases hh⟩) (fun _ => ?_)
  refine Safe.bind (ensureLA_safe F input s) (fun r hr => ?_)
  obtain ⟨s1, tk⟩ := r
  dsimp only
  refine Safe.ite (fun _ => Safe.pure ⟨hr, fun _ hh => by cases hh⟩) (fun hn => ?_)
  simp only [toArr_last, not_or, Int.not_lt, ge_iff_le, Int.not_le] at hn
  refine Safe.bind (Act_safe F hn.1 (by omega)) (fun ns hns => ?_)
  refine Safe.bind (Chk_safe F hns) (fun c _ => ?_)
  refine Safe.ite (fun _ => Safe.pure ⟨hr, fun ns' hh => by cases hh; exact hns⟩) (fun _ => Safe.pure ⟨hr, fun _ hh => by cases hh⟩)

theorem Def_safe (F : TabFacts tl) {st : Int} (h : VS tl st) :
    Safe (tl.toArr.Def st) (fun d => (d = -2 → excaStateOK tl.exca tl.off tl.r2.length st tl.exca.length 0 = true) ∧ (d = -2 ∨ VP tl d)) := by
  have hlt : st < (tl.dflt.length : Int) := by rw [F.dfltLen]; exact h.2
  obtain ⟨x, hx, hr⟩ := rd_ok 6 tl.dflt tl.off st h.1 hlt
  have hr' : tl.toArr.Def st = .ok (dec tl.off x) := hr
  rw [hr']
  refine ⟨fun hd => ?_, F.dflt x (List.mem_of_getElem? hx)⟩
  have := statesFrom_spec tl.dflt tl.exca tl.off tl.r2.length tl.dflt 0 F.exca st.toNat x hx hd
  have e1 : ((0 + st.toNat : Nat) : Int) = st := by
    have := h.1
    omega
  rw [e1] at this
  exact this

theorem yyDefault_safe (F : TabFacts tl) (input : Array Nat) (s : YYSt α σ) {st : Int} (h : VS tl st) :
    Safe (yyDefault tl.toArr input s st) (fun r => r.1.stack = s.stack ∧ r.2.2 < (tl.r2.length : Int) ∧ (r.2.1 ≠ -2 → 0 ≤ r.2.2)) := by
  unfold yyDefault
  refine Safe.bind (Def_safe F h) (fun d hd => ?_)
  refine Safe.ite (fun hd2 => ?_) (fun hd2 => ?_)
  · have hd2' : d = -2 := by simpa using hd2
    refine Safe.bind (ensureLA_safe F input s) (fun r hr => ?_)
    obtain ⟨s1, tk⟩ := r
    dsimp only
    have hex := excaLookup_safe (tl := tl) st tk tl.r2.length tl.exca.length 0 (hd.1 hd2')
    unfold excaLookup
    have hsz : tl.toArr.exca.size = tl.exca.length := toArr_exca_size
    rw [hsz]
    have hx : Safe (excaHdr tl.toArr st tl.exca.length 0 >>= fun x0 =>
        excaRow tl.toArr tk tl.exca.length (x0 + 2) >>= fun xj => tl.toArr.Exca (xj + 1)) (fun r => r < (tl.r2.length : Int)) := by
      rw [hsz] at hex
      simpa using hex
    refine Safe.bind (P := fun r => r < (tl.r2.length : Int)) ?_ (fun r hr2 => Safe.pure ⟨hr, hr2, fun hne => absurd hd2' hne⟩)
    simpa [bind, Except.bind] using hx
  · have hne : d ≠ -2 := by simpa using hd2
    rcases hd.2 with h2 | h2
    · exact absurd h2 hne
    · exact Safe.pure ⟨rfl, h2.2, fun _ => h2.1⟩

def StackOK (tl : YYTabL) (stk : List (Int × α)) : Prop := ∀ e ∈ stk, VS tl e.1

theorem yyDecide_safe (F : TabFacts tl) (input : Array Nat) (s : YYSt α σ) {st : Int} (h : VS tl st) :
    Safe (yyDecide tl.toArr input s st) (fun r => r.1.stack = s.stack ∧ (∀ ns, r.2 = .shift ns → VS tl ns) ∧
      (∀ yyn, r.2 = .reduce yyn → VP tl yyn)) := by
  unfold yyDecide
  refine Safe.bind (yyTryShift_safe F input s h) (fun r hr => ?_)
  obtain ⟨s1, shifted⟩ := r
  cases shifted with
  | some ns =>
    exact Safe.pure ⟨hr.1, fun ns' hh => by cases hh; exact hr.2 ns rfl, (fun _ hh => by cases hh)⟩
  | none =>
    dsimp only
    refine Safe.bind (yyDefault_safe F input s1 h) (fun r2 hr2 => ?_)
    obtain ⟨s2, d, yyn⟩ := r2
    dsimp only at hr2 ⊢
    have hstk : s2.stack = s.stack := hr2.1.trans hr.1
    refine Safe.ite (fun _ => Safe.pure ⟨hstk, (fun _ hh => by cases hh), (fun _ hh => by cases hh)⟩) (fun hacc => ?_)
    refine Safe.ite (fun _ => ?_) (fun hnz => ?_)
    · refine Safe.ite (fun _ => ?_) (fun _ => Safe.pure ⟨hstk, (fun _ hh => by cases hh), (fun _ hh => by cases hh)⟩)
      exact Safe.ite (fun _ => Safe.pure ⟨hstk, (fun _ hh => by cases hh), (fun _ hh => by cases hh)⟩)
        (fun _ => Safe.pure ⟨hstk, (fun _ hh => by cases hh), (fun _ hh => by cases hh)⟩)
    · refine Safe.pure ⟨hstk, (fun _ hh => by cases hh), fun yyn' hh => ?_⟩
      cases hh
      refine ⟨?_, hr2.2.1⟩
      by_cases hd : d = -2
      · have : ¬ yyn < 0 := by
          intro hlt
          apply hacc
          exact ⟨by simp [hd], hlt⟩
        omega
      · exact hr2.2.2 hd

theorem errPop_safe (F : TabFacts tl) : ∀ (stk : List (Int × α)) (tr : List YYEv), StackOK tl stk →
    Safe (errPop tl.toArr stk tr) (fun r => ∀ ns st', r.1 = some (ns, st') → VS tl ns ∧ StackOK tl st')
  | [], tr, _ => by
    simp only [errPop]
    intro ns st' hh
    cases hh
  | (st, v) :: rest, tr, hs => by
    unfold errPop
    have hst : VS tl st := hs (st, v) (List.mem_cons_self ..)
    have hx := errShiftState_safe F hst
    cases hres : errShiftState tl.toArr st with
    | error e =>
      rw [hres] at hx
      cases e with
      | index tb i => exact hx.elim
      | underflow => trivial
      | sem m => trivial
    | ok r =>
      rw [hres] at hx
      cases r with
      | some ns =>
        intro ns' st' hh
        cases hh
        exact ⟨hx ns rfl, hs⟩
      | none =>
        exact errPop_safe F rest _ (fun e he => hs e (List.mem_cons_of_mem _ he))

theorem yyApply_safe (F : TabFacts tl) (sem : YYSem α σ) (s : YYSt α σ) (st : Int) (m : YYMove)
    (hs : StackOK tl s.stack) (hsh : ∀ ns, m = .shift ns → VS tl ns) (hrd : ∀ yyn, m = .reduce yyn → VP tl yyn) :
    Safe (yyApply tl.toArr sem s st m) (fun r => StackOK tl (resState r).stack) := by
  cases m with
  | shift ns =>
    simp only [yyApply]
    apply Safe.pure
    intro e he
    simp only [resState] at he
    rcases List.mem_cons.mp he with rfl | he'
    · exact hsh ns rfl
    · exact hs e he'
  | accept => exact Safe.pure (by simpa [resState] using hs)
  | discardEof => exact Safe.pure (by simpa [resState] using hs)
  | discard => exact Safe.pure (by simpa [resState] using hs)
  | recover fresh =>
    simp only [yyApply]
    have hs' : StackOK tl (if fresh = true then { s with nerrs := s.nerrs + 1, trace := YYEv.saw st (s.la.getD (-1)) :: s.trace } else s).stack := by
      cases fresh <;> exact hs
    refine Safe.bind (errPop_safe F _ _ hs') (fun r hr => ?_)
    obtain ⟨res, tr⟩ := r
    cases res with
    | none =>
      apply Safe.pure
      intro e he
      simp [resState] at he
    | some p =>
      obtain ⟨ns, st'⟩ := p
      apply Safe.pure
      have := hr ns st' rfl
      intro e he
      simp only [resState] at he
      rcases List.mem_cons.mp he with rfl | he'
      · exact this.1
      · exact this.2 e he'
  | reduce yyn =>
    simp only [yyApply]
    have hvp := hrd yyn rfl
    refine Safe.bind (R2_safe F hvp) (fun n hn => ?_)
    cases hpop : popN n.toNat s.stack [] with
    | none => trivial
    | some pr =>
      obtain ⟨args, rest⟩ := pr
      dsimp only
      have hspec := popN_spec n.toNat s.stack [] args rest hpop
      cases rest with
      | nil => trivial
      | cons e0 rest' =>
        dsimp only [bind, Except.bind, pure, Except.pure]
        have he0 : VS tl e0.1 := hs e0 (hspec.1.subset (List.mem_cons_self ..))
        have hrest : StackOK tl (e0 :: rest') := fun e he => hs e (hspec.1.subset he)
        refine Safe.bind (R1_safe F hvp) (fun lhs hl => ?_)
        refine Safe.bind (gotoState_safe F hl he0) (fun ns hns => ?_)
        cases hred : sem.reduce s.aux yyn args (yyDflt sem args) s.pos with
        | error msg => trivial
        | ok pr2 =>
          obtain ⟨v, aux'⟩ := pr2
          apply Safe.pure
          intro e he
          simp only [resState] at he
          rcases List.mem_cons.mp he with rfl | he'
          · exact hns
          · exact hrest e he'

theorem yyStep_safe (F : TabFacts tl) (sem : YYSem α σ) (input : Array Nat) (s : YYSt α σ) (hs : StackOK tl s.stack) :
    Safe (yyStep tl.toArr sem input s) (fun r => StackOK tl (resState r).stack) := by
  unfold yyStep
  cases hstk : s.stack with
  | nil => trivial
  | cons e rest =>
    obtain ⟨st, v⟩ := e
    dsimp only
    have hst : VS tl st := hs (st, v) (by rw [hstk]; exact List.mem_cons_self ..)
    have hd := yyDecide_safe F input s hst
    cases hdec : yyDecide tl.toArr input s st with
    | error e =>
      rw [hdec] at hd
      cases e with
      | index tb i => exact hd.elim
      | underflow => trivial
      | sem m => trivial
    | ok r =>
      rw [hdec] at hd
      obtain ⟨s1, m⟩ := r
      dsimp only
      exact yyApply_safe F sem s1 st m (by rw [hd.1]; exact hs) hd.2.1 hd.2.2

/-- no run of the driver model reads a table out of range -/
theorem yyRun_safe (F : TabFacts tl) (sem : YYSem α σ) (input : Array Nat) : ∀ (fuel : Nat) (s : YYSt α σ),
    StackOK tl s.stack → Safe (yyRun tl.toArr sem input fuel s) (fun _ => True)
  | 0, s, _ => by simp [yyRun, Safe]
  | f + 1, s, hs => by
    simp only [yyRun]
    have h := yyStep_safe F sem input s hs
    cases hstep : yyStep tl.toArr sem input s with
    | error e =>
      rw [hstep] at h
      cases e with
      | index tb i => exact h.elim
      | underflow => trivial
      | sem m => trivial
    | ok r =>
      rw [hstep] at h
      cases r with
      | cont s' => exact yyRun_safe F sem input f s' h
      | done c s' => trivial

theorem yyInit_stackOK (tl : YYTabL) (sem : YYSem α σ) (aux : σ) (h : 0 < tl.pact.length) : StackOK tl (yyInit sem aux).stack := by
  intro e he
  simp only [yyInit, List.mem_singleton] at he
  subst he
  exact ⟨by simp, by simpa using h⟩

end

end PhpVerif
