import PhpVerif.Lemmas.YYComplete
import PhpVerif.Lemmas.LinearRun
/-
"An accepted parse returns a tree" (C06: whenever no error is delivered the returned tree is non-nil), for the
whole-parser model over tables that satisfy the decidable condition `rootFacts`:

  * only state `acc` accepts (its row of the exception table is the only one with a negative action);
  * state `acc` is entered by nothing but the goto on the start symbol `k = -yyChk[acc]`: no shift leads into it
    (its accessing symbol is a nonterminal), the error token does not, and the fallback entry of every other
    nonterminal's goto row is another state;
  * every production whose left-hand side is the start symbol has actions, all of which set the root.

Invariant of a run: whenever state `acc` is on the stack, the root has been set.
-/
namespace PhpVerif

/-- entry `i` of a table, decoded (the offset itself — i.e. 0 — when out of range) -/
def tg (l : List Nat) (off : Nat) (i : Nat) : Int := dec off ((l[i]?).getD off)

def accOnly (tl : YYTabL) (acc : Nat) : Bool :=
  (List.range tl.dflt.length).all (fun st => st == acc || tg tl.dflt tl.off st != -2 ||
    (match excaLookup tl.toArr (st : Int) (tl.eofCode : Int) with
     | .ok r => decide (0 ≤ r)
     | .error _ => true))

/-- no shift leads into `acc`: for every action entry `n` whose target is `acc`, no state `st` has
    `yyPact[st] + (-k) = n`, i.e. could reach it with the token `yyChk[acc] = -k` -/
def noShiftScan (tl : YYTabL) (acc : Nat) (k : Int) : List Nat → Nat → Bool
  | [], _ => true
  | av :: r, n => (dec tl.off av != (acc : Int) || tl.pact.all (fun pv => dec tl.off pv != (n : Int) + k)) && noShiftScan tl acc k r (n + 1)

def kPos (tl : YYTabL) (acc : Nat) : Bool := decide (0 < - tg tl.chk tl.off acc)
def noShiftB (tl : YYTabL) (acc : Nat) : Bool := noShiftScan tl acc (- tg tl.chk tl.off acc) tl.act 0
def fallbackB (tl : YYTabL) (acc : Nat) : Bool :=
  (List.range tl.pgo.length).all (fun A => (A : Int) == - tg tl.chk tl.off acc || tg tl.act tl.off (tg tl.pgo tl.off A).toNat != (acc : Int))
def rootsB (tl : YYTabL) (ps : List TPath) (acc : Nat) : Bool :=
  (List.range tl.r1.length).all (fun pi => tg tl.r1 tl.off pi != - tg tl.chk tl.off acc ||
    ((ps.filter (fun p => p.prod == pi)).all (fun p => p.root.isSome) && ps.any (fun p => p.prod == pi)))

structure RootFacts (tl : YYTabL) (ps : List TPath) (acc : Nat) : Prop where
  kpos : 0 < - tg tl.chk tl.off acc
  accOnly : accOnly tl acc = true
  noShift : ∀ n, n < tl.act.length → tg tl.act tl.off n = (acc : Int) → ∀ pv ∈ tl.pact, dec tl.off pv ≠ (n : Int) - tg tl.chk tl.off acc
  fallback : ∀ A, A < tl.pgo.length → (A : Int) = - tg tl.chk tl.off acc ∨ tg tl.act tl.off (tg tl.pgo tl.off A).toNat ≠ (acc : Int)
  roots : ∀ pi, pi < tl.r1.length → tg tl.r1 tl.off pi = - tg tl.chk tl.off acc →
    (∀ p ∈ ps, p.prod = pi → p.root.isSome = true) ∧ ∃ p ∈ ps, p.prod = pi

theorem noShiftScan_spec (tl : YYTabL) (acc : Nat) (k : Int) : ∀ (l : List Nat) (n0 : Nat), noShiftScan tl acc k l n0 = true →
    ∀ i av, l[i]? = some av → dec tl.off av = (acc : Int) → ∀ pv ∈ tl.pact, dec tl.off pv ≠ ((n0 + i : Nat) : Int) + k
  | [], _, _, i, av, h, _, _, _ => by simp at h
  | a :: r, n0, hs, i, av, h, hd, pv, hpv => by
    simp only [noShiftScan, Bool.and_eq_true, Bool.or_eq_true, bne_iff_ne, ne_eq, List.all_eq_true] at hs
    cases i with
    | zero =>
      simp only [List.getElem?_cons_zero, Option.some.injEq] at h
      subst h
      rcases hs.1 with hne | hall
      · exact absurd hd hne
      · simpa using hall pv hpv
    | succ i =>
      simp only [List.getElem?_cons_succ] at h
      have := noShiftScan_spec tl acc k r (n0 + 1) hs.2 i av h hd pv hpv
      have e : n0 + 1 + i = n0 + (i + 1) := by omega
      rw [e] at this
      exact this

theorem rootFacts_spec {tl : YYTabL} {ps : List TPath} {acc : Nat} (h1 : kPos tl acc = true) (h2 : accOnly tl acc = true)
    (h3 : noShiftB tl acc = true) (h4 : fallbackB tl acc = true) (h5 : rootsB tl ps acc = true) : RootFacts tl ps acc := by
  refine ⟨by simpa [kPos] using h1, h2, ?_, ?_, ?_⟩
  · intro n hn hact pv hpv
    have hx : tl.act[n]? = some tl.act[n] := List.getElem?_eq_getElem hn
    have hd : dec tl.off tl.act[n] = (acc : Int) := by
      simpa [tg, hx] using hact
    have := noShiftScan_spec tl acc _ tl.act 0 h3 n _ hx hd pv hpv
    intro e
    apply this
    rw [e]
    simp
    omega
  · intro A hA
    simp only [fallbackB, List.all_eq_true, List.mem_range, Bool.or_eq_true, beq_iff_eq, bne_iff_ne, ne_eq] at h4
    rcases h4 A hA with he | hne
    · exact .inl he
    · exact .inr hne
  · intro pi hpi hr1
    simp only [rootsB, List.all_eq_true, List.mem_range, Bool.or_eq_true, bne_iff_ne, ne_eq, Bool.and_eq_true,
      List.mem_filter, beq_iff_eq, List.any_eq_true, and_imp] at h5
    rcases h5 pi hpi with hne | ⟨hall, hex⟩
    · exact absurd hr1 hne
    · refine ⟨fun p hp hpp => hall p hp hpp, ?_⟩
      obtain ⟨p, hp, hpp⟩ := hex
      exact ⟨p, hp, hpp⟩

theorem rd_tg {tb : Nat} {l : List Nat} {off : Nat} {i v : Int} (h : rd tb l.toArray off i = .ok v) :
    0 ≤ i ∧ i.toNat < l.length ∧ v = tg l off i.toNat := by
  obtain ⟨h0, x, hx, hv⟩ := rd_inv h
  have hlt : i.toNat < l.length := (List.getElem?_eq_some_iff.mp hx).1
  refine ⟨h0, hlt, ?_⟩
  simp [tg, hx, hv]

/-- the root, once set, stays set -/
theorem reduceTree_root_mono (toks : Array TokKey) (combs : List PosComb) (tbl : PathTable) (st : TreeSt) (prod : Int)
    (args : List V) (dflt : V) (pos : Nat) (v : V) (st' : TreeSt)
    (h : reduceTree toks combs tbl st prod args dflt pos = .ok (v, st')) (hr : st.root.isSome = true) : st'.root.isSome = true := by
  simp only [reduceTree] at h
  split at h
  · cases h; exact hr
  · split at h
    · cases h
    · split at h
      · cases h
      · cases h
        cases hro : (runPath toks combs _ args (if (pos == 0) = true then none else some (pos - 1)) st.uid).root with
        | none => simpa [hro, HOrElse.hOrElse, OrElse.orElse, Option.orElse] using hr
        | some r => simp [hro, HOrElse.hOrElse, OrElse.orElse, Option.orElse]

/-- the table the driver builds holds every path of the list under its production number -/
theorem mkPathTable_complete (ps : List TPath) (p : TPath) (hp : p ∈ ps) :
    ∃ l, (mkPathTable ps : Array (List TPath))[p.prod]? = some l ∧ p ∈ l := by
  unfold mkPathTable
  have hn : ∀ (qs : List TPath) (m : Nat), p ∈ qs → p.prod < qs.foldl (fun m p => max m (p.prod + 1)) m := by
    intro qs
    induction qs with
    | nil => intro m h; cases h
    | cons q r ih =>
      intro m h
      simp only [List.foldl]
      rcases List.mem_cons.mp h with rfl | h'
      · have : ∀ (r : List TPath) (m : Nat), m ≤ r.foldl (fun m p => max m (p.prod + 1)) m := by
          intro r
          induction r with
          | nil => intro m; exact Nat.le_refl _
          | cons x r ih2 => intro m; simp only [List.foldl]; exact Nat.le_trans (Nat.le_max_left _ _) (ih2 _)
        have h2 := this r (max m (p.prod + 1))
        have h3 : p.prod + 1 ≤ max m (p.prod + 1) := Nat.le_max_right _ _
        omega
      · exact ih _ h'
  have hsz := hn ps 0 hp
  generalize (ps.foldl (fun m p => max m (p.prod + 1)) 0) = n at hsz
  -- invariant of the fold: size stays n; once p has been appended it stays in its list
  have key : ∀ (qs : List TPath) (t : Array (List TPath)), t.size = n →
      ((∃ l, t[p.prod]? = some l ∧ p ∈ l) ∨ p ∈ qs) →
      ∃ l, (qs.foldl (fun (t : Array (List TPath)) q => t.modify q.prod (fun l => l ++ [q])) t)[p.prod]? = some l ∧ p ∈ l := by
    intro qs
    induction qs with
    | nil =>
      intro t _ h
      rcases h with h | h
      · simpa using h
      · cases h
    | cons q r ih =>
      intro t hsize h
      simp only [List.foldl]
      apply ih _ (by simp [hsize])
      rcases h with ⟨l, hl, hpl⟩ | h
      · left
        rw [Array.getElem?_modify]
        split
        · exact ⟨l ++ [q], by simp [hl], List.mem_append_left _ hpl⟩
        · exact ⟨l, hl, hpl⟩
      · rcases List.mem_cons.mp h with rfl | h'
        · left
          rw [Array.getElem?_modify]
          simp only [if_true]
          have hlt : p.prod < t.size := by omega
          refine ⟨t[p.prod] ++ [p], by simp [hlt], by simp⟩
        · right; exact h'
  exact key ps _ (by simp) (.inr hp)

section run
variable {tl : YYTabL} {ps : List TPath} {acc : Nat}

/-- whenever the accepting state is on the stack, the root has been set -/
def RInv (acc : Nat) (s : YYSt V TreeSt) : Prop := ∀ e ∈ s.stack, e.1 = (acc : Int) → s.aux.root.isSome = true

theorem errPop_chk (t : YYTab) : ∀ (stk : List (Int × V)) (tr : List YYEv) (ns : Int) (st : List (Int × V)) (tr' : List YYEv),
    errPop t stk tr = .ok (some (ns, st), tr') → t.Chk ns = .ok (t.errCode : Int)
  | [], tr, ns, st, tr', h => by simp [errPop] at h
  | (s0, v) :: rest, tr, ns, st, tr', h => by
    unfold errPop at h
    split at h
    · cases h
    · rename_i ns' hes
      cases h
      unfold errShiftState at hes
      simp only [bind, Except.bind, pure, Except.pure] at hes
      split at hes
      · cases hes
      · split at hes
        · split at hes
          · cases hes
          · split at hes
            · cases hes
            · rename_i c hc
              split at hes
              · rename_i heq
                cases hes
                have : c = (t.errCode : Int) := by simpa using heq
                rw [← this]; exact hc
              · cases hes
        · cases hes
    · exact errPop_chk t rest _ ns st tr' h

theorem gotoState_acc (hf : RootFacts tl ps acc) (n exposed : Int)
    (h : gotoState tl.toArr n exposed = .ok (acc : Int)) : n = - tg tl.chk tl.off acc := by
  unfold gotoState at h
  simp only [bind, Except.bind, pure, Except.pure] at h
  split at h
  · cases h
  · rename_i g hg
    have hgt := rd_tg (l := tl.pgo) (by simpa [YYTab.Pgo, YYTabL.toArr] using hg)
    have fb : tl.toArr.Act g = .ok (acc : Int) → n = - tg tl.chk tl.off acc := by
      intro ha
      have hat := rd_tg (l := tl.act) (by simpa [YYTab.Act, YYTabL.toArr] using ha)
      rcases hf.fallback n.toNat hgt.2.1 with he | hne
      · omega
      · exfalso
        apply hne
        rw [← hgt.2.2, ← hat.2.2]
    split at h
    · exact fb h
    · split at h
      · cases h
      · rename_i st hst
        split at h
        · cases h
        · rename_i c hc
          split at h
          · exact fb h
          · rename_i hcn
            cases h
            have hct := rd_tg (l := tl.chk) (by simpa [YYTab.Chk, YYTabL.toArr] using hc)
            have hcn' : c = -n := by simpa using hcn
            have : ((acc : Int)).toNat = acc := by simp
            rw [this] at hct
            omega

theorem yyDecide_accept_def (t : YYTab) (input : Array Nat) (s s' : YYSt V TreeSt) (st : Int)
    (h : yyDecide t input s st = .ok (s', .accept)) : t.Def st = .ok (-2) := by
  unfold yyDecide at h
  simp only [bind, Except.bind, pure, Except.pure] at h
  split at h
  · cases h
  · rename_i x hx
    obtain ⟨s1, sh⟩ := x
    cases sh with
    | some ns => simp only at h; cases h
    | none =>
      simp only at h
      split at h
      · cases h
      · rename_i y hy
        obtain ⟨s2, d, yyn⟩ := y
        have hd : t.Def st = .ok d := by
          unfold yyDefault at hy
          simp only [bind, Except.bind, pure, Except.pure] at hy
          split at hy
          · cases hy
          · rename_i d' hd'
            split at hy
            · split at hy
              · cases hy
              · split at hy
                · cases hy
                · cases hy; exact hd'
            · cases hy; exact hd'
        split at h
        · rename_i hacc
          have : d = -2 := by simpa using hacc.1
          rw [this] at hd
          exact hd
        · split at h
          · split at h
            · split at h <;> cases h
            · cases h
          · cases h

theorem Lexed_stack {t : YYTab} {input : Array Nat} {s s' : YYSt V TreeSt} (h : Lexed t input s s') :
    s'.stack = s.stack ∧ s'.aux = s.aux := by
  rcases h with rfl | ⟨_, tk, _, rfl⟩
  · exact ⟨rfl, rfl⟩
  · exact ⟨rfl, rfl⟩

theorem yyStep_root (hf : RootFacts tl ps acc) (he : EofFacts tl) (toks : Array TokKey) (combs : List PosComb) (input : Array Nat)
    (s : YYSt V TreeSt) (r : YYRes V TreeSt) (hi : RInv acc s)
    (h : yyStep tl.toArr (treeSem toks combs (mkPathTable ps)) input s = .ok r) :
    RInv acc (resState r) ∧ (∀ s', r = .done 0 s' → s'.aux.root.isSome = true) := by
  unfold yyStep at h
  split at h
  · cases h
  · rename_i st v rst hstk
    split at h
    · cases h
    · rename_i s1 m hd
      have dc := yyDecide_facts tl.toArr input s s1 st m hd
      have hls := Lexed_stack dc.lexed
      have hi1 : RInv acc s1 := by
        intro e he' hea
        rw [hls.1] at he'
        rw [hls.2]
        exact hi e he' hea
      have hchk : ∀ c, tl.toArr.Chk (acc : Int) = .ok c → c = tg tl.chk tl.off acc := by
        intro c hc
        have := rd_tg (l := tl.chk) (by simpa [YYTab.Chk, YYTabL.toArr] using hc)
        simpa using this.2.2
      cases m with
      | shift ns =>
        simp only [yyApply, pure, Except.pure] at h
        cases h
        obtain ⟨tk, _, pn, hpn, h0, h1, hact, hc⟩ := dc.shift ns rfl
        refine ⟨?_, fun s' hs' => by cases hs'⟩
        intro e he' hea
        simp only [resState] at he' ⊢
        rcases List.mem_cons.mp he' with rfl | he''
        · exfalso
          simp only at hea
          subst hea
          have hck := hchk tk hc
          have hat := rd_tg (l := tl.act) (by simpa [YYTab.Act, YYTabL.toArr] using hact)
          have hpt := rd_tg (l := tl.pact) (by simpa [YYTab.Pact, YYTabL.toArr] using hpn)
          have hmem : (tl.pact[st.toNat]?).getD tl.off ∈ tl.pact := by
            rw [List.getElem?_eq_getElem hpt.2.1]
            exact List.getElem_mem _
          have := hf.noShift (pn + tk).toNat hat.2.1 hat.2.2.symm _ hmem
          apply this
          have e1 : dec tl.off ((tl.pact[st.toNat]?).getD tl.off) = pn := by rw [hpt.2.2]; rfl
          rw [e1]
          have : (((pn + tk).toNat : Nat) : Int) = pn + tk := Int.toNat_of_nonneg h0
          omega
        · exact hi1 e he'' hea
      | accept =>
        simp only [yyApply, pure, Except.pure] at h
        cases h
        obtain ⟨tk, r0, _, hex, hr0⟩ := dc.accept rfl
        have htk := excaLookup_neg he st tk r0 hex hr0
        subst htk
        have hdef := yyDecide_accept_def tl.toArr input s s1 st hd
        have hdt := rd_tg (l := tl.dflt) (by simpa [YYTab.Def, YYTabL.toArr] using hdef)
        have hst : st = (acc : Int) := by
          have hao := hf.accOnly
          simp only [accOnly, List.all_eq_true, List.mem_range, Bool.or_eq_true, beq_iff_eq, bne_iff_ne, ne_eq] at hao
          have hcast : ((st.toNat : Nat) : Int) = st := Int.toNat_of_nonneg hdt.1
          rcases hao st.toNat hdt.2.1 with (hacc | hne) | hlk
          · omega
          · exact absurd hdt.2.2.symm hne
          · rw [hcast, hex] at hlk
            simp only [decide_eq_true_eq] at hlk
            omega
        have hroot : s1.aux.root.isSome = true := by
          apply hi1 (st, v)
          · rw [hls.1, hstk]; exact List.mem_cons_self ..
          · exact hst
        refine ⟨?_, ?_⟩
        · intro e he' _
          simp only [resState]
          exact hroot
        · intro s' hs'
          cases hs'
          exact hroot
      | discardEof =>
        simp only [yyApply, pure, Except.pure] at h
        cases h
        exact ⟨fun e he' hea => hi1 e he' hea, fun s' hs' => by cases hs'⟩
      | discard =>
        simp only [yyApply, pure, Except.pure] at h
        cases h
        exact ⟨fun e he' hea => hi1 e he' hea, fun s' hs' => by cases hs'⟩
      | recover fresh =>
        simp only [yyApply, bind, Except.bind, pure, Except.pure] at h
        split at h
        · cases h
        · rename_i x hx
          obtain ⟨res, tr⟩ := x
          cases res with
          | none =>
            simp only at h
            cases h
            refine ⟨?_, fun s' hs' => by cases hs'⟩
            intro e he' _
            simp [resState] at he'
          | some p =>
            obtain ⟨ns, st'⟩ := p
            simp only at h
            cases h
            have hsuf := errPop_suffix tl.toArr _ _ ns st' tr hx
            have hck := errPop_chk tl.toArr _ _ ns st' tr hx
            refine ⟨?_, fun s' hs' => by cases hs'⟩
            intro e he' hea
            simp only [resState] at he' ⊢
            have hroot : ∀ e ∈ st', e.1 = (acc : Int) → s1.aux.root.isSome = true := by
              intro e he2 hea2
              apply hi1 e _ hea2
              cases fresh <;> exact hsuf.subset he2
            rcases List.mem_cons.mp he' with rfl | he''
            · exfalso
              simp only at hea
              subst hea
              have := hchk _ hck
              have hk := hf.kpos
              have : (0 : Int) ≤ (tl.toArr.errCode : Int) := Int.natCast_nonneg _
              omega
            · cases fresh <;> exact hroot e he'' hea
      | reduce yyn =>
        simp only [yyApply, bind, Except.bind, pure, Except.pure] at h
        split at h
        · cases h
        · rename_i n hn
          split at h
          · cases h
          · rename_i args rest hpop
            split at h
            · cases h
            · rename_i ex hex
              split at h
              · cases h
              · rename_i lhs hlhs
                split at h
                · cases h
                · rename_i ns hns
                  split at h
                  · cases h
                  · rename_i v' aux' hred
                    cases h
                    have hspec := popN_spec n.toNat s1.stack [] args _ hpop
                    refine ⟨?_, fun s' hs' => by cases hs'⟩
                    intro e he' hea
                    simp only [resState] at he' ⊢
                    have hred' : reduceTree toks combs (mkPathTable ps) s1.aux yyn args (yyDflt (treeSem toks combs (mkPathTable ps)) args) s1.pos = .ok (v', aux') := by
                      simpa [treeSem] using hred
                    rcases List.mem_cons.mp he' with rfl | he''
                    · simp only at hea
                      subst hea
                      -- the goto leads into the accepting state: the production's left-hand side is the start symbol
                      have hl := gotoState_acc hf lhs _ hns
                      have hr1 := rd_tg (l := tl.r1) (by simpa [YYTab.R1, YYTabL.toArr] using hlhs)
                      obtain ⟨hall, p0, hp0, hp0p⟩ := hf.roots yyn.toNat hr1.2.1 (by rw [← hr1.2.2]; exact hl)
                      obtain ⟨l, hl1, hl2⟩ := mkPathTable_complete ps p0 hp0
                      simp only [reduceTree] at hred'
                      rw [hp0p] at hl1
                      split at hred'
                      · rename_i hnil
                        rw [hl1] at hnil
                        simp only [Option.getD_some] at hnil
                        rw [hnil] at hl2
                        cases hl2
                      · split at hred'
                        · cases hred'
                        · rename_i p hfind
                          split at hred'
                          · cases hred'
                          · cases hred'
                            have hpm : p ∈ ((mkPathTable ps : Array (List TPath))[yyn.toNat]?).getD [] := List.mem_of_find?_eq_some hfind
                            rw [hl1] at hpm
                            simp only [Option.getD_some] at hpm
                            have hmem := mkPathTable_mem ps yyn.toNat l hl1 p hpm
                            have hps := hall p hmem.1 hmem.2
                            cases hpr : p.root with
                            | none => simp [hpr] at hps
                            | some t => simp [runPath, hpr, HOrElse.hOrElse, OrElse.orElse, Option.orElse]
                    · have := hi1 e (hspec.1.subset he'') hea
                      exact reduceTree_root_mono toks combs _ s1.aux yyn args _ s1.pos v' aux' hred' this

theorem yyRun_root (hf : RootFacts tl ps acc) (he : EofFacts tl) (toks : Array TokKey) (combs : List PosComb) (input : Array Nat) :
    ∀ (fuel : Nat) (s s' : YYSt V TreeSt), RInv acc s →
      yyRun tl.toArr (treeSem toks combs (mkPathTable ps)) input fuel s = .ok (some 0, s') → s'.aux.root.isSome = true
  | 0, s, s', _, h => by simp [yyRun] at h
  | f + 1, s, s', hi, h => by
    simp only [yyRun] at h
    split at h
    · cases h
    · rename_i code s2 hstep
      cases h
      exact (yyStep_root hf he toks combs input s _ hi hstep).2 s' rfl
    · rename_i s2 hstep
      exact yyRun_root hf he toks combs input f s2 s' (yyStep_root hf he toks combs input s _ hi hstep).1 h

end run

end PhpVerif
