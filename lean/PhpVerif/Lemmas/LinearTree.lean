import PhpVerif.Lemmas.Linear
import PhpVerif.Model.Roundtrip
/-
From the parser's values to the printer's / traverser's trees: the node identities of the tree `V.toTree`
builds occur at most as often as in the value.  With the linearity of parsed values (Props/Linear.lean) this
discharges the hypothesis "the tree has no shared node" of C12's `traverse_nodup` for parsed trees.
-/
namespace PhpVerif

theorem fieldCombine_kids (toks : Array Tok) (s : Nat) (v : V) (kid : Option Tree) (kidsL : Option (List Tree)) (rest f : TFields)
    (h : fieldCombine toks s v kid kidsL rest = some f) :
    ∃ k, f.kids = k :: rest.kids ∧ (k = [] ∨ (∃ t, kid = some t ∧ k = [t]) ∨ (kidsL = some k)) := by
  unfold fieldCombine at h
  split at h
  · cases h; exact ⟨[], rfl, .inl rfl⟩
  · split at h
    · split at h
      · cases h; exact ⟨[], rfl, .inl rfl⟩
      · rename_i i
        cases ht : toks[i]? with
        | none => simp [ht] at h
        | some t =>
          simp [ht] at h
          subst h
          exact ⟨[], rfl, .inl rfl⟩
      · cases h
    · split at h
      · split at h
        · cases h; exact ⟨[], rfl, .inl rfl⟩
        · rename_i xs
          cases ht : tokList toks xs with
          | none => simp [ht] at h
          | some ts =>
            simp [ht] at h
            subst h
            exact ⟨[], rfl, .inl rfl⟩
        · cases h
      · split at h
        · split at h
          · cases h; exact ⟨[], rfl, .inl rfl⟩
          · cases hkid : kid with
            | none => simp [hkid] at h
            | some t =>
              simp [hkid] at h
              subst h
              exact ⟨[t], rfl, .inr (.inl ⟨t, rfl, rfl⟩)⟩
          · cases h
        · split at h
          · split at h
            · cases h; exact ⟨[], rfl, .inl rfl⟩
            · cases hkl : kidsL with
              | none => simp [hkl] at h
              | some ts =>
                simp [hkl] at h
                subst h
                exact ⟨ts, rfl, .inr (.inr rfl)⟩
            · cases h
          · split at h
            · split at h
              · cases h; exact ⟨[], rfl, .inl rfl⟩
              · rename_i pre i
                cases ht : toks[i]? with
                | none => simp [ht] at h
                | some t =>
                  simp [ht] at h
                  subst h
                  exact ⟨[], rfl, .inl rfl⟩
              · cases h
            · cases h

mutual
theorem toTree_nodes (sorts : Nat → List Nat) (toks : Array Tok) (u : Nat) : ∀ (v : V) (t : Tree), V.toTree sorts toks v = some t →
    t.nodes.count u ≤ cn (.uid u) v
  | .node k u' fs, t, h => by
    simp only [V.toTree] at h
    split at h
    · rename_i f hf
      cases h
      have := fieldsTo_nodes sorts toks u (sorts k) fs f hf
      rw [cn_node]
      simp only [Tree.nodes, List.count_cons]
      by_cases hu : u' = u
      · subst hu; simp; omega
      · have h2 : ¬ (Leaf.uid u' = Leaf.uid u) := by intro e; cases e; exact hu rfl
        simp [hu, h2]; omega
    · cases h
  | .nil, _, h => by simp [V.toTree] at h
  | .tok _, _, h => by simp [V.toTree] at h
  | .pos .., _, h => by simp [V.toTree] at h
  | .list _, _, h => by simp [V.toTree] at h
  | .bytes .., _, h => by simp [V.toTree] at h
  | .bad, _, h => by simp [V.toTree] at h
theorem kidsOf_nodes (sorts : Nat → List Nat) (toks : Array Tok) (u : Nat) : ∀ (v : V) (ts : List Tree), V.kidsOf sorts toks v = some ts →
    (nodesForest ts).count u ≤ cn (.uid u) v
  | .list xs, ts, h => by
    simp only [V.kidsOf] at h
    rw [cn_list]
    exact toTrees_nodes sorts toks u xs ts h
  | .nil, _, h => by simp [V.kidsOf] at h
  | .tok _, _, h => by simp [V.kidsOf] at h
  | .pos .., _, h => by simp [V.kidsOf] at h
  | .node .., _, h => by simp [V.kidsOf] at h
  | .bytes .., _, h => by simp [V.kidsOf] at h
  | .bad, _, h => by simp [V.kidsOf] at h
theorem toTrees_nodes (sorts : Nat → List Nat) (toks : Array Tok) (u : Nat) : ∀ (vs : List V) (ts : List Tree), toTrees sorts toks vs = some ts →
    (nodesForest ts).count u ≤ cnL (.uid u) vs
  | [], ts, h => by simp [toTrees] at h; subst h; simp [nodesForest]
  | v :: r, ts, h => by
    simp only [toTrees] at h
    split at h
    · rename_i t ts' ht hts
      cases h
      have h1 := toTree_nodes sorts toks u v t ht
      have h2 := toTrees_nodes sorts toks u r ts' hts
      simp only [nodesForest, List.count_append, cnL_cons]
      omega
    · cases h
theorem fieldsTo_nodes (sorts : Nat → List Nat) (toks : Array Tok) (u : Nat) : ∀ (ss : List Nat) (vs : List V) (f : TFields),
    fieldsTo sorts toks ss vs = some f → (nodesSlots f.kids).count u ≤ cnL (.uid u) vs
  | [], [], f, h => by simp [fieldsTo] at h; subst h; simp [nodesSlots]
  | [], _ :: _, f, h => by simp [fieldsTo] at h
  | _ :: _, [], f, h => by simp [fieldsTo] at h
  | s :: ss, v :: vs, f, h => by
    simp only [fieldsTo] at h
    split at h
    · cases h
    · rename_i rest hrest
      have ih := fieldsTo_nodes sorts toks u ss vs rest hrest
      obtain ⟨k, hk, hcase⟩ := fieldCombine_kids toks s v _ _ rest f h
      rw [hk]
      simp only [nodesSlots, List.count_append, cnL_cons]
      have hkb : (nodesForest k).count u ≤ cn (.uid u) v := by
        rcases hcase with rfl | ⟨t, ht, rfl⟩ | hl
        · simp [nodesForest]
        · have := toTree_nodes sorts toks u v t ht
          simpa [nodesForest] using this
        · exact kidsOf_nodes sorts toks u v k hl
      omega
end

/-- what one converted field adds in front of the others, by the sort of the field -/
theorem fieldCombine_shape (toks : Array Tok) (s : Nat) (v : V) (kid : Option Tree) (kidsL : Option (List Tree)) (rest f : TFields)
    (h : fieldCombine toks s v kid kidsL rest = some f) :
    ∃ tk vl k n, f = rest.cons tk vl k n ∧
      (k = [] ∨ (s = 3 ∧ ∃ t, kid = some t ∧ k = [t]) ∨ (s = 4 ∧ kidsL = some k)) := by
  obtain ⟨k, hk, hcase⟩ := fieldCombine_kids toks s v kid kidsL rest f h
  by_cases h0 : s = 0
  · subst h0
    unfold fieldCombine at h
    simp at h
    subst h
    exact ⟨_, _, _, _, rfl, .inl rfl⟩
  by_cases h1 : s = 1
  · subst h1
    unfold fieldCombine at h
    cases v <;> simp at h
    · subst h; exact ⟨_, _, _, _, rfl, .inl rfl⟩
    · obtain ⟨t, _, hf⟩ := h; subst hf; exact ⟨_, _, _, _, rfl, .inl rfl⟩
  by_cases h2 : s = 2
  · subst h2
    unfold fieldCombine at h
    cases v <;> simp at h
    · subst h; exact ⟨_, _, _, _, rfl, .inl rfl⟩
    · obtain ⟨t, _, hf⟩ := h; subst hf; exact ⟨_, _, _, _, rfl, .inl rfl⟩
  by_cases h3 : s = 3
  · subst h3
    unfold fieldCombine at h
    cases v <;> simp at h
    · subst h; exact ⟨_, _, _, _, rfl, .inl rfl⟩
    · obtain ⟨t, ht, hf⟩ := h; subst hf; exact ⟨_, _, _, _, rfl, .inr (.inl ⟨rfl, t, ht, rfl⟩)⟩
  by_cases h4 : s = 4
  · subst h4
    unfold fieldCombine at h
    cases v <;> simp at h
    · subst h; exact ⟨_, _, _, _, rfl, .inl rfl⟩
    · obtain ⟨ts, hts, hf⟩ := h; subst hf; exact ⟨_, _, _, _, rfl, .inr (.inr ⟨rfl, hts⟩)⟩
  by_cases h5 : s = 5
  · subst h5
    unfold fieldCombine at h
    cases v <;> simp at h
    · subst h; exact ⟨_, _, _, _, rfl, .inl rfl⟩
    · obtain ⟨t, _, hf⟩ := h; subst hf; exact ⟨_, _, _, _, rfl, .inl rfl⟩
  · unfold fieldCombine at h
    simp [h0, h1, h2, h3, h4, h5] at h

structure FieldsWF (sorts : Nat → List Nat) (ss : List Nat) (f : TFields) : Prop where
  lk : f.kids.length = ss.length
  lt : f.toks.length = ss.length
  lv : f.vals.length = ss.length
  ln : f.nn.length = ss.length
  ok : kidsOK ss f.kids
  wf : wfSlots sorts f.kids

mutual
theorem toTree_WF (sorts : Nat → List Nat) (toks : Array Tok) : ∀ (v : V) (t : Tree), V.toTree sorts toks v = some t → t.WF sorts
  | .node k u fs, t, h => by
    simp only [V.toTree] at h
    split at h
    · rename_i f hf
      cases h
      have := fieldsTo_WF sorts toks (sorts k) fs f hf
      exact ⟨this.lk, this.lt, this.lv, this.ln, this.ok, this.wf⟩
    · cases h
  | .nil, _, h => by simp [V.toTree] at h
  | .tok _, _, h => by simp [V.toTree] at h
  | .pos .., _, h => by simp [V.toTree] at h
  | .list _, _, h => by simp [V.toTree] at h
  | .bytes .., _, h => by simp [V.toTree] at h
  | .bad, _, h => by simp [V.toTree] at h
theorem kidsOf_WF (sorts : Nat → List Nat) (toks : Array Tok) : ∀ (v : V) (ts : List Tree), V.kidsOf sorts toks v = some ts → wfForest sorts ts
  | .list xs, ts, h => by simp only [V.kidsOf] at h; exact toTrees_WF sorts toks xs ts h
  | .nil, _, h => by simp [V.kidsOf] at h
  | .tok _, _, h => by simp [V.kidsOf] at h
  | .pos .., _, h => by simp [V.kidsOf] at h
  | .node .., _, h => by simp [V.kidsOf] at h
  | .bytes .., _, h => by simp [V.kidsOf] at h
  | .bad, _, h => by simp [V.kidsOf] at h
theorem toTrees_WF (sorts : Nat → List Nat) (toks : Array Tok) : ∀ (vs : List V) (ts : List Tree), toTrees sorts toks vs = some ts → wfForest sorts ts
  | [], ts, h => by simp [toTrees] at h; subst h; trivial
  | v :: r, ts, h => by
    simp only [toTrees] at h
    split at h
    · rename_i t ts' ht hts
      cases h
      exact ⟨toTree_WF sorts toks v t ht, toTrees_WF sorts toks r ts' hts⟩
    · cases h
theorem fieldsTo_WF (sorts : Nat → List Nat) (toks : Array Tok) : ∀ (ss : List Nat) (vs : List V) (f : TFields),
    fieldsTo sorts toks ss vs = some f → FieldsWF sorts ss f
  | [], [], f, h => by
    simp [fieldsTo] at h
    subst h
    exact ⟨rfl, rfl, rfl, rfl, ⟨fun j hj => by simp at hj, fun j hj => by simp at hj⟩, trivial⟩
  | [], _ :: _, f, h => by simp [fieldsTo] at h
  | _ :: _, [], f, h => by simp [fieldsTo] at h
  | s :: ss, v :: vs, f, h => by
    simp only [fieldsTo] at h
    split at h
    · cases h
    · rename_i rest hrest
      have ih := fieldsTo_WF sorts toks ss vs rest hrest
      obtain ⟨tk, vl, k, n, hf, hcase⟩ := fieldCombine_shape toks s v _ _ rest f h
      subst hf
      have hkwf : wfForest sorts k := by
        rcases hcase with rfl | ⟨_, t, ht, rfl⟩ | ⟨_, hl⟩
        · trivial
        · exact ⟨toTree_WF sorts toks v t ht, trivial⟩
        · exact kidsOf_WF sorts toks v k hl
      refine ⟨by simp [TFields.cons, ih.lk], by simp [TFields.cons, ih.lt], by simp [TFields.cons, ih.lv],
        by simp [TFields.cons, ih.ln], ⟨?_, ?_⟩, ⟨hkwf, ih.wf⟩⟩
      · intro j hj hs
        cases j with
        | zero =>
          simp only [List.getElem?_cons_zero, Option.getD_some] at hs
          simp only [TFields.cons, fieldAt, List.getElem?_cons_zero, Option.getD_some]
          rcases hcase with rfl | ⟨h3, _⟩ | ⟨h4, _⟩
          · rfl
          · subst h3; simp [isChildSort] at hs
          · subst h4; simp [isChildSort] at hs
        | succ j =>
          simp only [TFields.cons, List.length_cons] at hj
          simp only [List.getElem?_cons_succ] at hs
          have := ih.ok.1 j (by omega) hs
          simpa [TFields.cons, fieldAt] using this
      · intro j hj hs
        cases j with
        | zero =>
          simp only [List.getElem?_cons_zero, Option.getD_some] at hs
          simp only [TFields.cons, fieldAt, List.getElem?_cons_zero, Option.getD_some]
          rcases hcase with rfl | ⟨_, t, _, rfl⟩ | ⟨h4, _⟩
          · simp
          · simp
          · omega
        | succ j =>
          simp only [TFields.cons, List.length_cons] at hj
          simp only [List.getElem?_cons_succ] at hs
          have := ih.ok.2 j (by omega) hs
          simpa [TFields.cons, fieldAt] using this
end

/-- a value that holds no node identity twice converts to a tree without a shared node -/
theorem toTree_nodup (sorts : Nat → List Nat) (toks : Array Tok) (v : V) (t : Tree) (h : V.toTree sorts toks v = some t)
    (hv : ∀ u, v.lv.count (.uid u) ≤ 1) : t.nodes.Nodup := by
  rw [List.nodup_iff_count]
  intro u
  exact Nat.le_trans (toTree_nodes sorts toks u v t h) (hv u)

end PhpVerif
