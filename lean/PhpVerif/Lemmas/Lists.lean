import PhpVerif.Model.Traverse
namespace PhpVerif

theorem fieldAt_nil {α} (f : Nat) : fieldAt ([] : List (List α)) f = [] := by
  simp [fieldAt]

@[simp] theorem fieldAt_cons_zero {α} (x : List α) (xs : List (List α)) : fieldAt (x :: xs) 0 = x := by
  simp [fieldAt]

@[simp] theorem fieldAt_cons_succ {α} (x : List α) (xs : List (List α)) (f : Nat) :
    fieldAt (x :: xs) (f+1) = fieldAt xs f := by
  simp [fieldAt]

/-- flattening = picking every index in increasing order -/
theorem flatten_eq_pick_range {α} (l : List (List α)) :
    l.flatten = pick (List.range l.length) l := by
  induction l with
  | nil => simp [pick]
  | cons x xs ih =>
    simp only [List.flatten_cons, List.length_cons, pick]
    rw [List.range_succ_eq_map]
    simp only [List.flatMap_cons, fieldAt_cons_zero, List.flatMap_map]
    congr 1

/-- indices whose field is empty can be dropped from a pick -/
theorem pick_filter {α} (P : Nat → Bool) (l : List Nat) (res : List (List α))
    (h : ∀ j ∈ l, P j = false → fieldAt res j = []) :
    pick l res = pick (l.filter P) res := by
  induction l with
  | nil => rfl
  | cons j js ih =>
    have ih' := ih (fun j' hj' => h j' (List.mem_cons_of_mem _ hj'))
    simp only [pick, List.flatMap_cons] at *
    by_cases hp : P j = true
    · simp [hp, ih']
    · have hp' : P j = false := by simpa using hp
      simp [hp', ih', h j (List.mem_cons_self) hp']

theorem pick_perm {α} {o₁ o₂ : List Nat} (h : o₁.Perm o₂) (res : List (List α)) :
    (pick o₁ res).Perm (pick o₂ res) := by
  simp only [pick]
  exact List.Perm.flatMap_right _ h

end PhpVerif
