import PhpVerif.Model.Glue
namespace PhpVerif.Glue

def R.isOk {α} : R α → Bool
  | .ok _ => true
  | .error _ => false

theorem rd_ok (data : List UInt8) (i : Int) (h0 : 0 ≤ i) (h1 : i < data.length) : ∃ b, rd data i = .ok b := by
  unfold rd
  have : ¬ i < 0 := by omega
  simp only [this, if_false]
  have hlt : i.toNat < data.length := by omega
  exact ⟨data[i.toNat], by simp [List.getElem?_eq_getElem hlt]⟩

theorem escaped_ok (data : List UInt8) (p : Int) (h0 : 2 ≤ p) (h1 : p ≤ data.length) : ∃ b, escaped data p = .ok b := by
  obtain ⟨a, ha⟩ := rd_ok data (p - 1) (by omega) (by omega)
  obtain ⟨b, hb⟩ := rd_ok data (p - 2) (by omega) (by omega)
  unfold escaped
  simp only [ha, hb, bind, Except.bind, pure, Except.pure]
  split <;> exact ⟨_, rfl⟩

end PhpVerif.Glue
