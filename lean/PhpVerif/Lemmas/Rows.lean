namespace PhpVerif

/-- table lookup with the empty row as default (kinds outside the schema) -/
def rowAt {α} (t : List (List α)) (k : Nat) : List α := (t[k]?).getD []

/-- a Bool predicate holds on every aligned triple of rows, including the default rows -/
def allRows3 {α β γ} (p : List α → List β → List γ → Bool) :
    List (List α) → List (List β) → List (List γ) → Bool
  | [], [], [] => p [] [] []
  | a :: as, b :: bs, c :: cs => p a b c && allRows3 p as bs cs
  | _, _, _ => false

theorem allRows3_spec {α β γ} (p : List α → List β → List γ → Bool) :
    ∀ (a : List (List α)) (b : List (List β)) (c : List (List γ)), allRows3 p a b c = true →
      ∀ k, p (rowAt a k) (rowAt b k) (rowAt c k) = true
  | [], [], [], h, k => by simpa [rowAt, allRows3] using h
  | x :: a, y :: b, z :: c, h, k => by
    simp only [allRows3, Bool.and_eq_true] at h
    cases k with
    | zero => simpa [rowAt] using h.1
    | succ k => simpa [rowAt] using allRows3_spec p a b c h.2 k
  | [], _ :: _, _, h, _ => by simp [allRows3] at h
  | [], [], _ :: _, h, _ => by simp [allRows3] at h
  | _ :: _, [], _, h, _ => by simp [allRows3] at h
  | _ :: _, _ :: _, [], h, _ => by simp [allRows3] at h

def allRows2 {α β} (p : List α → List β → Bool) : List (List α) → List (List β) → Bool
  | [], [] => p [] []
  | a :: as, b :: bs => p a b && allRows2 p as bs
  | _, _ => false

theorem allRows2_spec {α β} (p : List α → List β → Bool) :
    ∀ (a : List (List α)) (b : List (List β)), allRows2 p a b = true →
      ∀ k, p (rowAt a k) (rowAt b k) = true
  | [], [], h, k => by simpa [rowAt, allRows2] using h
  | x :: a, y :: b, h, k => by
    simp only [allRows2, Bool.and_eq_true] at h
    cases k with
    | zero => simpa [rowAt] using h.1
    | succ k => simpa [rowAt] using allRows2_spec p a b h.2 k
  | [], _ :: _, h, _ => by simp [allRows2] at h
  | _ :: _, [], h, _ => by simp [allRows2] at h

end PhpVerif
