import PhpVerif.Model.NewLines
namespace PhpVerif.NL

theorem dropWhile_desc_eq_filter (p : Nat) :
    ∀ (l : List Nat), l.Pairwise (· > ·) → l.dropWhile (fun x => decide (p < x)) = l.filter (· ≤ p)
  | [], _ => rfl
  | x :: xs, h => by
    have hx : ∀ y ∈ xs, x > y := fun y hy => List.rel_of_pairwise_cons h hy
    have hxs := List.Pairwise.of_cons h
    by_cases c : p < x
    · have : ¬ x ≤ p := by omega
      simp [List.dropWhile, c, this, dropWhile_desc_eq_filter p xs hxs]
    · have c' : x ≤ p := by omega
      have hall : ∀ y ∈ xs, y ≤ p := fun y hy => by have := hx y hy; omega
      have : xs.filter (· ≤ p) = xs := List.filter_eq_self.mpr (by simpa using hall)
      simp [List.dropWhile, c, c', this]

theorem getLine_spec (d : List Nat) (h : d.Pairwise (· < ·)) (p : Nat) :
    getLine d p = (d.filter (· ≤ p)).length + 1 := by
  unfold getLine
  have hr : d.reverse.Pairwise (· > ·) := by
    rw [List.pairwise_reverse]; exact h
  rw [dropWhile_desc_eq_filter p _ hr, List.filter_reverse, List.length_reverse]

theorem getLast?_append_single (d : List Nat) (p : Nat) : (d ++ [p]).getLast? = some p := by simp

/-- invariant of `append`: strictly increasing -/
theorem append_sorted (d : List Nat) (p : Nat) (h : d.Pairwise (· < ·)) : (append d p).Pairwise (· < ·) := by
  unfold append
  cases hl : d.getLast? with
  | none =>
    have : d = [] := List.getLast?_eq_none_iff.mp hl
    subst this; simp
  | some l =>
    by_cases c : l < p
    · simp only [c, if_true]
      rw [List.pairwise_append]
      refine ⟨h, by simp, ?_⟩
      intro a ha b hb
      have hb' : b = p := by simpa using hb
      subst hb'
      -- every element of a sorted list is ≤ its last
      obtain ⟨pre, rfl⟩ : ∃ pre, d = pre ++ [l] := List.getLast?_eq_some_iff.mp hl
      rw [List.pairwise_append] at h
      rcases List.mem_append.mp ha with ha | ha
      · have := h.2.2 a ha l (by simp); omega
      · have : a = l := by simpa using ha
        omega
    · simp [c, h]

theorem append_noop (d : List Nat) (p l : Nat) (hl : d.getLast? = some l) (h : p ≤ l) : append d p = d := by
  unfold append; simp [hl]; omega

end PhpVerif.NL

namespace PhpVerif.NL

theorem mem_lineStarts {src : List UInt8} {m x : Nat} :
    x ∈ lineStarts src m ↔ ∃ i, i < m ∧ endsLine src i = true ∧ x = i + 1 := by
  simp [lineStarts, List.mem_map, List.mem_filter, List.mem_range]
  constructor
  · rintro ⟨i, ⟨h1, h2⟩, rfl⟩; exact ⟨i, h1, h2, rfl⟩
  · rintro ⟨i, h1, h2, rfl⟩; exact ⟨i, ⟨h1, h2⟩, rfl⟩

theorem lineStarts_le {src : List UInt8} {m x : Nat} (h : x ∈ lineStarts src m) : x ≤ m := by
  obtain ⟨i, hi, _, rfl⟩ := mem_lineStarts.mp h; omega

theorem lineStarts_succ (src : List UInt8) (m : Nat) :
    lineStarts src (m + 1) = if endsLine src m then lineStarts src m ++ [m + 1] else lineStarts src m := by
  unfold lineStarts
  rw [List.range_succ, List.filter_append, List.map_append]
  by_cases h : endsLine src m <;> simp [h]

theorem lineStarts_sorted (src : List UInt8) : ∀ m, (lineStarts src m).Pairwise (· < ·)
  | 0 => by simp [lineStarts]
  | m + 1 => by
    rw [lineStarts_succ]
    split
    · rw [List.pairwise_append]
      refine ⟨lineStarts_sorted src m, by simp, ?_⟩
      intro a ha b hb
      have : b = m + 1 := by simpa using hb
      have := lineStarts_le ha
      omega
    · exact lineStarts_sorted src m

theorem lineStarts_mono {src : List UInt8} {m n x : Nat} (h : m ≤ n) (hx : x ∈ lineStarts src m) : x ∈ lineStarts src n := by
  obtain ⟨i, hi, he, rfl⟩ := mem_lineStarts.mp hx
  exact mem_lineStarts.mpr ⟨i, by omega, he, rfl⟩

theorem append_fresh (d : List Nat) (p : Nat) (h : ∀ x ∈ d, x < p) : append d p = d ++ [p] := by
  unfold append
  cases hl : d.getLast? with
  | none => rfl
  | some l =>
    have : l < p := h l (List.mem_of_getLast? hl)
    simp [this]

theorem append_member (d : List Nat) (p : Nat) (hs : d.Pairwise (· < ·)) (hm : p ∈ d) : append d p = d := by
  unfold append
  cases hl : d.getLast? with
  | none =>
    have : d = [] := List.getLast?_eq_none_iff.mp hl
    subst this; simp at hm
  | some l =>
    obtain ⟨pre, rfl⟩ := List.getLast?_eq_some_iff.mp hl
    have : ¬ l < p := by
      rw [List.pairwise_append] at hs
      rcases List.mem_append.mp hm with h | h
      · have := hs.2.2 p h l (by simp); omega
      · have : p = l := by simpa using h
        omega
    simp [this]

/-- one execution of the `new_line` action at an offset that is at most one past what has been scanned -/
theorem action_step (src : List UInt8) (m p : Nat) (hp : p ≤ m) :
    newLineAction src (lineStarts src m) p = lineStarts src (max m (p + 1)) := by
  unfold newLineAction
  by_cases hlt : p < m
  · have hmax : max m (p + 1) = m := by omega
    rw [hmax]
    split
    · rename_i he
      exact append_member _ _ (lineStarts_sorted src m) (mem_lineStarts.mpr ⟨p, hlt, he, rfl⟩)
    · rfl
  · have hpm : p = m := by omega
    subst hpm
    have hmax : max p (p + 1) = p + 1 := by omega
    rw [hmax, lineStarts_succ]
    split
    · exact append_fresh _ _ (fun x hx => by have := lineStarts_le hx; omega)
    · rfl

/-- the offsets are visited without skipping: each one is at most one past the running maximum
    (re-reading an offset after backtracking is allowed) -/
def NoSkip : Nat → List Nat → Prop
  | _, [] => True
  | m, p :: ps => p ≤ m ∧ NoSkip (max m (p + 1)) ps

def reach : Nat → List Nat → Nat
  | m, [] => m
  | m, p :: ps => reach (max m (p + 1)) ps

theorem scan_from (src : List UInt8) : ∀ (ps : List Nat) (m : Nat), NoSkip m ps →
    ps.foldl (newLineAction src) (lineStarts src m) = lineStarts src (reach m ps)
  | [], _, _ => rfl
  | p :: ps, m, h => by
    simp only [List.foldl_cons, reach]
    rw [action_step src m p h.1]
    exact scan_from src ps _ h.2

theorem filter_le_lineStarts (src : List UInt8) (p : Nat) : ∀ m, p ≤ m →
    (lineStarts src m).filter (· ≤ p) = lineStarts src p
  | m, h => by
    induction m with
    | zero => have : p = 0 := by omega
              subst this; simp [lineStarts]
    | succ m ih =>
      by_cases hp : p = m + 1
      · subst hp
        exact List.filter_eq_self.mpr (fun x hx => by have := lineStarts_le hx; simpa using this)
      · have hle : p ≤ m := by omega
        rw [lineStarts_succ]
        split
        · rw [List.filter_append, ih hle]
          have : ¬ (m + 1 ≤ p) := by omega
          simp [this]
        · exact ih hle

end PhpVerif.NL
