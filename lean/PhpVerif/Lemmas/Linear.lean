import PhpVerif.Model.Linear
import PhpVerif.Lemmas.Term
/-
Soundness of the resource analysis of Model/Linear.lean: for every leaf `a` (a token or a node identity),
the number of times `a` occurs in the value a term evaluates to is at most the sum, over the resources the
analysis lists for the term, of the number of times `a` occurs in that resource.
-/
namespace PhpVerif

def cn (a : Leaf) (v : V) : Nat := v.lv.count a
def cnL (a : Leaf) (l : List V) : Nat := (lvL l).count a

@[simp] theorem cnL_nil (a : Leaf) : cnL a [] = 0 := by simp [cnL, lvL]
@[simp] theorem cnL_cons (a : Leaf) (v : V) (r : List V) : cnL a (v :: r) = cn a v + cnL a r := by
  simp [cnL, cn, lvL, List.count_append]
theorem cnL_append (a : Leaf) : ∀ (l m : List V), cnL a (l ++ m) = cnL a l + cnL a m
  | [], m => by simp
  | v :: r, m => by simp [cnL_append a r m, Nat.add_assoc]

@[simp] theorem cn_nil (a : Leaf) : cn a .nil = 0 := by simp [cn, V.lv]
@[simp] theorem cn_bad (a : Leaf) : cn a .bad = 0 := by simp [cn, V.lv]
@[simp] theorem cn_pos (a : Leaf) (s e : PRef) : cn a (.pos s e) = 0 := by simp [cn, V.lv]
@[simp] theorem cn_bytes (a : Leaf) (p : List Nat) (i : Nat) : cn a (.bytes p i) = 0 := by simp [cn, V.lv]
@[simp] theorem cn_list (a : Leaf) (xs : List V) : cn a (.list xs) = cnL a xs := by simp [cn, cnL, V.lv]
theorem cn_node (a : Leaf) (k u : Nat) (fs : List V) :
    cn a (.node k u fs) = cnL a fs + (if Leaf.uid u = a then 1 else 0) := by
  simp [cn, cnL, V.lv, List.count_cons]
theorem cn_tok (a : Leaf) (i : Nat) : cn a (.tok i) = if Leaf.tok i = a then 1 else 0 := by
  simp [cn, V.lv, List.count_cons]

theorem cnL_le_node (a : Leaf) (k u : Nat) (fs : List V) : cnL a fs ≤ cn a (.node k u fs) := by
  rw [cn_node]; omega

theorem cn_mem_le (a : Leaf) : ∀ {l : List V} {v : V}, v ∈ l → cn a v ≤ cnL a l
  | [], _, h => by cases h
  | x :: r, v, h => by
    rcases List.mem_cons.mp h with rfl | h'
    · simp
    · have := cn_mem_le a h'
      simp; omega

theorem cn_getD_le (a : Leaf) (l : List V) (k : Nat) : cn a ((l[k]?).getD .bad) ≤ cnL a l := by
  cases h : l[k]? with
  | none => simp
  | some v => simpa using cn_mem_le a (List.mem_of_getElem? h)

theorem cnL_setNth_eq (a : Leaf) (x : V) : ∀ (l : List V) (k : Nat), k < l.length →
    cnL a (setNth l k x) + cn a ((l[k]?).getD .bad) = cnL a l + cn a x
  | [], _, h => by simp at h
  | v :: r, 0, _ => by simp [setNth]; omega
  | v :: r, k + 1, h => by
    have ih := cnL_setNth_eq a x r k (by simpa using h)
    simp only [setNth, cnL_cons, List.getElem?_cons_succ]
    omega

theorem cnL_setNth_le (a : Leaf) (x : V) : ∀ (l : List V) (k : Nat), cnL a (setNth l k x) ≤ cnL a l + cn a x
  | [], _ => by simp [setNth]
  | v :: r, 0 => by simp [setNth]; omega
  | v :: r, k + 1 => by
    have ih := cnL_setNth_le a x r k
    simp only [setNth, cnL_cons]
    omega

theorem setNth_length (x : V) : ∀ (l : List V) (k : Nat), (setNth l k x).length = l.length
  | [], _ => by simp [setNth]
  | _ :: _, 0 => by simp [setNth]
  | _ :: r, k + 1 => by simp [setNth, setNth_length x r k]

theorem setNth_getElem?_ne (x : V) : ∀ (l : List V) (k g : Nat), g ≠ k → (setNth l k x)[g]? = l[g]?
  | [], _, _, _ => by simp [setNth]
  | _ :: _, 0, g, h => by
    cases g with
    | zero => exact absurd rfl h
    | succ g => simp [setNth]
  | _ :: r, k + 1, g, h => by
    cases g with
    | zero => simp [setNth]
    | succ g => simp [setNth, setNth_getElem?_ne x r k g (by omega)]

theorem setNth_getElem?_eq (x : V) : ∀ (l : List V) (k : Nat), k < l.length → (setNth l k x)[k]? = some x
  | [], _, h => by simp at h
  | _ :: _, 0, _ => by simp [setNth]
  | _ :: r, k + 1, h => by simp [setNth, setNth_getElem?_eq x r k (by simpa using h)]

theorem setNth_ge (x : V) : ∀ (l : List V) (k : Nat), l.length ≤ k → setNth l k x = l
  | [], _, _ => by simp [setNth]
  | _ :: _, 0, h => by simp at h
  | v :: r, k + 1, h => by simp [setNth, setNth_ge x r k (by simpa using h)]

theorem cnL_dropLastV_le (a : Leaf) : ∀ (l : List V), cnL a (dropLastV l) ≤ cnL a l
  | [] => by simp [dropLastV]
  | [_] => by simp [dropLastV]
  | v :: w :: r => by
    have ih := cnL_dropLastV_le a (w :: r)
    simp only [dropLastV, cnL_cons] at ih ⊢
    omega

theorem cnL_eq_sum_range (a : Leaf) : ∀ (l : List V),
    cnL a l = ((List.range l.length).map (fun g => cn a ((l[g]?).getD .bad))).sum
  | [] => by simp
  | v :: r => by
    rw [cnL_cons, cnL_eq_sum_range a r]
    simp [List.range_succ_eq_map, List.map_map, Function.comp_def]

/-! ### what a resource stands for -/

structure RCtx where
  args : List V
  cur : Option Nat
  uid0 : Nat

def resLv (rc : RCtx) : Res → List Leaf
  | .root i => (getArg rc.args i).lv
  | .fld i f => match getArg rc.args i with
    | .node _ _ fs => ((fs[f]?).getD .bad).lv
    | _ => []
  | .cur => match rc.cur with
    | some i => [.tok i]
    | none => []
  | .fresh j => [.uid (rc.uid0 + j)]

def resCn (rc : RCtx) (a : Leaf) (r : Res) : Nat := (resLv rc r).count a
def sumRes (rc : RCtx) (a : Leaf) (b : List Res) : Nat := (b.map (resCn rc a)).sum

@[simp] theorem sumRes_nil (rc : RCtx) (a : Leaf) : sumRes rc a [] = 0 := by simp [sumRes]
@[simp] theorem sumRes_cons (rc : RCtx) (a : Leaf) (r : Res) (b : List Res) :
    sumRes rc a (r :: b) = resCn rc a r + sumRes rc a b := by simp [sumRes]
@[simp] theorem sumRes_append (rc : RCtx) (a : Leaf) (b c : List Res) :
    sumRes rc a (b ++ c) = sumRes rc a b + sumRes rc a c := by simp [sumRes]

theorem sumRes_erase (rc : RCtx) (a : Leaf) {r : Res} {b : List Res} (h : r ∈ b) :
    sumRes rc a b = resCn rc a r + sumRes rc a (b.erase r) := by
  have hp := (List.perm_cons_erase h).map (resCn rc a)
  have := hp.sum_nat
  simpa [sumRes] using this

theorem resCn_root (rc : RCtx) (a : Leaf) (i : Nat) : resCn rc a (.root i) = cn a (getArg rc.args i) := rfl

/-! ### the relation between a run of the stores and its symbolic run -/

/-- what the stores into field `g` may have brought -/
def contrib (rc : RCtx) (a : Leaf) (ov : List (Nat × List Res)) (g : Nat) : Nat := sumRes rc a (ovGet ov g)

theorem contrib_nil (rc : RCtx) (a : Leaf) (g : Nat) : contrib rc a [] g = 0 := by simp [contrib, ovGet]

theorem ovGet_ovSet_eq (ov : List (Nat × List Res)) (f : Nat) (b : List Res) : ovGet (ovSet ov f b) f = b := by
  simp [ovGet, ovSet, List.find?]

theorem ovGet_filter_ne (f g : Nat) (h : g ≠ f) : ∀ (ov : List (Nat × List Res)),
    ovGet (ov.filter (fun e => !(e.1 == f))) g = ovGet ov g
  | [] => rfl
  | e :: r => by
    by_cases hef : e.1 = f
    · have hne : ¬ (e.1 = g) := by intro h2; exact h (h2.symm.trans hef)
      have h1 : (e.1 == f) = true := by simpa using hef
      have h2 : (e.1 == g) = false := by simpa using hne
      simp only [List.filter, h1, Bool.not_true]
      rw [ovGet_filter_ne f g h r]
      simp [ovGet, List.find?, h2]
    · have h1 : (e.1 == f) = false := by simpa using hef
      simp only [List.filter, h1, Bool.not_false]
      by_cases heg : e.1 = g
      · have h2 : (e.1 == g) = true := by simpa using heg
        simp [ovGet, List.find?, h2]
      · have h2 : (e.1 == g) = false := by simpa using heg
        have ih := ovGet_filter_ne f g h r
        simp only [ovGet, List.find?, h2] at ih ⊢
        exact ih

theorem ovGet_ovSet_ne (ov : List (Nat × List Res)) (f g : Nat) (b : List Res) (h : g ≠ f) :
    ovGet (ovSet ov f b) g = ovGet ov g := by
  have h2 : (f == g) = false := by simpa using (Ne.symm h)
  have := ovGet_filter_ne f g h ov
  simp only [ovGet, ovSet, List.find?, h2] at this ⊢
  exact this

theorem sum_range_ite_eq (w f : Nat) : ∀ (n : Nat),
    ((List.range n).map (fun g => if f = g then w else 0)).sum = if f < n then w else 0
  | 0 => by simp
  | n + 1 => by
    rw [List.range_succ, List.map_append, List.sum_append, sum_range_ite_eq w f n]
    simp only [List.map_cons, List.map_nil, List.sum_cons, List.sum_nil]
    by_cases h1 : f < n
    · have h2 : ¬ (f = n) := by omega
      have h3 : f < n + 1 := by omega
      simp [h1, h2, h3]
    · by_cases h2 : f = n
      · have h3 : f < n + 1 := by omega
        simp [h1, h2, h3]
      · have h3 : ¬ (f < n + 1) := by omega
        simp [h1, h2, h3]

theorem sum_range_ite (w f n : Nat) : ((List.range n).map (fun g => if f = g then w else 0)).sum ≤ w := by
  rw [sum_range_ite_eq]
  split <;> omega

theorem sum_map_zero : ∀ (l : List Nat), (l.map (fun _ => 0)).sum = 0
  | [] => rfl
  | _ :: r => by simp [sum_map_zero r]

theorem sum_map_le {F G : Nat → Nat} : ∀ (l : List Nat), (∀ g ∈ l, F g ≤ G g) → (l.map F).sum ≤ (l.map G).sum
  | [], _ => by simp
  | x :: r, h => by
    have h1 := h x (List.mem_cons_self ..)
    have h2 := sum_map_le r (fun g hg => h g (List.mem_cons_of_mem _ hg))
    simp only [List.map_cons, List.sum_cons]
    omega

theorem sum_map_add (F G : Nat → Nat) : ∀ (l : List Nat), (l.map (fun g => F g + G g)).sum = (l.map F).sum + (l.map G).sum
  | [] => by simp
  | x :: r => by
    simp only [List.map_cons, List.sum_cons, sum_map_add F G r]
    omega

/-- the stores into all fields together bring at most what the entries list -/
theorem sum_contrib_le (rc : RCtx) (a : Leaf) (n : Nat) : ∀ (ov : List (Nat × List Res)),
    ((List.range n).map (contrib rc a ov)).sum ≤ sumRes rc a (ovAll ov)
  | [] => by
    have : ((List.range n).map (contrib rc a [])) = (List.range n).map (fun _ => 0) := by
      apply List.map_congr_left
      intro g _
      exact contrib_nil rc a g
    rw [this, sum_map_zero]
    exact Nat.zero_le _
  | e :: r => by
    have ih := sum_contrib_le rc a n r
    have hle : ∀ g ∈ List.range n, contrib rc a (e :: r) g ≤ (if e.1 = g then sumRes rc a e.2 else 0) + contrib rc a r g := by
      intro g _
      by_cases heg : e.1 = g
      · have h2 : (e.1 == g) = true := by simpa using heg
        simp [contrib, ovGet, List.find?, h2, heg]
      · have h2 : (e.1 == g) = false := by simpa using heg
        simp [contrib, ovGet, List.find?, h2, heg]
    have h1 := sum_map_le (List.range n) hle
    rw [sum_map_add] at h1
    have h3 := sum_range_ite (sumRes rc a e.2) e.1 n
    simp only [ovAll, sumRes_append]
    omega

/-- `v` is what `$i` has become, `st` is what the analysis knows about it -/
def ArgR (rc : RCtx) (i : Nat) (st : SArg) (v : V) : Prop :=
  v = .bad ∨
  ((∀ a, cn a v ≤ cn a (getArg rc.args i) + sumRes rc a (ovAll st.ov)) ∧
   (∀ k u fs, v = .node k u fs → ∃ fs0, getArg rc.args i = .node k u fs0 ∧ fs0.length = fs.length ∧
      ∀ g a, cn a ((fs[g]?).getD .bad) ≤ cn a ((fs0[g]?).getD .bad) + contrib rc a st.ov g))

def EnvR (rc : RCtx) (se : SEnv) (env : List V) : Prop := ∀ i, ArgR rc i (sget se i) (getArg env i)

theorem ArgR_init (rc : RCtx) (i : Nat) : ArgR rc i {} (getArg rc.args i) := by
  refine .inr ⟨fun a => by simp [ovAll], ?_⟩
  intro k u fs h
  exact ⟨fs, h, rfl, fun _ _ => by simp [contrib_nil]⟩

theorem EnvR_init (rc : RCtx) : EnvR rc [] rc.args := by
  intro i
  simpa [sget] using ArgR_init rc i

theorem EnvR_nil (rc : RCtx) : EnvR rc [] [] := by
  intro i
  left
  unfold getArg
  split <;> simp

theorem ArgR_whole {rc : RCtx} {i : Nat} {st : SArg} {v : V} (h : ArgR rc i st v) (a : Leaf) :
    cn a v ≤ sumRes rc a (.root i :: ovAll st.ov) := by
  rcases h with rfl | ⟨h, _⟩
  · simp
  · simpa [resCn_root] using h a

theorem getArg_setNth_ne (env : List V) (i j : Nat) (y : V) (h : j ≠ i) (hi : i ≠ 0) :
    getArg (setNth env (i - 1) y) j = getArg env j := by
  unfold getArg
  split
  · rfl
  · rename_i hj
    have hj' : j ≠ 0 := by simpa using hj
    rw [setNth_getElem?_ne]
    omega

theorem getArg_setNth_eq (env : List V) (i : Nat) (y : V) (hi : i ≠ 0) :
    getArg (setNth env (i - 1) y) i = (if i - 1 < env.length then y else .bad) := by
  unfold getArg
  have : (i == 0) = false := by simpa using hi
  rw [this]
  simp only [Bool.false_eq_true, if_false]
  by_cases h : i - 1 < env.length
  · simp [h, setNth_getElem?_eq y env (i - 1) h]
  · rw [setNth_ge y env (i - 1) (by omega)]
    simp [h, List.getElem?_eq_none (Nat.le_of_not_lt h)]

theorem getArg_bad_of_ge (env : List V) (i : Nat) (h : ¬ (i - 1 < env.length)) : getArg env i = .bad := by
  unfold getArg
  split
  · rfl
  · simp [List.getElem?_eq_none (Nat.le_of_not_lt h)]

theorem sget_sset_eq (e : SEnv) (i : Nat) (a : SArg) : sget (sset e i a) i = a := by
  simp [sget, sset, List.find?]

theorem sget_sset_ne (e : SEnv) (i j : Nat) (a : SArg) (h : j ≠ i) : sget (sset e i a) j = sget e j := by
  have : (i == j) = false := by simpa using (Ne.symm h)
  simp [sget, sset, List.find?, this]

/-- one store keeps the relation -/
theorem EnvR_store {rc : RCtx} {se : SEnv} {env : List V} (h : EnvR rc se env) (i f : Nat) (hi : i ≠ 0)
    {x : V} {bx : List Res} (hx : ∀ a, cn a x ≤ sumRes rc a bx) :
    EnvR rc (sStore se i f bx) (setNth env (i - 1) (setPath (getArg env i) [] f x)) := by
  intro j
  by_cases hj : j = i
  · subst hj
    rw [getArg_setNth_eq _ _ _ hi]
    split
    · -- in range
      simp only [sStore, sget_sset_eq]
      have hold := h j
      cases hv : getArg env j with
      | node k u fs =>
        simp only [setPath]
        by_cases hf : f < fs.length
        · simp only [hf, if_true]
          rcases hold with hb | ⟨_, hnode⟩
          · rw [hv] at hb; cases hb
          · obtain ⟨fs0, ha0, hlen, hfld⟩ := hnode k u fs hv
            -- the new field-wise bound
            have hfld' : ∀ g a, cn a (((setNth fs f x)[g]?).getD .bad) ≤ cn a ((fs0[g]?).getD .bad) +
                contrib rc a (ovSet (sget se j).ov f (if bx.contains (Res.fld j f) = true then bx.erase (Res.fld j f) else bx)) g := by
              intro g a
              by_cases hg : g = f
              · subst hg
                rw [setNth_getElem?_eq x fs g hf]
                simp only [Option.getD_some, contrib, ovGet_ovSet_eq]
                have hxa := hx a
                by_cases hcond : bx.contains (Res.fld j g) = true
                · simp only [hcond, if_true]
                  have hmem : Res.fld j g ∈ bx := by simpa using hcond
                  have hse := sumRes_erase rc a hmem
                  have hrc : resCn rc a (.fld j g) = cn a ((fs0[g]?).getD .bad) := by
                    simp [resCn, resLv, ha0, cn]
                  omega
                · simp only [hcond]
                  simp only [Bool.false_eq_true, if_false]
                  omega
              · rw [setNth_getElem?_ne x fs f g hg]
                simp only [contrib, ovGet_ovSet_ne _ _ _ _ hg]
                exact hfld g a
            right
            refine ⟨?_, ?_⟩
            · intro a
              rw [cn_node, ha0, cn_node, cnL_eq_sum_range a (setNth fs f x), cnL_eq_sum_range a fs0, setNth_length, ← hlen]
              have h1 := sum_map_le (List.range fs0.length) (fun g _ => hfld' g a)
              rw [sum_map_add] at h1
              have h2 := sum_contrib_le rc a fs0.length
                (ovSet (sget se j).ov f (if bx.contains (Res.fld j f) = true then bx.erase (Res.fld j f) else bx))
              dsimp only
              omega
            · intro k' u' fs' hv'
              cases hv'
              exact ⟨fs0, ha0, by rw [setNth_length]; exact hlen, hfld'⟩
        · simp only [hf, if_false]; left; trivial
      | _ => left; simp [setPath]
    · left; rfl
  · rw [getArg_setNth_ne env i j _ hj hi]
    simp only [sStore]
    rw [sget_sset_ne _ _ _ _ hj]
    exact h j

theorem cnL_setLastV_eq (a : Leaf) (y : V) : ∀ (l : List V) (z : V), lastV l = some z →
    cnL a (setLastV l y) + cn a z = cnL a l + cn a y
  | [], _, h => by simp [lastV] at h
  | [w], z, h => by
    simp only [lastV, Option.some.injEq] at h
    subst h
    simp [setLastV]; omega
  | w :: w2 :: r, z, h => by
    simp only [lastV] at h
    have ih := cnL_setLastV_eq a y (w2 :: r) z h
    simp only [setLastV, cnL_cons] at ih ⊢
    omega

theorem cn_setPath_le (a : Leaf) (x : V) : ∀ (path : List Nat) (v : V) (f : Nat),
    cn a (setPath v path f x) ≤ cn a v + cn a x
  | [], v, f => by
    cases v <;> simp only [setPath] <;> try simp
    case node k u fs =>
      split
      · rw [cn_node, cn_node]
        have := cnL_setNth_le a x fs f
        omega
      · simp
  | p :: ps, v, f => by
    cases v <;> (try simp only [setPath]) <;> try simp
    case node k u fs =>
      split
      · rename_i sub hsub
        have hp : p < fs.length := by
          have := List.getElem?_eq_some_iff.mp hsub
          exact this.1
        have ih := cn_setPath_le a x ps sub f
        have heq := cnL_setNth_eq a (setPath sub ps f x) fs p hp
        rw [hsub] at heq
        simp only [Option.getD_some] at heq
        rw [cn_node, cn_node]
        omega
      · simp
    case list xs =>
      cases xs with
      | nil => simp [setPath]
      | cons w r =>
        simp only [setPath]
        split
        · have ih := cn_setPath_le a x ps w f
          simp only [cn_list, cnL_cons]
          omega
        · split
          · split
            · rename_i z hz
              have ih := cn_setPath_le a x ps z f
              have heq := cnL_setLastV_eq a (setPath z ps f x) (w :: r) z hz
              simp only [cn_list]
              omega
            · simp
          · simp

theorem ovGet_cons_eq (ov : List (Nat × List Res)) (p : Nat) (b : List Res) : ovGet ((p, b) :: ov) p = b := by
  simp [ovGet, List.find?]

theorem ovGet_cons_ne (ov : List (Nat × List Res)) (p g : Nat) (b : List Res) (h : g ≠ p) : ovGet ((p, b) :: ov) g = ovGet ov g := by
  have h2 : (p == g) = false := by simpa using (Ne.symm h)
  simp [ovGet, List.find?, h2]

/-- a store further down keeps the relation -/
theorem EnvR_storePath {rc : RCtx} {se : SEnv} {env : List V} (h : EnvR rc se env) (i f p : Nat) (ps : List Nat) (hi : i ≠ 0)
    {x : V} {bx : List Res} (hx : ∀ a, cn a x ≤ sumRes rc a bx) :
    EnvR rc (sStorePath se i p bx) (setNth env (i - 1) (setPath (getArg env i) (p :: ps) f x)) := by
  intro j
  by_cases hj : j = i
  · subst hj
    rw [getArg_setNth_eq _ _ _ hi]
    split
    · simp only [sStorePath, sget_sset_eq]
      rcases h j with hb | ⟨hcnt, hnode⟩
      · left
        rw [hb]
        simp [setPath]
      · by_cases hbad : setPath (getArg env j) (p :: ps) f x = .bad
        · left; exact hbad
        · right
          refine ⟨?_, ?_⟩
          · intro a
            have h1 := cn_setPath_le a x (p :: ps) (getArg env j) f
            have h2 := hcnt a
            have h3 := hx a
            simp only [ovAll, sumRes_append]
            omega
          · intro k u fs' hv'
            cases hv : getArg env j with
            | node k0 u0 fs =>
              rw [hv] at hv'
              simp only [setPath] at hv'
              split at hv'
              · rename_i sub hsub
                cases hv'
                obtain ⟨fs0, ha0, hlen, hfld⟩ := hnode k u fs hv
                refine ⟨fs0, ha0, by rw [setNth_length]; exact hlen, ?_⟩
                intro g a
                have hp : p < fs.length := (List.getElem?_eq_some_iff.mp hsub).1
                by_cases hg : g = p
                · subst hg
                  rw [setNth_getElem?_eq _ fs g hp]
                  simp only [Option.getD_some, contrib, ovGet_cons_eq, sumRes_append]
                  have h1 := cn_setPath_le a x ps sub f
                  have h2 := hfld g a
                  rw [hsub] at h2
                  simp only [Option.getD_some, contrib] at h2
                  have h3 := hx a
                  omega
                · rw [setNth_getElem?_ne _ fs p g hg]
                  simp only [contrib, ovGet_cons_ne _ _ _ _ hg]
                  exact hfld g a
              · cases hv'
            | list xs =>
              rw [hv] at hv'
              cases xs with
              | nil => simp [setPath] at hv'
              | cons w r =>
                simp only [setPath] at hv'
                split at hv'
                · cases hv'
                · split at hv'
                  · split at hv' <;> cases hv'
                  · cases hv'
            | _ => rw [hv] at hv'; simp [setPath] at hv'
    · left; rfl
  · rw [getArg_setNth_ne env i j _ hj hi]
    simp only [sStorePath]
    rw [sget_sset_ne _ _ _ _ hj]
    exact h j

/-! ### versions of the right-hand side -/

theorem lastEnv_eq : ∀ (l : List (List V)), lastEnv l = (l[l.length - 1]?).getD []
  | [] => by simp [lastEnv]
  | [e] => by simp [lastEnv]
  | a :: b :: r => by
    simp only [lastEnv]
    rw [lastEnv_eq (b :: r)]
    simp

theorem slastEnv_eq : ∀ (l : List SEnv), slastEnv l = (l[l.length - 1]?).getD []
  | [] => by simp [slastEnv]
  | [e] => by simp [slastEnv]
  | a :: b :: r => by
    simp only [slastEnv]
    rw [slastEnv_eq (b :: r)]
    simp

/-- versions agree index by index -/
def EnvsR (rc : RCtx) (ses : List SEnv) (envs : List (List V)) : Prop :=
  envs.length = ses.length ∧ ∀ k (hk : k < envs.length) (hk' : k < ses.length), EnvR rc ses[k] envs[k]

theorem EnvsR_last {rc : RCtx} {ses : List SEnv} {envs : List (List V)} (h : EnvsR rc ses envs) :
    EnvR rc (slastEnv ses) (lastEnv envs) := by
  rw [lastEnv_eq, slastEnv_eq]
  by_cases hz : envs.length = 0
  · have h1 : envs = [] := List.eq_nil_of_length_eq_zero hz
    have h2 : ses = [] := List.eq_nil_of_length_eq_zero (h.1 ▸ hz)
    subst h1; subst h2
    simpa using EnvR_nil rc
  · have hk : envs.length - 1 < envs.length := by omega
    have hk' : ses.length - 1 < ses.length := by rw [← h.1]; exact hk
    have := h.2 (envs.length - 1) hk (h.1 ▸ hk')
    rw [List.getElem?_eq_getElem hk, List.getElem?_eq_getElem hk']
    simp only [Option.getD_some]
    have e : ses.length - 1 = envs.length - 1 := by rw [h.1]
    simp only [e]
    exact this

theorem EnvsR_at {rc : RCtx} {ses : List SEnv} {envs : List (List V)} (h : EnvsR rc ses envs) (k : Nat) :
    EnvR rc (senvAt ses k) (envAt envs k) := by
  unfold senvAt envAt
  by_cases hk : k < envs.length
  · have hk' : k < ses.length := h.1 ▸ hk
    rw [List.getElem?_eq_getElem hk, List.getElem?_eq_getElem hk']
    exact h.2 k hk hk'
  · have hk' : ¬ k < ses.length := h.1 ▸ hk
    rw [List.getElem?_eq_none (Nat.le_of_not_lt hk), List.getElem?_eq_none (Nat.le_of_not_lt hk')]
    exact EnvsR_last h

theorem EnvsR_snoc {rc : RCtx} {ses : List SEnv} {envs : List (List V)} (h : EnvsR rc ses envs)
    {se : SEnv} {env : List V} (he : EnvR rc se env) : EnvsR rc (ses ++ [se]) (envs ++ [env]) := by
  refine ⟨by simp [h.1], ?_⟩
  intro k hk hk'
  by_cases hlt : k < envs.length
  · have hlt' : k < ses.length := h.1 ▸ hlt
    rw [List.getElem_append_left hlt, List.getElem_append_left hlt']
    exact h.2 k hlt hlt'
  · have hkeq : k = envs.length := by simp at hk; omega
    subst hkeq
    have e1 : (envs ++ [env])[envs.length] = env := by simp
    have e2 : (ses ++ [se])[envs.length]'hk' = se := by
      simp [h.1]
    rw [e1, e2]
    exact he

/-! ### evaluation against the analysis -/

/-- node literals evaluated so far agree with their bounds, index by index -/
def ObjsR (rc : RCtx) (sobjs : List (List Res)) (objs : List V) : Prop :=
  objs.length = sobjs.length ∧ ∀ j (hj : j < objs.length) (hj' : j < sobjs.length) a, cn a objs[j] ≤ sumRes rc a sobjs[j]

structure CtxR (rc : RCtx) (c : ECtx) (sc : SCtx) : Prop where
  envs : EnvsR rc sc.envs c.envs
  objs : ObjsR rc sc.objs c.objs
  cur : c.cur = rc.cur

theorem ObjsR_nil (rc : RCtx) : ObjsR rc [] [] := ⟨rfl, fun j hj => by simp at hj⟩

theorem cn_chainStep_le (a : Leaf) (toks : Array TokKey) (combs : List PosComb) (tbl : List (Nat × Nat)) (acc n : V) :
    cn a (chainStep toks combs tbl acc n) ≤ cn a acc + cn a n := by
  unfold chainStep
  split
  · rename_i k u fs
    split
    · rename_i f _
      rw [cn_node, cn_node]
      have h1 := cnL_setNth_le a (evalPos toks combs 3 [acc, .node k u fs]) (setNth fs f acc) 0
      have h2 := cnL_setNth_le a acc fs f
      have h3 : cn a (evalPos toks combs 3 [acc, .node k u fs]) = 0 := by
        unfold evalPos
        split
        · simp
        · simp only
          split <;> simp
      omega
    · omega
  · omega

theorem cn_nestStep_le (a : Leaf) (toks : Array TokKey) (combs : List PosComb) (tbl : List (Nat × Nat)) (n inner : V) :
    cn a (nestStep toks combs tbl n inner) ≤ cn a n + cn a inner := by
  unfold nestStep
  split
  · rename_i k u fs
    split
    · rename_i f _
      rw [cn_node, cn_node]
      have h1 := cnL_setNth_le a (evalPos toks combs 3 [.node k u fs, inner]) (setNth fs f inner) 0
      have h2 := cnL_setNth_le a inner fs f
      have h3 : cn a (evalPos toks combs 3 [.node k u fs, inner]) = 0 := by
        unfold evalPos
        split
        · simp
        · simp only
          split <;> simp
      omega
    · simp
  · simp

theorem cn_foldl_chain (a : Leaf) (toks : Array TokKey) (combs : List PosComb) (tbl : List (Nat × Nat)) :
    ∀ (xs : List V) (acc : V), cn a (xs.foldl (chainStep toks combs tbl) acc) ≤ cn a acc + cnL a xs
  | [], acc => by simp
  | x :: r, acc => by
    simp only [List.foldl, cnL_cons]
    have ih := cn_foldl_chain a toks combs tbl r (chainStep toks combs tbl acc x)
    have := cn_chainStep_le a toks combs tbl acc x
    omega

theorem cn_foldr_nest (a : Leaf) (toks : Array TokKey) (combs : List PosComb) (tbl : List (Nat × Nat)) :
    ∀ (xs : List V) (inner : V), cn a (xs.foldr (nestStep toks combs tbl) inner) ≤ cnL a xs + cn a inner
  | [], inner => by simp
  | x :: r, inner => by
    simp only [List.foldr, cnL_cons]
    have ih := cn_foldr_nest a toks combs tbl r inner
    have := cn_nestStep_le a toks combs tbl x (r.foldr (nestStep toks combs tbl) inner)
    omega

theorem cn_evalPos (a : Leaf) (toks : Array TokKey) (combs : List PosComb) (comb : Nat) (args : List V) :
    cn a (evalPos toks combs comb args) = 0 := by
  unfold evalPos
  split
  · simp
  · simp only
    split <;> simp

/-- a field of `$i`, read at some version -/
theorem ArgR_field {rc : RCtx} {se : SEnv} {env : List V} (h : EnvR rc se env) (i f : Nat) (a : Leaf) :
    cn a (match getArg env i with
      | .node _ _ fs => (fs[f]?).getD .bad
      | _ => .bad) ≤ sumRes rc a (fieldB se i f) := by
  have hi := h i
  unfold fieldB
  cases hv : getArg env i with
  | node k u fs =>
    simp only
    rcases hi with hb | ⟨_, hnode⟩
    · rw [hv] at hb; cases hb
    · obtain ⟨fs0, ha0, _, hfld⟩ := hnode k u fs hv
      have := hfld f a
      have hrc : resCn rc a (.fld i f) = cn a ((fs0[f]?).getD .bad) := by
        simp [resCn, resLv, ha0, cn]
      simp only [sumRes_cons, hrc]
      simpa [contrib] using this
  | _ => simp

theorem fldB_sound {rc : RCtx} {c : ECtx} {sc : SCtx} (h : CtxR rc c sc) (t : Tm) (f : Nat) (a : Leaf)
    (ih : cn a (evalTm c t) ≤ sumRes rc a (bTm sc t)) :
    cn a (evalTm c (.fld t f)) ≤ sumRes rc a (fldB sc t f (bTm sc t)) := by
  have generic : cn a (evalTm c (.fld t f)) ≤ sumRes rc a (bTm sc t) := by
    simp only [evalTm]
    split
    · rename_i k u fs heq
      rw [heq] at ih
      have h2 := cn_getD_le a fs f
      have h3 := cnL_le_node a k u fs
      omega
    · simp
  cases t with
  | argAt k i =>
    simp only [fldB, evalTm]
    exact ArgR_field (EnvsR_at h.envs k) i f a
  | arg i =>
    simp only [fldB, evalTm]
    exact ArgR_field (EnvsR_last h.envs) i f a
  | _ => simpa only [fldB] using generic

mutual
theorem sound_evalTm {rc : RCtx} {c : ECtx} {sc : SCtx} (h : CtxR rc c sc) (a : Leaf) :
    ∀ (t : Tm), cn a (evalTm c t) ≤ sumRes rc a (bTm sc t)
  | .argAt k i => by
    simp only [evalTm, bTm]
    exact ArgR_whole (EnvsR_at h.envs k i) a
  | .arg i => by
    simp only [evalTm, bTm]
    exact ArgR_whole (EnvsR_last h.envs i) a
  | .cur => by
    simp only [evalTm, bTm]
    rw [h.cur]
    cases hc : rc.cur with
    | none => simp
    | some i => simp [resCn, resLv, hc, cn, V.lv]
  | .nil => by simp [evalTm]
  | .fld t f => by
    simp only [bTm]
    exact fldB_sound h t f a (sound_evalTm h a t)
  | .obj j => by
    simp only [evalTm, bTm]
    by_cases hj : j < c.objs.length
    · have hj' : j < sc.objs.length := h.objs.1 ▸ hj
      rw [List.getElem?_eq_getElem hj, List.getElem?_eq_getElem hj']
      exact h.objs.2 j hj hj' a
    · rw [List.getElem?_eq_none (Nat.le_of_not_lt hj)]
      simp
  | .list xs => by
    simp only [evalTm, bTm, cn_list]
    exact sound_evalTms h a xs
  | .app b xs => by
    simp only [evalTm, bTm, sumRes_append]
    have ihb := sound_evalTm h a b
    have ihx := sound_evalTms h a xs
    split
    · omega
    · simp only [cn_list]; omega
    · rename_i l heq
      rw [heq] at ihb
      simp only [cn_list, cnL_append] at ihb ⊢
      omega
    · simp
  | .cat x y => by
    simp only [evalTm, bTm, sumRes_append]
    have ihx := sound_evalTm h a x
    have ihy := sound_evalTm h a y
    split
    · omega
    · omega
    · rename_i l _ heq
      rw [heq] at ihy
      omega
    · rename_i l m h1 h2
      rw [h1] at ihx
      rw [h2] at ihy
      simp only [cn_list, cnL_append] at ihx ihy ⊢
      omega
    · simp
  | .idx0 t => by
    simp only [evalTm, bTm]
    have ih := sound_evalTm h a t
    split
    · rename_i x r heq
      rw [heq] at ih
      simp only [cn_list, cnL_cons] at ih
      omega
    · simp
  | .last t => by
    simp only [evalTm, bTm]
    have ih := sound_evalTm h a t
    split
    · rename_i l heq
      rw [heq] at ih
      cases hl : lastV l with
      | none => simp
      | some v =>
        have := cn_mem_le a (lastV_mem hl)
        simp only [cn_list] at ih
        simp only [Option.getD_some]
        omega
    · simp
  | .tail t => by
    simp only [evalTm, bTm]
    have ih := sound_evalTm h a t
    split
    · rename_i x r heq
      rw [heq] at ih
      simp only [cn_list, cnL_cons] at ih ⊢
      omega
    · simp
  | .init t => by
    simp only [evalTm, bTm]
    have ih := sound_evalTm h a t
    split
    · rename_i x r heq
      rw [heq] at ih
      have := cnL_dropLastV_le a (x :: r)
      simp only [cn_list] at ih ⊢
      omega
    · simp
  | .bytes pre t => by
    simp only [evalTm, bTm]
    split <;> simp
  | .pos comb args => by
    simp only [evalTm, bTm, cn_evalPos]
    exact Nat.zero_le _
  | .chain acc l tbl => by
    simp only [evalTm, bTm, sumRes_append]
    have iha := sound_evalTm h a acc
    have ihl := sound_evalTm h a l
    split
    · omega
    · rename_i xs heq
      rw [heq] at ihl
      have := cn_foldl_chain a c.toks c.combs tbl xs (evalTm c acc)
      simp only [cn_list] at ihl
      omega
    · simp
  | .nest l inner tbl => by
    simp only [evalTm, bTm, sumRes_append]
    have ihl := sound_evalTm h a l
    have ihi := sound_evalTm h a inner
    split
    · rename_i x r heq
      rw [heq] at ihl
      have := cn_foldr_nest a c.toks c.combs tbl (x :: r) (evalTm c inner)
      simp only [cn_list] at ihl
      omega
    · simp
theorem sound_evalTms {rc : RCtx} {c : ECtx} {sc : SCtx} (h : CtxR rc c sc) (a : Leaf) :
    ∀ (ts : List Tm), cnL a (evalTms c ts) ≤ sumRes rc a (bTms sc ts)
  | [] => by simp [evalTms, bTms]
  | t :: r => by
    simp only [evalTms, bTms, cnL_cons, sumRes_append]
    have h1 := sound_evalTm h a t
    have h2 := sound_evalTms h a r
    omega
end


/-! ### node literals, stores, the whole path -/

theorem ObjsR_snoc {rc : RCtx} {sobjs : List (List Res)} {objs : List V} (h : ObjsR rc sobjs objs)
    {b : List Res} {v : V} (hv : ∀ a, cn a v ≤ sumRes rc a b) : ObjsR rc (sobjs ++ [b]) (objs ++ [v]) := by
  refine ⟨by simp [h.1], ?_⟩
  intro j hj hj' a
  by_cases hlt : j < objs.length
  · have hlt' : j < sobjs.length := h.1 ▸ hlt
    rw [List.getElem_append_left hlt, List.getElem_append_left hlt']
    exact h.2 j hlt hlt' a
  · have hjeq : j = objs.length := by simp at hj; omega
    subst hjeq
    have e1 : (objs ++ [v])[objs.length] = v := by simp
    have e2 : (sobjs ++ [b])[objs.length]'hj' = b := by simp [h.1]
    rw [e1, e2]
    exact hv a

theorem bObjs_sound {rc : RCtx} {c : ECtx} {sc : SCtx} (h : CtxR rc c sc) :
    ∀ (os : List ObjLit) (acc : List V) (sacc : List (List Res)), ObjsR rc sacc acc →
      ObjsR rc (bObjs sc os sacc) (evalObjs c rc.uid0 os acc)
  | [], acc, sacc, ha => by simpa [bObjs, evalObjs] using ha
  | o :: os, acc, sacc, ha => by
    simp only [bObjs, evalObjs]
    apply bObjs_sound h os
    apply ObjsR_snoc ha
    intro a
    have hc : CtxR rc { c with objs := acc } { sc with objs := sacc } := ⟨h.envs, ha, h.cur⟩
    have := sound_evalTms hc a o.fields
    rw [cn_node]
    simp only [sumRes_cons]
    have e : resCn rc a (.fresh sacc.length) = if Leaf.uid (rc.uid0 + acc.length) = a then 1 else 0 := by
      simp [resCn, resLv, ha.1, List.count_cons]
    omega

theorem runMuts_sound (rc : RCtx) (toks : Array TokKey) (combs : List PosComb) (objs : List ObjLit) :
    ∀ (ms : List TMut) (envs : List (List V)) (ses ses' : List SEnv), EnvsR rc ses envs →
      sRunMuts objs ms ses = some ses' → EnvsR rc ses' (runMuts toks combs rc.cur rc.uid0 objs ms envs)
  | [], envs, ses, ses', h, hs => by
    simp only [sRunMuts] at hs
    cases hs
    simpa [runMuts] using h
  | m :: ms, envs, ses, ses', h, hs => by
    simp only [sRunMuts] at hs
    simp only [runMuts]
    have hc0 : CtxR rc (ECtx.mk toks combs rc.cur envs []) (SCtx.mk ses []) := ⟨h, ObjsR_nil rc, rfl⟩
    have hc : CtxR rc { (ECtx.mk toks combs rc.cur envs []) with objs := evalObjs (ECtx.mk toks combs rc.cur envs []) rc.uid0 objs [] }
        { (SCtx.mk ses []) with objs := bObjs (SCtx.mk ses []) objs [] } :=
      ⟨h, bObjs_sound hc0 objs [] [] (ObjsR_nil rc), rfl⟩
    have hlast := EnvsR_last h
    by_cases h0 : (m.arg == 0) = true
    · simp only [h0, if_true] at hs ⊢
      exact runMuts_sound rc toks combs objs ms _ _ ses' (EnvsR_snoc h hlast) hs
    · simp only [h0] at hs ⊢
      simp only [Bool.false_eq_true, if_false] at hs ⊢
      have hne : m.arg ≠ 0 := by simpa using h0
      cases hpp : m.path with
      | nil =>
        simp only [hpp] at hs
        refine runMuts_sound rc toks combs objs ms _ _ ses' (EnvsR_snoc h ?_) hs
        exact EnvR_store hlast m.arg m.field hne (fun a => sound_evalTm hc a m.val)
      | cons p ps =>
        simp only [hpp] at hs
        refine runMuts_sound rc toks combs objs ms _ _ ses' (EnvsR_snoc h ?_) hs
        exact EnvR_storePath hlast m.arg m.field p ps hne (fun a => sound_evalTm hc a m.val)

theorem pathCtx_sound (toks : Array TokKey) (combs : List PosComb) (p : TPath) (args : List V) (cur : Option Nat) (uid0 : Nat)
    (sc : SCtx) (hs : sPathCtx p = some sc) :
    CtxR ⟨args, cur, uid0⟩ (pathCtx toks combs p args cur uid0) sc := by
  unfold sPathCtx at hs
  split at hs
  · cases hs
  · rename_i ses hses
    cases hs
    have hinit : EnvsR ⟨args, cur, uid0⟩ [[]] [args] := by
      refine ⟨rfl, ?_⟩
      intro k hk hk'
      have : k = 0 := by simp at hk; omega
      subst this
      exact EnvR_init ⟨args, cur, uid0⟩
    have henvs := runMuts_sound ⟨args, cur, uid0⟩ toks combs p.objs p.muts [args] [[]] ses hinit hses
    have hc1 : CtxR ⟨args, cur, uid0⟩ (ECtx.mk toks combs cur (runMuts toks combs cur uid0 p.objs p.muts [args]) []) (SCtx.mk ses []) :=
      ⟨henvs, ObjsR_nil _, rfl⟩
    exact ⟨henvs, bObjs_sound hc1 p.objs [] [] (ObjsR_nil _), rfl⟩

/-! ### accounting: resources that do not overlap add up to at most what there is -/

theorem sum_le_of_nodup {α : Type} [DecidableEq α] (F : α → Nat) : ∀ (l u : List α), l.Nodup →
    (∀ x ∈ l, x ∈ u ∨ F x = 0) → (l.map F).sum ≤ (u.map F).sum
  | [], u, _, _ => by simp
  | x :: r, u, hn, hs => by
    have hx := hs x (List.mem_cons_self ..)
    have hn' := List.nodup_cons.mp hn
    by_cases hxu : x ∈ u
    · have hp := (List.perm_cons_erase hxu).map F
      have hsum := hp.sum_nat
      have ih := sum_le_of_nodup F r (u.erase x) hn'.2 (fun y hy => by
        rcases hs y (List.mem_cons_of_mem _ hy) with h | h
        · left
          exact (List.mem_erase_of_ne (by rintro rfl; exact hn'.1 hy)).mpr h
        · right; exact h)
      simp only [List.map_cons, List.sum_cons] at hsum ⊢
      omega
    · have h0 : F x = 0 := by
        rcases hx with h | h
        · exact absurd h hxu
        · exact h
      have ih := sum_le_of_nodup F r u hn'.2 (fun y hy => hs y (List.mem_cons_of_mem _ hy))
      simp only [List.map_cons, List.sum_cons, h0]
      omega

inductive Cell where
  | own (i : Nat)
  | fld (i g : Nat)
  | cur
  | fresh (j : Nat)
  deriving DecidableEq

def cellCn (rc : RCtx) (a : Leaf) : Cell → Nat
  | .own i => match getArg rc.args i with
    | .node _ u _ => if Leaf.uid u = a then 1 else 0
    | v => cn a v
  | .fld i g => match getArg rc.args i with
    | .node _ _ fs => cn a ((fs[g]?).getD .bad)
    | _ => 0
  | .cur => resCn rc a .cur
  | .fresh j => resCn rc a (.fresh j)

def cells (rc : RCtx) : Res → List Cell
  | .root i => match getArg rc.args i with
    | .node _ _ fs => .own i :: (List.range fs.length).map (Cell.fld i)
    | _ => [.own i]
  | .fld i f => match getArg rc.args i with
    | .node _ _ fs => if f < fs.length then [.fld i f] else []
    | _ => []
  | .cur => [.cur]
  | .fresh j => [.fresh j]

theorem cells_root_node {rc : RCtx} {i k u : Nat} {fs : List V} (h : getArg rc.args i = .node k u fs) :
    cells rc (.root i) = .own i :: (List.range fs.length).map (Cell.fld i) := by
  simp only [cells, h]
theorem cells_root_other {rc : RCtx} {i : Nat} (h : ∀ k u fs, getArg rc.args i ≠ .node k u fs) :
    cells rc (.root i) = [.own i] := by
  simp only [cells]
theorem cells_fld_node {rc : RCtx} {i f k u : Nat} {fs : List V} (h : getArg rc.args i = .node k u fs) :
    cells rc (.fld i f) = if f < fs.length then [.fld i f] else [] := by
  simp only [cells, h]
theorem cells_fld_other {rc : RCtx} {i f : Nat} (h : ∀ k u fs, getArg rc.args i ≠ .node k u fs) :
    cells rc (.fld i f) = [] := by
  simp only [cells]
theorem cellCn_own_node {rc : RCtx} {a : Leaf} {i k u : Nat} {fs : List V} (h : getArg rc.args i = .node k u fs) :
    cellCn rc a (.own i) = if Leaf.uid u = a then 1 else 0 := by
  simp only [cellCn, h]
theorem cellCn_own_other {rc : RCtx} {a : Leaf} {i : Nat} (h : ∀ k u fs, getArg rc.args i ≠ .node k u fs) :
    cellCn rc a (.own i) = cn a (getArg rc.args i) := by
  simp only [cellCn]
theorem cellCn_fld_node {rc : RCtx} {a : Leaf} {i g k u : Nat} {fs : List V} (h : getArg rc.args i = .node k u fs) :
    cellCn rc a (.fld i g) = cn a ((fs[g]?).getD .bad) := by
  simp only [cellCn, h]
theorem resCn_fld_node {rc : RCtx} {a : Leaf} {i f k u : Nat} {fs : List V} (h : getArg rc.args i = .node k u fs) :
    resCn rc a (.fld i f) = cn a ((fs[f]?).getD .bad) := by
  simp only [resCn, resLv, h, cn]
theorem resCn_fld_other {rc : RCtx} {a : Leaf} {i f : Nat} (h : ∀ k u fs, getArg rc.args i ≠ .node k u fs) :
    resCn rc a (.fld i f) = 0 := by
  simp only [resCn, resLv]
  simp

theorem node_or_not (v : V) : (∃ k u fs, v = .node k u fs) ∨ (∀ k u fs, v ≠ .node k u fs) := by
  cases v with
  | node k u fs => exact .inl ⟨k, u, fs, rfl⟩
  | _ => exact .inr (fun _ _ _ h => by cases h)

theorem resCn_cells (rc : RCtx) (a : Leaf) (r : Res) : resCn rc a r = ((cells rc r).map (cellCn rc a)).sum := by
  cases r with
  | root i =>
    rw [resCn_root]
    rcases node_or_not (getArg rc.args i) with ⟨k, u, fs, hv⟩ | hv
    · rw [cells_root_node hv, hv, cn_node, cnL_eq_sum_range]
      simp only [List.map_cons, List.sum_cons, List.map_map, cellCn_own_node hv]
      have : (cellCn rc a ∘ Cell.fld i) = (fun g => cn a ((fs[g]?).getD .bad)) := by
        funext g
        simp [cellCn_fld_node hv]
      rw [this]
      omega
    · rw [cells_root_other hv]
      simp [cellCn_own_other hv]
  | fld i f =>
    rcases node_or_not (getArg rc.args i) with ⟨k, u, fs, hv⟩ | hv
    · rw [cells_fld_node hv, resCn_fld_node hv]
      by_cases hf : f < fs.length
      · simp [hf, cellCn_fld_node hv]
      · simp [hf, List.getElem?_eq_none (Nat.le_of_not_lt hf)]
    · rw [cells_fld_other hv, resCn_fld_other hv]
      simp
  | cur => simp [cells, cellCn]
  | fresh j => simp [cells, cellCn]

theorem sumRes_cells (rc : RCtx) (a : Leaf) : ∀ (b : List Res),
    sumRes rc a b = ((b.flatMap (cells rc)).map (cellCn rc a)).sum
  | [] => by simp
  | r :: b => by
    rw [sumRes_cons, sumRes_cells rc a b, resCn_cells]
    simp [List.flatMap_cons, List.map_append, List.sum_append]

theorem cells_nodup (rc : RCtx) (r : Res) : (cells rc r).Nodup := by
  cases r with
  | root i =>
    rcases node_or_not (getArg rc.args i) with ⟨k, u, fs, hv⟩ | hv
    · rw [cells_root_node hv]
      refine List.nodup_cons.mpr ⟨by simp, ?_⟩
      exact List.Pairwise.map (Cell.fld i) (fun x y h => by intro e; cases e; exact h rfl) List.nodup_range
    · rw [cells_root_other hv]; simp
  | fld i f =>
    rcases node_or_not (getArg rc.args i) with ⟨k, u, fs, hv⟩ | hv
    · rw [cells_fld_node hv]
      split <;> simp
    · rw [cells_fld_other hv]; simp
  | cur => simp [cells]
  | fresh j => simp [cells]

/-- a cell belongs to `$i` (or is the current token / a fresh identity) -/
def Cell.idx : Cell → Option Nat
  | .own i => some i
  | .fld i _ => some i
  | _ => none

theorem cells_root_mem {rc : RCtx} {i : Nat} {x : Cell} (h : x ∈ cells rc (.root i)) : x = .own i ∨ ∃ g, x = .fld i g := by
  rcases node_or_not (getArg rc.args i) with ⟨k, u, fs, hv⟩ | hv
  · rw [cells_root_node hv] at h
    rcases List.mem_cons.mp h with h | h
    · exact .inl h
    · obtain ⟨g, _, hg⟩ := List.mem_map.mp h
      exact .inr ⟨g, hg.symm⟩
  · rw [cells_root_other hv] at h
    exact .inl (by simpa using h)

theorem cells_fld_mem {rc : RCtx} {i f : Nat} {x : Cell} (h : x ∈ cells rc (.fld i f)) : x = .fld i f := by
  rcases node_or_not (getArg rc.args i) with ⟨k, u, fs, hv⟩ | hv
  · rw [cells_fld_node hv] at h
    split at h
    · simpa using h
    · cases h
  · rw [cells_fld_other hv] at h
    cases h

theorem cells_disjoint (rc : RCtx) (r1 r2 : Res) (h : r1.overlap r2 = false) :
    ∀ x, x ∈ cells rc r1 → x ∈ cells rc r2 → False := by
  intro x h1 h2
  cases r1 with
  | root i =>
    cases r2 with
    | root j =>
      have hij : i ≠ j := by simpa [Res.overlap] using h
      rcases cells_root_mem h1 with rfl | ⟨g, rfl⟩ <;> rcases cells_root_mem h2 with e | ⟨g', e⟩ <;> cases e <;> exact hij rfl
    | fld j f =>
      have hij : i ≠ j := by simpa [Res.overlap] using h
      have e := cells_fld_mem h2
      subst e
      rcases cells_root_mem h1 with e | ⟨g', e⟩ <;> cases e
      exact hij rfl
    | cur => simp [cells] at h2; subst h2; rcases cells_root_mem h1 with e | ⟨g', e⟩ <;> cases e
    | fresh j => simp [cells] at h2; subst h2; rcases cells_root_mem h1 with e | ⟨g', e⟩ <;> cases e
  | fld i f =>
    have e1 := cells_fld_mem h1
    subst e1
    cases r2 with
    | root j =>
      have hij : i ≠ j := by simpa [Res.overlap] using h
      rcases cells_root_mem h2 with e | ⟨g', e⟩ <;> cases e
      exact hij rfl
    | fld j g =>
      have e := cells_fld_mem h2
      cases e
      simp [Res.overlap] at h
    | cur => simp [cells] at h2
    | fresh j => simp [cells] at h2
  | cur =>
    simp [cells] at h1; subst h1
    cases r2 with
    | root j => rcases cells_root_mem h2 with e | ⟨g', e⟩ <;> cases e
    | fld j g => have e := cells_fld_mem h2; cases e
    | cur => simp [Res.overlap] at h
    | fresh j => simp [cells] at h2
  | fresh i =>
    simp [cells] at h1; subst h1
    cases r2 with
    | root j => rcases cells_root_mem h2 with e | ⟨g', e⟩ <;> cases e
    | fld j g => have e := cells_fld_mem h2; cases e
    | cur => simp [cells] at h2
    | fresh j =>
      simp [cells] at h2
      simp [Res.overlap] at h
      exact h h2


theorem flatMap_cells_nodup (rc : RCtx) : ∀ (b : List Res), disjointRes b = true → (b.flatMap (cells rc)).Nodup
  | [], _ => by simp
  | r :: rs, h => by
    simp only [disjointRes, Bool.and_eq_true, List.all_eq_true, Bool.not_eq_true'] at h
    rw [List.flatMap_cons, List.nodup_append]
    refine ⟨cells_nodup rc r, flatMap_cells_nodup rc rs h.2, ?_⟩
    intro x hx y hy hxy
    subst hxy
    obtain ⟨r2, hr2, hx2⟩ := List.mem_flatMap.mp hy
    exact cells_disjoint rc r r2 (h.1 r2 hr2) x hx hx2

def allCells (rc : RCtx) (n : Nat) : List Cell :=
  (List.range rc.args.length).flatMap (fun i0 => cells rc (.root (i0 + 1))) ++ .cur :: (List.range n).map Cell.fresh

theorem sum_flatMap {α β : Type} (f : α → List β) (g : β → Nat) : ∀ (l : List α),
    ((l.flatMap f).map g).sum = (l.map (fun x => ((f x).map g).sum)).sum
  | [] => by simp
  | x :: r => by simp [List.flatMap_cons, List.map_append, List.sum_append, sum_flatMap f g r]

/-- identities of the node literals of a path: how often `a` is one of them -/
def freshCn (uid0 n : Nat) (a : Leaf) : Nat := ((List.range n).map (fun j => if Leaf.uid (uid0 + j) = a then 1 else 0)).sum

theorem getArg_succ (l : List V) (i0 : Nat) : getArg l (i0 + 1) = (l[i0]?).getD .bad := by
  simp [getArg]

theorem allCells_sum (rc : RCtx) (a : Leaf) (n : Nat) :
    ((allCells rc n).map (cellCn rc a)).sum = cnL a rc.args + resCn rc a .cur + freshCn rc.uid0 n a := by
  unfold allCells
  rw [List.map_append, List.sum_append, sum_flatMap]
  have h1 : (fun i0 => ((cells rc (.root (i0 + 1))).map (cellCn rc a)).sum) = (fun g => cn a ((rc.args[g]?).getD .bad)) := by
    funext i0
    rw [← resCn_cells, resCn_root, getArg_succ]
  rw [h1, ← cnL_eq_sum_range]
  simp only [List.map_cons, List.sum_cons, List.map_map]
  have h2 : (cellCn rc a ∘ Cell.fresh) = (fun j => if Leaf.uid (rc.uid0 + j) = a then 1 else 0) := by
    funext j
    simp [cellCn, resCn, resLv, List.count_cons]
  rw [h2]
  simp only [cellCn, freshCn]
  omega

theorem cell_in_allCells (rc : RCtx) (a : Leaf) (n : Nat) (b : List Res) (hf : freshOK n b = true) :
    ∀ x ∈ b.flatMap (cells rc), x ∈ allCells rc n ∨ cellCn rc a x = 0 := by
  intro x hx
  obtain ⟨r, hr, hxr⟩ := List.mem_flatMap.mp hx
  have inRange : ∀ i, i ≠ 0 → i - 1 < rc.args.length → ∀ y ∈ cells rc (.root i), y ∈ allCells rc n := by
    intro i hi hlt y hy
    unfold allCells
    refine List.mem_append_left _ (List.mem_flatMap.mpr ⟨i - 1, List.mem_range.mpr hlt, ?_⟩)
    have : i - 1 + 1 = i := by omega
    rw [this]
    exact hy
  have outRange : ∀ i, ¬ (i ≠ 0 ∧ i - 1 < rc.args.length) → getArg rc.args i = .bad := by
    intro i h
    by_cases h0 : i = 0
    · subst h0; simp [getArg]
    · exact getArg_bad_of_ge _ _ (fun hlt => h ⟨h0, hlt⟩)
  cases r with
  | root i =>
    by_cases hi : i ≠ 0 ∧ i - 1 < rc.args.length
    · exact .inl (inRange i hi.1 hi.2 x hxr)
    · right
      have hb := outRange i hi
      have hnn : ∀ k u fs, getArg rc.args i ≠ .node k u fs := by intro k u fs h; rw [hb] at h; cases h
      rw [cells_root_other hnn] at hxr
      have : x = .own i := by simpa using hxr
      subst this
      rw [cellCn_own_other hnn, hb]
      simp
  | fld i f =>
    have hxe := cells_fld_mem hxr
    subst hxe
    rcases node_or_not (getArg rc.args i) with ⟨k, u, fs, hv⟩ | hv
    · rw [cells_fld_node hv] at hxr
      by_cases hi : i ≠ 0 ∧ i - 1 < rc.args.length
      · left
        apply inRange i hi.1 hi.2
        rw [cells_root_node hv]
        split at hxr
        · rename_i hf'
          exact List.mem_cons_of_mem _ (List.mem_map.mpr ⟨f, List.mem_range.mpr hf', rfl⟩)
        · cases hxr
      · have hb := outRange i hi
        rw [hb] at hv; cases hv
    · rw [cells_fld_other hv] at hxr
      cases hxr
  | cur =>
    left
    have : x = .cur := by simpa [cells] using hxr
    subst this
    unfold allCells
    exact List.mem_append_right _ (List.mem_cons_self ..)
  | fresh j =>
    left
    have : x = .fresh j := by simpa [cells] using hxr
    subst this
    have hj : j < n := by
      have := (List.all_eq_true.mp hf) (.fresh j) hr
      simpa using this
    unfold allCells
    exact List.mem_append_right _ (List.mem_cons_of_mem _ (List.mem_map.mpr ⟨j, List.mem_range.mpr hj, rfl⟩))

/-- resources that do not overlap add up to at most what there is -/
theorem account (rc : RCtx) (n : Nat) (b : List Res) (hd : disjointRes b = true) (hf : freshOK n b = true) (a : Leaf) :
    sumRes rc a b ≤ cnL a rc.args + resCn rc a .cur + freshCn rc.uid0 n a := by
  rw [sumRes_cells, ← allCells_sum]
  exact sum_le_of_nodup (cellCn rc a) _ _ (flatMap_cells_nodup rc b hd) (cell_in_allCells rc a n b hf)

theorem sumRes_nocur (rc : RCtx) (a : Leaf) : ∀ (b : List Res), b.contains .cur = false →
    sumRes rc a b = sumRes { rc with cur := none } a b
  | [], _ => by simp
  | r :: b, h => by
    have h' : (r == Res.cur) = false ∧ b.contains .cur = false := by
      have h0 := h
      simp only [List.contains_cons, Bool.or_eq_false_iff] at h0
      refine ⟨?_, h0.2⟩
      have := h0.1
      cases r <;> simp_all
    rw [sumRes_cons, sumRes_cons, sumRes_nocur rc a b h'.2]
    cases r with
    | cur => simp at h'
    | _ => rfl

theorem freshCn_tok (uid0 n i : Nat) : freshCn uid0 n (.tok i) = 0 := by
  unfold freshCn
  induction n with
  | zero => simp
  | succ n ih => simp [List.range_succ, List.map_append, List.sum_append] at ih ⊢; exact ih

theorem freshCn_uid (uid0 u : Nat) : ∀ (n : Nat), freshCn uid0 n (.uid u) = if uid0 ≤ u ∧ u < uid0 + n then 1 else 0
  | 0 => by simp [freshCn]
  | n + 1 => by
    have ih := freshCn_uid uid0 u n
    unfold freshCn at ih ⊢
    rw [List.range_succ, List.map_append, List.sum_append, ih]
    simp only [List.map_cons, List.map_nil, List.sum_cons, List.sum_nil, Leaf.uid.injEq]
    by_cases h1 : uid0 ≤ u ∧ u < uid0 + n
    · have : ¬ (uid0 + n = u) := by omega
      have h2 : uid0 ≤ u ∧ u < uid0 + (n + 1) := by omega
      simp [h1, this, h2]
    · by_cases h3 : uid0 + n = u
      · have h2 : uid0 ≤ u ∧ u < uid0 + (n + 1) := by omega
        simp [h1, h3, h2]
      · have h2 : ¬ (uid0 ≤ u ∧ u < uid0 + (n + 1)) := by omega
        simp [h1, h3, h2]

theorem freshCn_le_one (uid0 n : Nat) (a : Leaf) : freshCn uid0 n a ≤ 1 := by
  cases a with
  | tok i => rw [freshCn_tok]; omega
  | uid u => rw [freshCn_uid]; split <;> omega

/-- what a linear path returns takes every leaf from its right-hand side or from its own node literals, at
    most as often as it is there -/
theorem runPath_linear (toks : Array TokKey) (combs : List PosComb) (p : TPath) (args : List V) (cur : Option Nat) (uid0 : Nat)
    (hl : linOK p = true) (a : Leaf) :
    (∀ v, (runPath toks combs p args cur uid0).ret = some v → cn a v ≤ cnL a args + freshCn uid0 p.objs.length a) ∧
    (∀ v, (runPath toks combs p args cur uid0).root = some v →
       cn a v ≤ cnL a args + resCn ⟨args, cur, uid0⟩ a .cur + freshCn uid0 p.objs.length a) := by
  unfold linOK at hl
  split at hl
  · cases hl
  · rename_i sc hsc
    have hc := pathCtx_sound toks combs p args cur uid0 sc hsc
    simp only [Bool.and_eq_true] at hl
    refine ⟨?_, ?_⟩
    · intro v hv
      simp only [runPath] at hv
      cases hret : p.ret with
      | none => simp [hret] at hv
      | some t =>
        simp only [hret, Option.map] at hv
        cases hv
        have h1 := hl.1
        simp only [hret, Bool.and_eq_true, Bool.not_eq_true'] at h1
        have hs := sound_evalTm hc a t
        rw [sumRes_nocur _ a _ h1.2] at hs
        have := account { (⟨args, cur, uid0⟩ : RCtx) with cur := none } p.objs.length (bTm sc t) h1.1.1 h1.1.2 a
        have hz : resCn { (⟨args, cur, uid0⟩ : RCtx) with cur := none } a .cur = 0 := by simp [resCn, resLv]
        simp only [hz] at this
        dsimp only at this hs
        omega
    · intro v hv
      simp only [runPath] at hv
      cases hroot : p.root with
      | none => simp [hroot] at hv
      | some t =>
        simp only [hroot, Option.map] at hv
        cases hv
        have h1 := hl.2
        simp only [hroot, Bool.and_eq_true] at h1
        have hs := sound_evalTm hc a t
        have := account ⟨args, cur, uid0⟩ p.objs.length (bTm sc t) h1.1 h1.2 a
        dsimp only at this hs
        omega

end PhpVerif
