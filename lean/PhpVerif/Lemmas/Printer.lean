import PhpVerif.Model.Printer
/-
Lemmas about M-PRINT: when does the write sequence of a tree consist of tokens of the tree only.
-/
namespace PhpVerif

def Item.pure : Item → Bool
  | .lit _ => false
  | .own _ => false
  | _ => true

abbrev pureItems (l : List Item) : Bool := l.all Item.pure

/-- a printer statement that needs no invented lexeme on this node: its token is there (or its
    default is nothing), a separated list has a separator between any two items -/
def completeOp (toks : List (List Tok)) (vals : List (Option Bytes)) (kids : List (List Tree))
    (kidNil : Nat → Bool) : POp → Bool
  | .tok f d => present toks f || (dfltEval toks vals kids kidNil d).isNone
  | .html f d => present toks f || (dfltEval toks vals kids kidNil d).isNone
  | .sep f g _ => decide ((fieldAt kids f).length ≤ (fieldAt toks g).length + 1)
  | _ => true

mutual
def Tree.complete (cfg : PrinterCfg) : Tree → Bool
  | .mk k _ _ toks vals kids nn =>
      (cfg.tab k).all (completeOp toks vals kids (fun g => !((nn[g]?).getD false)))
      && cfg.slOps.all (completeOp toks vals kids (fun g => !((nn[g]?).getD false)))
      && completeSlots cfg kids
def completeSlots (cfg : PrinterCfg) : List (List Tree) → Bool
  | [] => true
  | f :: fs => completeForest cfg f && completeSlots cfg fs
def completeForest (cfg : PrinterCfg) : List Tree → Bool
  | [] => true
  | t :: ts => t.complete cfg && completeForest cfg ts
end

def PureRes (res : List (List (List Item × List Item))) : Prop :=
  ∀ slot ∈ res, ∀ p ∈ slot, pureItems p.1 = true ∧ pureItems p.2 = true

theorem fieldAt_mem {α} (l : List (List α)) (f : Nat) : fieldAt l f = [] ∨ fieldAt l f ∈ l := by
  unfold fieldAt
  cases h : l[f]? with
  | none => simp
  | some x => right; simpa using List.mem_of_getElem? h

theorem pure_flatMap1 {slot : List (List Item × List Item)}
    (h : ∀ p ∈ slot, pureItems p.1 = true ∧ pureItems p.2 = true) :
    pureItems (slot.flatMap (·.1)) = true := by
  simp only [pureItems, List.all_eq_true, List.mem_flatMap]
  rintro x ⟨p, hp, hx⟩
  exact (List.all_eq_true.1 (h p hp).1) x hx

theorem pure_flatMap2 {slot : List (List Item × List Item)}
    (h : ∀ p ∈ slot, pureItems p.1 = true ∧ pureItems p.2 = true) :
    pureItems (slot.flatMap (·.2)) = true := by
  simp only [pureItems, List.all_eq_true, List.mem_flatMap]
  rintro x ⟨p, hp, hx⟩
  exact (List.all_eq_true.1 (h p hp).2) x hx

theorem pure_sepItems (d : Item) (xs : List (List Item)) (ss : List Tok)
    (hx : ∀ x ∈ xs, pureItems x = true) (hl : xs.length ≤ ss.length + 1) :
    pureItems (sepItems d xs ss) = true := by
  induction xs generalizing ss with
  | nil => simp [sepItems]
  | cons x r ih =>
    have hx0 := hx x (by simp)
    have hr : ∀ y ∈ r, pureItems y = true := fun y hy => hx y (by simp [hy])
    cases ss with
    | nil =>
      cases r with
      | nil => simpa [sepItems] using hx0
      | cons y r' => simp at hl
    | cons s ss' =>
      have := ih ss' hr (by simp at hl ⊢; omega)
      simp only [pureItems, sepItems, List.all_append, List.all_cons, Bool.and_eq_true] at *
      exact ⟨hx0, by simp [Item.pure], this⟩

theorem slot_pure {res : List (List (List Item × List Item))} (h : PureRes res) (f : Nat) :
    ∀ p ∈ fieldAt res f, pureItems p.1 = true ∧ pureItems p.2 = true := by
  rcases fieldAt_mem res f with h0 | h1
  · simp [h0]
  · exact h _ h1

theorem pure_opItems (toks : List (List Tok)) (vals : List (Option Bytes)) (kids : List (List Tree))
    (kidNil : Nat → Bool) (res : List (List (List Item × List Item)))
    (hres : PureRes res) (hlen : ∀ f, (fieldAt res f).length = (fieldAt kids f).length)
    (op : POp) (hop : completeOp toks vals kids kidNil op = true) :
    pureItems (opItems toks vals kids kidNil res op) = true := by
  cases op with
  | tok f d =>
    simp only [opItems]
    cases ht : fieldAt toks f with
    | cons t r => simp [Item.pure]
    | nil =>
      simp only [completeOp, present, ht, List.isEmpty_nil, Bool.not_true, Bool.false_or] at hop
      cases hd : dfltEval toks vals kids kidNil d with
      | none => simp
      | some x => simp [hd] at hop
  | node f => exact pure_flatMap1 (slot_pure hres f)
  | list f => exact pure_flatMap1 (slot_pure hres f)
  | sep f g lit =>
    simp only [opItems]
    apply pure_sepItems
    · intro x hx
      obtain ⟨p, hp, rfl⟩ := List.mem_map.1 hx
      exact (slot_pure hres f p hp).1
    · simp only [completeOp, decide_eq_true_eq] at hop
      simpa [hlen f] using hop
  | alt f g =>
    simp only [opItems]
    split
    · exact pure_flatMap2 (slot_pure hres f)
    · exact pure_flatMap1 (slot_pure hres f)
  | html f d =>
    simp only [opItems]
    cases ht : fieldAt toks f with
    | cons t r => simp [Item.pure]
    | nil =>
      simp only [completeOp, present, ht, List.isEmpty_nil, Bool.not_true, Bool.false_or] at hop
      cases hd : dfltEval toks vals kids kidNil d with
      | none => simp [Item.pure]
      | some x => simp [hd] at hop

theorem chunksSlots_field (cfg : PrinterCfg) (kids : List (List Tree)) (f : Nat) :
    fieldAt (chunksSlots cfg kids) f = chunksForest cfg (fieldAt kids f) := by
  induction kids generalizing f with
  | nil => simp [chunksSlots, fieldAt, chunksForest]
  | cons x xs ih =>
    cases f with
    | zero => simp [chunksSlots, fieldAt]
    | succ f => simpa [chunksSlots, fieldAt] using ih f

theorem chunksForest_length (cfg : PrinterCfg) (ts : List Tree) :
    (chunksForest cfg ts).length = ts.length := by
  induction ts with
  | nil => rfl
  | cons t ts ih => simp [chunksForest, ih]

theorem pure_flatMap_ops (ops : List POp) (g : POp → List Item)
    (h : ∀ op ∈ ops, pureItems (g op) = true) : pureItems (ops.flatMap g) = true := by
  simp only [pureItems, List.all_eq_true, List.mem_flatMap]
  rintro x ⟨op, hop, hx⟩
  exact (List.all_eq_true.1 (h op hop)) x hx

mutual
/-- a complete tree is printed from its own tokens only: no `.lit`, no `.own` item -/
theorem pure_chunks (cfg : PrinterCfg) :
    ∀ (alt : Bool) (t : Tree), t.complete cfg = true → pureItems (chunks cfg alt t) = true
  | alt, .mk k u p toks vals kids nn, h => by
    simp only [Tree.complete, Bool.and_eq_true] at h
    obtain ⟨⟨h1, h2⟩, h3⟩ := h
    simp only [chunks]
    apply pure_flatMap_ops
    intro op hop
    apply pure_opItems _ _ _ _ _ (pure_slots cfg kids h3)
    · intro f; rw [chunksSlots_field, chunksForest_length]
    · split at hop
      · exact List.all_eq_true.1 h2 op hop
      · exact List.all_eq_true.1 h1 op hop
theorem pure_slots (cfg : PrinterCfg) :
    ∀ kids : List (List Tree), completeSlots cfg kids = true → PureRes (chunksSlots cfg kids)
  | [], _ => by intro s hs; simp [chunksSlots] at hs
  | f :: fs, h => by
    simp only [completeSlots, Bool.and_eq_true] at h
    intro s hs
    simp only [chunksSlots, List.mem_cons] at hs
    rcases hs with rfl | hs
    · exact pure_forest cfg f h.1
    · exact pure_slots cfg fs h.2 s hs
theorem pure_forest (cfg : PrinterCfg) :
    ∀ ts : List Tree, completeForest cfg ts = true →
      ∀ p ∈ chunksForest cfg ts, pureItems p.1 = true ∧ pureItems p.2 = true
  | [], _ => by simp [chunksForest]
  | t :: ts, h => by
    simp only [completeForest, Bool.and_eq_true] at h
    intro p hp
    simp only [chunksForest, List.mem_cons] at hp
    rcases hp with rfl | hp
    · exact ⟨pure_chunks cfg false t h.1, pure_chunks cfg true t h.1⟩
    · exact pure_forest cfg ts h.2 p hp
end

end PhpVerif
