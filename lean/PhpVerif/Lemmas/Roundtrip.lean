import PhpVerif.Model.Roundtrip
import PhpVerif.Lemmas.Printer
/-
Lemmas for the parse-then-print composition: every token item of a tree's write sequence is a token of the
tree (`chunks_tokP`, any printer table); every token of the tree `toTree` builds is an entry of the token
array it was given (`toTree_P`).
-/
namespace PhpVerif

mutual
/-- every token of every node satisfies P -/
def TreeToksP (P : Tok → Prop) : Tree → Prop
  | .mk _ _ _ toks _ kids _ => (∀ l ∈ toks, ∀ x ∈ l, P x) ∧ SlotsP P kids
def SlotsP (P : Tok → Prop) : List (List Tree) → Prop
  | [] => True
  | f :: fs => ForestP P f ∧ SlotsP P fs
def ForestP (P : Tok → Prop) : List Tree → Prop
  | [] => True
  | t :: ts => TreeToksP P t ∧ ForestP P ts
end

def ItemsP (P : Tok → Prop) (l : List Item) : Prop := ∀ x, Item.tok x ∈ l → P x

def ResP (P : Tok → Prop) (res : List (List (List Item × List Item))) : Prop :=
  ∀ slot ∈ res, ∀ p ∈ slot, ItemsP P p.1 ∧ ItemsP P p.2

theorem ItemsP.append {P : Tok → Prop} {a b : List Item} (ha : ItemsP P a) (hb : ItemsP P b) : ItemsP P (a ++ b) := by
  intro x hx
  cases List.mem_append.mp hx with
  | inl h => exact ha x h
  | inr h => exact hb x h

theorem ItemsP.flatMap {α} {P : Tok → Prop} (l : List α) (g : α → List Item) (h : ∀ a ∈ l, ItemsP P (g a)) :
    ItemsP P (l.flatMap g) := by
  intro x hx
  obtain ⟨a, ha, hxa⟩ := List.mem_flatMap.mp hx
  exact h a ha x hxa

theorem fieldAt_toksP {P : Tok → Prop} {toks : List (List Tok)} (h : ∀ l ∈ toks, ∀ x ∈ l, P x) (f : Nat) :
    ∀ x ∈ fieldAt toks f, P x := by
  rcases fieldAt_mem toks f with h0 | h1
  · simp [h0]
  · exact h _ h1

theorem slotP {P : Tok → Prop} {res : List (List (List Item × List Item))} (h : ResP P res) (f : Nat) :
    ∀ p ∈ fieldAt res f, ItemsP P p.1 ∧ ItemsP P p.2 := by
  rcases fieldAt_mem res f with h0 | h1
  · simp [h0]
  · exact h _ h1

theorem dflt_not_tok (toks : List (List Tok)) (vals : List (Option Bytes)) (kids : List (List Tree)) (kidNil : Nat → Bool)
    (d : Dflt) (x : Tok) : dfltEval toks vals kids kidNil d ≠ some (.tok x) := by
  induction d with
  | none => simp [dfltEval]
  | lit id => simp [dfltEval]
  | own f => simp only [dfltEval]; cases (vals[f]?).getD none <;> simp
  | ifNode f d ih => simp only [dfltEval]; split <;> simp [ih]
  | ifNodeList f d ih => simp only [dfltEval]; split <;> simp [ih]
  | ifNotNodeList f d ih => simp only [dfltEval]; split <;> simp [ih]
  | ifTok f a b iha ihb => simp only [dfltEval]; split <;> simp [iha, ihb]
  | ifNotTok f d ih => simp only [dfltEval]; split <;> simp [ih]

theorem sepItemsP {P : Tok → Prop} (d : Item) (hd : ∀ x, d ≠ .tok x) : ∀ (xs : List (List Item)) (ss : List Tok),
    (∀ l ∈ xs, ItemsP P l) → (∀ s ∈ ss, P s) → ItemsP P (sepItems d xs ss)
  | [], _, _, _ => by intro x hx; simp [sepItems] at hx
  | [a], [], hx, _ => by simpa [sepItems] using hx a (by simp)
  | a :: b :: r, [], hx, hs => by
    intro x hxm
    simp only [sepItems, List.mem_append, List.mem_cons] at hxm
    rcases hxm with h | h | h
    · exact hx a (by simp) x h
    · exact absurd h.symm (hd x)
    · exact sepItemsP d hd (b :: r) [] (fun l hl => hx l (List.mem_cons_of_mem _ hl)) hs x h
  | a :: r, s :: ss, hx, hs => by
    intro x hxm
    simp only [sepItems, List.mem_append, List.mem_cons] at hxm
    rcases hxm with h | h | h
    · exact hx a (by simp) x h
    · cases h; exact hs s (by simp)
    · exact sepItemsP d hd r ss (fun l hl => hx l (List.mem_cons_of_mem _ hl)) (fun t ht => hs t (List.mem_cons_of_mem _ ht)) x h

theorem opItemsP {P : Tok → Prop} (toks : List (List Tok)) (vals : List (Option Bytes)) (kids : List (List Tree))
    (kidNil : Nat → Bool) (res : List (List (List Item × List Item)))
    (ht : ∀ l ∈ toks, ∀ x ∈ l, P x) (hres : ResP P res) (op : POp) :
    ItemsP P (opItems toks vals kids kidNil res op) := by
  cases op with
  | tok f d =>
    simp only [opItems]
    cases hf : fieldAt toks f with
    | cons t r =>
      intro x hx
      simp at hx
      subst hx
      exact fieldAt_toksP ht f _ (by rw [hf]; simp)
    | nil =>
      intro x hx
      simp only [Option.mem_toList] at hx
      exact absurd hx (dflt_not_tok toks vals kids kidNil d x)
  | node f => exact ItemsP.flatMap _ _ (fun p hp => (slotP hres f p hp).1)
  | list f => exact ItemsP.flatMap _ _ (fun p hp => (slotP hres f p hp).1)
  | sep f g lit =>
    simp only [opItems]
    refine sepItemsP (.lit lit) (by intro x; simp) _ _ ?_ (fieldAt_toksP ht g)
    intro l hl
    obtain ⟨p, hp, rfl⟩ := List.mem_map.mp hl
    exact (slotP hres f p hp).1
  | alt f g =>
    simp only [opItems]
    split
    · exact ItemsP.flatMap _ _ (fun p hp => (slotP hres f p hp).2)
    · exact ItemsP.flatMap _ _ (fun p hp => (slotP hres f p hp).1)
  | html f d =>
    simp only [opItems]
    intro x hx
    cases hf : fieldAt toks f with
    | cons t r =>
      rw [hf] at hx
      simp at hx
      subst hx
      exact fieldAt_toksP ht f _ (by rw [hf]; simp)
    | nil =>
      rw [hf] at hx
      simp only [List.mem_cons, List.mem_append, Option.mem_toList, reduceCtorEq, false_or] at hx
      cases hx with
      | inl h => exact absurd h (dflt_not_tok toks vals kids kidNil d x)
      | inr h => simp at h

mutual
/-- every token item of a tree's write sequence is a token of the tree -/
theorem chunks_tokP {P : Tok → Prop} (cfg : PrinterCfg) : ∀ (alt : Bool) (t : Tree), TreeToksP P t → ItemsP P (chunks cfg alt t)
  | alt, .mk k u p toks vals kids nn, h => by
    simp only [TreeToksP] at h
    simp only [chunks]
    exact ItemsP.flatMap _ _ (fun op _ => opItemsP toks vals kids _ _ h.1 (slotsResP cfg kids h.2) op)
theorem slotsResP {P : Tok → Prop} (cfg : PrinterCfg) : ∀ kids : List (List Tree), SlotsP P kids → ResP P (chunksSlots cfg kids)
  | [], _ => by intro s hs; simp [chunksSlots] at hs
  | f :: fs, h => by
    simp only [SlotsP] at h
    intro s hs
    simp only [chunksSlots, List.mem_cons] at hs
    rcases hs with rfl | hs
    · exact forestResP cfg f h.1
    · exact slotsResP cfg fs h.2 s hs
theorem forestResP {P : Tok → Prop} (cfg : PrinterCfg) : ∀ ts : List Tree, ForestP P ts →
    ∀ p ∈ chunksForest cfg ts, ItemsP P p.1 ∧ ItemsP P p.2
  | [], _ => by simp [chunksForest]
  | t :: ts, h => by
    simp only [ForestP] at h
    intro p hp
    simp only [chunksForest, List.mem_cons] at hp
    rcases hp with rfl | hp
    · exact ⟨chunks_tokP cfg false t h.1, chunks_tokP cfg true t h.1⟩
    · exact forestResP cfg ts h.2 p hp
end

end PhpVerif

namespace PhpVerif

/-- an entry of the token array -/
def FromArr (toks : Array Tok) (x : Tok) : Prop := ∃ i : Nat, toks[i]? = some x

def FieldsP (P : Tok → Prop) (f : TFields) : Prop := (∀ l ∈ f.toks, ∀ x ∈ l, P x) ∧ SlotsP P f.kids

theorem FieldsP.cons {P : Tok → Prop} {f : TFields} (hf : FieldsP P f) (t : List Tok) (v : Option Bytes) (k : List Tree) (n : Bool)
    (ht : ∀ x ∈ t, P x) (hk : ForestP P k) : FieldsP P (f.cons t v k n) := by
  constructor
  · intro l hl x hx
    simp only [TFields.cons, List.mem_cons] at hl
    cases hl with
    | inl e => subst e; exact ht x hx
    | inr e => exact hf.1 l e x hx
  · simp only [TFields.cons, SlotsP]
    exact ⟨hk, hf.2⟩

theorem tokList_P (toks : Array Tok) : ∀ (xs : List V) (ts : List Tok), tokList toks xs = some ts → ∀ x ∈ ts, FromArr toks x
  | [], ts, h => by simp [tokList] at h; subst h; simp
  | .tok i :: r, ts, h => by
    simp only [tokList] at h
    split at h
    · rename_i t ts' ht hts
      cases h
      intro x hx
      cases List.mem_cons.mp hx with
      | inl e => subst e; exact ⟨i, ht⟩
      | inr e => exact tokList_P toks r ts' hts x e
    · cases h
  | .nil :: _, _, h => by simp [tokList] at h
  | .pos .. :: _, _, h => by simp [tokList] at h
  | .node .. :: _, _, h => by simp [tokList] at h
  | .list .. :: _, _, h => by simp [tokList] at h
  | .bytes .. :: _, _, h => by simp [tokList] at h
  | .bad :: _, _, h => by simp [tokList] at h

theorem fieldCombine_P (toks : Array Tok) (s : Nat) (v : V) (kid : Option Tree) (kidsL : Option (List Tree)) (rest f : TFields)
    (hr : FieldsP (FromArr toks) rest) (hk : ∀ t, kid = some t → TreeToksP (FromArr toks) t)
    (hl : ∀ ts, kidsL = some ts → ForestP (FromArr toks) ts) (h : fieldCombine toks s v kid kidsL rest = some f) :
    FieldsP (FromArr toks) f := by
  unfold fieldCombine at h
  split at h
  · cases h; exact hr.cons _ _ _ _ (by simp) trivial
  · split at h
    · split at h
      · cases h; exact hr.cons _ _ _ _ (by simp) trivial
      · rename_i i
        cases ht : toks[i]? with
        | none => simp [ht] at h
        | some t =>
          simp [ht] at h
          subst h
          exact hr.cons _ _ _ _ (by intro x hx; simp at hx; subst hx; exact ⟨i, ht⟩) trivial
      · cases h
    · split at h
      · split at h
        · cases h; exact hr.cons _ _ _ _ (by simp) trivial
        · rename_i xs
          cases ht : tokList toks xs with
          | none => simp [ht] at h
          | some ts =>
            simp [ht] at h
            subst h
            exact hr.cons _ _ _ _ (tokList_P toks xs ts ht) trivial
        · cases h
      · split at h
        · split at h
          · cases h; exact hr.cons _ _ _ _ (by simp) trivial
          · cases hkid : kid with
            | none => simp [hkid] at h
            | some t =>
              simp [hkid] at h
              subst h
              exact hr.cons _ _ _ _ (by simp) ⟨hk t hkid, trivial⟩
          · cases h
        · split at h
          · split at h
            · cases h; exact hr.cons _ _ _ _ (by simp) trivial
            · cases hkl : kidsL with
              | none => simp [hkl] at h
              | some ts =>
                simp [hkl] at h
                subst h
                exact hr.cons _ _ _ _ (by simp) (hl ts hkl)
            · cases h
          · split at h
            · split at h
              · cases h; exact hr.cons _ _ _ _ (by simp) trivial
              · rename_i pre i
                cases ht : toks[i]? with
                | none => simp [ht] at h
                | some t =>
                  simp [ht] at h
                  subst h
                  exact hr.cons _ _ _ _ (by simp) trivial
              · cases h
            · cases h

mutual
/-- every token of the tree `toTree` builds is an entry of the token array -/
theorem toTree_P (sorts : Nat → List Nat) (toks : Array Tok) : ∀ (v : V) (t : Tree), V.toTree sorts toks v = some t →
    TreeToksP (FromArr toks) t
  | .node k u fs, t, h => by
    simp only [V.toTree] at h
    split at h
    · rename_i f hf
      cases h
      have := fieldsTo_P sorts toks (sorts k) fs f hf
      exact ⟨this.1, this.2⟩
    · cases h
  | .nil, _, h => by simp [V.toTree] at h
  | .tok _, _, h => by simp [V.toTree] at h
  | .pos .., _, h => by simp [V.toTree] at h
  | .list _, _, h => by simp [V.toTree] at h
  | .bytes .., _, h => by simp [V.toTree] at h
  | .bad, _, h => by simp [V.toTree] at h
theorem kidsOf_P (sorts : Nat → List Nat) (toks : Array Tok) : ∀ (v : V) (ts : List Tree), V.kidsOf sorts toks v = some ts →
    ForestP (FromArr toks) ts
  | .list xs, ts, h => by simp only [V.kidsOf] at h; exact toTrees_P sorts toks xs ts h
  | .nil, _, h => by simp [V.kidsOf] at h
  | .tok _, _, h => by simp [V.kidsOf] at h
  | .pos .., _, h => by simp [V.kidsOf] at h
  | .node .., _, h => by simp [V.kidsOf] at h
  | .bytes .., _, h => by simp [V.kidsOf] at h
  | .bad, _, h => by simp [V.kidsOf] at h
theorem toTrees_P (sorts : Nat → List Nat) (toks : Array Tok) : ∀ (vs : List V) (ts : List Tree), toTrees sorts toks vs = some ts →
    ForestP (FromArr toks) ts
  | [], ts, h => by simp [toTrees] at h; subst h; trivial
  | v :: r, ts, h => by
    simp only [toTrees] at h
    split at h
    · rename_i t ts' ht hts
      cases h
      exact ⟨toTree_P sorts toks v t ht, toTrees_P sorts toks r ts' hts⟩
    · cases h
theorem fieldsTo_P (sorts : Nat → List Nat) (toks : Array Tok) : ∀ (ss : List Nat) (vs : List V) (f : TFields),
    fieldsTo sorts toks ss vs = some f → FieldsP (FromArr toks) f
  | [], [], f, h => by simp [fieldsTo] at h; subst h; exact ⟨by simp, trivial⟩
  | [], _ :: _, f, h => by simp [fieldsTo] at h
  | _ :: _, [], f, h => by simp [fieldsTo] at h
  | s :: ss, v :: vs, f, h => by
    simp only [fieldsTo] at h
    split at h
    · cases h
    · rename_i rest hrest
      exact fieldCombine_P toks s v _ _ rest f (fieldsTo_P sorts toks ss vs rest hrest)
        (fun t ht => toTree_P sorts toks v t ht) (fun ts hts => kidsOf_P sorts toks v ts hts) h
end

end PhpVerif
