import PhpVerif.Lemmas.YYSafe
/-
The state stack of the LALR driver never underflows (C01): a certificate computed by the translator
(Gen/Cert{5,7}.lean: possible predecessors of every state, LR items by their dot position, the goto
relation) is CHECKED against the tables by the decidable condition `certOK`; from the checks the
invariant `PathOK` follows for every stack every run of the driver model builds, and with it:
a reduction always finds its right-hand side on the stack.
-/
namespace PhpVerif

def nthL (l : List (List Nat)) (i : Nat) : List Nat := (l[i]?).getD []

structure StackCert where
  pre : List (List Nat)       -- pre[s]: states that may lie directly below s
  items : List (List Nat)     -- items[s]: codes 64 * π + i
  gotos : List (List Nat)     -- gotos[A]: p₀, g₀, p₁, g₁, …

/-- entry `i` of a table, decoded (0 when out of range: every use is guarded by a range fact) -/
def tget (l : List Nat) (off : Nat) (i : Nat) : Int := dec off ((l[i]?).getD off)

/-- K1: every shift (also of the error token) goes from a recorded predecessor: for the action entry `n` with
    target `ns` whose accessing symbol is the token `t`, every state `p` with `yyPact[p] + t = n` is in `pre[ns]` -/
def k1Pact (pre : List Nat) (off : Nat) (n : Nat) (t : Int) : List Nat → Nat → Bool
  | [], _ => true
  | pv :: r, p => (dec off pv + t != (n : Int) || pre.contains p) && k1Pact pre off n t r (p + 1)

def k1Act (tl : YYTabL) (c : StackCert) : List Nat → Nat → Bool
  | [], _ => true
  | av :: r, n =>
    (let ns := dec tl.off av
     let t := tget tl.chk tl.off ns.toNat
     (decide (t < 1) || k1Pact (nthL c.pre ns.toNat) tl.off n t tl.pact 0)) && k1Act tl c r (n + 1)

/-- the productions state `s` may reduce: its default action, or the actions of its exception row -/
def excaRowActs (e : List Nat) (off : Nat) : Nat → Nat → List Int
  | 0, _ => []
  | f + 1, xi =>
    match e[xi]?, e[xi + 1]? with
    | some a, some b => dec off b :: (if dec off a < 0 then [] else excaRowActs e off f (xi + 2))
    | _, _ => []

def excaActsOf (e : List Nat) (off : Nat) (state : Int) : Nat → Nat → List Int
  | 0, _ => []
  | f + 1, xi =>
    match e[xi]?, e[xi + 1]? with
    | some a, some b =>
      if dec off a == -1 && dec off b == state then excaRowActs e off e.length (xi + 2)
      else excaActsOf e off state f (xi + 2)
    | _, _ => []

def redsOf (tl : YYTabL) (s : Nat) : List Int :=
  let d := tget tl.dflt tl.off s
  if d == -2 then excaActsOf tl.exca tl.off s tl.exca.length 0 else [d]

/-- K2: a state that may reduce π holds the item "all of π's right-hand side is below" -/
def k2 (tl : YYTabL) (c : StackCert) : Bool :=
  (List.range tl.pact.length).all (fun s =>
    (redsOf tl s).all (fun pi => decide (pi ≤ 0) || (nthL c.items s).contains (64 * pi.toNat + (tget tl.r2 tl.off pi.toNat).toNat)))

/-- K3: items move down one stack entry at a time -/
def k3 (c : StackCert) : Bool :=
  (List.range c.pre.length).all (fun u =>
    (nthL c.pre u).all (fun l =>
      (nthL c.items u).all (fun code => code % 64 == 0 || (nthL c.items l).contains (code - 1))))

/-- K4: the bottom state has nothing below it -/
def k4 (c : StackCert) : Bool := (nthL c.items 0).all (fun code => code % 64 == 0)

def gotoPairs : List Nat → List (Nat × Nat)
  | p :: g :: r => (p, g) :: gotoPairs r
  | _ => []

/-- `gotoState` over the list form of the tables -/
def gotoStateL (tl : YYTabL) (lhs exposed : Int) : Int :=
  let g := tget tl.pgo tl.off lhs.toNat
  let j := g + exposed + 1
  if j ≥ tl.last then tget tl.act tl.off g.toNat
  else
    let st := tget tl.act tl.off j.toNat
    if tget tl.chk tl.off st.toNat != -lhs then tget tl.act tl.off g.toNat else st

/-- K5: a state that holds an item with the dot at the start of π has a goto entry for π's left-hand side; every
    goto entry is what the tables compute and is a recorded edge -/
def k5 (tl : YYTabL) (c : StackCert) : Bool :=
  (List.range c.items.length).all (fun p =>
    (nthL c.items p).all (fun code => code % 64 != 0 ||
      ((gotoPairs (nthL c.gotos (tget tl.r1 tl.off (code / 64)).toNat)).any (fun e => e.1 == p)))) &&
  (List.range c.gotos.length).all (fun A =>
    (gotoPairs (nthL c.gotos A)).all (fun e =>
      gotoStateL tl A e.1 == (e.2 : Int) && (nthL c.pre e.2).contains e.1))

def certOK (tl : YYTabL) (c : StackCert) : Bool :=
  c.pre.length == tl.pact.length && c.items.length == tl.pact.length &&
  k1Act tl c tl.act 0 && k2 tl c && k3 c && k4 c && k5 tl c

end PhpVerif
