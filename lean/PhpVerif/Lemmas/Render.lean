import PhpVerif.Model.Render
/-
Lemmas about M-RENDER: what one item appends to the output, for every printer state.
-/
namespace PhpVerif

/-- bytes an item contributes by itself -/
def tokBytes (t : Tok) : Bytes := t.ff.flatMap (·.val) ++ t.val

def itemBytes (lits : Nat → Bytes) : Item → Bytes
  | .tok t => tokBytes t
  | .lit id => lits id
  | .own v => v
  | .htmlOpen => []
  | .htmlClose => []

/-- what the printer may put in front of an item: nothing, `<?php `, a blank, both, or `?>` -/
def glueSet : List Bytes := [[], openTag, [32], openTag ++ [32], closeTag]

theorem writeToken_out (s : PState) (b : Bytes) : (s.writeToken b).out = s.out ++ b := by
  unfold PState.writeToken
  cases b <;> simp

theorem writeTokens_out (s : PState) (ffs : List FF) :
    (ffs.foldl (fun s f => s.writeToken f.val) s).out = s.out ++ ffs.flatMap (·.val) := by
  induction ffs generalizing s with
  | nil => simp
  | cons f r ih => simp [ih, writeToken_out, List.append_assoc]

theorem write_out (s : PState) (b : Bytes) :
    ∃ g ∈ [[], openTag, [32], openTag ++ [32]], (s.write b).out = s.out ++ g ++ b := by
  unfold PState.write
  by_cases hb : b.isEmpty = true
  · refine ⟨[], by simp, ?_⟩
    have : b = [] := by simpa using hb
    simp [this]
  · simp only [hb, Bool.false_eq_true, if_false]
    cases hh : s.html <;> (split <;> (try split) <;> simp_all [List.append_assoc])
    all_goals (try (split <;> simp_all [List.append_assoc]))

theorem glue_of_write {g : Bytes} (h : g ∈ [[], openTag, [32], openTag ++ [32]]) : g ∈ glueSet := by
  simp only [glueSet, List.mem_cons, List.not_mem_nil, or_false] at *
  rcases h with h | h | h | h <;> simp [h]

theorem item_out (lits : Nat → Bytes) (s : PState) (i : Item) :
    ∃ g ∈ glueSet, (s.item lits i).out = s.out ++ g ++ itemBytes lits i := by
  cases i with
  | tok t =>
    refine ⟨[], by simp [glueSet], ?_⟩
    simp [PState.item, writeToken_out, writeTokens_out, itemBytes, tokBytes, List.append_assoc]
  | lit id =>
    obtain ⟨g, hg, h⟩ := write_out s (lits id)
    exact ⟨g, glue_of_write hg, by simpa [PState.item, itemBytes] using h⟩
  | own v =>
    obtain ⟨g, hg, h⟩ := write_out s v
    exact ⟨g, glue_of_write hg, by simpa [PState.item, itemBytes] using h⟩
  | htmlOpen =>
    simp only [PState.item, itemBytes, List.append_nil]
    cases hl : s.last with
    | none => exact ⟨[], by simp [glueSet], by simp⟩
    | some l =>
      simp only
      split
      · exact ⟨[], by simp [glueSet], by simp⟩
      · refine ⟨closeTag, by simp [glueSet], ?_⟩
        simp [PState.write, closeTag, isVarNameByte]
        cases l.getLast? <;> simp
  | htmlClose => exact ⟨[], by simp [glueSet], by simp [PState.item, itemBytes]⟩

/-- every reachable output: the items' own bytes in order, each preceded by a glue from `glueSet` -/
theorem foldl_out (lits : Nat → Bytes) (items : List Item) (s : PState) :
    ∃ gs : List Bytes, gs.length = items.length ∧ (∀ g ∈ gs, g ∈ glueSet) ∧
      (items.foldl (PState.item lits) s).out
        = s.out ++ (gs.zip items).flatMap (fun p => p.1 ++ itemBytes lits p.2) := by
  induction items generalizing s with
  | nil => exact ⟨[], rfl, by simp, by simp⟩
  | cons i r ih =>
    obtain ⟨g, hg, h1⟩ := item_out lits s i
    obtain ⟨gs, hl, hm, h2⟩ := ih (s.item lits i)
    refine ⟨g :: gs, by simp [hl], ?_, ?_⟩
    · intro x hx
      rcases List.mem_cons.1 hx with rfl | hx
      · exact hg
      · exact hm x hx
    · simp [List.foldl_cons, h2, h1, List.append_assoc]

/-- tokens only: `last` after printing a token -/
def lastAfter (last : Option Bytes) (t : Tok) : Option Bytes :=
  (t.ff.map (·.val) ++ [t.val]).foldl (fun l b => if b.isEmpty then l else some b) last

/-- an item sequence in which the printer invents nothing: tokens, and inline-HTML brackets that
    find a close tag (or nothing) before them -/
def tokensOnly : Option Bytes → List Item → Bool
  | _, [] => true
  | last, .tok t :: r => tokensOnly (lastAfter last t) r
  | last, .htmlOpen :: r =>
      (match last with
       | none => true
       | some l => hasSuffix (trimRightNl l) closeTag) && tokensOnly last r
  | last, .htmlClose :: r => tokensOnly last r
  | _, _ => false

theorem writeToken_last (s : PState) (b : Bytes) :
    (s.writeToken b).last = if b.isEmpty then s.last else some b := by
  unfold PState.writeToken; split <;> simp_all

theorem writeTokens_last (s : PState) (bs : List Bytes) :
    (bs.foldl (fun s b => s.writeToken b) s).last
      = bs.foldl (fun l b => if b.isEmpty then l else some b) s.last := by
  induction bs generalizing s with
  | nil => rfl
  | cons b r ih => simp [ih, writeToken_last]

theorem tok_last (lits : Nat → Bytes) (s : PState) (t : Tok) :
    (s.item lits (.tok t)).last = lastAfter s.last t := by
  have := writeTokens_last s (t.ff.map (·.val) ++ [t.val])
  simpa [PState.item, lastAfter, List.foldl_map, List.foldl_append] using this

/-- tokens only ⇒ the output is exactly the concatenation of the token texts -/
theorem tokensOnly_out (lits : Nat → Bytes) (items : List Item) (s : PState)
    (h : tokensOnly s.last items = true) :
    (items.foldl (PState.item lits) s).out = s.out ++ items.flatMap (itemBytes lits) := by
  induction items generalizing s with
  | nil => simp
  | cons i r ih =>
    cases i with
    | tok t =>
      simp only [tokensOnly] at h
      have h' := ih (s.item lits (.tok t)) (by rw [tok_last]; exact h)
      have ho : (s.item lits (.tok t)).out = s.out ++ tokBytes t := by
        simp [PState.item, writeToken_out, writeTokens_out, tokBytes, List.append_assoc]
      rw [List.foldl_cons, h', ho]
      simp [itemBytes, List.append_assoc]
    | lit id => simp [tokensOnly] at h
    | own v => simp [tokensOnly] at h
    | htmlOpen =>
      simp only [tokensOnly, Bool.and_eq_true] at h
      have hs : s.item lits .htmlOpen = { s with html := false } := by
        simp only [PState.item]
        cases hl : s.last with
        | none => rfl
        | some l => simp [hl] at h; simp [h.1]
      have h' := ih { s with html := false } (by simpa using h.2)
      simp [List.foldl_cons, hs, h', itemBytes]
    | htmlClose =>
      simp only [tokensOnly] at h
      have h' := ih { s with html := true } (by simpa using h)
      simp [List.foldl_cons, PState.item, h', itemBytes]

end PhpVerif
