import PhpVerif.Model.Actions
namespace PhpVerif

theorem refLt_trans {a b c : Ref} (h1 : refLt a b = true) (h2 : refLt b c = true) : refLt a c = true := by
  simp only [refLt, Bool.or_eq_true, Bool.and_eq_true, decide_eq_true_eq, beq_iff_eq] at *
  omega

theorem refLt_irrefl (a : Ref) : refLt a a = false := by
  simp [refLt]

/-- `incr` is strict sortedness -/
theorem incr_pairwise : ∀ (l : List Ref), incr l = true → l.Pairwise (fun a b => refLt a b = true)
  | [], _ => List.Pairwise.nil
  | [_], _ => by simp
  | a :: b :: r, h => by
    simp only [incr, Bool.and_eq_true] at h
    have ih := incr_pairwise (b :: r) h.2
    rw [List.pairwise_cons]
    refine ⟨?_, ih⟩
    intro c hc
    rcases List.mem_cons.mp hc with rfl | hc'
    · exact h.1
    · exact refLt_trans h.1 (List.rel_of_pairwise_cons ih hc')

/-- a strictly sorted list has no repetition: no right-hand-side value is stored twice -/
theorem incr_nodup (l : List Ref) (h : incr l = true) : l.Nodup := by
  have hp := incr_pairwise l h
  refine List.Pairwise.imp ?_ hp
  intro a b hab heq
  subst heq
  simp [refLt_irrefl] at hab

theorem distinct_nodup : ∀ (l : List Ref), distinct l = true → l.Nodup
  | [], _ => List.nodup_nil
  | a :: r, h => by
    simp only [distinct, Bool.and_eq_true, Bool.not_eq_true', List.contains_eq_mem, decide_eq_false_iff_not] at h
    exact List.nodup_cons.mpr ⟨h.1, distinct_nodup r h.2⟩

theorem cover_spec (p : PathSum) (h : coverOK p = true) (r : Ref) (hr : r ∈ p.need) (he : r.1 ∉ p.exempt) :
    r ∈ p.used := by
  have := List.all_eq_true.mp h r hr
  simp only [Bool.or_eq_true, List.contains_eq_mem, decide_eq_true_eq] at this
  rcases this with h1 | h2
  · exact absurd h1 he
  · exact h2

end PhpVerif
