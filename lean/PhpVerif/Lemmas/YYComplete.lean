import PhpVerif.Lemmas.YYSafe
/-
"A silent parse is a complete parse" for the goyacc driver model (Model/YY.lean), for every token
sequence and any tables that satisfy the decidable condition `eofFacts`:

  * the driver accepts only with the end-of-input token as lookahead (`accept_la`);
  * the end-of-input token is what `yylex1` makes of a character ≤ 0 and of nothing else (`yylex1_eof`);
  * the end-of-input token is never shifted (`shift_not_eof`).

`Props/Complete.lean` evaluates `eofFacts` on the regenerated tables and concludes: a run that returns 0
without having reported an error has shifted every token of the input, once, in order.
-/
namespace PhpVerif
variable {α σ : Type}

theorem rd_inv {tb : Nat} {l : List Nat} {off : Nat} {i v : Int} (h : rd tb l.toArray off i = .ok v) :
    0 ≤ i ∧ ∃ x, l[i.toNat]? = some x ∧ v = dec off x := by
  unfold rd at h
  split at h
  · cases h
  · rename_i hi
    split at h
    · rename_i x hx
      cases h
      refine ⟨by omega, x, ?_, rfl⟩
      simpa using hx
    · cases h

/-- a predicate on the (decoded) pairs of a table laid out as pairs -/
def pairsAll (p : Int → Int → Bool) (off : Nat) : List Nat → Bool
  | a :: b :: r => p (dec off a) (dec off b) && pairsAll p off r
  | _ => true

theorem pairsAll_spec {p : Int → Int → Bool} {off : Nat} : ∀ {l : List Nat}, pairsAll p off l = true →
    ∀ (m : Nat) (a b : Nat), l[2 * m]? = some a → l[2 * m + 1]? = some b → p (dec off a) (dec off b) = true
  | [], _, m, a, b, ha, _ => by simp at ha
  | [_], _, m, a, b, _, hb => by simp at hb
  | x :: y :: r, h, m, a, b, ha, hb => by
    simp only [pairsAll, Bool.and_eq_true] at h
    cases m with
    | zero =>
      simp at ha hb
      subst ha; subst hb
      exact h.1
    | succ m =>
      have e1 : 2 * (m + 1) = (2 * m) + 1 + 1 := by omega
      have e2 : 2 * (m + 1) + 1 = (2 * m + 1) + 1 + 1 := by omega
      rw [e1] at ha
      rw [e2] at hb
      simp only [List.getElem?_cons_succ] at ha hb
      exact pairsAll_spec h.2 m a b ha hb

/-- the decidable condition on the tables -/
def eofFacts (t : YYTabL) : Bool :=
  pairsAll (fun a b => decide (0 ≤ b) || a == (t.eofCode : Int)) t.off t.exca
  && t.tok1.head? == some (t.eofCode + t.off)
  && t.tok1.tail.all (fun v => v != t.eofCode + t.off)
  && t.tok2.all (fun v => v != t.eofCode + t.off)
  && t.tok3.all (fun v => v != t.eofCode + t.off)
  && t.eofCode != 0
  && t.chk.all (fun v => v != t.eofCode + t.off)      -- no state is entered by shifting the end-of-input token

section facts
variable {tl : YYTabL}

structure EofFacts (tl : YYTabL) : Prop where
  exca : pairsAll (fun a b => decide (0 ≤ b) || a == (tl.eofCode : Int)) tl.off tl.exca = true
  tok1hd : tl.tok1.head? = some (tl.eofCode + tl.off)
  tok1tl : ∀ v ∈ tl.tok1.tail, v ≠ tl.eofCode + tl.off
  tok2 : ∀ v ∈ tl.tok2, v ≠ tl.eofCode + tl.off
  tok3 : ∀ v ∈ tl.tok3, v ≠ tl.eofCode + tl.off
  eofNZ : tl.eofCode ≠ 0
  noShift : ∀ v ∈ tl.chk, v ≠ tl.eofCode + tl.off

theorem eofFacts_spec (h : eofFacts tl = true) : EofFacts tl := by
  simp only [eofFacts, Bool.and_eq_true, beq_iff_eq, bne_iff_ne, List.all_eq_true, ne_eq] at h
  obtain ⟨⟨⟨⟨⟨⟨h1, h2⟩, h3⟩, h4⟩, h5⟩, h6⟩, h7⟩ := h
  exact ⟨h1, h2, h3, h4, h5, h6, h7⟩

/-! ### the exception table: a negative action stands only under the end-of-input token -/

theorem excaHdr_even (st : Int) : ∀ (f : Nat) (xi xh : Int) (m : Nat), xi = 2 * (m : Int) →
    excaHdr tl.toArr st f xi = .ok xh → ∃ k : Nat, xh = 2 * (k : Int)
  | 0, xi, xh, m, _, h => by simp [excaHdr] at h
  | f + 1, xi, xh, m, hm, h => by
    simp only [excaHdr, bind, Except.bind, pure, Except.pure] at h
    split at h
    · cases h
    · split at h
      · cases h
      · split at h
        · cases h; exact ⟨m, hm⟩
        · exact excaHdr_even st f (xi + 2) xh (m + 1) (by omega) h

theorem excaRow_spec (tk : Int) : ∀ (f : Nat) (xi xj : Int) (m : Nat), xi = 2 * (m : Int) →
    excaRow tl.toArr tk f xi = .ok xj →
    ∃ k : Nat, xj = 2 * (k : Int) ∧ ∃ a, tl.toArr.Exca xj = .ok a ∧ (a < 0 ∨ a = tk)
  | 0, xi, xj, m, _, h => by simp [excaRow] at h
  | f + 1, xi, xj, m, hm, h => by
    simp only [excaRow, bind, Except.bind, pure, Except.pure] at h
    split at h
    · cases h
    · rename_i a ha
      split at h
      · rename_i hc
        cases h
        refine ⟨m, hm, a, ha, ?_⟩
        simpa using hc
      · exact excaRow_spec tk f (xi + 2) xj (m + 1) (by omega) h

theorem excaLookup_neg (hf : EofFacts tl) (st tk r : Int) (h : excaLookup tl.toArr st tk = .ok r) (hr : r < 0) :
    tk = tl.eofCode := by
  simp only [excaLookup, bind, Except.bind] at h
  split at h
  · cases h
  · rename_i xi hxi
    obtain ⟨k0, hk0⟩ := excaHdr_even st _ 0 xi 0 (by simp) hxi
    split at h
    · cases h
    · rename_i xj hxj
      obtain ⟨k, hk, a, ha, hat⟩ := excaRow_spec tk _ (xi + 2) xj (k0 + 1) (by omega) hxj
      obtain ⟨_, x, hx, hax⟩ := rd_inv (l := tl.exca) (by simpa [YYTab.Exca, YYTabL.toArr] using ha)
      obtain ⟨_, y, hy, hry⟩ := rd_inv (l := tl.exca) (by simpa [YYTab.Exca, YYTabL.toArr] using h)
      have e1 : xj.toNat = 2 * k := by omega
      have e2 : (xj + 1).toNat = 2 * k + 1 := by omega
      rw [e1] at hx
      rw [e2] at hy
      have hp := pairsAll_spec hf.exca k x y hx hy
      simp only [Bool.or_eq_true, decide_eq_true_eq, beq_iff_eq] at hp
      cases hp with
      | inl hp => omega
      | inr hp =>
        cases hat with
        | inl hneg =>
          have : (0 : Int) ≤ (tl.eofCode : Int) := Int.natCast_nonneg _
          omega
        | inr heq => omega

end facts
end PhpVerif

namespace PhpVerif
variable {α σ : Type}

section lex
variable {tl : YYTabL}

theorem dec_eq_iff (off x e : Nat) : dec off x = (e : Int) ↔ x = e + off := by
  unfold dec; omega

theorem rd_ne_of_all {tb : Nat} {l : List Nat} {off : Nat} {i v : Int} {e : Nat}
    (hall : ∀ x ∈ l, x ≠ e + off) (h : rd tb l.toArray off i = .ok v) : v ≠ (e : Int) := by
  obtain ⟨_, x, hx, hv⟩ := rd_inv h
  subst hv
  intro hc
  exact hall x (List.mem_of_getElem? hx) ((dec_eq_iff off x e).mp hc)

theorem tok3Loop_ne (hf : EofFacts tl) (c : Int) : ∀ (f : Nat) (i r : Int),
    tok3Loop tl.toArr c f i = .ok r → r = 0 ∨ r ≠ (tl.eofCode : Int)
  | 0, i, r, h => by simp [tok3Loop] at h; exact Or.inl h.symm
  | f + 1, i, r, h => by
    simp only [tok3Loop, bind, Except.bind] at h
    split at h
    · split at h
      · cases h
      · split at h
        · exact Or.inr (rd_ne_of_all (l := tl.tok3) hf.tok3 (by simpa [YYTab.Tok3, YYTabL.toArr] using h))
        · exact tok3Loop_ne hf c f (i + 2) r h
    · cases h; exact Or.inl rfl

theorem yylexTok_pos (hf : EofFacts tl) (c r : Int) (hc : 0 < c) (h : yylexTok tl.toArr c = .ok r) :
    r = 0 ∨ r ≠ (tl.eofCode : Int) := by
  unfold yylexTok at h
  have h0 : ¬ c ≤ 0 := by omega
  simp only [h0, if_false] at h
  split at h
  · -- yyTok1[c], c ≥ 1
    right
    obtain ⟨_, x, hx, hv⟩ := rd_inv (l := tl.tok1) (by simpa [YYTab.Tok1, YYTabL.toArr] using h)
    subst hv
    intro hcq
    have hxe := (dec_eq_iff tl.off x tl.eofCode).mp hcq
    have hmem : x ∈ tl.tok1.tail := by
      cases hl : tl.tok1 with
      | nil => rw [hl] at hx; simp at hx
      | cons a rest =>
        rw [hl] at hx
        have : c.toNat = (c.toNat - 1) + 1 := by omega
        rw [this, List.getElem?_cons_succ] at hx
        simpa using List.mem_of_getElem? hx
    exact hf.tok1tl x hmem hxe
  · split at h
    · exact Or.inr (rd_ne_of_all (l := tl.tok2) hf.tok2 (by simpa [YYTab.Tok2, YYTabL.toArr] using h))
    · -- yyTok3
      simp only [yylexTok3, bind, Except.bind, pure, Except.pure] at h
      split at h
      · cases h
      · rename_i r0 hr0
        split at h
        · cases h
          cases tok3Loop_ne hf c _ 0 r hr0 with
          | inl x => exact Or.inl x
          | inr x => exact Or.inr x
        · unfold tok3Last at h
          split at h
          · cases h; exact Or.inl rfl
          · exact Or.inr (rd_ne_of_all (l := tl.tok3) hf.tok3 (by simpa [YYTab.Tok3, YYTabL.toArr] using h))

/-- only a character ≤ 0 becomes the end-of-input token -/
theorem yylex1_eof (hf : EofFacts tl) (c : Int) (h : yylex1 tl.toArr c = .ok (tl.eofCode : Int)) : c ≤ 0 := by
  by_cases hc : c ≤ 0
  · exact hc
  · exfalso
    simp only [yylex1, bind, Except.bind, pure, Except.pure] at h
    split at h
    · cases h
    · rename_i tk htk
      have hp := yylexTok_pos hf c tk (by omega) htk
      split at h
      · exact rd_ne_of_all (l := tl.tok2) hf.tok2 (by simpa [YYTab.Tok2, YYTabL.toArr] using h) rfl
      · rename_i hne
        cases h
        cases hp with
        | inl x => simp [x] at hne
        | inr x => exact x rfl

/-- and a character ≤ 0 becomes nothing else -/
theorem yylex1_le0 (hf : EofFacts tl) (c tk : Int) (hc : c ≤ 0) (h : yylex1 tl.toArr c = .ok tk) : tk = (tl.eofCode : Int) := by
  simp only [yylex1, bind, Except.bind, pure, Except.pure] at h
  unfold yylexTok at h
  simp only [hc, if_true] at h
  split at h
  · cases h
  · rename_i t0 ht0
    obtain ⟨_, x, hx, hv⟩ := rd_inv (l := tl.tok1) (by simpa [YYTab.Tok1, YYTabL.toArr] using ht0)
    have hx0 : tl.tok1[0]? = some x := by simpa using hx
    have hhd : x = tl.eofCode + tl.off := by
      have := hf.tok1hd
      cases hl : tl.tok1 with
      | nil => rw [hl] at hx0; simp at hx0
      | cons a rest =>
        rw [hl] at hx0 this
        simp at hx0 this
        omega
    have ht : t0 = (tl.eofCode : Int) := by rw [hv]; exact (dec_eq_iff tl.off x tl.eofCode).mpr hhd
    split at h
    · rename_i hz
      exfalso
      simp [ht] at hz
      exact hf.eofNZ hz
    · cases h; exact ht

end lex
end PhpVerif

namespace PhpVerif
variable {α σ : Type}

/-- the character the lexer hands over for position i (0 after the last token) -/
def charAt (input : Array Nat) (i : Nat) : Int := (((input[i]?).getD 0 : Nat) : Int)

/-- reading at most one token: nothing but the lookahead and the position changes -/
def Lexed (t : YYTab) (input : Array Nat) (s s' : YYSt α σ) : Prop :=
  s' = s ∨ (s.la = none ∧ ∃ tk, yylex1 t (charAt input s.pos) = .ok tk ∧ s' = { s with la := some tk, pos := s.pos + 1 })

theorem ensureLA_lexed (t : YYTab) (input : Array Nat) (s s' : YYSt α σ) (tk : Int)
    (h : ensureLA t input s = .ok (s', tk)) : Lexed t input s s' ∧ s'.la = some tk := by
  unfold ensureLA at h
  split at h
  · rename_i tk' hla
    cases h
    exact ⟨Or.inl rfl, hla⟩
  · rename_i hla
    simp only [bind, Except.bind, pure, Except.pure] at h
    split at h
    · cases h
    · rename_i tk' htk
      cases h
      exact ⟨Or.inr ⟨hla, tk, htk, rfl⟩, rfl⟩

theorem Lexed.la_some {t : YYTab} {input : Array Nat} {s s' : YYSt α σ} (h : Lexed t input s s') (hs : s.la.isSome = true) : s' = s := by
  cases h with
  | inl x => exact x
  | inr x => rw [x.1] at hs; cases hs

theorem Lexed.trans {t : YYTab} {input : Array Nat} {a b c : YYSt α σ} (h1 : Lexed t input a b) (h2 : Lexed t input b c) :
    Lexed t input a c := by
  cases h1 with
  | inl x => subst x; exact h2
  | inr x =>
    obtain ⟨hla, tk, htk, hb⟩ := x
    have : c = b := h2.la_some (by simp [hb])
    subst this
    exact Or.inr ⟨hla, tk, htk, hb⟩

/-- what a shift decision rests on -/
def ShiftOK (t : YYTab) (st tk ns : Int) : Prop :=
  ∃ pn : Int, t.Pact st = .ok pn ∧ 0 ≤ pn + tk ∧ pn + tk < t.last ∧ t.Act (pn + tk) = .ok ns ∧ t.Chk ns = .ok tk

theorem yyTryShift_facts (t : YYTab) (input : Array Nat) (s s' : YYSt α σ) (st : Int) (r : Option Int)
    (h : yyTryShift t input s st = .ok (s', r)) :
    Lexed t input s s' ∧ (∀ ns, r = some ns → ∃ tk, s'.la = some tk ∧ ShiftOK t st tk ns) := by
  unfold yyTryShift at h
  simp only [bind, Except.bind, pure, Except.pure] at h
  split at h
  · cases h
  · rename_i pn hpn
    split at h
    · cases h
      exact ⟨Or.inl rfl, by intro ns hns; cases hns⟩
    · split at h
      · cases h
      · rename_i x hx
        obtain ⟨s1, tk⟩ := x
        have hl := ensureLA_lexed t input s s1 tk hx
        split at h
        · cases h
          exact ⟨hl.1, by intro ns hns; cases hns⟩
        · rename_i hrange
          split at h
          · cases h
          · rename_i ns hns
            split at h
            · cases h
            · rename_i c hc
              split at h
              · rename_i hceq
                cases h
                refine ⟨hl.1, ?_⟩
                intro ns' hns'
                cases hns'
                have hceq' : c = tk := by simpa using hceq
                subst hceq'
                exact ⟨c, hl.2, ⟨pn, hpn, by omega, by omega, hns, hc⟩⟩
              · cases h
                exact ⟨hl.1, by intro ns hns; cases hns⟩

section facts2
variable {tl : YYTabL}

/-- the end-of-input token is never shifted -/
theorem shift_not_eof (hf : EofFacts tl) (st tk ns : Int) (h : ShiftOK tl.toArr st tk ns) : tk ≠ (tl.eofCode : Int) := by
  obtain ⟨pn, _, _, _, _, hc⟩ := h
  exact rd_ne_of_all (l := tl.chk) hf.noShift (by simpa [YYTab.Chk, YYTabL.toArr] using hc)

end facts2

/-- what the table-driven half of a round establishes -/
structure Decided (t : YYTab) (input : Array Nat) (s s' : YYSt α σ) (st : Int) (m : YYMove) : Prop where
  lexed : Lexed t input s s'
  shift : ∀ ns, m = .shift ns → ∃ tk, s'.la = some tk ∧ ShiftOK t st tk ns
  accept : m = .accept → ∃ tk r, s'.la = some tk ∧ excaLookup t st tk = .ok r ∧ r < 0
  disc : (m = .discard ∨ m = .discardEof) → s'.errflag = 3
  recov : ∀ fresh, m = .recover fresh → fresh = (s'.errflag == 0)

theorem yyDefault_facts (t : YYTab) (input : Array Nat) (s s' : YYSt α σ) (st d yyn : Int)
    (h : yyDefault t input s st = .ok (s', d, yyn)) :
    Lexed t input s s' ∧ (d = -2 → ∃ tk, s'.la = some tk ∧ excaLookup t st tk = .ok yyn) := by
  unfold yyDefault at h
  simp only [bind, Except.bind, pure, Except.pure] at h
  split at h
  · cases h
  · rename_i d0 hd0
    split at h
    · rename_i hd2
      split at h
      · cases h
      · rename_i x hx
        obtain ⟨s1, tk⟩ := x
        have hl := ensureLA_lexed t input s s1 tk hx
        split at h
        · cases h
        · rename_i r hr
          cases h
          exact ⟨hl.1, fun _ => ⟨tk, hl.2, hr⟩⟩
    · rename_i hd2
      cases h
      refine ⟨Or.inl rfl, ?_⟩
      intro hd
      subst hd
      simp at hd2

theorem yyDecide_facts (t : YYTab) (input : Array Nat) (s s' : YYSt α σ) (st : Int) (m : YYMove)
    (h : yyDecide t input s st = .ok (s', m)) : Decided t input s s' st m := by
  unfold yyDecide at h
  simp only [bind, Except.bind, pure, Except.pure] at h
  split at h
  · cases h
  · rename_i x hx
    obtain ⟨s1, sh⟩ := x
    have h1 := yyTryShift_facts t input s s1 st sh hx
    cases sh with
    | some ns =>
      simp only at h
      cases h
      refine ⟨h1.1, ?_, ?_, ?_, ?_⟩
      · intro ns' hm; cases hm; exact h1.2 ns rfl
      · intro hm; cases hm
      · intro hm; rcases hm with x | x <;> cases x
      · intro _ hm; cases hm
    | none =>
      simp only at h
      split at h
      · cases h
      · rename_i y hy
        obtain ⟨s2, d, yyn⟩ := y
        have h2 := yyDefault_facts t input s1 s2 st d yyn hy
        have h12 : Lexed t input s s2 := h1.1.trans h2.1
        split at h
        · rename_i hacc
          cases h
          have hd : d = -2 := by simpa using hacc.1
          have hn : yyn < 0 := by simpa using hacc.2
          obtain ⟨tk, hla, hex⟩ := h2.2 hd
          refine ⟨h12, ?_, ?_, ?_, ?_⟩
          · intro _ hm; cases hm
          · intro _; exact ⟨tk, yyn, hla, hex, hn⟩
          · intro hm; rcases hm with x | x <;> cases x
          · intro _ hm; cases hm
        · split at h
          · split at h
            · rename_i hef
              have hef' : s2.errflag = 3 := by simpa using hef
              split at h
              · cases h
                refine ⟨h12, ?_, ?_, ?_, ?_⟩
                · intro _ hm; cases hm
                · intro hm; cases hm
                · intro _; exact hef'
                · intro _ hm; cases hm
              · cases h
                refine ⟨h12, ?_, ?_, ?_, ?_⟩
                · intro _ hm; cases hm
                · intro hm; cases hm
                · intro _; exact hef'
                · intro _ hm; cases hm
            · cases h
              refine ⟨h12, ?_, ?_, ?_, ?_⟩
              · intro _ hm; cases hm
              · intro hm; cases hm
              · intro hm; rcases hm with x | x <;> cases x
              · intro fresh hm; cases hm; rfl
          · cases h
            refine ⟨h12, ?_, ?_, ?_, ?_⟩
            · intro _ hm; cases hm
            · intro hm; cases hm
            · intro hm; rcases hm with x | x <;> cases x
            · intro _ hm; cases hm

end PhpVerif

namespace PhpVerif
variable {α σ : Type}

/-- token indices shifted, newest first (the trace is kept newest first) -/
def shiftIdx : List YYEv → List Nat
  | [] => []
  | .shift i _ :: r => i :: shiftIdx r
  | _ :: r => shiftIdx r

/-- no syntax error was reported -/
def noSaw (tr : List YYEv) : Prop := ∀ e ∈ tr, ∀ a b, e ≠ .saw a b

def laBit (s : YYSt α σ) : Nat := if s.la.isSome then 1 else 0

theorem noSaw_cons {e : YYEv} {tr : List YYEv} (h : noSaw (e :: tr)) : noSaw tr :=
  fun x hx => h x (List.mem_cons_of_mem _ hx)

theorem noSaw_suffix {a b : List YYEv} (hs : a <:+ b) (h : noSaw b) : noSaw a :=
  fun x hx => h x (hs.subset hx)

theorem errPop_trace (t : YYTab) : ∀ (stk : List (Int × α)) (tr : List YYEv) (r : Option (Int × List (Int × α))) (tr' : List YYEv),
    errPop t stk tr = .ok (r, tr') → tr <:+ tr'
  | [], tr, r, tr', h => by simp [errPop] at h; rw [h.2]; exact List.suffix_refl _
  | (s0, v) :: rest, tr, r, tr', h => by
    unfold errPop at h
    split at h
    · cases h
    · cases h; exact List.suffix_refl _
    · exact List.IsSuffix.trans (List.suffix_cons _ _) (errPop_trace t rest _ r tr' h)

section inv
variable (tl : YYTabL) (input : Array Nat)

/-- the invariant of a run: the lookahead is what `yylex1` made of the last character read; as long as no
    error was reported the error flag is down and the tokens shifted are 0, 1, 2, … up to the lookahead -/
structure CInv (s : YYSt α σ) : Prop where
  la : ∀ tk, s.la = some tk → 1 ≤ s.pos ∧ yylex1 tl.toArr (charAt input (s.pos - 1)) = .ok tk
  silent : noSaw s.trace → s.errflag = 0 ∧ shiftIdx s.trace = (List.range (s.pos - laBit s)).reverse ∧ s.pos - laBit s ≤ input.size

theorem CInv.lexed {s s' : YYSt α σ} (hi : CInv tl input s) (h : Lexed tl.toArr input s s') : CInv tl input s' := by
  cases h with
  | inl x => subst x; exact hi
  | inr x =>
    obtain ⟨hla, tk, htk, hs⟩ := x
    subst hs
    constructor
    · intro tk' h'
      have : tk = tk' := by simpa using h'
      subst this
      exact ⟨by simp, by simpa using htk⟩
    · intro hn
      have := hi.silent hn
      simp only [laBit, hla, Option.isSome_none] at this
      simpa [laBit] using this

theorem charAt_pos_lt (hin : ∀ i (h : i < input.size), input[i] ≠ 0) (i : Nat) (h : 0 < charAt input i) : i < input.size := by
  unfold charAt at h
  by_cases hi : i < input.size
  · exact hi
  · have : input[i]? = none := by simp; omega
    simp [this] at h

theorem charAt_le0 (hin : ∀ i (h : i < input.size), input[i] ≠ 0) (i : Nat) (h : charAt input i ≤ 0) : input.size ≤ i := by
  unfold charAt at h
  by_cases hi : i < input.size
  · have h1 : input[i]? = some input[i] := by simp [hi]
    have h2 := hin i hi
    simp [h1] at h
    omega
  · omega

theorem range_rev_succ (n : Nat) : (List.range (n + 1)).reverse = n :: (List.range n).reverse := by
  simp [List.range_succ]

variable {tl input}

theorem yyStep_cinv (hf : EofFacts tl) (hin : ∀ i (h : i < input.size), input[i] ≠ 0) (sem : YYSem α σ)
    (s : YYSt α σ) (r : YYRes α σ) (hi : CInv tl input s) (h : yyStep tl.toArr sem input s = .ok r) :
    CInv tl input (resState r) ∧
    (∀ s', r = .done 0 s' → noSaw s'.trace → shiftIdx s'.trace = (List.range input.size).reverse) := by
  unfold yyStep at h
  split at h
  · cases h
  · rename_i st v rst hstk
    split at h
    · cases h
    · rename_i s1 m hd
      have dc := yyDecide_facts tl.toArr input s s1 st m hd
      have h1 : CInv tl input s1 := hi.lexed tl input dc.lexed
      cases m with
      | shift ns =>
        simp only [yyApply, pure, Except.pure] at h
        cases h
        obtain ⟨tk, hla, hok⟩ := dc.shift ns rfl
        have hne := shift_not_eof hf st tk ns hok
        obtain ⟨hp1, hlx⟩ := h1.la tk hla
        have hch : 0 < charAt input (s1.pos - 1) := by
          by_cases hc : charAt input (s1.pos - 1) ≤ 0
          · exact absurd (yylex1_le0 hf _ tk hc hlx) hne
          · omega
        have hlt := charAt_pos_lt input hin _ hch
        refine ⟨⟨?_, ?_⟩, ?_⟩
        · intro tk' h'; simp [resState] at h'
        · intro hn
          have hn1 : noSaw s1.trace := noSaw_cons hn
          obtain ⟨he, hsh, _⟩ := h1.silent hn1
          have hb : laBit s1 = 1 := by simp [laBit, hla]
          rw [hb] at hsh
          refine ⟨by simp [resState, he], ?_, ?_⟩
          · simp only [resState, shiftIdx, laBit, Option.isSome_none, hsh]
            have : s1.pos - 0 = (s1.pos - 1) + 1 := by omega
            simp only [Bool.false_eq_true, if_false]
            rw [this, range_rev_succ]
          · simp only [resState, laBit, Option.isSome_none, Bool.false_eq_true, if_false]
            omega
        · intro s' hs'; cases hs'
      | accept =>
        simp only [yyApply, pure, Except.pure] at h
        cases h
        obtain ⟨tk, r0, hla, hex, hr0⟩ := dc.accept rfl
        have htk := excaLookup_neg hf st tk r0 hex hr0
        subst htk
        obtain ⟨hp1, hlx⟩ := h1.la _ hla
        have hc := yylex1_eof hf _ hlx
        have hsz := charAt_le0 input hin _ hc
        have hb : laBit s1 = 1 := by simp [laBit, hla]
        refine ⟨⟨?_, ?_⟩, ?_⟩
        · intro tk' h'; exact h1.la tk' (by simpa [resState] using h')
        · intro hn
          exact h1.silent (noSaw_cons hn)
        · intro s' hs' hn
          cases hs'
          obtain ⟨_, hsh, hle⟩ := h1.silent (noSaw_cons hn)
          rw [hb] at hsh hle
          have : s1.pos - 1 = input.size := by omega
          simp only [shiftIdx]
          rw [hsh, this]
      | discardEof =>
        simp only [yyApply, pure, Except.pure] at h
        cases h
        have he := dc.disc (Or.inr rfl)
        refine ⟨⟨?_, ?_⟩, ?_⟩
        · intro tk' h'; exact h1.la tk' (by simpa [resState] using h')
        · intro hn
          have := (h1.silent (noSaw_cons (noSaw_cons hn))).1
          omega
        · intro s' hs'; cases hs'
      | discard =>
        simp only [yyApply, pure, Except.pure] at h
        cases h
        have he := dc.disc (Or.inl rfl)
        refine ⟨⟨?_, ?_⟩, ?_⟩
        · intro tk' h'; simp [resState] at h'
        · intro hn
          have := (h1.silent (noSaw_cons hn)).1
          omega
        · intro s' hs'; cases hs'
      | recover fresh =>
        have hfr := dc.recov fresh rfl
        simp only [yyApply, bind, Except.bind, pure, Except.pure] at h
        split at h
        · cases h
        · rename_i x hx
          obtain ⟨res, tr⟩ := x
          have hsuf := errPop_trace tl.toArr _ _ res tr hx
          -- a silent trace is impossible after a recovery
          have hcontra : noSaw tr → False := by
            intro hn
            have hn0 := noSaw_suffix hsuf hn
            cases fresh with
            | true =>
              exact hn0 (.saw st (s1.la.getD (-1))) (by simp) _ _ rfl
            | false =>
              have hn1 : noSaw s1.trace := by simpa using hn0
              have := (h1.silent hn1).1
              simp [this] at hfr
          cases res with
          | none =>
            simp only at h
            cases h
            refine ⟨⟨?_, ?_⟩, ?_⟩
            · intro tk' h'
              cases fresh <;> exact h1.la tk' (by simpa [resState] using h')
            · intro hn; exact (hcontra (noSaw_cons hn)).elim
            · intro s' hs'; cases hs'
          | some p =>
            obtain ⟨ns, st'⟩ := p
            simp only at h
            cases h
            refine ⟨⟨?_, ?_⟩, ?_⟩
            · intro tk' h'
              cases fresh <;> exact h1.la tk' (by simpa [resState] using h')
            · intro hn; exact (hcontra (noSaw_cons hn)).elim
            · intro s' hs'; cases hs'
      | reduce yyn =>
        simp only [yyApply, bind, Except.bind, pure, Except.pure] at h
        split at h
        · cases h
        · split at h
          · cases h
          · split at h
            · cases h
            · split at h
              · cases h
              · split at h
                · cases h
                · split at h
                  · cases h
                  · cases h
                    refine ⟨⟨?_, ?_⟩, ?_⟩
                    · intro tk' h'; exact h1.la tk' (by simpa [resState] using h')
                    · intro hn
                      exact h1.silent (noSaw_cons hn)
                    · intro s' hs'; cases hs'

theorem yyInit_cinv (sem : YYSem α σ) (aux : σ) : CInv tl input (yyInit sem aux) := by
  constructor
  · intro tk h; simp [yyInit] at h
  · intro _; simp [yyInit, shiftIdx, laBit]

/-- a run that returns 0 and reported no error shifted every token of the input, once, in order -/
theorem yyRun_complete (hf : EofFacts tl) (hin : ∀ i (h : i < input.size), input[i] ≠ 0) (sem : YYSem α σ) :
    ∀ (n : Nat) (s s' : YYSt α σ), CInv tl input s → yyRun tl.toArr sem input n s = .ok (some 0, s') →
    noSaw s'.trace → (shiftIdx s'.trace).reverse = List.range input.size
  | 0, s, s', _, h, _ => by simp [yyRun] at h
  | n + 1, s, s', hi, h, hn => by
    simp only [yyRun] at h
    split at h
    · cases h
    · rename_i c s1 hstep
      cases h
      have := (yyStep_cinv hf hin sem s _ hi hstep).2 s' rfl hn
      rw [this, List.reverse_reverse]
    · rename_i s1 hstep
      exact yyRun_complete hf hin sem n s1 s' (yyStep_cinv hf hin sem s _ hi hstep).1 h hn

end inv
end PhpVerif
