/-
SPEC: PHP's operator precedence and associativity, transcribed from the language reference
(https://www.php.net/manual/en/language.operators.precedence.php) in the form of the `%left / %right /
%nonassoc` declarations of PHP's own grammar (Zend/zend_language_parser.y of PHP 7.4 and PHP 5.6),
lowest precedence first.  `T_NOELSE … T_ENDIF` make `else` bind to the nearest `if`.
-/
namespace PhpVerif.Spec

def lvl (n : Nat) (a : String) (xs : List String) : List (Nat × String × String) := xs.map (fun x => (n, a, x))

def phpPrec74 : List (Nat × String × String) :=
  lvl 1 "left" ["T_INCLUDE", "T_INCLUDE_ONCE", "T_EVAL", "T_REQUIRE", "T_REQUIRE_ONCE"] ++
  lvl 2 "left" ["','"] ++
  lvl 3 "left" ["T_LOGICAL_OR"] ++
  lvl 4 "left" ["T_LOGICAL_XOR"] ++
  lvl 5 "left" ["T_LOGICAL_AND"] ++
  lvl 6 "right" ["T_PRINT"] ++
  lvl 7 "right" ["T_YIELD"] ++
  lvl 8 "right" ["T_DOUBLE_ARROW"] ++
  lvl 9 "right" ["T_YIELD_FROM"] ++
  lvl 10 "left" ["'='", "T_PLUS_EQUAL", "T_MINUS_EQUAL", "T_MUL_EQUAL", "T_DIV_EQUAL", "T_CONCAT_EQUAL", "T_MOD_EQUAL",
    "T_AND_EQUAL", "T_OR_EQUAL", "T_XOR_EQUAL", "T_SL_EQUAL", "T_SR_EQUAL", "T_POW_EQUAL", "T_COALESCE_EQUAL"] ++
  lvl 11 "left" ["'?'", "':'"] ++
  lvl 12 "right" ["T_COALESCE"] ++
  lvl 13 "left" ["T_BOOLEAN_OR"] ++
  lvl 14 "left" ["T_BOOLEAN_AND"] ++
  lvl 15 "left" ["'|'"] ++
  lvl 16 "left" ["'^'"] ++
  lvl 17 "left" ["'&'"] ++
  lvl 18 "nonassoc" ["T_IS_EQUAL", "T_IS_NOT_EQUAL", "T_IS_IDENTICAL", "T_IS_NOT_IDENTICAL", "T_SPACESHIP"] ++
  lvl 19 "nonassoc" ["'<'", "T_IS_SMALLER_OR_EQUAL", "'>'", "T_IS_GREATER_OR_EQUAL"] ++
  lvl 20 "left" ["T_SL", "T_SR"] ++
  lvl 21 "left" ["'+'", "'-'", "'.'"] ++
  lvl 22 "left" ["'*'", "'/'", "'%'"] ++
  lvl 23 "right" ["'!'"] ++
  lvl 24 "nonassoc" ["T_INSTANCEOF"] ++
  lvl 25 "right" ["'~'", "T_INC", "T_DEC", "T_INT_CAST", "T_DOUBLE_CAST", "T_STRING_CAST", "T_ARRAY_CAST", "T_OBJECT_CAST",
    "T_BOOL_CAST", "T_UNSET_CAST", "'@'"] ++
  lvl 26 "right" ["T_POW"] ++
  lvl 27 "right" ["'['"] ++
  lvl 28 "nonassoc" ["T_NEW", "T_CLONE"] ++
  lvl 29 "left" ["T_NOELSE"] ++
  lvl 30 "left" ["T_ELSEIF"] ++
  lvl 31 "left" ["T_ELSE"] ++
  lvl 32 "left" ["T_ENDIF"] ++
  lvl 33 "right" ["T_STATIC", "T_ABSTRACT", "T_FINAL", "T_PRIVATE", "T_PROTECTED", "T_PUBLIC"]

def phpPrec56 : List (Nat × String × String) :=
  lvl 1 "left" ["T_INCLUDE", "T_INCLUDE_ONCE", "T_EVAL", "T_REQUIRE", "T_REQUIRE_ONCE"] ++
  lvl 2 "left" ["','"] ++
  lvl 3 "left" ["T_LOGICAL_OR"] ++
  lvl 4 "left" ["T_LOGICAL_XOR"] ++
  lvl 5 "left" ["T_LOGICAL_AND"] ++
  lvl 6 "right" ["T_PRINT"] ++
  lvl 7 "right" ["T_YIELD"] ++
  lvl 8 "left" ["'='", "T_PLUS_EQUAL", "T_MINUS_EQUAL", "T_MUL_EQUAL", "T_DIV_EQUAL", "T_CONCAT_EQUAL", "T_MOD_EQUAL",
    "T_AND_EQUAL", "T_OR_EQUAL", "T_XOR_EQUAL", "T_SL_EQUAL", "T_SR_EQUAL", "T_POW_EQUAL"] ++
  lvl 9 "left" ["'?'", "':'"] ++
  lvl 10 "left" ["T_BOOLEAN_OR"] ++
  lvl 11 "left" ["T_BOOLEAN_AND"] ++
  lvl 12 "left" ["'|'"] ++
  lvl 13 "left" ["'^'"] ++
  lvl 14 "left" ["'&'"] ++
  lvl 15 "nonassoc" ["T_IS_EQUAL", "T_IS_NOT_EQUAL", "T_IS_IDENTICAL", "T_IS_NOT_IDENTICAL"] ++
  lvl 16 "nonassoc" ["'<'", "T_IS_SMALLER_OR_EQUAL", "'>'", "T_IS_GREATER_OR_EQUAL"] ++
  lvl 17 "left" ["T_SL", "T_SR"] ++
  lvl 18 "left" ["'+'", "'-'", "'.'"] ++
  lvl 19 "left" ["'*'", "'/'", "'%'"] ++
  lvl 20 "right" ["'!'"] ++
  lvl 21 "nonassoc" ["T_INSTANCEOF"] ++
  lvl 22 "right" ["'~'", "T_INC", "T_DEC", "T_INT_CAST", "T_DOUBLE_CAST", "T_STRING_CAST", "T_ARRAY_CAST", "T_OBJECT_CAST",
    "T_BOOL_CAST", "T_UNSET_CAST", "'@'"] ++
  lvl 23 "right" ["T_POW"] ++
  lvl 24 "right" ["'['"] ++
  lvl 25 "nonassoc" ["T_NEW", "T_CLONE"] ++
  lvl 26 "left" ["T_ELSEIF"] ++
  lvl 27 "left" ["T_ELSE"] ++
  lvl 28 "left" ["T_ENDIF"] ++
  lvl 29 "right" ["T_STATIC", "T_ABSTRACT", "T_FINAL", "T_PRIVATE", "T_PROTECTED", "T_PUBLIC"]

/-- productions that take their precedence from another token: unary plus and minus bind like `++`;
    an `if` without `else` yields to a following `elseif` / `else` (dangling else) -/
def phpProdPrec74 : List (String × String) :=
  [("if_stmt: if_stmt_without_else", "T_NOELSE"), ("expr_without_variable: '+' expr", "T_INC"), ("expr_without_variable: '-' expr", "T_INC")]

def phpProdPrec56 : List (String × String) :=
  [("expr_without_variable: '+' expr", "T_INC"), ("expr_without_variable: '-' expr", "T_INC")]

end PhpVerif.Spec
