/-
Hand-written expectations about the grammar-action obligations (Model/Actions.lean).

`knownFailing*`: (production, path) pairs whose obligation is FALSE on the pinned tree for a reason
recorded in /verif/known_findings.json — genuine defects that the repository's own tests pin, so
they cannot be repaired without editing tests.  Anything else that fails is a broken obligation.

`assumed*`: (production, path) pairs outside the translated fragment (loops over lists, assignments
through list elements, nested selections).  They are hypotheses of the `_partial` theorems and
are exercised by the grammar-driven oracles.  A production that *becomes* untranslatable is a
broken tie, so the list is pinned as well.
-/
namespace PhpVerif.Spec

/-- php7.y production 479: `${name[expr]}` — NewTokensPosition($1, $3) instead of ($1, $6)
    (known finding C05 pos-end:encaps-var-dim, pinned by TestScalarEncapsed_DollarOpenCurlyBracesDimNumber) -/
def knownFailing7 : List (Nat × Nat) := [(479, 0)]

/-- php5.y production 74: `goto label;` — the label's position is that of the keyword
    (C05 pos-start:php5-goto-label, pinned by TestStmtGotoLabel);
    production 500: same as php7's 479;
    productions 113 and 479, path 0 (`list()` / `array()` holding one empty item): not defects — under the
    path condition `Key == nil && Val == nil && len(Items) == 1` the action resets `Items` to nil, and the
    item it drops is the empty `ExprArrayItem`, which carries no token; the coverage obligation, which
    does not interpret the condition, cannot see that (the executable model does: Model/Term.lean) -/
def knownFailing5 : List (Nat × Nat) := [(74, 0), (113, 0), (479, 0), (500, 0)]

/-- php7.y production 293 (property_list/… re-assigns `$2` before storing it) -/
def assumed7 : List (Nat × Nat) := [(293, 0), (293, 1), (293, 2), (293, 3)]

/-- php5.y: foreach with nested selections (68, 69), the member-access fold loops
    (285, 340, 344, 436, 440, 448, 458) -/
def assumed5 : List (Nat × Nat) :=
  [(68, 0), (68, 2), (68, 4), (68, 5), (69, 0), (69, 2), (69, 4), (69, 5), (285, 0), (340, 0), (344, 0),
   (436, 0), (436, 1), (436, 2), (436, 3), (440, 0), (440, 1), (440, 2), (440, 3), (448, 0), (458, 0)]

end PhpVerif.Spec
