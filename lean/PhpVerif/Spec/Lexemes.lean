/-
SPEC: the fixed spellings of PHP's terminals (lower case; keywords are case-insensitive), from the
language reference's list of tokens.  Terminals whose text varies (names, variables, literals, string
parts) are not listed.
-/
namespace PhpVerif.Spec

def lexemes : List (String × List String) := [
  ("T_INCLUDE", ["include"]), ("T_INCLUDE_ONCE", ["include_once"]), ("T_EXIT", ["exit", "die"]), ("T_IF", ["if"]), ("T_ECHO", ["echo", "<?="]), ("T_DO", ["do"]),
  ("T_WHILE", ["while"]), ("T_ENDWHILE", ["endwhile"]), ("T_FOR", ["for"]), ("T_ENDFOR", ["endfor"]), ("T_FOREACH", ["foreach"]), ("T_ENDFOREACH", ["endforeach"]),
  ("T_DECLARE", ["declare"]), ("T_ENDDECLARE", ["enddeclare"]), ("T_AS", ["as"]), ("T_SWITCH", ["switch"]), ("T_ENDSWITCH", ["endswitch"]), ("T_CASE", ["case"]),
  ("T_DEFAULT", ["default"]), ("T_BREAK", ["break"]), ("T_CONTINUE", ["continue"]), ("T_GOTO", ["goto"]), ("T_FUNCTION", ["function", "cfunction"]), ("T_FN", ["fn"]),
  ("T_CONST", ["const"]), ("T_RETURN", ["return"]), ("T_TRY", ["try"]), ("T_CATCH", ["catch"]), ("T_FINALLY", ["finally"]), ("T_THROW", ["throw"]), ("T_USE", ["use"]),
  ("T_INSTEADOF", ["insteadof"]), ("T_GLOBAL", ["global"]), ("T_VAR", ["var"]), ("T_UNSET", ["unset"]), ("T_ISSET", ["isset"]), ("T_EMPTY", ["empty"]),
  ("T_HALT_COMPILER", ["__halt_compiler"]), ("T_CLASS", ["class"]), ("T_TRAIT", ["trait"]), ("T_INTERFACE", ["interface"]), ("T_EXTENDS", ["extends"]),
  ("T_IMPLEMENTS", ["implements"]), ("T_OBJECT_OPERATOR", ["->"]), ("T_DOUBLE_ARROW", ["=>"]), ("T_LIST", ["list"]), ("T_ARRAY", ["array"]), ("T_CALLABLE", ["callable"]),
  ("T_NAMESPACE", ["namespace"]), ("T_NS_SEPARATOR", ["\\"]), ("T_ELLIPSIS", ["..."]), ("T_EVAL", ["eval"]), ("T_REQUIRE", ["require"]), ("T_REQUIRE_ONCE", ["require_once"]),
  ("T_LOGICAL_OR", ["or"]), ("T_LOGICAL_XOR", ["xor"]), ("T_LOGICAL_AND", ["and"]), ("T_INSTANCEOF", ["instanceof"]), ("T_NEW", ["new"]), ("T_CLONE", ["clone"]),
  ("T_ELSEIF", ["elseif"]), ("T_ELSE", ["else"]), ("T_ENDIF", ["endif"]), ("T_PRINT", ["print"]), ("T_YIELD", ["yield"]), ("T_YIELD_FROM", ["yield from"]),
  ("T_STATIC", ["static"]), ("T_ABSTRACT", ["abstract"]), ("T_FINAL", ["final"]), ("T_PRIVATE", ["private"]), ("T_PROTECTED", ["protected"]), ("T_PUBLIC", ["public"]),
  ("T_INC", ["++"]), ("T_DEC", ["--"]), ("T_PLUS_EQUAL", ["+="]), ("T_MINUS_EQUAL", ["-="]), ("T_MUL_EQUAL", ["*="]), ("T_POW_EQUAL", ["**="]), ("T_DIV_EQUAL", ["/="]),
  ("T_CONCAT_EQUAL", [".="]), ("T_MOD_EQUAL", ["%="]), ("T_AND_EQUAL", ["&="]), ("T_OR_EQUAL", ["|="]), ("T_XOR_EQUAL", ["^="]), ("T_SL_EQUAL", ["<<="]), ("T_SR_EQUAL", [">>="]),
  ("T_COALESCE_EQUAL", ["??="]), ("T_BOOLEAN_OR", ["||"]), ("T_BOOLEAN_AND", ["&&"]), ("T_POW", ["**"]), ("T_SL", ["<<"]), ("T_SR", [">>"]), ("T_COALESCE", ["??"]),
  ("T_IS_IDENTICAL", ["==="]), ("T_IS_NOT_IDENTICAL", ["!=="]), ("T_IS_EQUAL", ["=="]), ("T_IS_NOT_EQUAL", ["!=", "<>"]), ("T_SPACESHIP", ["<=>"]),
  ("T_IS_SMALLER_OR_EQUAL", ["<="]), ("T_IS_GREATER_OR_EQUAL", [">="]), ("T_PAAMAYIM_NEKUDOTAYIM", ["::"]), ("T_INT_CAST", ["(int)", "(integer)"]),
  ("T_DOUBLE_CAST", ["(float)", "(double)", "(real)"]), ("T_STRING_CAST", ["(string)", "(binary)"]), ("T_ARRAY_CAST", ["(array)"]), ("T_OBJECT_CAST", ["(object)"]),
  ("T_BOOL_CAST", ["(bool)", "(boolean)"]), ("T_UNSET_CAST", ["(unset)"]), ("T_CURLY_OPEN", ["{"]), ("T_DOLLAR_OPEN_CURLY_BRACES", ["${"]),
  ("T_CLASS_C", ["__class__"]), ("T_TRAIT_C", ["__trait__"]), ("T_METHOD_C", ["__method__"]), ("T_FUNC_C", ["__function__"]), ("T_LINE", ["__line__"]), ("T_FILE", ["__file__"]),
  ("T_DIR", ["__dir__"]), ("T_NS_C", ["__namespace__"])]

/-- spellings of a terminal: the table above, or the character itself for `'c'` terminals -/
def lexemeOf (sym : String) : List String :=
  match lexemes.find? (fun e => e.1 == sym) with
  | some e => e.2
  | none =>
    if sym.startsWith "'" && sym.length == 3 then [String.ofList ((sym.toList.drop 1).take 1)] else []

end PhpVerif.Spec
