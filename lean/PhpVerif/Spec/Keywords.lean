import PhpVerif.Model.ScanDFA
/-
Hand-written from the PHP manual (List of Keywords, List of Parser Tokens, Type Juggling: casts):
the fixed lexemes of the language and the token each of them is.  Lower-case spellings only —
`Scanner.letter_case_never_matters` carries every entry to every mix of cases.  Names are the
constants of pkg/token/token.go, held as numbers (`nm!`) so that the kernel compares no strings.
-/
namespace PhpVerif.Spec

/-- (lexeme, token name) — reserved words and compile-time constants -/
def keywords : List (List Nat × Nat) := [
  (bytes! "abstract", nm! "T_ABSTRACT"), (bytes! "and", nm! "T_LOGICAL_AND"), (bytes! "array", nm! "T_ARRAY"), (bytes! "as", nm! "T_AS"),
  (bytes! "break", nm! "T_BREAK"), (bytes! "callable", nm! "T_CALLABLE"), (bytes! "case", nm! "T_CASE"), (bytes! "catch", nm! "T_CATCH"),
  (bytes! "class", nm! "T_CLASS"), (bytes! "clone", nm! "T_CLONE"), (bytes! "const", nm! "T_CONST"), (bytes! "continue", nm! "T_CONTINUE"),
  (bytes! "declare", nm! "T_DECLARE"), (bytes! "default", nm! "T_DEFAULT"), (bytes! "die", nm! "T_EXIT"), (bytes! "do", nm! "T_DO"),
  (bytes! "echo", nm! "T_ECHO"), (bytes! "else", nm! "T_ELSE"), (bytes! "elseif", nm! "T_ELSEIF"), (bytes! "empty", nm! "T_EMPTY"),
  (bytes! "enddeclare", nm! "T_ENDDECLARE"), (bytes! "endfor", nm! "T_ENDFOR"), (bytes! "endforeach", nm! "T_ENDFOREACH"),
  (bytes! "endif", nm! "T_ENDIF"), (bytes! "endswitch", nm! "T_ENDSWITCH"), (bytes! "endwhile", nm! "T_ENDWHILE"), (bytes! "eval", nm! "T_EVAL"),
  (bytes! "exit", nm! "T_EXIT"), (bytes! "extends", nm! "T_EXTENDS"), (bytes! "final", nm! "T_FINAL"), (bytes! "finally", nm! "T_FINALLY"),
  (bytes! "fn", nm! "T_FN"), (bytes! "for", nm! "T_FOR"), (bytes! "foreach", nm! "T_FOREACH"), (bytes! "function", nm! "T_FUNCTION"),
  (bytes! "global", nm! "T_GLOBAL"), (bytes! "goto", nm! "T_GOTO"), (bytes! "if", nm! "T_IF"), (bytes! "implements", nm! "T_IMPLEMENTS"),
  (bytes! "include", nm! "T_INCLUDE"), (bytes! "include_once", nm! "T_INCLUDE_ONCE"), (bytes! "instanceof", nm! "T_INSTANCEOF"),
  (bytes! "insteadof", nm! "T_INSTEADOF"), (bytes! "interface", nm! "T_INTERFACE"), (bytes! "isset", nm! "T_ISSET"), (bytes! "list", nm! "T_LIST"),
  (bytes! "namespace", nm! "T_NAMESPACE"), (bytes! "new", nm! "T_NEW"), (bytes! "or", nm! "T_LOGICAL_OR"), (bytes! "print", nm! "T_PRINT"),
  (bytes! "private", nm! "T_PRIVATE"), (bytes! "protected", nm! "T_PROTECTED"), (bytes! "public", nm! "T_PUBLIC"), (bytes! "require", nm! "T_REQUIRE"),
  (bytes! "require_once", nm! "T_REQUIRE_ONCE"), (bytes! "return", nm! "T_RETURN"), (bytes! "static", nm! "T_STATIC"), (bytes! "switch", nm! "T_SWITCH"),
  (bytes! "throw", nm! "T_THROW"), (bytes! "trait", nm! "T_TRAIT"), (bytes! "try", nm! "T_TRY"), (bytes! "unset", nm! "T_UNSET"), (bytes! "use", nm! "T_USE"),
  (bytes! "var", nm! "T_VAR"), (bytes! "while", nm! "T_WHILE"), (bytes! "xor", nm! "T_LOGICAL_XOR"), (bytes! "yield", nm! "T_YIELD"),
  (bytes! "__halt_compiler", nm! "T_HALT_COMPILER"),
  (bytes! "__class__", nm! "T_CLASS_C"), (bytes! "__dir__", nm! "T_DIR"), (bytes! "__file__", nm! "T_FILE"), (bytes! "__function__", nm! "T_FUNC_C"),
  (bytes! "__line__", nm! "T_LINE"), (bytes! "__method__", nm! "T_METHOD_C"), (bytes! "__namespace__", nm! "T_NS_C"), (bytes! "__trait__", nm! "T_TRAIT_C")]

/-- casts -/
def casts : List (List Nat × Nat) := [
  (bytes! "(int)", nm! "T_INT_CAST"), (bytes! "(integer)", nm! "T_INT_CAST"), (bytes! "(bool)", nm! "T_BOOL_CAST"), (bytes! "(boolean)", nm! "T_BOOL_CAST"),
  (bytes! "(float)", nm! "T_DOUBLE_CAST"), (bytes! "(double)", nm! "T_DOUBLE_CAST"), (bytes! "(real)", nm! "T_DOUBLE_CAST"),
  (bytes! "(string)", nm! "T_STRING_CAST"), (bytes! "(binary)", nm! "T_STRING_CAST"), (bytes! "(array)", nm! "T_ARRAY_CAST"),
  (bytes! "(object)", nm! "T_OBJECT_CAST"), (bytes! "(unset)", nm! "T_UNSET_CAST"),
  (bytes! "( int )", nm! "T_INT_CAST"), (bytes! "(\tstring\t)", nm! "T_STRING_CAST"), (bytes! "(  array)", nm! "T_ARRAY_CAST")]

/-- operators of more than one character -/
def operators : List (List Nat × Nat) := [
  (bytes! "=>", nm! "T_DOUBLE_ARROW"), (bytes! "::", nm! "T_PAAMAYIM_NEKUDOTAYIM"), (bytes! "->", nm! "T_OBJECT_OPERATOR"),
  (bytes! "++", nm! "T_INC"), (bytes! "--", nm! "T_DEC"), (bytes! "===", nm! "T_IS_IDENTICAL"), (bytes! "!==", nm! "T_IS_NOT_IDENTICAL"),
  (bytes! "==", nm! "T_IS_EQUAL"), (bytes! "!=", nm! "T_IS_NOT_EQUAL"), (bytes! "<>", nm! "T_IS_NOT_EQUAL"), (bytes! "<=>", nm! "T_SPACESHIP"),
  (bytes! "<=", nm! "T_IS_SMALLER_OR_EQUAL"), (bytes! ">=", nm! "T_IS_GREATER_OR_EQUAL"), (bytes! "+=", nm! "T_PLUS_EQUAL"),
  (bytes! "-=", nm! "T_MINUS_EQUAL"), (bytes! "*=", nm! "T_MUL_EQUAL"), (bytes! "**", nm! "T_POW"), (bytes! "**=", nm! "T_POW_EQUAL"),
  (bytes! "/=", nm! "T_DIV_EQUAL"), (bytes! ".=", nm! "T_CONCAT_EQUAL"), (bytes! "%=", nm! "T_MOD_EQUAL"), (bytes! "<<=", nm! "T_SL_EQUAL"),
  (bytes! ">>=", nm! "T_SR_EQUAL"), (bytes! "&=", nm! "T_AND_EQUAL"), (bytes! "|=", nm! "T_OR_EQUAL"), (bytes! "^=", nm! "T_XOR_EQUAL"),
  (bytes! "??", nm! "T_COALESCE"), (bytes! "??=", nm! "T_COALESCE_EQUAL"), (bytes! "||", nm! "T_BOOLEAN_OR"), (bytes! "&&", nm! "T_BOOLEAN_AND"),
  (bytes! "<<", nm! "T_SL"), (bytes! ">>", nm! "T_SR"), (bytes! "...", nm! "T_ELLIPSIS"), (bytes! "\\", nm! "T_NS_SEPARATOR")]

end PhpVerif.Spec
