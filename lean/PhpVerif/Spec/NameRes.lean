import PhpVerif.Model.Nsr
/-
SPEC: PHP's compile-time name resolution (https://www.php.net/manual/en/language.namespaces.rules.php),
stated over the *history* of use declarations of the current namespace block, not over lookup tables.

 1. Fully qualified names resolve to the name without the leading separator.
 2. Relative names (`namespace\X`) resolve with `namespace` replaced by the current namespace.
 3. Qualified names: if the first segment is a class-like alias (compared case-insensitively), it is
    replaced by what the alias stands for; otherwise the current namespace is prepended.
 4. Unqualified names: looked up among the aliases of their own kind — class-like and function
    aliases case-insensitively, constant aliases case-sensitively — otherwise the current namespace
    is prepended.
 5. self, parent, static and the scalar type names in class position, true/false/null in constant
    position are not names to resolve (they stay as written, lower-cased).
 A later `use` of the same alias replaces an earlier one.
-/
namespace PhpVerif.Spec
open PhpVerif.Nsr

def aliasMatches (k : AKind) (d : UseDecl) (key : Str) : Bool :=
  d.kind == k && (if k == .cst then d.alias == key else lower d.alias == lower key)

/-- the LAST declaration of kind `k` whose alias matches -/
def lastUse : List UseDecl → AKind → Str → Option Str
  | [], _, _ => none
  | d :: r, k, key =>
    match lastUse r k key with
    | some t => some t
    | none => if aliasMatches k d key then some d.target else none

def withNs (nsName : Str) (x : Str) : Str := if nsName.isEmpty then x else nsName ++ [92] ++ x

def phpResolve (nsName : Str) (hist : List UseDecl) (n : NameRef) (k : AKind) : Str :=
  match n with
  | .fq parts => join parts
  | .rel parts => withNs nsName (join parts)
  | .plain [] => withNs nsName []
  | .plain [one] =>
    if k == .cst && specialConst.contains (lower one) then lower one
    else if k == .cls && specialClass.contains (lower one) then lower one
    else (lastUse hist k one).getD (withNs nsName one)
  | .plain (first :: rest) =>
    match lastUse hist .cls first with
    | some t => t ++ [92] ++ join rest
    | none => withNs nsName (join (first :: rest))

/-- the positions at which PHP resolves a name at compile time, as (node kind, field, how) —
    class-like: extends, implements, new, static call / property / constant, instanceof, catch,
    parameter / return / property types, trait use and its adaptations; function calls; constant
    fetches; and the declarations that get a namespaced name -/
def phpResolvedPositions : List String := [
  "ExprArrowFunction.Params[*]:paramtype",
  "ExprArrowFunction.ReturnType:type",
  "ExprClassConstFetch.Class:name:",
  "ExprClosure.Params[*]:paramtype",
  "ExprClosure.ReturnType:type",
  "ExprConstFetch.Const:name:const",
  "ExprFunctionCall.Function:name:function",
  "ExprInstanceOf.Class:name:",
  "ExprNew.Class:name:",
  "ExprStaticCall.Class:name:",
  "ExprStaticPropertyFetch.Class:name:",
  "StmtCatch.Types[*]:name:",
  "StmtClass.Extends:name:",
  "StmtClass.Implements[*]:name:",
  "StmtClass:declare:string(n.Name.(*ast.Identifier).Value)",
  "StmtClassMethod.Params[*]:paramtype",
  "StmtClassMethod.ReturnType:type",
  "StmtConstList.Consts:declare:string(constant.(*ast.StmtConstant).Name.(*ast.Identifier).Value)",
  "StmtFunction.Params[*]:paramtype",
  "StmtFunction.ReturnType:type",
  "StmtFunction:declare:string(n.Name.(*ast.Identifier).Value)",
  "StmtInterface.Extends[*]:name:",
  "StmtInterface:declare:string(n.Name.(*ast.Identifier).Value)",
  "StmtPropertyList.Type:type",
  "StmtTrait:declare:string(n.Name.(*ast.Identifier).Value)",
  "StmtTraitUse.Adaptations>StmtTraitUseAlias.Trait:name:",
  "StmtTraitUse.Adaptations>StmtTraitUsePrecedence.Insteadof[*]:name:",
  "StmtTraitUse.Adaptations>StmtTraitUsePrecedence.Trait:name:",
  "StmtTraitUse.Traits[*]:name:"
]

end PhpVerif.Spec
