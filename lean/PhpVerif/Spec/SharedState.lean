/-
Hand-written expectation for C11 / C13: the package-level variables of the library (every non-test
package except cmd/).  All of them are read-only after initialisation: the generated parsers'
tables and switches (`yyDebug`, `yyErrorVerbose` are never assigned by library code — fact
`globalWritesLib = []`), the sentinel errors, the version range constants, stringer's index table.
A new package-level variable — a cache, a `sync.Pool`, a registry — is state that consecutive or
concurrent pipelines share even if no statement *assigns* to it, so the set itself is pinned.
-/
namespace PhpVerif.Spec

def tableVars (pkg : String) : List String :=
  ["yyAct", "yyChk", "yyDebug", "yyDef", "yyErrorMessages", "yyErrorVerbose", "yyExca", "yyPact", "yyPgo", "yyR1", "yyR2",
   "yyStatenames", "yyTok1", "yyTok2", "yyTok3", "yyToknames"].map (fun v => pkg ++ "." ++ v)

def libPackageVars : List String :=
  tableVars "internal/php5" ++ tableVars "internal/php7" ++
  ["pkg/parser.ErrVersionOutOfRange", "pkg/parser.php5RangeEnd", "pkg/parser.php5RangeStart", "pkg/parser.php7RangeEnd",
   "pkg/parser.php7RangeStart", "pkg/token._ID_index", "pkg/version.ErrInvalidSemVer", "pkg/version.ErrUnsupportedVer",
   "pkg/version.php5RangeEnd", "pkg/version.php5RangeStart", "pkg/version.php7RangeEnd", "pkg/version.php7RangeStart"]

end PhpVerif.Spec
