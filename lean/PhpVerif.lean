import PhpVerif.Model.Tables
import PhpVerif.Model.Tree
