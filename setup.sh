#!/bin/sh
# Build the framework offline from files on disk: translator, Lean project (all property
# modules + the core-only driver executable), Go harness.
set -e
cd "$(dirname "$0")"
export GOFLAGS=-mod=mod GOPROXY=off GOSUMDB=off GOTOOLCHAIN=local
mkdir -p bin .cache evidence replays
(cd tools/gofacts && go build -o ../../bin/gofacts .)
./bin/gofacts -repo "${VERIF_REPO:-/repo}" -out lean/PhpVerif/Gen -json .cache/facts.json -harness harness || true
(cd lean && lake build PhpVerif 2>&1 | tail -5)
if [ -f lean/Driver/Main.lean ]; then (cd lean && lake build driver 2>&1 | tail -3); fi
if [ -d harness ]; then cp "${VERIF_REPO:-/repo}/go.sum" harness/go.sum; (cd harness && go build -tags verif -o ../bin/harness . ) || true; fi
echo setup done
