# per-property wiring of the decision procedure (see DESIGN.md §4)
PROPS = {
    "C12": dict(
        components=["schema", "traverser", "printer", "null"],
        lean=["PhpVerif.Props.C12"],
        diffs=[], oracle="C12", level="proof",
        assumptions=["tree model M-TREE: per-field lists indexed by struct field number; Go interface/pointer identity abstracted to uid"],
    ),
    "C15": dict(
        components=["schema", "printer"],
        lean=["PhpVerif.Props.C15"],
        diffs=[], oracle="C15", level="proof",
        assumptions=[],
    ),
    "C16": dict(
        components=["schema", "dumper"],
        lean=["PhpVerif.Props.C16"],
        diffs=[], oracle="C16", level="proof",
        assumptions=[],
    ),
    "C18": dict(
        components=["pool"],
        lean=["PhpVerif.Props.C18"],
        diffs=["pool"], oracle=None, level="proof",
        assumptions=["a Go pointer &block[i] is modelled as (ordinal of the block allocation, i); distinct make() results do not alias (Go memory model)",
                     "the harness names real pointers through a memory-layout mirror of the Pool struct (block slice header, off)"],
    ),
    "C09": dict(
        components=["version", "facts-version"],
        lean=["PhpVerif.Props.C09"],
        diffs=["version"], oracle="C09", level="proof",
        assumptions=["uint64 segments modelled as Nat below 2^64 (Compare uses only < and >)",
                     "strconv.ParseUint base 10 modelled: non-empty, all ASCII digits, value < 2^64",
                     "version_class rests on T-facts: the pipeline reads the version only in the two InRange dispatches and GreaterOrEqual(7.3)"],
    ),
    "C13": dict(
        components=["facts", "printer", "dumper", "traverser", "null"],
        lean=["PhpVerif.Props.C13"],
        diffs=[], oracle="C13", level="proof",
        assumptions=["purity is a syntactic fact (T-facts): no assignment / inc-dec / append / copy / sort whose destination is reachable from a node or token variable in the five observer files; aliasing through receiver state (a visitor that stores a node and writes through the stored reference later) is outside the scan and is covered by the history oracle only"],
    ),
    "C11": dict(
        components=["facts"],
        lean=["PhpVerif.Props.C11"],
        diffs=[], oracle="C11", level="proof", race=True,
        assumptions=["the Go memory model and scheduler are not modelled: the theorem is non-interference of pipelines that share only read-only state; that the library shares only read-only state is the regenerated fact globalWritesLib = []; data races are searched for with the race detector"],
    ),
    "C04": dict(
        components=["facts"],
        lean=["PhpVerif.Props.C04"],
        diffs=["newlines"], oracle="C04", level="proof",
        assumptions=["M-SCAN (scanner contract, validated on every run by diff-newlines and oracle-C04, not proved): the generated DFA executes new_line at every CR/LF offset it reads, reads offsets without skipping, and consecutive tokens satisfy ts_next = te_prev",
                     "which rule fires for which bytes (token ids, trivia classification) is a property of the 531 generated states: explored by the oracle, no theorem"],
    ),
    "C06": dict(
        components=["facts", "grammar-php7", "grammar-php5"],
        lean=["PhpVerif.Props.C06"],
        diffs=[], oracle="C06", level="proof",
        assumptions=["that the LALR automaton reports an error for every non-sentence is goyacc's table construction (trusted); the theorem supplies the class of inputs that are provably non-sentences (bracket counts)",
                     "ordering of errors and the shape of parser errors are explored by the oracle on the real code"],
    ),
}
