# per-property wiring of the decision procedure (see DESIGN.md §4)
PROPS = {
    "C12": dict(
        components=["schema", "traverser", "printer", "null"],
        lean=["PhpVerif.Props.C12"],
        diffs=[], oracle=None, level="proof",
        assumptions=["tree model M-TREE: per-field lists indexed by struct field number; Go interface/pointer identity abstracted to uid"],
    ),
    "C15": dict(
        components=["schema", "printer"],
        lean=["PhpVerif.Props.C15"],
        diffs=[], oracle=None, level="proof",
        assumptions=[],
    ),
    "C16": dict(
        components=["schema", "dumper"],
        lean=["PhpVerif.Props.C16"],
        diffs=[], oracle=None, level="proof",
        assumptions=[],
    ),
}
