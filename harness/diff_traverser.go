//go:build verif

package main

import (
	"fmt"
	"math/rand"
	"strconv"
	"strings"

	"github.com/z7zmey/php-parser/pkg/ast"
	"github.com/z7zmey/php-parser/pkg/visitor/traverser"
)

func init() {
	commands["diff-traverser"] = diffTraverser
}

// diff-traverser (T-diff of M-TRAV): `traverse` of Model/Traverse.lean over the table regenerated from
// traverser.go against the real traverser driving a recording visitor: the order in which the nodes are
// presented, every node named by its index in declaration-order preorder.

func diffTraverser() *Result {
	r := &Result{Rule: "trees: G-tree instances of all 155 kinds, parsed corpus and grammar-driven sources (7.4 / 5.6); compared: the sequence of nodes handed to the visitor (node = its index in declaration-order preorder); non-trivial = tree with at least 3 nodes"}
	rng := rand.New(rand.NewSource(opts.Seed))
	var lines, real []string
	seen := map[string]bool{}
	nontrivial := 0
	add := func(tag string, root ast.Vertex) {
		if root == nil || isNilVertex(root) {
			return
		}
		var b strings.Builder
		b.WriteString("traverse ")
		if !encodeTree(&b, root) {
			r.inc("skipped:unencodable:" + tag)
			return
		}
		line := b.String()
		if seen[line] {
			r.inc("duplicate-tree")
			return
		}
		seen[line] = true
		idx := map[ast.Vertex]int{}
		n := 0
		shared := false
		walkTree(root, func(v ast.Vertex, _ int) {
			if _, dup := idx[v]; dup {
				shared = true
			}
			idx[v] = n
			n++
		}, 0)
		if shared {
			r.inc("skipped:shared-node:" + tag)
			return
		}
		rec := &Recorder{}
		pan := ""
		func() {
			defer func() {
				if e := recover(); e != nil {
					pan = fmt.Sprint(e)
				}
			}()
			traverser.NewTraverser(rec).Traverse(root)
		}()
		if pan != "" {
			r.inc("skipped:traverser-panic:" + tag)
			return
		}
		var out []string
		for _, v := range rec.Seen {
			i, ok := idx[v]
			if !ok {
				i = -1
			}
			out = append(out, strconv.Itoa(i))
		}
		ans := "-"
		if len(out) > 0 {
			ans = strings.Join(out, ",")
		}
		r.Evaluations++
		r.inc("cases:" + tag)
		if n >= 3 {
			nontrivial++
		}
		lines = append(lines, line)
		real = append(real, ans)
	}
	for _, g := range gtreeCases(rng, opts.Tier == "thorough") {
		add("gtree", g.Root)
	}
	parseAdd := func(src []byte, fam int, tag string) {
		v := ver(7, 4)
		if fam == 5 {
			v = ver(5, 6)
		}
		po := parseSafe(src, v, true)
		if po.Panic != "" || po.Root == nil {
			return
		}
		add(tag, po.Root)
	}
	for _, s := range loadCorpus() {
		fams := []int{s.Family}
		if s.Family == 0 {
			fams = []int{5, 7}
		}
		for _, fam := range fams {
			parseAdd(s.Src, fam, "parsed")
		}
	}
	for i, s := range cfgSentences(rng) {
		if opts.Tier != "thorough" && i%3 != 0 {
			continue
		}
		parseAdd(s, 7, "g-cfg")
		parseAdd(s, 5, "g-cfg")
	}
	nn := 300
	if opts.Tier == "thorough" {
		nn = 5000
	}
	for _, b := range nestedStmtSources(rng, nn) {
		parseAdd(b, 7, "nested-stmts")
		parseAdd(b, 5, "nested-stmts")
	}
	for _, b := range longChainSources() {
		parseAdd(b, 7, "long-chain")
	}
	diffLines(r, lines, real)
	r.DistinctNontrivial = nontrivial
	if len(lines) > 0 {
		r.sample(map[string]interface{}{"op": clip(lines[len(lines)-1], 300), "real": clip(real[len(real)-1], 300)})
	}
	return r
}
