//go:build verif

package main

import (
	"encoding/hex"
	"fmt"
	"math/rand"
	"sort"
	"strings"

	"github.com/z7zmey/php-parser/pkg/ast"
	"github.com/z7zmey/php-parser/pkg/visitor/nsresolver"
	"github.com/z7zmey/php-parser/pkg/visitor/traverser"
)

func init() {
	commands["diff-nsrtree"] = diffNsrTree
}

// diff-nsrtree (T-diff of M-NSRT): the Lean resolver model on a whole tree — the traverser table, the
// instruction lists gofacts regenerates from the resolver's visitor methods, the hand-modelled helpers —
// against `traverser.NewTraverser(nsresolver.NewNamespaceResolver()).Traverse(root)`: the final
// ResolvedNames map, every key named by its path from the root, every value byte for byte; a Go panic
// must be the model's `panic`.  Trees: G-tree instances of every kind, parsed corpus and grammar-driven
// sources (7.4 / 5.6), generated name-resolution programs and files made of several of them (several
// namespaces, bracketed and not, one after the other).

// nodePaths: every node of the tree -> its path "f.i/f.i/…"
func nodePaths(root ast.Vertex) map[ast.Vertex]string {
	out := map[ast.Vertex]string{}
	var rec func(v ast.Vertex, p string)
	rec = func(v ast.Vertex, p string) {
		if _, dup := out[v]; !dup {
			out[v] = p
		}
		for i, f := range fieldsOf(v) {
			sub := func(j int) string {
				s := fmt.Sprintf("%d.%d", i, j)
				if p != "" {
					s = p + "/" + s
				}
				return s
			}
			switch f.Sort {
			case 3:
				if !f.Val.IsNil() {
					c := f.Val.Interface().(ast.Vertex)
					if !isNilVertex(c) {
						rec(c, sub(0))
					}
				}
			case 4:
				for j := 0; j < f.Val.Len(); j++ {
					e := f.Val.Index(j)
					if !e.IsNil() {
						c := e.Interface().(ast.Vertex)
						if !isNilVertex(c) {
							rec(c, sub(j))
						}
					}
				}
			}
		}
	}
	rec(root, "")
	return out
}

func diffNsrTree() *Result {
	r := &Result{Rule: "trees: G-tree instances of all 155 kinds, parsed corpus and grammar-driven sources (7.4 / 5.6), generated name-resolution programs (namespace forms, use / group use of the three kinds, references at every resolved position) and files made of 2-4 of them; compared: the final ResolvedNames map (key = path of the node from the root, value) and panics; non-trivial = at least one entry in the map"}
	rng := rand.New(rand.NewSource(opts.Seed))
	var lines, real []string
	seen := map[string]bool{}
	nontrivial := 0
	entries := 0
	add := func(tag string, root ast.Vertex) {
		if root == nil || isNilVertex(root) {
			return
		}
		var b strings.Builder
		b.WriteString("nsrtree ")
		if !encodeTree(&b, root) {
			r.inc("skipped:unencodable:" + tag)
			return
		}
		line := b.String()
		if seen[line] {
			r.inc("duplicate-tree")
			return
		}
		seen[line] = true
		paths := nodePaths(root)
		shared := false
		cnt := map[string]int{}
		for _, p := range paths {
			cnt[p]++
		}
		n := 0
		walkTree(root, func(ast.Vertex, int) { n++ }, 0)
		if n != len(paths) {
			shared = true // a node reachable twice: the map key is ambiguous
		}
		if shared {
			r.inc("skipped:shared-node:" + tag)
			return
		}
		nsr := nsresolver.NewNamespaceResolver()
		ans := ""
		pan := ""
		func() {
			defer func() {
				if e := recover(); e != nil {
					pan = fmt.Sprint(e)
				}
			}()
			traverser.NewTraverser(nsr).Traverse(root)
		}()
		if pan != "" {
			ans = "panic"
			r.inc("real-panics:" + tag)
		} else {
			var es []string
			for k, v := range nsr.ResolvedNames {
				p, ok := paths[k]
				if !ok {
					p = "?"
				}
				hv := "-"
				if len(v) > 0 {
					hv = hex.EncodeToString([]byte(v))
				}
				es = append(es, p+"="+hv)
			}
			sort.Slice(es, func(i, j int) bool {
				return es[i][:strings.IndexByte(es[i], '=')] < es[j][:strings.IndexByte(es[j], '=')]
			})
			if len(es) == 0 {
				ans = "-"
			} else {
				ans = strings.Join(es, ";")
				nontrivial++
			}
			entries += len(es)
		}
		r.Evaluations++
		r.inc("cases:" + tag)
		lines = append(lines, line)
		real = append(real, ans)
	}
	for _, g := range gtreeCases(rng, opts.Tier == "thorough") {
		add("gtree", g.Root)
	}
	parseAdd := func(src []byte, fam int, tag string) {
		v := ver(7, 4)
		if fam == 5 {
			v = ver(5, 6)
		}
		po := parseSafe(src, v, true)
		if po.Panic != "" || po.Root == nil {
			return
		}
		add(tag, po.Root)
	}
	for _, s := range loadCorpus() {
		fams := []int{s.Family}
		if s.Family == 0 {
			fams = []int{5, 7}
		}
		for _, fam := range fams {
			parseAdd(s.Src, fam, "parsed")
		}
	}
	for i, s := range cfgSentences(rng) {
		if opts.Tier != "thorough" && i%3 != 0 {
			continue
		}
		parseAdd(s, 7, "g-cfg")
		parseAdd(s, 5, "g-cfg")
	}
	n := 600
	if opts.Tier == "thorough" {
		n = 8000
	}
	var progs []string
	for i := 0; i < n; i++ {
		p := genC14(rng)
		progs = append(progs, p.src)
		parseAdd([]byte(p.src), 7, "nsr-program")
	}
	// several namespace blocks in one file
	for i := 0; i < n; i++ {
		k := 2 + rng.Intn(3)
		var b strings.Builder
		b.WriteString("<?php\n")
		for j := 0; j < k; j++ {
			b.WriteString(strings.TrimPrefix(progs[rng.Intn(len(progs))], "<?php\n"))
			b.WriteString("\n")
		}
		parseAdd([]byte(b.String()), 7, "nsr-multi")
	}
	diffLines(r, lines, real)
	r.DistinctNontrivial = nontrivial
	r.stat("entries", entries)
	if len(lines) > 0 {
		r.sample(map[string]interface{}{"op": clip(lines[len(lines)-1], 400), "real": clip(real[len(real)-1], 300)})
	}
	return r
}
