//go:build verif

package main

import (
	"encoding/hex"
	"encoding/json"
	"fmt"
	"math/rand"
	"os"
	"path/filepath"
	"reflect"
	"regexp"
	"strconv"
	"strings"

	"github.com/z7zmey/php-parser/pkg/ast"
	"github.com/z7zmey/php-parser/pkg/token"
)

func init() {
	commands["diff-dumper"] = diffDumper
}

// diff-dumper (T-diff of M-DUMP): the Lean dumper model — the event list `dump` of Model/Dumper.lean over
// the table regenerated from dumper.go — against the real dumper's text, read back line by line into the
// same events (literal headers, labels, positions, token ids, byte values unquoted, list brackets), under
// all four option combinations.  Trees: G-tree instances of every kind, parsed corpus / grammar-driven
// trees with tokens and positions, token-stripped trees.

var internedNames map[string]int

func loadInterned() map[string]int {
	if internedNames != nil {
		return internedNames
	}
	internedNames = map[string]int{}
	b, err := os.ReadFile(filepath.Join(opts.Verif, ".cache", "facts.json"))
	if err != nil {
		return internedNames
	}
	var f struct {
		Names []string `json:"names"`
	}
	if json.Unmarshal(b, &f) == nil {
		for i, n := range f.Names {
			if _, dup := internedNames[n]; !dup {
				internedNames[n] = i
			}
		}
	}
	return internedNames
}

var (
	reDumpHdr   = regexp.MustCompile(`^(?:(\w+): )?&ast\.(\w+)\{$`)
	reDumpTok   = regexp.MustCompile(`^(\w+): &token\.Token\{$`)
	reDumpID    = regexp.MustCompile(`^ID: token\.(\w+|ID\(\d+\)),$`)
	reDumpVal   = regexp.MustCompile(`^(\w+): \[\]byte\((".*")\),$`)
	reDumpList  = regexp.MustCompile(`^(\w+): \[\](ast\.Vertex|\*token\.Token)\{(\},)?$`)
	reDumpPosLn = regexp.MustCompile(`^(StartLine|EndLine|StartPos|EndPos): +(-?\d+),$`)
)

// dumpEvents reads the dumper's text back into the model's events; "" + reason when a line is not understood.
func dumpEvents(text string) (string, string) {
	names := loadInterned()
	lbl := func(s string) string {
		if i, ok := names[s]; ok {
			return "L" + strconv.Itoa(i)
		}
		return "L?" + s
	}
	var ev []string
	lines := strings.Split(strings.TrimSuffix(text, "\n"), "\n")
	for i := 0; i < len(lines); i++ {
		l := strings.TrimLeft(lines[i], "\t")
		switch {
		case l == "},":
			ev = append(ev, "C")
		case l == "{":
			ev = append(ev, "T")
		case l == "Position: &position.Position{":
			if i+5 >= len(lines) {
				return "", "truncated position"
			}
			var vs []string
			for j, want := range []string{"StartLine", "EndLine", "StartPos", "EndPos"} {
				m := reDumpPosLn.FindStringSubmatch(strings.TrimLeft(lines[i+1+j], "\t"))
				if m == nil || m[1] != want {
					return "", "position line: " + lines[i+1+j]
				}
				vs = append(vs, m[2])
			}
			if strings.TrimLeft(lines[i+5], "\t") != "}," {
				return "", "position not closed"
			}
			ev = append(ev, lbl("Position"), "P"+strings.Join(vs, ","))
			i += 5
		case reDumpHdr.MatchString(l):
			m := reDumpHdr.FindStringSubmatch(l)
			if m[1] != "" {
				ev = append(ev, lbl(m[1]))
			}
			if id, ok := names[m[2]]; ok {
				ev = append(ev, "O"+strconv.Itoa(id))
			} else {
				ev = append(ev, "O?"+m[2])
			}
		case reDumpTok.MatchString(l):
			ev = append(ev, lbl(reDumpTok.FindStringSubmatch(l)[1]), "T")
		case reDumpID.MatchString(l):
			n := reDumpID.FindStringSubmatch(l)[1]
			id := -1
			if strings.HasPrefix(n, "ID(") {
				id, _ = strconv.Atoi(n[3 : len(n)-1])
			} else if v, ok := tokenIDs()[n]; ok {
				id = int(v)
			}
			ev = append(ev, lbl("ID"), "I"+strconv.Itoa(id))
		case reDumpVal.MatchString(l):
			m := reDumpVal.FindStringSubmatch(l)
			u, err := strconv.Unquote(m[2])
			if err != nil {
				return "", "unquote: " + m[2]
			}
			h := "-"
			if len(u) > 0 {
				h = hex.EncodeToString([]byte(u))
			}
			ev = append(ev, lbl(m[1]), "V"+h)
		case reDumpList.MatchString(l):
			m := reDumpList.FindStringSubmatch(l)
			k := "0"
			if m[2] != "ast.Vertex" {
				k = "1"
			}
			if m[3] != "" {
				ev = append(ev, lbl(m[1]), "E"+k)
			} else {
				ev = append(ev, lbl(m[1]), "LO"+k)
			}
		default:
			return "", "line not understood: " + l
		}
	}
	return strings.Join(ev, " "), ""
}

// emptyNonNilValues: a token or node whose byte value is non-nil and empty (`Val: []byte("")` in the dump;
// the tree encoding has no place for the difference from nil)
func emptyNonNilValues(root ast.Vertex) bool {
	found := false
	chk := func(t *token.Token) {
		if t == nil {
			return
		}
		if t.Value != nil && len(t.Value) == 0 {
			found = true
		}
		for _, f := range t.FreeFloating {
			if f != nil && f.Value != nil && len(f.Value) == 0 {
				found = true
			}
		}
	}
	walkTree(root, func(v ast.Vertex, _ int) {
		for _, f := range fieldsOf(v) {
			switch f.Sort {
			case 1:
				if !f.Val.IsNil() {
					chk(f.Val.Interface().(*token.Token))
				}
			case 2:
				for i := 0; i < f.Val.Len(); i++ {
					if !f.Val.Index(i).IsNil() {
						chk(f.Val.Index(i).Interface().(*token.Token))
					}
				}
			case 5:
				if !f.Val.IsNil() && f.Val.Len() == 0 {
					found = true
				}
			}
		}
	}, 0)
	return found
}

var _ = reflect.TypeOf

func diffDumper() *Result {
	r := &Result{Rule: "trees: G-tree instances of all 155 kinds (field masks, list lengths, free-floating), parsed corpus and grammar-driven sources (7.4 / 5.6, tokens and positions), parsed trees with tokens removed at random; each under the four option combinations; compared: the complete event sequence of the dump (headers, labels, positions, token ids, byte values, list brackets); non-trivial = tree with at least 2 nodes"}
	rng := rand.New(rand.NewSource(opts.Seed))
	var lines, real []string
	seen := map[string]bool{}
	nontrivial := 0
	add := func(tag string, root ast.Vertex) {
		if root == nil || isNilVertex(root) {
			return
		}
		if emptyNonNilValues(root) {
			r.inc("skipped:empty-non-nil-value:" + tag)
			return
		}
		var b strings.Builder
		if !encodeTreeI(&b, root) {
			r.inc("skipped:unencodable:" + tag)
			return
		}
		enc := b.String()
		if seen[enc] {
			r.inc("duplicate-tree")
			return
		}
		seen[enc] = true
		nodes := 0
		walkTree(root, func(ast.Vertex, int) { nodes++ }, 0)
		for _, o := range [][2]bool{{false, false}, {true, false}, {false, true}, {true, true}} {
			txt, pan := dumpStr(root, o[0], o[1])
			if pan != "" {
				r.inc("skipped:dumper-panic:" + tag)
				continue
			}
			ev, why := dumpEvents(txt)
			if why != "" {
				r.Mismatches = append(r.Mismatches, Mismatch{Op: "read back the dump of " + clip(enc, 300), Model: "", Real: why})
				continue
			}
			ob := func(x bool) string {
				if x {
					return "1"
				}
				return "0"
			}
			lines = append(lines, "dump "+ob(o[0])+ob(o[1])+" "+enc)
			real = append(real, ev)
			r.Evaluations++
			r.inc("cases:" + tag)
			if nodes >= 2 {
				nontrivial++
			}
		}
	}
	for _, g := range gtreeCases(rng, opts.Tier == "thorough") {
		add("gtree", g.Root)
	}
	rounds := 1
	if opts.Tier == "thorough" {
		rounds = 6
	}
	parseAdd := func(src []byte, fam int, tag string) {
		v := ver(7, 4)
		if fam == 5 {
			v = ver(5, 6)
		}
		po := parseSafe(src, v, true)
		if po.Panic != "" || po.Root == nil {
			return
		}
		add(tag, po.Root)
		for k := 0; k < rounds; k++ {
			po2 := parseSafe(src, v, true)
			if po2.Root == nil {
				break
			}
			if stripTokens(rng, po2.Root, []float64{0.3, 0.05, 1.0, 0.6}[k%4]) > 0 {
				add(tag+":stripped", po2.Root)
			}
		}
	}
	for _, s := range loadCorpus() {
		fams := []int{s.Family}
		if s.Family == 0 {
			fams = []int{5, 7}
		}
		for _, fam := range fams {
			parseAdd(s.Src, fam, "parsed")
		}
	}
	for i, s := range cfgSentences(rng) {
		if opts.Tier != "thorough" && i%4 != 0 {
			continue
		}
		parseAdd(s, 7, "g-cfg")
	}
	pre := r.Mismatches
	r.Mismatches = nil
	diffLines(r, lines, real)
	r.Mismatches = append(pre, r.Mismatches...)
	r.DistinctNontrivial = nontrivial
	if len(lines) > 0 {
		r.sample(map[string]interface{}{"op": clip(lines[len(lines)-1], 300), "real": clip(real[len(real)-1], 300)})
	}
	_ = fmt.Sprint
	return r
}
