//go:build verif

package main

import (
	"fmt"

	"github.com/z7zmey/php-parser/pkg/version"
)

func init() {
	commands["oracle-C09"] = oracleC09
}

var heredocInputs = []string{
	"<?php echo <<<A\nfoo\nA;\n",
	"<?php echo <<<A\n  foo\n  A;\n",
	"<?php echo <<<A\n  foo $x\n  A . 'x';\n",
	"<?php echo <<<'A'\n  foo\n  A;\n",
	"<?php echo <<<\"A\"\nfoo\nA\n;",
	"<?php f(<<<A\nx\nA, 1);\n",
	"<?php echo <<<A\nA1\nA;\n",
	"<?php echo <<<A\n A\nA;\n",
	"<?php echo <<<A\n\tx\n\tA;\necho 2;\n",
	"<?php echo <<<A\r\nfoo\r\nA;\r\n",
	"<?php $a = [<<<A\n  a\n  A, <<<B\n b\n B];\n",
	"<?php echo <<<A\nfoo {$a['b']} ${c}\nA;\n",
}

// oracle-C09: (1) every (major, minor) in [0,10]² and huge values: accepted by parser.Parse
// exactly when Validate accepts, and exactly on S; nil = 7.4. (2) for every input, versions of
// one class {5.0..5.6}, {7.0..7.2}, {7.3,7.4} give identical dumps (tokens + positions) and
// identical error lists.
func oracleC09() *Result {
	r := &Result{Rule: "(1) all (major,minor) in [0,10]^2 plus {2^32,2^63,2^64-1}: Parse accepts iff Validate accepts iff in S; (2) corpus + heredoc inputs parsed under every version of a class, full dump and error list compared with the class representative; non-trivial = distinct input with >= 1 PHP token whose class comparison ran"}
	vals := []uint64{0, 1, 2, 3, 4, 5, 6, 7, 8, 9, 10, 1 << 32, 1 << 63, 1<<64 - 1}
	for _, a := range vals {
		for _, b := range vals {
			v := &version.Version{Major: a, Minor: b}
			inS := (a == 5 && b <= 6) || (a == 7 && b <= 4)
			val := v.Validate() == nil
			d := realDispatch(v)
			r.Evaluations++
			acc := d == "php5" || d == "php7"
			if acc != inS || val != inS || (acc && ((a == 5) != (d == "php5"))) {
				r.fail(Failure{Site: "version-set", Kind: "input", Input: fmt.Sprintf("version %d.%d", a, b), Detail: fmt.Sprintf("in S=%v Validate=%v Parse=%s", inS, val, d)})
			}
		}
	}
	if d := realDispatch(nil); d != "php7" {
		r.fail(Failure{Site: "version-nil", Kind: "input", Input: "nil version", Detail: "Parse with nil version gives " + d})
	}
	classes := [][]*version.Version{
		{ver(5, 0), ver(5, 1), ver(5, 2), ver(5, 3), ver(5, 4), ver(5, 5), ver(5, 6)},
		{ver(7, 0), ver(7, 1), ver(7, 2)},
		{ver(7, 3), ver(7, 4)},
	}
	corpus := loadCorpus()
	for _, h := range heredocInputs {
		corpus = append(corpus, Snip{[]byte(h), "heredoc-list", 0})
	}
	max := 250
	if opts.Tier == "thorough" {
		max = len(corpus)
	}
	distinct := 0
	for i, sn := range corpus {
		if i >= max && sn.Origin != "heredoc-list" {
			continue
		}
		ran := false
		for _, cl := range classes {
			var ref, refErrs string
			for j, v := range cl {
				out := parseSafe(sn.Src, v, true)
				r.Evaluations++
				if out.Panic != "" || out.Root == nil {
					continue // C01's business
				}
				d, pan := dumpStr(out.Root, true, true)
				if pan != "" {
					continue
				}
				es := errsStr(out.Errs)
				if j == 0 {
					ref, refErrs = d, es
					continue
				}
				ran = true
				if d != ref || es != refErrs {
					r.fail(Failure{Site: "version-class:" + verStr(cl[0]) + "-" + verStr(cl[len(cl)-1]), Kind: "input", Input: clip(string(sn.Src), 200), Hex: hexOrDash(sn.Src),
						Config: verStr(cl[0]) + " vs " + verStr(v), Detail: "trees or errors differ between two versions of one class"})
				}
			}
		}
		if ran {
			distinct++
		}
	}
	r.DistinctNontrivial = distinct
	r.sample(map[string]string{"input": clip(string(corpus[0].Src), 80), "origin": corpus[0].Origin})
	r.sample(map[string]string{"input": heredocInputs[1], "origin": "heredoc-list"})
	return r
}
