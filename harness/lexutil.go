//go:build verif

package main

import (
	"fmt"

	"github.com/z7zmey/php-parser/pkg/conf"
	"github.com/z7zmey/php-parser/pkg/errors"
	"github.com/z7zmey/php-parser/pkg/token"
	"github.com/z7zmey/php-parser/pkg/verifbridge"
)

type LexTok struct {
	ID    token.ID
	S, E  int
	NFF   int
	Value string
}

// lexAll runs the real scanner alone over src; returns significant tokens (with the number of
// free-floating tokens attached), lexer errors, and a panic string.
func lexAll(src []byte, major, minor uint64) (toks []LexTok, nerr int, pan string) {
	defer func() {
		if e := recover(); e != nil {
			pan = fmt.Sprint(e)
		}
	}()
	cfg := conf.Config{Version: ver(major, minor), ErrorHandlerFunc: func(e *errors.Error) { nerr++ }}
	lx := verifbridge.NewLexer(src, cfg)
	for i := 0; i < len(src)+16; i++ {
		t := lx.Lex()
		if t.ID <= 0 {
			return
		}
		lt := LexTok{ID: t.ID, NFF: len(t.FreeFloating), Value: string(t.Value)}
		if t.Position != nil {
			lt.S, lt.E = t.Position.StartPos, t.Position.EndPos
		}
		toks = append(toks, lt)
	}
	pan = "lexer produced more tokens than input bytes"
	return
}

func idsOf(ts []LexTok) []token.ID {
	out := make([]token.ID, len(ts))
	for i, t := range ts {
		out[i] = t.ID
	}
	return out
}
