//go:build verif

package main

import (
	"fmt"
	"strconv"
	"strings"

	"github.com/z7zmey/php-parser/pkg/conf"
	"github.com/z7zmey/php-parser/pkg/verifbridge"
)

func init() { commands["diff-newlines"] = diffNewLines }

func natsStr(xs []int) string {
	if len(xs) == 0 {
		return "-"
	}
	ss := make([]string, len(xs))
	for i, x := range xs {
		ss[i] = strconv.Itoa(x)
	}
	return strings.Join(ss, ",")
}

// diff-newlines (T-diff, M-NL): NewLines.Append / GetLine on generated tables and offsets, the
// new_line action replayed over generated sources, and the table the real scanner leaves after
// lexing a whole source, against the Lean model (append, getLine, scan, lineStarts).
func diffNewLines() *Result {
	r := &Result{Rule: "exhaustive: Append histories over values 0..4 up to length 4, GetLine on every sorted table over 0..6 x offsets 0..7; random larger; whole sources (corpus, edge list, CR/LF/CRLF mixes): line table after real lexing vs lineStarts(src, final p)"}
	rng := newRand("diff-newlines")
	var lines, real []string
	newNL := func(tab []int) *verifbridge.Lexer {
		lx := verifbridge.NewLexer(nil, conf.Config{})
		for _, x := range tab {
			lx.VerifNewLinesAppend(x)
		}
		return lx
	}
	// Append histories (also unsorted calls)
	var rec func(h []int)
	rec = func(h []int) {
		if len(h) > 0 {
			lx := verifbridge.NewLexer(nil, conf.Config{})
			for _, x := range h[:len(h)-1] {
				lx.VerifNewLinesAppend(x)
			}
			before := lx.VerifNewLinesData()
			lx.VerifNewLinesAppend(h[len(h)-1])
			lines = append(lines, fmt.Sprintf("nlappend %s %d", natsStr(before), h[len(h)-1]))
			real = append(real, natsStr(lx.VerifNewLinesData()))
		}
		if len(h) == 4 {
			return
		}
		for v := 0; v < 5; v++ {
			rec(append(append([]int(nil), h...), v))
		}
	}
	rec(nil)
	// GetLine on sorted tables
	for mask := 0; mask < 1<<7; mask++ {
		var tab []int
		for b := 0; b < 7; b++ {
			if mask&(1<<uint(b)) != 0 {
				tab = append(tab, b)
			}
		}
		lx := newNL(tab)
		for p := 0; p <= 7; p++ {
			lines = append(lines, fmt.Sprintf("nlgetline %s %d", natsStr(tab), p))
			real = append(real, strconv.Itoa(lx.VerifNewLinesGetLine(p)))
		}
	}
	for i := 0; i < 2000; i++ {
		var tab []int
		x := 0
		for j := rng.Intn(40); j > 0; j-- {
			x += 1 + rng.Intn(50)
			tab = append(tab, x)
		}
		lx := newNL(tab)
		p := rng.Intn(x + 60)
		lines = append(lines, fmt.Sprintf("nlgetline %s %d", natsStr(tab), p))
		real = append(real, strconv.Itoa(lx.VerifNewLinesGetLine(p)))
	}
	// whole sources through the real scanner
	var srcs [][]byte
	for _, e := range edgeSources {
		srcs = append(srcs, []byte(e))
		srcs = append(srcs, triviaVariants([]byte(e), rng, 3)...)
	}
	for _, s := range loadCorpus() {
		if len(s.Src) < 4000 {
			srcs = append(srcs, s.Src)
			srcs = append(srcs, triviaVariants(s.Src, rng, 3)...)
		}
	}
	nlAlphabet := []string{"\n", "\r", "\r\n", "a", " ", "'", "\"", "\\", "/*", "*/", "//", "#", "?>", "<?php ", "<<<A\n", "A;", "$a", "{", "}", "`", ";"}
	n := 3000
	if opts.Tier == "thorough" {
		n = 60000
	}
	for i := 0; i < n; i++ {
		var b []byte
		if rng.Intn(3) > 0 {
			b = append(b, "<?php "...)
		}
		for j := 1 + rng.Intn(10); j > 0; j-- {
			b = append(b, nlAlphabet[rng.Intn(len(nlAlphabet))]...)
		}
		srcs = append(srcs, b)
	}
	// whole sources: the scanner may have read ahead of its final position (an unterminated string is
	// scanned to the end and given up), so its table is lineStarts(src, m) for SOME m >= p: it must be a
	// prefix of lineStarts(src, |src|) and contain every line start <= p  (Lean: C04.scan_is_lineStarts
	// speaks about `reach`, the furthest offset read, not about the final p)
	type whole struct {
		src  []byte
		p    int
		real []int
	}
	var wholes []whole
	var wlines []string
	for _, src := range srcs {
		func() {
			defer func() { recover() }()
			lx := verifbridge.NewLexer(src, conf.Config{Version: ver(7, 4)})
			for i := 0; i < len(src)+8; i++ {
				if t := lx.Lex(); t.ID <= 0 {
					break
				}
			}
			st := lx.VerifState()
			m := st.P
			if m > len(src) {
				m = len(src)
			}
			if m < 0 {
				m = 0
			}
			wholes = append(wholes, whole{src, m, lx.VerifNewLinesData()})
			wlines = append(wlines, fmt.Sprintf("nlstarts %s %d", hexOrDash(src), len(src)))
		}()
	}
	if wans, err := modelAnswers(wlines); err != nil {
		r.Mismatches = append(r.Mismatches, Mismatch{Op: "<driver>", Model: err.Error()})
	} else {
		for i, w := range wholes {
			r.Cases++
			var full []int
			if wans[i] != "-" {
				for _, x := range strings.Split(wans[i], ",") {
					v, _ := strconv.Atoi(x)
					full = append(full, v)
				}
			}
			ok := len(w.real) <= len(full)
			for j := 0; ok && j < len(w.real); j++ {
				ok = w.real[j] == full[j]
			}
			for j := len(w.real); ok && j < len(full); j++ {
				if full[j] <= w.p {
					ok = false // a line start the scanner has passed is missing
				}
			}
			if !ok && len(r.Mismatches) < 20 {
				r.Mismatches = append(r.Mismatches, Mismatch{Op: fmt.Sprintf("%s (final p = %d)", wlines[i], w.p), Model: "a prefix of " + wans[i] + " covering every start <= p", Real: natsStr(w.real)})
			}
		}
	}
	diffLines(r, lines, real)
	r.sample(map[string]string{"op": lines[0], "real": real[0]})
	r.sample(map[string]string{"op": clip(lines[len(lines)-1], 200), "real": real[len(real)-1]})
	r.stat("whole_sources", len(srcs))
	return r
}
