//go:build verif

package main

import (
	"math/rand"
	"regexp"
	"sort"
	"strings"

	"github.com/z7zmey/php-parser/pkg/conf"
	"github.com/z7zmey/php-parser/pkg/errors"
	"github.com/z7zmey/php-parser/pkg/verifbridge"
)

// stateTokenInputs: every cell of the LALR action lookup that the sentence corpus can reach.  Each base
// sentence is parsed by the real parser with goyacc's debug trace at level 4, which tells in which
// automaton state every token is first looked at; for every (state, token) pair seen nowhere yet, an
// input is built that reaches the state by the sentence's own prefix and then presents the token:
// prefix + lexeme(token) + rest.  Valid continuations shift, the others exercise the error path
// (message construction over the tables, state popping, discarding) from that state — including the
// cells at the very end of the packed tables.

var reCharIn = regexp.MustCompile(`^char .* in state-(\d+)$`)
var reLexLine = regexp.MustCompile(`^lex .*\((\d+)\)$`)

type stateAt struct {
	state int
	off   int // byte offset where the token starts
}

// statesAtTokens parses src and returns, per significant token, the state on top of the stack when the token was lexed.
func statesAtTokens(src []byte, fam int) []stateAt {
	var mj, mn uint64 = 7, 4
	if fam == 5 {
		mj, mn = 5, 6
	}
	toks, _, pan := lexAll(src, mj, mn)
	if pan != "" {
		return nil
	}
	out := captureStdout(func() {
		defer func() { recover() }()
		cfg := conf.Config{Version: ver(mj, mn), ErrorHandlerFunc: func(e *errors.Error) {}}
		lx := verifbridge.NewLexer(src, cfg)
		var p verifbridge.Parser
		if fam == 5 {
			verifbridge.SetPhp5Debug(4)
			defer verifbridge.SetPhp5Debug(0)
			p = verifbridge.NewPhp5Parser(lx, cfg)
		} else {
			verifbridge.SetPhp7Debug(4)
			defer verifbridge.SetPhp7Debug(0)
			p = verifbridge.NewPhp7Parser(lx, cfg)
		}
		p.Parse()
	})
	var res []stateAt
	cur := 0
	k := 0
	for _, l := range strings.Split(out, "\n") {
		if m := reCharIn.FindStringSubmatch(l); m != nil {
			cur = atoiSafe(m[1])
			continue
		}
		if reLexLine.MatchString(l) {
			if k < len(toks) {
				res = append(res, stateAt{cur, toks[k].S})
			}
			k++
		}
	}
	return res
}

func atoiSafe(s string) int {
	n := 0
	for _, c := range s {
		n = n*10 + int(c-'0')
	}
	return n
}

var stateTokCache = map[int][][]byte{}

func stateTokenInputs(fam int, rng *rand.Rand, bases [][]byte) [][]byte {
	if v, ok := stateTokCache[fam]; ok {
		return v
	}
	var names []string
	for n := range lexemes {
		names = append(names, n)
	}
	sort.Strings(names)
	// single-character tokens
	for _, c := range ";:,.[]()|/^&+-*=%!~$<>?@{}\"`" {
		names = append(names, "'"+string(c)+"'")
	}
	lexOf := func(n string) string {
		if strings.HasPrefix(n, "'") {
			return n[1 : len(n)-1]
		}
		return lexemes[n]
	}
	seen := map[[2]int]bool{}
	var out [][]byte
	for _, b := range bases {
		if len(b) > 400 {
			continue
		}
		sts := statesAtTokens(b, fam)
		for _, sa := range sts {
			for ti, n := range names {
				key := [2]int{sa.state, ti}
				if seen[key] {
					continue
				}
				seen[key] = true
				lx := lexOf(n)
				if lx == "" {
					continue
				}
				in := append([]byte(nil), b[:sa.off]...)
				in = append(in, ' ')
				in = append(in, lx...)
				in = append(in, ' ')
				in = append(in, b[sa.off:]...)
				out = append(out, in)
			}
		}
	}
	stateTokCache[fam] = out
	return out
}
