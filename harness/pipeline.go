//go:build verif

package main

import (
	"bytes"
	"fmt"
	"runtime/debug"
	"strings"

	"github.com/z7zmey/php-parser/pkg/ast"
	"github.com/z7zmey/php-parser/pkg/conf"
	"github.com/z7zmey/php-parser/pkg/errors"
	"github.com/z7zmey/php-parser/pkg/parser"
	"github.com/z7zmey/php-parser/pkg/version"
	"github.com/z7zmey/php-parser/pkg/visitor/dumper"
	"github.com/z7zmey/php-parser/pkg/visitor/printer"
)

type ParseOut struct {
	Root  ast.Vertex
	Err   error
	Errs  []*errors.Error
	Panic string // "" = returned normally
	Site  string // first /repo frame of the panic
}

func ver(major, minor uint64) *version.Version { return &version.Version{Major: major, Minor: minor} }

func verStr(v *version.Version) string {
	if v == nil {
		return "nil"
	}
	return fmt.Sprintf("%d.%d", v.Major, v.Minor)
}

// panicSite extracts the first stack frame inside the repository from a stack trace.
func panicSite(stack string) string {
	lines := strings.Split(stack, "\n")
	for i := 0; i+1 < len(lines); i++ {
		l := lines[i]
		if strings.HasPrefix(l, "github.com/z7zmey/php-parser/") && !strings.Contains(l, "verifbridge") {
			fn := strings.TrimPrefix(l, "github.com/z7zmey/php-parser/")
			if j := strings.LastIndex(fn, "("); j > 0 {
				fn = fn[:j]
			}
			return fn
		}
	}
	return "unknown"
}

// parseSafe runs parser.Parse under recover.
func parseSafe(src []byte, v *version.Version, withCallback bool) (out ParseOut) {
	defer func() {
		if e := recover(); e != nil {
			out.Panic = fmt.Sprint(e)
			out.Site = panicSite(string(debug.Stack()))
		}
	}()
	cfg := conf.Config{Version: v}
	if withCallback {
		cfg.ErrorHandlerFunc = func(e *errors.Error) { out.Errs = append(out.Errs, e) }
	}
	out.Root, out.Err = parser.Parse(src, cfg)
	return
}

func dumpStr(root ast.Vertex, withTokens, withPositions bool) (s string, pan string) {
	defer func() {
		if e := recover(); e != nil {
			pan = fmt.Sprint(e)
		}
	}()
	var b bytes.Buffer
	d := dumper.NewDumper(&b)
	if withTokens {
		d = d.WithTokens()
	}
	if withPositions {
		d = d.WithPositions()
	}
	root.Accept(d)
	return b.String(), ""
}

func printStr(root ast.Vertex) (s string, pan string) {
	defer func() {
		if e := recover(); e != nil {
			pan = fmt.Sprint(e)
		}
	}()
	var b bytes.Buffer
	p := printer.NewPrinter(&b)
	root.Accept(p)
	return b.String(), ""
}

func errsStr(es []*errors.Error) string {
	var b strings.Builder
	for _, e := range es {
		if e.Pos != nil {
			fmt.Fprintf(&b, "%s@%d:%d-%d:%d;", e.Msg, e.Pos.StartLine, e.Pos.StartPos, e.Pos.EndLine, e.Pos.EndPos)
		} else {
			fmt.Fprintf(&b, "%s@nil;", e.Msg)
		}
	}
	return b.String()
}

func clip(s string, n int) string {
	if len(s) > n {
		return s[:n] + "…"
	}
	return s
}
